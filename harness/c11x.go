package main

// C11 layer (d): blocking operations other than a plain nested Do, and message-ID constellations, on REAL connections,
// one message at a time (like layer (b), c11conn.go).
//
//   layer D: a real udp/client.Conn over the in-memory session; ONE goroutine (the datagram reader) calls Conn.Process.
//   layer T: a real tcp/client.Conn over the scripted stream of c11burst.go; one frame per peer write.
//
// A script is a list of items, numbered 1..k in the order in which they are handed to the connection:
//   q / Q        a NON / CON request of the peer (tcp: a request); its handler executes the item's program
//   r            the response (udp: NON 2.05, fresh message ID) to the nested request N<r> that names this position
//   a            (udp) the PIGGYBACKED response (ACK 2.05 carrying the message ID of the request as it was written)
//                to the confirmable nested request C<r> that names this position
//   p            the pong that answers the ping P<r> that names this position (udp: RST with the ping's message ID;
//                tcp: 7.03 with the ping's token, consumed by the socket reader: not a queue message)
//   d<i>         (udp) a retransmitted copy of request item i (the same datagram again)
//   n            the registration response to the observation S<r> that names this position
//   s            a stray response
//   b            (udp) a BARE piggybacked response: ACK with a response code (2.02 Deleted) and NO token, NO options, NO
//                payload, carrying the message ID of the token-less confirmable request W<r> that names this position.
//                It is a message with a code, not an empty acknowledgement: it must reach the application handler.
//                Its dispatch is therefore logged where application handling begins for it - in the connection's
//                handler (Config.Handler) - and not at the ProcessReceivedMessage hook, which it passes before
//                udp/client.Conn.handle decides whether it is "the empty ACK of a separate response" to be discarded.
//   o[<j>] / O[<j>]  a notification (NON / udp: CON) of observation j (default 1), sequence numbers increasing; the observe
//                callback of the connection (net/observation: Handler.Handle -> Observation.handle -> observeFunc, on the
//                reader loop that dispatched the notification) executes the item's program. The observations are
//                registered before the first item (a user goroutine calls Conn.DoObserve; its registration response,
//                sequence number 1, is handed over by the harness and is not an item). d<i> may repeat a notification.
// Programs (after ':'), executed by the application handler / the observe callback on the reader-loop goroutine that
// dispatched the request / the notification:
//   N<r>  blocking nested request (udp: NON GET), response = item r        Nx / Cx / Px: the reply never comes
//   C<r>  (udp) blocking CONFIRMABLE nested request, piggybacked response = item r
//   P<r>  Conn.Ping, pong = item r
//   W<r>  (udp) Conn.WriteMessage of a CONFIRMABLE request WITHOUT token (CON DELETE, no options, no payload; RFC 7252
//         5.3.1 allows the empty token; the application matches the reply itself): blocks in waitForAcknowledge until
//         the acknowledgement = item r, kind b, has been handled by the socket reader
//   S<r>  Conn.DoObserve (the handler registers an observation of its own: blocks until the registration response has
//         been dispatched), registration response = item r, kind n (2.05 with an Observe option; udp: NON request)
// "@<d>" after a request kind (udp) places the peer's message ID d above the connection's own counter as it stood
// when the connection was created (mod 2^16; "c=<counter>" in the prefix sets that counter): @1 is the next ID the
// connection draws. Without it the peer's IDs are own+0x5000+position.
//
// After every item the harness waits for state-change witnesses that its effects have settled (dispatch logged,
// request / ping of the next operation written, blocking call returned, handler finished and its dispatch returned)
// before it hands over the next one. A wait ends early as a stall when the connection is provably quiescent (see
// c11XQuiescent) although the awaited effect has not happened; otherwise it is under the watchdog of c11.go. After a
// stall the remaining items are still handed to the connection (without waiting for effects that cannot come any more)
// and the run ends when the connection is quiescent again: what a stuck connection was given and never dispatched is
// part of the observation.
//
// Descriptor: "X:l=<T|D>,n=<queue size>[,c=<own counter>]|<item> <item> ...", item =
// <position><kind>[<ref>][@<d>][:<ops>]; the position prefix is for the reader only.

import (
	"context"
	"fmt"
	"os"
	"reflect"
	"runtime"
	"strconv"
	"strings"
	"sync"
	"time"
	"unsafe"

	"github.com/plgd-dev/go-coap/v3/message"
	"github.com/plgd-dev/go-coap/v3/message/codes"
	"github.com/plgd-dev/go-coap/v3/message/pool"
	coapNet "github.com/plgd-dev/go-coap/v3/net"
	"github.com/plgd-dev/go-coap/v3/net/responsewriter"
	"github.com/plgd-dev/go-coap/v3/options/config"
	tcpclient "github.com/plgd-dev/go-coap/v3/tcp/client"
	tcpcoder "github.com/plgd-dev/go-coap/v3/tcp/coder"
	"github.com/plgd-dev/go-coap/v3/udp/client"
)

// ---------- scripts ----------

type c11XOp struct {
	kind byte // 'N', 'C', 'P', 'S'
	r    int  // 0 = the reply never comes
}

type c11XItem struct {
	kind   byte // q Q r a p d s o O
	ref    int  // d: the request item that is repeated; o O: the observation
	off    int  // @d
	hasOff bool
	ops    []c11XOp
}

type c11XSpec struct {
	layer byte
	n     int
	ctr   int // own message-ID counter at creation (udp); -1 = default
	items []c11XItem
}

func (sp c11XSpec) desc() string {
	var parts []string
	for i, it := range sp.items {
		var sb strings.Builder
		fmt.Fprintf(&sb, "%d%c", i+1, it.kind)
		if it.kind == 'd' || ((it.kind == 'o' || it.kind == 'O') && it.ref != 1) {
			fmt.Fprintf(&sb, "%d", it.ref)
		}
		if it.hasOff {
			fmt.Fprintf(&sb, "@%d", it.off)
		}
		if len(it.ops) > 0 {
			sb.WriteByte(':')
			for _, op := range it.ops {
				if op.r == 0 {
					fmt.Fprintf(&sb, "%cx", op.kind)
				} else {
					fmt.Fprintf(&sb, "%c%d", op.kind, op.r)
				}
			}
		}
		parts = append(parts, sb.String())
	}
	pre := fmt.Sprintf("X:l=%c,n=%d", sp.layer, sp.n)
	if sp.ctr >= 0 {
		pre += fmt.Sprintf(",c=%d", sp.ctr)
	}
	return pre + "|" + strings.Join(parts, " ")
}

func c11XNum(s string, p int) (int, int) {
	q := p
	for q < len(s) && s[q] >= '0' && s[q] <= '9' {
		q++
	}
	if q == p {
		return -1, p
	}
	v, _ := strconv.Atoi(s[p:q])
	return v, q
}

func parseC11XItems(s string) ([]c11XItem, error) {
	var items []c11XItem
	for _, f := range strings.Fields(s) {
		_, p := c11XNum(f, 0)
		if p >= len(f) || !strings.ContainsRune("qQrapdsoOnb", rune(f[p])) {
			return nil, fmt.Errorf("bad item %q", f)
		}
		it := c11XItem{kind: f[p]}
		p++
		if it.kind == 'd' {
			it.ref, p = c11XNum(f, p)
			if it.ref <= 0 {
				return nil, fmt.Errorf("bad item %q", f)
			}
		}
		if it.kind == 'o' || it.kind == 'O' {
			it.ref = 1
			if v, q := c11XNum(f, p); v > 0 {
				it.ref, p = v, q
			}
			if it.ref > 8 {
				return nil, fmt.Errorf("bad item %q", f)
			}
		}
		if p < len(f) && f[p] == '@' {
			it.off, p = c11XNum(f, p+1)
			if it.off < 0 {
				return nil, fmt.Errorf("bad item %q", f)
			}
			it.hasOff = true
		}
		if p < len(f) {
			if f[p] != ':' {
				return nil, fmt.Errorf("bad item %q", f)
			}
			p++
			for p < len(f) {
				if !strings.ContainsRune("NCPSW", rune(f[p])) {
					return nil, fmt.Errorf("bad program in %q", f)
				}
				op := c11XOp{kind: f[p]}
				p++
				if p < len(f) && f[p] == 'x' {
					p++
				} else {
					op.r, p = c11XNum(f, p)
					if op.r <= 0 {
						return nil, fmt.Errorf("bad program in %q", f)
					}
				}
				it.ops = append(it.ops, op)
			}
		}
		items = append(items, it)
	}
	return items, nil
}

func parseC11XSpec(only string) (c11XSpec, error) {
	sp := c11XSpec{ctr: -1}
	s := strings.TrimPrefix(only, "X:")
	parts := strings.SplitN(s, "|", 2)
	if len(parts) != 2 {
		return sp, fmt.Errorf("no '|' in %q", only)
	}
	sp.n = -1
	for _, kv := range strings.Split(parts[0], ",") {
		f := strings.SplitN(kv, "=", 2)
		if len(f) != 2 {
			continue
		}
		switch f[0] {
		case "l":
			if f[1] == "T" || f[1] == "D" {
				sp.layer = f[1][0]
			}
		case "n":
			sp.n, _ = strconv.Atoi(f[1])
		case "c":
			sp.ctr, _ = strconv.Atoi(f[1])
		}
	}
	if sp.layer == 0 || sp.n < 0 {
		return sp, fmt.Errorf("no layer / queue size in %q", only)
	}
	var err error
	sp.items, err = parseC11XItems(parts[1])
	if err != nil {
		return sp, err
	}
	_, err = sp.plan()
	return sp, err
}

func mustC11X(layer byte, n, ctr int, script string) c11XSpec {
	items, err := parseC11XItems(script)
	if err != nil {
		panic(err)
	}
	sp := c11XSpec{layer: layer, n: n, ctr: ctr, items: items}
	if _, err := sp.plan(); err != nil {
		panic("c11x: invalid script " + script + ": " + err.Error())
	}
	return sp
}

// plan checks a script and computes which operation (request item m, index j) every reply item answers. A reply may
// only stand after the point where its operation has certainly been issued.
func (sp c11XSpec) plan() (map[int][2]int, error) {
	respOf := map[int][2]int{}
	k := len(sp.items)
	want := map[byte]byte{'N': 'r', 'C': 'a', 'P': 'p', 'S': 'n', 'W': 'b'}
	for i, it := range sp.items {
		m := i + 1
		isReq := it.kind == 'q' || it.kind == 'Q'
		isNotif := it.kind == 'o' || it.kind == 'O'
		if (!isReq && !isNotif && len(it.ops) > 0) || (!isReq && it.hasOff) {
			return nil, fmt.Errorf("item %d: only requests and notifications have a program, only requests a placed message ID", m)
		}
		if sp.layer == 'T' && (it.kind == 'a' || it.kind == 'b' || it.kind == 'd' || it.kind == 'Q' || it.kind == 'O' || it.hasOff) {
			return nil, fmt.Errorf("item %d: kind not available on tcp", m)
		}
		if it.kind == 'd' {
			if it.ref >= m || !strings.ContainsRune("qQoO", rune(sp.items[it.ref-1].kind)) {
				return nil, fmt.Errorf("item %d: d%d does not repeat an earlier request / notification", m, it.ref)
			}
		}
		prev := m
		for j, op := range it.ops {
			if sp.layer == 'T' && (op.kind == 'C' || op.kind == 'W') {
				return nil, fmt.Errorf("item %d: C / W not available on tcp", m)
			}
			if op.r == 0 {
				if j != len(it.ops)-1 {
					return nil, fmt.Errorf("item %d: a reply that never comes must belong to the last operation", m)
				}
				continue
			}
			if op.r <= prev || op.r > k || sp.items[op.r-1].kind != want[op.kind] {
				return nil, fmt.Errorf("item %d: %c%d is not a later reply item of the right kind", m, op.kind, op.r)
			}
			if _, dup := respOf[op.r]; dup {
				return nil, fmt.Errorf("item %d: reply %d used twice", m, op.r)
			}
			respOf[op.r] = [2]int{m, j}
			prev = op.r
		}
	}
	for i, it := range sp.items {
		if it.kind == 'r' || it.kind == 'a' || it.kind == 'p' || it.kind == 'n' || it.kind == 'b' {
			if _, ok := respOf[i+1]; !ok {
				return nil, fmt.Errorf("item %d: reply to no operation", i+1)
			}
		}
	}
	return respOf, nil
}

// nObs: number of observations the script uses; seqOf: the sequence number of notification item i (2, 3, ... per observation)
func (sp c11XSpec) nObs() int {
	n := 0
	for _, it := range sp.items {
		if (it.kind == 'o' || it.kind == 'O') && it.ref > n {
			n = it.ref
		}
	}
	return n
}

func (sp c11XSpec) seqOf(i int) int {
	seq := 1
	for x := 1; x <= i; x++ {
		if it := sp.items[x-1]; (it.kind == 'o' || it.kind == 'O') && it.ref == sp.items[i-1].ref {
			seq++
		}
	}
	return seq
}

func c11ObsToken(j int) []byte { return []byte{0x0B, 0x5E, byte(j), 0x77, 0x0B} }

// c11ObsOf: the observation a token belongs to (0 = none)
func c11ObsOf(tok []byte) int {
	if len(tok) == 5 && tok[0] == 0x0B && tok[1] == 0x5E && tok[3] == 0x77 && tok[4] == 0x0B {
		return int(tok[2])
	}
	return 0
}

func c11TCPFrameOpts(code codes.Code, tok []byte, opts message.Options, payload []byte) []byte {
	m := message.Message{Code: code, Token: tok, Options: opts, Payload: payload}
	size, err := tcpcoder.DefaultCoder.Size(m)
	if err != nil {
		panic(err)
	}
	buf := make([]byte, size)
	n, err := tcpcoder.DefaultCoder.Encode(m, buf)
	if err != nil {
		panic(err)
	}
	return buf[:n]
}

func c11ObserveOpt(seq int) message.Options {
	return message.Options{{ID: message.Observe, Value: []byte{byte(seq)}}}
}

func (sp c11XSpec) isQueueMsg(i int) bool { // item i (1-based) goes through the receive queue
	return !(sp.layer == 'T' && sp.items[i-1].kind == 'p')
}

// ---------- quiescence witness ----------

// c11XLoopsBlocked: every goroutine that runs a reader loop (ReceivedMessageReader.loop on its stack: the loop itself
// at its select, or a handler / the dispatch code running on it) is blocked - in a select, a channel operation, a
// mutex or a condition variable - and there is at least one. The snapshot is taken with the world stopped.
func c11XLoopsBlocked() bool {
	// the whole dump or nothing: a truncated dump could hide a running goroutine
	buf := make([]byte, 1<<20)
	n := runtime.Stack(buf, true)
	for n == len(buf) && len(buf) < 1<<27 {
		buf = make([]byte, 2*len(buf))
		n = runtime.Stack(buf, true)
	}
	if n == len(buf) {
		return false
	}
	loops := 0
	for _, g := range strings.Split(string(buf[:n]), "\n\n") {
		if !strings.Contains(g, "ReceivedMessageReader[") || !strings.Contains(g, ").loop(") {
			continue
		}
		loops++
		hdr, _, _ := strings.Cut(g, "\n")
		i, j := strings.Index(hdr, "["), strings.LastIndex(hdr, "]")
		if i < 0 || j < i {
			return false
		}
		state, _, _ := strings.Cut(hdr[i+1:j], ",")
		switch state {
		case "select", "chan receive", "chan send", "sync.Mutex.Lock", "sync.RWMutex.Lock", "sync.RWMutex.RLock",
			"semacquire", "sync.Cond.Wait", "sync.WaitGroup.Wait":
		default:
			return false
		}
	}
	return loops > 0
}

// ---------- execution ----------

type c11XState struct {
	mu      sync.Mutex
	note    chan struct{}
	events  int // bumped on every state change (progress counter of the quiescence witness)
	log     []int
	sigSeen []int       // tcp: pongs whose handler ran
	sigOnRd []bool      // ... on the socket reader's goroutine (handleSignals on the stack)
	post    map[int]int // dispatches of item i that have returned
	started map[[2]int]bool
	ret     map[[2]int]bool
	done    map[int]bool // handler of request item m ran to its end
	ran     map[int]bool
	barrier int
	active  int
	setup   int          // registration responses of observations whose dispatch has returned
	obsOK   map[int]bool // DoObserve of observation j has returned
	refused bool         // an operation was refused at once (not a stall): the script is outside the family
	errs    []string
}

func (st *c11XState) signal() {
	select {
	case st.note <- struct{}{}:
	default:
	}
}

func (st *c11XState) bump(f func()) {
	st.mu.Lock()
	f()
	st.events++
	st.mu.Unlock()
	st.signal()
}

func (st *c11XState) errf(f string, a ...any) {
	st.mu.Lock()
	st.errs = append(st.errs, fmt.Sprintf(f, a...))
	st.mu.Unlock()
}

type c11XWire struct {
	mid int
	tok []byte
}

var c11XStalls int  // waits that ended on the quiescence witness
var c11XRefused int // scripts set aside because a nested request was refused at once (own message ID still in use)

// runC11X executes one script; returns the Coq case text and whether a wait ended without its effect.
func runC11X(sp c11XSpec) (string, bool) {
	respOf, err := sp.plan()
	if err != nil {
		panic("c11x: invalid script: " + err.Error())
	}
	dbg := os.Getenv("HXDBG") != ""
	k := len(sp.items)
	st := &c11XState{note: make(chan struct{}, 1), post: map[int]int{}, started: map[[2]int]bool{}, ret: map[[2]int]bool{}, done: map[int]bool{}, ran: map[int]bool{}, obsOK: map[int]bool{}}
	ctx, cancel := context.WithCancel(context.Background())

	// identification of what the connection dispatches: key -> items (in arrival order) that carry it
	var idMu sync.Mutex
	pending := map[string][]int{} // not yet dispatched
	owner := map[string]int{}     // the request item whose program the handler of this key runs
	addID := func(key string, i int) {
		idMu.Lock()
		pending[key] = append(pending[key], i)
		if _, ok := owner[key]; !ok {
			owner[key] = i
		}
		idMu.Unlock()
	}
	takeID := func(key string) int {
		idMu.Lock()
		defer idMu.Unlock()
		l := pending[key]
		if len(l) == 0 {
			return 0
		}
		pending[key] = l[1:]
		return l[0]
	}
	ownerOf := func(key string) int {
		idMu.Lock()
		defer idMu.Unlock()
		return owner[key]
	}
	const barKey = "barrier"
	const setKey = "setup" // the registration response of an observation: not an item

	dispatched := func(key string, isSig bool, run func()) {
		if key == setKey {
			run()
			st.bump(func() { st.setup++ })
			return
		}
		i := 0
		if key != barKey {
			i = takeID(key) // 0 = something the harness did not send
		}
		onReader := false
		if isSig {
			buf := make([]byte, 16<<10)
			onReader = strings.Contains(string(buf[:runtime.Stack(buf, false)]), ").handleSignals(")
		}
		st.bump(func() {
			switch {
			case key == barKey:
				st.barrier = 1
			case isSig:
				st.sigSeen = append(st.sigSeen, i)
				st.sigOnRd = append(st.sigOnRd, onReader)
			default:
				st.log = append(st.log, i)
			}
		})
		run()
		st.bump(func() {
			if key == barKey {
				st.barrier = 2
			} else {
				st.post[i]++
			}
		})
	}
	// the application handler: runs the program of the request item that owns the key, once
	handle := func(key string, do func(m, j int, op c11XOp) error) {
		st.bump(func() { st.active++ })
		defer st.bump(func() { st.active-- })
		m := ownerOf(key)
		if m == 0 || key == barKey {
			return
		}
		first := false
		st.bump(func() {
			if !st.ran[m] {
				st.ran[m] = true
				first = true
			}
		})
		if !first {
			return
		}
		for j, op := range sp.items[m-1].ops {
			st.bump(func() { st.started[[2]int{m, j}] = true })
			if err := do(m, j, op); err != nil {
				st.errf("operation %d.%d: %v", m, j, err) // expected only at tear-down
				if strings.Contains(err.Error(), "already exists") {
					// the connection drew a message ID that one of its own pending confirmable messages still
					// uses (two moves of checkMyMessageID add up to 0xfffe): Do fails at once. Not a stall and
					// not this property's business; the script is set aside.
					st.bump(func() { st.refused = true })
				}
				return
			}
			st.bump(func() { st.ret[[2]int{m, j}] = true })
		}
		st.bump(func() { st.done[m] = true })
	}

	// layer-specific part
	var send func(i int, data []byte) // hands item i to the socket reader (does not wait)
	var producerQuiet func() bool     // the socket reader has handed over everything it was given, or is parked on the full queue
	var scanOut func()                // parse what the connection wrote since the last call (under no lock of st)
	var teardown func()
	var ownCtr func() uint32
	opWire := map[[2]int]c11XWire{} // request / ping written for operation (m, j)
	var wireMu sync.Mutex
	var pingWaiting [][2]int // P operations started whose ping has not been seen on the wire yet
	var bareWaiting [][2]int // W operations started whose token-less request has not been seen on the wire yet
	noteStarted := func(m, j int, op c11XOp) {
		if op.kind == 'P' {
			wireMu.Lock()
			pingWaiting = append(pingWaiting, [2]int{m, j})
			wireMu.Unlock()
		}
		if op.kind == 'W' {
			wireMu.Lock()
			bareWaiting = append(bareWaiting, [2]int{m, j})
			wireMu.Unlock()
		}
	}
	sawBare := func(mid int) {
		wireMu.Lock()
		defer wireMu.Unlock()
		if len(bareWaiting) == 0 {
			return
		}
		mj := bareWaiting[0]
		bareWaiting = bareWaiting[1:]
		opWire[mj] = c11XWire{mid: mid}
	}
	sawNested := func(tok []byte, mid int) {
		wireMu.Lock()
		defer wireMu.Unlock()
		for m := 1; m <= k; m++ {
			for j := range sp.items[m-1].ops {
				if string(c11NestToken(m, j)) == string(tok) {
					if _, ok := opWire[[2]int{m, j}]; !ok {
						opWire[[2]int{m, j}] = c11XWire{mid: mid, tok: append([]byte(nil), tok...)}
					}
				}
			}
		}
	}
	sawPing := func(tok []byte, mid int) {
		wireMu.Lock()
		defer wireMu.Unlock()
		if len(pingWaiting) == 0 {
			return
		}
		mj := pingWaiting[0]
		pingWaiting = pingWaiting[1:]
		opWire[mj] = c11XWire{mid: mid, tok: append([]byte(nil), tok...)}
	}
	obsReq := map[int]bool{} // the registration request of observation j has been written
	sawObs := func(tok []byte) {
		if j := c11ObsOf(tok); j > 0 {
			wireMu.Lock()
			obsReq[j] = true
			wireMu.Unlock()
		}
	}
	obsReqSeen := func(j int) bool {
		wireMu.Lock()
		defer wireMu.Unlock()
		return obsReq[j]
	}
	var observe func(j int) error // Conn.DoObserve for observation j (blocks until the registration response is dispatched)
	var regResp func(j int) []byte
	type sentItem struct {
		data []byte
		key  string
	}
	sent := map[int]sentItem{}
	getWire := func(mj [2]int) (c11XWire, bool) {
		wireMu.Lock()
		defer wireMu.Unlock()
		w, ok := opWire[mj]
		return w, ok
	}

	mids := make([]int, k+1) // udp: message ID of item i as sent (replies a / p: filled in when built)
	typs := make([]int, k+1)
	var build func(i int) ([]byte, string, bool) // datagram / frame of item i, its identification key
	var barrierMsg func() []byte

	switch sp.layer {
	case 'D':
		key := func(typ, mid int, tok []byte) string { return fmt.Sprintf("%d/%d/%x", typ, mid, tok) }
		hook := config.ProcessReceivedMessageFunc[*client.Conn](func(req *pool.Message, cc *client.Conn, handler config.HandlerFunc[*client.Conn]) {
			kk := key(int(req.Type()), int(req.MessageID()), req.Token())
			if string(req.Token()) == string(c11BarrierToken) {
				kk = barKey
			}
			if c11ObsOf(req.Token()) > 0 {
				if seq, errO := req.Observe(); errO == nil && seq == 1 {
					kk = setKey
				}
			}
			if c11XBare(req) {
				// application handling of a bare piggybacked response begins in the connection's handler: logged there
				cc.ProcessReceivedMessageWithHandler(req, handler)
				return
			}
			dispatched(kk, false, func() { cc.ProcessReceivedMessageWithHandler(req, handler) })
		})
		getMID := int32(0x2000)
		if sp.ctr >= 0 {
			getMID = int32(sp.ctr) + 0xffff/2
		}
		mc := newMemConn(memConnOpts{getMID: getMID, queueSize: sp.n, nstart: 64, limitTotal: 64, limitEndpoint: 64, maxRetransmit: 4, processReceived: hook})
		own0 := int(uint16(mc.cc.VerifMsgID()))
		ownCtr = mc.cc.VerifMsgID
		doOp := func(m, j int, op c11XOp) error {
			noteStarted(m, j, op)
			if op.kind == 'P' {
				return mc.cc.Ping(ctx)
			}
			if op.kind == 'W' {
				wreq := mc.cc.AcquireMessage(ctx)
				defer mc.cc.ReleaseMessage(wreq)
				wreq.SetCode(codes.DELETE)
				wreq.SetType(message.Confirmable)
				return mc.cc.WriteMessage(wreq) // no token, no options, no payload
			}
			tok := c11NestToken(m, j)
			req := mc.cc.AcquireMessage(ctx)
			defer mc.cc.ReleaseMessage(req)
			req.SetCode(codes.GET)
			req.SetType(message.NonConfirmable)
			if op.kind == 'C' {
				req.SetType(message.Confirmable)
			}
			req.SetToken(tok)
			_ = req.SetPath("/nested")
			if op.kind == 'S' {
				req.SetObserve(0)
				_, err := mc.cc.DoObserve(req, func(*pool.Message) {})
				return err
			}
			resp, err := mc.cc.Do(req)
			if err != nil {
				return err
			}
			defer mc.cc.ReleaseMessage(resp)
			if resp.Code() != codes.Content || string(resp.Token()) != string(tok) {
				return fmt.Errorf("wrong response")
			}
			return nil
		}
		mc.behave = func(_ *responsewriter.ResponseWriter[*client.Conn], r *pool.Message) {
			kk := key(int(r.Type()), int(r.MessageID()), r.Token())
			if c11XBare(r) {
				dispatched(kk, false, func() { handle(kk, doOp) })
				return
			}
			handle(kk, doOp)
		}
		observe = func(j int) error {
			req := mc.cc.AcquireMessage(ctx)
			defer mc.cc.ReleaseMessage(req)
			req.SetCode(codes.GET)
			req.SetType(message.NonConfirmable)
			req.SetToken(c11ObsToken(j))
			req.SetObserve(0)
			_ = req.SetPath("/obs")
			_, err := mc.cc.DoObserve(req, func(n *pool.Message) {
				if seq, errO := n.Observe(); errO != nil || seq == 1 {
					return
				}
				handle(key(int(n.Type()), int(n.MessageID()), n.Token()), doOp)
			})
			return err
		}
		regResp = func(j int) []byte {
			return encodeWire(int(message.NonConfirmable), int(codes.Content), (own0+0x4e00+j)&0xffff, c11ObsToken(j), c11ObserveOpt(1), []byte("reg"))
		}
		for i := 1; i <= k; i++ {
			it := sp.items[i-1]
			mids[i] = (own0 + 0x5000 + i) & 0xffff
			if it.hasOff {
				mids[i] = (own0 + it.off) & 0xffff
			}
		}
		build = func(i int) ([]byte, string, bool) {
			it := sp.items[i-1]
			switch it.kind {
			case 'q', 'Q':
				typs[i] = int(message.NonConfirmable)
				if it.kind == 'Q' {
					typs[i] = int(message.Confirmable)
				}
				tok := c11ReqToken(i)
				return encodeWire(typs[i], int(codes.GET), mids[i], tok, nil, nil), key(typs[i], mids[i], tok), true
			case 'd':
				typs[i], mids[i] = typs[it.ref], mids[it.ref]
				if rk := sp.items[it.ref-1].kind; rk == 'o' || rk == 'O' {
					return sent[it.ref].data, sent[it.ref].key, true // the same datagram again
				}
				tok := c11ReqToken(it.ref)
				return encodeWire(typs[i], int(codes.GET), mids[i], tok, nil, nil), key(typs[i], mids[i], tok), true
			case 's':
				typs[i] = int(message.NonConfirmable)
				tok := []byte{0x57, 0x7A, byte(i)}
				return encodeWire(typs[i], int(codes.Content), mids[i], tok, nil, []byte("stray")), key(typs[i], mids[i], tok), true
			case 'o', 'O':
				typs[i] = int(message.NonConfirmable)
				if it.kind == 'O' {
					typs[i] = int(message.Confirmable)
				}
				tok := c11ObsToken(it.ref)
				return encodeWire(typs[i], int(codes.Content), mids[i], tok, c11ObserveOpt(sp.seqOf(i)), []byte("notification")), key(typs[i], mids[i], tok), true
			}
			mj := respOf[i]
			w, ok := getWire(mj)
			if !ok {
				return nil, "", false
			}
			switch it.kind {
			case 'r':
				typs[i] = int(message.NonConfirmable)
				return encodeWire(typs[i], int(codes.Content), mids[i], w.tok, nil, []byte("ok")), key(typs[i], mids[i], w.tok), true
			case 'n':
				typs[i] = int(message.NonConfirmable)
				return encodeWire(typs[i], int(codes.Content), mids[i], w.tok, c11ObserveOpt(7), []byte("ok")), key(typs[i], mids[i], w.tok), true
			case 'a':
				typs[i], mids[i] = int(message.Acknowledgement), w.mid
				return encodeWire(typs[i], int(codes.Content), mids[i], w.tok, nil, []byte("ok")), key(typs[i], mids[i], w.tok), true
			case 'b':
				typs[i], mids[i] = int(message.Acknowledgement), w.mid
				return encodeWire(typs[i], int(codes.Deleted), mids[i], nil, nil, nil), key(typs[i], mids[i], nil), true
			default: // 'p'
				typs[i], mids[i] = int(message.Reset), w.mid
				return encodeWire(typs[i], int(codes.Empty), mids[i], nil, nil, nil), key(typs[i], mids[i], nil), true
			}
		}
		barrierMsg = func() []byte {
			return encodeWire(int(message.NonConfirmable), int(codes.GET), (own0+0x4f00)&0xffff, c11BarrierToken, nil, nil)
		}
		feedCh := make(chan []byte, k+2)
		feederGone := make(chan struct{})
		var fedMu sync.Mutex
		given, handed := 0, 0
		go func() { // the datagram reader: ONE goroutine calls Process, one datagram after the other
			defer close(feederGone)
			for d := range feedCh {
				if res := mc.inject(d); res != 0 {
					st.errf("Process: result %d", res)
				}
				fedMu.Lock()
				handed++
				fedMu.Unlock()
				st.bump(func() {})
			}
		}()
		send = func(_ int, data []byte) {
			fedMu.Lock()
			given++
			fedMu.Unlock()
			feedCh <- data
		}
		producerQuiet = func() bool {
			fedMu.Lock()
			q := given == handed
			fedMu.Unlock()
			return q || c11ParkedIn("udp/client.(*Conn).Process(")
		}
		scanned := 0
		scanOut = func() {
			mc.s.mu.Lock()
			raw := mc.s.out[scanned:]
			scanned = len(mc.s.out)
			mc.s.mu.Unlock()
			for _, b := range raw {
				w := decodeWire(b)
				switch {
				case w.Bad:
				case w.Code == int(codes.GET):
					sawNested(w.Tok, w.MID)
					sawObs(w.Tok)
				case w.Code == int(codes.Empty) && w.Typ == int(message.Confirmable):
					sawPing(nil, w.MID)
				case w.Code == int(codes.DELETE) && w.Typ == int(message.Confirmable) && len(w.Tok) == 0:
					sawBare(w.MID)
				}
			}
		}
		teardown = func() {
			mc.close()
			close(feedCh)
			select {
			case <-feederGone:
			case <-time.After(c11WD()):
				fmt.Fprintf(os.Stderr, "c11x: Process did not return after close (%s)\n", sp.desc())
			}
		}
	case 'T':
		stream := newC11Stream(st.signal)
		cfg := tcpclient.DefaultConfig
		cfg.Ctx = context.Background()
		cfg.Errors = func(err error) { st.errf("conn: %v", err) }
		cfg.LimitClientParallelRequests = 64
		cfg.LimitClientEndpointParallelRequests = 64
		cfg.MessagePool = pool.New(64, 2048)
		cfg.DisableTCPSignalMessageCSM = true
		cfg.DisablePeerTCPSignalMessageCSMs = true
		cfg.ReceivedMessageQueueSize = sp.n
		var cc *tcpclient.Conn
		keyT := func(tok []byte) string {
			if string(tok) == string(c11BarrierToken) {
				return barKey
			}
			return fmt.Sprintf("%x", tok)
		}
		// a notification is identified by its token and its sequence number
		keyN := func(r *pool.Message) string {
			if c11ObsOf(r.Token()) > 0 {
				if seq, errO := r.Observe(); errO == nil {
					if seq == 1 {
						return setKey
					}
					return fmt.Sprintf("%x/%d", []byte(r.Token()), seq)
				}
			}
			return keyT(r.Token())
		}
		doOp := func(m, j int, op c11XOp) error {
			noteStarted(m, j, op)
			if op.kind == 'P' {
				return cc.Ping(ctx)
			}
			tok := c11NestToken(m, j)
			req := cc.AcquireMessage(ctx)
			defer cc.ReleaseMessage(req)
			req.SetCode(codes.GET)
			req.SetToken(tok)
			_ = req.SetPath("/nested")
			if op.kind == 'S' {
				req.SetObserve(0)
				_, err := cc.DoObserve(req, func(*pool.Message) {})
				return err
			}
			resp, err := cc.Do(req)
			if err != nil {
				return err
			}
			defer cc.ReleaseMessage(resp)
			if resp.Code() != codes.Content || string(resp.Token()) != string(tok) {
				return fmt.Errorf("wrong response")
			}
			return nil
		}
		cfg.Handler = func(_ *responsewriter.ResponseWriter[*tcpclient.Conn], r *pool.Message) {
			handle(keyT(r.Token()), doOp)
		}
		observe = func(j int) error {
			req := cc.AcquireMessage(ctx)
			defer cc.ReleaseMessage(req)
			req.SetCode(codes.GET)
			req.SetToken(c11ObsToken(j))
			req.SetObserve(0)
			_ = req.SetPath("/obs")
			_, err := cc.DoObserve(req, func(n *pool.Message) {
				if kk := keyN(n); kk != setKey {
					handle(kk, doOp)
				}
			})
			return err
		}
		regResp = func(j int) []byte {
			return c11TCPFrameOpts(codes.Content, c11ObsToken(j), c11ObserveOpt(1), []byte("reg"))
		}
		cc = tcpclient.NewConnWithOpts(coapNet.NewConn(stream), &cfg)
		v := reflect.ValueOf(cc).Elem()
		pf := (*func(*pool.Message, *tcpclient.Conn, tcpclient.HandlerFunc))(unsafe.Pointer(v.FieldByName("processReceivedMessage").UnsafeAddr()))
		*pf = func(req *pool.Message, c *tcpclient.Conn, h tcpclient.HandlerFunc) {
			dispatched(keyN(req), req.Code() == codes.Pong, func() { c.ProcessReceivedMessageWithHandler(req, h) })
		}
		runDone := make(chan struct{})
		go func() { _ = cc.Run(); close(runDone) }()
		ownCtr = func() uint32 { return 0 }
		build = func(i int) ([]byte, string, bool) {
			it := sp.items[i-1]
			switch it.kind {
			case 'q':
				tok := c11ReqToken(i)
				return c11TCPFrame(codes.POST, tok, []byte{byte(i >> 8), byte(i)}), keyT(tok), true
			case 's':
				tok := []byte{0x57, 0x7A, byte(i)}
				return c11TCPFrame(codes.Content, tok, []byte("stray")), keyT(tok), true
			case 'o':
				tok := c11ObsToken(it.ref)
				seq := sp.seqOf(i)
				return c11TCPFrameOpts(codes.Content, tok, c11ObserveOpt(seq), []byte("notification")), fmt.Sprintf("%x/%d", tok, seq), true
			}
			w, ok := getWire(respOf[i])
			if !ok {
				return nil, "", false
			}
			if it.kind == 'r' {
				return c11TCPFrame(codes.Content, w.tok, []byte("ok")), keyT(w.tok), true
			}
			if it.kind == 'n' {
				return c11TCPFrameOpts(codes.Content, w.tok, c11ObserveOpt(7), []byte("ok")), keyT(w.tok), true
			}
			return c11TCPFrame(codes.Pong, w.tok, nil), keyT(w.tok), true
		}
		barrierMsg = func() []byte { return c11TCPFrame(codes.POST, c11BarrierToken, nil) }
		send = func(_ int, data []byte) { stream.peerWrite(data) }
		producerQuiet = func() bool {
			return stream.idle() || c11ParkedIn("tcp/client.(*Conn).pushToReceivedMessageQueue")
		}
		parsed := 0
		scanOut = func() {
			stream.mu.Lock()
			out := append([]byte(nil), stream.out[parsed:]...)
			stream.mu.Unlock()
			for len(out) > 0 {
				var m message.Message
				m.Options = make(message.Options, 0, 16)
				n, err := tcpcoder.DefaultCoder.Decode(out, &m)
				if err != nil || n <= 0 {
					break // incomplete frame: wait for more
				}
				switch m.Code {
				case codes.GET:
					sawNested(m.Token, 0)
					sawObs(m.Token)
				case codes.Ping:
					sawPing(m.Token, 0)
				}
				out = out[n:]
				parsed += n
			}
		}
		teardown = func() {
			_ = cc.Close()
			_ = stream.Close()
			select {
			case <-runDone:
			case <-time.After(c11WD()):
				fmt.Fprintf(os.Stderr, "c11x: Run did not return after close (%s)\n", sp.desc())
			}
		}
	}

	// wait: cond under st.mu. Ends early, as a stall, when the connection is quiescent - the socket reader has nothing
	// left to hand over (or is parked on the full queue) and every reader-loop goroutine is blocked - twice in a row
	// with no state change in between, although cond does not hold: nothing but the harness could change that.
	wait := func(what string, cond func() bool) bool {
		deadline := time.Now().Add(c11WD())
		lastEv, quietSince := -1, time.Time{}
		confirm := 0
		for {
			scanOut()
			st.mu.Lock()
			ok := cond()
			ev := st.events
			refused := st.refused
			st.mu.Unlock()
			if ok {
				return true
			}
			if refused {
				return false
			}
			now := time.Now()
			if ev != lastEv {
				lastEv, quietSince, confirm = ev, now, 0
			} else if now.Sub(quietSince) > 3*time.Millisecond {
				if producerQuiet() && c11XLoopsBlocked() {
					confirm++
					quietSince = now
					if confirm >= 2 {
						scanOut()
						st.mu.Lock()
						ok, ev2 := cond(), st.events
						st.mu.Unlock()
						if ok {
							return true
						}
						if ev2 == ev {
							c11XStalls++
							if dbg {
								fmt.Fprintf(os.Stderr, "c11x: stalled: %s (%s)\n", what, sp.desc())
							}
							return false
						}
					}
				} else {
					confirm = 0
					quietSince = now
				}
			}
			if now.After(deadline) {
				c11Hangs.Add(1)
				if dbg {
					fmt.Fprintf(os.Stderr, "c11x: watchdog: %s (%s)\n", what, sp.desc())
				}
				return false
			}
			select {
			case <-st.note:
			case <-time.After(300 * time.Microsecond):
			}
		}
	}
	logged := func(i int) bool {
		for _, m := range st.log {
			if m == i {
				return true
			}
		}
		return false
	}
	sigSeen := func(i int) bool {
		for _, m := range st.sigSeen {
			if m == i {
				return true
			}
		}
		return false
	}
	// the handler of request m is about to execute operation j (its request / ping is on the wire) or has finished
	// and its dispatch has returned
	progress := func(m, j int) func() bool {
		return func() bool {
			if j < len(sp.items[m-1].ops) {
				_, ok := getWire([2]int{m, j})
				return st.started[[2]int{m, j}] && ok
			}
			return st.done[m] && st.post[m] > 0
		}
	}

	var midRecs []string
	injected := 0
	hang := false
	// the observations: a user goroutine registers each (DoObserve blocks until the registration response, handed
	// over here, has been dispatched); the script starts when the registrations are complete
	for j := 1; j <= sp.nObs() && !hang; j++ {
		go func(j int) {
			if err := observe(j); err != nil {
				st.errf("DoObserve %d: %v", j, err)
				return
			}
			st.bump(func() { st.obsOK[j] = true })
		}(j)
		hang = !wait(fmt.Sprintf("registration request of observation %d written", j), func() bool { return obsReqSeen(j) })
		if !hang {
			send(0, regResp(j))
			hang = !wait(fmt.Sprintf("observation %d registered", j), func() bool { return st.obsOK[j] && st.setup >= j })
		}
	}
	// settled: every dispatch that has begun has returned, or is held up for good by a handler that is executing its
	// program (the handler's own dispatch; a copy of its request waiting for the message-ID lock). What is left is
	// transient (the tail of a dispatch after its handler returned, a copy let go by a handler that has just finished):
	// the next item waits for it, so that "one item at a time" also holds for the connection's message-ID counter.
	settled := func() bool {
		for _, i := range st.log {
			if i <= 0 || i > k || st.post[i] > 0 {
				continue
			}
			m := i
			if sp.items[i-1].kind == 'd' {
				m = sp.items[i-1].ref
			}
			if !(st.ran[m] && !st.done[m]) {
				return false
			}
		}
		return true
	}
	stalled := false
	for i := 1; i <= k && (!hang || stalled); i++ {
		it := sp.items[i-1]
		data, kk, ok := build(i)
		if !ok {
			hang = true
			break
		}
		if !stalled && !wait(fmt.Sprintf("connection settled before item %d", i), settled) {
			hang, stalled = true, true
		}
		before := ownCtr()
		addID(kk, i)
		sent[i] = sentItem{data, kk}
		send(i, data)
		injected = i
		if stalled {
			// the connection is stuck: the rest of the script is handed over without waiting for effects
			continue
		}
		switch it.kind {
		case 'q', 'Q', 's', 'o', 'O':
			hang = !wait(fmt.Sprintf("dispatch of %d and its handler's first step", i), func() bool {
				if !logged(i) {
					return false
				}
				if it.kind == 's' {
					return st.post[i] > 0
				}
				return progress(i, 0)()
			})
			if !hang && sp.layer == 'D' && len(it.ops) > 0 {
				if w, ok := getWire([2]int{i, 0}); ok {
					midRecs = append(midRecs, fmt.Sprintf("(%d, %d, %d, %d)", before, typs[i], mids[i], w.mid))
				}
			}
		case 'd':
			hang = !wait(fmt.Sprintf("dispatch of the copy %d", i), func() bool { return logged(i) })
		case 'r', 'a', 'p', 'n', 'b':
			mj := respOf[i]
			hang = !wait(fmt.Sprintf("reply %d: operation %d.%d returned", i, mj[0], mj[1]), func() bool {
				if sp.isQueueMsg(i) && !logged(i) {
					return false
				}
				if !sp.isQueueMsg(i) && !sigSeen(i) {
					return false
				}
				return st.ret[mj] && progress(mj[0], mj[1]+1)()
			})
		}
		stalled = hang && i < k
	}
	if stalled {
		// until the connection is quiescent again (the wait ends on the quiescence witness)
		wait("rest of the script handed to the stalled connection", func() bool { return false })
	}
	if !hang {
		// one more message through the same path: the connection still processes what arrives
		send(0, barrierMsg())
		hang = !wait("barrier dispatched", func() bool { return st.barrier == 2 })
	}

	// observation (before the tear-down releases the blocked calls)
	st.mu.Lock()
	var ol, osig, on, op, othr []string
	for _, m := range st.log {
		ol = append(ol, strconv.Itoa(m))
	}
	for x, m := range st.sigSeen {
		othr = append(othr, fmt.Sprintf("(%d, %s)", m, coqBool(st.sigOnRd[x])))
	}
	for m := 1; m <= k; m++ {
		for j, o := range sp.items[m-1].ops {
			if !st.started[[2]int{m, j}] {
				continue
			}
			r := o.r
			if r == 0 {
				r = k + 5
			}
			ent := fmt.Sprintf("(%d, %d, %s)", m, r, coqBool(st.ret[[2]int{m, j}]))
			if o.kind == 'P' || o.kind == 'W' {
				op = append(op, ent)
			} else {
				on = append(on, ent)
			}
		}
	}
	if dbg && (hang || len(st.errs) > 0) {
		fmt.Fprintf(os.Stderr, "c11x: %s: hang=%v log=%v sig=%v errs=%v\n", sp.desc(), hang, st.log, st.sigSeen, st.errs)
	}
	st.mu.Unlock()
	// signals handed to the connection: acknowledgements (a) and pongs (p) among the injected items
	for i := 1; i <= injected; i++ {
		if kd := sp.items[i-1].kind; kd == 'a' || kd == 'p' || kd == 'b' {
			osig = append(osig, strconv.Itoa(i))
		}
	}

	cancel()
	teardown()
	st.mu.Lock()
	refused := st.refused
	st.refused = false
	st.mu.Unlock()
	if !wait("handlers released", func() bool { return st.active == 0 }) {
		fmt.Fprintf(os.Stderr, "c11x: handlers still running after close (%s)\n", sp.desc())
	}
	if refused {
		c11XRefused++
		return "", false
	}

	// the model's view of the script
	var msgs, sg, wr, progs []string
	for i := 1; i <= k; i++ {
		if sp.isQueueMsg(i) {
			msgs = append(msgs, strconv.Itoa(i))
		}
	}
	for i := 1; i <= k; i++ {
		it := sp.items[i-1]
		if it.kind == 'a' || it.kind == 'p' || it.kind == 'b' {
			q := 0
			for x := i; x <= k; x++ {
				if sp.isQueueMsg(x) {
					q++
				}
			}
			sg = append(sg, fmt.Sprintf("(%d, %d%%nat)", i, q))
		}
		if sp.layer == 'D' {
			mid := mids[i]
			if i > injected && (it.kind == 'a' || it.kind == 'p' || it.kind == 'b') {
				mid = 70000 + i // never built: a message ID nobody else has
			}
			wr = append(wr, fmt.Sprintf("(%d, (%d, %d))", i, c11XTyp(sp, i, typs), mid))
		}
		if len(it.ops) > 0 {
			var hs []string
			for _, o := range it.ops {
				r := o.r
				if r == 0 {
					r = k + 5
				}
				switch o.kind {
				case 'N', 'S':
					hs = append(hs, fmt.Sprintf("HNested %d", r))
				case 'C':
					hs = append(hs, fmt.Sprintf("HAck %d", r), fmt.Sprintf("HNested %d", r))
				case 'P':
					hs = append(hs, fmt.Sprintf("HPing %d", r))
				case 'W':
					hs = append(hs, fmt.Sprintf("HAck %d", r))
				}
			}
			progs = append(progs, fmt.Sprintf("(%d, [%s])", i, strings.Join(hs, "; ")))
		}
	}
	layer := 1
	if sp.layer == 'D' {
		layer = 2
	}
	j := func(l []string) string { return "[" + strings.Join(l, "; ") + "]" }
	txt := fmt.Sprintf("ConnX %d %d%%nat %s %s %s %s %s %d %s %s %s %s %s %s", layer, sp.n, j(progs), j(msgs), j(sg), j(wr),
		j(midRecs), injected, j(ol), j(osig), j(othr), j(on), j(op), coqBool(hang))
	return txt, hang
}

// c11XBare: a piggybacked response without token, options and payload (an ACK that carries a code)
func c11XBare(r *pool.Message) bool {
	return r.Type() == message.Acknowledgement && r.Code() != codes.Empty && len(r.Token()) == 0 && len(r.Options()) == 0 && r.Body() == nil
}

// c11XTyp: the message type of item i for the model's lock (known from the script even when the item was never built)
func c11XTyp(sp c11XSpec, i int, typs []int) int {
	switch it := sp.items[i-1]; it.kind {
	case 'Q':
		return 0
	case 'O':
		return 0
	case 'q', 'r', 's', 'o', 'n':
		return 1
	case 'a', 'b':
		return 2
	case 'p':
		return 3
	case 'd':
		return c11XTyp(sp, it.ref, typs)
	}
	return typs[i]
}

// ---------- scripts ----------

type c11XFixedScript struct {
	layers string
	ctr    int
	script string
}

var c11XFixed = []c11XFixedScript{
	// confirmable nested requests answered by a piggybacked ACK
	{"D", -1, "q:C2 a"},
	{"D", -1, "Q:C3 q a q"},
	{"D", -1, "q:C4 Q:C3 a a"},
	{"D", -1, "q:C2C3 a a q"},
	{"D", -1, "q:C3 q:N4 a r"},
	{"D", -1, "Q:Cx q q"},
	// the peer's message ID relative to the connection's own counter: equal to the next ID drawn (NON: nothing moves
	// the counter), near it (CON: checkMyMessageID), across the 16-bit wrap of either counter, at the edges of the window
	{"D", 1000, "q@1:C2 a q"},
	{"D", 1000, "Q@1:C2 a q"},
	{"D", 1000, "q@2:C2C3 a a"},
	{"D", 1000, "q@1:N2 r"},
	{"D", 65535, "Q@1:C2 a q"},
	{"D", 65535, "q@1:C2 a"},
	{"D", 65535, "Q@2:C2C3 a a q"},
	{"D", 65534, "Q@3:C2C3C4 a a a"},
	{"D", 65530, "Q@10:C2 a"},
	{"D", 0, "Q@1:C2 a"},
	{"D", 49152, "Q@16385:C2 a"}, // own 0xc000, peer 1: 0x4001 ahead across the wrap: not moved
	{"D", 49153, "Q@16383:C2 a"}, // peer 0: 0x3fff ahead: first distance that is left alone
	{"D", 49154, "Q@16382:C2 a"}, // 0x3ffe ahead: last distance that moves the counter
	{"D", 1000, "Q@16382:C2 a"},
	{"D", 1000, "Q@16383:C2 a"},
	{"D", 1000, "Q@65535:C2 a"}, // one behind
	{"D", 1000, "Q@0:C2 a"},     // the ID drawn last
	// two requests of the peer in progress, 0x8000 apart: the move for the second lands on the first
	{"D", 8192, "Q@32769:N5 Q@1:C3 a q r"},
	{"D", 8192, "q@32769:N4 Q@1:C3 a r"},
	// a retransmitted copy of a request whose handler is blocked / has finished
	{"D", -1, "Q:N3 d1 r q"},
	{"D", -1, "q:N3 d1 r"},
	{"D", -1, "Q:C3 d1 a q"},
	{"D", -1, "Q:N4 d1 d1 r q"},
	{"D", -1, "Q:N5 q:N4 d1 r r"},
	{"D", -1, "Q d1 q"},
	{"D", -1, "Q:Nx d1 q"},
	// pings issued by handlers
	{"TD", -1, "q:P2 p q"},
	{"TD", -1, "q:P3 q p q"},
	{"TD", -1, "q:P4 q q p"},
	{"TD", -1, "q:P2P3 p p q"},
	{"TD", -1, "q:N4 q:P3 p r"},
	{"TD", -1, "q:P4 q:N3 r p"},
	{"TD", -1, "q:P2N3 p r q"},
	{"TD", -1, "q:Px q q"},
	{"TD", -1, "q:N2 r"},
	{"D", -1, "Q:P3 d1 p"},
	{"D", 1000, "q@1:P2 p"},
	// a token-less confirmable request written by a handler (WriteMessage), answered by a BARE piggybacked response
	// (ACK 2.02, no token / options / payload): it carries a code, so it is dispatched to the application handler
	{"D", -1, "q:W2 b"},
	{"D", -1, "q:W2 b q"},
	{"D", -1, "Q:W3 q b q"},
	{"D", -1, "q:W2W3 b b q"},
	{"D", -1, "q:W2N3 b r"},
	{"D", -1, "q:N4 q:W3 b r"},
	{"D", -1, "o:W3 o b q"},
	{"D", 1000, "q@1:W2 b q"},
	{"D", -1, "Q:W3 d1 b q"},
	{"D", -1, "q:Wx q"},
	// a request of the peer whose message ID equals the ID of a ping / confirmable request that is waiting for its
	// reply: it is not that reply
	{"D", 1000, "q:P3 Q@1 p q"},
	{"D", 1000, "Q:P3 q@1 p"},
	{"D", 65535, "q:P4 q:P5 Q@2 p p"},
	{"D", 1000, "q:C3 q@1 a q"},
	{"D", 1000, "q:C3 Q@1 a"},
	// observe callbacks that issue blocking requests: further notifications of the SAME observation, notifications of
	// another observation and requests of the peer arrive before the awaited reply; the callback of a later
	// notification blocks as well (two callbacks of one observation in progress at once)
	{"TD", -1, "o:N3 o r"},
	{"TD", -1, "o:N2 r o q"},
	{"TD", -1, "o:N5 o o q r o"},
	{"TD", -1, "o:N4 o:N3 r r o"},
	{"TD", -1, "o:N3 o:N4 r r"},
	{"TD", -1, "o:N3N4 o r r q"},
	{"TD", -1, "q:N3 o r o"},
	{"TD", -1, "o:N3 q r"},
	{"TD", -1, "o:P3 o p q"},
	{"TD", -1, "o:Nx o q o"},
	{"TD", -1, "o:N3 o2 r o2:N5 r"},
	{"TD", -1, "o:N4 o2:N6 o r o2 r"},
	{"TD", -1, "o o2 o q"},
	// a handler / an observe callback registers an observation of its own (Conn.DoObserve blocks until the
	// registration response has been dispatched)
	{"TD", -1, "q:S2 n q"},
	{"TD", -1, "q:S3 q n q"},
	{"TD", -1, "o:S3 o n"},
	{"TD", -1, "q:S2N3 n r"},
	{"TD", -1, "q:N4 q:S3 n r"},
	{"TD", -1, "q:Sx q q"},
	// udp: confirmable notifications, confirmable nested requests from a callback, a retransmitted notification
	// whose callback is blocked
	{"D", -1, "O:N3 O r q"},
	{"D", -1, "O:C3 o a o"},
	{"D", -1, "o:C2C4 a o a"},
	{"D", -1, "O:N4 d1 o r q"},
	{"D", -1, "o:N3 d1 r o"},
}

// a ping whose pong stands behind more messages than the queue holds
func c11XPingBehind(layer byte, n int) c11XSpec {
	cnt := n + 2
	var sb strings.Builder
	fmt.Fprintf(&sb, "q:P%d", cnt+2)
	for i := 0; i < cnt; i++ {
		sb.WriteString(" q")
	}
	sb.WriteString(" p q")
	return mustC11X(layer, n, -1, sb.String())
}

func c11XRandom(rng *Rng, maxLen int) c11XSpec {
	sp := c11XSpec{layer: "DDT"[rng.Intn(3)], n: []int{0, 1, 16, 2}[rng.Intn(4)], ctr: -1}
	if sp.layer == 'D' && rng.Chance(50) {
		sp.ctr = []int{0, 1000, 16383, 32767, 32768, 49152, 65534, 65535}[rng.Intn(8)]
	}
	nobs := 0 // observations of the script: notifications take the place of some requests
	if rng.Chance(40) {
		nobs = 1 + rng.Intn(2)
	}
	offs := []int{0, 1, 2, 3, 5, 16382, 16383, 16384, 32767, 32768, 32769, 65535}
	usedOff := map[int]bool{}
	type pend struct{ m, j int }
	var out []pend
	blocked := 0
	target := 3 + rng.Intn(maxLen-2)
	replyKind := map[byte]byte{'N': 'r', 'C': 'a', 'P': 'p', 'S': 'n', 'W': 'b'}
	items := &sp.items
	respond := func() {
		idx := rng.Intn(len(out))
		if rng.Chance(40) {
			idx = len(out) - 1
		}
		p := out[idx]
		out = append(out[:idx], out[idx+1:]...)
		*items = append(*items, c11XItem{kind: replyKind[(*items)[p.m-1].ops[p.j].kind]})
		(*items)[p.m-1].ops[p.j].r = len(*items)
		if p.j+1 < len((*items)[p.m-1].ops) {
			out = append(out, pend{p.m, p.j + 1})
		} else {
			blocked--
		}
	}
	newReq := func(withOps bool) c11XItem {
		it := c11XItem{kind: 'q'}
		if nobs > 0 && rng.Chance(60) {
			it.kind, it.ref = 'o', 1+rng.Intn(nobs)
			if sp.layer == 'D' && rng.Chance(30) {
				it.kind = 'O'
			}
		} else if sp.layer == 'D' {
			if rng.Chance(45) {
				it.kind = 'Q'
			}
			if rng.Chance(35) {
				o := offs[rng.Intn(len(offs))]
				if !usedOff[o] {
					usedOff[o] = true
					it.off, it.hasOff = o, true
				}
			}
		}
		if withOps {
			nops := 1 + rng.Intn(2)
			for j := 0; j < nops; j++ {
				kinds := "NNPPS"
				if sp.layer == 'D' {
					kinds = "NNCCCCPPSWW"
				}
				it.ops = append(it.ops, c11XOp{kind: kinds[rng.Intn(len(kinds))]})
			}
		}
		return it
	}
	for len(*items) < target {
		switch {
		case len(out) > 0 && rng.Chance(35):
			respond()
		case blocked < 3 && rng.Chance(60):
			*items = append(*items, newReq(true))
			out = append(out, pend{len(*items), 0})
			blocked++
		case sp.layer == 'D' && len(*items) > 0 && rng.Chance(25):
			// a copy of some earlier request
			var reqs []int
			for i, it := range *items {
				if strings.ContainsRune("qQoO", rune(it.kind)) {
					reqs = append(reqs, i+1)
				}
			}
			if len(reqs) > 0 {
				*items = append(*items, c11XItem{kind: 'd', ref: reqs[rng.Intn(len(reqs))]})
			}
		default:
			*items = append(*items, newReq(false))
		}
	}
	for len(out) > 0 {
		if rng.Chance(10) {
			idx := rng.Intn(len(out))
			p := out[idx]
			out = append(out[:idx], out[idx+1:]...)
			(*items)[p.m-1].ops = (*items)[p.m-1].ops[:p.j+1]
			continue
		}
		if rng.Chance(20) {
			*items = append(*items, newReq(false))
			continue
		}
		respond()
	}
	if rng.Chance(50) {
		*items = append(*items, newReq(false))
	}
	if _, err := sp.plan(); err != nil {
		panic("c11x: generator produced an invalid script: " + sp.desc() + ": " + err.Error())
	}
	return sp
}

func c11XEmit(e *Emitter, sp c11XSpec, tag string) bool {
	txt, hang := runC11X(sp)
	if txt == "" {
		e.Hist["x-set-aside-own-mid-in-use"]++
		return false
	}
	kinds := map[string]bool{}
	nontriv := false
	for _, it := range sp.items {
		for _, op := range it.ops {
			kinds["x-op"+string(op.kind)] = true
			nontriv = true
		}
		if it.kind == 'd' {
			kinds["x-copy"] = true
			nontriv = true
		}
		if it.hasOff {
			kinds["x-placed-mid"] = true
		}
		if it.kind == 'o' || it.kind == 'O' {
			kinds["x-notification"] = true
			nontriv = true
		}
	}
	hist := []string{"x-" + tag, fmt.Sprintf("x-%c", sp.layer), fmt.Sprintf("queue%d", sp.n)}
	for kd := range kinds {
		hist = append(hist, kd)
	}
	e.Add(txt, sp.desc(), nontriv, hist...)
	return hang
}

func c11XCases(e *Emitter, rng *Rng, thorough bool) {
	t0 := time.Now()
	count, hangs := 0, 0
	run := func(sp c11XSpec, tag string) {
		if c11XEmit(e, sp, tag) {
			hangs++
		}
		count++
	}
	for _, f := range c11XFixed {
		for _, layer := range []byte(f.layers) {
			for _, n := range []int{0, 1, 16} {
				run(mustC11X(layer, n, f.ctr, f.script), "fixed")
			}
		}
	}
	for _, layer := range []byte("TD") {
		for _, n := range []int{0, 1, 16} {
			run(c11XPingBehind(layer, n), "fixed")
		}
	}
	fixed := count
	nrand := 60
	if thorough {
		nrand = 1500
	}
	for i := 0; i < nrand; i++ {
		maxLen := 9
		if thorough && i%4 == 0 {
			maxLen = 16
		}
		run(c11XRandom(rng, maxLen), "rand")
	}
	e.Extra["x_scripts"] = fmt.Sprintf("%d scripts (%d fixed: confirmable nested requests with piggybacked ACK, placed message IDs incl. both 16-bit wraps, retransmitted copies, pings by handlers on tcp and udp, observe callbacks issuing blocking requests while further notifications arrive, observations registered by handlers / callbacks, token-less confirmable requests written by handlers and answered by a bare piggybacked response (logged in the application handler), queue 0/1/16; %d random), scripts that did not run to their end %d (of these on the quiescence witness %d, the others on the watchdog), set aside because Do refused a drawn message ID still in use %d, %.2fs", count, fixed, nrand, hangs, c11XStalls, c11XRefused, time.Since(t0).Seconds())
}

func c11XOnly(e *Emitter, only string) {
	sp, err := parseC11XSpec(only)
	if err != nil {
		fmt.Fprintf(os.Stderr, "C11: cannot replay %q: %v\n", only, err)
		return
	}
	for i := 0; i < 4; i++ {
		if txt, _ := runC11X(sp); txt != "" {
			e.Add(txt, only, true, "x-replay")
		}
	}
}
