package main

// C13, round 3: contention and interleavings.
//
//   - Locks:   a script of Lock / TryLock / Unlock calls of n goroutines on one real udp/client.MutexMap
//     (the per-message-ID lock map of handleReq).  One command at a time; a Lock that has to wait is
//     witnessed by the entry's reference count (read under the map's own lock), never by a delay.
//     After every command the entries (key, reference count) and the state of every goroutine are read.
//   - MidRace: exchanges with message-ID continuations (confirmable writes with and without context
//     deadline, AsyncPing) on one real udp/client.Conn over an in-memory session, and housekeeping
//     ticks at now+400s.  One tick is interrupted between pkg/sync.Map.Range's fetch of its i-th entry
//     and the callback (VerifYieldHook, build tag verif; no lock is held there) and exchanges end or
//     start right there: the ACK / RST / pong is processed, the sender's context is cancelled and the
//     call returns, a new exchange registers (also under a message ID that has just become free).
//     The message IDs in the table are read after every step and after all exchanges have ended.
//   - nest (an operation of the pair histories in c13.go): B's handler starts a nested AsyncPing
//     and stays busy; a retransmitted copy of the request reaches handleReq on the replacement reader
//     loop while the per-ID lock is held (witness: reference count of the message ID >= 2).
//
// No wall-clock value is compared anywhere: the tick instants are far (>= 120 s) from every deadline.

import (
	"bytes"
	"context"
	"fmt"
	"reflect"
	"runtime"
	"sort"
	"strconv"
	"strings"
	"sync"
	"time"
	"unsafe"

	"github.com/plgd-dev/go-coap/v3/message"
	"github.com/plgd-dev/go-coap/v3/message/codes"
	"github.com/plgd-dev/go-coap/v3/message/pool"
	"github.com/plgd-dev/go-coap/v3/net/responsewriter"
	coapSync "github.com/plgd-dev/go-coap/v3/pkg/sync"
	"github.com/plgd-dev/go-coap/v3/udp/client"
)

// ---------------------------------------------------------------- Locks

type c13LockCmd struct {
	op  byte // 'L' lock, 'T' try-lock, 'U' unlock, 'Q' quit
	key int32
}

type c13LockRes struct {
	tid   int
	ok    bool
	panic bool
}

type c13LockThread struct {
	cmd    chan c13LockCmd
	status int // 0 outside, 1 waiting in Lock, 2 holding, 4 panicked
	key    int
}

// c13LockTable reads (key, reference count) of every entry, under the map's own lock.
func c13LockTable(m *client.MutexMap) [][2]int {
	mv := reflect.ValueOf(m).Elem()
	mlf := mv.FieldByName("ml")
	ml := reflect.NewAt(mlf.Type(), unsafe.Pointer(mlf.UnsafeAddr())).Interface().(*sync.Mutex)
	ml.Lock()
	defer ml.Unlock()
	var r [][2]int
	it := mv.FieldByName("ma").MapRange()
	for it.Next() {
		k := it.Key()
		for k.Kind() == reflect.Interface {
			k = k.Elem()
		}
		r = append(r, [2]int{int(k.Int()), int(it.Value().Elem().FieldByName("cnt").Uint())})
	}
	sort.Slice(r, func(i, j int) bool { return r[i][0] < r[j][0] })
	return r
}

func c13LockCnt(m *client.MutexMap, key int) int {
	for _, e := range c13LockTable(m) {
		if e[0] == key {
			return e[1]
		}
	}
	return 0
}

const c13LockWatch = 10 * time.Second

func c13LocksParse(desc string) (int, []string) {
	// "locks n=3|L0:7 T1:7 U0"
	n := 2
	body := desc
	if i := strings.Index(desc, "|"); i >= 0 {
		for _, f := range strings.Fields(desc[:i]) {
			if strings.HasPrefix(f, "n=") {
				n, _ = strconv.Atoi(f[2:])
			}
		}
		body = desc[i+1:]
	}
	if n < 1 {
		n = 1
	}
	if n > 8 {
		n = 8
	}
	return n, strings.Fields(body)
}

func runC13Locks(desc string) (string, bool) {
	n, cmds := c13LocksParse(desc)
	m := client.NewMutexMap()
	res := make(chan c13LockRes, 4*n+4)
	th := make([]*c13LockThread, n)
	for i := range th {
		t := &c13LockThread{cmd: make(chan c13LockCmd, 1)}
		th[i] = t
		go func(tid int, t *c13LockThread) {
			var held client.Unlocker
			for c := range t.cmd {
				switch c.op {
				case 'L':
					held = m.Lock(c.key)
					res <- c13LockRes{tid: tid, ok: true}
				case 'T':
					l, ok := m.TryLock(c.key)
					if ok {
						held = l
					}
					res <- c13LockRes{tid: tid, ok: ok}
				case 'U':
					func() {
						defer func() {
							if r := recover(); r != nil {
								res <- c13LockRes{tid: tid, panic: true}
							}
						}()
						held.Unlock()
						held = nil
						res <- c13LockRes{tid: tid, ok: true}
					}()
				case 'Q':
					return
				}
			}
		}(i, t)
	}
	bad := 0
	var steps []string
	wait := func(tid int) (c13LockRes, bool) {
		select {
		case r := <-res:
			if r.tid != tid && tid >= 0 {
				bad++
			}
			return r, true
		case <-time.After(c13LockWatch):
			bad++
			return c13LockRes{}, false
		}
	}
	holder := func(key int) int {
		for i, t := range th {
			if t.status == 2 && t.key == key {
				return i
			}
		}
		return -1
	}
	waiters := func(key int) int {
		c := 0
		for _, t := range th {
			if t.status == 1 && t.key == key {
				c++
			}
		}
		return c
	}
	// poisoned: a reference count is LOWER than the number of goroutines holding or waiting for the key (or
	// their entry is gone).  The script stops there and nobody unlocks any more: the entry would be deleted
	// while in use, Unlock would then release the mutex of ANOTHER entry, and an unlock of an unlocked
	// sync.Mutex is a fatal error of the Go runtime, not a panic.  What was read is reported.  (A count
	// that is too high only keeps entries: the script goes on.)
	poisoned := false
	record := func(acts []string) {
		tab := c13LockTable(m)
		tp := make([]string, len(tab))
		for i, e := range tab {
			tp[i] = fmt.Sprintf("(%d, %d)", e[0], e[1])
			users := 0
			for _, t := range th {
				if (t.status == 1 || t.status == 2) && t.key == e[0] {
					users++
				}
			}
			if users > e[1] {
				poisoned = true
			}
		}
		for _, t := range th {
			if t.status == 1 || t.status == 2 {
				found := false
				for _, e := range tab {
					found = found || e[0] == t.key
				}
				if !found {
					poisoned = true
				}
			}
		}
		sp := make([]string, n)
		for i, t := range th {
			k := t.key
			if t.status != 1 && t.status != 2 {
				k = 0
			}
			sp[i] = fmt.Sprintf("(%d, %d)", t.status, k)
		}
		steps = append(steps, fmt.Sprintf("LS [%s] [%s] [%s]", strings.Join(acts, "; "), strings.Join(tp, "; "), strings.Join(sp, "; ")))
	}
	act := func(tid, key int, try bool) string { return fmt.Sprintf("(%d%%nat, %d, %s)", tid, key, coqBool(try)) }
	unlock := func(tid int) {
		t := th[tid]
		key := t.key
		nw := waiters(key)
		t.cmd <- c13LockCmd{op: 'U'}
		acts := []string{act(tid, 0, false), act(tid, 0, false)}
		if r, ok := wait(tid); ok && r.panic {
			t.status = 4
		} else {
			t.status = 0
		}
		if nw > 0 {
			// exactly one of the goroutines waiting for the key gets the lock now
			if r, ok := wait(-1); ok && r.tid >= 0 && r.tid < n && th[r.tid].status == 1 && th[r.tid].key == key {
				th[r.tid].status = 2
				acts = append(acts, act(r.tid, 0, false))
			} else if ok {
				bad++
			}
		}
		record(acts)
	}
	for _, c := range cmds {
		if len(c) < 2 || bad > 0 || poisoned {
			continue
		}
		f := strings.Split(c[1:], ":")
		tid, _ := strconv.Atoi(f[0])
		key := 0
		if len(f) > 1 {
			key, _ = strconv.Atoi(f[1])
		}
		if tid < 0 || tid >= n || key < 0 || key > 30000 {
			continue
		}
		t := th[tid]
		switch c[0] {
		case 'L':
			if t.status != 0 {
				continue
			}
			c0 := c13LockCnt(m, key)
			held := holder(key) >= 0
			t.cmd <- c13LockCmd{op: 'L', key: int32(key)}
			t.key = key
			if held {
				// the call has to wait: witnessed by its reference on the entry
				deadline := time.Now().Add(c13LockWatch)
				for c13LockCnt(m, key) != c0+1 {
					if time.Now().After(deadline) {
						bad++
						break
					}
					time.Sleep(50 * time.Microsecond)
				}
				t.status = 1
				record([]string{act(tid, key, false)})
			} else {
				if _, ok := wait(tid); ok {
					t.status = 2
				} else {
					t.status = 1
				}
				record([]string{act(tid, key, false), act(tid, key, false)})
			}
		case 'T':
			if t.status != 0 {
				continue
			}
			t.cmd <- c13LockCmd{op: 'T', key: int32(key)}
			if r, ok := wait(tid); ok && r.ok {
				t.status, t.key = 2, key
			}
			record([]string{act(tid, key, true)})
		case 'U':
			if t.status != 2 {
				continue
			}
			unlock(tid)
		}
	}
	// every goroutine leaves: afterwards nothing may be left in the map
	for iter := 0; iter < 4*n+4 && bad == 0 && !poisoned; iter++ {
		h := -1
		for i, t := range th {
			if t.status == 2 {
				h = i
				break
			}
		}
		if h < 0 {
			break
		}
		unlock(h)
	}
	if bad == 0 && !poisoned {
		for _, t := range th {
			t.cmd <- c13LockCmd{op: 'Q'}
		}
	}
	return fmt.Sprintf("Locks %d %d [%s]", n, bad, strings.Join(steps, ";\n    ")), bad == 0
}

func genC13Locks(rng *Rng) string {
	n := 2 + rng.Intn(3)
	keys := []int{7, 8, 9}[:1+rng.Intn(3)]
	st := make([]int, n) // script view: 0 out, 1 waiting, 2 holding
	kk := make([]int, n)
	var cmds []string
	want := 5 + rng.Intn(14)
	for tries := 0; len(cmds) < want && tries < 200; tries++ {
		t := rng.Intn(n)
		switch st[t] {
		case 0:
			k := keys[rng.Intn(len(keys))]
			held := false
			for i := range st {
				if st[i] == 2 && kk[i] == k {
					held = true
				}
			}
			if rng.Chance(55) {
				cmds = append(cmds, fmt.Sprintf("T%d:%d", t, k))
				if !held {
					st[t], kk[t] = 2, k
				}
			} else {
				cmds = append(cmds, fmt.Sprintf("L%d:%d", t, k))
				kk[t] = k
				if held {
					st[t] = 1
				} else {
					st[t] = 2
				}
			}
		case 2:
			if rng.Chance(60) {
				cmds = append(cmds, fmt.Sprintf("U%d", t))
				st[t] = 0
				// which waiter wakes up is the runtime's choice: the script stops tracking exactly
				for i := range st {
					if st[i] == 1 && kk[i] == kk[t] {
						st[i] = 2
						break
					}
				}
			}
		}
	}
	return fmt.Sprintf("locks n=%d|%s", n, strings.Join(cmds, " "))
}

// ---------------------------------------------------------------- MidRace

const (
	c13RaceAckMs  = 140000
	c13RaceMaxRt  = 2
	c13RaceTickMs = 400000
	c13RaceShort  = 120000
	c13RaceLong   = 7200000
)

type c13Xchg struct {
	id     int
	kind   string // S, L, N (confirmable write: short / long / no context deadline), P (AsyncPing)
	mid    int
	cancel func()
	done   chan error // confirmable write only
	state  int        // 1 registered, 2 ended, 3 refused at once
}

type c13Race struct {
	mc     *memConn
	x      map[int]*c13Xchg
	order  []int
	phases []string
	bad    []string
	// a message ID holds a nil element: nothing that walks the table is run any more (a housekeeping tick would
	// dereference it inside Range's callback, which Go turns into a fatal error); the exchanges still end
	poisoned bool
}

func (p *c13Race) note(s string) { p.bad = append(p.bad, s) }

type c13Poison struct{}

func (p *c13Race) elem(x *c13Xchg) string {
	dl := "None"
	switch x.kind {
	case "S":
		dl = fmt.Sprintf("(Some %d)", c13RaceShort)
	case "L":
		dl = fmt.Sprintf("(Some %d)", c13RaceLong)
	}
	return fmt.Sprintf("(MT.mkE %d 0 %s 0)", x.id, dl)
}

// table reads the message IDs of midHandlerContainer (ascending) and how many of them hold a nil element.
func (p *c13Race) table() ([]int, int) {
	mpw := reflect.ValueOf(p.mc.cc).Elem().FieldByName("midHandlerContainer").Elem()
	var ks []int
	nils := 0
	lockSyncMap(mpw, func() {
		it := mpw.FieldByName("data").MapRange()
		for it.Next() {
			ks = append(ks, int(it.Key().Int()))
			if it.Value().IsNil() {
				nils++
			}
		}
	})
	sort.Ints(ks)
	return ks, nils
}

func (p *c13Race) obs() {
	ks, nils := p.table()
	if nils > 0 {
		p.poisoned = true
	}
	parts := make([]string, len(ks))
	for i, k := range ks {
		parts[i] = strconv.Itoa(k)
	}
	p.phases = append(p.phases, fmt.Sprintf("MObs [%s]", strings.Join(parts, "; ")))
}

// start registers a new exchange; returns the abstract operation (or "" when the command is void).
func (p *c13Race) start(id int, kind string, mid int) string {
	if _, dup := p.x[id]; dup || id <= 0 || id > 99 {
		return ""
	}
	x := &c13Xchg{id: id, kind: kind, mid: mid}
	cc := p.mc.cc
	if kind == "P" {
		p.mc.s.take()
		cancel, err := cc.AsyncPing(func() {})
		if err != nil {
			p.note("AsyncPing: " + err.Error())
			return ""
		}
		out := p.mc.s.take()
		if len(out) != 1 {
			p.note("AsyncPing wrote " + strconv.Itoa(len(out)) + " datagrams")
			cancel()
			return ""
		}
		x.mid = decodeWire(out[0]).MID
		x.cancel = cancel
		x.state = 1
		p.x[id] = x
		p.order = append(p.order, id)
		return fmt.Sprintf("MT.Start %d %s", x.mid, p.elem(x))
	}
	if mid <= 0 || mid > 60000 {
		return ""
	}
	ctx, cancel := context.WithCancel(context.Background())
	switch kind {
	case "S":
		ctx, cancel = context.WithTimeout(context.Background(), c13RaceShort*time.Millisecond)
	case "L":
		ctx, cancel = context.WithTimeout(context.Background(), c13RaceLong*time.Millisecond)
	case "N":
	default:
		cancel()
		return ""
	}
	x.cancel = cancel
	x.done = make(chan error, 1)
	req := cc.AcquireMessage(ctx)
	req.SetType(message.Confirmable)
	req.SetCode(codes.GET)
	req.SetMessageID(int32(mid))
	req.SetToken(message.Token{0xC1, 0x3B, byte(id)})
	_ = req.SetPath("/a")
	p.mc.s.take()
	go func() {
		defer func() {
			if r := recover(); r != nil {
				x.done <- fmt.Errorf("panic: %v", r)
			}
		}()
		err := cc.WriteMessage(req)
		cc.ReleaseMessage(req)
		x.done <- err
	}()
	// registered (its datagram is on the wire) or refused at once (the call returns)
	deadline := time.Now().Add(c13LockWatch)
	for {
		if p.mc.s.waitOut(1, 0) {
			x.state = 1
			p.mc.s.take()
			break
		}
		select {
		case <-x.done:
			x.state = 3
			cancel()
		default:
		}
		if x.state == 3 {
			break
		}
		if time.Now().After(deadline) {
			p.note("write neither registered nor returned")
			x.state = 3
			cancel()
			break
		}
		time.Sleep(50 * time.Microsecond)
	}
	p.x[id] = x
	p.order = append(p.order, id)
	return fmt.Sprintf("MT.Start %d %s", mid, p.elem(x))
}

// end ends exchange id by itself: how = a (acknowledgement / pong), r (reset), c (the sender gives up /
// the ping is cancelled).  The call has returned when end returns.
func (p *c13Race) end(id int, how string) string {
	x, ok := p.x[id]
	if !ok || x.state != 1 {
		return ""
	}
	switch how {
	case "a":
		if p.mc.inject(encodeWire(2, 0, x.mid, nil, nil, nil)) != 0 {
			p.note("Process(ACK) failed")
		}
	case "r":
		if p.mc.inject(encodeWire(3, 0, x.mid, nil, nil, nil)) != 0 {
			p.note("Process(RST) failed")
		}
	case "c":
	default:
		return ""
	}
	func() {
		defer func() {
			if r := recover(); r != nil {
				p.note(fmt.Sprintf("panic while ending an exchange: %v", r))
			}
		}()
		x.cancel()
	}()
	x.state = 2
	if x.done != nil {
		select {
		case <-x.done:
		case <-time.After(c13LockWatch):
			p.note("write did not return")
		}
	}
	return fmt.Sprintf("MT.End %d", x.mid)
}

// sub-operation inside an interrupted tick: "a.1", "c.2", "s.4.L.101", "p.5"
func (p *c13Race) midOp(s string) string {
	f := strings.Split(s, ".")
	arg := func(i int) int {
		if i < len(f) {
			v, _ := strconv.Atoi(f[i])
			return v
		}
		return 0
	}
	switch f[0] {
	case "a", "r", "c":
		return p.end(arg(1), f[0])
	case "s":
		if len(f) < 3 {
			return ""
		}
		mid := 100 + arg(1)
		if len(f) > 3 {
			mid = arg(3)
		}
		return p.start(arg(1), f[2], mid)
	case "p":
		return p.start(arg(1), "P", 0)
	}
	return ""
}

func (p *c13Race) tick(race bool, idx int, mids []string) {
	if p.mc.cc.VerifSizes()["responseCache"] != 0 {
		p.note("response cache not empty before a tick")
	}
	var ops []string
	fired := false
	cnt := 0
	runMid := func() {
		fired = true
		for _, m := range mids {
			if o := p.midOp(m); o != "" {
				ops = append(ops, o)
			}
		}
	}
	if race {
		coapSync.VerifYieldHook = func(point string) {
			if point != "Map.Range.unlocked" {
				return
			}
			if fired {
				// A message ID that holds a nil element would be dereferenced by the callback, and a panic
				// inside Range's callback is fatal for the process (Range's deferred RUnlock finds the lock
				// released).  The pass is abandoned here instead: with the read lock taken again, so that the
				// deferred RUnlock is balanced.  The table is then reported as it is.
				if _, nils := p.table(); nils > 0 {
					p.poisoned = true
					mu := reflect.ValueOf(p.mc.cc).Elem().FieldByName("midHandlerContainer").Elem().FieldByName("mutex")
					reflect.NewAt(mu.Type(), unsafe.Pointer(mu.UnsafeAddr())).Interface().(*sync.RWMutex).RLock()
					panic(c13Poison{})
				}
			}
			if cnt == idx && !fired {
				runMid()
			}
			cnt++
		}
	}
	func() {
		defer func() {
			if r := recover(); r != nil {
				if _, ok := r.(c13Poison); ok {
					return
				}
				p.note(fmt.Sprintf("panic in CheckExpirations: %v", r))
			}
		}()
		p.mc.cc.CheckExpirations(time.Now().Add(c13RaceTickMs * time.Millisecond))
	}()
	coapSync.VerifYieldHook = nil
	if race && !fired {
		runMid() // fewer entries than idx+1: it happens after the pass
	}
	p.mc.s.take()
	if race {
		p.phases = append(p.phases, fmt.Sprintf("MRace %d %d%%nat [%s]", c13RaceTickMs, idx, strings.Join(ops, "; ")))
	} else {
		p.phases = append(p.phases, fmt.Sprintf("MTick %d", c13RaceTickMs))
	}
}

func runC13MidRace(desc string) (string, bool) {
	cmds := strings.Fields(strings.TrimPrefix(strings.TrimPrefix(desc, "midrace"), "|"))
	p := &c13Race{x: map[int]*c13Xchg{}}
	p.mc = newMemConn(memConnOpts{getMID: 20000, nstart: 16, ackTimeout: c13RaceAckMs * time.Millisecond, maxRetransmit: c13RaceMaxRt, queueSize: 16})
	defer p.mc.close()
	for _, c := range cmds {
		if len(p.bad) > 0 || p.poisoned {
			break
		}
		f := strings.Split(c, ":")
		arg := func(i int) int {
			if i < len(f) {
				v, _ := strconv.Atoi(f[i])
				return v
			}
			return 0
		}
		op := ""
		switch f[0] {
		case "s":
			if len(f) < 3 {
				continue
			}
			mid := 100 + arg(1)
			if len(f) > 3 {
				mid = arg(3)
			}
			op = p.start(arg(1), f[2], mid)
		case "p":
			op = p.start(arg(1), "P", 0)
		case "a", "r", "c":
			op = p.end(arg(1), f[0])
		case "t":
			p.tick(false, 0, nil)
			p.obs()
			continue
		case "x":
			if len(f) < 3 || arg(1) < 0 || arg(1) > 8 {
				continue
			}
			p.tick(true, arg(1), strings.Split(f[2], ","))
			p.obs()
			continue
		default:
			continue
		}
		if op != "" {
			p.phases = append(p.phases, "MEnv ("+op+")")
			p.obs()
		}
	}
	// every exchange that is still open ends; nothing may be left then
	for _, id := range p.order {
		if op := p.end(id, "c"); op != "" {
			p.phases = append(p.phases, "MEnv ("+op+")")
		}
	}
	p.obs()
	return fmt.Sprintf("MidRace %d %d %d [%s]", c13RaceMaxRt, c13RaceAckMs, len(p.bad), strings.Join(p.phases, ";\n    ")), len(p.bad) == 0
}

func genC13MidRace(rng *Rng) string {
	var cmds []string
	n := 1 + rng.Intn(4)
	kinds := []string{"S", "S", "L", "N"}
	type ex struct {
		id, mid int
		open    bool
	}
	var xs []*ex
	next := 1
	for i := 0; i < n; i++ {
		if rng.Chance(20) {
			cmds = append(cmds, fmt.Sprintf("p:%d", next))
			xs = append(xs, &ex{id: next, open: true})
		} else {
			cmds = append(cmds, fmt.Sprintf("s:%d:%s", next, kinds[rng.Intn(len(kinds))]))
			xs = append(xs, &ex{id: next, mid: 100 + next, open: true})
		}
		next++
	}
	for i := rng.Intn(3); i > 0; i-- {
		cmds = append(cmds, "t")
	}
	var mids []string
	var freed []int
	for i := 1 + rng.Intn(3); i > 0; i-- {
		x := xs[rng.Intn(len(xs))]
		if x.open {
			x.open = false
			mids = append(mids, fmt.Sprintf("%s.%d", rng.pickS([]string{"a", "a", "c", "r"}), x.id))
			if x.mid > 0 {
				freed = append(freed, x.mid)
			}
		}
	}
	if rng.Chance(35) {
		mid := 100 + next
		if len(freed) > 0 && rng.Chance(70) {
			mid = freed[rng.Intn(len(freed))]
		}
		mids = append(mids, fmt.Sprintf("s.%d.%s.%d", next, rng.pickS([]string{"L", "N", "S"}), mid))
		xs = append(xs, &ex{id: next, mid: mid, open: true})
		next++
	}
	if len(mids) == 0 {
		mids = append(mids, fmt.Sprintf("a.%d", xs[0].id))
	}
	cmds = append(cmds, fmt.Sprintf("x:%d:%s", rng.Intn(n+1), strings.Join(mids, ",")))
	for i := rng.Intn(3); i > 0; i-- {
		if rng.Chance(50) {
			cmds = append(cmds, "t")
		} else {
			x := xs[rng.Intn(len(xs))]
			if x.open {
				x.open = false
				cmds = append(cmds, fmt.Sprintf("%s:%d", rng.pickS([]string{"a", "c"}), x.id))
			}
		}
	}
	return "midrace " + strings.Join(cmds, " ")
}

// ---------------------------------------------------------------- nest (pair histories)

// B's handler for /nest: a nested exchange of its own (AsyncPing: another loop takes over the received
// messages), then it stays busy until the script lets it go.
func (p *c13Run) nestHandler(w *responsewriter.ResponseWriter[*client.Conn], r *pool.Message) {
	cancel, err := w.Conn().AsyncPing(func() {})
	if err != nil {
		p.bmu.Lock()
		p.flags = append(p.flags, "nested AsyncPing: "+err.Error())
		p.bmu.Unlock()
	}
	p.bmu.Lock()
	in, rel := p.nestIn, p.nestRelease
	p.bmu.Unlock()
	if in != nil {
		in <- struct{}{}
		select {
		case <-rel:
		case <-time.After(c13Watch):
		}
	}
	if cancel != nil {
		cancel()
	}
	_ = w.SetResponse(codes.Content, message.TextPlain, bytes.NewReader([]byte("nested")))
}

// opNest: A's confirmable GET /nest; while B's handler is busy (inside its nested exchange) a
// retransmitted copy of the request arrives at B; only when the copy has reached the per-ID lock
// (reference count of the message ID >= 2) the handler is released.
func (p *c13Run) opNest() {
	in, rel := make(chan struct{}, 8), make(chan struct{})
	p.bmu.Lock()
	p.nestIn, p.nestRelease = in, rel
	p.bmu.Unlock()
	p.ab.mu.Lock()
	p.ab.nest = nil
	p.ab.mu.Unlock()
	ctx, cancel := context.WithCancel(context.Background())
	defer cancel()
	p.tokMu.Lock()
	tokZ := int(p.tokCtr + 1)
	p.tokMu.Unlock()
	r := p.limIn(kNest)
	p.ev(true, fmt.Sprintf("BwPutS %d", tokZ))
	p.ev(true, fmt.Sprintf("RxSend %d", r))
	done := make(chan error, 1)
	go func() {
		resp, err := p.a.cc.Get(ctx, "/nest")
		if err == nil {
			trkHold(resp)
			trkUnhold(resp)
			trkAppRel(resp)
			p.a.cc.ReleaseMessage(resp)
		}
		done <- err
	}()
	entered := false
	select {
	case <-in:
		entered = true
	case <-time.After(c13Watch):
		p.hung = true
	}
	if entered {
		p.ab.mu.Lock()
		d := p.ab.nest
		p.ab.mu.Unlock()
		if d == nil {
			p.flags = append(p.flags, "nest: request datagram not seen")
		} else {
			mid := decodeWire(d).MID
			p.contMid[mid] = true
			cp := append([]byte{}, d...)
			fed := make(chan struct{})
			go func() { p.b.deliver(cp); close(fed) }()
			select {
			case <-fed:
			case <-time.After(c13Watch):
				p.hung = true
			}
			// witness: the copy holds a reference on the per-ID lock entry (it waits in Lock behind the
			// handler), or -- whatever the count says -- a goroutine is parked inside MutexMap.Lock
			deadline := time.Now().Add(c13Watch)
			buf := make([]byte, 1<<20)
			for i := 0; p.b.cc.VerifMsgIDLockCount(int32(mid)) < 2; i++ {
				if i%20 == 19 {
					if n := runtime.Stack(buf, true); bytes.Contains(buf[:n], []byte("client.(*MutexMap).Lock(")) {
						break
					}
				}
				if time.Now().After(deadline) {
					p.flags = append(p.flags, "nest: the copy never reached the per-ID lock")
					p.hung = true // (later histories use the short watchdog)
					break
				}
				time.Sleep(50 * time.Microsecond)
			}
		}
	}
	close(rel)
	select {
	case err := <-done:
		p.expect("nest", err, false)
	case <-time.After(c13Watch):
		p.hung = true
	}
	p.bmu.Lock()
	p.nestIn, p.nestRelease = nil, nil
	p.bmu.Unlock()
	p.ev(false, "PingStart 0")
	p.ev(false, "PingEnd 0")
	p.ev(true, fmt.Sprintf("RxPiggy %d", r))
	p.ev(true, fmt.Sprintf("BwDelS %d", tokZ))
	p.limOut(r)
}
