package main

import (
	"bytes"
	"fmt"
	"os"
	"sort"
	"strings"
	"time"

	"github.com/plgd-dev/go-coap/v3/message"
	"github.com/plgd-dev/go-coap/v3/message/codes"
	"github.com/plgd-dev/go-coap/v3/message/pool"
	"github.com/plgd-dev/go-coap/v3/net/responsewriter"
	"github.com/plgd-dev/go-coap/v3/udp/client"
)

func init() { props["C05"] = runC05 }

// one scripted event of a de-duplication history
type c05Ev struct {
	Kind    string // req | age | tick
	Typ     int
	MID     int
	Tok     []byte
	Code    int
	ReqOpts message.Options
	Beh     string // none | resp
	RCode   int
	ROpts   message.Options
	PSalt   int
	PLen    int
	Ms      int
}

func (e c05Ev) desc() string {
	switch e.Kind {
	case "age":
		return fmt.Sprintf("age:%d", e.Ms)
	case "tick":
		return "tick"
	}
	o := descOpts(e.ReqOpts)
	if o == "" {
		o = "-"
	}
	ro := descOpts(e.ROpts)
	if ro == "" {
		ro = "-"
	}
	return fmt.Sprintf("req:%d:%d:%x:%d:%s:%s:%d:%s:%d:%d", e.Typ, e.MID, e.Tok, e.Code, o, e.Beh, e.RCode, ro, e.PSalt, e.PLen)
}

func parseC05Ev(s string) c05Ev {
	f := strings.Split(s, ":")
	var e c05Ev
	atoi := func(x string) int { var v int; fmt.Sscanf(x, "%d", &v); return v }
	switch f[0] {
	case "age":
		e.Kind, e.Ms = "age", atoi(f[1])
	case "tick":
		e.Kind = "tick"
	case "req":
		e.Kind = "req"
		e.Typ, e.MID = atoi(f[1]), atoi(f[2])
		for i := 0; i+1 < len(f[3]); i += 2 {
			var b int
			fmt.Sscanf(f[3][i:i+2], "%x", &b)
			e.Tok = append(e.Tok, byte(b))
		}
		e.Code = atoi(f[4])
		e.ReqOpts = parseDescOpts(f[5])
		e.Beh = f[6]
		e.RCode = atoi(f[7])
		e.ROpts = parseDescOpts(f[8])
		e.PSalt, e.PLen = atoi(f[9]), atoi(f[10])
	}
	return e
}

func coqWireObs(ws []wireMsg) string {
	parts := make([]string, len(ws))
	for i, w := range ws {
		if w.Bad {
			parts[i] = "(OW 99 0 0 [] [] 0 0)"
			continue
		}
		parts[i] = fmt.Sprintf("(OW %d %d %d %s %s %d %d)", w.Typ, w.Code, w.MID, coqBytes(w.Tok), coqOpts(w.Opts), len(w.Payload), csum(w.Payload))
	}
	return "[" + strings.Join(parts, "; ") + "]"
}

func coqByteList(b []byte) string { return coqBytes(b) }

// runC05History executes one history on a fresh connection; returns the Coq text of the case.
// perEventC05, when set (C12), is called after every event of a history has been fully processed.
var perEventC05 func(i int, e c05Ev)

func runC05History(evs []c05Ev, getMID int32) (string, bool) {
	mc := newMemConn(memConnOpts{getMID: getMID, queueSize: 16, maxRetransmit: 4})
	defer mc.close()
	own0 := mc.cc.VerifMsgID()
	for _, e := range evs {
		if e.Kind == "req" {
			mc.avoidMID[e.MID] = true
		}
	}
	var sb strings.Builder
	fmt.Fprintf(&sb, "Hist %d [", own0)
	okRun := true
	for i, e := range evs {
		if activeTracker != nil && activeTracker.bad() {
			break // C12: the lifecycle trace already contains a violation; the rest would only wait for watchdogs
		}
		if i > 0 {
			sb.WriteString("; ")
		}
		if os.Getenv("HXDBG") != "" {
			fmt.Fprintf(os.Stderr, "before %s: own=%d\n", e.desc(), uint16(mc.cc.VerifMsgID()))
		}
		switch e.Kind {
		case "age":
			mc.cc.VerifShiftResponseCache(time.Duration(e.Ms) * time.Millisecond)
			fmt.Fprintf(&sb, "HAge %d", e.Ms)
		case "tick":
			mc.cc.CheckExpirations(time.Now())
			if !mc.sync() {
				okRun = false
			}
			fmt.Fprintf(&sb, "HTick %s", coqWireObs(mc.takeOut()))
		case "req":
			ev := e
			mc.mu.Lock()
			mc.behave = func(w *responsewriter.ResponseWriter[*client.Conn], r *pool.Message) {
				if activeTracker != nil {
					activeTracker.Hold(r)
					defer activeTracker.Unhold(r)
				}
				if ev.Beh == "resp" {
					var body *bytes.Reader
					if ev.PLen > 0 {
						body = bytes.NewReader(genBody(ev.PSalt, ev.PLen))
					}
					if body != nil {
						_ = w.SetResponse(codes.Code(ev.RCode), message.TextPlain, body, ev.ROpts...)
					} else {
						_ = w.SetResponse(codes.Code(ev.RCode), message.TextPlain, nil, ev.ROpts...)
					}
				}
			}
			mc.mu.Unlock()
			d := encodeWire(e.Typ, e.Code, e.MID, e.Tok, e.ReqOpts, nil)
			mc.inject(d)
			if !mc.sync() {
				okRun = false
			}
			log := mc.takeLog()
			out := mc.takeOut()
			beh := "BNone"
			if e.Beh == "resp" {
				beh = fmt.Sprintf("(BResp %d %s (gen_body %d %d%%nat))", e.RCode, coqOpts(e.ROpts), e.PSalt, e.PLen)
			}
			fmt.Fprintf(&sb, "HReq %d %d %s %d %s %s %s %s", e.Typ, e.MID, coqBytes(e.Tok), e.Code, coqOpts(e.ReqOpts), beh, coqBool(len(log) > 0), coqWireObs(out))
		}
		if perEventC05 != nil {
			perEventC05(i, e)
		}
	}
	sb.WriteString("]")
	return sb.String(), okRun
}

func c05Desc(evs []c05Ev, getMID int32) string {
	parts := make([]string, len(evs))
	for i, e := range evs {
		parts[i] = e.desc()
	}
	return fmt.Sprintf("%d|%s", getMID, strings.Join(parts, " "))
}

// runC05Concurrent: k copies of one request are processed concurrently (one goroutine per received
// message). The first copy's handler is held until all other copies have reached the per-message-ID
// lock, then released. Reported as the history [Req; Req; ...] in the order the copies took the lock.
func runC05Concurrent(ev c05Ev, k int, getMID int32) (string, bool) {
	mc := newMemConn(memConnOpts{getMID: getMID, queueSize: 16, maxRetransmit: 4, perMessageGoroutine: true})
	defer mc.close()
	own0 := mc.cc.VerifMsgID()
	entered := make(chan struct{}, 8)
	gate := make(chan struct{})
	mc.mu.Lock()
	mc.behave = func(w *responsewriter.ResponseWriter[*client.Conn], r *pool.Message) {
		entered <- struct{}{}
		<-gate
		if ev.Beh == "resp" {
			var body *bytes.Reader
			if ev.PLen > 0 {
				body = bytes.NewReader(genBody(ev.PSalt, ev.PLen))
				_ = w.SetResponse(codes.Code(ev.RCode), message.TextPlain, body, ev.ROpts...)
			} else {
				_ = w.SetResponse(codes.Code(ev.RCode), message.TextPlain, nil, ev.ROpts...)
			}
		}
	}
	mc.mu.Unlock()
	d := encodeWire(ev.Typ, ev.Code, ev.MID, ev.Tok, ev.ReqOpts, nil)
	ok := true
	mc.inject(d)
	select {
	case <-entered:
	case <-time.After(3 * time.Second):
		ok = false
	}
	for i := 1; i < k; i++ {
		mc.inject(d)
	}
	// wait until every other copy holds or waits for the per-message-ID lock (or, in a broken
	// implementation, has entered the handler as well)
	deadline := time.Now().Add(3 * time.Second)
	for mc.cc.VerifMsgIDLockCount(int32(ev.MID))+len(entered) < k && time.Now().Before(deadline) {
		time.Sleep(200 * time.Microsecond)
	}
	close(gate)
	if !mc.s.waitOut(expectedReplies(ev, k), 3*time.Second) {
		ok = false
	}
	// quiescence: no lock holder left
	deadline = time.Now().Add(3 * time.Second)
	for mc.cc.VerifMsgIDLockCount(int32(ev.MID)) > 0 && time.Now().Before(deadline) {
		time.Sleep(200 * time.Microsecond)
	}
	calls := len(mc.takeLog())
	out := mc.takeOut()
	var sb strings.Builder
	fmt.Fprintf(&sb, "Hist %d [", own0)
	beh := "BNone"
	if ev.Beh == "resp" {
		beh = fmt.Sprintf("(BResp %d %s (gen_body %d %d%%nat))", ev.RCode, coqOpts(ev.ROpts), ev.PSalt, ev.PLen)
	}
	// distribute the observed replies over the copies in emission order: a copy that produced no
	// datagram gets the empty list (only possible for a NON request whose handler sets nothing)
	per := len(out) / k
	if per*k != len(out) || per > 1 {
		per = -1
	}
	for i := 0; i < k; i++ {
		if i > 0 {
			sb.WriteString("; ")
		}
		var o []wireMsg
		switch {
		case per == 1:
			o = out[i : i+1]
		case per == 0:
			o = nil
		default:
			if i == 0 {
				o = out // irregular: attribute everything to the first copy so that the mismatch is visible
			}
		}
		fmt.Fprintf(&sb, "HReq %d %d %s %d %s %s %s %s", ev.Typ, ev.MID, coqBytes(ev.Tok), ev.Code, coqOpts(ev.ReqOpts), beh, coqBool(i < calls), coqWireObs(o))
	}
	sb.WriteString("]")
	return sb.String(), ok
}

func expectedReplies(ev c05Ev, k int) int {
	if ev.Typ == 1 && ev.Beh != "resp" {
		return 0
	}
	return k
}

// genC05History draws one structured history (shared with C12).
func genC05History(rng *Rng, tier string) ([]c05Ev, int32) {
	respOptsPool := []message.Options{
		nil,
		{{ID: message.ETag, Value: []byte{1, 2, 3}}},
		{{ID: message.MaxAge, Value: []byte{60}}},
		{{ID: message.ETag, Value: []byte{9}}, {ID: message.LocationPath, Value: []byte("a")}, {ID: message.LocationPath, Value: []byte("bc")}},
		{{ID: message.ContentFormat, Value: []byte{50}}},
	}
	respCodes := []int{69, 68, 65, 132, 160, 95, 157}
	mkReq := func(typ, mid int, getMID int32) c05Ev {
		ev := c05Ev{Kind: "req", Typ: typ, MID: mid, Code: 1 + rng.Intn(4)}
		tl := []int{0, 1, 2, 4, 8, 8}[rng.Intn(6)]
		ev.Tok = make([]byte, tl)
		for i := range ev.Tok {
			ev.Tok[i] = byte(rng.U64())
		}
		if rng.Chance(20) {
			v := []byte{byte([]int{0, 2, 8, 16, 26, 24, 10}[rng.Intn(7)])}
			if v[0] == 0 {
				v = nil
			}
			ev.ReqOpts = message.Options{{ID: message.NoResponse, Value: v}}
		}
		if rng.Chance(75) {
			ev.Beh = "resp"
			ev.RCode = respCodes[rng.Intn(len(respCodes))]
			ev.ROpts = respOptsPool[rng.Intn(len(respOptsPool))]
			ev.PLen = []int{0, 0, 1, 5, 13, 40}[rng.Intn(6)]
			ev.PSalt = rng.Intn(250)
		} else {
			ev.Beh = "none"
		}
		return ev
	}
	getMID := int32([]int{0x1000, 0, 0x7fff, 0xffff, 0x8123}[rng.Intn(5)])
	own := int(uint16(uint32(getMID) - 0x7fff))
	midPool := []int{0, 1, 2, 65535, 4660, (own + 1) & 0xffff, (own + 2) & 0xffff, own, (own + 0x3fff) & 0xffff, (own + 0x4001) & 0xffff}
	k := 3 + rng.Intn(8)
	if tier == "thorough" && rng.Chance(20) {
		k = 10 + rng.Intn(20)
	}
	var evs []c05Ev
	now := 0
	var stamps []int // times at which something may have been stored
	usable := func(t int) bool {
		for _, s := range stamps {
			d := t - s - 247000
			if d > -400 && d < 400 {
				return false
			}
		}
		return true
	}
	var last *c05Ev
	for len(evs) < k {
		switch r := rng.Intn(100); {
		case r < 55:
			var ev c05Ev
			if last != nil && rng.Chance(45) {
				// a duplicate of an earlier request (same datagram), sometimes with another handler behaviour
				prev := evs[rng.Intn(len(evs))]
				if prev.Kind != "req" {
					prev = *last
				}
				ev = prev
				if rng.Chance(30) {
					alt := mkReq(prev.Typ, prev.MID, getMID)
					ev.Beh, ev.RCode, ev.ROpts, ev.PLen, ev.PSalt = alt.Beh, alt.RCode, alt.ROpts, alt.PLen, alt.PSalt
				}
				if rng.Chance(10) {
					ev.Typ = 1 - ev.Typ
				}
			} else {
				ev = mkReq(rng.Intn(2), midPool[rng.Intn(len(midPool))], getMID)
			}
			evs = append(evs, ev)
			last = &evs[len(evs)-1]
			stamps = append(stamps, now)
		case r < 85:
			ms := []int{1000, 100000, 246000, 246600, 247500, 248000, 500, 123000, 124500, 300000}[rng.Intn(10)]
			if usable(now + ms) {
				now += ms
				evs = append(evs, c05Ev{Kind: "age", Ms: ms})
			}
		default:
			evs = append(evs, c05Ev{Kind: "tick"})
		}
	}
	return evs, getMID
}

func runC05(a runArgs) error {
	e := NewEmitter("C05", "Dedup.Run")
	e.Preamble = "From GoCoap Require Import Base.Bytes Dedup.Model Dedup.Spec."
	e.ShardSize = 120
	e.Rule = "histories of 3-12 events on a fresh udp/client.Conn over an in-memory session: CON/NON requests (message IDs from a small pool incl. 0, 65535 and IDs near the connection's own counter; random tokens; optional No-Response option) with handler behaviours none/response(code, options, payload), interleaved with Age (virtual time shifts of the response cache around the 247 s lifetime, never within 300 ms of a boundary) and housekeeping ticks. Distinct = distinct history; non-trivial = contains a duplicate (same message ID twice)."
	rng := NewRng(a.seed)

	emit := func(evs []c05Ev, getMID int32) {
		start := time.Now()
		txt, ok := runC05History(evs, getMID)
		if time.Since(start) > 150*time.Millisecond || !ok {
			// timing bracket too wide for the 300 ms margins (or a barrier timed out): run again once
			start = time.Now()
			txt, ok = runC05History(evs, getMID)
			if time.Since(start) > 250*time.Millisecond {
				e.Hist["slow_rerun"]++
			}
		}
		dup := false
		seen := map[int]bool{}
		nreq := 0
		for _, ev := range evs {
			if ev.Kind == "req" {
				nreq++
				if seen[ev.MID] {
					dup = true
				}
				seen[ev.MID] = true
			}
		}
		if !ok {
			e.Hist["barrier_timeout"]++
		}
		e.Add(txt, c05Desc(evs, getMID), dup, fmt.Sprintf("len%02d", len(evs)), fmt.Sprintf("dup=%v", dup))
	}

	emitConc := func(ev c05Ev, k int, getMID int32) {
		txt, ok := runC05Concurrent(ev, k, getMID)
		if !ok {
			txt, ok = runC05Concurrent(ev, k, getMID)
		}
		if !ok {
			e.Hist["concurrent_timeout"]++
		}
		e.Add(txt, fmt.Sprintf("%d|conc:%d %s", getMID, k, ev.desc()), true, "concurrent", fmt.Sprintf("copies%d", k))
	}
	if strings.Contains(a.only, "|conc:") {
		var getMID int32
		parts := strings.SplitN(a.only, "|", 2)
		fmt.Sscanf(parts[0], "%d", &getMID)
		f := strings.Fields(parts[1])
		var k int
		fmt.Sscanf(f[0], "conc:%d", &k)
		emitConc(parseC05Ev(f[1]), k, getMID)
		return e.Flush(a.out)
	}
	if a.only != "" {
		var getMID int32
		parts := strings.SplitN(a.only, "|", 2)
		fmt.Sscanf(parts[0], "%d", &getMID)
		var evs []c05Ev
		for _, s := range strings.Fields(parts[1]) {
			evs = append(evs, parseC05Ev(s))
		}
		emit(evs, getMID)
		return e.Flush(a.out)
	}

	// structured histories
	n := 260
	if a.tier == "thorough" {
		n = 3000
	}
	for c := 0; c < n; c++ {
		evs, getMID := genC05History(rng, a.tier)
		emit(evs, getMID)
	}
	// concurrently processed copies (one goroutine per received message)
	nconc := 24
	if a.tier == "thorough" {
		nconc = 200
	}
	for c := 0; c < nconc; c++ {
		evs, getMID := genC05History(rng, "quick")
		for _, ev := range evs {
			if ev.Kind == "req" {
				emitConc(ev, 2+rng.Intn(2), getMID)
				break
			}
		}
	}
	// canonical witnesses, always present
	tok := []byte{0xaa, 0xbb}
	for _, typ := range []int{0, 1} {
		for _, beh := range []string{"none", "resp"} {
			r := c05Ev{Kind: "req", Typ: typ, MID: 77, Tok: tok, Code: 1, Beh: beh, RCode: 69, PLen: 5, PSalt: 3}
			emit([]c05Ev{r, r, {Kind: "age", Ms: 246000}, r, {Kind: "age", Ms: 2000}, r, r}, 0x1000)
			emit([]c05Ev{r, {Kind: "age", Ms: 248000}, {Kind: "tick"}, r, r}, 0x1000)
		}
	}
	sortKeys := make([]string, 0)
	for k := range e.Hist {
		sortKeys = append(sortKeys, k)
	}
	sort.Strings(sortKeys)
	return e.Flush(a.out)
}
