package main

import (
	"bytes"
	"fmt"
	"os"
	"sort"
	"strings"
	"sync"
	"sync/atomic"
	"time"

	"github.com/plgd-dev/go-coap/v3/message"
	"github.com/plgd-dev/go-coap/v3/message/codes"
	"github.com/plgd-dev/go-coap/v3/message/noresponse"
	"github.com/plgd-dev/go-coap/v3/message/pool"
	"github.com/plgd-dev/go-coap/v3/net/responsewriter"
	"github.com/plgd-dev/go-coap/v3/pkg/cache"
	coapSync "github.com/plgd-dev/go-coap/v3/pkg/sync"
	"github.com/plgd-dev/go-coap/v3/udp/client"
	"github.com/plgd-dev/go-coap/v3/udp/coder"
)

func init() { props["C05"] = runC05 }

// one scripted event of a de-duplication history
type c05Ev struct {
	Kind    string // req | age | tick | drop | ping | send | sweep
	Typ     int
	MID     int
	Tok     []byte
	Code    int
	ReqOpts message.Options
	Beh     string // none | resp | msg | rst
	RCode   int
	ROpts   message.Options
	PSalt   int
	PLen    int
	MTok    []byte // token of the replacement message (Beh = msg)
	Ms      int
	// what the handler does with the request message itself before it sets the response:
	// "" (nothing) | rl (re-labels it: SetType(UTyp), SetMessageID(UMID), SetToken(UTok), marshals it - forwarding) |
	// rel (Hijack, ReleaseMessage) | relw (Hijack, a worker goroutine releases it, the handler waits for the worker)
	Use  string
	UTyp int
	UMID int
	UTok []byte
	// Kind = sweep: a housekeeping sweep (Conn.CheckExpirations) that is in flight while the requests Inner are
	// received and completely processed. Pt says where the sweep stands at that moment: "x" it has just found a
	// cached reply expired and has not removed it yet (yield point "Cache.CheckExpirations.expired"), "r" it has
	// fetched an entry of the cache and has not looked at it yet (yield point "Map.Range.unlocked")
	Pt    string
	Inner []c05Ev
}

// useDesc: the descriptor field of the request use ("" = none)
func (e c05Ev) useDesc() string {
	switch e.Use {
	case "rl":
		t := fmt.Sprintf("%x", e.UTok)
		if t == "" {
			t = "-"
		}
		return fmt.Sprintf("rl.%d.%d.%s", e.UTyp, e.UMID, t)
	case "rel", "relw":
		return e.Use
	}
	return ""
}

// coqReqHead: constructor (and request use) of the case event of a request
func (e c05Ev) coqReqHead() string {
	switch e.Use {
	case "rl":
		return fmt.Sprintf("HReqU (URelabel %d %d)", e.UTyp, e.UMID)
	case "rel", "relw":
		return "HReqU URelease"
	}
	return "HReq"
}

func c05Hex(s string) []byte {
	var out []byte
	for i := 0; i+1 < len(s); i += 2 {
		var b int
		fmt.Sscanf(s[i:i+2], "%x", &b)
		out = append(out, byte(b))
	}
	return out
}

func dashOpts(o message.Options) string {
	s := descOpts(o)
	if s == "" {
		return "-"
	}
	return s
}

func (e c05Ev) desc() string {
	switch e.Kind {
	case "age":
		return fmt.Sprintf("age:%d", e.Ms)
	case "tick":
		return "tick"
	case "drop":
		return fmt.Sprintf("drop:%d:%d", e.Typ, e.MID)
	case "ping":
		return fmt.Sprintf("ping:%d", e.MID)
	case "send":
		return fmt.Sprintf("send:%d:%x:%d:%s:%d:%d", e.Typ, e.Tok, e.RCode, dashOpts(e.ROpts), e.PSalt, e.PLen)
	case "sweep":
		// one token (the shrinker of bin/check drops whole space-separated events)
		d := "sweep" + e.Pt
		for _, in := range e.Inner {
			d += "/" + in.desc()
		}
		return d
	}
	d := fmt.Sprintf("req:%d:%d:%x:%d:%s:%s:%d:%s:%d:%d", e.Typ, e.MID, e.Tok, e.Code, dashOpts(e.ReqOpts), e.Beh, e.RCode, dashOpts(e.ROpts), e.PSalt, e.PLen)
	if e.Beh == "msg" {
		d += fmt.Sprintf(":%x", e.MTok)
	}
	if u := e.useDesc(); u != "" {
		d = "requ:" + u + ":" + strings.TrimPrefix(d, "req:")
	}
	return d
}

func parseC05Ev(s string) c05Ev {
	if strings.HasPrefix(s, "sweep") {
		parts := strings.Split(s, "/")
		e := c05Ev{Kind: "sweep", Pt: strings.TrimPrefix(parts[0], "sweep")}
		if e.Pt != "r" {
			e.Pt = "x"
		}
		for _, p := range parts[1:] {
			if in := parseC05Ev(p); in.Kind == "req" {
				e.Inner = append(e.Inner, in)
			}
		}
		return e
	}
	f := strings.Split(s, ":")
	var e c05Ev
	atoi := func(x string) int { var v int; fmt.Sscanf(x, "%d", &v); return v }
	if f[0] == "requ" && len(f) > 2 {
		u := strings.Split(f[1], ".")
		switch {
		case u[0] == "rl" && len(u) == 4:
			e.Use, e.UTyp, e.UMID = "rl", atoi(u[1]), atoi(u[2])
			if u[3] != "-" {
				e.UTok = c05Hex(u[3])
			}
		case u[0] == "rel" || u[0] == "relw":
			e.Use = u[0]
		}
		f = append([]string{"req"}, f[2:]...)
	}
	switch f[0] {
	case "age":
		e.Kind, e.Ms = "age", atoi(f[1])
	case "tick":
		e.Kind = "tick"
	case "drop":
		e.Kind, e.Typ, e.MID = "drop", atoi(f[1]), atoi(f[2])
	case "ping":
		e.Kind, e.MID = "ping", atoi(f[1])
	case "send":
		e.Kind, e.Typ, e.Tok, e.RCode = "send", atoi(f[1]), c05Hex(f[2]), atoi(f[3])
		e.ROpts = parseDescOpts(f[4])
		e.PSalt, e.PLen = atoi(f[5]), atoi(f[6])
	case "req":
		e.Kind = "req"
		e.Typ, e.MID = atoi(f[1]), atoi(f[2])
		e.Tok = c05Hex(f[3])
		e.Code = atoi(f[4])
		e.ReqOpts = parseDescOpts(f[5])
		e.Beh = f[6]
		e.RCode = atoi(f[7])
		e.ROpts = parseDescOpts(f[8])
		e.PSalt, e.PLen = atoi(f[9]), atoi(f[10])
		if len(f) > 11 {
			e.MTok = c05Hex(f[11])
		}
	}
	return e
}

func coqWireObs(ws []wireMsg) string {
	parts := make([]string, len(ws))
	for i, w := range ws {
		if w.Bad {
			parts[i] = "(OW 99 0 0 [] [] 0 0)"
			continue
		}
		parts[i] = fmt.Sprintf("(OW %d %d %d %s %s %d %d)", w.Typ, w.Code, w.MID, coqBytes(w.Tok), coqOpts(w.Opts), len(w.Payload), csum(w.Payload))
	}
	return "[" + strings.Join(parts, "; ") + "]"
}

func coqByteList(b []byte) string { return coqBytes(b) }

// coqBeh renders the handler behaviour of a request event as a Dedup.Model.behaviour.
func (e c05Ev) coqBeh() string {
	switch e.Beh {
	case "resp":
		return fmt.Sprintf("(BResp %d %s (gen_body %d %d%%nat))", e.RCode, coqOpts(e.ROpts), e.PSalt, e.PLen)
	case "msg":
		return fmt.Sprintf("(BMsg %d %s %s (gen_body %d %d%%nat))", e.RCode, coqBytes(e.MTok), coqOpts(e.ROpts), e.PSalt, e.PLen)
	case "rst":
		return "BRst"
	}
	return "BNone"
}

// c05Behave is the application handler for a request event:
//
//	none: returns without touching the response (a separate response is a later "send" event)
//	resp: w.SetResponse(code, TextPlain, body, opts...)
//	msg:  builds a message of its own from the pool and replaces the response with it (w.SetMessage)
//	rst:  w.Message().SetType(message.Reset)
func c05Behave(ev c05Ev) func(w *responsewriter.ResponseWriter[*client.Conn], r *pool.Message) {
	return func(w *responsewriter.ResponseWriter[*client.Conn], r *pool.Message) {
		c05UseRequest(ev, w, r)
		switch ev.Beh {
		case "resp":
			if ev.PLen > 0 {
				_ = w.SetResponse(codes.Code(ev.RCode), message.TextPlain, bytes.NewReader(genBody(ev.PSalt, ev.PLen)), ev.ROpts...)
			} else {
				_ = w.SetResponse(codes.Code(ev.RCode), message.TextPlain, nil, ev.ROpts...)
			}
		case "msg":
			// (the context of a received message is the connection's; the request may be gone by now)
			m := w.Conn().AcquireMessage(w.Conn().Context())
			m.SetCode(codes.Code(ev.RCode))
			m.SetToken(ev.MTok)
			m.ResetOptionsTo(ev.ROpts)
			if ev.PLen > 0 {
				m.SetBody(bytes.NewReader(genBody(ev.PSalt, ev.PLen)))
			}
			w.SetMessage(m)
		case "rst":
			w.Message().SetType(message.Reset)
		}
	}
}

// c05UseRequest: what the handler does with the request message it was handed, before it sets the response. The
// message is the handler's while it runs (pool.Message has setters and Hijack for exactly this).
//
//	rl:   a forwarding proxy re-labels the request with the numbering of the upstream exchange and serialises it
//	rel:  the handler takes the request over and gives it back to the pool when it has consumed it
//	relw: the same through a worker goroutine; the handler waits until the worker is done (a state witness,
//	      not a delay: the channel is closed after ReleaseMessage returned)
func c05UseRequest(ev c05Ev, w *responsewriter.ResponseWriter[*client.Conn], r *pool.Message) {
	switch ev.Use {
	case "rl":
		r.SetMessageID(int32(ev.UMID))
		r.SetType(message.Type(ev.UTyp))
		if ev.UTok != nil {
			r.SetToken(ev.UTok)
		}
		_, _ = r.MarshalWithEncoder(coder.DefaultCoder) // "sent upstream"
	case "rel":
		r.Hijack()
		_, _ = r.ReadBody()
		w.Conn().ReleaseMessage(r)
	case "relw":
		r.Hijack()
		done := make(chan struct{})
		go func() {
			defer close(done)
			_, _ = r.ReadBody()
			w.Conn().ReleaseMessage(r)
		}()
		select {
		case <-done:
		case <-time.After(10 * time.Second): // watchdog only; returning early cannot create a deviation
		}
	}
}

// runC05History executes one history on a fresh connection; returns the Coq text of the case.
// perEventC05, when set (C12), is called after every event of a history has been fully processed.
var perEventC05 func(i int, e c05Ev)

func runC05History(evs []c05Ev, getMID int32) (string, bool) {
	return runC05HistoryOn(evs, getMID, false)
}

func runC05HistoryOn(evs []c05Ev, getMID int32, dtls bool) (string, bool) {
	// the request monitor (client.WithRequestMonitor) withholds exactly the message of a "drop" event
	var dropNext atomic.Bool
	monitor := client.WithRequestMonitor(func(_ *client.Conn, _ *pool.Message) (bool, error) {
		return dropNext.CompareAndSwap(true, false), nil
	})
	mc := newMemConn(memConnOpts{getMID: getMID, queueSize: 16, maxRetransmit: 4, dtls: dtls, opts: []client.Option{monitor}})
	defer mc.close()
	own0 := mc.cc.VerifMsgID()
	for _, e := range evs {
		if e.Kind == "req" || e.Kind == "drop" || e.Kind == "ping" {
			mc.avoidMID[e.MID] = true
		}
		if e.Kind == "req" && e.Use == "rl" {
			mc.avoidMID[e.UMID&0xffff] = true // the barrier requests stay away from the handlers' labels, too
		}
		for _, in := range e.Inner {
			mc.avoidMID[in.MID] = true
		}
	}
	var sb strings.Builder
	fmt.Fprintf(&sb, "Hist %d [", own0)
	okRun := true
	// doReq: one request is received and processed completely; returns the arguments of its case event
	doReq := func(e c05Ev) string {
		ev := e
		beh := c05Behave(ev)
		mc.mu.Lock()
		mc.behave = func(w *responsewriter.ResponseWriter[*client.Conn], r *pool.Message) {
			if activeTracker != nil {
				activeTracker.Hold(r)
				defer activeTracker.Unhold(r)
			}
			beh(w, r)
		}
		mc.mu.Unlock()
		d := encodeWire(e.Typ, e.Code, e.MID, e.Tok, e.ReqOpts, nil)
		mc.inject(d)
		if !mc.sync() {
			okRun = false
		}
		log := mc.takeLog()
		out := mc.takeOut()
		return fmt.Sprintf("%d %d %s %d %s %s %s %s", e.Typ, e.MID, coqBytes(e.Tok), e.Code, coqOpts(e.ReqOpts), e.coqBeh(), coqBool(len(log) > 0), coqWireObs(out))
	}
	for i, e := range evs {
		if activeTracker != nil && activeTracker.bad() {
			break // C12: the lifecycle trace already contains a violation; the rest would only wait for watchdogs
		}
		if i > 0 {
			sb.WriteString("; ")
		}
		if os.Getenv("HXDBG") != "" {
			fmt.Fprintf(os.Stderr, "before %s: own=%d\n", e.desc(), uint16(mc.cc.VerifMsgID()))
		}
		switch e.Kind {
		case "age":
			mc.cc.VerifShiftResponseCache(time.Duration(e.Ms) * time.Millisecond)
			fmt.Fprintf(&sb, "HAge %d", e.Ms)
		case "tick":
			mc.cc.CheckExpirations(time.Now())
			if !mc.sync() {
				okRun = false
			}
			fmt.Fprintf(&sb, "HTick %s", coqWireObs(mc.takeOut()))
		case "drop":
			dropNext.Store(true)
			mc.inject(encodeWire(e.Typ, 1, e.MID, []byte{0xd0}, nil, nil))
			if !mc.sync() {
				okRun = false
			}
			if dropNext.Load() { // the monitor never saw the message
				okRun = false
				dropNext.Store(false)
			}
			fmt.Fprintf(&sb, "HDrop %d %d %s %s", e.Typ, e.MID, coqBool(len(mc.takeLog()) > 0), coqWireObs(mc.takeOut()))
		case "ping":
			mc.inject(encodeWire(0, 0, e.MID, nil, nil, nil))
			if !mc.sync() {
				okRun = false
			}
			fmt.Fprintf(&sb, "HPing %d %s %s", e.MID, coqBool(len(mc.takeLog()) > 0), coqWireObs(mc.takeOut()))
		case "send":
			// the application sends a message of its own (a separate response carries the request's token)
			m := mc.cc.AcquireMessage(mc.cc.Context())
			m.SetCode(codes.Code(e.RCode))
			m.SetToken(e.Tok)
			m.SetType(message.Type(e.Typ))
			m.ResetOptionsTo(e.ROpts)
			if e.PLen > 0 {
				m.SetBody(bytes.NewReader(genBody(e.PSalt, e.PLen)))
			}
			var out []wireMsg
			if e.Typ == 0 {
				// confirmable: WriteMessage returns once the peer has acknowledged the message
				done := make(chan error, 1)
				go func() { done <- mc.cc.WriteMessage(m) }()
				if mc.waitOut(1, 3*time.Second) {
					out = mc.takeOut()
					if len(out) == 1 && !out[0].Bad {
						mc.inject(encodeWire(2, 0, out[0].MID, nil, nil, nil))
					}
				} else {
					okRun = false
				}
				select {
				case err := <-done:
					if err != nil {
						okRun = false
					}
				case <-time.After(3 * time.Second):
					okRun = false
				}
			} else {
				if err := mc.cc.WriteMessage(m); err != nil {
					okRun = false
				}
			}
			mc.cc.ReleaseMessage(m)
			if !mc.sync() {
				okRun = false
			}
			out = append(out, mc.takeOut()...)
			fmt.Fprintf(&sb, "HSend %d %s %d %s (gen_body %d %d%%nat) %s %s", e.Typ, coqBytes(e.Tok), e.RCode, coqOpts(e.ROpts), e.PSalt, e.PLen,
				coqBool(len(mc.takeLog()) > 0), coqWireObs(out))
		case "req":
			fmt.Fprintf(&sb, "%s %s", e.coqReqHead(), doReq(e))
		case "sweep":
			// The inner requests arrive while a sweep is in flight. Forced with the yield points of the sweep (build
			// tag verif; no lock is held there): the hook runs on the sweeping goroutine (this one), hands the requests
			// to the connection and waits until each one has been processed completely (reply stored and written).
			// Reported as "inner requests; Tick", which the execution must be equivalent to (Dedup/Sweep.v,
			// sweep_unobservable: a sweep only ever removes replies that a request treats as absent).
			var inner []string
			fired := false
			fire := func() {
				fired = true
				for _, in := range e.Inner {
					in.Use = ""
					inner = append(inner, "HR "+doReq(in))
				}
			}
			if e.Pt == "r" {
				coapSync.VerifYieldHook = func(point string) {
					if point == "Map.Range.unlocked" && !fired {
						fire()
					}
				}
			} else {
				cache.VerifYieldHook = func(point string) {
					if point == "Cache.CheckExpirations.expired" && !fired {
						fire()
					}
				}
			}
			mc.cc.CheckExpirations(time.Now())
			cache.VerifYieldHook = nil
			coapSync.VerifYieldHook = nil
			if !mc.sync() {
				okRun = false
			}
			tickOut := mc.takeOut()
			if !fired {
				// the sweep never reached the point (nothing expired / empty cache): the requests come after it
				fmt.Fprintf(&sb, "HSweep [] %s", coqWireObs(tickOut))
				for _, in := range e.Inner {
					in.Use = ""
					fmt.Fprintf(&sb, "; HReq %s", doReq(in))
				}
			} else {
				fmt.Fprintf(&sb, "HSweep [%s] %s", strings.Join(inner, "; "), coqWireObs(tickOut))
			}
		}
		if perEventC05 != nil {
			perEventC05(i, e)
		}
	}
	sb.WriteString("]")
	return sb.String(), okRun
}

func c05Desc(evs []c05Ev, getMID int32) string {
	parts := make([]string, len(evs))
	for i, e := range evs {
		parts[i] = e.desc()
	}
	return fmt.Sprintf("%d|%s", getMID, strings.Join(parts, " "))
}

// runC05Concurrent: for every request of reqs, copies[i] copies are processed concurrently (one goroutine per
// received message). The requests have pairwise different message IDs. The handler of the first copy of
// every request is held until every other copy holds or waits for its per-message-ID lock, then all are
// released at once. Reported as the history [copies of reqs[0] ...; copies of reqs[1] ...; ...]: the copies of
// one request in the order they took the lock (the first one ran the handler), the requests in the order
// given - sections of different message IDs commute (Dedup/Conc.v), and with more than one request all
// requests are confirmable, so that no reply carries an ID drawn from the connection's own counter.
func runC05Concurrent(reqs []c05Ev, copies []int, getMID int32, dtls bool) (string, bool) {
	return runC05ConcurrentM(reqs, copies, getMID, dtls, "")
}

// c05YieldCache is a response cache supplied by the application (client.WithResponseMessageCache): the
// connection's own in-memory cache (udp/client.messageCache: marshalled reply in a pkg/cache.Cache, LoadOrStore,
// ExchangeLifetime) whose first Store takes a while - it returns only when every copy of the request holds or
// waits for the per-message-ID lock (the storing one included), or when some copy has consulted the cache (Load
// of the same key) since the Store began. On an implementation that keeps the lock until the reply is stored all other copies wait for the
// lock, so the Store returns at once (mode "w": they were waiting already) or as soon as the copies that arrive
// during the Store (mode "a") queue up behind the lock. The 3 s limit can only let the Store finish early, which
// an implementation that satisfies the property cannot notice.
type c05YieldCache struct {
	c       *cache.Cache[string, []byte]
	mu      sync.Mutex
	loads   map[string]int
	yielded bool
	storing chan string          // the first Store announces its key here
	parked  func(key string) int // how many goroutines hold or wait for the lock of that key
	need    int                  // the number of copies of the request
}

func (m *c05YieldCache) Load(key string, msg *pool.Message) (bool, error) {
	m.mu.Lock()
	m.loads[key]++
	m.mu.Unlock()
	el := m.c.Load(key)
	if el == nil {
		return false, nil
	}
	if raw := el.Data(); len(raw) > 0 {
		if _, err := msg.UnmarshalWithDecoder(coder.DefaultCoder, raw); err != nil {
			return false, err
		}
		return true, nil
	}
	return false, nil
}

func (m *c05YieldCache) Store(key string, msg *pool.Message) error {
	raw, err := msg.MarshalWithEncoder(coder.DefaultCoder)
	if err != nil {
		return err
	}
	cp := make([]byte, len(raw))
	copy(cp, raw)
	m.mu.Lock()
	first := !m.yielded
	m.yielded = true
	loads0 := m.loads[key]
	m.mu.Unlock()
	if first {
		select {
		case m.storing <- key:
		default:
		}
		deadline := time.Now().Add(3 * time.Second)
		for time.Now().Before(deadline) {
			m.mu.Lock()
			l := m.loads[key] - loads0
			m.mu.Unlock()
			if l > 0 || m.parked(key) >= m.need {
				break
			}
			time.Sleep(100 * time.Microsecond)
		}
	}
	m.c.LoadOrStore(key, cache.NewElement(cp, time.Now().Add(client.ExchangeLifetime), nil))
	return nil
}

func (m *c05YieldCache) CheckExpirations(now time.Time) { m.c.CheckExpirations(now) }

// lookups: how often the cache was consulted for key (every copy of a CON/NON request does it once)
func (m *c05YieldCache) lookups(key string) int {
	m.mu.Lock()
	defer m.mu.Unlock()
	return m.loads[key]
}

// runC05ConcurrentM: mode "" as described above. Modes "w" and "a" (one request only): the response cache is a
// c05YieldCache, i.e. the reply of the first copy is being stored for a while after its handler returned.
// "w": as "", the other copies wait for the lock when the first handler returns. "a": the handler is not held;
// the other copies arrive when the Store of the first copy's reply has begun.
func runC05ConcurrentM(reqs []c05Ev, copies []int, getMID int32, dtls bool, mode string) (string, bool) {
	var yc *c05YieldCache
	var copts []client.Option
	if mode != "" {
		yc = &c05YieldCache{c: cache.NewCache[string, []byte](), loads: map[string]int{}, storing: make(chan string, 1), need: copies[0]}
		copts = append(copts, client.WithResponseMessageCache(yc))
	}
	mc := newMemConn(memConnOpts{getMID: getMID, queueSize: 16, maxRetransmit: 4, perMessageGoroutine: true, dtls: dtls, opts: copts})
	defer mc.close()
	if yc != nil {
		yc.parked = func(key string) int {
			var k int
			if _, err := fmt.Sscanf(key, "%d", &k); err != nil {
				return 0
			}
			return mc.cc.VerifMsgIDLockCount(int32(k))
		}
	}
	own0 := mc.cc.VerifMsgID()
	total := 0
	for _, k := range copies {
		total += k
	}
	entered := make(chan struct{}, 64)
	gate := make(chan struct{})
	byMID := map[int]c05Ev{}
	for _, ev := range reqs {
		byMID[ev.MID] = ev
	}
	mc.mu.Lock()
	mc.behave = func(w *responsewriter.ResponseWriter[*client.Conn], r *pool.Message) {
		entered <- struct{}{}
		<-gate
		c05Behave(byMID[int(r.MessageID())])(w, r)
	}
	mc.mu.Unlock()
	ok := true
	if mode == "a" {
		close(gate) // the handlers are not held
	}
	// first copies: wait until each one is inside the handler
	for _, ev := range reqs {
		mc.inject(encodeWire(ev.Typ, ev.Code, ev.MID, ev.Tok, ev.ReqOpts, nil))
	}
	for range reqs {
		select {
		case <-entered:
		case <-time.After(3 * time.Second):
			ok = false
		}
	}
	if mode == "a" {
		// the other copies arrive when the reply of the first one is being stored (or, when nothing is
		// stored for it - a non-confirmable request that got no reply -, when it has been processed)
		deadline := time.Now().Add(3 * time.Second)
	waitStore:
		for {
			select {
			case <-yc.storing:
				break waitStore
			default:
			}
			if mc.cc.VerifMsgIDLockCount(int32(reqs[0].MID)) == 0 || time.Now().After(deadline) {
				break
			}
			time.Sleep(100 * time.Microsecond)
		}
	}
	for i, ev := range reqs {
		d := encodeWire(ev.Typ, ev.Code, ev.MID, ev.Tok, ev.ReqOpts, nil)
		for c := 1; c < copies[i]; c++ {
			mc.inject(d)
		}
	}
	// wait until every other copy holds or waits for its per-message-ID lock (or, in a broken
	// implementation, has entered the handler as well)
	lockCount := func() int {
		n := 0
		for _, ev := range reqs {
			n += mc.cc.VerifMsgIDLockCount(int32(ev.MID))
		}
		return n
	}
	deadline := time.Now().Add(3 * time.Second)
	for mode != "a" && lockCount()+len(entered) < total && time.Now().Before(deadline) {
		time.Sleep(200 * time.Microsecond)
	}
	if mode != "a" {
		close(gate)
	}
	if mode == "a" {
		// the copies were not parked before: every one of them has consulted the cache (then it holds its lock
		// or is past it; the quiescence check below waits for the rest)
		deadline = time.Now().Add(3 * time.Second)
		for yc.lookups(fmt.Sprint(reqs[0].MID)) < copies[0] {
			if time.Now().After(deadline) {
				ok = false
				break
			}
			time.Sleep(100 * time.Microsecond)
		}
	}
	expected := 0
	for i, ev := range reqs {
		expected += expectedReplies(ev, copies[i])
	}
	if !mc.waitOut(expected, 3*time.Second) {
		ok = false
	}
	// quiescence: no lock holder left
	deadline = time.Now().Add(3 * time.Second)
	for lockCount() > 0 && time.Now().Before(deadline) {
		time.Sleep(200 * time.Microsecond)
	}
	log := mc.takeLog()
	allOut := mc.takeOut()
	var sb strings.Builder
	fmt.Fprintf(&sb, "Hist %d [", own0)
	first := true
	for ri, ev := range reqs {
		k := copies[ri]
		calls := 0
		for _, l := range log {
			if l.MID == ev.MID {
				calls++
			}
		}
		var out []wireMsg
		if len(reqs) == 1 {
			out = allOut
		} else {
			for _, w := range allOut {
				if !w.Bad && w.MID == ev.MID {
					out = append(out, w)
				}
			}
		}
		// distribute the observed replies over the copies: the reply of the copy that ran the handler
		// first (with several requests it is recognised by not being re-addressed: a stored reply is sent
		// as it was stored, so any order within one message ID shows the same datagrams), a copy that
		// produced no datagram gets the empty list (only possible for a NON request whose handler sets nothing)
		// the write happens after the lock is released, so a duplicate's datagram can overtake the first
		// copy's: datagrams that are not of the shape of a re-addressed stored reply go first
		hitTyp := 1
		if ev.Typ == 0 {
			hitTyp = 2
		}
		sort.SliceStable(out, func(a, b int) bool {
			ha := !out[a].Bad && out[a].Typ == hitTyp && out[a].MID == ev.MID
			hb := !out[b].Bad && out[b].Typ == hitTyp && out[b].MID == ev.MID
			return !ha && hb
		})
		per := len(out) / k
		if per*k != len(out) || per > 1 {
			per = -1
		}
		for i := 0; i < k; i++ {
			if !first {
				sb.WriteString("; ")
			}
			first = false
			var o []wireMsg
			switch {
			case per == 1:
				o = out[i : i+1]
			case per == 0:
				o = nil
			default:
				if i == 0 {
					o = out // irregular: attribute everything to the first copy so that the mismatch is visible
				}
			}
			fmt.Fprintf(&sb, "%s %d %d %s %d %s %s %s %s", ev.coqReqHead(), ev.Typ, ev.MID, coqBytes(ev.Tok), ev.Code, coqOpts(ev.ReqOpts), ev.coqBeh(), coqBool(i < calls), coqWireObs(o))
		}
	}
	sb.WriteString("]")
	return sb.String(), ok
}

// expectedReplies: how many datagrams k concurrent copies of ev produce (used only to know how long to wait)
func expectedReplies(ev c05Ev, k int) int {
	if ev.Typ == 0 {
		return k // a confirmable request is always acknowledged
	}
	if ev.Beh == "none" {
		return 0
	}
	if ev.Beh == "resp" {
		if v, err := ev.ReqOpts.GetUint32(message.NoResponse); err == nil && noresponse.IsNoResponseCode(codes.Code(ev.RCode), v) != nil {
			return 0 // suppressed by the No-Response option
		}
	}
	return k
}

// genC05History draws one structured history of the original event set (shared with C12).
func genC05History(rng *Rng, tier string) ([]c05Ev, int32) { return genC05HistoryX(rng, tier, false) }

// genC05HistoryX: with ext, the history also contains the handler behaviours msg / rst and Empty-code
// responses, request-monitor drops, pings and messages sent by the application (separate responses).
func genC05HistoryX(rng *Rng, tier string, ext bool) ([]c05Ev, int32) {
	respOptsPool := []message.Options{
		nil,
		{{ID: message.ETag, Value: []byte{1, 2, 3}}},
		{{ID: message.MaxAge, Value: []byte{60}}},
		{{ID: message.ETag, Value: []byte{9}}, {ID: message.LocationPath, Value: []byte("a")}, {ID: message.LocationPath, Value: []byte("bc")}},
		{{ID: message.ContentFormat, Value: []byte{50}}},
	}
	respCodes := []int{69, 68, 65, 132, 160, 95, 157}
	mkReq := func(typ, mid int, getMID int32) c05Ev {
		ev := c05Ev{Kind: "req", Typ: typ, MID: mid, Code: 1 + rng.Intn(4)}
		tl := []int{0, 1, 2, 4, 8, 8}[rng.Intn(6)]
		ev.Tok = make([]byte, tl)
		for i := range ev.Tok {
			ev.Tok[i] = byte(rng.U64())
		}
		if rng.Chance(20) {
			v := []byte{byte([]int{0, 2, 8, 16, 26, 24, 10}[rng.Intn(7)])}
			if v[0] == 0 {
				v = nil
			}
			ev.ReqOpts = message.Options{{ID: message.NoResponse, Value: v}}
		}
		if rng.Chance(75) {
			ev.Beh = "resp"
			ev.RCode = respCodes[rng.Intn(len(respCodes))]
			ev.ROpts = respOptsPool[rng.Intn(len(respOptsPool))]
			ev.PLen = []int{0, 0, 1, 5, 13, 40}[rng.Intn(6)]
			ev.PSalt = rng.Intn(250)
		} else {
			ev.Beh = "none"
		}
		if ext {
			switch r := rng.Intn(100); {
			case r < 14: // the handler replaces the response message
				if ev.Beh != "resp" {
					ev.RCode = respCodes[rng.Intn(len(respCodes))]
					ev.ROpts = respOptsPool[rng.Intn(len(respOptsPool))]
					ev.PLen = []int{0, 0, 1, 5, 13, 40}[rng.Intn(6)]
					ev.PSalt = rng.Intn(250)
				}
				ev.Beh = "msg"
				switch rng.Intn(3) {
				case 0:
					ev.MTok = append([]byte{}, ev.Tok...)
				case 1:
					ev.MTok = []byte{byte(rng.U64()), 0x5e}
				}
				if rng.Chance(15) {
					ev.RCode = 0
				}
			case r < 22: // Reset
				ev.Beh, ev.RCode, ev.ROpts, ev.PLen, ev.PSalt = "rst", 0, nil, 0, 0
			case r < 30: // response with the Empty code
				ev.Beh, ev.RCode = "resp", 0
				ev.ROpts = respOptsPool[rng.Intn(len(respOptsPool))]
				ev.PLen = []int{0, 0, 5}[rng.Intn(3)]
				ev.PSalt = rng.Intn(250)
			}
		}
		return ev
	}
	getMID := int32([]int{0x1000, 0, 0x7fff, 0xffff, 0x8123}[rng.Intn(5)])
	own := int(uint16(uint32(getMID) - 0x7fff))
	midPool := []int{0, 1, 2, 65535, 4660, (own + 1) & 0xffff, (own + 2) & 0xffff, own, (own + 0x3fff) & 0xffff, (own + 0x4001) & 0xffff}
	k := 3 + rng.Intn(8)
	if tier == "thorough" && rng.Chance(20) {
		k = 10 + rng.Intn(20)
	}
	var evs []c05Ev
	now := 0
	var stamps []int // times at which something may have been stored
	usable := func(t int) bool {
		for _, s := range stamps {
			d := t - s - 247000
			if d > -400 && d < 400 {
				return false
			}
		}
		return true
	}
	var last *c05Ev
	pReq, pAge := 55, 85
	if ext {
		pReq, pAge = 50, 72
	}
	for len(evs) < k {
		switch r := rng.Intn(100); {
		case r < pReq:
			var ev c05Ev
			if last != nil && rng.Chance(45) {
				// a duplicate of an earlier request (same datagram), sometimes with another handler behaviour
				prev := evs[rng.Intn(len(evs))]
				if prev.Kind != "req" {
					prev = *last
				}
				ev = prev
				if rng.Chance(30) {
					alt := mkReq(prev.Typ, prev.MID, getMID)
					ev.Beh, ev.RCode, ev.ROpts, ev.PLen, ev.PSalt, ev.MTok = alt.Beh, alt.RCode, alt.ROpts, alt.PLen, alt.PSalt, alt.MTok
				}
				if rng.Chance(10) {
					ev.Typ = 1 - ev.Typ
				}
			} else {
				ev = mkReq(rng.Intn(2), midPool[rng.Intn(len(midPool))], getMID)
			}
			evs = append(evs, ev)
			last = &evs[len(evs)-1]
			stamps = append(stamps, now)
		case r < pAge:
			ms := []int{1000, 100000, 246000, 246600, 247500, 248000, 500, 123000, 124500, 300000}[rng.Intn(10)]
			if usable(now + ms) {
				now += ms
				evs = append(evs, c05Ev{Kind: "age", Ms: ms})
			}
		case r < 85:
			// ext only: the request monitor drops a (copy of a) message, a ping, or the application sends a
			// separate response / a message of its own
			switch q := rng.Intn(100); {
			case q < 35:
				ev := c05Ev{Kind: "drop", Typ: rng.Intn(2), MID: midPool[rng.Intn(len(midPool))]}
				if last != nil && rng.Chance(60) {
					ev.Typ, ev.MID = last.Typ, last.MID
				}
				evs = append(evs, ev)
			case q < 55:
				ev := c05Ev{Kind: "ping", MID: midPool[rng.Intn(len(midPool))]}
				if last != nil && rng.Chance(40) {
					ev.MID = last.MID
				}
				evs = append(evs, ev)
			default:
				ev := c05Ev{Kind: "send", Typ: rng.Intn(2), RCode: respCodes[rng.Intn(len(respCodes))], ROpts: respOptsPool[rng.Intn(len(respOptsPool))],
					PLen: []int{0, 1, 5, 13}[rng.Intn(4)], PSalt: rng.Intn(250)}
				if last != nil {
					ev.Tok = append([]byte{}, last.Tok...) // separate response to the last request
				} else {
					ev.Tok = []byte{0x5e, 0x9a}
				}
				evs = append(evs, ev)
			}
		default:
			evs = append(evs, c05Ev{Kind: "tick"})
		}
	}
	return evs, getMID
}

// c05DecorateUse gives (most of) the request events of a history a handler that uses the request message itself:
// re-labelled (another message ID - random, the ID of another request of the history, an ID next to the connection's own
// counter - or the same ID; the same or the other request type; sometimes another token), released by the handler, released
// by a worker. A later copy of a request keeps the use of the earlier one half of the time.
func c05DecorateUse(rng *Rng, evs []c05Ev, getMID int32) {
	own := int(uint16(uint32(getMID) - 0x7fff))
	var mids []int
	for _, e := range evs {
		if e.Kind == "req" {
			mids = append(mids, e.MID)
		}
	}
	byMID := map[int]c05Ev{}
	for i := range evs {
		e := &evs[i]
		if e.Kind != "req" {
			continue
		}
		if prev, ok := byMID[e.MID]; ok && rng.Chance(50) {
			e.Use, e.UTyp, e.UMID, e.UTok = prev.Use, prev.UTyp, prev.UMID, prev.UTok
			continue
		}
		switch r := rng.Intn(100); {
		case r < 50:
			e.Use = "rl"
			e.UTyp = e.Typ
			if rng.Chance(35) {
				e.UTyp = 1 - e.Typ
			}
			switch rng.Intn(6) {
			case 0:
				e.UMID = e.MID // the label is kept
			case 1:
				e.UMID = mids[rng.Intn(len(mids))] // the ID of a(nother) request of the history
			case 2:
				e.UMID = (own + 1 + rng.Intn(3)) & 0xffff // what the connection's own counter hands out next
			case 3:
				e.UMID = (e.MID + 1) & 0xffff
			default:
				e.UMID = rng.Intn(65536)
			}
			if rng.Chance(50) {
				e.UTok = []byte{0xee, byte(rng.U64())}
			}
		case r < 68:
			e.Use = "rel"
		case r < 85:
			e.Use = "relw"
		}
		byMID[e.MID] = *e
	}
}

// c05MethodCodes: request method codes beyond GET..DELETE: FETCH, PATCH, iPATCH (RFC 8132) and other codes of
// class 0 (0.01-0.31 are requests, RFC 7252 section 5.2 / 12.1.1), mixed with the classic four
var c05MethodCodes = []int{5, 6, 7, 5, 6, 7, 8, 15, 31, 1, 2, 3, 4}

// c05DecorateMethod gives every message ID of a history a method code from c05MethodCodes (the copies of a request
// carry the method of the first one most of the time: they are retransmissions).
func c05DecorateMethod(rng *Rng, evs []c05Ev) {
	byMID := map[int]int{}
	for i := range evs {
		e := &evs[i]
		if e.Kind != "req" {
			continue
		}
		if c, ok := byMID[e.MID]; ok && rng.Chance(85) {
			e.Code = c
			continue
		}
		e.Code = c05MethodCodes[rng.Intn(len(c05MethodCodes))]
		byMID[e.MID] = e.Code
	}
}

// c05MkReq draws one request (any method code of class 0; the handler behaviours of the extended event set)
func c05MkReq(rng *Rng, typ, mid int) c05Ev {
	respOptsPool := []message.Options{
		nil,
		{{ID: message.ETag, Value: []byte{1, 2, 3}}},
		{{ID: message.MaxAge, Value: []byte{60}}},
		{{ID: message.ContentFormat, Value: []byte{50}}},
	}
	respCodes := []int{69, 68, 65, 132, 160, 95, 157}
	ev := c05Ev{Kind: "req", Typ: typ, MID: mid, Code: c05MethodCodes[rng.Intn(len(c05MethodCodes))]}
	ev.Tok = make([]byte, []int{0, 1, 2, 4, 8}[rng.Intn(5)])
	for i := range ev.Tok {
		ev.Tok[i] = byte(rng.U64())
	}
	ev.RCode = respCodes[rng.Intn(len(respCodes))]
	ev.ROpts = respOptsPool[rng.Intn(len(respOptsPool))]
	ev.PLen = []int{0, 0, 1, 5, 13, 40}[rng.Intn(6)]
	ev.PSalt = rng.Intn(250)
	switch r := rng.Intn(100); {
	case r < 60:
		ev.Beh = "resp"
	case r < 75:
		ev.Beh = "msg"
		ev.MTok = []byte{byte(rng.U64()), 0x5e}
	case r < 82:
		ev.Beh, ev.RCode, ev.ROpts, ev.PLen, ev.PSalt = "rst", 0, nil, 0, 0
	case r < 88:
		ev.Beh, ev.RCode = "resp", 0
	default:
		ev.Beh, ev.RCode, ev.ROpts, ev.PLen, ev.PSalt = "none", 0, nil, 0, 0
	}
	return ev
}

// genC05Sweep: message IDs that are used again after the lifetime while the replies of their first use are still in
// the cache, with a sweep in flight at that very moment. 1-3 first uses (with copies), the lifetime elapses (nothing
// sweeps), optionally requests with other IDs (replies that are not expired when the sweep runs), then the sweep
// during which new requests with (all / some of) the old IDs are processed, then copies of the new requests: at once,
// after 246 s (still inside the lifetime of the second use) and after 248 s (fresh again).
func genC05Sweep(rng *Rng) ([]c05Ev, int32) {
	getMID := int32([]int{0x1000, 0, 0x7fff, 0xffff, 0x8123}[rng.Intn(5)])
	own := int(uint16(uint32(getMID) - 0x7fff))
	midPool := []int{0, 1, 2, 65535, 4660, (own + 1) & 0xffff, (own + 2) & 0xffff, own, (own + 0x3fff) & 0xffff, (own + 0x4001) & 0xffff, 30000, 30001}
	for i := len(midPool) - 1; i > 0; i-- {
		j := rng.Intn(i + 1)
		midPool[i], midPool[j] = midPool[j], midPool[i]
	}
	// (the pool may contain an ID twice when two of the derived values coincide: keep the first of each)
	uniq := midPool[:0]
	seenMID := map[int]bool{}
	for _, m := range midPool {
		if !seenMID[m] {
			seenMID[m] = true
			uniq = append(uniq, m)
		}
	}
	midPool = uniq
	nOld := 1 + rng.Intn(3)
	old := midPool[:nOld]
	var evs []c05Ev
	for _, m := range old {
		r := c05MkReq(rng, rng.Intn(2), m)
		evs = append(evs, r)
		if rng.Chance(40) {
			evs = append(evs, r)
		}
	}
	evs = append(evs, c05Ev{Kind: "age", Ms: []int{247500, 248000, 300000, 500000}[rng.Intn(4)]})
	nValid := rng.Intn(3)
	for i := 0; i < nValid; i++ { // replies that are still valid when the sweep runs
		evs = append(evs, c05MkReq(rng, rng.Intn(2), midPool[nOld+i]))
	}
	sw := c05Ev{Kind: "sweep", Pt: "x"}
	if rng.Chance(25) {
		sw.Pt = "r"
	}
	var again []c05Ev
	for _, m := range old {
		if nOld > 1 && rng.Chance(20) {
			continue // this ID is not used again
		}
		r := c05MkReq(rng, rng.Intn(2), m)
		again = append(again, r)
		sw.Inner = append(sw.Inner, r)
		if rng.Chance(25) {
			sw.Inner = append(sw.Inner, r) // a copy that is still inside the sweep's window
		}
	}
	evs = append(evs, sw)
	evs = append(evs, again...)
	if rng.Chance(50) {
		evs = append(evs, c05Ev{Kind: "tick"})
		evs = append(evs, again...)
	}
	evs = append(evs, c05Ev{Kind: "age", Ms: 246000})
	evs = append(evs, again...)
	if rng.Chance(50) {
		evs = append(evs, c05Ev{Kind: "age", Ms: 2000}, c05Ev{Kind: "tick"})
		evs = append(evs, again...)
	}
	return evs, getMID
}

func runC05(a runArgs) error {
	e := NewEmitter("C05", "Dedup.Run")
	e.Preamble = "From GoCoap Require Import Base.Bytes Dedup.Model Dedup.Spec."
	e.ShardSize = 120
	e.Rule = "histories of 3-12 events on a fresh udp/client.Conn over an in-memory session and (a sample; ten times as many in the thorough tier) over a real dtls/server.Session on a scripted net.Conn: CON/NON requests (message IDs from a small pool incl. 0, 65535 and IDs near the connection's own counter; random tokens; optional No-Response option) with handler behaviours none / response(code incl. Empty, options, payload) / replaced response message (w.SetMessage, own token) / Reset, request-monitor drops, pings, messages sent by the application (separate responses, CON acknowledged by the harness / NON), interleaved with Age (virtual time shifts of the response cache around the 247 s lifetime, never within 300 ms of a boundary) and housekeeping ticks; plus concurrent families (one goroutine per received message): 2-4 copies of one request, and 2-3 copies each of two or three confirmable requests with different message IDs, first handlers held until all other copies wait on their locks; request methods beyond GET..DELETE (FETCH, PATCH, iPATCH and other codes 0.08-0.31) in histories, concurrent copies and witnesses; message IDs used again after the lifetime while a housekeeping sweep stands between examining (or fetching) the expired reply and removing it (forced at the yield points of the sweep), followed by copies of the new requests at 0 s / 246 s / 248 s; 2-4 copies of one request processed concurrently on a connection with an application-supplied response cache whose Store takes a while (returns on a witness: all copies hold or wait for the per-message-ID lock, or a copy consulted the cache), the other copies waiting for the lock when the first handler returns or arriving while the reply is being stored. Distinct = distinct history; non-trivial = contains a duplicate (same message ID twice)."
	rng := NewRng(a.seed)

	emitOn := func(evs []c05Ev, getMID int32, dtls bool) {
		start := time.Now()
		txt, ok := runC05HistoryOn(evs, getMID, dtls)
		if time.Since(start) > 150*time.Millisecond || !ok {
			// timing bracket too wide for the 300 ms margins (or a barrier timed out): run again once
			start = time.Now()
			txt, ok = runC05HistoryOn(evs, getMID, dtls)
			if time.Since(start) > 250*time.Millisecond {
				e.Hist["slow_rerun"]++
			}
		}
		dup := false
		seen := map[int]bool{}
		buckets := []string{fmt.Sprintf("len%02d", len(evs))}
		kinds := map[string]bool{}
		var flat []c05Ev
		for _, ev := range evs {
			if ev.Kind == "sweep" {
				kinds["ev=sweep-"+ev.Pt] = true
				flat = append(flat, ev.Inner...)
				continue
			}
			flat = append(flat, ev)
		}
		for _, ev := range flat {
			if ev.Kind == "req" {
				if seen[ev.MID] {
					dup = true
				}
				seen[ev.MID] = true
				kinds["beh="+ev.Beh] = true
				if ev.Code > 4 {
					kinds["method>0.04"] = true
				}
				if ev.Use != "" {
					kinds["use="+ev.Use] = true
				}
				if ev.Beh != "none" && ev.Beh != "rst" && ev.RCode == 0 {
					kinds["beh=empty-code"] = true
				}
			} else {
				kinds["ev="+ev.Kind] = true
			}
		}
		for k := range kinds {
			buckets = append(buckets, k)
		}
		sort.Strings(buckets)
		buckets = append(buckets, fmt.Sprintf("dup=%v", dup))
		if !ok {
			e.Hist["barrier_timeout"]++
		}
		desc := c05Desc(evs, getMID)
		if dtls {
			desc = "dtls#" + desc
			buckets = append(buckets, "session=dtls")
		}
		e.Add(txt, desc, dup, buckets...)
	}
	emit := func(evs []c05Ev, getMID int32) { emitOn(evs, getMID, false) }

	var emitConcM func(reqs []c05Ev, copies []int, getMID int32, dtls bool, mode string)
	emitConc := func(reqs []c05Ev, copies []int, getMID int32, dtls bool) { emitConcM(reqs, copies, getMID, dtls, "") }
	emitConcM = func(reqs []c05Ev, copies []int, getMID int32, dtls bool, mode string) {
		txt, ok := runC05ConcurrentM(reqs, copies, getMID, dtls, mode)
		if !ok {
			txt, ok = runC05ConcurrentM(reqs, copies, getMID, dtls, mode)
		}
		if !ok {
			e.Hist["concurrent_timeout"]++
		}
		parts := make([]string, 0, 2*len(reqs))
		for i, ev := range reqs {
			parts = append(parts, fmt.Sprintf("conc%s:%d", mode, copies[i]), ev.desc())
		}
		desc := fmt.Sprintf("%d|%s", getMID, strings.Join(parts, " "))
		bucket := "concurrent"
		if len(reqs) > 1 {
			bucket = "concurrent-mixed"
		}
		if mode != "" {
			bucket = "concurrent-store-" + mode
		}
		for _, ev := range reqs {
			if ev.Use != "" {
				bucket += "-use"
				break
			}
		}
		if dtls {
			desc = "dtls#" + desc
		}
		e.Add(txt, desc, true, bucket, fmt.Sprintf("copies%d", copies[0]), fmt.Sprintf("requests%d", len(reqs)))
	}
	if a.only != "" {
		only := a.only
		dtls := strings.HasPrefix(only, "dtls#")
		only = strings.TrimPrefix(only, "dtls#")
		var getMID int32
		parts := strings.SplitN(only, "|", 2)
		fmt.Sscanf(parts[0], "%d", &getMID)
		fields := strings.Fields(parts[1])
		if strings.Contains(only, "conc:") || strings.Contains(only, "concw:") || strings.Contains(only, "conca:") {
			var reqs []c05Ev
			var copies []int
			k := 1
			mode := ""
			for _, f := range fields {
				if strings.HasPrefix(f, "conc:") {
					fmt.Sscanf(f, "conc:%d", &k)
					continue
				}
				if strings.HasPrefix(f, "concw:") || strings.HasPrefix(f, "conca:") {
					mode = f[4:5]
					fmt.Sscanf(f[6:], "%d", &k)
					continue
				}
				ev := parseC05Ev(f)
				if ev.Kind != "req" {
					continue
				}
				reqs = append(reqs, ev)
				copies = append(copies, k)
				k = 1
			}
			if mode != "" && len(reqs) > 0 {
				reqs, copies = reqs[:1], copies[:1]
				if copies[0] < 2 {
					copies[0] = 2 // a copy is what the case is about (the shrinker may have dropped the count)
				}
			}
			if len(reqs) > 0 {
				emitConcM(reqs, copies, getMID, dtls, mode)
			}
			return e.Flush(a.out)
		}
		var evs []c05Ev
		for _, s := range fields {
			evs = append(evs, parseC05Ev(s))
		}
		emitOn(evs, getMID, dtls)
		return e.Flush(a.out)
	}

	// canonical witnesses of the concurrent-store families (see the end of this function; no random draws, and put
	// first so that the case reported for a violation of the lock discipline is a deterministic one)
	for _, mode := range []string{"w", "a"} {
		for _, typ := range []int{0, 1} {
			for _, beh := range []string{"resp", "none", "msg", "rst"} {
				r := c05Ev{Kind: "req", Typ: typ, MID: 0x4321, Tok: []byte{0xa, 0xb, 0xc}, Code: 1, Beh: beh, RCode: 69, PLen: 5, PSalt: 9, MTok: []byte{0xcc}}
				if beh == "rst" || beh == "none" {
					r.RCode, r.PLen, r.PSalt = 0, 0, 0
				}
				emitConcM([]c05Ev{r}, []int{2}, 0x1000, false, mode)
				emitConcM([]c05Ev{r}, []int{3}, 0x1000, false, mode)
			}
		}
	}
	// structured histories: the original event set, and the extended one
	n, nx := 300, 420
	if a.tier == "thorough" {
		n, nx = 1500, 2500
	}
	for c := 0; c < n; c++ {
		evs, getMID := genC05HistoryX(rng, a.tier, false)
		emit(evs, getMID)
	}
	for c := 0; c < nx; c++ {
		evs, getMID := genC05HistoryX(rng, a.tier, true)
		emit(evs, getMID)
	}
	// concurrently processed copies (one goroutine per received message)
	firstReq := func(ext bool, conOnly bool, avoid map[int]bool) (c05Ev, int32) {
		for {
			evs, getMID := genC05HistoryX(rng, "quick", ext)
			for _, ev := range evs {
				if ev.Kind == "req" && !(conOnly && ev.Typ != 0) && !avoid[ev.MID] {
					return ev, getMID
				}
			}
		}
	}
	nconc, nmixed := 40, 30
	if a.tier == "thorough" {
		nconc, nmixed = 200, 150
	}
	for c := 0; c < nconc; c++ {
		ev, getMID := firstReq(c%2 == 1, false, nil)
		emitConc([]c05Ev{ev}, []int{2 + rng.Intn(3)}, getMID, false)
	}
	// copies of two or three confirmable requests with different message IDs, all concurrent
	for c := 0; c < nmixed; c++ {
		nreq := 2 + rng.Intn(2)
		avoid := map[int]bool{}
		var reqs []c05Ev
		var copies []int
		var getMID int32
		for len(reqs) < nreq {
			ev, g := firstReq(c%2 == 1, true, avoid)
			if len(reqs) == 0 {
				getMID = g
			}
			avoid[ev.MID] = true
			reqs = append(reqs, ev)
			copies = append(copies, 2+rng.Intn(2))
		}
		emitConc(reqs, copies, getMID, false)
	}
	// canonical witnesses, always present
	tok := []byte{0xaa, 0xbb}
	for _, typ := range []int{0, 1} {
		for _, beh := range []string{"none", "resp", "msg", "rst"} {
			r := c05Ev{Kind: "req", Typ: typ, MID: 77, Tok: tok, Code: 1, Beh: beh, RCode: 69, PLen: 5, PSalt: 3, MTok: []byte{0xcc}}
			if beh == "rst" || beh == "none" {
				r.RCode, r.PLen, r.PSalt = 0, 0, 0
			}
			emit([]c05Ev{r, r, {Kind: "age", Ms: 246000}, r, {Kind: "age", Ms: 2000}, r, r}, 0x1000)
			emit([]c05Ev{r, {Kind: "age", Ms: 248000}, {Kind: "tick"}, r, r}, 0x1000)
		}
		// separate response: the request is acknowledged (CON) / not answered (NON), the application sends the
		// response later, duplicates before and after get the bare acknowledgement again
		r := c05Ev{Kind: "req", Typ: typ, MID: 78, Tok: tok, Code: 1, Beh: "none"}
		for _, styp := range []int{0, 1} {
			s := c05Ev{Kind: "send", Typ: styp, Tok: tok, RCode: 69, PLen: 5, PSalt: 3}
			emit([]c05Ev{r, r, s, r, {Kind: "age", Ms: 246000}, r, {Kind: "age", Ms: 2000}, r}, 0x1000)
		}
		// response with the Empty code; dropped copies; a ping with the request's message ID
		z := c05Ev{Kind: "req", Typ: typ, MID: 79, Tok: tok, Code: 1, Beh: "resp", RCode: 0}
		emit([]c05Ev{z, z, {Kind: "drop", Typ: typ, MID: 79}, {Kind: "ping", MID: 79}, z}, 0x1000)
		emit([]c05Ev{{Kind: "drop", Typ: typ, MID: 80}, {Kind: "drop", Typ: typ, MID: 80}, {Kind: "req", Typ: typ, MID: 80, Tok: tok, Code: 1, Beh: "resp", RCode: 69}}, 0x1000)
	}
	// the same histories on the second session type: a real dtls/server.Session over a scripted net.Conn
	// (a sample in the quick tier)
	ndtls, ndtlsConc := 60, 8
	if a.tier == "thorough" {
		ndtls, ndtlsConc = 600, 60
	}
	for c := 0; c < ndtls; c++ {
		evs, getMID := genC05HistoryX(rng, "quick", c%2 == 1)
		emitOn(evs, getMID, true)
	}
	for c := 0; c < ndtlsConc; c++ {
		ev, getMID := firstReq(c%2 == 1, false, nil)
		emitConc([]c05Ev{ev}, []int{2 + rng.Intn(3)}, getMID, true)
	}
	// ---- request-use families (drawn after everything else: the streams above are unchanged) ----
	// the handler owns the request message while it runs; whatever it does with it, the copies are de-duplicated
	nuse, nuseConc, nuseDtls := 200, 24, 24
	if a.tier == "thorough" {
		nuse, nuseConc, nuseDtls = 1500, 150, 200
	}
	for c := 0; c < nuse; c++ {
		evs, getMID := genC05HistoryX(rng, a.tier, c%2 == 1)
		c05DecorateUse(rng, evs, getMID)
		emit(evs, getMID)
	}
	for c := 0; c < nuseConc; c++ {
		ev, getMID := firstReq(c%2 == 1, false, nil)
		one := []c05Ev{ev}
		for one[0].Use == "" {
			c05DecorateUse(rng, one, getMID)
		}
		emitConc(one, []int{2 + rng.Intn(3)}, getMID, c%6 == 5)
	}
	for c := 0; c < nuseDtls; c++ {
		evs, getMID := genC05HistoryX(rng, "quick", c%2 == 1)
		c05DecorateUse(rng, evs, getMID)
		emitOn(evs, getMID, true)
	}
	// canonical witnesses: every use x response behaviour x CON/NON; first copy, copies inside the lifetime, one after it
	for _, typ := range []int{0, 1} {
		for _, use := range []string{"rl", "rl-typ", "rl-own", "rel", "relw"} {
			for _, beh := range []string{"none", "resp", "msg", "rst"} {
				r := c05Ev{Kind: "req", Typ: typ, MID: 4660, Tok: []byte{1, 2, 3, 4}, Code: 1, Beh: beh, RCode: 69, PLen: 6, PSalt: 5, MTok: []byte{0xcc}}
				if beh == "rst" || beh == "none" {
					r.RCode, r.PLen, r.PSalt = 0, 0, 0
				}
				switch use {
				case "rl": // forwarded with the same reliability under an upstream ID and token
					r.Use, r.UTyp, r.UMID, r.UTok = "rl", typ, 9, []byte{0xee, 0xee}
				case "rl-typ": // forwarded with the other reliability
					r.Use, r.UTyp, r.UMID = "rl", 1-typ, 40000
				case "rl-own": // labelled with the ID the connection's own counter hands out next
					r.Use, r.UTyp, r.UMID = "rl", typ, 0x1000-0x7fff+0x10000+1
				default:
					r.Use = use
				}
				emit([]c05Ev{r, r, {Kind: "age", Ms: 246000}, r, {Kind: "age", Ms: 2000}, r, r}, 0x1000)
			}
		}
	}
	// ---- request methods beyond GET..DELETE (drawn after everything else: the streams above are unchanged) ----
	// FETCH / PATCH / iPATCH (RFC 8132) and the other method codes of class 0 are requests like the classic four
	nmeth, nmethConc, nmethDtls := 120, 12, 12
	if a.tier == "thorough" {
		nmeth, nmethConc, nmethDtls = 1000, 100, 100
	}
	for c := 0; c < nmeth; c++ {
		evs, getMID := genC05HistoryX(rng, a.tier, c%2 == 1)
		c05DecorateMethod(rng, evs)
		emit(evs, getMID)
	}
	for c := 0; c < nmethConc; c++ {
		ev, getMID := firstReq(c%2 == 1, false, nil)
		ev.Code = c05MethodCodes[c%9]
		emitConc([]c05Ev{ev}, []int{2 + rng.Intn(3)}, getMID, c%6 == 5)
	}
	for c := 0; c < nmethDtls; c++ {
		evs, getMID := genC05HistoryX(rng, "quick", c%2 == 1)
		c05DecorateMethod(rng, evs)
		emitOn(evs, getMID, true)
	}
	for _, code := range []int{5, 6, 7, 31} {
		for _, typ := range []int{0, 1} {
			for _, beh := range []string{"none", "resp", "msg", "rst"} {
				r := c05Ev{Kind: "req", Typ: typ, MID: 0x4100 + code, Tok: []byte{0xc0, byte(code)}, Code: code, Beh: beh, RCode: 69, PLen: 5, PSalt: 7, MTok: []byte{0xcc}}
				if beh == "rst" || beh == "none" {
					r.RCode, r.PLen, r.PSalt = 0, 0, 0
				}
				emit([]c05Ev{r, r, {Kind: "age", Ms: 246000}, r, {Kind: "age", Ms: 2000}, r, r}, 0x1000)
			}
		}
	}
	// ---- a message ID used again after the lifetime while a sweep is looking at the expired reply of its first use ----
	nsweep, nsweepDtls := 100, 10
	if a.tier == "thorough" {
		nsweep, nsweepDtls = 800, 80
	}
	for c := 0; c < nsweep; c++ {
		evs, getMID := genC05Sweep(rng)
		emit(evs, getMID)
	}
	for c := 0; c < nsweepDtls; c++ {
		evs, getMID := genC05Sweep(rng)
		emitOn(evs, getMID, true)
	}
	for _, typ := range []int{0, 1} {
		for _, beh := range []string{"none", "resp", "msg", "rst"} {
			if typ == 1 && beh == "none" {
				continue // no reply: nothing is remembered
			}
			r1 := c05Ev{Kind: "req", Typ: typ, MID: 0x2345, Tok: []byte{1, 2, 3}, Code: 1, Beh: beh, RCode: 69, PLen: 5, PSalt: 1, MTok: []byte{0xcc}}
			r2 := c05Ev{Kind: "req", Typ: typ, MID: 0x2345, Tok: []byte{4, 5}, Code: 2, Beh: beh, RCode: 68, PLen: 6, PSalt: 2, MTok: []byte{0xcd}}
			if beh == "rst" || beh == "none" {
				r1.RCode, r1.PLen, r1.PSalt = 0, 0, 0
				r2.RCode, r2.PLen, r2.PSalt = 0, 0, 0
			}
			for _, pt := range []string{"x", "r"} {
				emit([]c05Ev{r1, r1, {Kind: "age", Ms: 248000}, {Kind: "sweep", Pt: pt, Inner: []c05Ev{r2}}, r2, {Kind: "age", Ms: 246000}, r2, {Kind: "age", Ms: 2000}, r2}, 0x1000)
			}
		}
	}
	// ---- copies processed concurrently while the reply of the first one is being stored (drawn after everything else) ----
	// the response cache is one supplied by the application whose Store takes a while (c05YieldCache); "w": the
	// other copies wait for the per-message-ID lock when the first handler returns, "a": they arrive during the Store
	nstore, nstoreDtls := 20, 3
	if a.tier == "thorough" {
		nstore, nstoreDtls = 150, 20
	}
	for _, mode := range []string{"w", "a"} {
		for c := 0; c < nstore+nstoreDtls; c++ {
			ev, getMID := firstReq(c%2 == 1, false, nil)
			if c%3 == 2 {
				ev.Code = c05MethodCodes[c%9]
			}
			emitConcM([]c05Ev{ev}, []int{2 + rng.Intn(3)}, getMID, c >= nstore, mode)
		}
	}
	return e.Flush(a.out)
}
