package main

// Helpers shared by the C01 and C02 harnesses: error classes, projections of
// messages into Coq text, guarded calls of the real coders.

import (
	"bytes"
	"context"
	"errors"
	"fmt"
	"io"
	"strconv"
	"strings"
	"time"

	"github.com/plgd-dev/go-coap/v3/message"
	"github.com/plgd-dev/go-coap/v3/message/codes"
	"github.com/plgd-dev/go-coap/v3/message/pool"
	tcpcoder "github.com/plgd-dev/go-coap/v3/tcp/coder"
	udpcoder "github.com/plgd-dev/go-coap/v3/udp/coder"
)

type coderIface interface {
	Size(m message.Message) (int, error)
	Encode(m message.Message, buf []byte) (int, error)
	Decode(data []byte, m *message.Message) (int, error)
}

func coderOf(c int) coderIface {
	if c == 0 {
		return udpcoder.DefaultCoder
	}
	return tcpcoder.DefaultCoder
}

// codecErr mirrors Codec/Run.v err_code.
func codecErr(err error) int {
	switch {
	case err == nil:
		return 0
	case errors.Is(err, message.ErrTooSmall):
		return 1
	case errors.Is(err, message.ErrInvalidTokenLen):
		return 2
	case errors.Is(err, message.ErrShortRead):
		return 3
	case errors.Is(err, message.ErrOptionTruncated):
		return 4
	case errors.Is(err, message.ErrOptionUnexpectedExtendMarker):
		return 5
	case errors.Is(err, message.ErrOptionsTooSmall):
		return 6
	case errors.Is(err, message.ErrOptionNotFound):
		return 7
	case errors.Is(err, message.ErrInvalidEncoding):
		return 8
	case errors.Is(err, udpcoder.ErrMessageTruncated):
		return 9
	case errors.Is(err, udpcoder.ErrMessageInvalidVersion):
		return 10
	case strings.HasPrefix(err.Error(), "invalid MessageID"):
		return 11
	case strings.HasPrefix(err.Error(), "invalid Type"):
		return 12
	}
	return 99
}

const sentinelByte = 0xA5

// projText prints the Codec/Run.v pmsg of a decoded message.
func projText(tok []byte, code int, opts message.Options, payload []byte, mid, typ int) string {
	var sb strings.Builder
	sb.WriteString("(" + coqBytes(tok) + ", " + strconv.Itoa(code) + ", [")
	for i, o := range opts {
		if i > 0 {
			sb.WriteString("; ")
		}
		fmt.Fprintf(&sb, "(%d, %d, %d)", o.ID, len(o.Value), csum(o.Value))
	}
	fmt.Fprintf(&sb, "], (%d, %d), %s, %s)", len(payload), csum(payload), coqZ(int64(mid)), coqZ(int64(typ)))
	return sb.String()
}

func projMessage(m *message.Message, tcp bool) string {
	mid, typ := int(m.MessageID), int(m.Type)
	if tcp {
		mid, typ = 0, 0
	}
	return projText(m.Token, int(m.Code), m.Options, m.Payload, mid, typ)
}

// callRes is the outcome of one guarded call.
type callRes struct {
	n        int
	err      error
	panicked bool
	hang     bool
}

func guarded(f func() (int, error)) (r callRes) {
	defer func() {
		if p := recover(); p != nil {
			r = callRes{panicked: true}
		}
	}()
	n, err := f()
	return callRes{n: n, err: err}
}

// watched runs f on its own goroutine and reports a hang when it does not
// return in time (the goroutine is abandoned).
func watched(f func() (int, error), d time.Duration) callRes {
	ch := make(chan callRes, 1)
	go func() { ch <- guarded(f) }()
	select {
	case r := <-ch:
		return r
	case <-time.After(d):
		return callRes{hang: true}
	}
}

// dobsText prints a Codec/Run.v dobs.
func dobsText(r callRes, proj func() string) string {
	switch {
	case r.hang:
		return "DHang"
	case r.panicked:
		return "DPanic"
	case r.err != nil:
		return fmt.Sprintf("(DErr %d)", codecErr(r.err))
	}
	return fmt.Sprintf("(DOk %s %d)", proj(), r.n)
}

func dobsClass(r callRes) string {
	switch {
	case r.hang:
		return "hang"
	case r.panicked:
		return "panic"
	case r.err != nil:
		return "err" + strconv.Itoa(codecErr(r.err))
	}
	return "ok"
}

// decodeDirect calls coder.Decode on a message whose option slice has the given capacity.
func decodeDirect(coder int, data []byte, capOpts int) (callRes, *message.Message) {
	m := &message.Message{Options: make(message.Options, 0, capOpts)}
	r := guarded(func() (int, error) { return coderOf(coder).Decode(data, m) })
	return r, m
}

// headerText: tcp DecodeHeader on a zero header.
func headerObs(data []byte) (string, string) {
	var h tcpcoder.MessageHeader
	r := guarded(func() (int, error) { return tcpcoder.DefaultCoder.DecodeHeader(data, &h) })
	switch {
	case r.panicked:
		return "HPanic", "panic"
	case r.err != nil:
		return fmt.Sprintf("(HErr %d)", codecErr(r.err)), "err" + strconv.Itoa(codecErr(r.err))
	}
	if r.n != int(h.Length) {
		return "HPanic", "inconsistent"
	}
	return fmt.Sprintf("(HOk %d %d %d %s)", h.Length, h.MessageLength, h.Code, coqBytes(h.Token)), "ok"
}

// pooledProj reads a pooled message through its public accessors.
func pooledProj(pm *pool.Message, tcp bool) string {
	var payload []byte
	if b := pm.Body(); b != nil {
		_, _ = b.Seek(0, io.SeekStart)
		payload, _ = io.ReadAll(b)
	}
	mid, typ := int(pm.MessageID()), int(pm.Type())
	if tcp {
		mid, typ = 0, 0
	}
	return projText(pm.Token(), int(pm.Code()), pm.Options(), payload, mid, typ)
}

func newPooled() *pool.Message { return pool.NewMessage(context.Background()) }

// pooledWith builds a pooled message holding m (SetMessage keeps m's slices).
func pooledWith(m message.Message) *pool.Message {
	pm := newPooled()
	pm.SetMessage(m)
	return pm
}

var _ = bytes.Equal
var _ = codes.Empty
