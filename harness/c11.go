package main

// C11 — each received message is processed once; handlers may call back.
//
// Layer (a): the stand-alone net/client.ReceivedMessageReader with a fake client.
//   forced: a cooperative scheduler behind the verifYield points forces schedules; the executed
//           schedule, the point reached after every step and the dispatch log go to Coq (case Forced).
//   stat:   hook-free, free-running goroutines, many trials (case Stat).
// Layer (b): a real udp/client.Conn over the in-memory session with handlers that issue nested
//   blocking requests (case ConnC), see c11conn.go.
// Layer (c): bursts through the socket reader's hand-off into the receive queue on a real tcp/client.Conn
//   (scripted stream) and a real udp/client.Conn (one goroutine calling Process), case Burst, see c11burst.go.

import (
	"context"
	"fmt"
	"sort"
	"strconv"
	"strings"
	"sync"
	"sync/atomic"
	"time"

	"github.com/plgd-dev/go-coap/v3/message/pool"
	netclient "github.com/plgd-dev/go-coap/v3/net/client"
)

func init() { props["C11"] = runC11 }

// ---------- handler programs ----------

type c11Op struct {
	nested bool
	r      int
}

type c11Cfg struct {
	n     int // queue size
	k     int // external TryToReplaceLoop calls
	msgs  int // messages 1..msgs
	progs map[int][]c11Op
	close bool // forced: the closer may run
}

func (c c11Cfg) progDesc() string {
	var ks []int
	for m := range c.progs {
		ks = append(ks, m)
	}
	sort.Ints(ks)
	var parts []string
	for _, m := range ks {
		var sb strings.Builder
		for _, op := range c.progs[m] {
			if op.nested {
				fmt.Fprintf(&sb, "N%d", op.r)
			} else {
				sb.WriteString("R")
			}
		}
		parts = append(parts, fmt.Sprintf("%d:%s", m, sb.String()))
	}
	if len(parts) == 0 {
		return "-"
	}
	return strings.Join(parts, "/")
}

func parseC11Progs(s string) map[int][]c11Op {
	r := map[int][]c11Op{}
	if s == "-" || s == "" {
		return r
	}
	for _, p := range strings.Split(s, "/") {
		f := strings.SplitN(p, ":", 2)
		m, _ := strconv.Atoi(f[0])
		var ops []c11Op
		t := f[1]
		for i := 0; i < len(t); {
			if t[i] == 'R' {
				ops = append(ops, c11Op{})
				i++
			} else if t[i] == 'N' {
				j := i + 1
				for j < len(t) && t[j] >= '0' && t[j] <= '9' {
					j++
				}
				v, _ := strconv.Atoi(t[i+1 : j])
				ops = append(ops, c11Op{nested: true, r: v})
				i = j
			} else {
				i++
			}
		}
		r[m] = ops
	}
	return r
}

func (c c11Cfg) desc() string {
	cl := 0
	if c.close {
		cl = 1
	}
	return fmt.Sprintf("n=%d,k=%d,m=%d,c=%d,p=%s", c.n, c.k, c.msgs, cl, c.progDesc())
}

func parseC11Cfg(s string) c11Cfg {
	c := c11Cfg{progs: map[int][]c11Op{}}
	for _, kv := range strings.Split(s, ",") {
		f := strings.SplitN(kv, "=", 2)
		if len(f) != 2 {
			continue
		}
		switch f[0] {
		case "n":
			c.n, _ = strconv.Atoi(f[1])
		case "k":
			c.k, _ = strconv.Atoi(f[1])
		case "m":
			c.msgs, _ = strconv.Atoi(f[1])
		case "c":
			c.close = f[1] == "1"
		case "p":
			c.progs = parseC11Progs(f[1])
		}
	}
	return c
}

func (c c11Cfg) coqProgs() string {
	var ks []int
	for m := range c.progs {
		ks = append(ks, m)
	}
	sort.Ints(ks)
	var parts []string
	for _, m := range ks {
		var ops []string
		for _, op := range c.progs[m] {
			if op.nested {
				ops = append(ops, fmt.Sprintf("HNested %d", op.r))
			} else {
				ops = append(ops, "HReplace")
			}
		}
		parts = append(parts, fmt.Sprintf("(%d, [%s])", m, strings.Join(ops, "; ")))
	}
	return "[" + strings.Join(parts, "; ") + "]"
}

func (c c11Cfg) coqMsgs() string {
	var p []string
	for i := 1; i <= c.msgs; i++ {
		p = append(p, strconv.Itoa(i))
	}
	return "[" + strings.Join(p, "; ") + "]"
}

func (c c11Cfg) blocking() bool {
	for m := 1; m <= c.msgs; m++ {
		for _, op := range c.progs[m] {
			if op.nested {
				return true
			}
		}
	}
	return false
}

// ---------- fake client ----------

type c11LogEnt struct {
	m   int
	gid uint64
}

type c11Nest struct {
	m, r int
	ret  bool
}

type c11Client struct {
	done  chan struct{}
	abort chan struct{}
	r     *netclient.ReceivedMessageReader[*c11Client]
	ready chan struct{} // closed once r is set
	progs map[int][]c11Op

	mu        sync.Mutex
	log       []c11LogEnt
	delivered map[int]bool
	deliv     map[int]chan struct{}
	nest      []*c11Nest
	wait      func(r int) // forced mode: park before blocking on the response
	onLog     chan struct{}
}

func newC11Client(cfg c11Cfg) *c11Client {
	fc := &c11Client{done: make(chan struct{}), abort: make(chan struct{}), ready: make(chan struct{}), progs: cfg.progs,
		delivered: map[int]bool{}, deliv: map[int]chan struct{}{}, onLog: make(chan struct{}, 1024)}
	for m := 1; m <= cfg.msgs; m++ {
		fc.deliv[m] = make(chan struct{})
	}
	for _, ops := range cfg.progs {
		for _, op := range ops {
			if op.nested && fc.deliv[op.r] == nil {
				fc.deliv[op.r] = make(chan struct{})
			}
		}
	}
	return fc
}

func (fc *c11Client) Done() <-chan struct{} { return fc.done }

func (fc *c11Client) ProcessReceivedMessage(req *pool.Message) {
	m := int(req.MessageID())
	g := goid()
	fc.mu.Lock()
	fc.log = append(fc.log, c11LogEnt{m, g})
	if !fc.delivered[m] {
		fc.delivered[m] = true
		if ch := fc.deliv[m]; ch != nil {
			close(ch)
		}
	}
	fc.mu.Unlock()
	select {
	case fc.onLog <- struct{}{}:
	default:
	}
	<-fc.ready
	for _, op := range fc.progs[m] {
		fc.r.TryToReplaceLoop()
		if !op.nested {
			continue
		}
		ne := &c11Nest{m: m, r: op.r}
		fc.mu.Lock()
		fc.nest = append(fc.nest, ne)
		fc.mu.Unlock()
		if fc.wait != nil {
			fc.wait(op.r)
		}
		select {
		case <-fc.deliv[op.r]:
			fc.mu.Lock()
			ne.ret = true
			fc.mu.Unlock()
		case <-fc.abort:
			return
		}
	}
}

func (fc *c11Client) coqNest() string {
	fc.mu.Lock()
	defer fc.mu.Unlock()
	var p []string
	for _, ne := range fc.nest {
		p = append(p, fmt.Sprintf("(%d, %d, %s)", ne.m, ne.r, coqBool(ne.ret)))
	}
	return "[" + strings.Join(p, "; ") + "]"
}

func c11Msg(m int) *pool.Message {
	msg := pool.NewMessage(context.Background())
	msg.SetMessageID(int32(m))
	return msg
}

// ---------- cooperative scheduler (forced schedules) ----------

type c11Thread struct {
	gid    uint64
	kind   byte // 'L' loop, 'P' producer, 'X' external caller
	idx    int  // loop index
	point  string
	waitR  int
	resume chan struct{}
	exited bool
}

func (t *c11Thread) name() string {
	if t.kind == 'L' {
		return fmt.Sprintf("L%d", t.idx)
	}
	return string(t.kind)
}

type c11Event struct {
	t     *c11Thread
	point string
	waitR int
}

type c11Sched struct {
	mu       sync.Mutex
	byGid    map[uint64]*c11Thread
	events   chan c11Event
	abort    chan struct{}
	replaced int // number of "replaced" notifications
	dead     bool
	mutex    bool // mutex granularity (c11mutex.go): park at the points inside the sections of the reader's mutex too
	reader   any
	readyCh  chan struct{} // closed once reader is known

	loops []*c11Thread
	prod  *c11Thread
	extT  *c11Thread
}

// Watchdog for "nothing happens any more". A run that really hangs costs the whole watchdog; after a few
// hangs in one invocation the remaining runs use a short one, so that a broken tree is reported (with the
// hanging cases) in bounded time. On an intact tree no watchdog ever expires.
var c11Hangs atomic.Int64

func c11WD() time.Duration {
	if c11Hangs.Load() >= 3 {
		return 400 * time.Millisecond
	}
	return 30 * time.Second
}

func (s *c11Sched) yield(reader any, point string) {
	select {
	case <-s.readyCh:
	case <-s.abort:
		return
	}
	s.mu.Lock()
	if s.dead || reader != s.reader {
		s.mu.Unlock()
		return
	}
	if point == "replaced" {
		s.replaced++
		s.mu.Unlock()
		return
	}
	if c11Held(point) && !s.mutex {
		s.mu.Unlock()
		return
	}
	g := goid()
	t := s.byGid[g]
	if t == nil {
		t = &c11Thread{gid: g, resume: make(chan struct{})}
		s.byGid[g] = t
	}
	s.mu.Unlock()
	select {
	case s.events <- c11Event{t: t, point: point}:
	case <-s.abort:
		return
	}
	if point == "exit" {
		return
	}
	select {
	case <-t.resume:
	case <-s.abort:
	}
}

// park is yield for harness-level points (producer idle, handler wait)
func (s *c11Sched) park(point string, waitR int) {
	s.mu.Lock()
	if s.dead {
		s.mu.Unlock()
		return
	}
	g := goid()
	t := s.byGid[g]
	if t == nil {
		t = &c11Thread{gid: g, resume: make(chan struct{})}
		s.byGid[g] = t
	}
	s.mu.Unlock()
	select {
	case s.events <- c11Event{t: t, point: point, waitR: waitR}:
	case <-s.abort:
		return
	}
	if point == "exit" {
		return
	}
	select {
	case <-t.resume:
	case <-s.abort:
	}
}

// next consumes one event and files it; false = watchdog expired
func (s *c11Sched) next() (*c11Thread, bool) {
	select {
	case ev := <-s.events:
		return s.file(ev), true
	case <-time.After(c11WD()):
		c11Hangs.Add(1)
		return nil, false
	}
}

// file records one event: the thread's kind (at its first event) and the point it has reached
func (s *c11Sched) file(ev c11Event) *c11Thread {
	t := ev.t
	if t.kind == 0 {
		switch ev.point {
		case "p-idle":
			t.kind = 'P'
			s.prod = t
		case "replace", "x-exit":
			t.kind = 'X'
			s.extT = t
		default:
			t.kind = 'L'
			t.idx = len(s.loops)
			s.loops = append(s.loops, t)
		}
	}
	t.point = ev.point
	t.waitR = ev.waitR
	if ev.point == "exit" || ev.point == "x-exit" || ev.point == "p-exit" {
		t.exited = true
	}
	return t
}

// waitUntil consumes events until cond holds
func (s *c11Sched) waitUntil(cond func() bool) bool {
	for !cond() {
		if _, ok := s.next(); !ok {
			return false
		}
	}
	return true
}

var c11PointCode = map[string]int{"select": 0, "dequeued": 1, "busy": 2, "replace": 3, "relock": 4, "wait": 5, "relocked": 6, "exit": 7}

type c11Step struct {
	chosen  string
	enabled []string
}

type c11Run struct {
	steps []c11Step
	coq   string
	hang  bool
	sched []string
}

// runC11Forced executes one forced run. choose picks among the enabled thread names (sorted, non-empty).
func runC11Forced(cfg c11Cfg, choose func(step int, enabled []string) string) c11Run {
	s := &c11Sched{byGid: map[uint64]*c11Thread{}, events: make(chan c11Event, 256), abort: make(chan struct{}), readyCh: make(chan struct{})}
	netclient.VerifSetYield(s.yield)
	fc := newC11Client(cfg)
	fc.wait = func(r int) { s.park("wait", r) }
	var res c11Run
	hang := false
	r := netclient.NewReceivedMessageReader[*c11Client](fc, cfg.n)
	fc.r = r
	s.mu.Lock()
	s.reader = r
	s.mu.Unlock()
	close(s.readyCh)
	close(fc.ready)
	defer func() {
		s.mu.Lock()
		s.dead = true
		s.mu.Unlock()
		close(s.abort)
		close(fc.abort)
		select {
		case <-fc.done:
		default:
			close(fc.done)
		}
		netclient.VerifSetYield(nil)
	}()
	// producer
	go func() {
		for m := 1; m <= cfg.msgs; m++ {
			s.park("p-idle", 0)
			select {
			case r.C() <- c11Msg(m):
			case <-s.abort:
				return
			}
		}
		s.park("p-exit", 0)
	}()
	// external caller
	if cfg.k > 0 {
		go func() {
			for i := 0; i < cfg.k; i++ {
				r.TryToReplaceLoop()
			}
			s.park("x-exit", 0)
		}()
	}
	ok := s.waitUntil(func() bool {
		return len(s.loops) >= 1 && s.prod != nil && (cfg.k == 0 || s.extT != nil)
	})
	if !ok {
		res.hang = true
		res.coq = fmt.Sprintf("Forced %d%%nat %s %s %d%%nat [] [] [] true", cfg.n, cfg.coqProgs(), cfg.coqMsgs(), cfg.k)
		return res
	}
	// tracker
	qlen := 0
	pushed := 0
	inflight := false
	closed := false
	cur := 0
	done := map[int]bool{}
	var items []string
	deliveredNow := func(rr int) bool {
		fc.mu.Lock()
		defer fc.mu.Unlock()
		return fc.delivered[rr]
	}
	for step := 0; ; step++ {
		var en []string
		for _, t := range s.loops {
			if t.exited {
				continue
			}
			switch t.point {
			case "select":
				if qlen > 0 || closed || done[t.idx] {
					en = append(en, t.name())
				}
			case "wait":
				if deliveredNow(t.waitR) {
					en = append(en, t.name())
				}
			default:
				en = append(en, t.name())
			}
		}
		if !inflight && pushed < cfg.msgs && qlen <= cfg.n && !s.prod.exited {
			en = append(en, "P")
		}
		if s.extT != nil && !s.extT.exited {
			en = append(en, "X")
		}
		progress := len(en) > 0
		if cfg.close && !closed {
			en = append(en, "C")
		}
		if !progress || step > 4000 {
			break
		}
		sort.Strings(en)
		pick := choose(step, en)
		found := false
		for _, e := range en {
			if e == pick {
				found = true
			}
		}
		if !found {
			break
		}
		res.steps = append(res.steps, c11Step{chosen: pick, enabled: en})
		res.sched = append(res.sched, pick)
		nl0 := len(s.loops)
		s.mu.Lock()
		rep0 := s.replaced
		s.mu.Unlock()
		act := ""
		code := 0
		switch {
		case pick == "C":
			close(fc.done)
			closed = true
			act = "AClose"
		case pick == "P":
			t := s.prod
			pushed++
			act = "APush"
			if qlen < cfg.n {
				qlen++
				t.point = "running"
				t.resume <- struct{}{}
				if !s.waitUntil(func() bool { return t.point != "running" }) {
					hang = true
				}
			} else {
				qlen++
				inflight = true
				t.point = "running"
				t.resume <- struct{}{}
			}
		case pick == "X":
			t := s.extT
			act = "AExt"
			t.point = "running"
			t.resume <- struct{}{}
			if !s.waitUntil(func() bool { return t.point != "running" }) {
				hang = true
			}
		default:
			var t *c11Thread
			for _, l := range s.loops {
				if l.name() == pick {
					t = l
				}
			}
			pre := t.point
			t.point = "running"
			t.resume <- struct{}{}
			if !s.waitUntil(func() bool { return t.point != "running" }) {
				hang = true
				break
			}
			alt := "AltQueue"
			if pre == "select" {
				if t.point == "dequeued" {
					qlen--
					if inflight {
						if !s.waitUntil(func() bool { return s.prod.point != "running" }) {
							hang = true
						}
						inflight = false
					}
				} else if done[t.idx] {
					alt = "AltDone"
				} else {
					alt = "AltConn"
				}
			}
			act = fmt.Sprintf("ALoop %d%%nat %s", t.idx, alt)
			code = c11PointCode[t.point]
		}
		if hang {
			break
		}
		s.mu.Lock()
		rep1 := s.replaced
		s.mu.Unlock()
		if rep1 > rep0 {
			// a replacement happened: wait for the new loop's first scheduling point
			want := nl0 + (rep1 - rep0)
			if !s.waitUntil(func() bool { return len(s.loops) >= want }) {
				hang = true
				break
			}
			done[cur] = true
			cur = len(s.loops) - 1
		}
		items = append(items, fmt.Sprintf("(%s, %d, %d%%nat)", act, code, len(s.loops)))
	}
	res.hang = hang
	// dispatch log with loop indices
	fc.mu.Lock()
	var le []string
	for _, e := range fc.log {
		idx := -1
		s.mu.Lock()
		if t := s.byGid[e.gid]; t != nil && t.kind == 'L' {
			idx = t.idx
		}
		s.mu.Unlock()
		if idx < 0 {
			idx = 999
		}
		le = append(le, fmt.Sprintf("(%d, %d%%nat)", e.m, idx))
	}
	fc.mu.Unlock()
	res.coq = fmt.Sprintf("Forced %d%%nat %s %s %d%%nat [%s] [%s] %s %s", cfg.n, cfg.coqProgs(), cfg.coqMsgs(), cfg.k,
		strings.Join(items, "; "), strings.Join(le, "; "), fc.coqNest(), coqBool(hang))
	return res
}

// planChooser follows plan (skipping entries that are not enabled); afterwards the first enabled thread that is not the closer.
func c11PlanChooser(plan []string) func(int, []string) string {
	pos := 0
	return func(_ int, en []string) string {
		for pos < len(plan) {
			p := plan[pos]
			pos++
			for _, e := range en {
				if e == p {
					return p
				}
			}
		}
		for _, e := range en {
			if e != "C" {
				return e
			}
		}
		return ""
	}
}

func c11RandChooser(rng *Rng, closePct int) func(int, []string) string {
	return func(_ int, en []string) string {
		var cand []string
		for _, e := range en {
			if e != "C" {
				cand = append(cand, e)
			} else if rng.Intn(1000) < closePct {
				return "C"
			}
		}
		if len(cand) == 0 {
			return ""
		}
		return cand[rng.Intn(len(cand))]
	}
}

// ---------- hook-free statistical runs ----------

// runC11Stat: free-running goroutines; the producer pushes all messages back to back while handlers trigger replacement.
func runC11Stat(cfg c11Cfg) (string, bool) {
	fc := newC11Client(cfg)
	r := netclient.NewReceivedMessageReader[*c11Client](fc, cfg.n)
	fc.r = r
	close(fc.ready)
	pdone := make(chan struct{})
	go func() {
		defer close(pdone)
		for m := 1; m <= cfg.msgs; m++ {
			select {
			case r.C() <- c11Msg(m):
			case <-fc.abort:
				return
			}
		}
	}()
	complete := true
	deadline := time.After(c11WD())
	// witness of completion: every message logged and every satisfiable nested call returned
	for {
		fc.mu.Lock()
		n := 0
		seen := map[int]bool{}
		for _, e := range fc.log {
			if !seen[e.m] {
				seen[e.m] = true
				n++
			}
		}
		pend := false
		for _, ne := range fc.nest {
			if !ne.ret && ne.r >= 1 && ne.r <= cfg.msgs {
				pend = true
			}
		}
		fc.mu.Unlock()
		if n >= cfg.msgs && !pend {
			break
		}
		stop := false
		select {
		case <-fc.onLog:
		case <-time.After(2 * time.Millisecond):
		case <-deadline:
			stop = true
		}
		if stop {
			complete = false
			c11Hangs.Add(1)
			break
		}
	}
	// give a duplicate dispatch the chance to show: barrier through the queue itself is impossible without
	// perturbing the log, so the log is read after the producer returned and all messages were seen.
	if complete {
		<-pdone
	}
	fc.mu.Lock()
	var le []string
	for _, e := range fc.log {
		le = append(le, strconv.Itoa(e.m))
	}
	fc.mu.Unlock()
	nest := fc.coqNest()
	close(fc.abort)
	close(fc.done)
	return fmt.Sprintf("Stat %d%%nat %s %s [%s] %s %s", cfg.n, cfg.coqProgs(), cfg.coqMsgs(), strings.Join(le, "; "), nest, coqBool(complete)), complete
}

// ---------- generators ----------

func c11SmallConfigs(tier string) []c11Cfg {
	R := c11Op{}
	N := func(r int) c11Op { return c11Op{nested: true, r: r} }
	var cs []c11Cfg
	for _, n := range []int{0, 1} {
		cs = append(cs,
			c11Cfg{n: n, msgs: 2, progs: map[int][]c11Op{1: {R}}},
			c11Cfg{n: n, msgs: 2, progs: map[int][]c11Op{1: {N(2)}}},
			c11Cfg{n: n, msgs: 2, k: 1, progs: map[int][]c11Op{}},
			c11Cfg{n: n, msgs: 2, progs: map[int][]c11Op{1: {N(2)}}, close: true},
		)
	}
	if tier == "thorough" {
		for _, n := range []int{0, 1} {
			cs = append(cs,
				c11Cfg{n: n, msgs: 3, progs: map[int][]c11Op{1: {R}}},
				c11Cfg{n: n, msgs: 3, progs: map[int][]c11Op{1: {N(3)}, 2: {N(3)}}},
				c11Cfg{n: n, msgs: 2, k: 1, progs: map[int][]c11Op{1: {N(2)}}},
			)
		}
	}
	return cs
}

func c11RandomCfg(rng *Rng, big bool) c11Cfg {
	c := c11Cfg{progs: map[int][]c11Op{}}
	c.n = []int{0, 1, 16, 2}[rng.Intn(4)]
	c.msgs = 2 + rng.Intn(4)
	if big {
		c.msgs = 3 + rng.Intn(8)
	}
	if rng.Chance(30) {
		c.k = 1 + rng.Intn(2)
	}
	c.close = rng.Chance(15)
	mode := rng.Intn(3) // 0 non-blocking replaces, 1 nested chains, 2 mixed
	for m := 1; m <= c.msgs; m++ {
		if !rng.Chance(45) {
			continue
		}
		var ops []c11Op
		nops := 1 + rng.Intn(2)
		for i := 0; i < nops; i++ {
			if mode == 0 || (mode == 2 && rng.Bool()) {
				ops = append(ops, c11Op{})
			} else {
				// await a later message (usually one that will arrive), sometimes one that never does
				r := m + 1 + rng.Intn(3)
				if rng.Chance(8) {
					r = c.msgs + 5
				}
				ops = append(ops, c11Op{nested: true, r: r})
			}
		}
		c.progs[m] = ops
	}
	return c
}

func runC11(a runArgs) error {
	e := NewEmitter("C11", "Reader.Run")
	e.Preamble = "From GoCoap Require Import Reader.Model Reader.Spec Reader.Mutex."
	e.ShardSize = 400
	e.MaxBytes = 400000
	e.Rule = "layer (a) stand-alone client.ReceivedMessageReader with a fake client: forced = cooperative scheduler behind the verifYield points executes a schedule (threads: producer P, loops L<i>, external TryToReplaceLoop caller X, closer C), every step's resulting scheduling point and the dispatch log are compared with the model; all schedules of the small configurations (depth-first by re-execution), random schedules of random configurations (queue sizes 0,1,2,16; handler programs of TryToReplaceLoop calls R and nested blocking requests N<r>; close). stat = hook-free free-running trials. layer (b) real udp/client.Conn over the in-memory session with handlers issuing nested Do to depth 1-3 (thorough: up to 5). layer (c) bursts of 3-200 back-to-back messages through the socket reader's hand-off into the receive queue of a real tcp/client.Conn (scripted stream; one write, writes of j frames, writes of j bytes) and of a real udp/client.Conn (one goroutine calling Process), queue sizes 0/1/16, handlers that return at once, that block on a harness channel until the reader is parked on the full queue, and that issue a nested request whose response is part of the burst. layer (d) real udp / tcp connections, one message at a time: confirmable nested requests answered by a piggybacked ACK, pings issued by handlers (pong behind 0..queue+2 messages), requests of the peer whose message ID is placed relative to the connection's own counter (equal to the next ID drawn, inside / at the edges of / outside the checkMyMessageID window, across the 16-bit wrap of either counter, two requests 0x8000 apart), retransmitted copies of a request whose handler is blocked or has finished; a wait ends as a stall when the connection is quiescent (socket reader through or parked, every reader-loop goroutine blocked, twice in a row) without the awaited effect; the scripts also carry notifications of one or two observations whose observe callback executes a program (nested request, confirmable nested request, ping, registration of a further observation) while further notifications of the same observation, of the other one and requests arrive before the awaited reply, retransmitted notifications, and handlers that register an observation themselves. layer (a) at mutex granularity (ForcedM): the same reader with scheduling points inside the two sections of its mutex; plans that drive TryToReplaceLoop / the re-lock into the held mutex, all schedules (capped) of small configurations, random schedules; a goroutine let into the held mutex is seen blocked in sync.Mutex.Lock (stack witness). Distinct = distinct (configuration, executed schedule) resp. burst / script descriptor; non-trivial = at least one replacement request in the run (handler program or external caller), for a burst: more messages than queue size + 1 (some push has to wait for the consumer)."
	rng := NewRng(a.seed)
	nontrivial := func(c c11Cfg) bool {
		if c.k > 0 {
			return true
		}
		for m := 1; m <= c.msgs; m++ {
			if len(c.progs[m]) > 0 {
				return true
			}
		}
		return false
	}
	emitForced := func(c c11Cfg, res c11Run, tag string) {
		e.Add(res.coq, "F:"+c.desc()+"|"+strings.Join(res.sched, " "), nontrivial(c), "forced-"+tag, fmt.Sprintf("queue%d", c.n), fmt.Sprintf("msgs%02d", c.msgs), fmt.Sprintf("steps%03d", len(res.steps)/10*10))
	}
	emitStat := func(c c11Cfg, trial int) {
		txt, _ := runC11Stat(c)
		e.Add(txt, fmt.Sprintf("S:%s|t%d", c.desc(), trial), nontrivial(c), "stat", fmt.Sprintf("queue%d", c.n), fmt.Sprintf("msgs%02d", c.msgs))
	}
	if a.only != "" {
		parts := strings.SplitN(a.only, "|", 2)
		kind := parts[0][:1]
		cfgS := parts[0][2:]
		switch kind {
		case "F":
			c := parseC11Cfg(cfgS)
			plan := strings.Fields(parts[1])
			// Go's select is random where several alternatives are ready: repeat the schedule
			for i := 0; i < 24; i++ {
				res := runC11Forced(c, c11PlanChooser(plan))
				e.Add(res.coq, a.only, true, "forced-replay")
			}
		case "S":
			c := parseC11Cfg(cfgS)
			for i := 0; i < 400; i++ {
				txt, _ := runC11Stat(c)
				e.Add(txt, a.only, true, "stat-replay")
			}
		case "U":
			c11ConnOnly(e, a.only)
		case "B":
			c11BurstOnly(e, a.only)
		case "X":
			c11XOnly(e, a.only)
		case "M":
			c11MutexOnly(e, a.only)
		}
		return e.Flush(a.out)
	}
	thorough := a.tier == "thorough"
	// 1. all schedules of the small configurations (stateless depth-first search by re-execution)
	perCfg := 1000
	if thorough {
		perCfg = 8000
	}
	exhausted := 0
	smalls := c11SmallConfigs(a.tier)
	for _, c := range smalls {
		work := [][]string{{}}
		count := 0
		for len(work) > 0 && count < perCfg {
			prefix := work[len(work)-1]
			work = work[:len(work)-1]
			res := runC11Forced(c, c11PlanChooser(prefix))
			count++
			emitForced(c, res, "dfs")
			for i := len(res.steps) - 1; i >= len(prefix); i-- {
				for _, alt := range res.steps[i].enabled {
					if alt == res.steps[i].chosen {
						continue
					}
					np := append(append([]string{}, res.sched[:i]...), alt)
					work = append(work, np)
				}
			}
		}
		if len(work) == 0 {
			exhausted++
		}
		e.Extra["dfs "+c.desc()] = fmt.Sprintf("%d schedules, exhausted=%v", count, len(work) == 0)
	}
	e.Extra["small_configs_exhausted"] = fmt.Sprintf("%d of %d", exhausted, len(smalls))
	// 2. random schedules of random configurations + the F14 shape
	nrand := 250
	if thorough {
		nrand = 6000
	}
	f14 := c11Cfg{n: 1, msgs: 3, progs: map[int][]c11Op{1: {{}}}}
	for i := 0; i < 12; i++ {
		res := runC11Forced(f14, c11PlanChooser(strings.Fields("P L0 L0 L0 L0 P P L0 L0 L0 L1 L1 L1 L0 L0")))
		emitForced(f14, res, "f14")
	}
	// an external caller asks for a replacement while the (idle) loop stands at its select with two messages
	// queued: a no-op in the intact code; the plan entries that are not enabled are skipped
	idle := c11Cfg{n: 2, k: 1, msgs: 3, progs: map[int][]c11Op{}}
	for i := 0; i < 12; i++ {
		res := runC11Forced(idle, c11PlanChooser(strings.Fields("P P P L0 L0 L0 L0 L0 X L0 L1 L1 L1 L0 L0")))
		emitForced(idle, res, "idle-replace")
	}
	for i := 0; i < nrand; i++ {
		c := c11RandomCfg(rng, thorough && i%3 == 0)
		res := runC11Forced(c, c11RandChooser(rng.Fork(), 25))
		emitForced(c, res, "rand")
	}
	// 3. hook-free statistical trials
	nstat := 300
	if thorough {
		nstat = 5000
	}
	for i := 0; i < nstat; i++ {
		c := c11Cfg{n: []int{0, 1, 16}[i%3], msgs: 6 + i%5, progs: map[int][]c11Op{}}
		switch (i / 3) % 3 {
		case 0: // first handler triggers replacement and returns
			c.progs[1] = []c11Op{{}}
		case 1: // every other handler triggers replacement
			for m := 1; m <= c.msgs; m += 2 {
				c.progs[m] = []c11Op{{}}
			}
		case 2: // nested chain: m waits for m+2
			c.progs[1] = []c11Op{{nested: true, r: 3}}
			c.progs[2] = []c11Op{{nested: true, r: 4}}
		}
		emitStat(c, i)
	}
	// 4. real connection
	c11ConnCases(e, rng, thorough)
	// 5. bursts through the socket reader's hand-off on real tcp / udp connections
	c11BurstCases(e, rng, thorough)
	// 6. blocking operations other than a plain nested Do, message-ID constellations, retransmitted copies
	c11XCases(e, rng, thorough)
	// 7. forced schedules at the granularity of the reader's mutex (goroutines parked inside its sections)
	c11MutexCases(e, rng, thorough, nontrivial)
	return e.Flush(a.out)
}
