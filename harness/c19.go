package main

import (
	"errors"
	"fmt"
	"strconv"
	"strings"

	"github.com/plgd-dev/go-coap/v3/net/blockwise"
)

func init() { props["C19"] = runC19 }

func c19ErrCode(err error) int {
	switch {
	case err == nil:
		return 0
	case errors.Is(err, blockwise.ErrInvalidSZX):
		return 1
	case errors.Is(err, blockwise.ErrBlockNumberExceedLimit):
		return 2
	case errors.Is(err, blockwise.ErrBlockInvalidSize):
		return 3
	}
	return 9
}

func mix61(h, x uint64) uint64 {
	// low 60 bits of h*1000003 + x + 1 (wrap-around of uint64 does not affect them)
	return (h*1000003 + x + 1) & (1<<60 - 1)
}

func c19DecWord(v uint32) uint64 {
	szx, num, more, err := blockwise.DecodeBlockOption(v)
	w := uint64(szx)
	if more {
		w += 8
	}
	w += 16 * uint64(c19ErrCode(err))
	w += 64 * uint64(num)
	return w
}

func c19EncWord(szx uint8, num int64, more bool) uint64 {
	v, err := blockwise.EncodeBlockOption(blockwise.SZX(szx), num, more)
	if err != nil {
		return uint64(c19ErrCode(err))
	}
	return 4 * uint64(v)
}

func runC19(a runArgs) error {
	e := NewEmitter("C19", "Block.Run")
	e.ShardSize = 1200
	e.Rule = "cases: decode(v) for v around every power of two, around maxBlockNumber<<4 and random; encode over all szx 0..9,255 x M x boundary block numbers and random; Size for szx 0..255; bufferSize grid; checksum sweeps over contiguous ranges (whole 2^24 decoder domain and 8x2x2^20 encoder domain in the thorough tier). Distinct = distinct input; non-trivial = input inside the RFC domain or within 64 of one of its boundaries."
	rng := NewRng(a.seed)
	addDec := func(v uint32) {
		szx, num, more, err := blockwise.DecodeBlockOption(v)
		nt := v < (1<<24)+64
		e.Add(fmt.Sprintf("Dec %d %d %s %s %d", v, szx, coqZ(num), coqBool(more), c19ErrCode(err)),
			fmt.Sprintf("dec %d", v), nt, "dec")
	}
	addEnc := func(szx uint8, num int64, more bool) {
		v, err := blockwise.EncodeBlockOption(blockwise.SZX(szx), num, more)
		nt := szx <= 8 && num >= -64 && num < (1<<20)+64
		e.Add(fmt.Sprintf("Enc %d %s %s %d %d", szx, coqZ(num), coqBool(more), v, c19ErrCode(err)),
			fmt.Sprintf("enc %d %d %v", szx, num, more), nt, "enc")
	}
	addSize := func(szx uint8) {
		e.Add(fmt.Sprintf("Size %d %s", szx, coqZ(blockwise.SZX(szx).Size())), fmt.Sprintf("size %d", szx), szx <= 8, "size")
	}
	addBuf := func(szx uint8, m uint32) {
		e.Add(fmt.Sprintf("Buf %d %d %s", szx, m, coqZ(blockwise.VerifBufferSize(blockwise.SZX(szx), m))), fmt.Sprintf("buf %d %d", szx, m), szx <= 7, "buf")
	}
	addDecSweep := func(lo uint32, n uint32) {
		h := uint64(0)
		for i := uint32(0); i < n; i++ {
			h = mix61(h, c19DecWord(lo+i))
		}
		e.AddW(fmt.Sprintf("DecSweep %d %d%%N %d", lo, n, h), fmt.Sprintf("decsweep %d %d", lo, n), true, int(n/40)+1, "decsweep")
		e.Extra["swept_values"] = toInt(e.Extra["swept_values"]) + int(n)
	}
	addEncSweep := func(szx uint8, more bool, lo int64, n uint32) {
		h := uint64(0)
		for i := uint32(0); i < n; i++ {
			h = mix61(h, c19EncWord(szx, lo+int64(i), more))
		}
		e.AddW(fmt.Sprintf("EncSweep %d %s %s %d%%N %d", szx, coqBool(more), coqZ(lo), n, h), fmt.Sprintf("encsweep %d %v %d %d", szx, more, lo, n), true, int(n/40)+1, "encsweep")
		e.Extra["swept_values"] = toInt(e.Extra["swept_values"]) + int(n)
	}

	if a.only != "" {
		f := strings.Fields(a.only)
		atoi := func(s string) int64 { v, _ := strconv.ParseInt(s, 10, 64); return v }
		switch f[0] {
		case "dec":
			addDec(uint32(atoi(f[1])))
		case "enc":
			addEnc(uint8(atoi(f[1])), atoi(f[2]), f[3] == "true")
		case "size":
			addSize(uint8(atoi(f[1])))
		case "buf":
			addBuf(uint8(atoi(f[1])), uint32(atoi(f[2])))
		case "decsweep":
			// replay of a sweep: bisect down to single values
			lo, n := uint32(atoi(f[1])), uint32(atoi(f[2]))
			for i := uint32(0); i < n && i < 4096; i++ {
				addDec(lo + i)
			}
		case "encsweep":
			lo, n := atoi(f[3]), uint32(atoi(f[4]))
			for i := uint32(0); i < n && i < 4096; i++ {
				addEnc(uint8(atoi(f[1])), lo+int64(i), f[2] == "true")
			}
		}
		return e.Flush(a.out)
	}

	// --- decoder: boundaries ---
	span := uint32(64)
	if a.tier == "thorough" {
		span = 256
	}
	for p := 0; p <= 32; p++ {
		c := uint64(1) << uint(p)
		for d := -int64(span); d <= int64(span); d++ {
			v := int64(c) + d
			if v >= 0 && v < 1<<32 {
				addDec(uint32(v))
			}
		}
	}
	mb := int64(blockwise.VerifMaxBlockNumber) << 4
	for d := -int64(span); d <= int64(span); d++ {
		if mb+d >= 0 && mb+d < 1<<32 {
			addDec(uint32(mb + d))
		}
	}
	nrand := 3000
	if a.tier == "thorough" {
		nrand = 20000
	}
	for i := 0; i < nrand; i++ {
		switch i % 3 {
		case 0:
			addDec(uint32(rng.U64() & 0xffffff))
		case 1:
			addDec(uint32(rng.U64()))
		default:
			addDec(uint32(rng.U64()&0xff) | 0xffff00)
		}
	}
	// --- encoder ---
	szxs := []uint8{0, 1, 2, 3, 4, 5, 6, 7, 8, 9, 15, 16, 128, 255}
	nums := []int64{-1 << 63, -1 << 32, -2, -1, 0, 1, 2, 15, 16, 255, 256, 65535, 65536}
	for d := int64(-20); d <= 20; d++ {
		nums = append(nums, (1<<20)+d, int64(blockwise.VerifMaxBlockNumber)+d)
	}
	nums = append(nums, 1<<24, 1<<28, 1<<28+1, 1<<31, 1<<32, 1<<60, 1<<63-1)
	for _, s := range szxs {
		for _, n := range nums {
			addEnc(s, n, false)
			addEnc(s, n, true)
		}
	}
	for i := 0; i < nrand/2; i++ {
		addEnc(uint8(rng.Intn(9)), int64(rng.U64()&0x1fffff)-1000, rng.Bool())
	}
	// --- sizes ---
	for s := 0; s < 256; s++ {
		addSize(uint8(s))
	}
	for s := 0; s <= 9; s++ {
		for _, m := range []uint32{0, 1, 16, 1023, 1024, 1025, 1152, 2047, 2048, 2049, 4096, 65535, 65536, 1<<31 - 1, 1 << 31, 1<<32 - 1} {
			addBuf(uint8(s), m)
		}
		for i := 0; i < 10; i++ {
			addBuf(uint8(s), uint32(rng.U64()))
		}
	}
	// --- sweeps ---
	if a.tier == "thorough" {
		chunk := uint32(1 << 16)
		for lo := uint64(0); lo < (1<<24)+uint64(chunk); lo += uint64(chunk) {
			addDecSweep(uint32(lo), chunk)
		}
		for s := uint8(0); s <= 7; s++ { // szx > 7 is covered by the literal Enc cases (its error code differs from the range error)
			for _, m := range []bool{false, true} {
				for lo := int64(-int64(chunk)); lo < (1<<20)+int64(chunk); lo += int64(chunk) {
					addEncSweep(s, m, lo, chunk)
				}
			}
		}
	} else {
		// quick: a few chunks around the domain ends
		addDecSweep(0, 1<<13)
		addDecSweep((1<<24)-(1<<13), 1<<14)
		addEncSweep(7, true, (1<<20)-(1<<13), 1<<14)
		addEncSweep(0, false, -100, 1<<13)
	}
	return e.Flush(a.out)
}

func toInt(v interface{}) int {
	if v == nil {
		return 0
	}
	return v.(int)
}
