package main

import (
	"fmt"
	"os"
	"strings"

	"github.com/plgd-dev/go-coap/v3/message/pool"
)

func init() { props["C12"] = runC12 }

func runC12(a runArgs) error {
	e := NewEmitter("C12", "Pool.Run")
	e.Preamble = "From GoCoap Require Import Pool.Model Pool.Spec."
	e.ShardSize = 100
	rng := NewRng(a.seed)
	_ = rng
	tr := newPoolTracker()
	pool.VerifSetTracker(tr)
	activeTracker = tr
	defer func() { activeTracker = nil; pool.VerifSetTracker(nil) }()
	dbg := os.Getenv("HXDBG") != ""
	// family A: server role
	evs := []c05Ev{}
	tok := []byte{1, 2}
	r := c05Ev{Kind: "req", Typ: 0, MID: 10, Tok: tok, Code: 1, Beh: "resp", RCode: 69, PLen: 4, PSalt: 1}
	n := c05Ev{Kind: "req", Typ: 1, MID: 11, Tok: tok, Code: 1, Beh: "resp", RCode: 69, PLen: 4, PSalt: 1}
	nn := c05Ev{Kind: "req", Typ: 1, MID: 12, Tok: tok, Code: 1, Beh: "none"}
	cn := c05Ev{Kind: "req", Typ: 0, MID: 13, Tok: tok, Code: 1, Beh: "none"}
	evs = append(evs, r, r, n, n, nn, cn, c05Ev{Kind: "tick"})
	perEventC05 = func(i int, ev c05Ev) {
		if dbg {
			fmt.Fprintf(os.Stderr, "A %s -> %s\n", ev.desc(), coqLc(tr.take()))
		}
	}
	tr.take()
	runC05History(evs, 0x1000)
	perEventC05 = nil
	perEventC06 = func(ev c06Ev) {
		if dbg {
			fmt.Fprintf(os.Stderr, "B %s -> %s\n", ev.desc(), coqLc(tr.take()))
		}
	}
	tr.take()
	runC06History([]c06Ev{{Kind: "send", ID: 1, Tok: []byte{9}}, {Kind: "age", Ms: 2500}, {Kind: "tick"}, {Kind: "ack", ID: 1}, {Kind: "sep", ID: 1, Code: 69, PMID: 500},
		{Kind: "send", ID: 2, Tok: []byte{8}}, {Kind: "piggy", ID: 2, Code: 69}, {Kind: "send", ID: 3, Tok: []byte{7}}, {Kind: "rst", ID: 3}, {Kind: "cancel", ID: 3},
		{Kind: "send", ID: 4, Tok: []byte{6}}, {Kind: "age", Ms: 20000}, {Kind: "tick"}, {Kind: "tick"}, {Kind: "cancel", ID: 4}}, 2000, 1, 4)
	perEventC06 = nil
	if dbg {
		fmt.Fprintf(os.Stderr, "END -> %s\n", coqLc(tr.take()))
	}
	_ = strings.Join
	return e.Flush(a.out)
}
