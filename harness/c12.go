package main

import (
	"bytes"
	"context"
	"fmt"
	"net"
	"strings"
	"sync"
	"time"

	"github.com/plgd-dev/go-coap/v3/message"
	"github.com/plgd-dev/go-coap/v3/message/codes"
	"github.com/plgd-dev/go-coap/v3/message/pool"
	coapNet "github.com/plgd-dev/go-coap/v3/net"
	"github.com/plgd-dev/go-coap/v3/net/responsewriter"
	tcpclient "github.com/plgd-dev/go-coap/v3/tcp/client"
	tcpcoder "github.com/plgd-dev/go-coap/v3/tcp/coder"
	"github.com/plgd-dev/go-coap/v3/udp/client"
)

func init() { props["C12"] = runC12 }

// c12Concurrent: one connection in both roles under real concurrency: k callers issue
// confirmable requests that a responder goroutine answers (piggybacked or ACK + separate
// response, sometimes after a retransmission), peers' requests are injected concurrently
// and handled by a handler that holds the request for a while, and a housekeeping
// goroutine ticks with times in the future so retransmissions and expiries happen.
func c12Concurrent(rng *Rng, tr *poolTracker, callers, perCaller, peerReqs int) (ok bool) {
	mc := newMemConn(memConnOpts{getMID: 0x3000, queueSize: 16, maxRetransmit: 2, ackTimeout: 50 * time.Millisecond, nstart: 4, limitTotal: 64, limitEndpoint: 64})
	defer mc.close()
	mc.mu.Lock()
	mc.behave = func(w *responsewriter.ResponseWriter[*client.Conn], r *pool.Message) {
		tr.Hold(r)
		defer tr.Unhold(r)
		if r.Code() == codes.GET || r.Code() == codes.POST {
			_ = w.SetResponse(codes.Content, message.TextPlain, bytes.NewReader([]byte("pong")))
		}
	}
	mc.mu.Unlock()
	stop := make(chan struct{})
	var wg sync.WaitGroup
	// responder: answers every confirmable request the connection writes
	wg.Add(1)
	go func() {
		defer wg.Done()
		r2 := rng.Fork()
		seen := map[int]int{}
		pmid := 20000
		for {
			select {
			case <-stop:
				return
			default:
			}
			for _, w := range mc.takeOut() {
				if w.Bad || w.Typ != 0 || w.Code == 0 || w.Code > 4 {
					continue
				}
				seen[w.MID]++
				switch r2.Intn(4) {
				case 0: // piggybacked
					mc.inject(encodeWire(2, 69, w.MID, w.Tok, nil, []byte("resp")))
				case 1: // ack, then separate confirmable response
					mc.inject(encodeWire(2, 0, w.MID, nil, nil, nil))
					pmid++
					mc.inject(encodeWire(0, 69, pmid, w.Tok, nil, []byte("sep")))
				case 2: // drop the first copy, answer the retransmission
					if seen[w.MID] > 1 {
						mc.inject(encodeWire(2, 69, w.MID, w.Tok, nil, []byte("late")))
					}
				default: // duplicate answer
					mc.inject(encodeWire(2, 69, w.MID, w.Tok, nil, []byte("dup")))
					mc.inject(encodeWire(2, 69, w.MID, w.Tok, nil, []byte("dup")))
				}
			}
			time.Sleep(200 * time.Microsecond)
		}
	}()
	// housekeeping
	wg.Add(1)
	go func() {
		defer wg.Done()
		i := 0
		for {
			select {
			case <-stop:
				return
			default:
			}
			i++
			mc.cc.CheckExpirations(time.Now().Add(time.Duration(i%4) * 60 * time.Millisecond))
			time.Sleep(500 * time.Microsecond)
		}
	}()
	// peer requests
	wg.Add(1)
	go func() {
		defer wg.Done()
		for i := 0; i < peerReqs; i++ {
			typ := i % 2
			d := encodeWire(typ, 1, 30000+i/2, []byte{0xEE, byte(i)}, nil, nil) // every second one is a duplicate ID
			mc.inject(d)
		}
	}()
	// callers
	var cwg sync.WaitGroup
	okAll := true
	var okMu sync.Mutex
	for c := 0; c < callers; c++ {
		cwg.Add(1)
		go func(c int) {
			defer cwg.Done()
			defer func() {
				if recover() != nil {
					okMu.Lock()
					okAll = false
					okMu.Unlock()
				}
			}()
			for i := 0; i < perCaller; i++ {
				ctx, cancel := context.WithTimeout(context.Background(), 3*time.Second)
				req := mc.cc.AcquireMessage(ctx)
				req.SetCode(codes.GET)
				req.SetToken([]byte{byte(c), byte(i), 0x5A})
				req.SetType(message.Confirmable)
				_ = req.SetPath(fmt.Sprintf("/c%d", c))
				resp, err := mc.cc.Do(req)
				if err == nil {
					tr.Hold(resp)
					if b, _ := resp.ReadBody(); len(b) == 0 {
						okMu.Lock()
						okAll = false
						okMu.Unlock()
					}
					tr.Unhold(resp)
					tr.AppRel(resp)
					mc.cc.ReleaseMessage(resp)
				}
				tr.AppRel(req)
				mc.cc.ReleaseMessage(req)
				cancel()
			}
		}(c)
	}
	cwg.Wait()
	close(stop)
	wg.Wait()
	mc.sync()
	return okAll
}

// c12TCP: a tcp/client.Conn over a net.Pipe; the peer answers pings with pongs and requests with 2.05.
// The application pings and requests n times, holds every response and releases it.
func c12TCP(tr *poolTracker, n int) {
	c1, c2 := net.Pipe()
	defer c2.Close()
	peerDone := make(chan struct{})
	go func() {
		defer close(peerDone)
		var buf []byte
		tmp := make([]byte, 4096)
		for {
			k, err := c2.Read(tmp)
			buf = append(buf, tmp[:k]...)
			for {
				var h tcpcoder.MessageHeader
				if _, e := tcpcoder.DefaultCoder.DecodeHeader(buf, &h); e != nil || uint32(len(buf)) < h.MessageLength {
					break
				}
				var m message.Message
				m.Options = make(message.Options, 0, 16)
				if _, e := tcpcoder.DefaultCoder.Decode(buf[:h.MessageLength], &m); e == nil {
					var resp message.Message
					switch {
					case m.Code == codes.Ping:
						resp = message.Message{Code: codes.Pong, Token: m.Token}
					case m.Code >= codes.GET && m.Code <= codes.DELETE:
						resp = message.Message{Code: codes.Content, Token: m.Token, Payload: []byte("tcp-resp")}
					}
					if resp.Code != 0 {
						out := make([]byte, 128)
						if l, e2 := tcpcoder.DefaultCoder.Encode(resp, out); e2 == nil {
							_, _ = c2.Write(out[:l])
						}
					}
				}
				buf = buf[h.MessageLength:]
			}
			if err != nil {
				return
			}
		}
	}()
	cfg := tcpclient.DefaultConfig
	cfg.Errors = func(error) {}
	cfg.MessagePool = pool.New(64, 2048)
	cfg.DisableTCPSignalMessageCSM = true
	cfg.DisablePeerTCPSignalMessageCSMs = true
	cc := tcpclient.NewConnWithOpts(coapNet.NewConn(c1), &cfg)
	runDone := make(chan struct{})
	go func() { _ = cc.Run(); close(runDone) }()
	for i := 0; i < n; i++ {
		ctx, cancel := context.WithTimeout(context.Background(), 3*time.Second)
		_ = cc.Ping(ctx)
		resp, err := cc.Get(ctx, fmt.Sprintf("/t%d", i))
		if err == nil {
			tr.Hold(resp)
			tr.Unhold(resp)
			tr.AppRel(resp)
			cc.ReleaseMessage(resp)
		}
		cancel()
	}
	_ = cc.Close()
	select {
	case <-runDone:
	case <-time.After(3 * time.Second):
	}
	_ = c1.Close()
	select {
	case <-peerDone:
	case <-time.After(time.Second):
	}
}

func runC12(a runArgs) error {
	e := NewEmitter("C12", "Pool.Run")
	e.Preamble = "From GoCoap Require Import Pool.Model Pool.Spec."
	e.ShardSize = 60
	e.Rule = "complete pool lifecycle traces (release / recycle / re-acquire reported by the verif hook in message/pool, plus hold / unhold / application-release events of the harness) of three scenario families on a real udp/client.Conn over an in-memory session: (A) server-role request histories with duplicates, ageing and ticks (generator of C05); (B) client-role Do histories with retransmission ticks, ACK/RST/piggybacked/separate responses and cancellations (generator of C06); (C) concurrent callers + responder + peer requests + housekeeping ticks. Distinct = distinct trace; non-trivial = the trace contains at least one re-acquisition of a recycled message and one application hold."
	rng := NewRng(a.seed)
	tr := newPoolTracker()
	pool.VerifSetTracker(tr)
	activeTracker = tr
	defer func() { activeTracker = nil; pool.VerifSetTracker(nil) }()

	emitTrace := func(desc string, fam string) {
		evs := tr.take()
		re, ho := false, false
		for _, x := range evs {
			if x.Kind == "Reacq" {
				re = true
			}
			if x.Kind == "Hold" {
				ho = true
			}
		}
		w := 1 + len(evs)/60
		e.AddW(fmt.Sprintf("Trace 64 %s", coqLc(evs)), desc, re && ho, w, fam, fmt.Sprintf("events<%d", (len(evs)/100+1)*100))
		// fresh numbering per scenario keeps the object ids small
		tr.mu.Lock()
		tr.ids = map[*pool.Message]int{}
		tr.holds = map[*pool.Message]uint64{}
		tr.mu.Unlock()
	}

	if a.only != "" {
		f := strings.SplitN(a.only, "#", 2)
		switch f[0] {
		case "A":
			parts := strings.SplitN(f[1], "|", 2)
			var getMID int32
			fmt.Sscanf(parts[0], "%d", &getMID)
			var evs []c05Ev
			for _, s := range strings.Fields(parts[1]) {
				evs = append(evs, parseC05Ev(s))
			}
			tr.take()
			runC05History(evs, getMID)
			emitTrace(a.only, "A")
		case "B":
			parts := strings.SplitN(f[1], "|", 2)
			var ack, maxrt, nst int
			fmt.Sscanf(parts[0], "%d,%d,%d", &ack, &maxrt, &nst)
			var evs []c06Ev
			for _, s := range strings.Fields(parts[1]) {
				evs = append(evs, parseC06Ev(s))
			}
			tr.take()
			runC06History(evs, ack, maxrt, nst)
			emitTrace(a.only, "B")
		case "T":
			var n int
			fmt.Sscanf(f[1], "%d", &n)
			tr.take()
			c12TCP(tr, n)
			emitTrace(a.only, "T")
		case "C":
			var seed uint64
			var callers, per, peers int
			fmt.Sscanf(f[1], "%d,%d,%d,%d", &seed, &callers, &per, &peers)
			tr.take()
			c12Concurrent(NewRng(seed), tr, callers, per, peers)
			emitTrace(a.only, "C")
		}
		return e.Flush(a.out)
	}

	nA, nB, nC := 40, 40, 10
	if a.tier == "thorough" {
		nA, nB, nC = 400, 400, 120
	}
	// family A: reuse the C05 generator by running its emitter into a throw-away Emitter
	{
		sub := NewRng(rng.U64())
		for i := 0; i < nA; i++ {
			evs, getMID := genC05History(sub, a.tier)
			tr.take()
			runC05History(evs, getMID)
			emitTrace("A#"+c05Desc(evs, getMID), "A")
		}
	}
	{
		sub := NewRng(rng.U64())
		for i := 0; i < nB; i++ {
			evs, ack, maxrt, nst := genC06History(sub)
			tr.take()
			runC06History(evs, ack, maxrt, nst)
			parts := make([]string, len(evs))
			for j, ev := range evs {
				parts[j] = ev.desc()
			}
			emitTrace(fmt.Sprintf("B#%d,%d,%d|%s", ack, maxrt, nst, strings.Join(parts, " ")), "B")
		}
	}
	for _, c := range canonC06() {
		tr.take()
		runC06History(c.evs, c.ack, c.maxrt, c.nst)
		parts := make([]string, len(c.evs))
		for j, ev := range c.evs {
			parts[j] = ev.desc()
		}
		emitTrace(fmt.Sprintf("B#%d,%d,%d|%s", c.ack, c.maxrt, c.nst, strings.Join(parts, " ")), "B")
	}
	for i := 0; i < 6; i++ {
		tr.take()
		c12TCP(tr, 3+i%3)
		emitTrace(fmt.Sprintf("T#%d", 3+i%3), "T")
	}
	for i := 0; i < nC; i++ {
		seed := rng.U64() % 1000000
		callers, per, peers := 2+rng.Intn(3), 3+rng.Intn(3), 6+rng.Intn(8)
		tr.take()
		c12Concurrent(NewRng(seed), tr, callers, per, peers)
		emitTrace(fmt.Sprintf("C#%d,%d,%d,%d", seed, callers, per, peers), "C")
	}
	return e.Flush(a.out)
}
