package main

import (
	"bytes"
	"context"
	"fmt"
	"net"
	"strings"
	"sync"
	"time"

	"github.com/plgd-dev/go-coap/v3/message"
	"github.com/plgd-dev/go-coap/v3/message/codes"
	"github.com/plgd-dev/go-coap/v3/message/pool"
	coapNet "github.com/plgd-dev/go-coap/v3/net"
	"github.com/plgd-dev/go-coap/v3/net/responsewriter"
	tcpclient "github.com/plgd-dev/go-coap/v3/tcp/client"
	tcpcoder "github.com/plgd-dev/go-coap/v3/tcp/coder"
	"github.com/plgd-dev/go-coap/v3/udp/client"
)

func init() { props["C12"] = runC12 }

// c12Concurrent: one connection in both roles under real concurrency: k callers issue
// confirmable requests that a responder goroutine answers (piggybacked or ACK + separate
// response, sometimes after a retransmission), peers' requests are injected concurrently
// and handled by a handler that holds the request for a while, and a housekeeping
// goroutine ticks with times in the future so retransmissions and expiries happen.
func c12Concurrent(rng *Rng, tr *poolTracker, callers, perCaller, peerReqs int) (ok bool) {
	mc := newMemConn(memConnOpts{getMID: 0x3000, queueSize: 16, maxRetransmit: 2, ackTimeout: 50 * time.Millisecond, nstart: 4, limitTotal: 64, limitEndpoint: 64})
	defer mc.close()
	mc.mu.Lock()
	mc.behave = func(w *responsewriter.ResponseWriter[*client.Conn], r *pool.Message) {
		tr.Hold(r)
		defer tr.Unhold(r)
		if r.Code() == codes.GET || r.Code() == codes.POST {
			_ = w.SetResponse(codes.Content, message.TextPlain, bytes.NewReader([]byte("pong")))
		}
	}
	mc.mu.Unlock()
	stop := make(chan struct{})
	var wg sync.WaitGroup
	// responder: answers every confirmable request the connection writes
	wg.Add(1)
	go func() {
		defer wg.Done()
		r2 := rng.Fork()
		seen := map[int]int{}
		pmid := 20000
		for {
			select {
			case <-stop:
				return
			default:
			}
			for _, w := range mc.takeOut() {
				if w.Bad || w.Typ != 0 || w.Code == 0 || w.Code > 4 {
					continue
				}
				seen[w.MID]++
				switch r2.Intn(4) {
				case 0: // piggybacked
					mc.inject(encodeWire(2, 69, w.MID, w.Tok, nil, []byte("resp")))
				case 1: // ack, then separate confirmable response
					mc.inject(encodeWire(2, 0, w.MID, nil, nil, nil))
					pmid++
					mc.inject(encodeWire(0, 69, pmid, w.Tok, nil, []byte("sep")))
				case 2: // drop the first copy, answer the retransmission
					if seen[w.MID] > 1 {
						mc.inject(encodeWire(2, 69, w.MID, w.Tok, nil, []byte("late")))
					}
				default: // duplicate answer
					mc.inject(encodeWire(2, 69, w.MID, w.Tok, nil, []byte("dup")))
					mc.inject(encodeWire(2, 69, w.MID, w.Tok, nil, []byte("dup")))
				}
			}
			time.Sleep(200 * time.Microsecond)
		}
	}()
	// housekeeping
	wg.Add(1)
	go func() {
		defer wg.Done()
		i := 0
		for {
			select {
			case <-stop:
				return
			default:
			}
			i++
			mc.cc.CheckExpirations(time.Now().Add(time.Duration(i%4) * 60 * time.Millisecond))
			time.Sleep(500 * time.Microsecond)
		}
	}()
	// peer requests
	wg.Add(1)
	go func() {
		defer wg.Done()
		for i := 0; i < peerReqs; i++ {
			typ := i % 2
			d := encodeWire(typ, 1, 30000+i/2, []byte{0xEE, byte(i)}, nil, nil) // every second one is a duplicate ID
			mc.inject(d)
		}
	}()
	// callers
	var cwg sync.WaitGroup
	okAll := true
	var okMu sync.Mutex
	for c := 0; c < callers; c++ {
		cwg.Add(1)
		go func(c int) {
			defer cwg.Done()
			defer func() {
				if recover() != nil {
					okMu.Lock()
					okAll = false
					okMu.Unlock()
				}
			}()
			for i := 0; i < perCaller; i++ {
				ctx, cancel := context.WithTimeout(context.Background(), 3*time.Second)
				req := mc.cc.AcquireMessage(ctx)
				req.SetCode(codes.GET)
				req.SetToken([]byte{byte(c), byte(i), 0x5A})
				req.SetType(message.Confirmable)
				_ = req.SetPath(fmt.Sprintf("/c%d", c))
				resp, err := mc.cc.Do(req)
				if err == nil {
					tr.Hold(resp)
					if b, _ := resp.ReadBody(); len(b) == 0 {
						okMu.Lock()
						okAll = false
						okMu.Unlock()
					}
					tr.Unhold(resp)
					tr.AppRel(resp)
					mc.cc.ReleaseMessage(resp)
				}
				tr.AppRel(req)
				mc.cc.ReleaseMessage(req)
				cancel()
			}
		}(c)
	}
	cwg.Wait()
	close(stop)
	wg.Wait()
	mc.sync()
	return okAll
}

// c12TCP: a tcp/client.Conn over a net.Pipe; the peer answers pings with pongs and requests with 2.05.
// The application pings and requests n times, holds every response and releases it.
func c12TCP(tr *poolTracker, n int) {
	c1, c2 := net.Pipe()
	defer c2.Close()
	peerDone := make(chan struct{})
	go func() {
		defer close(peerDone)
		var buf []byte
		tmp := make([]byte, 4096)
		for {
			k, err := c2.Read(tmp)
			buf = append(buf, tmp[:k]...)
			for {
				var h tcpcoder.MessageHeader
				if _, e := tcpcoder.DefaultCoder.DecodeHeader(buf, &h); e != nil || uint32(len(buf)) < h.MessageLength {
					break
				}
				var m message.Message
				m.Options = make(message.Options, 0, 16)
				if _, e := tcpcoder.DefaultCoder.Decode(buf[:h.MessageLength], &m); e == nil {
					var resp message.Message
					switch {
					case m.Code == codes.Ping:
						resp = message.Message{Code: codes.Pong, Token: m.Token}
					case m.Code >= codes.GET && m.Code <= codes.DELETE:
						resp = message.Message{Code: codes.Content, Token: m.Token, Payload: []byte("tcp-resp")}
					}
					if resp.Code != 0 {
						out := make([]byte, 128)
						if l, e2 := tcpcoder.DefaultCoder.Encode(resp, out); e2 == nil {
							_, _ = c2.Write(out[:l])
						}
					}
				}
				buf = buf[h.MessageLength:]
			}
			if err != nil {
				return
			}
		}
	}()
	cfg := tcpclient.DefaultConfig
	cfg.Errors = func(error) {}
	cfg.MessagePool = pool.New(64, 2048)
	cfg.DisableTCPSignalMessageCSM = true
	cfg.DisablePeerTCPSignalMessageCSMs = true
	cc := tcpclient.NewConnWithOpts(coapNet.NewConn(c1), &cfg)
	runDone := make(chan struct{})
	go func() { _ = cc.Run(); close(runDone) }()
	for i := 0; i < n && !tr.bad(); i++ {
		ctx, cancel := context.WithTimeout(context.Background(), 3*time.Second)
		_ = cc.Ping(ctx)
		resp, err := cc.Get(ctx, fmt.Sprintf("/t%d", i))
		if err == nil {
			tr.Hold(resp)
			tr.Unhold(resp)
			tr.AppRel(resp)
			cc.ReleaseMessage(resp)
		}
		cancel()
	}
	_ = cc.Close()
	_ = c1.Close() // the session does not own the socket: Run returns once the pipe is closed
	select {
	case <-runDone:
	case <-time.After(3 * time.Second):
	}
	select {
	case <-peerDone:
	case <-time.After(time.Second):
	}
}

// c12Out collects what a scenario wants to emit; it is applied to the Emitter by the main goroutine once the
// scenario has returned (a scenario that hangs is abandoned together with its c12Out).
type c12Out struct{ acts []func(e *Emitter) }

func (o *c12Out) AddW(coq, desc string, nontrivial bool, weight int, hist ...string) {
	o.acts = append(o.acts, func(e *Emitter) { e.AddW(coq, desc, nontrivial, weight, hist...) })
}

func (o *c12Out) Count(bucket string) {
	o.acts = append(o.acts, func(e *Emitter) { e.Hist[bucket]++ })
}

// c12Scenario runs the scenario a descriptor names under a watchdog. A scenario that does not return is an
// observable of its own: what the tracker has recorded so far is emitted as a `Hung` case (never accepted).
func c12Scenario(e *Emitter, tr *poolTracker, desc string) {
	if tr.nBroken >= 5 && e.Only == "" {
		return // five traces with a violation are on file: no point in running the rest on a corrupted pool
	}
	out := &c12Out{}
	done := make(chan interface{}, 1)
	go func() {
		defer func() { done <- recover() }()
		c12ScenarioBody(out, tr, desc)
	}()
	limit := time.NewTimer(c12ScenarioLimit)
	defer limit.Stop()
	bad := tr.ctx().Done() // closed when the trace contains a violation: the scenario then gets 20 more seconds
	for {
		select {
		case r := <-done:
			if r != nil {
				evs := tr.take()
				e.AddW(fmt.Sprintf("Hung %s", coqLc(c12Cut(evs))), desc, false, 1+len(evs)/60, "panic")
				return
			}
			for _, f := range out.acts {
				f(e)
			}
			if ps := tr.takePanics(); len(ps) > 0 {
				// library code panicked on a receive path: the model has no such run
				e.AddW("Hung []", desc, false, 1, "panic")
				if dbgC12() {
					fmt.Println("panic in", desc, ":", ps[0])
				}
			}
			return
		case <-bad:
			bad = nil
			limit.Reset(20 * time.Second)
		case <-limit.C:
			tr.nBroken++
			evs := tr.take()
			e.AddW(fmt.Sprintf("Hung %s", coqLc(c12Cut(evs))), desc, false, 1+len(evs)/60, "hang")
			return
		}
	}
}

var c12ScenarioLimit = 240 * time.Second

func c12Cut(evs []lcEvent) []lcEvent {
	if len(evs) > c12MaxEvents {
		return evs[:c12MaxEvents]
	}
	return evs
}

func c12ScenarioBody(e *c12Out, tr *poolTracker, desc string) {
	f := strings.SplitN(desc, "#", 2)
	if len(f) != 2 {
		return
	}
	switch f[0] {
	case "A":
		parts := strings.SplitN(f[1], "|", 2)
		var getMID int32
		fmt.Sscanf(parts[0], "%d", &getMID)
		var evs []c05Ev
		for _, s := range strings.Fields(parts[1]) {
			evs = append(evs, parseC05Ev(s))
		}
		tr.scenario()
		runC05History(evs, getMID)
		emitTraceCap(e, tr, desc, "A", 64)
	case "B":
		parts := strings.SplitN(f[1], "|", 2)
		var ack, maxrt, nst int
		fmt.Sscanf(parts[0], "%d,%d,%d", &ack, &maxrt, &nst)
		var evs []c06Ev
		for _, s := range strings.Fields(parts[1]) {
			evs = append(evs, parseC06Ev(s))
		}
		tr.scenario()
		runC06History(evs, ack, maxrt, nst)
		emitTraceCap(e, tr, desc, "B", 64)
	case "T":
		var n int
		fmt.Sscanf(f[1], "%d", &n)
		tr.scenario()
		c12TCP(tr, n)
		emitTraceCap(e, tr, desc, "T", 64)
	case "C":
		var seed uint64
		var callers, per, peers int
		fmt.Sscanf(f[1], "%d,%d,%d,%d", &seed, &callers, &per, &peers)
		tr.scenario()
		c12Concurrent(NewRng(seed), tr, callers, per, peers)
		emitTraceCap(e, tr, desc, "C", 64)
	case "P":
		c12Pair(e, tr, desc, f[1])
	case "N":
		c12TCPPair(e, tr, desc, f[1])
	case "S":
		c12UDPServer(e, tr, desc, f[1])
	case "Q":
		c12PoolSeq(e, tr, desc, f[1])
	case "R":
		c12PoolPar(e, tr, desc, f[1])
	case "E":
		c12BwRecv(e, tr, desc, f[1])
	case "G":
		c12GiveUp(e, tr, desc, f[1])
	case "K":
		c12PingLife(e, tr, desc, f[1])
	case "X":
		c12Sweep(e, tr, desc, f[1])
	case "H":
		c12HandOver(e, tr, desc, f[1])
	}
}

func runC12(a runArgs) error {
	e := NewEmitter("C12", "Pool.Run")
	e.Preamble = "From GoCoap Require Import Pool.Model Pool.Spec Pool.Bounded Pool.HandOverModel."
	e.ShardSize = 60
	e.Rule = "complete pool lifecycle traces (release / recycle / re-acquire reported by the verif hook in message/pool, plus hold / unhold / application-release events of the harness with a content digest at hand-over and at the end of the hold). Families on a real udp/client.Conn over an in-memory session: (A) server-role request histories with duplicates, ageing and ticks (generator of C05); (B) client-role Do histories with retransmission ticks, ACK/RST/piggybacked/separate responses and cancellations (generator of C06); (C) concurrent callers + responder + peer requests + housekeeping ticks; (T) tcp/client.Conn against a scripted peer. (P) the exchange histories of C13 on a back-to-back pair of real udp/client.Conn, tracker on both: block-wise up/down incl. abandoned transfers, observe + notifications + cancel, ping answered/lost/cancelled, one-way writes, duplicated and dropped datagrams, limiter-queued-then-cancelled, separate pools or one small shared pool; (N) a tcp/client.Conn against the library's tcp server over an in-memory stream: CSM, block-wise up/down, observe with block-wise notifications, ping; (S) the library's udp server on a loopback socket with several clients from udp.Dial: plain, block-wise, observe, ping, one-way; (Q) sequential acquire/release scripts on a small pool compared step by step with the counter model; (R) goroutines hammering one small pool; (E) scripted block-wise exchanges on a udp/client.Conn with block-wise enabled (SZX16): the application's GET/POST/PUT/FETCH/DELETE or block-wise upload answered datagram by datagram with blocks whose ETag changes, with wrong numbers, wrong lengths, foreign tokens, an early last block, a plain response in the middle, 2.31 with wrong numbers, and the same for a peer uploading to us - besides the complete trace, the events of the receive goroutine per datagram are emitted as an Exchange case and compared with the modelled path of the observed return point. (G) a block-wise call (upload or block-wise response) given up by its caller while the receive goroutine is held at its n-th access to the caller's request (accessor hook of message/pool as scheduling point, request body wrapped; witnesses: Do returned / caller parked in RWMutex.Lock), the application releasing the request as soon as Do has returned; (K) the life of an AsyncPing: pong / reset, expiry sweeps, the cancel function early, late, twice, through inactivity.KeepAlive, with other exchanges recycling the pooled objects in between - one window of lifecycle events per step compared with the model. (X) the expiry sweep of net/blockwise (BlockWise.CheckExpirations / Conn.CheckExpirations with a time at which the transfer has expired) run while the receive goroutine of a block of that transfer (upload of the peer, blocks of a response) is held at its n-th access to the partially received message (before the guard semaphore, under it, during the completion of the last block, inside the application handler the message is lent to), or after it has returned: the events of the sweeping goroutine (window) and the size of receivingMessagesCache are compared with the model's sweep. (H) the hand-over of a response to the caller waiting in Do - in one piece (piggybacked / separate CON / NON) or reassembled from Block2 blocks, after a block-wise upload, several calls in a row - with an application that uses and releases the response the moment Do returns: an access of the receive path to the handed-over message (accessor hook as scheduling point, recognised by the hijack flag) is counted and held until the application has released the response; the count is compared with the model (no access after the channel send). Every family: an access (any exported accessor of pool.Message) to a message that is released and not handed out again is recorded as a Use event. Distinct = distinct trace; non-trivial = the trace contains at least one re-acquisition of a recycled message and one application hold (Q: at least one release refused by a full pool; Exchange: at least one error return; GiveUp and Sweep: the gate was reached; HandOver: always; PingX: more than one step)."
	rng := NewRng(a.seed)
	tr := newPoolTracker()
	pool.VerifSetTracker(tr)
	pool.VerifSetUseTracker(tr)
	activeTracker = tr
	defer func() { activeTracker = nil; pool.VerifSetTracker(nil); pool.VerifSetUseTracker(nil) }()

	if a.only != "" {
		c12Scenario(e, tr, a.only)
		return e.Flush(a.out)
	}

	thorough := a.tier == "thorough"
	nA, nB, nC := 40, 40, 10
	if thorough {
		nA, nB, nC = 400, 400, 120
	}
	{
		sub := NewRng(rng.U64())
		for i := 0; i < nA; i++ {
			evs, getMID := genC05History(sub, a.tier)
			c12Scenario(e, tr, "A#"+c05Desc(evs, getMID))
		}
	}
	b := func(evs []c06Ev, ack, maxrt, nst int) {
		parts := make([]string, len(evs))
		for j, ev := range evs {
			parts[j] = ev.desc()
		}
		c12Scenario(e, tr, fmt.Sprintf("B#%d,%d,%d|%s", ack, maxrt, nst, strings.Join(parts, " ")))
	}
	{
		sub := NewRng(rng.U64())
		for i := 0; i < nB; i++ {
			evs, ack, maxrt, nst := genC06History(sub)
			b(evs, ack, maxrt, nst)
		}
	}
	for _, c := range canonC06() {
		b(c.evs, c.ack, c.maxrt, c.nst)
	}
	for i := 0; i < 6; i++ {
		c12Scenario(e, tr, fmt.Sprintf("T#%d", 3+i%3))
	}
	for i := 0; i < nC; i++ {
		seed := rng.U64() % 1000000
		callers, per, peers := 2+rng.Intn(3), 3+rng.Intn(3), 6+rng.Intn(8)
		c12Scenario(e, tr, fmt.Sprintf("C#%d,%d,%d,%d", seed, callers, per, peers))
	}
	more := c12MoreDescriptors(NewRng(rng.U64()), thorough)
	// E comes first among the newer families: short sequential scripts (the run stops after five scenarios with a violation)
	bwDescs := c12BwDescriptors(NewRng(rng.U64()), thorough)
	// G and K (accesses to released messages): short deterministic scripts, before the long families
	for _, d := range c12UseDescriptors(NewRng(rng.U64()), thorough) {
		c12Scenario(e, tr, d)
	}
	// X (expiry sweep while a block of the transfer is being processed): short deterministic scripts
	for _, d := range c12SweepDescriptors(NewRng(rng.U64()), thorough) {
		c12Scenario(e, tr, d)
	}
	// H (hand-over of a response with the caller scheduled first): short deterministic scripts; drawn after all earlier
	// families, so their descriptors are unchanged
	for _, d := range c12HandOverDescriptors(NewRng(rng.U64()^0x48), thorough) {
		c12Scenario(e, tr, d)
	}
	for _, d := range bwDescs {
		c12Scenario(e, tr, d)
	}
	for _, d := range more {
		c12Scenario(e, tr, d)
	}
	return e.Flush(a.out)
}
