package main

// C10, round 5: messages with code 0.00 that are not empty (RFC 7252 4.1: message format errors), and a live udp
// server that runs in a PROCESS OF ITS OWN.
//
// Family udpemp:<seed>:<good>:<bad>:<nreq>:<nbad>:<maxsize>:<wild> = the live udp runs of c10.go (UdpRun cases) whose
// adversaries send mostly datagrams with code 0.00 and a token (every type, TKL 1..8, a good client's token in some),
// some with options and/or a payload as well, between the bursts the usual ping whose Reset is awaited.
//
// Why a process of its own: what a server does with such a message may end in an unrecovered panic in one of the
// library's goroutines (the reader loop of a connection), which no recover() of the harness can catch: it takes the
// whole process down, i.e. for a real server every peer loses its server ("never crashes").  The parent starts
// `hx C10 --only <descriptor>` with HX_C10_CHILD=<prefix>; the child runs c10RunUDP, writes every datagram to
// <prefix>.sends BEFORE it is sent and the finished UdpRun case to <prefix>.res.  A child that ends without a result
// died: the parent emits `ProcCrash maxsize sends reason` (reason 1 = "panic:"/"fatal error:" on its stderr, 2 =
// ended otherwise) with the datagrams sent so far.  No timing is involved in the verdict: a child either delivers
// its case or is gone; the only clock is a generous watchdog (5 min) on the child as a whole, which counts as
// reason 3 and can not fire on a healthy tree (a run takes a second or two, the inner watchdogs are 20 s each).

import (
	"bytes"
	"encoding/json"
	"fmt"
	"os"
	"os/exec"
	"strconv"
	"strings"
	"sync"
	"time"

	"github.com/plgd-dev/go-coap/v3/message"
	"github.com/plgd-dev/go-coap/v3/message/pool"
	udpServer "github.com/plgd-dev/go-coap/v3/udp/server"
)

var c10ChildLog *os.File

func c10IsChild() bool { return os.Getenv("HX_C10_CHILD") != "" }

// c10EmptyCode makes one datagram whose code is 0.00 although it is not an empty message.
func c10EmptyCode(rng *Rng, goodTok []byte) (*c10Send, string) {
	tok := make([]byte, 1+rng.Intn(8))
	for i := range tok {
		tok[i] = byte(rng.Intn(256))
	}
	if goodTok != nil && rng.Chance(20) {
		tok = goodTok
	}
	typ := rng.Pick([]int{0, 1, 1, 1, 2, 3})
	mid := rng.Intn(65536)
	var opts message.Options
	var pay []byte
	kind := "empty-code-token"
	switch rng.Intn(8) {
	case 0: // token and an option
		opts = message.Options{{ID: message.URIPath, Value: []byte(rng.PickS([]string{"a", "echo", "nope"}))}}
		kind = "empty-code-token-option"
	case 1: // token and a payload
		pay = []byte{byte(rng.Intn(256)), byte(rng.Intn(256))}
		kind = "empty-code-token-payload"
	case 2: // no token, but an option or a payload
		tok = nil
		if rng.Bool() {
			opts = message.Options{{ID: message.URIPath, Value: []byte("a")}}
		} else {
			pay = []byte{0x31}
		}
		kind = "empty-code-option-or-payload"
	}
	return &c10Send{data: encodeWire(typ, 0, mid, tok, opts, pay)}, kind
}

type c10ChildResult struct {
	Alive    bool
	Coq      string
	Clean    bool
	ErrDgram int
	Classes  map[string]int
	Cost     int
}

// c10ChildMain: this process was started by c10RunUDPInChild.
func c10ChildMain(a runArgs) error {
	prefix := os.Getenv("HX_C10_CHILD")
	f, err := os.OpenFile(prefix+".sends", os.O_CREATE|os.O_WRONLY|os.O_TRUNC, 0o644)
	if err != nil {
		return err
	}
	c10ChildLog = f
	var out c10ChildResult
	if strings.HasPrefix(a.only, "poolpath:") {
		sd, _ := strconv.ParseUint(strings.TrimPrefix(a.only, "poolpath:"), 10, 64)
		coq, clean := c10PoolPathRun(sd)
		out = c10ChildResult{Alive: true, Coq: coq, Clean: clean}
	} else {
		q, ok := parseC10UDP(a.only)
		if !ok || !q.empty {
			return fmt.Errorf("child: not a udpemp/poolpath descriptor: %q", a.only)
		}
		res, err := c10RunUDP(q)
		if err != nil {
			return err
		}
		out = c10ChildResult{res.alive, res.coq, res.clean, res.errDgram, res.classes, res.cost}
	}
	c10ChildLog = nil
	_ = f.Close()
	b, _ := json.Marshal(out)
	if err := os.WriteFile(prefix+".res.tmp", b, 0o644); err != nil {
		return err
	}
	return os.Rename(prefix+".res.tmp", prefix+".res")
}

func c10RunUDPInChild(a runArgs, q c10UDPParams) (c10UDPResult, error) {
	maxsize := q.maxsize
	if maxsize == 0 {
		maxsize = c10DefaultMaxSize()
	}
	return c10RunInChild(a, q.desc(), maxsize)
}

func c10RunInChild(a runArgs, desc string, maxsize int) (c10UDPResult, error) {
	dir, err := os.MkdirTemp("", "hx-c10-child-")
	if err != nil {
		return c10UDPResult{}, err
	}
	defer os.RemoveAll(dir)
	prefix := dir + "/run"
	exe, err := os.Executable()
	if err != nil {
		return c10UDPResult{}, err
	}
	cmd := exec.Command(exe, "C10", "--tier", a.tier, "--seed", strconv.FormatUint(a.seed, 10), "--out", dir, "--only", desc)
	cmd.Env = append(os.Environ(), "HX_C10_CHILD="+prefix)
	var stderr bytes.Buffer
	cmd.Stderr = &stderr
	cmd.Stdout = &stderr
	if err := cmd.Start(); err != nil {
		return c10UDPResult{}, err
	}
	done := make(chan error, 1)
	go func() { done <- cmd.Wait() }()
	timedOut := false
	var werr error
	select {
	case werr = <-done:
	case <-time.After(5 * time.Minute):
		timedOut = true
		_ = cmd.Process.Kill()
		werr = <-done
	}
	if b, err := os.ReadFile(prefix + ".res"); err == nil && werr == nil {
		var r c10ChildResult
		if err := json.Unmarshal(b, &r); err != nil {
			return c10UDPResult{}, err
		}
		return c10UDPResult{alive: r.Alive, coq: r.Coq, clean: r.Clean, errDgram: r.ErrDgram, classes: r.Classes, cost: r.Cost}, nil
	}
	// the child is gone without a result
	txt := stderr.String()
	reason := 2
	switch {
	case timedOut:
		reason = 3
	case strings.Contains(txt, "panic:") || strings.Contains(txt, "fatal error:"):
		reason = 1
	}
	if reason == 2 && !strings.Contains(txt, "goroutine ") {
		// neither a result nor a dying Go runtime: the child could not even run (environment), not an observation
		return c10UDPResult{}, fmt.Errorf("C10 child failed: %v: %s", werr, txt)
	}
	if os.Getenv("HXDBG") != "" {
		head := txt
		if len(head) > 3000 {
			head = head[:3000]
		}
		fmt.Fprintf(os.Stderr, "C10 child died (%v):\n%s\n", werr, head)
	}
	var sends []string
	if b, err := os.ReadFile(prefix + ".sends"); err == nil {
		for _, ln := range strings.Split(string(b), "\n") {
			i := strings.IndexByte(ln, ' ')
			if i <= 0 || !strings.HasSuffix(ln, ")") {
				continue // a line cut by the crash
			}
			sends = append(sends, fmt.Sprintf("(%s%%nat, %s)", ln[:i], ln[i+1:]))
		}
	}
	// the last datagrams are the interesting ones; keep the case small
	if len(sends) > 60 {
		sends = sends[len(sends)-60:]
	}
	coq := fmt.Sprintf("ProcCrash %d [%s] %d", maxsize, strings.Join(sends, ";\n    "), reason)
	return c10UDPResult{coq: coq, crashed: true, classes: map[string]int{}}, nil
}

func c10DefaultMaxSize() int { return int(udpServer.DefaultConfig.MaxMessageSize) }

// ---------- poolpath: runs: who releases a pooled message on the receive path (Server/Pool.v) ----------
//
// poolpath:<seed> = ONE udp/client.Conn over the in-memory session of udpmem.go (private pool, MaxMessageSize 512, no
// block-wise layer, a handler that sets no response), 8-16 datagrams handed to Conn.Process one after the other:
// requests, pings, empty ACK/RST, unsolicited responses, the malformed classes, messages with code 0.00 that are not
// empty, one datagram above MaxMessageSize.  The lifecycle hook of message/pool (build tag verif) reports every
// ReleaseMessage and every AcquireMessage that hands out a pooled message; messages are numbered in the order they
// are first seen.  After each datagram two barrier requests go through the connection's queue (first in, first out,
// one reader): when the handler of the second runs, everything the datagram and the first barrier caused is over;
// releases of barrier messages are recognised by their token and marked.  The run is a child process as well.

type c10PoolTracker struct {
	mu  sync.Mutex
	ids map[*pool.Message]int
	ev  []string
}

func (t *c10PoolTracker) id(m *pool.Message) int {
	k, ok := t.ids[m]
	if !ok {
		k = len(t.ids)
		t.ids[m] = k
	}
	return k
}

func (t *c10PoolTracker) Released(_ *pool.Pool, m *pool.Message) {
	bar := bytes.Equal(m.Token(), barrierToken)
	t.mu.Lock()
	t.ev = append(t.ev, fmt.Sprintf("ORel %d %s", t.id(m), coqBool(bar)))
	t.mu.Unlock()
}
func (t *c10PoolTracker) Recycled(_ *pool.Pool, _ *pool.Message) {}
func (t *c10PoolTracker) Reacquired(_ *pool.Pool, m *pool.Message) {
	t.mu.Lock()
	t.ev = append(t.ev, fmt.Sprintf("OAcq %d", t.id(m)))
	t.mu.Unlock()
}
func (t *c10PoolTracker) mark() {
	t.mu.Lock()
	t.ev = append(t.ev, "OMark")
	t.mu.Unlock()
}

const c10PoolPathMax = 512

// c10PoolPathRun returns the case text and whether every barrier came back in time.
func c10PoolPathRun(seed uint64) (string, bool) {
	rng := NewRng(seed)
	tr := &c10PoolTracker{ids: map[*pool.Message]int{}}
	mc := newMemConn(memConnOpts{getMID: int32(rng.Intn(65536)), maxMsg: c10PoolPathMax, queueSize: 16})
	defer mc.close()
	pool.VerifSetTracker(tr)
	defer pool.VerifSetTracker(nil)
	n := 8 + rng.Intn(9)
	var dgs []string
	clean := true
	mid := rng.Intn(65536)
	for i := 0; i < n; i++ {
		var s *c10Send
		switch k := rng.Intn(12); {
		case k < 4:
			s, _ = c10EmptyCode(rng, nil)
		case k == 4:
			s = &c10Send{data: encodeWire(0, 0, rng.Intn(65536), nil, nil, nil)} // ping
		case k == 5:
			s = &c10Send{data: encodeWire(2+rng.Intn(2), 0, rng.Intn(65536), nil, nil, nil)} // empty ACK / RST
		case k == 6:
			pre := encodeWire(1, 2, rng.Intn(65536), []byte{7}, nil, []byte{0x41})
			nn := c10PoolPathMax + rng.Intn(40)
			s = &c10Send{data: append(append([]byte{}, pre...), bytes.Repeat([]byte{0x41}, nn)...), pre: pre, repB: 0x41, repN: nn}
		case k < 9:
			s, _ = c10Malformed(rng, 60000, nil)
			if len(s.data) > c10PoolPathMax {
				s = &c10Send{data: []byte{0x40}}
			}
		default:
			mid = (mid + 1) & 0xffff
			s = c10Request(rng, 0, i, mid, rng.Intn(2))
		}
		// the barriers use message IDs of their own range; a datagram with one of them would be a duplicate
		if w := decodeWire(s.data); !w.Bad {
			mc.avoidMID[w.MID] = true
		}
		tr.mark()
		if c10ChildLog != nil {
			fmt.Fprintf(c10ChildLog, "0 %s\n", s.coqDg())
		}
		mc.inject(s.data)
		if !mc.sync() || !mc.sync() {
			// a barrier did not come back: the datagrams before this one have complete windows; the events seen so
			// far are facts all the same
			clean = false
			break
		}
		dgs = append(dgs, s.coqDg())
	}
	tr.mu.Lock()
	ev := append([]string{}, tr.ev...)
	tr.mu.Unlock()
	// what the last barrier still releases comes after the window of the last datagram and is cut
	return fmt.Sprintf("PoolPath %d %s [%s] [%s]", c10PoolPathMax, coqBool(clean), strings.Join(dgs, "; "), strings.Join(ev, "; ")), clean
}

// c10TraceDisciplined: no message is released while it is in the pool (Run.obs_disciplined, releases only).
func c10TraceDisciplined(coq string) bool {
	i := strings.LastIndex(coq, "] [")
	if i < 0 {
		return true
	}
	in := map[string]bool{}
	for _, e := range strings.Split(strings.TrimSuffix(coq[i+3:], "]"), "; ") {
		f := strings.Fields(e)
		switch {
		case len(f) == 3 && f[0] == "ORel":
			if in[f[1]] {
				return false
			}
			in[f[1]] = true
		case len(f) == 2 && f[0] == "OAcq":
			delete(in, f[1])
		}
	}
	return true
}
