package main

// C13 family "katcp": the continuations of keep-alive pings on a real tcp/client.Conn.
//
// One tcp/client.Conn over a pipe with the monitor that options.WithKeepAlive wires (inactivity.NewKeepAlive +
// NewWithOnActive, sendPing = Conn.AsyncPing); the peer is the script:
//
//   t      housekeeping tick: Conn.CheckExpirations at a virtual instant k hours after the start (period 1 s: the
//          connection is idle at every tick whatever the machine's speed). Runs OnInactive synchronously; what it did
//          is seen on the wire (a Ping frame written) or in the onInactive callback (connection declared inactive)
//   m      the peer sends an empty CSM; q = the peer sends a Ping of its own (any message other than a pong)
//   p      the peer answers the latest ping; po:g = it answers ping generation g (late pong), g beyond = unknown token
//
// Witnesses: a tick is synchronous; a fed message has been processed (Monitor.Notify -> OnActive, the token
// table's LoadAndDelete and the continuation) when the connection's TCPSignalReceivedHandler reports its code,
// which handleSignals calls last. After every step tokenHandlerContainer's length is read (reflect, under its lock).
// Model: Conn/KeepAlive.v (Monitor/Model.v composed with the table); Spec: Conn/Spec.v ka_class.

import (
	"fmt"
	"net"
	"reflect"
	"strconv"
	"strings"
	"sync"
	"sync/atomic"
	"time"

	"github.com/plgd-dev/go-coap/v3/message/codes"
	"github.com/plgd-dev/go-coap/v3/message/pool"
	coapNet "github.com/plgd-dev/go-coap/v3/net"
	"github.com/plgd-dev/go-coap/v3/net/responsewriter"
	"github.com/plgd-dev/go-coap/v3/options"
	tcpClient "github.com/plgd-dev/go-coap/v3/tcp/client"
)

// the connection's end of the pipe: reads come from the pipe, writes are parsed synchronously
type c13KaNetConn struct {
	net.Conn
	mu    sync.Mutex
	pings [][]byte // token of the i-th Ping frame written
}

func (c *c13KaNetConn) Write(b []byte) (int, error) {
	// one frame per Write; a ping has no options and no payload: length nibble 0
	if len(b) >= 2 && b[0]>>4 == 0 && b[1] == byte(codes.Ping) {
		tkl := int(b[0] & 0x0f)
		if len(b) >= 2+tkl {
			c.mu.Lock()
			c.pings = append(c.pings, append([]byte(nil), b[2:2+tkl]...))
			c.mu.Unlock()
		}
	}
	return len(b), nil
}

func (c *c13KaNetConn) npings() int {
	c.mu.Lock()
	defer c.mu.Unlock()
	return len(c.pings)
}

func (c *c13KaNetConn) token(g int) []byte {
	c.mu.Lock()
	defer c.mu.Unlock()
	if g >= 1 && g <= len(c.pings) {
		return c.pings[g-1]
	}
	return nil
}

func c13KaParse(d string) (mr int, ops []string) {
	d = strings.TrimPrefix(d, "katcp ")
	i := strings.Index(d, "|")
	if i < 0 {
		return 5, nil
	}
	for _, f := range strings.Fields(d[:i]) {
		if strings.HasPrefix(f, "mr=") {
			mr, _ = strconv.Atoi(f[3:])
		}
	}
	return mr, strings.Fields(d[i+1:])
}

func c13KaDesc(mr int, ops []string) string {
	return fmt.Sprintf("katcp mr=%d|%s", mr, strings.Join(ops, " "))
}

const c13KaWait = 30 * time.Second

func runC13Ka(desc string) (string, bool) {
	mr, ops := c13KaParse(desc)
	a, b := net.Pipe()
	nc := &c13KaNetConn{Conn: a}
	var closed atomic.Bool
	cfg := tcpClient.DefaultConfig
	cfg.Errors = func(error) {}
	cfg.DisableTCPSignalMessageCSM = true
	cfg.MessagePool = pool.New(0, 0)
	cfg.Handler = func(*responsewriter.ResponseWriter[*tcpClient.Conn], *pool.Message) {}
	onInactive := func(cc *tcpClient.Conn) {
		closed.Store(true)
		_ = cc.Close()
	}
	// timeout = (maxRetries+1) * 1 s: period 1 s
	options.WithKeepAlive(uint32(mr), time.Duration(mr+1)*time.Second, onInactive).TCPClientApply(&cfg)
	mon := cfg.CreateInactivityMonitor()
	cc := tcpClient.NewConnWithOpts(coapNet.NewConn(nc), &cfg, tcpClient.WithInactivityMonitor(mon))
	signals := make(chan codes.Code, 256)
	cc.SetTCPSignalReceivedHandler(func(code codes.Code) {
		select {
		case signals <- code:
		default:
		}
	})
	runDone := make(chan struct{})
	go func() { _ = cc.Run(); close(runDone) }()
	defer func() {
		_ = cc.Close()
		_ = b.Close()
		_ = a.Close()
		select {
		case <-runDone:
		case <-time.After(10 * time.Second):
		}
	}()
	base := time.Now()
	bad := 0
	tokLen := func() int {
		mpw := reflect.ValueOf(cc).Elem().FieldByName("tokenHandlerContainer").Elem()
		n := -1
		lockSyncMap(mpw, func() { n = mpw.FieldByName("data").Len() })
		return n
	}
	feed := func(frame []byte, want codes.Code) bool {
		_ = b.SetWriteDeadline(time.Now().Add(c13KaWait))
		if _, err := b.Write(frame); err != nil {
			return false
		}
		deadline := time.After(c13KaWait)
		for {
			select {
			case got := <-signals:
				if got == want {
					return true
				}
			case <-deadline:
				return false
			}
		}
	}
	var steps []string
	ticks := 0
	outstanding := 0 // generation of the ping the keep-alive waits for (script's own bookkeeping)
	peerTok := byte(0)
	emit := func(ev string, eff int) {
		cl := "false"
		if closed.Load() {
			cl = "true"
		}
		steps = append(steps, fmt.Sprintf("KO (%s) %d %d %s", ev, eff, tokLen(), cl))
	}
	for _, op := range ops {
		if closed.Load() || bad != 0 {
			break // the connection was given up: nothing more is delivered to it
		}
		f := strings.Split(op, ":")
		switch f[0] {
		case "t":
			ticks++
			before := nc.npings()
			func() {
				defer func() {
					if r := recover(); r != nil {
						bad++
					}
				}()
				cc.CheckExpirations(base.Add(time.Duration(ticks) * time.Hour))
			}()
			eff := 0
			switch {
			case nc.npings() > before:
				eff = 1
				outstanding = nc.npings()
			case closed.Load():
				eff = 2
				outstanding = 0
			}
			emit(fmt.Sprintf("KM.Tick %d true", 3600*ticks), eff)
		case "m":
			if !feed([]byte{0x00, byte(codes.CSM)}, codes.CSM) {
				bad++
			}
			emit("KM.Recv 0", 4)
		case "q":
			peerTok++
			if !feed([]byte{0x01, byte(codes.Ping), peerTok}, codes.Ping) {
				bad++
			}
			emit("KM.Recv 0", 4)
		case "p", "po":
			g := nc.npings()
			if f[0] == "po" && len(f) > 1 {
				g, _ = strconv.Atoi(f[1])
			}
			tok := nc.token(g)
			if tok == nil {
				tok = []byte{0xC1, 0x3A, 0x00, byte(g)} // a token no ping carried
			}
			frame := append([]byte{byte(len(tok)), byte(codes.Pong)}, tok...)
			if !feed(frame, codes.Pong) {
				bad++
			}
			eff := 4
			if g != 0 && g == outstanding {
				eff = 3
				outstanding = 0
			}
			emit(fmt.Sprintf("KM.Pong %d 0", g), eff)
		}
	}
	return fmt.Sprintf("KaTcp %d %d [%s]", mr, bad, strings.Join(steps, "; ")), bad == 0
}

func genC13Ka(rng *Rng) string {
	mr := rng.Pick([]int{1, 2, 3, 5, 5, 8})
	n := 4 + rng.Intn(14)
	var ops []string
	np := 0
	for i := 0; i < n; i++ {
		switch rng.Intn(10) {
		case 0, 1, 2, 3:
			ops = append(ops, "t")
			np++
		case 4, 5:
			ops = append(ops, "m")
		case 6:
			ops = append(ops, "q")
		case 7, 8:
			ops = append(ops, "p")
		default:
			ops = append(ops, fmt.Sprintf("po:%d", rng.Intn(np+2)))
		}
	}
	return c13KaDesc(mr, ops)
}
