package main

// C20, handlers that call SetResponse SEVERAL times on one response writer (hx C20S, Coq NoResp/SeqRun.v).
//
// Family SW: a real responsewriter over a real pool.Message and generated request options; 1..5 SetResponse
// attempts (code, options, body or nil reader); observed: what every call returned and the response message
// afterwards (modified flag, code, options, body length + checksum).
// Family SH: histories of 1..3 request datagrams (CON/NON, retransmitted copies) on the in-memory
// udp/client.Conn whose handler makes the attempts; observed: handler called, what every call returned, the
// datagrams written.  No timing: every datagram is followed by the barrier request (c20bSync); a barrier that
// does not arrive within the first patience makes the history re-run with 120 s patience.

import (
	"bytes"
	"context"
	"fmt"
	"os"
	"sort"
	"strings"
	"time"

	"github.com/plgd-dev/go-coap/v3/message"
	"github.com/plgd-dev/go-coap/v3/message/codes"
	"github.com/plgd-dev/go-coap/v3/message/pool"
	"github.com/plgd-dev/go-coap/v3/net/responsewriter"
	"github.com/plgd-dev/go-coap/v3/udp/client"
)

func init() { props["C20S"] = runC20S }

type c20sAtt struct {
	Code int
	Opts message.Options
	Salt int
	Len  int
}

func (a c20sAtt) desc() string {
	return fmt.Sprintf("%d~%s~%d~%d", a.Code, dashOpts(a.Opts), a.Salt, a.Len)
}

func (a c20sAtt) coq() string {
	return fmt.Sprintf("At %d %s %d %d%%nat", a.Code, coqOpts(a.Opts), a.Salt, a.Len)
}

func c20sAttsDesc(l []c20sAtt) string {
	if len(l) == 0 {
		return "-"
	}
	parts := make([]string, len(l))
	for i, a := range l {
		parts[i] = a.desc()
	}
	return strings.Join(parts, ";")
}

func c20sAttsCoq(l []c20sAtt) string {
	parts := make([]string, len(l))
	for i, a := range l {
		parts[i] = a.coq()
	}
	return "[" + strings.Join(parts, "; ") + "]"
}

func parseC20sAtts(s string) []c20sAtt {
	if s == "-" || s == "" {
		return nil
	}
	var l []c20sAtt
	for _, p := range strings.Split(s, ";") {
		f := strings.Split(p, "~")
		if len(f) < 4 {
			continue
		}
		var a c20sAtt
		fmt.Sscanf(f[0], "%d", &a.Code)
		a.Opts = parseDescOpts(f[1])
		fmt.Sscanf(f[2], "%d", &a.Salt)
		fmt.Sscanf(f[3], "%d", &a.Len)
		l = append(l, a)
	}
	return l
}

func coqBools(b []bool) string {
	parts := make([]string, len(b))
	for i, x := range b {
		parts[i] = coqBool(x)
	}
	return "[" + strings.Join(parts, "; ") + "]"
}

// c20sInteresting: the request carries a No-Response value with some but not all of the bits 2/8/16, and an
// attempt of a suppressed class is followed by one of a class that is of interest.
func c20sInteresting(reqopts message.Options, l []c20sAtt) bool {
	_, _, err := reqopts.Find(message.NoResponse)
	if err != nil {
		return false
	}
	v, err := reqopts.GetUint32(message.NoResponse)
	if err != nil || v&26 == 0 || v&26 == 26 {
		return false
	}
	sup := func(code int) bool {
		switch code >> 5 {
		case 2:
			return v&2 != 0
		case 4:
			return v&8 != 0
		case 5:
			return v&16 != 0
		}
		return false
	}
	seenSup := false
	for _, a := range l {
		if sup(a.Code) {
			seenSup = true
		} else if seenSup {
			return true
		}
	}
	return false
}

func c20sDo[C responsewriter.Client](w *responsewriter.ResponseWriter[C], a c20sAtt) (refused bool) {
	defer func() {
		if recover() != nil {
			refused = true
		}
	}()
	var err error
	if a.Len > 0 {
		err = w.SetResponse(codes.Code(a.Code), message.TextPlain, bytes.NewReader(genBody(a.Salt, a.Len)), a.Opts...)
	} else {
		err = w.SetResponse(codes.Code(a.Code), message.TextPlain, nil, a.Opts...)
	}
	return err != nil
}

// ---- family SW ----

func runC20SW(reqopts message.Options, code0 int, l []c20sAtt) (string, string) {
	resp := pool.NewMessage(context.Background())
	resp.SetCode(codes.Code(code0))
	resp.SetModified(false)
	w := responsewriter.New[nopClient](resp, nopClient{}, reqopts...)
	refs := make([]bool, len(l))
	for i, a := range l {
		refs[i] = c20sDo(w, a)
	}
	m := w.Message()
	body, _ := m.ReadBody()
	coq := fmt.Sprintf("SW %s %d %s %s %s %d %s %d %d", coqOpts(reqopts), code0, c20sAttsCoq(l), coqBools(refs), coqBool(m.IsModified()),
		int(m.Code()), coqOpts(m.Options()), len(body), csum(body))
	return coq, fmt.Sprintf("sw %d %s %s", code0, dashOpts(reqopts), c20sAttsDesc(l))
}

// ---- family SH ----

type c20sEv struct {
	Typ, MID int
	Tok      []byte
	Code     int
	Opts     message.Options
	Atts     []c20sAtt
}

func (e c20sEv) desc() string {
	return fmt.Sprintf("%d:%d:%x:%d:%s:%s", e.Typ, e.MID, e.Tok, e.Code, dashOpts(e.Opts), c20sAttsDesc(e.Atts))
}

func parseC20sEv(s string) c20sEv {
	f := strings.Split(s, ":")
	var e c20sEv
	if len(f) < 6 {
		return e
	}
	fmt.Sscanf(f[0], "%d", &e.Typ)
	fmt.Sscanf(f[1], "%d", &e.MID)
	e.Tok = c05Hex(f[2])
	fmt.Sscanf(f[3], "%d", &e.Code)
	e.Opts = parseDescOpts(f[4])
	e.Atts = parseC20sAtts(f[5])
	return e
}

func c20sHDesc(getMID int32, evs []c20sEv) string {
	parts := make([]string, len(evs))
	for i, e := range evs {
		parts[i] = e.desc()
	}
	return fmt.Sprintf("sh %d|%s", getMID, strings.Join(parts, " "))
}

func runC20SHistory(getMID int32, evs []c20sEv, patience time.Duration) (string, bool) {
	mc := newMemConn(memConnOpts{getMID: getMID, queueSize: 16, maxRetransmit: 4})
	defer mc.close()
	own0 := mc.cc.VerifMsgID()
	for _, e := range evs {
		mc.avoidMID[e.MID] = true
	}
	var sb strings.Builder
	fmt.Fprintf(&sb, "SHist %d [", own0)
	ok := true
	for i, e := range evs {
		if i > 0 {
			sb.WriteString("; ")
		}
		ev := e
		var calls [][]bool
		mc.mu.Lock()
		mc.behave = func(w *responsewriter.ResponseWriter[*client.Conn], r *pool.Message) {
			refs := make([]bool, len(ev.Atts))
			for k, a := range ev.Atts {
				refs[k] = c20sDo(w, a)
			}
			calls = append(calls, refs) // single dispatch goroutine; read after the barrier
		}
		mc.mu.Unlock()
		if mc.inject(encodeWire(e.Typ, e.Code, e.MID, e.Tok, e.Opts, nil)) != 0 {
			ok = false
		}
		if !c20bSync(mc, patience) {
			ok = false
		}
		mc.takeLog()
		out := mc.takeOut()
		called := len(calls) > 0
		var refs []bool
		switch len(calls) {
		case 0:
		case 1:
			refs = calls[0]
		default:
			refs = append(append([]bool{}, calls[0]...), true, true, true, true, true, true) // called twice: never agrees
		}
		fmt.Fprintf(&sb, "SReq %d %d %s %d %s %s %s %s %s", e.Typ, e.MID, coqBytes(e.Tok), e.Code, coqOpts(e.Opts), c20sAttsCoq(e.Atts),
			coqBool(called), coqBools(refs), coqWireObs(out))
	}
	sb.WriteString("]")
	return sb.String(), ok
}

// ---- generators ----

type c20sGen struct{ rng *Rng }

var c20sCodes2 = []int{64, 65, 66, 67, 68, 69, 95}
var c20sCodes4 = []int{128, 129, 132, 133, 141, 143, 159}
var c20sCodes5 = []int{160, 161, 163, 165, 191}
var c20sCodesOther = []int{96, 100, 192, 200, 224, 255}

func (g *c20sGen) code() int {
	switch g.rng.Intn(10) {
	case 0, 1, 2:
		return c20sCodes2[g.rng.Intn(len(c20sCodes2))]
	case 3, 4, 5:
		return c20sCodes4[g.rng.Intn(len(c20sCodes4))]
	case 6, 7, 8:
		return c20sCodes5[g.rng.Intn(len(c20sCodes5))]
	}
	return c20sCodesOther[g.rng.Intn(len(c20sCodesOther))]
}

func (g *c20sGen) respOpts() message.Options {
	var o message.Options
	for _, id := range []int{4, 8, 14, 20} {
		if g.rng.Chance(20) {
			val := make([]byte, 1+g.rng.Intn(3))
			for k := range val {
				val[k] = byte(1 + g.rng.Intn(255))
			}
			o = append(o, message.Option{ID: message.OptionID(id), Value: val})
		}
	}
	return o
}

func (g *c20sGen) atts(n int) []c20sAtt {
	l := make([]c20sAtt, n)
	for i := range l {
		l[i] = c20sAtt{Code: g.code(), Opts: g.respOpts()}
		if g.rng.Chance(40) {
			l[i].Salt, l[i].Len = g.rng.Intn(200), 1+g.rng.Intn(40)
		}
	}
	return l
}

// request options of a datagram for the connection: Uri-Path and a No-Response option of 0..1 bytes
func (g *c20sGen) wireReqOpts() message.Options {
	o := message.Options{{ID: message.URIPath, Value: []byte{byte('a' + g.rng.Intn(26))}}}
	if g.rng.Chance(85) {
		vals := []int{2, 8, 16, 10, 18, 24, 26, 0, 1, 3, 127}
		v := vals[g.rng.Intn(len(vals))]
		if g.rng.Chance(10) {
			v = g.rng.Intn(256)
		}
		if v == 0 && g.rng.Chance(50) {
			o = append(o, message.Option{ID: message.NoResponse, Value: []byte{}})
		} else {
			o = append(o, message.Option{ID: message.NoResponse, Value: []byte{byte(v)}})
		}
	}
	return o
}

// request options for the writer alone: other options, No-Response of 0..5 bytes, possibly repeated
func (g *c20sGen) rwReqOpts() message.Options {
	var opts message.Options
	otherIDs := []int{1, 3, 11, 11, 12, 15, 17, 23, 27, 35, 60, 259, 300, 2048}
	for j := g.rng.Intn(4); j > 0; j-- {
		val := make([]byte, g.rng.Intn(3))
		for k := range val {
			val[k] = byte(g.rng.U64())
		}
		opts = append(opts, message.Option{ID: message.OptionID(otherIDs[g.rng.Intn(len(otherIDs))]), Value: val})
	}
	if g.rng.Chance(88) {
		n := 1
		if g.rng.Chance(10) {
			n = 2
		}
		for k := 0; k < n; k++ {
			ln := []int{0, 1, 1, 1, 1, 1, 2, 3, 4, 5}[g.rng.Intn(10)]
			val := make([]byte, ln)
			for q := range val {
				val[q] = byte(g.rng.U64())
			}
			if ln >= 1 && g.rng.Chance(75) {
				val[ln-1] = byte([]int{2, 8, 16, 10, 18, 24, 26, 0}[g.rng.Intn(8)])
			}
			opts = append(opts, message.Option{ID: message.NoResponse, Value: val})
		}
	}
	sort.SliceStable(opts, func(x, y int) bool { return opts[x].ID < opts[y].ID })
	return opts
}

func runC20S(a runArgs) error {
	e := NewEmitter("C20S", "NoResp.SeqRun")
	e.Preamble = "From GoCoap Require Import Base.Bytes Dedup.Model Dedup.Spec NoResp.SeqModel."
	e.ShardSize = 150
	e.Rule = "response writers over generated request options (No-Response of 0..5 bytes, repeated, other options) on which SetResponse is called 1..5 times (codes of classes 2/4/5 and others, with/without body and options); histories of 1..3 request datagrams (CON/NON, retransmitted copies) on a real udp/client.Conn whose handler makes 0..4 SetResponse attempts. Distinct = distinct case; non-trivial = the request carries a No-Response value with some but not all of the bits 2/8/16 and an attempt of a suppressed class is followed by one of a class that is of interest."
	rng := NewRng(a.seed ^ 0xc205)
	g := &c20sGen{rng: rng}

	firstPatience := 5 * time.Second
	if v := os.Getenv("HX_C20B_PATIENCE_US"); v != "" {
		var us int
		fmt.Sscanf(v, "%d", &us)
		firstPatience = time.Duration(us) * time.Microsecond
	}
	emitSW := func(reqopts message.Options, code0 int, l []c20sAtt, fam string) {
		coq, desc := runC20SW(reqopts, code0, l)
		e.Add(coq, desc, c20sInteresting(reqopts, l), "family=SW-"+fam, fmt.Sprintf("attempts%d", len(l)))
	}
	emitSH := func(getMID int32, evs []c20sEv, fam string) {
		txt, ok := runC20SHistory(getMID, evs, firstPatience)
		if !ok {
			e.Hist["slow_rerun"]++
			txt, ok = runC20SHistory(getMID, evs, 120*time.Second)
		}
		if !ok {
			e.Hist["barrier_timeout"]++ // the connection stopped dispatching: reported as observed
		}
		nontriv := false
		for _, ev := range evs {
			if c20sInteresting(ev.Opts, ev.Atts) {
				nontriv = true
			}
		}
		e.Add(txt, c20sHDesc(getMID, evs), nontriv, "family=SH-"+fam, fmt.Sprintf("len%02d", len(evs)))
	}

	if a.only != "" {
		switch {
		case strings.HasPrefix(a.only, "sw "):
			f := strings.Fields(a.only)
			if len(f) >= 4 {
				var code0 int
				fmt.Sscanf(f[1], "%d", &code0)
				emitSW(parseDescOpts(f[2]), code0, parseC20sAtts(f[3]), "replay")
			}
		case strings.HasPrefix(a.only, "sh "):
			parts := strings.SplitN(strings.TrimPrefix(a.only, "sh "), "|", 2)
			var getMID int32
			fmt.Sscanf(parts[0], "%d", &getMID)
			var evs []c20sEv
			if len(parts) > 1 {
				for _, s := range strings.Fields(parts[1]) {
					evs = append(evs, parseC20sEv(s))
				}
			}
			emitSH(getMID, evs, "replay")
		}
		return e.Flush(a.out)
	}

	nSW, nSH := 900, 160
	if a.tier == "thorough" {
		nSW, nSH = 15000, 3000
	}

	// canonical witnesses: No-Response v, first an attempt of a class v suppresses, then one of a class it does not
	// (and the other way round, and three attempts), on the writer and over the connection (CON and NON)
	type pair struct{ v, first, second int }
	var pairs []pair
	for _, v := range []int{2, 8, 16, 10, 18, 24} {
		cls := map[int]int{2: 69, 8: 132, 16: 160}
		var supC, okC []int
		for _, b := range []int{2, 8, 16} {
			if v&b != 0 {
				supC = append(supC, cls[b])
			} else {
				okC = append(okC, cls[b])
			}
		}
		for _, s := range supC {
			for _, o := range okC {
				pairs = append(pairs, pair{v, s, o})
			}
		}
	}
	mid := 0x5100
	for _, p := range pairs {
		ro := message.Options{{ID: message.URIPath, Value: []byte("seed")}, {ID: message.NoResponse, Value: []byte{byte(p.v)}}}
		seqs := [][]c20sAtt{
			{{Code: p.first}, {Code: p.second}},
			{{Code: p.second}, {Code: p.first}},
			{{Code: p.first}, {Code: p.first}, {Code: p.second, Salt: 3, Len: 5}},
			{{Code: p.first}, {Code: p.second}, {Code: p.first}},
			{{Code: p.first}, {Code: 100}},
		}
		for _, l := range seqs {
			emitSW(ro, 0, l, "canon")
			for _, typ := range []int{0, 1} {
				mid++
				emitSH(4096, []c20sEv{{Typ: typ, MID: mid, Tok: []byte{0xc2, 0x05, byte(p.v)}, Code: 1 + (mid & 1), Opts: ro, Atts: l}}, "canon")
			}
		}
	}

	for i := 0; i < nSW; i++ {
		code0 := 0
		if rng.Chance(20) {
			code0 = g.code()
		}
		emitSW(g.rwReqOpts(), code0, g.atts(1+rng.Intn(5)), "random")
	}
	for i := 0; i < nSH; i++ {
		n := 1 + rng.Intn(3)
		evs := make([]c20sEv, 0, n)
		base := 0x2000 + rng.Intn(0x1000)
		for j := 0; j < n; j++ {
			if j > 0 && rng.Chance(25) {
				// retransmitted copy of an earlier datagram (answered from the response cache; other attempts scripted)
				c := evs[rng.Intn(len(evs))]
				c.Atts = g.atts(rng.Intn(3))
				evs = append(evs, c)
				continue
			}
			tok := make([]byte, 1+rng.Intn(8))
			for k := range tok {
				tok[k] = byte(rng.U64())
			}
			tok[0] = 0xc2 // never the barrier token
			evs = append(evs, c20sEv{Typ: rng.Intn(2), MID: base + j*7, Tok: tok, Code: 1 + rng.Intn(5), Opts: g.wireReqOpts(), Atts: g.atts(rng.Intn(5))})
		}
		emitSH(int32(rng.Intn(65536)), evs, "random")
	}
	return e.Flush(a.out)
}
