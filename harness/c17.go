package main

// C17: mux.Router dispatches to a longest matching route, else the default.
// Runs the REAL Router (Handle / HandleRemove / DefaultHandle / Use / ServeCOAP)
// with recording handlers and middlewares and writes what happened.

import (
	"bytes"
	"context"
	"encoding/json"
	"fmt"
	"io"
	"os"
	"os/exec"
	"sort"
	"strconv"
	"strings"
	"sync"
	"sync/atomic"
	"time"

	"github.com/plgd-dev/go-coap/v3/message"
	"github.com/plgd-dev/go-coap/v3/message/codes"
	"github.com/plgd-dev/go-coap/v3/message/pool"
	"github.com/plgd-dev/go-coap/v3/mux"
)

func init() { props["C17"] = runC17 }

// ---- recording writer / handlers ----

type c17Writer struct{ trace []string }

func (w *c17Writer) SetResponse(code codes.Code, _ message.MediaType, _ io.ReadSeeker, _ ...message.Option) error {
	// only the built-in default handler of NewRouter answers through the writer
	if code == codes.NotFound {
		w.trace = append(w.trace, "Hd 0")
	} else {
		w.trace = append(w.trace, "Hd (-2)")
	}
	return nil
}
func (w *c17Writer) Conn() mux.Conn           { return nil }
func (w *c17Writer) SetMessage(*pool.Message) {}
func (w *c17Writer) Message() *pool.Message   { return nil }
func c17Handler(id int) mux.Handler {
	return mux.HandlerFunc(func(w mux.ResponseWriter, _ *mux.Message) {
		cw := w.(*c17Writer)
		cw.trace = append(cw.trace, fmt.Sprintf("Hd %d", id))
	})
}
func c17Middleware(id int, pass bool) mux.MiddlewareFunc {
	return func(next mux.Handler) mux.Handler {
		return mux.HandlerFunc(func(w mux.ResponseWriter, r *mux.Message) {
			cw := w.(*c17Writer)
			cw.trace = append(cw.trace, fmt.Sprintf("MwIn %d", id))
			if pass {
				next.ServeCOAP(w, r)
			}
			cw.trace = append(cw.trace, fmt.Sprintf("MwOut %d", id))
		})
	}
}

// ---- inputs ----

type c17Op struct {
	K string `json:"k"` // H handle, R remove, D default
	P string `json:"p,omitempty"`
	H int    `json:"h"` // handler id; -1 = nil handler
}
type c17Mw struct {
	ID   int  `json:"i"`
	Pass bool `json:"c"`
}
type c17Disp struct {
	Ops  []c17Op    `json:"ops"`
	Mws  []c17Mw    `json:"mws"`
	Reqs [][]string `json:"reqs"` // nil = no Uri-Path option at all
}

func coqStr(s string) string { return coqBytes([]byte(s)) }

func coqStrList(l []string) string {
	p := make([]string, len(l))
	for i, s := range l {
		p[i] = coqStr(s)
	}
	return "[" + strings.Join(p, "; ") + "]"
}

func (o c17Op) coq() string {
	h := "None"
	if o.H >= 0 {
		h = fmt.Sprintf("(Some %d)", o.H)
	}
	switch o.K {
	case "H":
		return fmt.Sprintf("OHandle %s %s", coqStr(o.P), h)
	case "R":
		return fmt.Sprintf("ORemove %s", coqStr(o.P))
	}
	return "ODefault " + h
}

// apply runs one operation on the real router; 0 nil error, 1 error, 2 panic
func (o c17Op) apply(r *mux.Router) (code int) {
	defer func() {
		if recover() != nil {
			code = 2
		}
	}()
	var err error
	switch o.K {
	case "H":
		if o.H < 0 {
			err = r.Handle(o.P, nil)
		} else {
			err = r.Handle(o.P, c17Handler(o.H))
		}
	case "R":
		err = r.HandleRemove(o.P)
	default:
		if o.H < 0 {
			r.DefaultHandle(nil)
		} else {
			r.DefaultHandle(c17Handler(o.H))
		}
	}
	if err != nil {
		return 1
	}
	return 0
}

// request built from Uri-Path options, surrounded by other options so that
// Options.Path has to find the run
func c17Request(segs []string, salt int) *mux.Message {
	m := pool.NewMessage(context.Background())
	m.SetCode(codes.GET)
	var opts message.Options
	if salt%3 == 1 {
		opts = append(opts, message.Option{ID: message.URIHost, Value: []byte("h")})
	}
	if salt%2 == 1 {
		opts = append(opts, message.Option{ID: message.ETag, Value: []byte{1, 2}})
	}
	for _, s := range segs {
		opts = append(opts, message.Option{ID: message.URIPath, Value: []byte(s)})
	}
	if salt%5 >= 2 {
		opts = append(opts, message.Option{ID: message.ContentFormat, Value: []byte{0}})
		opts = append(opts, message.Option{ID: message.URIQuery, Value: []byte("a/b=c")})
	}
	m.ResetOptionsTo(opts)
	return &mux.Message{Message: m, RouteParams: new(mux.RouteParams)}
}

func c17Params(rp *mux.RouteParams) string {
	if rp == nil || (rp.Vars == nil && rp.PathTemplate == "" && rp.Path == "") {
		return "None"
	}
	keys := make([]string, 0, len(rp.Vars))
	for k := range rp.Vars {
		keys = append(keys, k)
	}
	sort.Strings(keys)
	kv := make([]string, len(keys))
	for i, k := range keys {
		kv[i] = fmt.Sprintf("(%s, %s)", coqStr(k), coqStr(rp.Vars[k]))
	}
	return fmt.Sprintf("Some (%s, %s, [%s])", coqStr(rp.Path), coqStr(rp.PathTemplate), strings.Join(kv, "; "))
}

// serve one request on the real router; returns the Coq text of the observation
func c17Serve(r *mux.Router, segs []string, salt int) (obs string, template string) {
	w := &c17Writer{}
	req := c17Request(segs, salt)
	func() {
		defer func() {
			if recover() != nil {
				w.trace = append(w.trace, "Hd (-1)")
			}
		}()
		r.ServeCOAP(w, req)
	}()
	return fmt.Sprintf("(%s, [%s], %s)", coqStrList(segs), strings.Join(w.trace, "; "), c17Params(req.RouteParams)), req.RouteParams.PathTemplate
}

type c17Stats struct {
	toRoute, toDefault, okRoutes int
}

func c17RunDisp(d c17Disp) (coq string, st c17Stats) {
	r := mux.NewRouter()
	r.SetErrorHandler(func(error) {})
	ops := make([]string, len(d.Ops))
	live := map[string]bool{}
	for i, o := range d.Ops {
		code := o.apply(r)
		ops[i] = fmt.Sprintf("(%s, %d)", o.coq(), code)
		if code == 0 && o.K == "H" {
			live[mux.FilterPath(o.P)] = true
		}
		if code == 0 && o.K == "R" {
			delete(live, mux.FilterPath(o.P))
		}
	}
	st.okRoutes = len(live)
	mws := make([]string, len(d.Mws))
	// registration order must be kept whether the middlewares are passed one per Use call or several in one
	// variadic call: alternate deterministically between the two (and a mixed) way
	var group []mux.MiddlewareFunc
	flush := func() {
		if len(group) > 0 {
			r.Use(group...)
			group = nil
		}
	}
	mode := (len(d.Mws) + len(d.Reqs) + len(d.Ops)) % 3
	for i, m := range d.Mws {
		group = append(group, c17Middleware(m.ID, m.Pass))
		if mode == 0 || (mode == 2 && i == 0) {
			flush()
		}
		mws[i] = fmt.Sprintf("(%d, %s)", m.ID, coqBool(m.Pass))
	}
	flush()
	reqs := make([]string, len(d.Reqs))
	for i, segs := range d.Reqs {
		var tmpl string
		reqs[i], tmpl = c17Serve(r, segs, i)
		if tmpl != "" {
			st.toRoute++
		} else {
			st.toDefault++
		}
	}
	return fmt.Sprintf("Disp [%s] [%s] [%s]", strings.Join(ops, "; "), strings.Join(mws, "; "), strings.Join(reqs, ";\n    ")), st
}

func c17RunReg(pat string) (string, int) {
	r := mux.NewRouter()
	code := c17Op{K: "H", P: pat, H: 1}.apply(r)
	src := ""
	if code == 0 {
		if rt := r.GetRoute(pat); rt != nil {
			src, _ = rt.GetRouteRegexp()
		}
	}
	return fmt.Sprintf("Reg %s %d %s", coqStr(pat), code, coqStr(src)), code
}

// ---- generators ----

type c17Piece struct {
	text    string   // template text
	samples []string // path texts that should match (for a literal: itself)
	isVar   bool
}

var c17Lits = []string{"a", "b", "ab", "abc", "x", "1", "a.b", ".", "a+", "+", "*", "a*", "?", "(a)", "(", ")", "[a]", "]", "[", "^a", "$", "a|b", "|", "\\", "\\d", "a-b", "_", "~", ".*", "[^/]+", "a$", "^"}

var c17Vars = []c17Piece{
	{"{v}", []string{"a", "ab", "a.b", "12", "{x}", "+"}, true},
	{"{id}", []string{"7", "abc", "b"}, true},
	{"{v:[0-9]+}", []string{"1", "12", "007"}, true},
	{"{n:[0-9]+}", []string{"3", "42"}, true},
	{"{v:[a-z]*}", []string{"", "a", "abc"}, true},
	{"{v:[a-z]+}", []string{"a", "ab", "xyz"}, true},
	{"{v:(?:ab|a)}", []string{"a", "ab"}, true},
	{"{v:(?:a|ab)}", []string{"a", "ab"}, true},
	{"{w:b?}", []string{"", "b"}, true},
	{"{w:b*}", []string{"", "b", "bb"}, true},
	{"{v:.+}", []string{"a", "a/b", "a/b/c", "/"}, true},
	{"{v:.*}", []string{"", "a", "a/b"}, true},
	{"{n:[0-9]{2}}", []string{"12", "00"}, true},
	{"{n:[0-9]{1,2}}", []string{"1", "12"}, true},
	{"{v:a{2,}}", []string{"aa", "aaa", "aaaa"}, true},
	{"{v:a|b}", []string{"a", "b"}, true},
	{"{v:\\d+}", []string{"5", "55"}, true},
	{"{v:[^/]*}", []string{"", "a", "a.b"}, true},
	{"{v:[^/]+}", []string{"a", "ab"}, true},
	{"{v:[a-c-]+}", []string{"a-b", "c", "--"}, true},
	{"{v:[.]}", []string{"."}, true},
	{"{v:\\.}", []string{"."}, true},
	{"{v:(?:a|b)*c}", []string{"c", "abc", "bac"}, true},
	{"{v:x{}}", []string{"x{}"}, true},
	{"{v:(?:a|ab)(?:c|bcd)?}", []string{"a", "ab", "abc", "abcd"}, true},
	{"{v:a?}", []string{"", "a"}, true},
	{"{v:[ab]+}", []string{"a", "ab", "abba"}, true},
}

var c17Bad = []string{"{", "}", "a{", "}{", "{}", "{:a}", "{v:}", "{v:[a}", "{v:(a)}", "{v:a**}", "{v:*a}", "{v:(?:a}", "{v:a)}",
	"{v:a{2,1}}", "{v:a{1001}}", "{v:[z-a]}", "{v:a|*}", "{v:\\}", "{v:(a|b)}", "{v:(?:(a))}", "{v:+}", "{v:a{2}{3}}", "{v:a+*}", "{{v}}", "{v}}", "{v:[a-z]+}{", "{v:[}"}

// names may contain anything but ':' and unbalanced braces
var c17OddOk = []string{"{a{b}c}", "{v w}", "{.}", "{v:a:b}", "{v:[:]}"}

func c17GenTemplate(rng *Rng) (text string, pieces []c17Piece) {
	if rng.Chance(4) {
		return "", nil
	}
	nseg := 1 + rng.Intn(3)
	for s := 0; s < nseg; s++ {
		if !(s == 0 && rng.Chance(6)) {
			pieces = append(pieces, c17Piece{"/", []string{"/"}, false})
		}
		np := []int{0, 1, 1, 1, 1, 2, 2, 3}[rng.Intn(8)]
		for j := 0; j < np; j++ {
			switch {
			case rng.Chance(45):
				l := c17Lits[rng.Intn(len(c17Lits))]
				if rng.Chance(60) {
					l = c17Lits[rng.Intn(6)]
				}
				pieces = append(pieces, c17Piece{l, []string{l}, false})
			case rng.Chance(3):
				o := c17OddOk[rng.Intn(len(c17OddOk))]
				pieces = append(pieces, c17Piece{o, []string{"a", "b:"}, true})
			default:
				v := c17Vars[rng.Intn(len(c17Vars))]
				if rng.Chance(50) {
					v = c17Vars[rng.Intn(6)]
				}
				pieces = append(pieces, v)
			}
		}
	}
	if rng.Chance(15) {
		pieces = append(pieces, c17Piece{"/", []string{"/"}, false})
	}
	var sb strings.Builder
	for _, p := range pieces {
		sb.WriteString(p.text)
	}
	return sb.String(), pieces
}

func c17Instantiate(rng *Rng, pieces []c17Piece) string {
	var sb strings.Builder
	for _, p := range pieces {
		sb.WriteString(p.samples[rng.Intn(len(p.samples))])
	}
	return sb.String()
}

var c17Alphabet = []string{"a", "b", "c", "x", "1", "2", "/", "/", ".", "+", "*", "(", ")", "[", "]", "{", "}", "^", "$", "\\", "|", "?", "-", "d"}

func c17Mutate(rng *Rng, p string) string {
	switch rng.Intn(9) {
	case 0:
		return p + "/"
	case 1:
		if len(p) > 0 {
			return p[:len(p)-1]
		}
	case 2:
		return "/x" + p
	case 3: // a metacharacter replaced by an ordinary character: quoting must notice
		for i := 0; i < len(p); i++ {
			if strings.ContainsRune(".+*?()|[]^$\\", rune(p[i])) {
				return p[:i] + "x" + p[i+1:]
			}
		}
	case 4:
		if len(p) > 1 {
			i := 1 + rng.Intn(len(p)-1)
			return p[:i] + string(p[i]) + p[i:]
		}
	case 5:
		return p + c17Alphabet[rng.Intn(len(c17Alphabet))]
	case 6:
		if len(p) > 1 {
			i := 1 + rng.Intn(len(p)-1)
			return p[:i] + p[i+1:]
		}
	case 7:
		if len(p) > 1 {
			i := 1 + rng.Intn(len(p)-1)
			return p[:i] + c17Alphabet[rng.Intn(len(c17Alphabet))] + p[i:]
		}
	}
	return p
}

// a path string (as Options.Path would produce it) -> Uri-Path segments
func c17Segs(rng *Rng, path string) []string {
	if path == "" {
		return nil
	}
	if path[0] != '/' {
		path = "/" + path
	}
	segs := strings.Split(path[1:], "/")
	// the same path from fewer options: a segment containing '/'
	if len(segs) > 1 && rng != nil && rng.Chance(8) {
		i := rng.Intn(len(segs) - 1)
		merged := append([]string{}, segs[:i]...)
		merged = append(merged, segs[i]+"/"+segs[i+1])
		segs = append(merged, segs[i+2:]...)
	}
	return segs
}

func c17RandomPath(rng *Rng) string {
	n := rng.Intn(7)
	var sb strings.Builder
	sb.WriteString("/")
	for i := 0; i < n; i++ {
		sb.WriteString(c17Alphabet[rng.Intn(len(c17Alphabet))])
	}
	return sb.String()
}

func c17GenDisp(rng *Rng) c17Disp {
	var d c17Disp
	nroutes := 1 + rng.Intn(6)
	type reg struct {
		text   string
		pieces []c17Piece
	}
	var regs []reg
	hid := 1
	for i := 0; i < nroutes; i++ {
		var t string
		var ps []c17Piece
		switch {
		case rng.Chance(8):
			t = c17Bad[rng.Intn(len(c17Bad))]
			if rng.Chance(50) {
				t = "/a/" + t
			}
		case len(regs) > 0 && rng.Chance(35):
			// overlap on purpose: a variant of an earlier template (one piece swapped)
			base := regs[rng.Intn(len(regs))]
			ps = append([]c17Piece{}, base.pieces...)
			if len(ps) > 0 {
				j := rng.Intn(len(ps))
				if ps[j].text != "/" {
					if rng.Bool() {
						s := ps[j].samples[rng.Intn(len(ps[j].samples))]
						if !strings.ContainsAny(s, "{}") {
							ps[j] = c17Piece{s, []string{s}, false}
						}
					} else {
						ps[j] = c17Vars[rng.Intn(len(c17Vars))]
					}
				}
			}
			var sb strings.Builder
			for _, p := range ps {
				sb.WriteString(p.text)
			}
			t = sb.String()
		default:
			t, ps = c17GenTemplate(rng)
		}
		h := hid
		hid++
		if rng.Chance(3) {
			h = -1
		}
		d.Ops = append(d.Ops, c17Op{K: "H", P: t, H: h})
		if ps != nil || t == "" {
			regs = append(regs, reg{t, ps})
		}
		if rng.Chance(12) && len(regs) > 0 {
			d.Ops = append(d.Ops, c17Op{K: "R", P: regs[rng.Intn(len(regs))].text})
		}
		if rng.Chance(4) {
			d.Ops = append(d.Ops, c17Op{K: "R", P: "/never"})
		}
		if rng.Chance(10) {
			dh := 1000 + rng.Intn(3)
			if rng.Chance(15) {
				dh = -1
			}
			d.Ops = append(d.Ops, c17Op{K: "D", H: dh})
		}
		if rng.Chance(10) && len(regs) > 0 { // re-register: replaces the handler
			d.Ops = append(d.Ops, c17Op{K: "H", P: regs[rng.Intn(len(regs))].text, H: hid})
			hid++
		}
	}
	nm := []int{0, 0, 1, 2, 2, 3}[rng.Intn(6)]
	for i := 0; i < nm; i++ {
		d.Mws = append(d.Mws, c17Mw{ID: 1 + i, Pass: !rng.Chance(6)})
	}
	nreq := 6 + rng.Intn(5)
	for i := 0; i < nreq; i++ {
		var p string
		switch {
		case len(regs) > 0 && rng.Chance(75):
			p = c17Instantiate(rng, regs[rng.Intn(len(regs))].pieces)
			if rng.Chance(35) {
				p = c17Mutate(rng, p)
			}
		case rng.Chance(10):
			p = ""
		default:
			p = c17RandomPath(rng)
		}
		d.Reqs = append(d.Reqs, c17Segs(rng, p))
	}
	return d
}

var c17SmallT = []string{"/", "/a", "/a/", "/a/b", "/{v}", "/a/{v}", "/{v}/b", "/a.b", "/a{v:[0-9]+}", "/{v:.*}", "/{v}/{w}", "/{v:(?:a|ab)}{w:b?}", "/a+", "a", "/{v}{v:[0-9]*}", "/a{w:/?}"}
var c17SmallP = []string{"", "/", "/a", "/a/", "/a/b", "/b", "/a.b", "/axb", "/a1", "/a12", "/ab", "/abb", "/a+", "/aa", "/a/b/c", "//", "/a//b", "/b/b", "/1"}

// ---- concurrent mutation run ----

type c17Route struct {
	P string `json:"p"`
	H int    `json:"h"`
}

var c17Stable = []c17Route{{"/c/{v}", 1}, {"/c/a", 2}, {"/s/{a}/{b}", 3}, {"/", 4}}
var c17Pool = []c17Route{{"/c/{v:[a-z]+}", 10}, {"/c/{v}/{w}", 11}, {"/{x}/a", 12}, {"/c/a/b", 13}, {"/{all:.*}", 14}, {"/c/{v:[0-9]+}", 15}, {"/s/{a}/x{b:y?}", 16}, {"/{p}", 17}, {"/c/{v:(?:a|ab)}{w:b?}", 18}}
var c17ConcPaths = []string{"/c/a", "/c/a/b", "/c/1", "/d/a", "/", "", "/zzz/q", "/c/ab", "/s/1/xy", "/s/1/2", "/q", "/c/abb/"}

func c17RunConc(seed uint64, dispatchers, mutators, perDispatcher int) (string, int) {
	r := mux.NewRouter()
	r.SetErrorHandler(func(error) {})
	for _, s := range c17Stable {
		if err := r.Handle(s.P, c17Handler(s.H)); err != nil {
			panic(err)
		}
	}
	r.DefaultHandle(c17Handler(1000))
	var stop atomic.Bool
	var wgM, wgD sync.WaitGroup
	var started atomic.Int64
	for m := 0; m < mutators; m++ {
		wgM.Add(1)
		go func(m int) {
			defer wgM.Done()
			rng := NewRng(seed*977 + uint64(m))
			started.Add(1)
			for !stop.Load() {
				p := c17Pool[rng.Intn(len(c17Pool))]
				switch rng.Intn(5) {
				case 0, 1:
					_ = r.Handle(p.P, c17Handler(p.H))
				case 2, 3:
					_ = r.HandleRemove(p.P)
				default:
					r.DefaultHandle(c17Handler(1000 + rng.Intn(2)))
				}
			}
		}(m)
	}
	seen := make([]map[string]bool, dispatchers)
	total := 0
	for d := 0; d < dispatchers; d++ {
		wgD.Add(1)
		seen[d] = map[string]bool{}
		go func(d int) {
			defer wgD.Done()
			rng := NewRng(seed*131 + 7 + uint64(d))
			for i := 0; i < perDispatcher; i++ {
				p := c17ConcPaths[rng.Intn(len(c17ConcPaths))]
				obs, _ := c17Serve(r, c17Segs(nil, p), 0)
				seen[d][obs] = true
			}
		}(d)
	}
	wgD.Wait()
	stop.Store(true)
	wgM.Wait()
	all := map[string]bool{}
	for _, s := range seen {
		for k := range s {
			all[k] = true
		}
	}
	total = dispatchers * perDispatcher
	keys := make([]string, 0, len(all))
	for k := range all {
		keys = append(keys, k)
	}
	sort.Strings(keys)
	rl := func(l []c17Route) string {
		p := make([]string, len(l))
		for i, x := range l {
			p[i] = fmt.Sprintf("(%s, %d)", coqStr(x.P), x.H)
		}
		return "[" + strings.Join(p, "; ") + "]"
	}
	return fmt.Sprintf("Conc %s %s 1000 1001 [%s]", rl(c17Stable), rl(c17Pool), strings.Join(keys, ";\n    ")), total
}

// The free-running concurrent run is executed in a child process (the same
// binary, --only "concchild <seed> <n>"): when the route table is accessed
// without the router's lock the Go runtime does not panic, it ABORTS the process
// ("fatal error: concurrent map iteration and map write"), which no recover()
// can turn into an observation.  The abort of the child is the observation here.
func c17ConcSafe(seed uint64, per int) (string, int) {
	rl := func(l []c17Route) string {
		p := make([]string, len(l))
		for i, x := range l {
			p[i] = fmt.Sprintf("(%s, %d)", coqStr(x.P), x.H)
		}
		return "[" + strings.Join(p, "; ") + "]"
	}
	exe, err := os.Executable()
	if err != nil {
		return c17RunConc(seed, 4, 3, per)
	}
	ctx, cancel := context.WithTimeout(context.Background(), 30*time.Minute)
	defer cancel()
	cmd := exec.CommandContext(ctx, exe, "C17", "--out", "-", "--only", fmt.Sprintf("concchild %d %d", seed, per))
	var out, errb bytes.Buffer
	cmd.Stdout, cmd.Stderr = &out, &errb
	if err := cmd.Start(); err != nil {
		return c17RunConc(seed, 4, 3, per)
	}
	if err := cmd.Wait(); err != nil {
		kind := 2
		if strings.Contains(errb.String(), "fatal error: concurrent map") {
			kind = 1
		}
		fmt.Fprintf(os.Stderr, "C17 conc child: %v\n%s\n", err, firstLines(errb.String(), 6))
		return fmt.Sprintf("ConcAbort %s %s %d", rl(c17Stable), rl(c17Pool), kind), 0
	}
	parts := strings.SplitN(out.String(), "\n", 2)
	total, _ := strconv.Atoi(parts[0])
	if len(parts) != 2 || !strings.HasPrefix(parts[1], "Conc ") {
		return fmt.Sprintf("ConcAbort %s %s 2", rl(c17Stable), rl(c17Pool)), 0
	}
	return parts[1], total
}

func firstLines(s string, n int) string {
	l := strings.Split(s, "\n")
	if len(l) > n {
		l = l[:n]
	}
	return strings.Join(l, "\n")
}

// ---- driver ----

func runC17(a runArgs) error {
	e := NewEmitter("C17", "Router.Run")
	e.ShardSize = 60
	e.Preamble = "From GoCoap Require Import Router.Model."
	e.Rule = "mux.Router on fresh routers: (reg) Handle of one template with result and compiled regexp text; (disp) operation sequences Handle/HandleRemove/DefaultHandle + middlewares, then requests built from Uri-Path options through ServeCOAP with recording handlers; (conc) dispatch while goroutines add/remove routes; (hist) histories on one router: operations and requests interleaved, the same paths sent again after later Handle/HandleRemove/DefaultHandle; (adapt) such histories with every request sent through mux.ToHandler(router), RouteParams recorded as the first middleware / the handler sees them; (reuse/nest) such histories in which all requests are ONE mux.Message with ONE RouteParams object whose Uri-Path options are replaced between dispatches, the first one optionally entering through an outer router whose handler strips a prefix and calls the router; (excl) one request whose scan is observed route by route (hook verifScanPoint): lock probed at every visit, Handle/HandleRemove/DefaultHandle issued by another goroutine while the scan is parked at its k-th route. Distinct = distinct descriptor; non-trivial = a disp case with at least two live routes in which at least one request reached a registered route, a reg case that compiled, or a hist case in which some path was answered by a different route (or default instead of a route, or vice versa) than when it was sent before the operations in between, an adapt case in which a request followed one whose route had a variable name that its own route has not, a reuse/nest case in which a dispatch to a route was handed a RouteParams whose recorded Path differs from the path the message has now, every excl case."
	rng := NewRng(a.seed)
	addDisp := func(d c17Disp, tag string) {
		coq, st := c17RunDisp(d)
		b, _ := json.Marshal(d)
		buckets := []string{tag, fmt.Sprintf("live-routes-%d", st.okRoutes), fmt.Sprintf("mws-%d", len(d.Mws))}
		e.Extra["dispatches"] = toInt(e.Extra["dispatches"]) + len(d.Reqs)
		e.Extra["dispatched_to_route"] = toInt(e.Extra["dispatched_to_route"]) + st.toRoute
		e.Extra["dispatched_to_default"] = toInt(e.Extra["dispatched_to_default"]) + st.toDefault
		e.AddW(coq, "disp "+string(b), st.okRoutes >= 2 && st.toRoute > 0, 1+len(d.Reqs)/2, buckets...)
	}
	addReg := func(p string, tag string) {
		coq, code := c17RunReg(p)
		e.Add(coq, "reg "+p, code == 0, tag, fmt.Sprintf("reg-result-%d", code))
	}
	if a.only != "" {
		switch {
		case strings.HasPrefix(a.only, "reg "):
			addReg(strings.TrimPrefix(a.only, "reg "), "reg")
		case strings.HasPrefix(a.only, "disp "):
			var d c17Disp
			if err := json.Unmarshal([]byte(strings.TrimPrefix(a.only, "disp ")), &d); err != nil {
				return err
			}
			if len(d.Reqs) <= 1 {
				addDisp(d, "disp")
			} else { // refine: one request per case
				for _, q := range d.Reqs {
					addDisp(c17Disp{Ops: d.Ops, Mws: d.Mws, Reqs: [][]string{q}}, "disp")
				}
			}
		case strings.HasPrefix(a.only, "hist "):
			h, err := c17ParseHist(a.only)
			if err != nil {
				return err
			}
			coq, st := c17RunHist(h)
			e.AddW(coq, h.desc(), st.switches > 0, 1+st.reqs/2, "hist")
		case strings.HasPrefix(a.only, "adapt "):
			h, err := c17ParseHist("hist " + strings.TrimPrefix(a.only, "adapt "))
			if err != nil {
				return err
			}
			coq, st := c17RunAdapt(h)
			e.AddW(coq, h.adaptDesc(), st.uncovered > 0, 1+st.reqs/2, "adapt")
		case strings.HasPrefix(a.only, "reuse "), strings.HasPrefix(a.only, "nest "):
			nested := strings.HasPrefix(a.only, "nest ")
			h, err := c17ParseHist("hist " + strings.TrimPrefix(strings.TrimPrefix(a.only, "reuse "), "nest "))
			if err != nil {
				return err
			}
			coq, st := c17RunReuse(h, nested)
			e.AddW(coq, h.reuseDesc(nested), st.pathChanged > 0, 1+st.reqs/2, "reuse")
		case strings.HasPrefix(a.only, "excl "):
			x, err := c17ParseExcl(a.only)
			if err != nil {
				return err
			}
			if coq, _, _ := c17RunExcl(x, 120*time.Second); coq != "" {
				e.AddW(coq, x.desc(), true, 2, "excl")
			}
		case strings.HasPrefix(a.only, "concchild "):
			// the concurrent run proper, in a process of its own (see c17ConcSafe): result on stdout
			var s uint64
			var per int
			fmt.Sscanf(a.only, "concchild %d %d", &s, &per)
			coq, total := c17RunConc(s, 4, 3, per)
			fmt.Printf("%d\n%s", total, coq)
			return nil
		case strings.HasPrefix(a.only, "conc "):
			var s uint64
			fmt.Sscanf(a.only, "conc %d", &s)
			coq, _ := c17ConcSafe(s, 3000)
			e.AddW(coq, a.only, true, 20, "conc")
		}
		return e.Flush(a.out)
	}
	thorough := a.tier == "thorough"

	// registration: every catalogue entry alone, in a path, and combined
	for _, v := range c17Vars {
		addReg("/"+v.text, "reg-var")
		addReg("/p"+v.text+"q/"+v.text, "reg-var")
	}
	for _, l := range c17Lits {
		addReg("/"+l, "reg-lit")
	}
	for _, b := range c17Bad {
		addReg(b, "reg-bad")
		addReg("/a/"+b+"/b", "reg-bad")
	}
	for _, o := range c17OddOk {
		addReg("/"+o, "reg-odd")
	}
	addReg("", "reg-lit")
	{ // more than ten variables: group names v0..v11
		t := ""
		for i := 0; i < 12; i++ {
			t += fmt.Sprintf("/{a%d}", i)
		}
		addReg(t, "reg-var")
	}
	nreg := 150
	if thorough {
		nreg = 1500
	}
	for i := 0; i < nreg; i++ {
		t, _ := c17GenTemplate(rng)
		if rng.Chance(15) {
			t += c17Bad[rng.Intn(len(c17Bad))]
		}
		addReg(t, "reg-random")
	}

	// exhaustive small: every set of at most 2 (thorough: 3) templates of the small
	// catalogue x every path of the small catalogue
	mk := func(ts []string) {
		d := c17Disp{}
		for i, t := range ts {
			d.Ops = append(d.Ops, c17Op{K: "H", P: t, H: i + 1})
		}
		d.Mws = []c17Mw{{1, true}, {2, true}}
		for _, p := range c17SmallP {
			d.Reqs = append(d.Reqs, c17Segs(nil, p))
		}
		addDisp(d, "exhaustive-small")
	}
	mk(nil)
	for i := range c17SmallT {
		mk([]string{c17SmallT[i]})
		for j := i + 1; j < len(c17SmallT); j++ {
			mk([]string{c17SmallT[i], c17SmallT[j]})
			if thorough {
				for k := j + 1; k < len(c17SmallT); k++ {
					mk([]string{c17SmallT[i], c17SmallT[j], c17SmallT[k]})
				}
			}
		}
	}
	e.Extra["exhaustive_small"] = fmt.Sprintf("all sets of <= %d templates out of %d x %d paths", map[bool]int{false: 2, true: 3}[thorough], len(c17SmallT), len(c17SmallP))

	// path longer than the 32-byte first buffer of Options.Path
	{
		long := "/" + strings.Repeat("abcdefghij", 5)
		d := c17Disp{Ops: []c17Op{{K: "H", P: "/{v}", H: 1}, {K: "H", P: long, H: 2}, {K: "H", P: long + "/{w}", H: 3}},
			Reqs: [][]string{c17Segs(nil, long), c17Segs(nil, long+"/k"), c17Segs(nil, long[:33]), {strings.Repeat("z", 300)}}}
		addDisp(d, "long-path")
	}

	ndisp := 260
	if thorough {
		ndisp = 4000
	}
	for i := 0; i < ndisp; i++ {
		addDisp(c17GenDisp(rng), "random")
	}

	// histories: operations and requests interleaved, the same paths again after later operations
	c17AddHistFamily(e, rng, thorough)

	// the same kind of histories through the adapter mux.ToHandler, RouteParams as the handlers see them
	c17AddAdaptFamily(e, rng.Fork(), thorough)
	// ... and with ONE mux.Message / RouteParams object dispatched again and again (also entered through an outer router)
	c17AddReuseFamily(e, rng.Fork(), thorough)

	// lock discipline witnessed at the scan points of Router.Match
	c17AddExclFamily(e, rng.Fork(), thorough)

	nconc, per := 2, 2500
	if thorough {
		nconc, per = 8, 20000
	}
	for i := 0; i < nconc; i++ {
		s := a.seed*100 + uint64(i)
		coq, total := c17ConcSafe(s, per)
		e.Extra["concurrent_dispatches"] = toInt(e.Extra["concurrent_dispatches"]) + total
		e.AddW(coq, fmt.Sprintf("conc %d", s), true, 20, "conc")
	}
	return e.Flush(a.out)
}
