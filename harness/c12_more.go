package main

// C12, further families: the C13 exchange histories on a pair of real udp connections (P), a tcp
// client against the library's tcp server (N), the library's udp server on a loopback socket (S) and
// the pool itself (Q sequential, R concurrent).

import (
	"context"
	"fmt"
	"os"
	"strconv"
	"strings"
	"sync"
	"time"

	"github.com/plgd-dev/go-coap/v3/message/codes"
	"github.com/plgd-dev/go-coap/v3/message/pool"
)

// c12MaxEvents bounds the length of one emitted trace (a longer list literal overflows coqc's parser stack); a
// longer trace is cut: a prefix of a trace is a trace, and every prefix of an accepted trace is accepted.
const c12MaxEvents = 6000

// c12Emit writes one lifecycle trace as a case. capacity = total capacity of the scenario's pools.
// Besides the caller's buckets it counts, per object life (from hand-out to hand-out), the SHAPE of the life
// (the sequence of event kinds): the notes list the shapes seen against the modelled paths.
func c12Emit(e *c12Out, desc string, capacity int, evs []lcEvent, buckets ...string) {
	if len(evs) > c12MaxEvents {
		evs = evs[:c12MaxEvents]
		buckets = append(buckets, "truncated")
	}
	re, ho := false, false
	lives := map[int][]string{}
	flush := func(o int) {
		if l := lives[o]; len(l) > 0 {
			e.Count("shape:" + strings.Join(l, "."))
		}
		delete(lives, o)
	}
	for _, x := range evs {
		re = re || x.Kind == "Reacq"
		ho = ho || x.Kind == "Hold"
		k := x.Kind
		if (k == "Reacq" || k == "Unhold") && !x.OK {
			k += "!"
		}
		if x.Kind == "Reacq" {
			flush(x.Obj)
			continue
		}
		lives[x.Obj] = append(lives[x.Obj], k)
	}
	for o := range lives {
		flush(o)
	}
	e.AddW(fmt.Sprintf("Trace %d %s", capacity, coqLc(evs)), desc, re && ho, 1+len(evs)/60, buckets...)
}

func emitTraceCap(e *c12Out, tr *poolTracker, desc, fam string, capacity int) {
	evs := tr.take()
	c12Emit(e, desc, capacity, evs, fam, fmt.Sprintf("events<%d", (len(evs)/500+1)*500))
}

// ---------------------------------------------------------------- P: the C13 pair under the tracker

// descriptor: P#<shared>|le=<n>|<ops>   shared = 0: one pool of 256 per connection; k > 0: ONE pool of
// capacity k used by both connections (messages migrate between the connections, releases beyond k are
// dropped by the pool).
func c12Pair(e *c12Out, tr *poolTracker, desc, arg string) {
	i := strings.Index(arg, "|")
	if i < 0 {
		return
	}
	shared, _ := strconv.Atoi(arg[:i])
	le, ops := c13Parse(arg[i+1:])
	var sharedPool *pool.Pool
	capacity := 0
	tr.scenario()
	c13PoolFor = func(string) *pool.Pool {
		if shared > 0 {
			if sharedPool == nil {
				sharedPool = pool.New(uint32(shared), 2048)
				tr.addPool(sharedPool)
				capacity = shared
			}
			return sharedPool
		}
		p := pool.New(256, 2048)
		tr.addPool(p)
		capacity += 256
		return p
	}
	watch := c13Watch
	if c13Watch > 8*time.Second {
		c13Watch = 8 * time.Second // waits of the script end within milliseconds unless the pool is corrupted
	}
	defer func() {
		c13PoolFor = nil
		if c13Watch == 8*time.Second {
			c13Watch = watch // (after a history that hung the runner keeps its own, shorter, watchdog)
		}
	}()
	_, ok, bad := runC13History(le, ops)
	fam := []string{"P"}
	if !ok {
		// the exchange-level expectations of the script are C13's business; here they only tell whether the
		// history ran as scripted
		fam = append(fam, "P:script-flag")
		_ = bad
	}
	evs := tr.take()
	for _, o := range ops {
		fam = append(fam, "P:"+strings.TrimPrefix(strings.Split(o, ":")[0], "D"))
	}
	fam = append(fam, fmt.Sprintf("events<%d", (len(evs)/500+1)*500))
	c12Emit(e, desc, capacity, evs, fam...)
}

var c12PairFixed = [][]string{
	{"get"}, {"Dget"}, {"getbig"}, {"Dup"}, {"up"}, {"updown"}, {"nf"}, {"oneway"}, {"Doneway"}, {"ping"}, {"Dping"},
	{"pinglost:1", "pingcancel:1"}, {"pinglost:1", "tick:300", "tick:300", "tick:300"},
	{"hack:1:0", "cancel:1"}, {"hdrop:1", "rst:1", "cancel:1"},
	{"hdrop:1", "tick:300", "tick:300", "tick:300", "cancel:1"},
	{"hack:1:0", "hack:2:0", "cancel:2", "cancel:1"}, {"hack:1:0", "hack:2:1:1", "cancel:1"}, {"hack:1:0", "hack:2:0", "hack:3:0", "cancel:1"},
	{"obs:ok", "notify:0:3:1", "obscancel:0"}, {"obs:ok", "notify:0:2:0"}, {"obs:no"}, {"obs:nf"}, {"Dobs:ok", "Dnotify:0:2:1", "obscancel:0", "obscancel:0"},
	{"obs:ok", "obscancel:0", "notify:0:2:1"},
	{"bad"}, {"dl"}, {"dldrop"}, {"upab:0"}, {"upab:2"}, {"downab:0"}, {"downab:2"},
	{"getbig", "up", "updown", "tick:100", "getbig"},
}

func c12MoreDescriptors(rng *Rng, thorough bool) []string {
	var ds []string
	// P
	for i, ops := range c12PairFixed {
		le := 1
		if i%3 == 2 {
			le = 0
		}
		shared := 0
		if i%2 == 1 {
			shared = 3 + i%5
		}
		ds = append(ds, fmt.Sprintf("P#%d|%s", shared, c13Desc(le, ops)))
	}
	nP := 40
	if thorough {
		nP = 300
	}
	for i := 0; i < nP; i++ {
		le, ops := genC13History(rng.Fork(), 4+rng.Intn(10))
		shared := 0
		if rng.Chance(50) {
			shared = 2 + rng.Intn(8)
		}
		ds = append(ds, fmt.Sprintf("P#%d|%s", shared, c13Desc(le, ops)))
	}
	if thorough {
		ds = append(ds, "P#6|le=1|Dgetbig", "P#0|le=0|Dgetbig Dup")
	}
	// N: tcp
	ds = append(ds, "N#8,64,300|get getbig post:200 postbig:150 obs notify:2 obsbig notify:2 obscancel ping hang set swap do burst:4 nf put:130 delete",
		"N#2,2,700|getbig postbig:500 obsbig notify:3 obscancel obscancel hang getbig",
		"N#0,0,200|get getbig post:200 obs notify:1 set swap")
	nN, nS, nQ, nR := 20, 16, 24, 10
	if thorough {
		nN, nS, nQ, nR = 150, 100, 200, 60
	}
	for i := 0; i < nN; i++ {
		ops := genC12NetScript(rng.Fork(), 5+rng.Intn(10), false)
		ds = append(ds, fmt.Sprintf("N#%d,%d,%d|%s", rng.Pick([]int{0, 1, 3, 8, 64}), rng.Pick([]int{0, 2, 8, 64}), 100+rng.Intn(600), strings.Join(ops, " ")))
	}
	// S: udp server
	ds = append(ds, "S#2,8,64,300|0/get 1/getbig 0/post:200 1/postbig:150 0/obs 1/obsbig 0/notify:2 1/notify:1 0/obscancel 1/ping 0/hang 1/set 0/swap 1/do 0/burst:4 1/nf 0/put:130 1/delete 0/oneway",
		"S#1,2,2,500|getbig postbig:400 obsbig notify:2 obscancel hang oneway getbig",
		"S#3,0,0,200|0/get 1/get 2/get 0/getbig 1/post:200 2/obs 0/notify:2 2/obscancel")
	for i := 0; i < nS; i++ {
		ncli := 1 + rng.Intn(3)
		ops := genC12NetScript(rng.Fork(), 5+rng.Intn(10), true)
		for j := range ops {
			ops[j] = fmt.Sprintf("%d/%s", rng.Intn(ncli), ops[j])
		}
		ds = append(ds, fmt.Sprintf("S#%d,%d,%d,%d|%s", ncli, rng.Pick([]int{0, 1, 3, 8, 64}), rng.Pick([]int{0, 2, 8, 64}), 100+rng.Intn(400), strings.Join(ops, " ")))
	}
	// Q, R: the pool itself
	for i := 0; i < nQ; i++ {
		ds = append(ds, fmt.Sprintf("Q#%d,%d,%d", rng.Pick([]int{0, 1, 2, 3, 5, 8}), rng.U64()%100000, 30+rng.Intn(120)))
	}
	for i := 0; i < nR; i++ {
		ds = append(ds, fmt.Sprintf("R#%d,%d,%d,%d", rng.Pick([]int{0, 1, 2, 4, 8}), rng.U64()%100000, 2+rng.Intn(6), 100+rng.Intn(200)))
	}
	return ds
}

func dbgC12() bool { return os.Getenv("HXDBG") != "" }

// ---------------------------------------------------------------- Q / R: the pool itself

// Q#<capacity>,<seed>,<n>: one goroutine, a random script of acquires and releases on a pool of the given capacity;
// the script's observations (did the release put the message back, did the acquire hand out a recycled one) are
// compared step by step with the counter model, the lifecycle trace goes through the ownership monitor.
func c12PoolSeq(e *c12Out, tr *poolTracker, desc, arg string) {
	var capacity, n int
	var seed uint64
	fmt.Sscanf(arg, "%d,%d,%d", &capacity, &seed, &n)
	rng := NewRng(seed)
	p := pool.New(uint32(capacity), 1024)
	tr.scenario(p)
	var held []*pool.Message
	var sops []string
	refused := 0
	for i := 0; i < n; i++ {
		before := len(tr.peek())
		if len(held) == 0 || rng.Chance(45) {
			m := p.AcquireMessage(context.Background())
			held = append(held, m)
			got := false
			for _, ev := range tr.peek()[before:] {
				got = got || ev.Kind == "Reacq"
			}
			sops = append(sops, "SAcq "+coqBool(got))
		} else {
			k := rng.Intn(len(held))
			m := held[k]
			held = append(held[:k], held[k+1:]...)
			p.ReleaseMessage(m)
			rec := false
			for _, ev := range tr.peek()[before:] {
				rec = rec || ev.Kind == "Rec"
			}
			if !rec {
				refused++
			}
			sops = append(sops, "SRel "+coqBool(rec))
		}
	}
	evs := tr.take()
	e.AddW(fmt.Sprintf("PoolSeq %d [%s]", capacity, strings.Join(sops, "; ")), desc, refused > 0, 1+n/100, "Q", fmt.Sprintf("Q:refused<%d", (refused/10+1)*10))
	c12Emit(e, desc, capacity, evs, "Q:trace")
}

// R#<capacity>,<seed>,<goroutines>,<n>: goroutines acquire and release concurrently on one small pool, every
// goroutine writing to the messages it holds (a recycled message handed to two owners would be seen as a broken
// poison pattern or a changed digest).
func c12PoolPar(e *c12Out, tr *poolTracker, desc, arg string) {
	var capacity, g, n int
	var seed uint64
	fmt.Sscanf(arg, "%d,%d,%d,%d", &capacity, &seed, &g, &n)
	p := pool.New(uint32(capacity), 1024)
	tr.scenario(p)
	var wg sync.WaitGroup
	for t := 0; t < g; t++ {
		wg.Add(1)
		go func(t int) {
			defer wg.Done()
			rng := NewRng(seed + uint64(t)*977)
			var held []*pool.Message
			for i := 0; i < n; i++ {
				if len(held) == 0 || (len(held) < 4 && rng.Chance(50)) {
					m := p.AcquireMessage(context.Background())
					m.SetCode(codes.Content)
					m.SetToken([]byte{byte(t), byte(i)})
					m.SetMessageID(int32(t*1000 + i))
					tr.Hold(m)
					held = append(held, m)
				} else {
					k := rng.Intn(len(held))
					m := held[k]
					held = append(held[:k], held[k+1:]...)
					tr.Unhold(m)
					tr.AppRel(m)
					p.ReleaseMessage(m)
				}
			}
			for _, m := range held {
				tr.Unhold(m)
				tr.AppRel(m)
				p.ReleaseMessage(m)
			}
		}(t)
	}
	wg.Wait()
	emitTraceCap(e, tr, desc, "R", capacity)
}
