package main

// C12, family E: the RECEIVE side of net/blockwise on a real udp/client.Conn (in-memory session, block-wise
// enabled, SZX16) against a scripted peer, one datagram at a time. The script reaches the early-return and
// error paths of BlockWise.Handle / processReceivedMessage / getPayloadFromCachedReceivedMessage /
// continueSendingMessage: ETag changing in the middle of a response (GET: the transfer restarts; POST/PUT/FETCH:
// "cannot restart blockwise response ... from first block" -> sendEntityIncomplete), wrong block numbers, short
// and long blocks, a last block with nothing before it, blocks of a token nobody asked for, over-long block
// options, plain responses in the middle of a transfer, 2.31 Continue with the wrong number, and the same for a
// peer that uploads to us.
//
// Every datagram is handed to the connection with Conn.Process and the script continues only after the
// connection's per-message receive function (Config.ProcessReceivedMessage, wrapped) has RETURNED for it. The
// tracker tags every event with the goroutine it was reported from: the events of the receive function's
// goroutine between its entry and its return are exactly those of ProcessReceivedMessageWithHandler for that
// datagram (the application goroutine is parked in doInternal's select, is returning from Do - the receive function
// then waits for that, the witness being the token handler that has gone - or has returned and waits for the
// script). No timing is involved. These windows are emitted as an `Exchange` case and compared, event by event, with the path the model
// (Pool/Model.v: bw_receive_ops) has for what was observed (error class, what was written, who got the
// message); the complete trace of the scenario goes through the ownership monitor like every other family.

import (
	"bytes"
	"context"
	"fmt"
	"strconv"
	"strings"
	"sync"
	"time"

	"github.com/plgd-dev/go-coap/v3/message"
	"github.com/plgd-dev/go-coap/v3/message/codes"
	"github.com/plgd-dev/go-coap/v3/message/pool"
	"github.com/plgd-dev/go-coap/v3/net/blockwise"
	"github.com/plgd-dev/go-coap/v3/net/responsewriter"
	"github.com/plgd-dev/go-coap/v3/options/config"
	"github.com/plgd-dev/go-coap/v3/udp/client"
)

// c12eWait bounds every wait for a state-change witness (receive function returned, request on the wire, call
// returned). The witnesses arrive within microseconds; the bound only turns a real hang into a `Hung` case.
const c12eWait = 100 * time.Second

// c12eWin is what the wrapped receive function records for the datagram being processed.
type c12eWin struct {
	m          *pool.Message // the received message (acquired by Conn.Process)
	gid        int64         // the goroutine the receive function runs on
	begin, end int           // positions in the tracker's log
	stale      bool          // the object still carries the Hijack flag of an earlier life
	delivered  bool          // a waiting caller was handed a message (its token handler is gone) and has returned
	stuck      bool          // ... but did not return in time
	panicked   bool
	lends      []bool // application handler invocations: was it lent the received message itself?
}

type c12eCall struct {
	cancel context.CancelFunc
	ret    chan struct{} // closed when Do has returned
	goCh   chan struct{} // closed by the script: the application may now use and release what it got
	done   chan struct{} // closed when the application goroutine is through
	resp   *pool.Message
	err    error
	tok    int
	serial int // 1, 2, ...: the n-th call of the scenario
	mid    int // message ID of the request as seen on the wire (-1: not confirmable / not seen)
	acked  bool
}

type c12eConn struct {
	s         *memSession
	cc        *client.Conn
	bw        *blockwise.BlockWise[*client.Conn]
	tr        *poolTracker
	mu        sync.Mutex
	errs      []string
	win       c12eWin
	processed chan struct{}
	call      *c12eCall
	nCalls    int
	lastCon   int // message ID of the last confirmable message the connection wrote
	peerMID   int
	flags     []string
	doneMIDs  []int // message IDs of the messages the receive function has returned for, in order (one per signal on processed)
	// family H (c12_handover.go): the application uses and releases what Do returned at once (eager) instead of waiting
	// for the script; hg learns which goroutine the application's is
	eager bool
	hg    *handoverGate
}

func c12eToken(k int) []byte { return []byte{0xE0 + byte(k&0xf), 0x12, 0xC1} }

func newC12eConn(tr *poolTracker, p *pool.Pool) *c12eConn {
	c := &c12eConn{s: newMemSession(64 * 1024), tr: tr, processed: make(chan struct{}, 4), lastCon: -1, peerMID: 0x100}
	cfg := client.DefaultConfig
	cfg.MessagePool = p
	cfg.GetMID = func() int32 { return 0x3000 }
	cfg.Errors = func(err error) {
		c.mu.Lock()
		c.errs = append(c.errs, err.Error())
		c.mu.Unlock()
	}
	cfg.TransmissionNStart = 4
	cfg.TransmissionAcknowledgeTimeout = time.Hour // no retransmission: nothing ticks the connection
	cfg.TransmissionMaxRetransmit = 2
	cfg.ReceivedMessageQueueSize = 16
	cfg.LimitClientParallelRequests = 64
	cfg.LimitClientEndpointParallelRequests = 64
	cfg.MaxMessageSize = 64 * 1024
	cfg.BlockwiseSZX = blockwise.SZX16
	cfg.Handler = func(w *responsewriter.ResponseWriter[*client.Conn], r *pool.Message) {
		// the application: holds the message for the duration of the call, answers requests with a small response
		c.win.lends = append(c.win.lends, r == c.win.m)
		tr.Hold(r)
		defer tr.Unhold(r)
		if r.Body() != nil {
			_, _ = r.ReadBody()
		}
		if r.Code() >= codes.GET && r.Code() <= codes.DELETE {
			_ = w.SetResponse(codes.Changed, message.TextPlain, bytes.NewReader([]byte("ok")))
		}
	}
	cfg.ProcessReceivedMessage = func(req *pool.Message, cc *client.Conn, handler config.HandlerFunc[*client.Conn]) {
		w := &c.win
		mid := int(req.MessageID())
		defer func() {
			if r := recover(); r != nil {
				tr.notePanic(r) // a panic on the receive path is an observable, not a crash of hx
				w.panicked = true
			}
			w.end = len(tr.peek())
			c.mu.Lock()
			c.doneMIDs = append(c.doneMIDs, mid)
			c.mu.Unlock()
			c.processed <- struct{}{}
		}()
		w.m = req
		w.stale = req.IsHijacked()
		w.gid = curGID()
		w.begin = len(tr.peek())
		before := cc.VerifSizes()["tokenHandlers"]
		cc.ProcessReceivedMessageWithHandler(req, func(rw *responsewriter.ResponseWriter[*client.Conn], r *pool.Message) {
			handler(rw, r)
			if call := c.call; call != nil && cc.VerifSizes()["tokenHandlers"] < before {
				// the waiting caller's token handler was consumed: Do is returning. The next datagram is injected only
				// once it has returned (what it does on its way out - deleting its entry in sendingMessagesCache -
				// decides how the next datagram is treated). What that goroutine releases meanwhile (the first-block
				// temporary of an upload) is not part of this receive path: the window keeps this goroutine's events.
				select {
				case <-call.ret:
					w.delivered = true
				case <-time.After(c12eWait):
					w.stuck = true
				}
			}
		})
	}
	c.cc = client.NewConnWithOpts(c.s, &cfg, client.WithBlockWise(func(cc *client.Conn) *blockwise.BlockWise[*client.Conn] {
		c.bw = blockwise.New(cc, time.Hour, cfg.Errors, func(token message.Token) (*pool.Message, bool) {
			return cc.GetObservationRequest(token)
		})
		return c.bw
	}))
	return c
}

func (c *c12eConn) close() {
	_ = c.cc.Close()
	c.s.shutdown()
}

func (c *c12eConn) flag(format string, a ...interface{}) {
	c.flags = append(c.flags, fmt.Sprintf(format, a...))
}

// noteOut remembers the last confirmable message the connection wrote.
func (c *c12eConn) noteOut(ws []wireMsg) {
	for _, w := range ws {
		if !w.Bad && w.Typ == 0 {
			c.lastCon = w.MID
		}
	}
}

// start launches an application call (Do with an application-owned request) and waits until its request is on
// the wire.
func (c *c12eConn) start(code codes.Code, tok, bodyLen int) {
	c.finish()
	ctx, cancel := context.WithCancel(context.Background())
	c.nCalls++
	call := &c12eCall{serial: c.nCalls, cancel: cancel, ret: make(chan struct{}), goCh: make(chan struct{}), done: make(chan struct{}), tok: tok, mid: -1}
	c.call = call
	tr := c.tr
	go func() {
		defer close(call.done)
		if c.hg != nil {
			c.hg.setCaller(curGID(), call.done)
		}
		req := c.cc.AcquireMessage(ctx)
		req.SetCode(code)
		req.SetToken(c12eToken(tok))
		req.SetType(message.Confirmable)
		_ = req.SetPath("/e")
		if bodyLen > 0 {
			req.SetContentFormat(message.TextPlain)
			req.SetBody(bytes.NewReader(genBody(tok, bodyLen)))
		}
		func() {
			defer func() {
				if r := recover(); r != nil {
					call.err = fmt.Errorf("panic: %v", r)
					tr.notePanic(r)
				}
				close(call.ret)
			}()
			call.resp, call.err = c.cc.Do(req)
		}()
		if !c.eager {
			<-call.goCh
		}
		if call.resp != nil {
			tr.Hold(call.resp)
			if call.resp.Body() != nil {
				_, _ = call.resp.ReadBody()
			}
			tr.Unhold(call.resp)
			tr.AppRel(call.resp)
			c.cc.ReleaseMessage(call.resp)
		}
		tr.AppRel(req)
		c.cc.ReleaseMessage(req)
	}()
	if !c.s.waitOut(1, c12eWait) {
		c.flag("request-not-written")
		return
	}
	out := c.takeOut()
	for _, w := range out {
		if !w.Bad && w.Typ == 0 {
			call.mid = w.MID
		}
	}
}

func (c *c12eConn) takeOut() []wireMsg {
	raw := c.s.take()
	r := make([]wireMsg, len(raw))
	for i, b := range raw {
		r[i] = decodeWire(b)
	}
	c.noteOut(r)
	return r
}

// finish ends the outstanding call (cancelling it if it has not returned), lets the application use and release
// what it got and waits until it is through.
func (c *c12eConn) finish() {
	call := c.call
	if call == nil {
		return
	}
	c.call = nil
	select {
	case <-call.ret:
	default:
		call.cancel()
		select {
		case <-call.ret:
		case <-time.After(c12eWait):
			c.flag("call-does-not-return")
			return
		}
	}
	close(call.goCh)
	select {
	case <-call.done:
	case <-time.After(c12eWait):
		c.flag("application-stuck")
	}
	call.cancel()
}

// c12eStep: one datagram of the peer.
type c12eStep struct {
	kind  byte // r: 2.05 with Block2, p: 2.05 without block option, x: 2.05 with an over-long Block2 (dropped by the codec: treated like p), k: 2.31 with Block1, u: POST with Block1 (the peer uploads)
	tok   int
	num   int
	more  bool
	etag  int // 0 = none
	plen  int
	typ   byte // a: piggybacked on the ACK of the last confirmable message we wrote, c: confirmable, n: non-confirmable
	valid bool
}

func parseC12eStep(s string) c12eStep {
	f := strings.Split(s, ":")
	n := func(i int) int {
		if i < len(f) {
			v, _ := strconv.Atoi(f[i])
			return v
		}
		return 0
	}
	t := func(i int) byte {
		if i < len(f) && len(f[i]) > 0 {
			return f[i][0]
		}
		return 'n'
	}
	st := c12eStep{valid: true}
	if len(f[0]) != 1 {
		return c12eStep{}
	}
	st.kind = f[0][0]
	st.tok = n(1)
	switch st.kind {
	case 'r', 'u':
		st.num, st.more, st.etag, st.plen, st.typ = n(2), n(3) != 0, n(4), n(5), t(6)
	case 'p':
		st.etag, st.plen, st.typ = n(2), n(3), t(4)
	case 'x':
		st.typ = t(2)
	case 'k':
		st.num, st.more, st.typ = n(2), n(3) != 0, t(4)
	default:
		return c12eStep{}
	}
	return st
}

func beBytes(v uint32) []byte {
	switch {
	case v == 0:
		return []byte{}
	case v < 1<<8:
		return []byte{byte(v)}
	case v < 1<<16:
		return []byte{byte(v >> 8), byte(v)}
	case v < 1<<24:
		return []byte{byte(v >> 16), byte(v >> 8), byte(v)}
	}
	return []byte{byte(v >> 24), byte(v >> 16), byte(v >> 8), byte(v)}
}

func c12eBlock(num int, more bool) []byte {
	v := uint32(num) << 4 // SZX16 = 0
	if more {
		v |= 8
	}
	return beBytes(v)
}

// datagram builds the peer's datagram for a step; blk = it carries a decodable block option of the kind the
// receiving code looks at (Block2 in a response, Block1 in a POST).
func (c *c12eConn) datagram(st c12eStep) (d []byte, blk bool) {
	typ, mid := 1, 0
	switch st.typ {
	case 'a':
		if c.lastCon >= 0 {
			typ, mid = 2, c.lastCon
			c.lastCon = -1
			if c.call != nil && mid == c.call.mid {
				c.call.acked = true
			}
		}
	case 'c':
		typ = 0
	}
	if typ != 2 {
		c.peerMID++
		mid = c.peerMID
	}
	var opts message.Options
	if st.etag != 0 {
		opts = append(opts, message.Option{ID: message.ETag, Value: []byte{byte(st.etag)}})
	}
	code := int(codes.Content)
	var payload []byte
	switch st.kind {
	case 'r':
		opts = append(opts, message.Option{ID: message.Block2, Value: c12eBlock(st.num, st.more)})
		payload = genBody(st.num+1, st.plen)
		blk = true
	case 'p':
		payload = genBody(77, st.plen)
	case 'x':
		opts = append(opts, message.Option{ID: message.Block2, Value: []byte{0x01, 0x00, 0x00, 0x00}}) // > maxBlockValue
	case 'k':
		code = int(codes.Continue)
		if st.num >= 0 { // num < 0: a 2.31 without Block1
			opts = append(opts, message.Option{ID: message.Block1, Value: c12eBlock(st.num, st.more)})
		}
	case 'u':
		code = int(codes.POST)
		opts = append(opts, message.Option{ID: message.URIPath, Value: []byte("e")})
		opts = append(opts, message.Option{ID: message.Block1, Value: c12eBlock(st.num, st.more)})
		payload = genBody(st.num+1, st.plen)
		blk = true
		if typ == 2 {
			typ = 1
			c.peerMID++
			mid = c.peerMID
		}
	}
	return encodeWire(typ, code, mid, c12eToken(st.tok), opts, payload), blk
}

// c12eObs: what one step showed.
type c12eObs struct {
	desc     string
	tok      int
	call     int // serial of the call with this token that is in progress (0 = none)
	blk      bool
	kind     string // Coq term of type bw_kind
	wroteCon bool
	stale    bool
	entries  int
	window   []lcEvent
	bucket   string
}

func hasOpt(w wireMsg, id message.OptionID) bool {
	for _, o := range w.Opts {
		if o.ID == id {
			return true
		}
	}
	return false
}

func containsAny(s string, subs ...string) bool {
	for _, x := range subs {
		if strings.Contains(s, x) {
			return true
		}
	}
	return false
}

// step injects the datagram of a script step (preceded by an empty ACK when the caller still waits for one).
// ok = false: the scenario cannot go on.
func (c *c12eConn) step(st c12eStep, desc string) (obs []c12eObs, ok bool) {
	if call := c.call; call != nil && !call.acked && call.mid >= 0 && !(st.typ == 'a' && c.lastCon == call.mid) {
		// a separate response: the request is acknowledged first (the caller sits in waitForAcknowledge until then).
		// The pending entry is consumed inside Conn.Process; the empty message still travels through the receive
		// function, where Conn.handle drops it.
		call.acked = true
		if c.lastCon == call.mid {
			c.lastCon = -1
		}
		o, ok := c.inject(encodeWire(2, 0, call.mid, nil, nil, nil), call.tok, false, "ack")
		obs = append(obs, o)
		if !ok {
			return obs, false
		}
	}
	d, blk := c.datagram(st)
	o, ok := c.inject(d, st.tok, blk, desc)
	return append(obs, o), ok
}

// inject hands one datagram to the connection and waits for the receive function to return.
func (c *c12eConn) inject(d []byte, tok int, blk bool, desc string) (o c12eObs, ok bool) {
	o = c12eObs{desc: desc, tok: tok, blk: blk}
	if c.call != nil && c.call.tok == tok {
		o.call = c.call.serial
	}
	c.mu.Lock()
	c.errs = nil
	c.doneMIDs = nil
	c.mu.Unlock()
	c.win = c12eWin{}
	func() {
		defer func() {
			if r := recover(); r != nil {
				c.tr.notePanic(r)
			}
		}()
		if err := c.cc.Process(nil, d); err != nil {
			c.flag("process-error")
		}
	}()
	select {
	case <-c.processed:
	case <-time.After(c12eWait):
		c.flag("receive-function-did-not-return")
		return o, false
	}
	w := c.win
	c.mu.Lock()
	errs := strings.Join(c.errs, " || ")
	c.mu.Unlock()
	out := c.takeOut()
	o.window = c.tr.eventsOf(w.gid, w.begin, w.end)
	for _, m := range out {
		if !m.Bad && m.Typ == 0 {
			o.wroteCon = true
		}
	}
	o.stale = w.stale
	_, o.entries = c.bw.VerifTableSizes()
	// --- classification from observables only: error class, who was handed a message, what went out
	switch {
	case w.panicked || w.stuck:
		o.kind, o.bucket = "KOther", "other"
	case strings.Contains(errs, "continueSendingMessage("):
		acq := !containsAny(errs, "cannot get ", "cannot decode", "cannot find sending message")
		o.kind, o.bucket = "KContErr "+coqBool(acq), "cont-err"
	case strings.Contains(errs, "handleReceivedMessage("):
		switch {
		case containsAny(errs, "cannot restart blockwise response", "cannot encode block option"):
			o.kind, o.bucket = "KErrLate true", "err-next-block-request-given-back"
			if strings.Contains(errs, "cannot restart") {
				o.bucket = "err-restart-refused"
			}
		case containsAny(errs, "cannot get payload", "cannot copy data", "cannot seek to start"):
			o.kind, o.bucket = "KErrLate false", "err-payload"
		default:
			o.kind, o.bucket = "KErrEarly", "err-early"
			switch {
			case strings.Contains(errs, "without paired request"):
				o.bucket = "err-no-paired-request"
			case strings.Contains(errs, "without previous blocks"):
				o.bucket = "err-last-without-previous"
			case strings.Contains(errs, "cannot decode block option"):
				o.bucket = "err-undecodable-block"
			}
		}
	case errs != "":
		o.kind, o.bucket = "KOther", "other-error"
	case w.delivered:
		if c.call != nil && c.call.resp != nil && c.call.resp == w.m {
			o.kind, o.bucket = "KForward DHijack", "forward-to-caller"
		} else if c.call != nil && c.call.resp != nil {
			o.kind, o.bucket = "KComplete DHijack", "complete-to-caller"
		} else {
			o.kind, o.bucket = "KOther", "other-caller-error"
		}
	case len(w.lends) == 1:
		if w.lends[0] {
			o.kind, o.bucket = "KForward DLend", "forward-to-handler"
		} else {
			o.kind, o.bucket = "KComplete DLend", "complete-to-handler"
		}
	default:
		o.kind, o.bucket = "KOther", "other-output"
		if len(out) == 0 {
			o.kind, o.bucket = "KSilent", "dropped"
		}
		for _, m := range out {
			if m.Bad {
				continue
			}
			req := m.Code >= int(codes.GET) && m.Code <= 31
			switch {
			case m.Code == int(codes.Continue), req && hasOpt(m, message.Block2) && len(m.Payload) == 0:
				o.kind, o.bucket = "KNext", "next-block-asked"
			case req && hasOpt(m, message.Block1):
				o.kind, o.bucket = "KContNext", "next-block-sent"
			}
		}
	}
	if c.call != nil {
		select {
		case <-c.call.ret:
			c.finish() // the call is over: the application uses and releases the response before the next datagram
		default:
		}
	}
	return o, true
}

func (o c12eObs) coq() string {
	return fmt.Sprintf("(BwStep %d %d %s (%s) %s %s %d %s)", o.tok, o.call, coqBool(o.blk), o.kind, coqBool(o.wroteCon), coqBool(o.stale), o.entries, coqLc(o.window))
}

// descriptor: E#<pool capacity>|<action> <action> ...
//
//	get:<tok> post:<tok> put:<tok> fetch:<tok> del:<tok>   the application starts a call (small or no body)
//	up:<tok>:<len>                                         ... a POST whose body needs block-wise upload
//	cancel                                                 the outstanding call is cancelled
//	r: p: x: k: u:                                         a datagram of the peer (c12eStep)
func c12BwRecv(e *c12Out, tr *poolTracker, desc, arg string) {
	i := strings.Index(arg, "|")
	if i < 0 {
		return
	}
	capacity, _ := strconv.Atoi(arg[:i])
	if capacity <= 0 {
		capacity = 256
	}
	p := pool.New(uint32(capacity), 2048)
	tr.scenario(p)
	tr.tagGoroutines()
	c := newC12eConn(tr, p)
	var obs []c12eObs
	for _, a := range strings.Fields(arg[i+1:]) {
		f := strings.Split(a, ":")
		tok := 0
		if len(f) > 1 {
			tok, _ = strconv.Atoi(f[1])
		}
		switch f[0] {
		case "get":
			c.start(codes.GET, tok, 0)
		case "del":
			c.start(codes.DELETE, tok, 0)
		case "post":
			c.start(codes.POST, tok, 5)
		case "put":
			c.start(codes.PUT, tok, 5)
		case "fetch":
			c.start(codes.Code(5), tok, 5)
		case "up":
			n := 40
			if len(f) > 2 {
				n, _ = strconv.Atoi(f[2])
			}
			c.start(codes.POST, tok, n)
		case "cancel":
			c.finish()
		default:
			st := parseC12eStep(a)
			if !st.valid {
				continue
			}
			os, ok := c.step(st, a)
			obs = append(obs, os...)
			if !ok {
				goto out
			}
		}
		if len(c.flags) > 0 {
			break
		}
	}
out:
	c.finish()
	c.close()
	evs := tr.take()
	fam := []string{"E"}
	steps := make([]string, len(obs))
	for j, o := range obs {
		steps[j] = o.coq()
		fam = append(fam, "E:"+o.bucket)
	}
	if len(c.flags) > 0 {
		fam = append(fam, "E:script-flag")
		if dbgC12() {
			fmt.Println("E flags", desc, c.flags)
		}
		// a witness that never came (receive function / call did not return): the model has no such run
		e.AddW(fmt.Sprintf("Hung %s", coqLc(c12Cut(evs))), desc, false, 1+len(evs)/60, "E:hang")
		return
	}
	fam = append(fam, fmt.Sprintf("events<%d", (len(evs)/500+1)*500))
	c12Emit(e, desc, capacity, evs, fam...)
	nerr := 0
	for _, o := range obs {
		if strings.HasPrefix(o.kind, "KErr") || strings.HasPrefix(o.kind, "KContErr") {
			nerr++
		}
	}
	e.AddW(fmt.Sprintf("Exchange [%s]", strings.Join(steps, "; ")), desc, nerr > 0, 1+len(evs)/60, "E:exchange", fmt.Sprintf("E:error-returns=%d", nerr))
}

// c12BwFixed: one script per return point of the receive side (see notes/C12.md, family E).
var c12BwFixed = []string{
	// the response of a POST/PUT/FETCH changes its ETag between two blocks: nothing usable is left, the request
	// cannot be repeated from block 0 -> the prepared next-block request is given back, 4.08
	"post:1 r:1:0:1:161:16:a r:1:1:1:178:16:a",
	"put:1 r:1:0:1:1:16:a r:1:1:1:2:16:c",
	"fetch:1 r:1:0:1:1:16:a r:1:1:1:2:16:n r:1:0:1:2:16:n",
	// ... of a GET / DELETE: the transfer restarts from block 0 and completes
	"get:1 r:1:0:1:161:16:a r:1:1:1:178:16:a r:1:0:1:178:16:a r:1:1:0:178:7:a",
	"del:1 r:1:0:1:1:16:a r:1:1:1:2:16:n r:1:0:1:2:16:c r:1:1:0:2:16:c",
	// ordinary downloads
	"get:1 r:1:0:1:0:16:a r:1:1:1:0:16:c r:1:2:0:0:5:n",
	"post:1 r:1:0:1:7:16:a r:1:1:0:7:3:a",
	// a block of another transfer arrives first / a short first block: nothing reassembled
	"post:1 r:1:1:1:9:16:a",
	"post:1 r:1:0:1:9:10:a r:1:0:1:9:16:a",
	"get:1 r:1:1:1:9:16:a r:1:0:1:9:16:a r:1:1:0:9:2:a",
	// last block without anything before it, blocks nobody asked for, over-long block option
	"get:1 r:1:2:0:0:16:a r:1:0:0:0:9:c",
	"get:1 r:2:0:1:0:16:n r:1:0:1:0:16:a r:2:1:0:0:16:c",
	"r:2:0:1:0:16:c r:2:1:0:0:3:n",
	"get:1 x:1:a x:2:c",
	"post:1 r:1:0:1:0:16:a x:1:a r:1:1:0:0:1:a",
	// a plain response in the middle of a transfer / instead of one
	"get:1 r:1:0:1:0:16:a p:1:0:4:c",
	"post:1 p:1:0:4:a",
	// wrong block numbers, long and short blocks
	"get:1 r:1:0:1:0:16:a r:1:2:1:0:16:a r:1:1:1:0:16:a r:1:2:0:0:4:a",
	"get:1 r:1:0:1:0:16:a r:1:0:1:0:16:a r:1:1:0:0:16:a",
	"get:1 r:1:0:1:0:16:a r:1:2:0:0:4:a r:1:1:0:0:4:a",
	"get:1 r:1:0:1:0:20:a r:1:1:0:0:4:a",
	// cancelled in the middle, then the rest arrives
	"get:1 r:1:0:1:0:16:a cancel r:1:1:0:0:4:c",
	"post:1 r:1:0:1:5:16:a cancel r:1:1:1:6:16:c",
	// block-wise upload: 2.31 in order, with a wrong number, then a block-wise response whose ETag changes
	"up:1:40 k:1:0:1:a k:1:1:1:a p:1:0:2:a",
	"up:1:40 k:1:7:1:a",
	"up:1:40 k:1:0:1:a k:1:0:1:a k:1:1:1:c p:1:0:0:n",
	"up:1:40 k:1:0:1:a k:1:1:1:a r:1:0:1:3:16:a r:1:1:1:4:16:a",
	"up:1:40 k:1:0:1:a k:1:1:1:a r:1:0:1:3:16:a r:1:1:0:3:6:a",
	"up:1:40 x:1:a k:2:0:1:n",
	"up:1:40 k:1:-1:0:a k:1:0:1:a",
	// the peer uploads to us: in order, single block, last block first, ETag change, wrong order, same token as our call
	"u:3:0:1:0:16:c u:3:1:1:0:16:c u:3:2:0:0:4:c",
	"u:3:0:0:0:8:n",
	"u:3:2:0:0:8:c u:3:0:1:0:16:n",
	"u:3:0:1:1:16:c u:3:1:1:2:16:c u:3:1:0:2:3:c",
	"u:3:0:1:0:16:c u:3:2:1:0:16:c u:3:1:0:0:4:n",
	"post:1 u:1:0:1:0:16:c r:1:0:1:0:16:a u:1:1:0:0:2:c r:1:1:0:0:2:a",
}

// genC12BwScript: a call (or none) followed by a mostly well-formed sequence of blocks with the perturbations
// that lead to the early returns: ETag change, wrong number, wrong length, wrong token, missing / over-long
// block option, early last block, cancel.
func genC12BwScript(rng *Rng) string {
	var acts []string
	typ := func() string { return []string{"a", "a", "c", "n"}[rng.Intn(4)] }
	role := rng.Intn(10)
	switch {
	case role < 6: // download
		op := []string{"get", "post", "put", "fetch", "del", "post", "get"}[rng.Intn(7)]
		acts = append(acts, op+":1")
		num, etag := 0, rng.Pick([]int{0, 0, 5, 9})
		n := 2 + rng.Intn(5)
		for i := 0; i < n; i++ {
			tok, nm, more, plen, et := 1, num, i < n-1, 16, etag
			switch rng.Intn(14) {
			case 0:
				if etag == 0 {
					etag = 3
				}
				etag++
				et = etag
			case 1:
				nm = num + 1 + rng.Intn(2)
			case 2:
				if nm > 0 {
					nm--
				}
			case 3:
				plen = rng.Pick([]int{0, 3, 10, 20, 32})
			case 4:
				tok = 2
			case 5:
				more = !more
			case 6:
				acts = append(acts, fmt.Sprintf("x:%d:%s", 1+rng.Intn(2), typ()))
				continue
			case 7:
				acts = append(acts, fmt.Sprintf("p:1:%d:%d:%s", et, rng.Intn(8), typ()))
				continue
			case 8:
				if rng.Chance(40) {
					acts = append(acts, "cancel")
					continue
				}
			}
			if !more && plen == 16 {
				plen = 1 + rng.Intn(16)
			}
			acts = append(acts, fmt.Sprintf("r:%d:%d:%d:%d:%d:%s", tok, nm, c12b2i(more), et, plen, typ()))
			if tok == 1 && nm == num && plen == 16 {
				num++
			}
		}
	case role < 8: // upload (40..70 bytes), then possibly a block-wise response
		ln := 33 + rng.Intn(40)
		acts = append(acts, fmt.Sprintf("up:1:%d", ln))
		blocks := (ln + 15) / 16
		for i := 0; i < blocks-1; i++ {
			nm := i
			if rng.Chance(15) {
				nm = rng.Pick([]int{0, i + 1, 7, 30, -1})
			}
			acts = append(acts, fmt.Sprintf("k:1:%d:1:%s", nm, typ()))
		}
		if rng.Bool() {
			acts = append(acts, fmt.Sprintf("p:1:0:%d:%s", rng.Intn(5), typ()))
		} else {
			e1 := rng.Pick([]int{0, 4})
			e2 := e1
			if rng.Bool() {
				e2 = e1 + 1
			}
			acts = append(acts, fmt.Sprintf("r:1:0:1:%d:16:%s", e1, typ()), fmt.Sprintf("r:1:1:0:%d:5:%s", e2, typ()))
		}
	default: // the peer uploads to us
		if rng.Chance(30) {
			acts = append(acts, "post:3")
		}
		num, etag := 0, rng.Pick([]int{0, 0, 6})
		n := 1 + rng.Intn(4)
		for i := 0; i < n; i++ {
			nm, more, plen := num, i < n-1, 16
			switch rng.Intn(8) {
			case 0:
				etag += 2
			case 1:
				nm = num + 1
			case 2:
				more = !more
			case 3:
				plen = rng.Pick([]int{0, 5, 24})
			}
			if !more && plen == 16 {
				plen = 1 + rng.Intn(16)
			}
			acts = append(acts, fmt.Sprintf("u:3:%d:%d:%d:%d:%s", nm, c12b2i(more), etag, plen, []string{"c", "n"}[rng.Intn(2)]))
			if nm == num {
				num++
			}
		}
	}
	return strings.Join(acts, " ")
}

func c12b2i(b bool) int {
	if b {
		return 1
	}
	return 0
}

func c12BwDescriptors(rng *Rng, thorough bool) []string {
	var ds []string
	for i, s := range c12BwFixed {
		ds = append(ds, fmt.Sprintf("E#%d|%s", []int{256, 256, 4}[i%3], s))
	}
	n := 40
	if thorough {
		n = 400
	}
	for i := 0; i < n; i++ {
		ds = append(ds, fmt.Sprintf("E#%d|%s", rng.Pick([]int{256, 256, 8, 2}), genC12BwScript(rng.Fork())))
	}
	return ds
}
