package main

// C04, families about state that belongs to an exchange which is still under way (seeded regressions,
// round 4 - notes/C04.md "Seeded regressions, round 4"):
//
//   - c04SecondDoFamily: while a Do with token T is in flight the application calls Do with the same
//     token T again (retry / token reuse / collision). The second call is refused at once; the exchange
//     that owns the token must not notice: it completes with the exact body, or fails - it never
//     returns ok with a 2.31 Continue (Spec class 10: the exchange was in good standing).
//   - c04StaleRequestFamily: while B still parks a block-wise response for token T (a download is
//     under way), ANOTHER REQUEST with token T reaches B's handler: a replayed copy of the first request,
//     after the resource (without ETag) got new content. B's application answers with the new
//     representation; the parked message of the download under way must stay what the remaining blocks are
//     sliced from (the new answer is refused, 4.08) - the download delivers exactly one version, or fails.
//
// No sweep and no ageing happens while the transfers run (a server that lost the parked response in the
// middle of a download answers the next block request from the current representation: without ETag the
// versions cannot be told apart, RFC 7959 - not what these families are about); deliveries are FIFO.

import "fmt"

type c04FlightBase struct {
	name                 string
	code, reqLen, resLen int
	etag                 bool
	szxA, szxB           int
	dl                   int
}

func (b c04FlightBase) cfg() *c04Cfg {
	cfg := &c04Cfg{szxA: b.szxA, maxA: 1152, szxB: b.szxB, maxB: 1152}
	cfg.exch = []c04Exch{{0, b.code, 7, 0, 5, b.reqLen, -1, b.dl}}
	cfg.res = []c04Res{{11, b.resLen, b.etag, 42}}
	return cfg
}

// number of deliveries of the fault-free run
func c04FaultFreeDeliveries(cfg *c04Cfg) int {
	nd := 0
	for _, ev := range c04Run(cfg, c04Scripted(cfg, nil)).evs {
		if ev.op == 'D' {
			nd++
		}
	}
	return nd
}

// c04Then: the explicit events, then FIFO delivery of whatever is in flight, then the epilogue
// (every Do gives up, both sides are swept). dropAnswer: what a replayed message makes its receiver
// emit is lost at once (the newest message in flight, if the replay produced one).
func c04Then(cfg *c04Cfg, inner []c04Ev, dropAnswer bool) c04Policy {
	i, n, epi := 0, 0, 0
	was := -1 // messages in flight before the replay that has just been applied
	var epilogue []c04Ev
	for j, x := range cfg.exch {
		if x.kind == 0 {
			epilogue = append(epilogue, c04Ev{'T', j})
		}
	}
	epilogue = append(epilogue, c04Ev{'E', 0}, c04Ev{'E', 1})
	return func(w *c04World, _ int) (c04Ev, bool) {
		if was >= 0 {
			grew := len(w.flight) > was
			was = -1
			if dropAnswer && grew {
				return c04Ev{'X', len(w.flight) - 1}, true
			}
		}
		if i < len(inner) {
			i++
			if inner[i-1].op == 'R' {
				was = len(w.flight)
			}
			return inner[i-1], true
		}
		if len(w.flight) > 0 && n < 80 {
			n++
			return c04Ev{'D', 0}, true
		}
		if epi < len(epilogue) {
			epi++
			return epilogue[epi-1], true
		}
		return c04Ev{}, false
	}
}

func c04SecondDoFamily(e *Emitter, thorough bool) {
	bases := []c04FlightBase{
		{"upload", 2, 64, 5, false, 0, 0, 0},
		{"upload-deadline", 2, 64, 5, false, 0, 0, 9000},
		{"upload-put-szx", 3, 70, 5, false, 1, 0, 0},
		{"download", 1, 0, 75, false, 0, 0, 0},
		{"both", 3, 40, 40, true, 0, 0, 0},
		{"post-big-response", 2, 5, 40, false, 0, 0, 0},
	}
	if thorough {
		bases = append(bases, c04FlightBase{"upload-szx2", 2, 100, 5, false, 0, 1, 0}, c04FlightBase{"upload-100", 2, 100, 5, false, 0, 0, 2000},
			c04FlightBase{"download-etag", 1, 0, 75, true, 0, 0, 9000}, c04FlightBase{"both-szx", 3, 70, 70, false, 1, 1, 0},
			c04FlightBase{"upload-512", 2, 1100, 5, false, 5, 5, 0}, c04FlightBase{"upload-bert", 2, 5000, 5, false, 7, 7, 0})
	}
	for _, b := range bases {
		cfg := b.cfg()
		if b.szxA == 7 {
			cfg.maxA, cfg.maxB = 2048, 2048
		}
		nd := c04FaultFreeDeliveries(cfg)
		for p := 0; p < nd; p++ {
			for _, again := range []int{1, 2, 3} {
				// again = 1: one further Do; 2: two in a row; 3: one now and one after the next delivery
				if !thorough && again == 2 && p%2 == 1 {
					continue
				}
				evs := []c04Ev{{'S', 0}}
				for i := 0; i < p; i++ {
					evs = append(evs, c04Ev{'D', 0})
				}
				evs = append(evs, c04Ev{'S', 0})
				switch again {
				case 2:
					evs = append(evs, c04Ev{'S', 0})
				case 3:
					evs = append(evs, c04Ev{'D', 0}, c04Ev{'S', 0})
				}
				r := c04Run(cfg, c04Then(cfg, evs, false))
				c04Emit(e, cfg, r, "second-do-token-in-flight", "second-do-"+b.name, fmt.Sprintf("second-do-x%d", again))
			}
		}
	}
	// two exchanges with different tokens under way, a further Do for one of them: the other one is not touched either
	cfg := &c04Cfg{szxA: 0, maxA: 1152, szxB: 0, maxB: 1152}
	cfg.exch = []c04Exch{{0, 2, 7, 0, 5, 64, -1, 0}, {0, 3, 8, 1, 6, 50, -1, 0}}
	cfg.res = []c04Res{{11, 5, false, 42}, {13, 40, true, 43}}
	for p := 0; p < 8; p++ {
		for which := 0; which < 2; which++ {
			evs := []c04Ev{{'S', 0}, {'S', 1}}
			for i := 0; i < p; i++ {
				evs = append(evs, c04Ev{'D', 0})
			}
			evs = append(evs, c04Ev{'S', which})
			r := c04Run(cfg, c04Then(cfg, evs, false))
			c04Emit(e, cfg, r, "second-do-token-in-flight", "second-do-two-tokens")
		}
	}
}

func c04StaleRequestFamily(e *Emitter, thorough bool) {
	bases := []c04FlightBase{
		{"download", 1, 0, 75, false, 0, 0, 0},
		{"download-szx", 1, 0, 100, false, 1, 0, 0},
		{"post-big-response", 2, 5, 40, false, 0, 0, 0},
		{"both", 3, 40, 40, false, 0, 0, 0},
	}
	if thorough {
		bases = append(bases, c04FlightBase{"download-szx2", 1, 0, 100, false, 0, 1, 0}, c04FlightBase{"download-160", 1, 0, 160, false, 0, 0, 0},
			c04FlightBase{"put-big-response", 3, 5, 70, false, 1, 1, 0}, c04FlightBase{"download-deadline", 1, 0, 75, false, 0, 0, 9000},
			c04FlightBase{"download-512", 1, 0, 1100, false, 5, 5, 0})
	}
	for _, b := range bases {
		cfg := b.cfg()
		// the window in which B parks the response: from the delivery that makes B serve block 0 to the one
		// that makes it serve the last block. Found on the fault-free run: B's sending table is non-empty.
		ff := c04Run(cfg, c04Scripted(cfg, nil))
		var parked []int // number of deliveries after which B holds the response
		nd := 0
		for i, ev := range ff.evs {
			if ev.op != 'D' {
				continue
			}
			nd++
			if ff.obs[i].sizes[2] > 0 {
				parked = append(parked, nd)
			}
		}
		for _, p := range parked {
			for _, bump := range []bool{true, false} {
				if !bump && !thorough && p != parked[0] {
					continue
				}
				for _, answer := range []int{0, 1} {
					// answer 0: what B answers to the stale request travels to A in order; 1: it is lost
					for _, twice := range []bool{false, true} {
						if twice && (!thorough || answer == 0) {
							continue
						}
						evs := []c04Ev{{'S', 0}}
						for i := 0; i < p; i++ {
							evs = append(evs, c04Ev{'D', 0})
						}
						if bump {
							evs = append(evs, c04Ev{'B', 0})
						}
						evs = append(evs, c04Ev{'R', 0})
						if twice {
							evs = append(evs, c04Ev{'D', 0}, c04Ev{'B', 0}, c04Ev{'R', 0})
						}
						r := c04Run(cfg, c04Then(cfg, evs, answer == 1))
						tag := "answer-delivered"
						if answer == 1 {
							tag = "answer-lost"
						}
						btag := "resource-changed-no-etag"
						if !bump {
							btag = "resource-unchanged"
						}
						c04Emit(e, cfg, r, "stale-request-while-response-parked", "stale-request-"+b.name, tag, btag)
					}
				}
			}
		}
	}
}
