package main

// C01, third family: "every code byte" for datagram framing (UCodes cases).
//
// Datagram framing has ONE option registry (RFC 7252); the option number spaces that RFC 8323
// gives to the signalling codes 7.01-7.05 exist in stream framing only.  A message is encoded
// ONCE by the datagram coder; then, for each code c of a list, the Code field (offset 1) of a
// copy of the produced bytes is overwritten with c and the copy goes through Decode and the
// pooled UnmarshalWithDecoder.  Model side: Codec/RunC01.v agrees (UCodes); property side
// (ucode_classes, from Spec/SpecCode only): a well-formed message must come back with code c,
// ALL its options, payload, token, type and message ID, all bytes consumed (class 10).
//
// Plus hand-picked ordinary cases (c01Run, both coders): the signalling codes x options 2 and 4
// with the value lengths at which the CoAP registry and the signalling registries differ.

import (
	"fmt"
	"sort"
	"strconv"
	"strings"
	"time"

	"github.com/plgd-dev/go-coap/v3/message"
	udpcoder "github.com/plgd-dev/go-coap/v3/udp/coder"
)

type gUCode struct {
	g     gMsg
	codes []int // nil: all 256
}

func (u gUCode) codeList() []int {
	if u.codes != nil {
		return u.codes
	}
	all := make([]int, 256)
	for i := range all {
		all[i] = i
	}
	return all
}

func (u gUCode) desc() string {
	cs := "all"
	if u.codes != nil {
		var p []string
		for _, c := range u.codes {
			p = append(p, strconv.Itoa(c))
		}
		cs = strings.Join(p, ",")
	}
	return fmt.Sprintf("ucode codes=%s | %s", cs, u.g.desc())
}

func parseGUCode(desc string) (gUCode, bool) {
	var u gUCode
	parts := strings.SplitN(desc, " | ", 2)
	f := strings.Fields(parts[0])
	if len(f) == 0 || f[0] != "ucode" {
		return u, false
	}
	u.codes = []int{}
	for _, kv := range f[1:] {
		p := strings.SplitN(kv, "=", 2)
		if len(p) != 2 || p[0] != "codes" {
			continue
		}
		if p[1] == "all" {
			u.codes = nil
			break
		}
		for _, c := range strings.Split(p[1], ",") {
			if x, err := strconv.Atoi(c); err == nil && x >= 0 && x <= 255 {
				u.codes = append(u.codes, x)
			}
		}
	}
	if len(parts) < 2 {
		return u, false
	}
	g, ok := parseGMsg(strings.TrimSpace(parts[1]))
	if !ok {
		return u, false
	}
	g.coder = 0
	u.g = g
	return u, true
}

// encodeDatagram returns the bytes the datagram coder writes for g (nil when it refuses).
func encodeDatagram(g gMsg) []byte {
	m := g.build()
	var out []byte
	r := guarded(func() (int, error) {
		n, err := udpcoder.DefaultCoder.Size(m)
		if err != nil {
			return n, err
		}
		buf := make([]byte, n)
		k, err := udpcoder.DefaultCoder.Encode(m, buf)
		if err != nil {
			return k, err
		}
		if k < 0 || k > n {
			return k, fmt.Errorf("encode returned %d for a buffer of %d", k, n)
		}
		out = buf[:k]
		return k, nil
	})
	if r.panicked || r.err != nil {
		return nil
	}
	return out
}

func c01UCode(e *Emitter, u gUCode) {
	u.g.coder = 0
	codes := u.codeList()
	capD := len(u.g.opts) + u.g.capExtra
	if capD < 0 {
		capD = 0
	}
	enc := encodeDatagram(u.g)
	var obs []string
	kept, all := 0, 0
	if enc != nil && len(enc) >= 2 {
		for _, c := range codes {
			in := append([]byte{}, enc...)
			in[1] = byte(c)
			r, dm := decodeDirect(0, in, capD)
			d := dobsText(r, func() string { return projMessage(dm, false) })
			fresh := newPooled()
			in2 := append([]byte{}, enc...)
			in2[1] = byte(c)
			pr := watched(func() (int, error) { return fresh.UnmarshalWithDecoder(udpcoder.DefaultCoder, in2) }, 30*time.Second)
			p := dobsText(pr, func() string { return pooledProj(fresh, false) })
			obs = append(obs, fmt.Sprintf("(%s, %s)", d, p))
			all++
			if !r.panicked && r.err == nil && len(dm.Options) == len(u.g.opts) {
				kept++
			}
		}
	}
	var cl []string
	for _, c := range codes {
		cl = append(cl, strconv.Itoa(c))
	}
	coq := fmt.Sprintf("UCodes %s %d [%s] [%s]", u.g.coq(), capD, strings.Join(cl, "; "), strings.Join(obs, "; "))
	outcome := "ucode-refused-by-encoder"
	switch {
	case all > 0 && kept == all:
		outcome = "ucode-all-options-back-for-every-code"
	case all > 0:
		outcome = "ucode-options-dropped-or-error"
	}
	has24 := "ucode-without-option-2-or-4"
	for _, o := range u.g.opts {
		if o.id == 2 || o.id == 4 {
			has24 = "ucode-with-option-2-or-4"
		}
	}
	sig := false
	for _, c := range codes {
		if c >= 225 && c <= 229 {
			sig = true
		}
	}
	e.AddW(coq, u.desc(), sig && len(u.g.opts) > 0, 1+len(codes)/6+u.g.totalBytes()/1200,
		"ucode", fmt.Sprintf("ucode-codes-%s", bucketN(len(codes))), outcome, has24)
}

var c01CodeSample = []int{0, 1, 69, 132, 224, 225, 226, 227, 228, 229, 230, 255}

// every CoAP registry option once, at its minimal / maximal legal length
func c01AllRegistry(maxLen bool) []gOpt {
	var os []gOpt
	for _, en := range regList(message.CoapOptionDefs) {
		n := en.min
		if maxLen {
			n = en.max
		}
		os = append(os, gOpt{en.id, 20 + en.id%200, n, 0})
	}
	sort.Slice(os, func(i, j int) bool { return os[i].id < os[j].id })
	return os
}

func c01CodeCorners(e *Emitter) {
	// all 256 code bytes: the shape of the regression report, every registry option at min / max length, the empty message
	demo := gMsg{tok: []byte{0xa, 0xb}, code: 1, typ: 1, mid: 4711, opts: []gOpt{{2, 7, 28, 0}, {4, 9, 4, 0}, {11, 97, 1, 0}, {12, 50, 1, 0}}, paySalt: 1, payN: 3}
	c01UCode(e, gUCode{g: demo})
	c01UCode(e, gUCode{g: gMsg{tok: []byte{1}, code: 69, typ: 2, mid: 1, opts: c01AllRegistry(false), capExtra: 1}})
	c01UCode(e, gUCode{g: gMsg{tok: []byte{2}, code: 69, typ: 0, mid: 2, opts: append([]gOpt{{2, 3, 5, 0}}, c01AllRegistry(true)...), paySalt: 2, payN: 1, capExtra: 0}})
	c01UCode(e, gUCode{g: gMsg{code: 0, typ: 0, mid: 0}})
	// option 2 (unregistered in datagram framing: any length) and ETag (1-8 bytes), the lengths at which the
	// signalling tables of RFC 8323 differ (CSM 2:0-4 4:0-0, Ping/Pong 2:0-0, Release 2:1-255 4:0-3, Abort 2:0-2)
	for i, l := range []int{0, 1, 2, 3, 4, 5, 12, 13, 255, 256, 300} {
		c01UCode(e, gUCode{g: gMsg{tok: []byte{byte(l)}, code: 2, typ: i % 4, mid: 100 + i, opts: []gOpt{{2, 40 + i, l, 0}, {11, 98, 2, 0}}, paySalt: 3, payN: 2, capExtra: i % 2}, codes: c01CodeSample})
	}
	for l := 1; l <= 8; l++ {
		c01UCode(e, gUCode{g: gMsg{tok: []byte{byte(l), 4}, code: 3, typ: l % 4, mid: 200 + l, opts: []gOpt{{4, 60 + l, l, 0}, {12, 50, 1, 0}}, paySalt: 4, payN: l % 3, capExtra: l % 2}, codes: c01CodeSample})
	}
	for i, p := range [][2]int{{0, 1}, {1, 4}, {4, 1}, {5, 8}, {3, 3}, {255, 8}} {
		c01UCode(e, gUCode{g: gMsg{tok: []byte{9, byte(i)}, code: 4, typ: i % 4, mid: 300 + i, opts: []gOpt{{2, 70 + i, p[0], 0}, {4, 80 + i, p[1], 0}}, capExtra: 0}, codes: c01CodeSample})
	}
	// a uint-looking ETag with leading zeros, repeated options 2 and 4
	c01UCode(e, gUCode{g: gMsg{tok: []byte{5}, code: 1, typ: 1, mid: 400, opts: []gOpt{{2, 1, 3, 1}, {2, 2, 6, 0}, {4, 3, 4, 2}, {4, 4, 8, 0}}, paySalt: 5, payN: 4, capExtra: 16}, codes: c01CodeSample})

	// ordinary cases (Size / Encode / Decode / pooled), both coders: signalling codes x options 2 and 4.
	// Datagram coder: all inside the preconditions when the length is legal in the CoAP registry.
	// Stream coder: inside or outside according to the table of the code (outside: model correspondence only).
	for coder := 0; coder <= 1; coder++ {
		for code := 225; code <= 229; code++ {
			for i, l := range []int{0, 1, 2, 3, 4, 5, 255, 256} {
				c01Run(e, gMsg{coder: coder, tok: []byte{byte(code)}, code: code, typ: i % 4, mid: 500 + i, opts: []gOpt{{2, 10 + i, l, 0}, {11, 99, 1, 0}}, paySalt: 6, payN: 2, capExtra: 0})
			}
			for i, l := range []int{0, 1, 3, 4, 8, 9} {
				c01Run(e, gMsg{coder: coder, tok: []byte{byte(code), 4}, code: code, typ: i % 4, mid: 600 + i, opts: []gOpt{{4, 30 + i, l, 0}, {12, 50, 1, 0}}, paySalt: 7, payN: i % 2, capExtra: 1})
			}
		}
	}
}

// genDatagramMessage draws a message the datagram coder encodes; in about half of them an
// option 2 and/or an ETag with a length legal in the CoAP registry is put in front.
func genDatagramMessage(rng *Rng) gMsg {
	g := gMsg{coder: 0, code: 1}
	for i := 0; i < 50; i++ {
		c := genMessage(rng.Fork(), 0, false)
		if len(c.tok) > 8 || c.code > 255 || c.typ < 0 || c.typ > 3 || c.mid < 0 || c.mid > 65535 || c.totalBytes() > 3000 {
			continue
		}
		g = c
		break
	}
	if rng.Chance(55) {
		var front []gOpt
		if rng.Chance(60) {
			front = append(front, gOpt{2, rng.Intn(251), rng.Pick([]int{0, 1, 2, 3, 4, 5, 6, 13, 255, 256, 270}), 0})
		}
		if len(front) == 0 || rng.Chance(60) {
			front = append(front, gOpt{4, rng.Intn(251), 1 + rng.Intn(8), 0})
		}
		var rest []gOpt
		for _, o := range g.opts {
			if o.id >= 4 {
				rest = append(rest, o)
			}
		}
		// keep the list sorted: drop what was below 4 (number 1, 2, 3), the new options go first
		g.opts = append(front, rest...)
		if g.capExtra < 0 {
			g.capExtra = 0
		}
	}
	return g
}

func c01CodeRandom(e *Emitter, rng *Rng, n int) {
	for i := 0; i < n; i++ {
		r := rng.Fork()
		u := gUCode{g: genDatagramMessage(r)}
		u.codes = []int{225, 226, 227, 228, 229}
		for j := 0; j < 5; j++ {
			u.codes = append(u.codes, r.Intn(256))
		}
		u.codes = append(u.codes, r.Pick([]int{0, 1, 2, 3, 4, 65, 68, 69, 95, 128, 132, 160, 163, 165, 224, 230, 231, 255}))
		c01UCode(e, u)
	}
}
