package main

// C10, round 3: the KEYS of the peer table and of the discovery table.
//
//   keyrep:<seed>   getConnKey (verif hook) on addresses whose IPv4 IPs come in both representations (4 bytes as
//                   the kernel reports them, 16 bytes as net.IPv4 / net.ParseIP / net.ResolveUDPAddr make them)
//   rep:<seed>      a live udp server bound to 127.0.0.1; peers send requests from AF_INET sockets, the application
//                   asks for the connection of a peer with addresses it built itself (either representation, with
//                   or without the local address in either representation) and sends requests over it
//   tokkey:<seed>   Token.Hash() of tokens, among them tokens that differ only in zero bytes in front
//   disctok:<seed>  the disc: driver with a token pool made of one byte string with 0, 1, 2, ... zero bytes in front
//
// Coq side: Server/Addr.v, Server/TokenKey.v, cases KeyRep / RepRun / TokKey / DiscRun of Server/Run.v.

import (
	"bytes"
	"context"
	"errors"
	"fmt"
	"net"
	"strconv"
	"strings"
	"sync"
	"time"

	"github.com/plgd-dev/go-coap/v3/message"
	"github.com/plgd-dev/go-coap/v3/message/codes"
	"github.com/plgd-dev/go-coap/v3/mux"
	coapNet "github.com/plgd-dev/go-coap/v3/net"
	"github.com/plgd-dev/go-coap/v3/options"
	"github.com/plgd-dev/go-coap/v3/udp"
	udpClient "github.com/plgd-dev/go-coap/v3/udp/client"
	udpServer "github.com/plgd-dev/go-coap/v3/udp/server"
)

func c10RoundThreeFamilies(e *Emitter, a runArgs, mult int) error {
	rng := NewRng(a.seed ^ 0xC10ADD7E55)
	f := strings.Split(a.only, ":")
	one := func(prefix string) (uint64, bool) {
		if a.only != "" && f[0] == prefix && len(f) == 2 {
			sd, _ := strconv.ParseUint(f[1], 10, 64)
			return sd, true
		}
		return 0, false
	}
	seeds := func(prefix string, n int) []uint64 {
		if sd, ok := one(prefix); ok {
			return []uint64{sd}
		}
		var out []uint64
		if a.only == "" {
			for i := 0; i < n; i++ {
				out = append(out, rng.U64()%1000000007)
			}
		}
		return out
	}
	for _, sd := range seeds("keyrep", 200*mult) {
		coq, both := c10KeyRepCase(NewRng(sd))
		if both {
			e.Hist["keyrep:same-pair-two-representations"]++
		}
		e.AddW(coq, fmt.Sprintf("keyrep:%d", sd), both, 0, "keyrep")
	}
	for _, sd := range seeds("tokkey", 4*mult) {
		coq := c10TokKeyCase(NewRng(sd))
		e.AddW(coq, fmt.Sprintf("tokkey:%d", sd), true, 1, "tokkey")
	}
	for _, sd := range seeds("rep", 12*mult) {
		var coq string
		var hist map[string]int
		for attempt := 0; attempt < 2; attempt++ {
			var clean bool
			var err error
			coq, hist, clean, err = c10RepRun(sd)
			if err != nil {
				return err
			}
			if clean {
				break
			}
			// an awaited datagram did not come within the watchdog: repeat once, then emit as observed
			e.Hist["rerun-after-watchdog"]++
		}
		for k, v := range hist {
			e.Hist["rep:"+k] += v
		}
		e.AddW(coq, fmt.Sprintf("rep:%d", sd), hist["lookup-with-other-representation"] > 0, 1+len(coq)/4000, "rep-run")
	}
	for _, sd := range seeds("disctok", 8*mult) {
		coq, err := c10DiscRun(sd, false, true)
		if err != nil {
			return err
		}
		e.AddW(coq, fmt.Sprintf("disctok:%d", sd), strings.Contains(coq, "DS_Resp"), 1+len(coq)/4000, "disctok-run")
	}
	return nil
}

// ---------- addresses byte by byte ----------

func coqIPBytes(ip net.IP) string { return coqBytes([]byte(ip)) }

func coqNAddr(a *net.UDPAddr) string {
	z := 0
	if a.Zone != "" {
		z, _ = strconv.Atoi(strings.TrimPrefix(a.Zone, "z"))
	}
	return fmt.Sprintf("(NA %s %d %d)", coqIPBytes(a.IP), a.Port, z)
}

// c10FlipRep returns the same address with an IPv4 IP in the other representation (and whether there is one).
func c10FlipRep(a *net.UDPAddr) (*net.UDPAddr, bool) {
	v4 := a.IP.To4()
	if v4 == nil {
		return a, false
	}
	b := *a
	if len(a.IP) == net.IPv4len {
		b.IP = append(net.IP{}, v4.To16()...)
	} else {
		b.IP = append(net.IP{}, v4...)
	}
	return &b, true
}

func c10RepAddr(rng *Rng) *net.UDPAddr {
	v4 := [][4]byte{{0, 0, 0, 0}, {224, 0, 1, 187}, {239, 1, 2, 3}, {127, 0, 0, 1}, {127, 0, 0, 2}, {10, 0, 0, 7}, {255, 255, 255, 255}, {0, 0, 0, 1}}
	v6 := []string{"::", "ff02::fd", "::1", "fe80::1", "2001:db8::1", "ff::1"}
	a := &net.UDPAddr{Port: rng.Pick([]int{5683, 5684, 40001})}
	switch k := rng.Intn(100); {
	case k < 12:
		// no IP
	case k < 75:
		b := v4[rng.Intn(len(v4))]
		if rng.Bool() {
			a.IP = net.IP{b[0], b[1], b[2], b[3]}
		} else {
			a.IP = net.IPv4(b[0], b[1], b[2], b[3])
		}
	default:
		a.IP = net.ParseIP(v6[rng.Intn(len(v6))])
	}
	if rng.Chance(15) {
		a.Zone = rng.PickS([]string{"z1", "z2"})
	}
	return a
}

func c10KeyRepCase(rng *Rng) (string, bool) {
	r1, l1 := c10RepAddr(rng), c10RepAddr(rng)
	r2, l2 := c10RepAddr(rng), c10RepAddr(rng)
	both := false
	switch rng.Intn(7) {
	case 0: // the same pair, remote address in the other representation
		r2, both = c10FlipRep(r1)
		l2 = l1
	case 1: // ... local address in the other representation
		r2 = r1
		l2, both = c10FlipRep(l1)
	case 2: // ... both
		var b1, b2 bool
		r2, b1 = c10FlipRep(r1)
		l2, b2 = c10FlipRep(l1)
		both = b1 || b2
	case 3: // same remote (other representation), another local address on the same port
		r2, _ = c10FlipRep(r1)
		l2 = &net.UDPAddr{IP: l2.IP, Port: l1.Port, Zone: l2.Zone}
	case 4: // the wildcard twin of l1
		r2 = r1
		l2 = &net.UDPAddr{Port: l1.Port}
	case 5: // same IPs, other remote port
		r2, _ = c10FlipRep(r1)
		r2 = &net.UDPAddr{IP: r2.IP, Port: r1.Port + 1, Zone: r2.Zone}
		l2 = l1
	}
	eq := udpServer.VerifGetConnKey(r1, l1) == udpServer.VerifGetConnKey(r2, l2)
	fb := udpServer.VerifLocalAddrCanFallbackToWildcard(l1)
	w := udpServer.VerifToWildcardLocalAddr(l1)
	weq := w.String() == l2.String()
	return fmt.Sprintf("KeyRep %s %s %s %s %s %s %s", coqNAddr(r1), coqNAddr(l1), coqNAddr(r2), coqNAddr(l2), coqBool(eq), coqBool(fb), coqBool(weq)), both
}

// ---------- Token.Hash ----------

func c10TokKeyCase(rng *Rng) string {
	var toks [][]byte
	for i := 0; i < 6; i++ {
		n := 1 + rng.Intn(4)
		base := make([]byte, n)
		for j := range base {
			base[j] = byte(rng.Intn(256))
		}
		if rng.Chance(30) {
			base[0] = 0
		}
		for z := 0; z+n <= 8; z++ {
			if z > 2 && z+n != 8 && !rng.Chance(30) {
				continue
			}
			toks = append(toks, append(make([]byte, z), base...))
		}
	}
	toks = append(toks, []byte{}, []byte{0}, []byte{0, 0}, []byte{0, 0, 0, 0, 0, 0, 0, 0})
	for i := 0; i < 6; i++ {
		t := make([]byte, rng.Intn(9))
		for j := range t {
			t[j] = byte(rng.Intn(256))
		}
		toks = append(toks, t)
	}
	parts := make([]string, len(toks))
	for i, t := range toks {
		parts[i] = fmt.Sprintf("(%s, %d)", coqBytes(t), message.Token(t).Hash())
	}
	return "TokKey [" + strings.Join(parts, "; ") + "]"
}

// ---------- live server, look-ups with both representations ----------

type c10ConnMux struct {
	router *mux.Router
	rec    func(cc mux.Conn, m *mux.Message) bool
}

func (h *c10ConnMux) ServeCOAP(w mux.ResponseWriter, r *mux.Message) {
	if h.rec(w.Conn(), r) {
		return // a response nobody waits for: recorded, not routed
	}
	h.router.ServeCOAP(w, r)
}

func c10RepRun(seed uint64) (string, map[string]int, bool, error) {
	clean := true
	rng := NewRng(seed)
	hist := map[string]int{}
	app := newC10App()
	l, err := coapNet.NewListenUDP("udp4", "127.0.0.1:0")
	if err != nil {
		return "", nil, false, err
	}
	var mu sync.Mutex
	order := map[*udpClient.Conn]int{}
	type hrec struct {
		id  int
		tok []byte
	}
	var handled, strays []hrec
	idOf := func(cc mux.Conn) int {
		c, ok := cc.(*udpClient.Conn)
		if !ok {
			return -5
		}
		if id, ok := order[c]; ok {
			return id
		}
		return -4
	}
	h := &c10ConnMux{router: app.router(), rec: func(cc mux.Conn, m *mux.Message) bool {
		mu.Lock()
		defer mu.Unlock()
		r := hrec{idOf(cc), append([]byte{}, m.Token()...)}
		if int(m.Code()) >= 64 { // a response (class 2..5): not a request of the peer
			strays = append(strays, r)
			return true
		}
		handled = append(handled, r)
		return false
	}}
	s := udp.NewServer(options.WithMux(h), options.WithErrors(app.onErr),
		options.WithInactivityMonitor(time.Hour, func(cc *udpClient.Conn) { _ = cc.Close() }),
		options.WithOnNewConn(func(cc *udpClient.Conn) {
			mu.Lock()
			order[cc] = len(order)
			mu.Unlock()
		}))
	ret := make(chan error, 1)
	go func() { ret <- s.Serve(l) }()
	defer func() {
		s.Stop()
		select {
		case <-ret:
		case <-time.After(c10Wait):
		}
		_ = l.Close()
	}()
	lst := l.LocalAddr().(*net.UDPAddr)
	dstAddr := &net.UDPAddr{IP: net.IPv4(127, 0, 0, 1), Port: lst.Port}
	// wait until the server is serving: NewConn fails before
	deadline := time.Now().Add(c10Wait)
	probeAddr := &net.UDPAddr{IP: net.IPv4(127, 0, 0, 9), Port: 9}
	for {
		if _, err := s.NewConn(probeAddr); err == nil {
			break
		}
		if time.Now().After(deadline) {
			return "", nil, false, errors.New("rep run: server did not start")
		}
		time.Sleep(time.Millisecond)
	}
	steps := []string{fmt.Sprintf("RNewConn %s None 0", coqNAddr(probeAddr))}
	var socks []*net.UDPConn
	var raddrs []*net.UDPAddr // as the kernel reports them: 4-byte IPs
	npeers := 2 + rng.Intn(2)
	for i := 0; i < npeers; i++ {
		c, err := net.ListenUDP("udp4", &net.UDPAddr{IP: net.IPv4(127, 0, 0, byte(1+i)), Port: 0})
		if err != nil {
			return "", nil, false, err
		}
		defer c.Close()
		socks = append(socks, c)
		raddrs = append(raddrs, c.LocalAddr().(*net.UDPAddr))
	}
	// an address of peer j the way an application gets one
	appAddr := func(j int) (*net.UDPAddr, error) {
		switch rng.Intn(3) {
		case 0: // from a datagram / the socket: 4 bytes
			a := *raddrs[j]
			return &a, nil
		case 1: // resolved from text: 16 bytes
			return net.ResolveUDPAddr("udp4", raddrs[j].String())
		default: // net.IPv4(): 16 bytes
			ip := raddrs[j].IP.To4()
			return &net.UDPAddr{IP: net.IPv4(ip[0], ip[1], ip[2], ip[3]), Port: raddrs[j].Port}, nil
		}
	}
	appLocal := func() *net.UDPAddr {
		switch rng.Intn(4) {
		case 0, 1:
			return nil
		case 2: // the listener's own address object (4 bytes)
			a := *lst
			return &a
		default:
			return &net.UDPAddr{IP: net.IPv4(127, 0, 0, 1), Port: lst.Port}
		}
	}
	newConn := func(ra, la *net.UDPAddr) (*udpClient.Conn, int) {
		var cc *udpClient.Conn
		var err error
		if la == nil {
			cc, err = s.NewConn(ra)
		} else {
			cc, err = s.NewConn(ra, la)
		}
		if err != nil {
			return nil, -1
		}
		mu.Lock()
		defer mu.Unlock()
		if id, ok := order[cc]; ok {
			return cc, id
		}
		return cc, -4
	}
	coqOpt := func(la *net.UDPAddr) string {
		if la == nil {
			return "None"
		}
		return "(Some " + coqNAddr(la) + ")"
	}
	mid := 500
	n := 7 + rng.Intn(8)
	for i := 0; i < n; i++ {
		j := rng.Intn(npeers)
		switch k := rng.Intn(10); {
		case k < 4 || i == 0: // the peer sends a request
			tok := []byte{byte(0xB0 + j), byte(i)}
			mid++
			typ := rng.Intn(2)
			d := encodeWire(typ, 1, mid, tok, c10PathOpts(1), nil)
			if _, err := socks[j].WriteToUDP(d, dstAddr); err != nil {
				return "", nil, false, err
			}
			p := &c10Peer{conn: socks[j]}
			w := p.await(&c10Sched{}, dstAddr, func(w wireMsg) bool { return bytes.Equal(w.Tok, tok) && w.Code != 0 }, false)
			id := -4
			mu.Lock()
			for _, r := range handled {
				if bytes.Equal(r.tok, tok) {
					id = r.id
				}
			}
			mu.Unlock()
			if w == nil {
				clean = false
			}
			hist["datagram"]++
			steps = append(steps, fmt.Sprintf("RDgram %s %s %s %s", coqNAddr(raddrs[j]), coqBytes(d), coqZ(int64(id)), coqBool(w != nil)))
		case k < 7: // Server.NewConn with an address the application made
			ra, err := appAddr(j)
			if err != nil {
				return "", nil, false, err
			}
			la := appLocal()
			_, id := newConn(ra, la)
			if len(ra.IP) == net.IPv6len || (la != nil && len(la.IP) == net.IPv6len) {
				hist["lookup-with-other-representation"]++
			}
			hist["newconn"]++
			steps = append(steps, fmt.Sprintf("RNewConn %s %s %s", coqNAddr(ra), coqOpt(la), coqZ(int64(id))))
		default: // the server sends a request over the connection of the peer; the peer answers it
			ra, err := appAddr(j)
			if err != nil {
				return "", nil, false, err
			}
			la := appLocal()
			cc, id := newConn(ra, la)
			if len(ra.IP) == net.IPv6len || (la != nil && len(la.IP) == net.IPv6len) {
				hist["lookup-with-other-representation"]++
			}
			hist["server-request"]++
			ans, stray := false, false
			if cc != nil {
				tok := message.Token{byte(0xC0 + j), byte(i)}
				ctx, cancel := context.WithCancel(context.Background())
				req, err := cc.NewGetRequest(ctx, "/x")
				if err != nil {
					cancel()
					return "", nil, false, err
				}
				req.SetToken(tok)
				done := make(chan bool, 1)
				go func() {
					resp, err := cc.Do(req)
					done <- err == nil && resp.Code() == codes.Content
				}()
				p := &c10Peer{conn: socks[j]}
				w := p.await(&c10Sched{}, dstAddr, func(w wireMsg) bool { return w.Code == 1 && bytes.Equal(w.Tok, tok) }, false)
				if w != nil {
					typ := 1
					if w.Typ == 0 {
						typ = 2 // piggybacked response
					}
					if _, err := socks[j].WriteToUDP(encodeWire(typ, 69, w.MID, tok, nil, []byte{0x50}), dstAddr); err != nil {
						cancel()
						return "", nil, false, err
					}
				}
				strayed := func() bool {
					mu.Lock()
					defer mu.Unlock()
					for _, r := range strays {
						if bytes.Equal(r.tok, tok) {
							return true
						}
					}
					return false
				}
				// witness: the answer came back to the request, or the application got it as a stray response
				dl := time.Now().Add(c10Wait)
				finished := false
				if w == nil {
					clean = false
				}
				for !finished {
					select {
					case ok := <-done:
						ans, finished = ok, true
					default:
						if strayed() || time.Now().After(dl) {
							if !strayed() {
								clean = false
							}
							cancel()
							select {
							case ok := <-done:
								ans = ok
							case <-time.After(c10Wait):
							}
							finished = true
						} else {
							time.Sleep(200 * time.Microsecond)
						}
					}
				}
				cancel()
				stray = strayed()
			}
			steps = append(steps, fmt.Sprintf("RSrvReq %s %s %s %s %s", coqNAddr(ra), coqOpt(la), coqZ(int64(id)), coqBool(ans), coqBool(stray)))
		}
	}
	mu.Lock()
	news := len(order)
	mu.Unlock()
	return fmt.Sprintf("RepRun %s (Some %s) [%s] %d", coqNAddr(lst), coqIPBytes(net.IPv4(127, 0, 0, 1).To4()), strings.Join(steps, ";\n    "), news), hist, clean, nil
}
