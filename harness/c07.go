package main

// C07: stream framing is independent of how the bytes are segmented.
// Drives the REAL tcp/client.Conn over a scripted net.Conn whose Read hands out
// harness-chosen chunk sizes, and records: the ordered log of messages the
// session accepted (request monitor, runs on the Run goroutine), the handler
// log, the signal log, the class of Run's error and how many reads / bytes the
// connection consumed.

import (
	"context"
	"encoding/hex"
	"errors"
	"fmt"
	"io"
	"net"
	"strconv"
	"strings"
	"sync"
	"time"

	"github.com/plgd-dev/go-coap/v3/message"
	"github.com/plgd-dev/go-coap/v3/message/codes"
	"github.com/plgd-dev/go-coap/v3/message/pool"
	coapNet "github.com/plgd-dev/go-coap/v3/net"
	"github.com/plgd-dev/go-coap/v3/net/responsewriter"
	tcpclient "github.com/plgd-dev/go-coap/v3/tcp/client"
	tcpcoder "github.com/plgd-dev/go-coap/v3/tcp/coder"
)

func init() { props["C07"] = runC07 }

// ---------------------------------------------------------------- items

type c07Opt struct {
	delta int
	val   []byte
}

type c07Item struct {
	raw   bool
	code  int
	tok   []byte
	opts  []c07Opt
	psalt int
	plen  int
	hdr   []byte // raw: literal bytes followed by genBody(psalt, plen)
}

func (it c07Item) desc() string {
	if it.raw {
		return fmt.Sprintf("R,%s,%d,%d", hex.EncodeToString(it.hdr), it.psalt, it.plen)
	}
	os := make([]string, 0, len(it.opts))
	for _, o := range it.opts {
		os = append(os, fmt.Sprintf("%d:%s", o.delta, hex.EncodeToString(o.val)))
	}
	return fmt.Sprintf("M,%d,%s,%s,%d,%d", it.code, hex.EncodeToString(it.tok), strings.Join(os, "+"), it.psalt, it.plen)
}

func c07ParseItem(s string) (c07Item, error) {
	f := strings.Split(s, ",")
	atoi := func(x string) int { v, _ := strconv.Atoi(x); return v }
	switch {
	case f[0] == "R" && len(f) == 4:
		h, err := hex.DecodeString(f[1])
		return c07Item{raw: true, hdr: h, psalt: atoi(f[2]), plen: atoi(f[3])}, err
	case f[0] == "M" && len(f) == 6:
		tok, err := hex.DecodeString(f[2])
		if err != nil {
			return c07Item{}, err
		}
		it := c07Item{code: atoi(f[1]), tok: tok, psalt: atoi(f[4]), plen: atoi(f[5])}
		if f[3] != "" {
			for _, o := range strings.Split(f[3], "+") {
				p := strings.SplitN(o, ":", 2)
				v, err := hex.DecodeString(p[1])
				if err != nil {
					return c07Item{}, err
				}
				it.opts = append(it.opts, c07Opt{atoi(p[0]), v})
			}
		}
		return it, nil
	}
	return c07Item{}, fmt.Errorf("bad item %q", s)
}

func (it c07Item) coq() string {
	if it.raw {
		return fmt.Sprintf("Raw %s %d %d", coqBytes(it.hdr), it.psalt, it.plen)
	}
	os := make([]string, 0, len(it.opts))
	for _, o := range it.opts {
		os = append(os, fmt.Sprintf("(%d,%s)", o.delta, coqBytes(o.val)))
	}
	return fmt.Sprintf("Msg %d %s [%s] %d %d", it.code, coqBytes(it.tok), strings.Join(os, ";"), it.psalt, it.plen)
}

// bytes of an item: messages are encoded by the REAL tcp coder
func (it c07Item) bytes() ([]byte, error) {
	if it.raw {
		return append(append([]byte{}, it.hdr...), genBody(it.psalt, it.plen)...), nil
	}
	m := message.Message{Code: codes.Code(it.code), Token: it.tok}
	id := 0
	for _, o := range it.opts {
		id += o.delta
		m.Options = append(m.Options, message.Option{ID: message.OptionID(id), Value: o.val})
	}
	if it.plen > 0 {
		m.Payload = genBody(it.psalt, it.plen)
	}
	n, err := tcpcoder.DefaultCoder.Size(m)
	if err != nil {
		return nil, err
	}
	buf := make([]byte, n)
	n, err = tcpcoder.DefaultCoder.Encode(m, buf)
	if err != nil {
		return nil, err
	}
	return buf[:n], nil
}

// c07Sum mirrors Stream/Spec.v fsum.
func c07Sum(b []byte) uint64 {
	var a, s uint64
	for _, x := range b {
		a += uint64(x) + 1
		s += a
	}
	return (s&(1<<36-1))<<28 | a&(1<<28-1)
}

// ---------------------------------------------------------------- scripted net.Conn

type c07Obs struct {
	code, tkl int
	tcs       uint64
	plen      int
	pcs       uint64
}

func (o c07Obs) coq() string {
	return fmt.Sprintf("Ob %d %d %d %d %d", o.code, o.tkl, o.tcs, o.plen, o.pcs)
}

type c07Logs struct {
	mu     sync.Mutex
	acc    []c07Obs
	hand   []c07Obs
	kept   []*pool.Message // the handler hijacks every message; observed again when the connection is done
	sig    []int
	accOrd int
	poke   chan struct{}
}

// waitHandled blocks until every accepted ordinary message has reached the
// handler (state-change witness: the handler pokes), or the timeout expires.
func (l *c07Logs) waitHandled(timeout time.Duration) {
	deadline := time.NewTimer(timeout)
	defer deadline.Stop()
	for {
		l.mu.Lock()
		done := len(l.hand) >= l.accOrd
		l.mu.Unlock()
		if done {
			return
		}
		select {
		case <-l.poke:
		case <-deadline.C:
			return
		}
	}
}

type c07Addr struct{}

func (c07Addr) Network() string { return "script" }
func (c07Addr) String() string  { return "script" }

type c07Conn struct {
	mu     sync.Mutex
	data   []byte
	pos    int
	chunks []int
	ci     int
	cache  int
	reads  int
	bytes  int
	badReq int
	writes int
	closed chan struct{}
	once   sync.Once
	atEnd  func()
}

func (c *c07Conn) Read(p []byte) (int, error) {
	select {
	case <-c.closed:
		return 0, net.ErrClosed
	default:
	}
	c.mu.Lock()
	if len(p) != c.cache {
		c.badReq++
	}
	if c.ci < len(c.chunks) {
		n := c.chunks[c.ci]
		c.ci++
		if n > len(p) {
			n = len(p) // never happens: chunks are clipped to the cache size when planned
			c.badReq++
		}
		copy(p, c.data[c.pos:c.pos+n])
		c.pos += n
		c.reads++
		c.bytes += n
		c.mu.Unlock()
		return n, nil
	}
	c.mu.Unlock()
	// script exhausted: this very call shows that everything handed over so far
	// went through processBuffer. Keep the stream open until the handler has
	// caught up, then end it.
	c.atEnd()
	return 0, io.EOF
}

func (c *c07Conn) Write(p []byte) (int, error) {
	c.mu.Lock()
	c.writes++
	c.mu.Unlock()
	return len(p), nil
}
func (c *c07Conn) Close() error                     { c.once.Do(func() { close(c.closed) }); return nil }
func (c *c07Conn) LocalAddr() net.Addr              { return c07Addr{} }
func (c *c07Conn) RemoteAddr() net.Addr             { return c07Addr{} }
func (c *c07Conn) SetDeadline(time.Time) error      { return nil }
func (c *c07Conn) SetReadDeadline(time.Time) error  { return nil }
func (c *c07Conn) SetWriteDeadline(time.Time) error { return nil }

type c07Result struct {
	logs   *c07Logs
	held   []c07Obs
	errc   int
	reads  int
	bytes  int
	badReq int
}

func c07ErrClass(err error) int {
	switch {
	case err == nil, errors.Is(err, io.EOF):
		return 0
	case strings.Contains(err.Error(), "max message size"):
		return 1
	case strings.Contains(err.Error(), "cannot unmarshal with header"):
		return 2
	case errors.Is(err, message.ErrInvalidTokenLen):
		return 3
	case errors.Is(err, message.ErrInvalidEncoding):
		return 4
	}
	return 9
}

var c07Pool = pool.New(1024, 2048)

func c07Run(cache, max int, data []byte, chunks []int) c07Result {
	logs := &c07Logs{poke: make(chan struct{}, 1)}
	obsOf := func(r *pool.Message) c07Obs {
		body, _ := r.ReadBody()
		tok := r.Token()
		return c07Obs{int(r.Code()), len(tok), c07Sum(tok), len(body), c07Sum(body)}
	}
	sc := &c07Conn{data: data, chunks: chunks, cache: cache, closed: make(chan struct{})}
	sc.atEnd = func() { logs.waitHandled(10 * time.Second) }
	cfg := tcpclient.DefaultConfig
	cfg.Ctx = context.Background()
	cfg.MaxMessageSize = uint32(max)
	cfg.ConnectionCacheSize = uint16(cache)
	cfg.Errors = func(error) {}
	cfg.CloseSocket = true
	cfg.MessagePool = c07Pool
	cfg.ReceivedMessageQueueSize = 4
	cfg.Handler = func(_ *responsewriter.ResponseWriter[*tcpclient.Conn], r *pool.Message) {
		o := obsOf(r)
		r.Hijack()
		logs.mu.Lock()
		logs.hand = append(logs.hand, o)
		logs.kept = append(logs.kept, r)
		logs.mu.Unlock()
		select {
		case logs.poke <- struct{}{}:
		default:
		}
	}
	isSignal := func(c codes.Code) bool {
		return c == codes.CSM || c == codes.Ping || c == codes.Pong || c == codes.Release || c == codes.Abort
	}
	monitor := func(_ *tcpclient.Conn, r *pool.Message) (bool, error) {
		o := obsOf(r)
		logs.mu.Lock()
		logs.acc = append(logs.acc, o)
		if !isSignal(r.Code()) {
			logs.accOrd++
		}
		logs.mu.Unlock()
		return false, nil
	}
	res := c07Result{logs: logs}
	done := make(chan int, 1)
	var cc *tcpclient.Conn
	go func() {
		defer func() {
			if r := recover(); r != nil {
				done <- 7
			}
		}()
		cc = tcpclient.NewConnWithOpts(coapNet.NewConn(sc), &cfg, tcpclient.WithRequestMonitor(monitor))
		cc.SetTCPSignalReceivedHandler(func(c codes.Code) {
			logs.mu.Lock()
			logs.sig = append(logs.sig, int(c))
			logs.mu.Unlock()
		})
		// messages still queued when Run ends are dispatched only while the
		// connection's Done channel is open; on-close callbacks run before it closes
		cc.AddOnClose(func() { logs.waitHandled(10 * time.Second) })
		err := cc.Run()
		<-cc.Done()
		done <- c07ErrClass(err)
	}()
	select {
	case res.errc = <-done:
	case <-time.After(60 * time.Second):
		res.errc = 8 // hang
		_ = sc.Close()
	}
	sc.mu.Lock()
	res.reads, res.bytes, res.badReq = sc.reads, sc.bytes, sc.badReq
	sc.mu.Unlock()
	// the messages the handler kept, as they read now that everything else went through the connection
	logs.mu.Lock()
	for _, r := range logs.kept {
		res.held = append(res.held, obsOf(r))
	}
	logs.mu.Unlock()
	return res
}

// ---------------------------------------------------------------- case assembly

type c07Case struct {
	cache, max int
	items      []c07Item
	chunks     []int
}

func c07ChunksDesc(ch []int) string {
	var p []string
	for i := 0; i < len(ch); {
		j := i
		for j < len(ch) && ch[j] == ch[i] {
			j++
		}
		if j-i > 2 {
			p = append(p, fmt.Sprintf("%dx%d", ch[i], j-i))
		} else {
			for k := i; k < j; k++ {
				p = append(p, strconv.Itoa(ch[i]))
			}
		}
		i = j
	}
	return strings.Join(p, ",")
}

func c07ParseChunks(s string) []int {
	var r []int
	if s == "" {
		return r
	}
	for _, p := range strings.Split(s, ",") {
		if i := strings.Index(p, "x"); i >= 0 {
			v, _ := strconv.Atoi(p[:i])
			n, _ := strconv.Atoi(p[i+1:])
			for k := 0; k < n; k++ {
				r = append(r, v)
			}
		} else {
			v, _ := strconv.Atoi(p)
			r = append(r, v)
		}
	}
	return r
}

func (c c07Case) desc() string {
	is := make([]string, len(c.items))
	for i, it := range c.items {
		is[i] = it.desc()
	}
	return fmt.Sprintf("c=%d;m=%d;i=%s;k=%s", c.cache, c.max, strings.Join(is, "|"), c07ChunksDesc(c.chunks))
}

func c07ParseCase(s string) (c07Case, error) {
	var c c07Case
	for _, kv := range strings.Split(s, ";") {
		p := strings.SplitN(kv, "=", 2)
		if len(p) != 2 {
			return c, fmt.Errorf("bad descriptor %q", s)
		}
		switch p[0] {
		case "c":
			c.cache, _ = strconv.Atoi(p[1])
		case "m":
			c.max, _ = strconv.Atoi(p[1])
		case "k":
			c.chunks = c07ParseChunks(p[1])
		case "i":
			if p[1] != "" {
				for _, is := range strings.Split(p[1], "|") {
					it, err := c07ParseItem(is)
					if err != nil {
						return c, err
					}
					c.items = append(c.items, it)
				}
			}
		}
	}
	return c, nil
}

// clip planned chunk sizes to the read-buffer size and make them cover exactly n bytes
func c07Clip(plan []int, cache, n int) []int {
	var r []int
	left := n
	for _, p := range plan {
		if left == 0 && p > 0 {
			break
		}
		if p > left {
			p = left
		}
		if p == 0 {
			r = append(r, 0)
			continue
		}
		for p > 0 {
			q := p
			if q > cache {
				q = cache
			}
			r = append(r, q)
			p -= q
			left -= q
		}
	}
	for left > 0 {
		q := left
		if q > cache {
			q = cache
		}
		r = append(r, q)
		left -= q
	}
	return r
}

func c07Emit(e *Emitter, c c07Case, hist ...string) error {
	var data []byte
	for _, it := range c.items {
		b, err := it.bytes()
		if err != nil {
			return nil // not encodable by the library: not a case
		}
		data = append(data, b...)
	}
	c.chunks = c07Clip(c.chunks, c.cache, len(data))
	if e.seen[c.desc()] {
		return nil // same stream and same effective chunking already run (small caches clip chunkings to the same cut)
	}
	res := c07Run(c.cache, c.max, data, c.chunks)
	l := res.logs
	l.mu.Lock()
	defer l.mu.Unlock()
	is := make([]string, len(c.items))
	for i, it := range c.items {
		is[i] = it.coq()
	}
	var cs []string
	for i := 0; i < len(c.chunks); {
		j := i
		for j < len(c.chunks) && c.chunks[j] == c.chunks[i] {
			j++
		}
		cs = append(cs, fmt.Sprintf("(%d,%d)", c.chunks[i], j-i))
		i = j
	}
	ol := func(os []c07Obs) string {
		p := make([]string, len(os))
		for i, o := range os {
			p[i] = o.coq()
		}
		return "[" + strings.Join(p, ";") + "]"
	}
	sg := make([]string, len(l.sig))
	for i, s := range l.sig {
		sg[i] = strconv.Itoa(s)
	}
	coq := fmt.Sprintf("Stream %d %d [%s] %d %d [%s] %s %s [%s] %d %d %d %d",
		c.cache, c.max, strings.Join(is, ";"), len(data), c07Sum(data), strings.Join(cs, ";"),
		ol(l.acc), ol(l.hand), strings.Join(sg, ";"), res.errc, res.reads, res.bytes, res.badReq)
	// non-trivial: at least two frames' worth of input or a cut inside a frame, or an oversize/malformed item
	nt := len(c.items) >= 2 || len(c.chunks) >= 2
	w := 1 + (len(data)/64)*(1+len(c.chunks)/16)/40 + len(data)/3000
	h := append([]string{fmt.Sprintf("err%d", res.errc), fmt.Sprintf("cache%d", c.cache), fmt.Sprintf("max%d", c.max),
		fmt.Sprintf("delivered%d", minInt(len(l.acc), 6))}, hist...)
	e.AddW(coq, c.desc(), nt, w, h...)
	if len(l.hand) > 0 {
		e.AddW(fmt.Sprintf("Held %s %s", ol(l.hand), ol(res.held)), c.desc(), len(l.hand) >= 2, 1+len(l.hand)/50, "kind:held", fmt.Sprintf("held%d", minInt(len(l.hand), 6)))
	}
	return nil
}

func minInt(a, b int) int {
	if a < b {
		return a
	}
	return b
}

// ---------------------------------------------------------------- generators

var c07BodyTargets = []int{0, 1, 2, 5, 11, 12, 13, 14, 15, 40, 200, 254, 255, 256, 267, 268, 269, 270, 271, 300, 600, 1100}
var c07Codes = []int{1, 2, 3, 4, 0, 65, 68, 69, 95, 132, 160, 225, 225, 226, 227, 228, 229, 230, 255}

func c07GenOpts(r *Rng, code int) []c07Opt {
	switch r.Intn(9) {
	case 0, 1, 2:
		return nil
	case 3:
		if code == 225 {
			return []c07Opt{{2, []byte{byte(r.Intn(256)), byte(r.Intn(256))}}, {2, nil}} // Max-Message-Size, Block-Wise-Transfer
		}
		return []c07Opt{{11, []byte("ab")}, {0, []byte("c")}} // Uri-Path a/b
	case 4:
		return []c07Opt{{11, genBody(r.Intn(250), 12+r.Intn(3))}} // value length 12..14: length nibble 12 / 13
	case 5:
		return []c07Opt{{12 + r.Intn(3), nil}, {255 + r.Intn(30), []byte{1}}} // delta 12..14, then 1-byte extended delta up to 268 / 2-byte from 269
	case 6:
		return []c07Opt{{2000 + r.Intn(3000), genBody(r.Intn(250), r.Intn(4))}} // unknown option, 2-byte delta
	case 7:
		return []c07Opt{{15, genBody(r.Intn(250), 268+r.Intn(3))}} // value length 268..270
	default:
		return []c07Opt{{60, []byte{byte(r.Intn(256))}}, {65535 - 60 - r.Intn(2), nil}} // Size1, then up to option number 65535
	}
}

func c07OptsLen(os []c07Opt) int {
	n := 0
	ext := func(v int) int {
		switch {
		case v < 13:
			return 0
		case v < 269:
			return 1
		}
		return 2
	}
	for _, o := range os {
		n += 1 + ext(o.delta) + ext(len(o.val)) + len(o.val)
	}
	return n
}

// a message whose body (options + marker + payload) is about L bytes long
func c07GenMsg(r *Rng, L int) c07Item {
	code := c07Codes[r.Intn(len(c07Codes))]
	it := c07Item{code: code, tok: genBody(r.Intn(250), r.Pick([]int{0, 0, 1, 2, 4, 7, 8, 8})), psalt: r.Intn(250)}
	it.opts = c07GenOpts(r, code)
	ol := c07OptsLen(it.opts)
	if L < ol+2 {
		if r.Bool() || L < 2 {
			it.opts = nil
			ol = 0
		}
	}
	if L-ol-1 > 0 {
		it.plen = L - ol - 1
	}
	return it
}

func be32(v uint32) []byte { return []byte{byte(v >> 24), byte(v >> 16), byte(v >> 8), byte(v)} }

// a raw frame start that declares more than max (or wraps in uint32), followed by blen body bytes
func c07GenOversizeRaw(r *Rng, max int) c07Item {
	tkl := r.Pick([]int{0, 0, 1, 4, 8})
	var hdr []byte
	switch r.Intn(10) {
	case 0: // smallest oversize declaration
		L := max + 1 - (2 + tkl) // total = hdr(2+ext+tkl)+L ; choose class afterwards
		if L < 0 {
			L = 0
		}
		hdr = c07LenHdr(L+4, tkl)
	case 1:
		hdr = c07LenHdr(max+r.Intn(300), tkl)
	case 2:
		hdr = c07LenHdr(65804+r.Intn(3), tkl)
	case 3: // uint32 wrap: 65805 + ext = 2^32 + k  -> treated as a k-byte body by the unrepaired decoder
		k := uint32(r.Pick([]int{0, 0, 1, 5, 12}))
		hdr = append([]byte{byte(0xf0 | tkl)}, be32(uint32(0x100000000-65805)+k)...)
	case 4:
		hdr = append([]byte{byte(0xf0 | tkl)}, be32(0xffffffff)...)
	case 5: // total length wraps to 0..: 6+tkl+65805+ext = 2^32
		hdr = append([]byte{byte(0xf0 | tkl)}, be32(uint32(0x100000000-65805-6-tkl)+uint32(r.Intn(3)))...)
	case 6: // at and just above the encoder's own limit
		hdr = append([]byte{byte(0xf0 | tkl)}, be32(uint32(0x7fff0000)+uint32(r.Intn(2)))...)
	case 7:
		hdr = append([]byte{byte(0xf0 | tkl)}, be32(uint32(r.U64()))...)
	case 8:
		hdr = append([]byte{byte(0xf0 | tkl)}, be32(uint32(0x80000000)+uint32(r.Intn(2)))...)
	default:
		hdr = c07LenHdr(max*2+r.Intn(1000), tkl)
	}
	hdr = append(hdr, byte(c07Codes[r.Intn(len(c07Codes))]))
	hdr = append(hdr, genBody(r.Intn(250), tkl)...)
	return c07Item{raw: true, hdr: hdr, psalt: r.Intn(250), plen: r.Pick([]int{0, 0, 0, 1, 7, 30, 200})}
}

func c07LenHdr(L, tkl int) []byte {
	switch {
	case L < 13:
		return []byte{byte(L<<4 | tkl)}
	case L < 269:
		return []byte{byte(13<<4 | tkl), byte(L - 13)}
	case L < 65805:
		return []byte{byte(14<<4 | tkl), byte((L - 269) >> 8), byte(L - 269)}
	}
	return append([]byte{byte(15<<4 | tkl)}, be32(uint32(L-65805))...)
}

// malformed frames (the property is silent about what follows; the model is not)
func c07GenJunk(r *Rng) c07Item {
	switch r.Intn(6) {
	case 0: // TKL 9..15
		tkl := 9 + r.Intn(7)
		hdr := append(c07LenHdr(r.Intn(20), tkl), byte(1))
		return c07Item{raw: true, hdr: hdr, psalt: r.Intn(250), plen: tkl + r.Intn(20)}
	case 1: // option with nibble 15
		return c07Item{raw: true, hdr: append(c07LenHdr(3, 0), 1, byte(r.Pick([]int{0xf0, 0x1f, 0xf1})), 0, 0)}
	case 2: // option value truncated by the frame end
		return c07Item{raw: true, hdr: append(c07LenHdr(3, 1), 2, 9, 0x15, 1, 2)}
	case 3: // extended option delta truncated
		return c07Item{raw: true, hdr: append(c07LenHdr(1, 0), 1, byte(r.Pick([]int{0xd0, 0xe0, 0x0d, 0x0e})))}
	case 4: // option number above 65535
		return c07Item{raw: true, hdr: append(c07LenHdr(6, 0), 1, 0xe0, 0xff, 0x00, 0xe0, 0x00, byte(r.Intn(4)))}
	default: // TKL 9..15 in a 4-byte-length header
		return c07Item{raw: true, hdr: append([]byte{byte(0xf0 | (9 + r.Intn(7)))}, be32(uint32(r.Intn(100)))...), plen: r.Intn(30)}
	}
}

// direct sweep of tcp/coder.DecodeHeader over every prefix of a header
func c07HdrCase(e *Emitter, bs []byte) {
	var obs []string
	stableNT := false
	for n := 0; n <= len(bs); n++ {
		var h tcpcoder.MessageHeader
		kind, hl, ml, code, tkl := 9, 0, uint32(0), 0, 0
		func() {
			defer func() {
				if r := recover(); r != nil {
					kind = 7
				}
			}()
			l, err := tcpcoder.DefaultCoder.DecodeHeader(bs[:n:n], &h)
			switch {
			case err == nil:
				kind, hl, ml, code, tkl = 1, l, h.MessageLength, int(h.Code), len(h.Token)
				if uint32(l) != h.Length {
					kind = 9
				}
				stableNT = true
			case errors.Is(err, message.ErrShortRead):
				kind = 0
			case errors.Is(err, message.ErrInvalidTokenLen):
				kind = 3
			case errors.Is(err, message.ErrInvalidEncoding):
				kind = 4
			}
		}()
		obs = append(obs, fmt.Sprintf("HO %d %d %d %d %d", kind, hl, ml, code, tkl))
	}
	e.Add(fmt.Sprintf("Hdr %s [%s]", coqBytes(bs), strings.Join(obs, ";")), "h="+hex.EncodeToString(bs), stableNT, "kind:hdr-sweep")
}

type c07Stream struct {
	cache, max int
	items      []c07Item
	kind       string
}

func c07GenStream(r *Rng, big bool) c07Stream {
	s := c07Stream{cache: r.Pick([]int{1, 7, 2048, 2048}), max: r.Pick([]int{64, 300, 1152, 1152}), kind: "valid"}
	if big {
		s.cache = r.Pick([]int{2048, 65535})
		s.max = r.Pick([]int{66000, 70000, 65816})
	}
	n := 1 + r.Intn(6)
	if big {
		n = 1 + r.Intn(3)
	}
	for i := 0; i < n; i++ {
		L := c07BodyTargets[r.Intn(len(c07BodyTargets))]
		if big && r.Chance(40) {
			L = r.Pick([]int{65803, 65804, 65805, 65806, 65900})
		}
		it := c07GenMsg(r, L)
		s.items = append(s.items, it)
	}
	if r.Chance(35) {
		// a message whose total size is exactly max-1, max or max+1
		it := c07GenMsg(r, 20)
		it.plen = 0
		if b, err := it.bytes(); err == nil {
			want := s.max + r.Intn(3) - 1
			for k := 0; k < 4; k++ { // the length header grows with the body: iterate to the fixpoint
				b, err = it.bytes()
				if err != nil || len(b) == want {
					break
				}
				it.plen += want - len(b)
				if it.plen < 0 {
					it.plen = 0
					break
				}
			}
			if b, err = it.bytes(); err == nil && len(b) >= want-1 && len(b) <= want+1 {
				s.items[r.Intn(len(s.items))] = it
			}
		}
	}
	pos := r.Intn(len(s.items) + 1)
	ins := func(it c07Item) {
		s.items = append(s.items[:pos], append([]c07Item{it}, s.items[pos:]...)...)
	}
	switch x := r.Intn(100); {
	case x < 30:
		ins(c07GenOversizeRaw(r, s.max))
		s.kind = "oversize-raw"
	case x < 38:
		ins(c07GenJunk(r))
		s.kind = "junk"
	case x < 52: // trailing partial frame
		b, err := c07GenMsg(r, c07BodyTargets[r.Intn(len(c07BodyTargets))]).bytes()
		if err == nil && len(b) > 1 {
			cut := 1 + r.Intn(minInt(len(b)-1, 40))
			if r.Chance(40) {
				cut = 1 + r.Intn(minInt(len(b)-1, 6))
			}
			s.items = append(s.items, c07Item{raw: true, hdr: b[:cut], psalt: 0, plen: 0})
			s.kind = "partial"
		}
	}
	for _, it := range s.items {
		if !it.raw {
			if b, err := it.bytes(); err == nil && len(b) > s.max && s.kind == "valid" {
				s.kind = "oversize-msg"
			}
		}
	}
	return s
}

// frame start offsets and header lengths, to aim cuts inside headers
func c07Chunkings(r *Rng, s c07Stream, total int, bounds []int, quick bool) map[string][]int {
	m := map[string][]int{}
	if total <= 2500 {
		one := make([]int, total)
		for i := range one {
			one[i] = 1
		}
		m["1byte"] = one
	}
	m["coalesced"] = []int{total}
	// header-splitting: cut right after the first 1..6 bytes of every frame
	var hs []int
	prev := 0
	k := 1 + r.Intn(6)
	for _, b := range bounds {
		c := b + k
		if c > prev && c < total {
			hs = append(hs, c-prev)
			prev = c
		}
	}
	hs = append(hs, total-prev)
	m["hdrsplit"] = hs
	// cut exactly at frame boundaries, sometimes with empty reads in between
	var fb []int
	prev = 0
	for _, b := range bounds[1:] {
		fb = append(fb, b-prev)
		if r.Chance(30) {
			fb = append(fb, 0)
		}
		prev = b
	}
	fb = append(fb, total-prev)
	m["frames"] = fb
	mk := func(lo, hi int) []int {
		var c []int
		left := total
		for left > 0 {
			n := lo + r.Intn(hi-lo+1)
			if n > left {
				n = left
			}
			c = append(c, n)
			left -= n
		}
		return c
	}
	if total <= 6000 {
		m["rand1-7"] = mk(1, 7)
	}
	m["rand0-400"] = mk(0, 400)
	return m
}

func runC07(a runArgs) error {
	e := NewEmitter("C07", "Stream.Run")
	e.ShardSize = 150
	e.MaxBytes = 80000
	e.Preamble = "From GoCoap Require Import Stream.Spec."
	e.Rule = "case = one stream (1-7 items: messages encoded by the real tcp coder over all Len-nibble classes, token lengths 0-8, ordinary and 7.xx codes, option deltas/lengths in all three extension classes; optionally an oversize/wrapping/malformed raw header or a trailing partial frame at a random position) x one chunking (1-byte, coalesced, cuts inside headers, cuts at frame boundaries with empty reads, random 1-7, random 0-400) x cache size {1,7,2048,65535} x max message size {64,300,1152,65816,66000,70000}, run on the real tcp/client.Conn over a scripted net.Conn. Distinct = distinct descriptor; non-trivial = at least two items or at least two reads."
	if strings.HasPrefix(a.only, "h=") {
		bs, err := hex.DecodeString(a.only[2:])
		if err != nil {
			return err
		}
		c07HdrCase(e, bs)
		return e.Flush(a.out)
	}
	if a.only != "" {
		c, err := c07ParseCase(a.only)
		if err != nil {
			return err
		}
		if err := c07Emit(e, c, "replay"); err != nil {
			return err
		}
		return e.Flush(a.out)
	}
	rng := NewRng(a.seed)
	nstreams, nbig := 280, 3
	if a.tier == "thorough" {
		nstreams, nbig = 1500, 24
	}
	// fixed corpus: the uint32 wrap witnesses (F16) and boundary headers, each followed by valid frames
	follow := []c07Item{{code: 69, tok: []byte{1, 2}, psalt: 3, plen: 5}, {code: 226}, {code: 1, tok: []byte{9}, opts: []c07Opt{{11, []byte("x")}}}}
	fixed := [][]byte{
		append([]byte{0xf0}, append(be32(0xfffefef3), 0x45)...),         // declares 4 GiB, wraps to an empty 6-byte message
		append([]byte{0xf1}, append(be32(0xfffefef3+5), 0x02, 0xaa)...), // wraps to a 5-byte body
		append([]byte{0xf0}, append(be32(0xffffffff), 0x01)...),
		append([]byte{0xf0}, append(be32(0x7fff0000), 0x01)...),
		append([]byte{0xf0}, append(be32(0x7fff0001), 0x01)...),
		append([]byte{0xf0}, append(be32(0xfffefeed), 0x01)...), // total wraps to 0
	}
	for _, max := range []int{64, 1152} {
		for _, cache := range []int{1, 7, 2048} {
			for fi, h := range fixed {
				for pos := 0; pos < 2; pos++ {
					items := []c07Item{{raw: true, hdr: h, psalt: 1, plen: 5 * pos}}
					if pos == 1 {
						items = append([]c07Item{follow[0]}, items...)
					}
					items = append(items, follow...)
					for _, ch := range [][]int{{1 << 20}, {1, 1, 1, 1, 1, 1, 1, 1, 1, 1, 1, 1, 1, 1, 1, 1, 1, 1, 1 << 20}, {3, 2, 1 << 20}} {
						if err := c07Emit(e, c07Case{cache, max, items, ch}, "kind:fixed-wrap", fmt.Sprintf("fixed%d", fi)); err != nil {
							return err
						}
					}
				}
			}
		}
	}
	// DecodeHeader on every prefix: all 256 Len/TKL bytes x extended-length patterns
	exts := [][]byte{{0, 0, 0, 0}, {0xff, 0xff, 0xff, 0xff}, {0x7f, 0xff, 0x00, 0x00}, {0x7f, 0xff, 0x00, 0x01}, {0xff, 0xfe, 0xfe, 0xf3}, {0xff, 0xfe, 0xfe, 0xe0}}
	nrnd := 0
	if a.tier == "thorough" {
		nrnd = 12
	}
	for b0 := 0; b0 < 256; b0++ {
		pats := append([][]byte{}, exts...)
		for k := 0; k < nrnd; k++ {
			pats = append(pats, be32(uint32(rng.U64())))
		}
		for _, x := range pats {
			bs := append([]byte{byte(b0)}, x...)
			bs = append(bs, genBody(rng.Intn(250), 18)...)
			// cut behind the header so that every prefix length up to two bytes past the header is covered
			ext := map[int]int{13: 1, 14: 2, 15: 4}[b0>>4]
			c07HdrCase(e, bs[:minInt(len(bs), 1+ext+1+(b0&15)+2)])
		}
	}
	for i := 0; i < nstreams+nbig; i++ {
		r := rng.Fork()
		s := c07GenStream(r, i >= nstreams)
		total := 0
		var bounds []int
		ok := true
		for _, it := range s.items {
			b, err := it.bytes()
			if err != nil {
				ok = false
				break
			}
			bounds = append(bounds, total)
			total += len(b)
		}
		if !ok || total == 0 {
			continue
		}
		chs := c07Chunkings(r, s, total, bounds, a.tier != "thorough")
		names := []string{"1byte", "coalesced", "hdrsplit", "frames", "rand1-7", "rand0-400"}
		for _, nm := range names {
			ch, ok := chs[nm]
			if !ok {
				continue
			}
			if i >= nstreams && a.tier != "thorough" && (nm == "frames" || nm == "rand0-400") {
				continue
			}
			if err := c07Emit(e, c07Case{s.cache, s.max, s.items, ch}, "kind:"+s.kind, "chunking:"+nm, fmt.Sprintf("items%d", len(s.items))); err != nil {
				return err
			}
		}
	}
	return e.Flush(a.out)
}
