package main

import (
	"fmt"
	"go/ast"
	"go/parser"
	"go/token"
	"path/filepath"
	"reflect"
	"runtime"
	"strconv"
	"strings"
	"time"

	udpServer "github.com/plgd-dev/go-coap/v3/udp/server"
)

// genMonitorTiming writes Gen/MonitorTiming.v: the look-ahead that
// udp/server.(*Server).getConn adds to time.Now() when it checks an existing
// peer on the datagram path.  The value is a literal inside the function, so it
// is read from the syntax tree of the very file the harness was compiled from
// (located through the pc of an exported function of the package).
func genMonitorTiming(out string) error {
	v, err := c18LookaheadErr()
	if err != nil {
		return err
	}
	var sb strings.Builder
	sb.WriteString(genHeader)
	sb.WriteString("(* udp/server/server.go getConn: cc.CheckExpirations(time.Now().Add(lookahead)), nanoseconds *)\n")
	fmt.Fprintf(&sb, "Definition lookahead : Z := %d.\n", v)
	return writeIfChanged(filepath.Join(out, "MonitorTiming.v"), sb.String())
}

var c18LookaheadCache int64 = -1

func c18Lookahead() int64 {
	if c18LookaheadCache >= 0 {
		return c18LookaheadCache
	}
	v, err := c18LookaheadErr()
	if err != nil {
		panic(err)
	}
	c18LookaheadCache = v
	return v
}

func c18LookaheadErr() (int64, error) {
	pc := reflect.ValueOf(udpServer.New).Pointer()
	fn := runtime.FuncForPC(pc)
	if fn == nil {
		return 0, fmt.Errorf("monitor timing: cannot locate udp/server sources")
	}
	file, _ := fn.FileLine(pc)
	src := filepath.Join(filepath.Dir(file), "server.go")
	fset := token.NewFileSet()
	f, err := parser.ParseFile(fset, src, nil, 0)
	if err != nil {
		return 0, fmt.Errorf("monitor timing: %w", err)
	}
	var found []int64
	for _, d := range f.Decls {
		fd, ok := d.(*ast.FuncDecl)
		if !ok || fd.Name.Name != "getConn" || fd.Recv == nil {
			continue
		}
		ast.Inspect(fd, func(n ast.Node) bool {
			// cc.CheckExpirations(time.Now().Add(<expr>))
			call, ok := n.(*ast.CallExpr)
			if !ok {
				return true
			}
			sel, ok := call.Fun.(*ast.SelectorExpr)
			if !ok || sel.Sel.Name != "CheckExpirations" || len(call.Args) != 1 {
				return true
			}
			v, ok := evalNowAdd(call.Args[0])
			if ok {
				found = append(found, v)
			}
			return true
		})
	}
	if len(found) != 1 {
		return 0, fmt.Errorf("monitor timing: expected exactly one cc.CheckExpirations(time.Now().Add(d)) in udp/server.getConn, found %d", len(found))
	}
	return found[0], nil
}

// evalNowAdd recognises time.Now().Add(d) or time.Now() and returns d in ns.
func evalNowAdd(e ast.Expr) (int64, bool) {
	call, ok := e.(*ast.CallExpr)
	if !ok {
		return 0, false
	}
	sel, ok := call.Fun.(*ast.SelectorExpr)
	if !ok {
		return 0, false
	}
	if isPkgSel(call.Fun, "time", "Now") && len(call.Args) == 0 {
		return 0, true
	}
	if sel.Sel.Name != "Add" || len(call.Args) != 1 {
		return 0, false
	}
	if inner, ok := sel.X.(*ast.CallExpr); !ok || !isPkgSel(inner.Fun, "time", "Now") {
		return 0, false
	}
	return evalDuration(call.Args[0])
}

func isPkgSel(e ast.Expr, pkg, name string) bool {
	s, ok := e.(*ast.SelectorExpr)
	if !ok {
		return false
	}
	id, ok := s.X.(*ast.Ident)
	return ok && id.Name == pkg && s.Sel.Name == name
}

func evalDuration(e ast.Expr) (int64, bool) {
	switch x := e.(type) {
	case *ast.ParenExpr:
		return evalDuration(x.X)
	case *ast.BasicLit:
		if x.Kind != token.INT {
			return 0, false
		}
		v, err := strconv.ParseInt(x.Value, 0, 64)
		return v, err == nil
	case *ast.UnaryExpr:
		v, ok := evalDuration(x.X)
		if ok && x.Op == token.SUB {
			return -v, true
		}
		return v, ok && x.Op == token.ADD
	case *ast.SelectorExpr:
		units := map[string]time.Duration{"Nanosecond": time.Nanosecond, "Microsecond": time.Microsecond, "Millisecond": time.Millisecond, "Second": time.Second, "Minute": time.Minute, "Hour": time.Hour}
		if id, ok := x.X.(*ast.Ident); ok && id.Name == "time" {
			if u, ok := units[x.Sel.Name]; ok {
				return int64(u), true
			}
		}
		return 0, false
	case *ast.BinaryExpr:
		a, ok1 := evalDuration(x.X)
		b, ok2 := evalDuration(x.Y)
		if !ok1 || !ok2 {
			return 0, false
		}
		switch x.Op {
		case token.MUL:
			return a * b, true
		case token.ADD:
			return a + b, true
		case token.SUB:
			return a - b, true
		case token.QUO:
			if b == 0 {
				return 0, false
			}
			return a / b, true
		}
	case *ast.CallExpr: // time.Duration(x)
		if isPkgSel(x.Fun, "time", "Duration") && len(x.Args) == 1 {
			return evalDuration(x.Args[0])
		}
	}
	return 0, false
}
