package main

// C10, listeners with a handshake: the tcp server on a TLS listener (self-signed
// ECDSA certificate made at run time) and the dtls server with a pre-shared key,
// both on loopback.  Well-behaved clients connect BEFORE and AFTER peers that
// stall in, garble or abandon their handshake; every one of them must complete
// its own handshake and receive the answers to its own requests within the
// watchdog.  See notes/C10.md ("Listeners with a handshake").

import (
	"bytes"
	"context"
	"crypto/ecdsa"
	"crypto/elliptic"
	"crypto/rand"
	"crypto/tls"
	"crypto/x509"
	"crypto/x509/pkix"
	"errors"
	"fmt"
	"math/big"
	"net"
	"strings"
	"sync"
	"time"

	piondtls "github.com/pion/dtls/v3"
	dtlsnet "github.com/pion/dtls/v3/pkg/net"
	coapDTLS "github.com/plgd-dev/go-coap/v3/dtls"
	"github.com/plgd-dev/go-coap/v3/message/codes"
	"github.com/plgd-dev/go-coap/v3/message/pool"
	coapNet "github.com/plgd-dev/go-coap/v3/net"
	"github.com/plgd-dev/go-coap/v3/options"
	"github.com/plgd-dev/go-coap/v3/options/config"
	"github.com/plgd-dev/go-coap/v3/tcp"
	tcpClient "github.com/plgd-dev/go-coap/v3/tcp/client"
	udpClient "github.com/plgd-dev/go-coap/v3/udp/client"
)

// ---------- certificate ----------

var (
	c10TLSOnce sync.Once
	c10TLSSrv  *tls.Config
	c10TLSCli  *tls.Config
	c10TLSErr  error
)

func c10TLSConfigs() (*tls.Config, *tls.Config, error) {
	c10TLSOnce.Do(func() {
		key, err := ecdsa.GenerateKey(elliptic.P256(), rand.Reader)
		if err != nil {
			c10TLSErr = err
			return
		}
		tmpl := &x509.Certificate{
			SerialNumber:          big.NewInt(10),
			Subject:               pkix.Name{CommonName: "verif-c10"},
			NotBefore:             time.Now().Add(-time.Hour),
			NotAfter:              time.Now().Add(48 * time.Hour),
			KeyUsage:              x509.KeyUsageDigitalSignature | x509.KeyUsageCertSign,
			ExtKeyUsage:           []x509.ExtKeyUsage{x509.ExtKeyUsageServerAuth},
			BasicConstraintsValid: true,
			IsCA:                  true,
			IPAddresses:           []net.IP{net.IPv4(127, 0, 0, 1)},
			DNSNames:              []string{"localhost"},
		}
		der, err := x509.CreateCertificate(rand.Reader, tmpl, tmpl, &key.PublicKey, key)
		if err != nil {
			c10TLSErr = err
			return
		}
		leaf, err := x509.ParseCertificate(der)
		if err != nil {
			c10TLSErr = err
			return
		}
		roots := x509.NewCertPool()
		roots.AddCert(leaf)
		c10TLSSrv = &tls.Config{Certificates: []tls.Certificate{{Certificate: [][]byte{der}, PrivateKey: key, Leaf: leaf}}, MinVersion: tls.VersionTLS12}
		c10TLSCli = &tls.Config{RootCAs: roots, ServerName: "127.0.0.1", MinVersion: tls.VersionTLS12}
	})
	return c10TLSSrv, c10TLSCli, c10TLSErr
}

// ---------- common to both listeners ----------

// one connection of a run, in the order the listener sees them
type c10HsPeer struct {
	kind  byte // 'E' well-behaved, connected before the adversaries; 'L' well-behaved, connected after them; else the adversary letter
	hs    bool // the peer saw its own handshake complete within the watchdog
	local string
	reqs  []*c10Send
}

var c10HsKinds = map[byte]struct{ coq, name string }{
	'E': {"CkGood", "good-early"}, 'L': {"CkGood", "good-late"},
	's': {"CkSilent", "connect-send-nothing"},
	'p': {"CkPartialHello", "partial-clienthello-stall"},
	'g': {"CkGarbage", "garbage-for-handshake"},
	'c': {"CkCloseNow", "close-at-once"},
	'h': {"CkHsThenStall", "handshake-then-stall"},
	'f': {"CkFiltered", "not-a-handshake-record"},
}

// errors reported by the server, counted by the remote address they name ("tcp: 127.0.0.1:1234: ...")
type c10ErrTab struct {
	mu sync.Mutex
	n  map[string]int
}

func (t *c10ErrTab) add(err error) {
	s := err.Error()
	for _, p := range []string{"tcp: ", "dtls: ", "udp: "} {
		s = strings.TrimPrefix(s, p)
	}
	f := strings.SplitN(s, ": ", 2)
	if len(f) == 2 {
		t.mu.Lock()
		t.n[f[0]]++
		t.mu.Unlock()
	}
}

func (t *c10ErrTab) get(a string) int {
	t.mu.Lock()
	defer t.mu.Unlock()
	return t.n[a]
}

func (a *c10App) newsOf(addr string) int {
	a.mu.Lock()
	defer a.mu.Unlock()
	return a.news[addr]
}

// c10AwaitNews waits for the server's OnNewConn for addr (witness that the server side of a completed
// handshake has got as far as announcing the connection).
func c10AwaitNews(app *c10App, addr string) {
	deadline := time.Now().Add(c10Wait)
	for app.newsOf(addr) == 0 && time.Now().Before(deadline) {
		time.Sleep(200 * time.Microsecond)
	}
}

// c10HsPeersCoq renders the per-connection observations as they are at the time of the call.
func c10HsPeersCoq(dtls bool, peers []*c10HsPeer, app *c10App, errs *c10ErrTab) string {
	app.mu.Lock()
	defer app.mu.Unlock()
	var cs []string
	for _, p := range peers {
		var xs, hl []string
		for qi, q := range p.reqs {
			typ, mid := 1, qi
			if dtls {
				typ, mid = q.typ, q.mid
			}
			xs = append(xs, fmt.Sprintf("(GReq %d %d %d %s %d %s, %s)", typ, q.code, mid, coqBytes(q.tok), q.route, coqBytes(q.pay), coqOWire(q.obs)))
		}
		if p.kind == 'E' || p.kind == 'L' {
			for _, h := range app.hlog[p.local] {
				hl = append(hl, fmt.Sprintf("HC %s %d %d %d", coqBytes(h.tok), h.code, len(h.pay), csum(h.pay)))
			}
		}
		cs = append(cs, fmt.Sprintf("CO %s %s [%s] %d %d [%s]", c10HsKinds[p.kind].coq, coqBool(p.hs), strings.Join(xs, "; "),
			app.news[p.local], errs.get(p.local), strings.Join(hl, "; ")))
	}
	return "[" + strings.Join(cs, ";\n    ") + "]"
}

func c10HsCase(dtls bool, peersCoq string, app *c10App, alive, probe, stopped bool) string {
	app.mu.Lock()
	defer app.mu.Unlock()
	return fmt.Sprintf("TlsRun %s %s %s %s %s %d", coqBool(dtls), peersCoq, coqBool(alive), coqBool(probe), coqBool(stopped), app.panics)
}

// c10HsPlan: early well-behaved clients, the adversaries (letters of kinds), late well-behaved clients
func c10HsPlan(rng *Rng, early, late, nreq int, kinds string, dtls bool) []*c10HsPeer {
	var peers []*c10HsPeer
	good := func(kind byte, idx int) {
		p := &c10HsPeer{kind: kind}
		r := rng.Fork()
		mid := r.Intn(65536)
		for k := 0; k < nreq; k++ {
			if dtls {
				// confirmable only: the client retransmits (c10ExchangeDTLS)
				p.reqs = append(p.reqs, c10Request(r, idx, k, mid, 0))
				mid = (mid + 1 + r.Intn(3)) & 0xffff
			} else {
				q := c10Request(r, idx, k, 0, 1)
				q.data = c10EncodeTCP(q.code, q.tok, c10PathOpts(q.route), q.pay)
				p.reqs = append(p.reqs, q)
			}
		}
		peers = append(peers, p)
	}
	for i := 0; i < early; i++ {
		good('E', i)
	}
	for i := 0; i < len(kinds); i++ {
		peers = append(peers, &c10HsPeer{kind: kinds[i]})
	}
	for i := 0; i < late; i++ {
		good('L', early+i)
	}
	return peers
}

type c10Flag struct {
	mu sync.Mutex
	v  bool
}

func (f *c10Flag) set() { f.mu.Lock(); f.v = true; f.mu.Unlock() }
func (f *c10Flag) get() bool {
	f.mu.Lock()
	defer f.mu.Unlock()
	return f.v
}

// ---------- tcp server on a TLS listener ----------

func c10TLSHandshake(raw net.Conn, cfg *tls.Config) (*tls.Conn, bool) {
	tc := tls.Client(raw, cfg)
	ctx, cancel := context.WithTimeout(context.Background(), c10Wait)
	defer cancel()
	if err := tc.HandshakeContext(ctx); err != nil {
		return tc, false
	}
	return tc, true
}

func c10TLSRun(seed uint64, early, late, nreq int, kinds string) (string, bool, map[string]int, error) {
	rng := NewRng(seed)
	srvCfg, cliCfg, err := c10TLSConfigs()
	if err != nil {
		return "", false, nil, err
	}
	app := newC10App()
	errs := &c10ErrTab{n: map[string]int{}}
	l, err := coapNet.NewTLSListener("tcp4", "127.0.0.1:0", srvCfg)
	if err != nil {
		return "", false, nil, err
	}
	s := tcp.NewServer(options.WithMux(app.router()),
		options.WithErrors(func(err error) {
			app.onErr(err)
			errs.add(err)
		}),
		options.WithMaxMessageSize(2048),
		options.WithInactivityMonitor(time.Hour, func(cc *tcpClient.Conn) { _ = cc.Close() }),
		options.WithOnNewConn(func(cc *tcpClient.Conn) {
			app.mu.Lock()
			app.news[cc.RemoteAddr().String()]++
			app.mu.Unlock()
		}),
		options.WithProcessReceivedMessageFunc(func(req *pool.Message, cc *tcpClient.Conn, handler config.HandlerFunc[*tcpClient.Conn]) {
			defer app.recovered()
			cc.ProcessReceivedMessageWithHandler(req, handler)
		}))
	ret := make(chan error, 1)
	go func() {
		defer func() {
			if r := recover(); r != nil {
				app.mu.Lock()
				app.panics++
				app.mu.Unlock()
				ret <- fmt.Errorf("panic %v", r)
			}
		}()
		ret <- s.Serve(l)
	}()
	addr := l.Addr().String()
	peers := c10HsPlan(rng, early, late, nreq, kinds, false)
	classes := map[string]int{}
	var unclean c10Flag
	var wg, half sync.WaitGroup
	gate := make(chan struct{})
	var held []net.Conn // adversaries' sockets, kept open until the observations are made
	cfgFor := func(r *Rng) *tls.Config {
		c := cliCfg.Clone()
		if r.Chance(35) {
			c.MaxVersion = tls.VersionTLS12
		}
		return c
	}
	// a well-behaved client: handshake, requests one at a time (the first `first` of them before the gate), close
	runGood := func(p *c10HsPeer, raw net.Conn, cfg *tls.Config, first int, reached func()) {
		defer wg.Done()
		defer reached()
		defer raw.Close()
		tc, ok := c10TLSHandshake(raw, cfg)
		if !ok {
			unclean.set()
			return
		}
		p.hs = true
		var acc []byte
		for k, q := range p.reqs {
			if k == first {
				reached()
				<-gate
			}
			if _, err := tc.Write(q.data); err != nil {
				unclean.set()
				return
			}
			q.obs = c10ReadTCP(tc, &acc, q.tok)
			if q.obs == nil {
				unclean.set()
				return
			}
		}
		_ = tc.Close()
	}
	dial := func(p *c10HsPeer) (net.Conn, error) {
		// sequential: the TCP connection is established (it sits in the listener's queue, which is first-in
		// first-out) before the next peer connects
		c, err := net.Dial("tcp4", addr)
		if err == nil {
			p.local = c.LocalAddr().String()
		}
		return c, err
	}
	fail := func(err error) (string, bool, map[string]int, error) {
		close(gate)
		s.Stop()
		return "", false, nil, err
	}
	// 1. the early clients connect and get their first answers
	for _, p := range peers {
		if p.kind != 'E' {
			continue
		}
		c, err := dial(p)
		if err != nil {
			return fail(err)
		}
		var once sync.Once
		half.Add(1)
		wg.Add(1)
		go runGood(p, c, cfgFor(rng.Fork()), (len(p.reqs)+1)/2, func() { once.Do(half.Done) })
	}
	half.Wait()
	// 2. the adversaries connect, one after the other
	for _, p := range peers {
		if _, adv := map[byte]bool{'s': true, 'p': true, 'g': true, 'c': true, 'h': true}[p.kind]; !adv {
			continue
		}
		c, err := dial(p)
		if err != nil {
			return fail(err)
		}
		classes[c10HsKinds[p.kind].name]++
		r := rng.Fork()
		switch p.kind {
		case 's':
		case 'p': // the first three bytes of a ClientHello record: handshake, TLS 1.0 record version
			_, _ = c.Write([]byte{0x16, 0x03, 0x01})
		case 'g':
			b := make([]byte, 5+r.Intn(60))
			for j := range b {
				b[j] = byte(r.Intn(256))
			}
			_, _ = c.Write(b)
		case 'c':
			_ = c.Close()
		case 'h': // a proper handshake, then silence (the handshake itself runs beside the later peers')
			wg.Add(1)
			go func(p *c10HsPeer, c net.Conn, cfg *tls.Config) {
				defer wg.Done()
				_, p.hs = c10TLSHandshake(c, cfg)
				if p.hs {
					c10AwaitNews(app, p.local)
				} else {
					unclean.set()
				}
			}(p, c, cfgFor(r))
		}
		held = append(held, c)
	}
	// 3. the early clients go on, the late clients connect
	close(gate)
	for _, p := range peers {
		if p.kind != 'L' {
			continue
		}
		c, err := dial(p)
		if err != nil {
			s.Stop()
			return "", false, nil, err
		}
		wg.Add(1)
		go runGood(p, c, cfgFor(rng.Fork()), -1, func() {})
	}
	wg.Wait()
	alive := true
	select {
	case err := <-ret:
		ret <- err
		alive = false
	default:
	}
	probe := false
	if c, err := net.Dial("tcp4", addr); err == nil {
		if tc, ok := c10TLSHandshake(c, cliCfg.Clone()); ok {
			var acc []byte
			tok := []byte{0xEE, 3}
			_, _ = tc.Write(c10EncodeTCP(1, tok, c10PathOpts(1), nil))
			w := c10ReadTCP(tc, &acc, tok)
			probe = w != nil && w.Code == int(codes.Content)
		}
		_ = c.Close()
	}
	for _, c := range held {
		_ = c.Close()
	}
	s.Stop()
	stopped := false
	select {
	case <-ret:
		stopped = true
	case <-time.After(c10Wait):
	}
	_ = l.Close()
	return c10HsCase(false, c10HsPeersCoq(false, peers, app, errs), app, alive, probe, stopped), !unclean.get() && probe, classes, nil
}

// ---------- dtls server with a pre-shared key ----------

var c10PSK = []byte{0xAB, 0xC1, 0x23, 0x10}

func c10DTLSClientOpts() []piondtls.ClientOption {
	return []piondtls.ClientOption{
		piondtls.WithPSK(func([]byte) ([]byte, error) { return c10PSK, nil }),
		piondtls.WithPSKIdentityHint([]byte("verif-c10")),
		piondtls.WithCipherSuites(piondtls.TLS_PSK_WITH_AES_128_CCM_8),
	}
}

// c10DTLSDial: a UDP socket connected to the server and a pion client on it; the handshake is bounded by the watchdog
func c10DTLSDial(srv *net.UDPAddr) (*net.UDPConn, *piondtls.Conn, error) {
	uc, err := net.DialUDP("udp4", &net.UDPAddr{IP: net.IPv4(127, 0, 0, 1)}, srv)
	if err != nil {
		return nil, nil, err
	}
	dc, err := piondtls.ClientWithOptions(dtlsnet.PacketConnFromConn(uc), uc.RemoteAddr(), c10DTLSClientOpts()...)
	if err != nil {
		_ = uc.Close()
		return nil, nil, err
	}
	return uc, dc, nil
}

func c10DTLSHandshake(dc *piondtls.Conn) bool {
	ctx, cancel := context.WithTimeout(context.Background(), c10Wait)
	defer cancel()
	return dc.HandshakeContext(ctx) == nil
}

var (
	c10HelloOnce sync.Once
	c10Hello     []byte
)

// c10DTLSClientHello: the first flight of a real pion client (a ClientHello without cookie), captured once from a
// client pointed at a socket of the harness; adversaries replay it from their own sockets.
func c10DTLSClientHello() []byte {
	c10HelloOnce.Do(func() {
		sink, err := net.ListenUDP("udp4", &net.UDPAddr{IP: net.IPv4(127, 0, 0, 1)})
		if err != nil {
			return
		}
		defer sink.Close()
		uc, dc, err := c10DTLSDial(sink.LocalAddr().(*net.UDPAddr))
		if err != nil {
			return
		}
		ctx, cancel := context.WithCancel(context.Background())
		done := make(chan struct{})
		go func() { _ = dc.HandshakeContext(ctx); close(done) }()
		buf := make([]byte, 4096)
		_ = sink.SetReadDeadline(time.Now().Add(c10Wait))
		if n, _, err := sink.ReadFromUDP(buf); err == nil {
			c10Hello = append([]byte{}, buf[:n]...)
		}
		cancel()
		<-done
		_ = dc.Close()
		_ = uc.Close()
	})
	return c10Hello
}

// c10ExchangeDTLS sends a confirmable request and reads records until a message with its token and a non-empty
// code arrives; confirmable messages from the server are acknowledged.  Like every CoAP client it retransmits the
// request (same message ID: the server answers a duplicate from its response cache, the handler is not called
// again) when nothing came back for 2 s, 4 s, 8 s: datagrams do get lost on a loaded loopback.
func c10ExchangeDTLS(dc *piondtls.Conn, req []byte, tok []byte) *wireMsg {
	buf := make([]byte, 4096)
	deadline := time.Now().Add(c10Wait)
	wait := 2 * time.Second
	for {
		if _, err := dc.Write(req); err != nil {
			return nil
		}
		slice := time.Now().Add(wait)
		if slice.After(deadline) {
			slice = deadline
		}
		for {
			_ = dc.SetReadDeadline(slice)
			n, err := dc.Read(buf)
			if err != nil {
				if ne, ok := err.(net.Error); ok && ne.Timeout() && time.Now().Before(deadline) {
					break // retransmit
				}
				return nil
			}
			w := decodeWire(append([]byte{}, buf[:n]...))
			if w.Bad {
				continue
			}
			if w.Typ == 0 {
				_, _ = dc.Write(encodeWire(2, 0, w.MID, nil, nil, nil))
			}
			if w.Code != 0 && bytes.Equal(w.Tok, tok) {
				return &w
			}
		}
		wait *= 2
	}
}

func c10DTLSRun(seed uint64, early, late, nreq int, kinds string) (string, bool, map[string]int, error) {
	rng := NewRng(seed)
	hello := c10DTLSClientHello()
	if len(hello) < 14 || hello[0] != 22 {
		return "", false, nil, errors.New("dtls run: could not capture a ClientHello")
	}
	app := newC10App()
	errs := &c10ErrTab{n: map[string]int{}}
	l, err := coapNet.NewDTLSListener("udp4", "127.0.0.1:0", coapNet.NewDTLSServerOptions(
		piondtls.WithPSK(func([]byte) ([]byte, error) { return c10PSK, nil }),
		piondtls.WithPSKIdentityHint([]byte("verif-c10")),
		piondtls.WithCipherSuites(piondtls.TLS_PSK_WITH_AES_128_CCM_8)))
	if err != nil {
		return "", false, nil, err
	}
	// the handshake time-out is the library's default (30 s, longer than the watchdog): a peer that has to wait
	// for another peer's handshake to time out has been delayed by it
	s := coapDTLS.NewServer(options.WithMux(app.router()),
		options.WithErrors(func(err error) {
			app.onErr(err)
			errs.add(err)
		}),
		options.WithInactivityMonitor(time.Hour, func(cc *udpClient.Conn) { _ = cc.Close() }),
		options.WithOnNewConn(func(cc *udpClient.Conn) {
			app.mu.Lock()
			app.news[cc.RemoteAddr().String()]++
			app.mu.Unlock()
		}),
		options.WithProcessReceivedMessageFunc(func(req *pool.Message, cc *udpClient.Conn, handler config.HandlerFunc[*udpClient.Conn]) {
			defer app.recovered()
			cc.ProcessReceivedMessageWithHandler(req, handler)
		}))
	ret := make(chan error, 1)
	go func() {
		defer func() {
			if r := recover(); r != nil {
				app.mu.Lock()
				app.panics++
				app.mu.Unlock()
				ret <- fmt.Errorf("panic %v", r)
			}
		}()
		ret <- s.Serve(l)
	}()
	srv := l.Addr().(*net.UDPAddr)
	peers := c10HsPlan(rng, early, late, nreq, kinds, true)
	classes := map[string]int{}
	var unclean c10Flag
	var wg, half sync.WaitGroup
	gate := make(chan struct{})
	var heldMu sync.Mutex
	var held []interface{ Close() error }
	hold := func(c interface{ Close() error }) {
		heldMu.Lock()
		held = append(held, c)
		heldMu.Unlock()
	}
	// a well-behaved client; its connection stays open until the observations are made
	runGood := func(p *c10HsPeer, dc *piondtls.Conn, first int, reached func()) {
		defer wg.Done()
		defer reached()
		if !c10DTLSHandshake(dc) {
			unclean.set()
			return
		}
		p.hs = true
		for k, q := range p.reqs {
			if k == first {
				reached()
				<-gate
			}
			q.obs = c10ExchangeDTLS(dc, q.data, q.tok)
			if q.obs == nil {
				unclean.set()
				return
			}
		}
	}
	startGood := func(p *c10HsPeer, first int, reached func()) error {
		uc, dc, err := c10DTLSDial(srv)
		if err != nil {
			return err
		}
		p.local = uc.LocalAddr().String()
		hold(dc)
		hold(uc)
		wg.Add(1)
		go runGood(p, dc, first, reached)
		return nil
	}
	fail := func(err error) (string, bool, map[string]int, error) {
		s.Stop()
		return "", false, nil, err
	}
	// 1. the early clients
	for _, p := range peers {
		if p.kind != 'E' {
			continue
		}
		var once sync.Once
		half.Add(1)
		if err := startGood(p, (len(p.reqs)+1)/2, func() { once.Do(half.Done) }); err != nil {
			close(gate)
			return fail(err)
		}
	}
	half.Wait()
	// 2. the adversaries: the first datagram of each is in the listener's socket before the next peer sends
	for _, p := range peers {
		if _, adv := map[byte]bool{'p': true, 'g': true, 'c': true, 'h': true, 'f': true}[p.kind]; !adv {
			continue
		}
		classes[c10HsKinds[p.kind].name]++
		r := rng.Fork()
		if p.kind == 'h' {
			uc, dc, err := c10DTLSDial(srv)
			if err != nil {
				close(gate)
				return fail(err)
			}
			p.local = uc.LocalAddr().String()
			hold(dc)
			hold(uc)
			wg.Add(1)
			go func(p *c10HsPeer) {
				defer wg.Done()
				p.hs = c10DTLSHandshake(dc)
				if p.hs {
					c10AwaitNews(app, p.local)
				} else {
					unclean.set()
				}
			}(p)
			continue
		}
		uc, err := net.DialUDP("udp4", &net.UDPAddr{IP: net.IPv4(127, 0, 0, 1)}, srv)
		if err != nil {
			close(gate)
			return fail(err)
		}
		p.local = uc.LocalAddr().String()
		switch p.kind {
		case 'p': // a ClientHello; the HelloVerifyRequest is never answered
			_, _ = uc.Write(hello)
		case 'c': // a ClientHello, then the socket goes away
			_, _ = uc.Write(hello)
			la := uc.LocalAddr().(*net.UDPAddr)
			_ = uc.Close()
			// (the port is taken again at once by a socket that never sends, so that no later client of this
			// run is given the abandoned connection's address)
			if again, err := net.ListenUDP("udp4", la); err == nil {
				hold(again)
			}
			continue
		case 'g': // a handshake record header (the listener's accept filter looks at it) around random bytes
			n := 12 + r.Intn(60)
			b := []byte{22, 0xfe, 0xfd, 0, 0, 0, 0, 0, 0, 0, byte(r.Intn(4)), byte(n >> 8), byte(n)}
			for j := 0; j < n; j++ {
				b = append(b, byte(r.Intn(256)))
			}
			_, _ = uc.Write(b)
		case 'f': // not a handshake record
			b := make([]byte, 4+r.Intn(40))
			for j := range b {
				b[j] = byte(r.Intn(256))
			}
			b[0] = byte(0x40 + r.Intn(16))
			_, _ = uc.Write(b)
		}
		hold(uc)
	}
	// 3. the early clients go on, the late clients connect
	close(gate)
	for _, p := range peers {
		if p.kind != 'L' {
			continue
		}
		if err := startGood(p, -1, func() {}); err != nil {
			return fail(err)
		}
	}
	wg.Wait()
	alive := true
	select {
	case err := <-ret:
		ret <- err
		alive = false
	default:
	}
	probe := false
	if uc, dc, err := c10DTLSDial(srv); err == nil {
		if c10DTLSHandshake(dc) {
			tok := []byte{0xEE, 4}
			w := c10ExchangeDTLS(dc, encodeWire(0, 1, 4711, tok, c10PathOpts(1), nil), tok)
			probe = w != nil && w.Code == int(codes.Content) && w.Typ == 2 && w.MID == 4711
		}
		_ = dc.Close()
		_ = uc.Close()
	}
	// observations first (the well-behaved clients' connections are still open), then everything is closed
	peersCoq := c10HsPeersCoq(true, peers, app, errs)
	heldMu.Lock()
	for _, c := range held {
		_ = c.Close()
	}
	heldMu.Unlock()
	s.Stop()
	stopped := false
	select {
	case <-ret:
		stopped = true
	case <-time.After(c10Wait):
	}
	_ = l.Close()
	return c10HsCase(true, peersCoq, app, alive, probe, stopped), !unclean.get() && probe, classes, nil
}
