package main

// C01, two further families.
//
// (1) uint-format options in non-minimal form: every uint entry of every option table, every
//     legal value length, with one leading zero byte and with all bytes zero, followed by
//     another option and a payload (so that a decoder that loses its place in the value is
//     seen at once).  These go through the ordinary C01 case (c01Run).
//
// (2) stream buffers (Strm cases): the frames the stream coder produces for several messages,
//     back to back, optionally followed by the beginning of one more frame.  The buffer is
//     taken apart from the front; at every position Decode, DecodeHeader and the pooled
//     UnmarshalWithDecoder are given ALL the remaining bytes, and the position advances by the
//     count Decode returned.  "Consumes exactly the bytes produced" is judged here.

import (
	"fmt"
	"strconv"
	"strings"
	"time"

	"github.com/plgd-dev/go-coap/v3/message"
	tcpcoder "github.com/plgd-dev/go-coap/v3/tcp/coder"
)

// ---- (1) leading zero bytes ----

func c01ZeroCorners(e *Emitter) {
	type tab struct {
		code   int
		coders []int
	}
	tabs := []tab{{69, []int{0, 1}}, {225, []int{1}}, {226, []int{1}}, {228, []int{1}}, {229, []int{1}}}
	for _, t := range tabs {
		reg := regList(signalDefs(t.code))
		if t.code < 224 {
			reg = regList(message.CoapOptionDefs)
		}
		for _, en := range reg {
			if !en.uint {
				continue
			}
			for l := max(en.min, 1); l <= en.max; l++ {
				zs := []int{1, l}
				if l == 1 {
					zs = []int{1}
				}
				if l >= 3 {
					zs = append(zs, l-1)
				}
				for _, z := range zs {
					for _, coder := range t.coders {
						g := gMsg{coder: coder, tok: []byte{byte(en.id), byte(l)}, code: t.code, typ: l % 4, mid: 256*en.id%65536 + z,
							opts:    []gOpt{{en.id, 50 + l, l, z}, {en.id + 1000, 33, 2, 0}},
							paySalt: 60, payN: 3, capExtra: 1}
						// the follower must not be a registry number of this table with an illegal length
						c01Run(e, g)
					}
				}
			}
		}
	}
	// the shapes named in the regression report: Content-Format 00 32 followed by Max-Age 3c; Observe 00 00 07; Block2 00
	for coder := 0; coder <= 1; coder++ {
		c01Run(e, gMsg{coder: coder, tok: []byte{1}, code: 69, typ: 2, mid: 77, opts: []gOpt{{12, 50, 2, 1}, {14, 60, 1, 0}}, paySalt: 1, payN: 2, capExtra: 2})
		c01Run(e, gMsg{coder: coder, tok: []byte{2}, code: 69, typ: 1, mid: 78, opts: []gOpt{{6, 7, 3, 2}}, capExtra: 0})
		c01Run(e, gMsg{coder: coder, tok: []byte{3}, code: 69, typ: 0, mid: 79, opts: []gOpt{{23, 0, 1, 1}}, paySalt: 4, payN: 16, capExtra: 0})
		c01Run(e, gMsg{coder: coder, code: 1, typ: 0, mid: 80, opts: []gOpt{{6, 1, 3, 3}, {7, 9, 2, 2}, {11, 97, 4, 0}, {12, 1, 2, 1}, {14, 2, 4, 3}, {17, 3, 2, 2}, {23, 4, 3, 1}, {27, 5, 3, 2}, {28, 6, 4, 1}, {60, 7, 4, 4}, {258, 8, 1, 1}}, capExtra: 0})
	}
}

// ---- (2) stream buffers ----

type gStrm struct {
	frames   []gMsg // complete frames, in order
	next     *gMsg  // one more frame of which only the first tailN bytes are in the buffer (nil: none)
	tailN    int
	capExtra int
}

func (s gStrm) desc() string {
	parts := []string{fmt.Sprintf("strm cap=%d tail=%d", s.capExtra, s.tailNOrNone())}
	for _, f := range s.frames {
		parts = append(parts, f.desc())
	}
	if s.next != nil {
		parts = append(parts, "next "+s.next.desc())
	}
	return strings.Join(parts, " | ")
}

func (s gStrm) tailNOrNone() int {
	if s.next == nil {
		return -1
	}
	return s.tailN
}

func parseGStrm(desc string) (gStrm, bool) {
	var s gStrm
	parts := strings.Split(desc, " | ")
	f := strings.Fields(parts[0])
	if len(f) == 0 || f[0] != "strm" {
		return s, false
	}
	for _, kv := range f[1:] {
		p := strings.SplitN(kv, "=", 2)
		if len(p) != 2 {
			continue
		}
		x, _ := strconv.Atoi(p[1])
		switch p[0] {
		case "cap":
			s.capExtra = x
		case "tail":
			s.tailN = x
		}
	}
	for _, p := range parts[1:] {
		if strings.HasPrefix(p, "next ") {
			g, ok := parseGMsg(strings.TrimPrefix(p, "next "))
			if ok {
				g.coder = 1
				s.next = &g
			}
			continue
		}
		g, ok := parseGMsg(p)
		if ok {
			g.coder = 1
			s.frames = append(s.frames, g)
		}
	}
	if s.next == nil {
		s.tailN = 0
	}
	return s, true
}

// encodeStream returns the bytes the stream coder writes for g (nil when it refuses).
func encodeStream(g gMsg) []byte {
	m := g.build()
	var out []byte
	r := guarded(func() (int, error) {
		n, err := tcpcoder.DefaultCoder.Size(m)
		if err != nil {
			return n, err
		}
		buf := make([]byte, n)
		k, err := tcpcoder.DefaultCoder.Encode(m, buf)
		if err != nil {
			return k, err
		}
		if k < 0 || k > n {
			return k, fmt.Errorf("encode returned %d for a buffer of %d", k, n)
		}
		out = buf[:k]
		return k, nil
	})
	if r.panicked || r.err != nil {
		return nil
	}
	return out
}

// c01Strm runs one stream-buffer case. Frames the coder refuses to encode are left out
// (the case is about decoding what the encoder produced).
func c01Strm(e *Emitter, s gStrm) {
	var buf []byte
	var kept []gMsg
	for _, g := range s.frames {
		b := encodeStream(g)
		if b == nil {
			continue
		}
		kept = append(kept, g)
		buf = append(buf, b...)
	}
	s.frames = kept
	if len(s.frames) == 0 {
		return
	}
	var tail []byte
	tailClass := "tail-none"
	if s.next != nil {
		nb := encodeStream(*s.next)
		if nb == nil {
			s.next = nil
		} else {
			k := s.tailN
			if k > len(nb)-1 {
				k = len(nb) - 1
			}
			if k > 96 {
				k = 96
			}
			if k < 0 {
				k = 0
			}
			s.tailN = k
			tail = nb[:k]
			var h tcpcoder.MessageHeader
			hr := guarded(func() (int, error) { return tcpcoder.DefaultCoder.DecodeHeader(nb, &h) })
			switch {
			case k == 0:
				tailClass = "tail-none"
			case hr.err == nil && !hr.panicked && k >= hr.n:
				tailClass = "tail-header-and-part-of-body"
			default:
				tailClass = "tail-part-of-header"
			}
		}
	}
	buf = append(buf, tail...)
	maxOpts := 0
	total := 0
	for _, g := range s.frames {
		maxOpts = max(maxOpts, len(g.opts))
		total += g.totalBytes()
	}
	capD := maxOpts + s.capExtra
	if capD < 0 {
		capD = 0
	}
	// take the buffer apart
	var obs []string
	off := 0
	consumedOK := true
	for i := 0; i <= len(s.frames) && off < len(buf); i++ {
		rest := buf[off:]
		in := append([]byte{}, rest...)
		r, dm := decodeDirect(1, in, capD)
		d := dobsText(r, func() string { return projMessage(dm, true) })
		h, _ := headerObs(append([]byte{}, rest...))
		fresh := newPooled()
		in2 := append([]byte{}, rest...)
		pr := watched(func() (int, error) { return fresh.UnmarshalWithDecoder(tcpcoder.DefaultCoder, in2) }, 30*time.Second)
		p := dobsText(pr, func() string { return pooledProj(fresh, true) })
		obs = append(obs, fmt.Sprintf("(%s, %s, %s)", d, h, p))
		if r.panicked || r.hang || r.err != nil || r.n <= 0 || r.n > len(rest) {
			consumedOK = false
			break
		}
		off += r.n
	}
	var ms []string
	for _, g := range s.frames {
		ms = append(ms, g.coq())
	}
	coq := fmt.Sprintf("Strm [%s] %s %d [%s]", strings.Join(ms, "; "), coqBytes(tail), capD, strings.Join(obs, "; "))
	outcome := "strm-all-frames-decoded"
	if !consumedOK {
		outcome = "strm-stopped-at-error"
	}
	after := len(s.frames) > 1 || len(tail) > 0
	e.AddW(coq, s.desc(), after, 2+len(s.frames)+total/600,
		"strm", fmt.Sprintf("strm-frames-%d", len(s.frames)), "strm-"+tailClass, outcome)
}

// genStreamMessage draws a message the stream coder encodes (inside the preconditions except,
// rarely, an illegal option length / unsorted options, which encode all the same).
func genStreamMessage(rng *Rng) gMsg {
	for i := 0; i < 50; i++ {
		g := genMessage(rng.Fork(), 1, false)
		if len(g.tok) > 8 || g.code > 255 {
			continue
		}
		if g.totalBytes() > 3000 {
			continue
		}
		return g
	}
	return gMsg{coder: 1, code: 1}
}

func c01StreamCorners(e *Emitter) {
	pay := gMsg{coder: 1, tok: []byte{1, 2}, code: 69, opts: []gOpt{{12, 50, 1, 0}}, paySalt: 3, payN: 13}
	nopay := gMsg{coder: 1, tok: []byte{7}, code: 1, opts: []gOpt{{11, 97, 3, 0}, {11, 98, 1, 0}}}
	empty := gMsg{coder: 1, code: 0}
	emptyTok := gMsg{coder: 1, tok: []byte{1, 2, 3, 4, 5, 6, 7, 8}, code: 68}
	csm := gMsg{coder: 1, code: 225, opts: []gOpt{{2, 9, 4, 1}, {4, 0, 0, 0}}}
	ext13 := gMsg{coder: 1, tok: []byte{9}, code: 2, paySalt: 5, payN: 12}   // body 13
	ext14 := gMsg{coder: 1, tok: []byte{9}, code: 2, paySalt: 6, payN: 268}  // body 269
	ext12 := gMsg{coder: 1, tok: []byte{9}, code: 2, paySalt: 7, payN: 11}   // body 12
	ext268 := gMsg{coder: 1, tok: []byte{9}, code: 2, paySalt: 8, payN: 267} // body 268
	all := []gMsg{pay, nopay, empty, emptyTok, csm, ext12, ext13, ext268, ext14}
	// every ordered pair: what follows a frame must not leak into it
	for i := range all {
		for j := range all {
			c01Strm(e, gStrm{frames: []gMsg{all[i], all[j]}, capExtra: (i + j) % 2})
		}
	}
	// a frame followed by the beginning of the next one, every cut of the first bytes
	for i := range all {
		for _, k := range []int{1, 2, 3, 4, 5, 9, 12} {
			nx := all[(i+k)%len(all)]
			c01Strm(e, gStrm{frames: []gMsg{all[i]}, next: &nx, tailN: k, capExtra: 1})
		}
	}
	// longer trains
	c01Strm(e, gStrm{frames: []gMsg{pay, nopay, empty, csm, ext13, ext14, pay}, capExtra: 0})
	c01Strm(e, gStrm{frames: []gMsg{empty, empty, empty, nopay, nopay}, next: &ext14, tailN: 50, capExtra: 16})
	// a single frame alone (the shape the other family covers), for the record
	c01Strm(e, gStrm{frames: []gMsg{pay}, capExtra: 0})
}

func c01StreamRandom(e *Emitter, rng *Rng, n int) {
	for i := 0; i < n; i++ {
		r := rng.Fork()
		var s gStrm
		nf := 1 + r.Intn(4)
		if r.Chance(5) {
			nf = 5 + r.Intn(4)
		}
		for j := 0; j < nf; j++ {
			s.frames = append(s.frames, genStreamMessage(r))
		}
		if nf == 1 || r.Chance(45) {
			nx := genStreamMessage(r)
			s.next = &nx
			s.tailN = r.Pick([]int{1, 1, 2, 2, 3, 4, 5, 6, 8, 11, 14, 20, 40, 96})
		}
		s.capExtra = r.Pick([]int{0, 0, 1, 16})
		c01Strm(e, s)
	}
}
