package main

import (
	"fmt"
	"path/filepath"
	"strings"

	"github.com/plgd-dev/go-coap/v3/message"
	"github.com/plgd-dev/go-coap/v3/message/pool"
)

// genOptConsts prints the constants the option-list model (Opt/Model.v) reads.
func genOptConsts(out string) error {
	var sb strings.Builder
	sb.WriteString(genHeader)
	fmt.Fprintf(&sb, "Definition maxPathValue : Z := %d.\n", int64(message.VerifMaxPathValue))
	fmt.Fprintf(&sb, "Definition max1ByteNumber : Z := %d.\n", int64(message.VerifMax1ByteNumber))
	fmt.Fprintf(&sb, "Definition max2ByteNumber : Z := %d.\n", int64(message.VerifMax2ByteNumber))
	fmt.Fprintf(&sb, "Definition max3ByteNumber : Z := %d.\n", int64(message.VerifMax3ByteNumber))
	fmt.Fprintf(&sb, "Definition valueBufferSize : Z := %d.\n", int64(pool.VerifValueBufferSize))
	fmt.Fprintf(&sb, "Definition URIPath : Z := %d.\n", int64(message.URIPath))
	fmt.Fprintf(&sb, "Definition LocationPath : Z := %d.\n", int64(message.LocationPath))
	fmt.Fprintf(&sb, "Definition ContentFormat : Z := %d.\n", int64(message.ContentFormat))
	fmt.Fprintf(&sb, "Definition Observe : Z := %d.\n", int64(message.Observe))
	fmt.Fprintf(&sb, "Definition Accept : Z := %d.\n", int64(message.Accept))
	fmt.Fprintf(&sb, "Definition URIQuery : Z := %d.\n", int64(message.URIQuery))
	return writeIfChanged(filepath.Join(out, "OptConsts.v"), sb.String())
}
