package main

// C04, the clauses that need the clock and the shape of the script (Blockwise/SpecTime.v):
//
//   - request context deadlines (Blockwise/Deadline.v): the application starts a Do with
//     context.WithTimeout(d) (field 8 of an exchange in the descriptor, seconds of virtual time;
//     c04Ctx). A slow but loss-free exchange inside that deadline: time passes between two blocks,
//     less or more than the transfer timeout of the endpoints (3600 s), less or more than the deadline.
//     A Do that returns ok with the 2.31 Continue that just arrived while its exchange is in good
//     standing is class 10; after the deadline / a sweep / an error it is the known class 11.
//   - bodies supplied as io.ReadSeeker with short reads (c04Paged, head field pg<page>): loss-free
//     scripts that go on for more than four times the round-trip budget of the bodies; peers that
//     are still exchanging blocks at the end are class 12.

import "fmt"

// c04TripBudget mirrors SpecTime.trip_budget
func c04TripBudget(c *c04Cfg) int {
	szx := min2(c.szxA, c.szxB)
	bs := 1024
	if szx < 7 {
		bs = 16 << uint(szx)
	}
	blocks := func(n int) int {
		if n < 0 {
			n = 0
		}
		return (n+bs-1)/bs + 2
	}
	t := 0
	for _, x := range c.exch {
		t += blocks(x.length)
		if x.path >= 0 && x.path < len(c.res) {
			t += blocks(c.res[x.path].length)
		} else {
			t += 2
		}
	}
	return t
}

// c04LossFree: start every exchange, then deliver in order, n deliveries in all (nothing else: no epilogue)
func c04LossFree(cfg *c04Cfg, n int) c04Policy {
	started, d := 0, 0
	return func(_ *c04World, _ int) (c04Ev, bool) {
		if started < len(cfg.exch) {
			started++
			return c04Ev{'S', started - 1}, true
		}
		if d < n {
			d++
			return c04Ev{'D', 0}, true
		}
		return c04Ev{}, false
	}
}

// c04PagedFamily: every body is handed over as a paged reader. (a) loss-free runs longer than the livelock
// bound: downloads, uploads, both, one-way writes and notifications; page sizes that are smaller than,
// equal to, larger than and not a multiple of the block size; (b) the same bodies in the ordinary scripted
// runs with single faults (correspondence only).
func c04PagedFamily(e *Emitter, thorough bool) {
	type pr struct{ a, ma, b, mb int }
	pairs := []pr{{0, 1152, 0, 1152}, {1, 1152, 0, 1152}, {0, 1152, 2, 1152}, {2, 1152, 2, 1152}}
	big := []pr{{6, 1152, 6, 1152}, {7, 2048, 7, 2048}}
	if thorough {
		pairs = append(pairs, pr{1, 1152, 1, 1152}, pr{2, 1152, 0, 1152}, pr{3, 1152, 3, 1152}, pr{0, 1152, 3, 1152})
		big = append(big, pr{7, 1152, 7, 1152}, pr{7, 4096, 6, 1152}, pr{5, 1152, 7, 2048})
	}
	pages := []int{7, 24, 100}
	if thorough {
		pages = append(pages, 1, 3, 15, 16, 17, 32, 48, 1000)
	}
	emitLong := func(cfg *c04Cfg, name string) {
		n := 4*c04TripBudget(cfg) + 2
		if n > 380 {
			return
		}
		r := c04Run(cfg, c04LossFree(cfg, n))
		c04Emit(e, cfg, r, "paged", "paged-loss-free", name, fmt.Sprintf("page-%d", cfg.page))
	}
	for _, p := range pairs {
		s := c04SzxSize(min2(p.a, p.b))
		sizes := []int{s + 1, 3*s + 5, 7 * s}
		if thorough {
			sizes = append(sizes, s, 2*s, 2*s+1, 5*s-1, 300)
		}
		for _, pg := range pages {
			for fl := 0; fl <= 4; fl++ {
				if fl == 3 && !thorough {
					continue // a one-way write of a block-wise body delivers nothing (O1): thorough only
				}
				for ni, n := range sizes {
					if n > 330 && !thorough {
						continue
					}
					if !thorough && pg != 100 && ni != 1 {
						continue
					}
					cfg := c04Base(fl, p.a, p.ma, p.b, p.mb, n)
					cfg.page = pg
					emitLong(cfg, c04FlavourNames[fl])
				}
			}
		}
	}
	for _, p := range big {
		for _, pg := range []int{100, 1000, 1024, 1500} {
			for _, fl := range []int{0, 1, 2} {
				for _, n := range []int{1025, 2500, 5000} {
					if p.a == 7 && fl != 1 && n < 2048 {
						continue // O2: a BERT upload of 1024 < n < buffer makes no progress (notes/C04.md)
					}
					cfg := c04Base(fl, p.a, p.ma, p.b, p.mb, n)
					cfg.page = pg
					emitLong(cfg, c04FlavourNames[fl])
				}
			}
		}
	}
	// (b) single faults over paged bodies
	type base struct{ fl, a, b, n, pg int }
	bases := []base{{1, 0, 0, 53, 7}, {0, 0, 0, 53, 24}, {2, 0, 1, 53, 100}}
	if thorough {
		bases = append(bases, base{4, 0, 0, 40, 7}, base{1, 1, 0, 70, 24}, base{3, 0, 0, 15, 7})
	}
	for _, b := range bases {
		cfg := c04Base(b.fl, b.a, 1152, b.b, 1152, b.n)
		cfg.page = b.pg
		L := 1
		for _, ev := range c04Run(cfg, c04Scripted(cfg, nil)).evs {
			if ev.op == 'D' {
				L++
			}
		}
		for pos := 0; pos <= L; pos++ {
			for k := 0; k < nFaultKinds; k++ {
				if !thorough && k >= fReplay1 && k <= fReplay3 {
					continue
				}
				r := c04Run(cfg, c04Scripted(cfg, []c04Fault{{pos, k}}))
				c04Emit(e, cfg, r, "paged", "paged-faults-1", c04FlavourNames[b.fl], "fault-"+c04FaultNames[k])
			}
		}
	}
}

// c04DeadlineDl: request deadlines used (seconds). No sum of the age steps 1700 / 3700 equals one of them,
// nor one of them minus 7200 (the far-future sweep), so no deadline is ever met exactly.
var c04DeadlineDl = []int{9000, 2000}

// c04DeadlineFamily: a Do whose request context has a deadline; a slow link: after p delivered messages time
// passes (short of / beyond the transfer timeout of 3600 s, short of / beyond the deadline), optionally a
// sweep "now" at one side, then everything is delivered in order; the Do is timed out at the end and both
// sides are swept. Uploads (the element Do stored serves the next blocks), downloads (the reassembly entry of
// the response is valid until the request's deadline), both, with and without the deadline.
func c04DeadlineFamily(e *Emitter, thorough bool) {
	type base struct {
		name                 string
		code, reqLen, resLen int
		etag                 bool
		szxA, szxB           int
	}
	bases := []base{
		{"upload", 2, 64, 5, false, 0, 0},
		{"download", 1, 0, 75, true, 0, 0},
		{"both", 3, 40, 40, true, 0, 0},
	}
	if thorough {
		bases = append(bases, base{"upload-put", 3, 75, 5, false, 0, 0}, base{"upload-szx", 2, 100, 5, false, 1, 0}, base{"upload-szx2", 2, 100, 5, false, 0, 1},
			base{"download-szx", 1, 0, 100, true, 1, 0}, base{"post-big-response", 2, 5, 40, false, 0, 0})
	}
	ages := [][]c04Ev{{{'A', 3700}}, {{'A', 1700}}, {{'A', 1700}, {'A', 1700}, {'A', 1700}}, {{'A', 3700}, {'A', 3700}, {'A', 3700}}}
	if thorough {
		ages = append(ages, []c04Ev{{'A', 3700}, {'A', 3700}}, []c04Ev{{'A', 1700}, {'A', 1700}})
	}
	sweeps := [][]c04Ev{nil, {{'W', 0}}, {{'W', 1}}}
	if thorough {
		sweeps = append(sweeps, []c04Ev{{'W', 0}, {'W', 1}}, []c04Ev{{'E', 0}})
	}
	dls := []int{9000, 2000, 0}
	for _, b := range bases {
		for _, dl := range dls {
			cfg := &c04Cfg{szxA: b.szxA, maxA: 1152, szxB: b.szxB, maxB: 1152}
			cfg.exch = []c04Exch{{0, b.code, 7, 0, 5, b.reqLen, -1, dl}}
			cfg.res = []c04Res{{11, b.resLen, b.etag, 42}}
			ff := c04Run(cfg, c04Scripted(cfg, nil))
			nd := 0
			for _, ev := range ff.evs {
				if ev.op == 'D' {
					nd++
				}
			}
			for p := 1; p < nd; p++ {
				for ai, age := range ages {
					for si, sw := range sweeps {
						if dl == 0 && (si != 0 || (!thorough && ai > 1)) {
							continue // without a deadline: Timed.v's ground, a few cases (known class 11 among them)
						}
						if !thorough && si != 0 && ai != 0 && ai != 3 {
							continue
						}
						// a second gap, later in the exchange (every gap is short, their sum is not)
						for _, second := range []bool{false, true} {
							if second && (len(age) != 1 || si != 0) {
								continue
							}
							pre := []c04Ev{{'S', 0}}
							for i := 0; i < p; i++ {
								pre = append(pre, c04Ev{'D', 0})
							}
							mid := append(append([]c04Ev(nil), age...), sw...)
							stage, i, n, epi := 0, 0, 0, 0
							epilogue := []c04Ev{{'T', 0}, {'E', 0}, {'E', 1}}
							pol := func(w *c04World, _ int) (c04Ev, bool) {
								if stage == 0 {
									if i < len(pre) {
										i++
										return pre[i-1], true
									}
									stage, i = 1, 0
								}
								if stage == 1 {
									if i < len(mid) {
										i++
										return mid[i-1], true
									}
									stage = 2
								}
								if len(w.flight) > 0 && n < 60 {
									n++
									if second && n == 3 {
										return age[0], true
									}
									return c04Ev{'D', 0}, true
								}
								if epi < len(epilogue) {
									epi++
									return epilogue[epi-1], true
								}
								return c04Ev{}, false
							}
							r := c04Run(cfg, pol)
							c04Emit(e, cfg, r, "deadline", "deadline-"+b.name, fmt.Sprintf("dl-%d", dl), fmt.Sprintf("age-%d", ai), fmt.Sprintf("sweep-%d", si))
						}
					}
				}
			}
		}
	}
}

// c04DeadlineRandom: random interleavings with faults, ageing and sweeps in which some of the Do calls have a
// request deadline (scenarios without B-initiated notifications, distinct tokens)
func c04DeadlineRandom(e *Emitter, rng *Rng, thorough bool) {
	n := 120
	if thorough {
		n = 700
	}
	for i := 0; i < n; i++ {
		g := rng.Fork()
		szxs := []int{0, 0, 0, 1, 1, 2}
		cfg := &c04Cfg{szxA: szxs[g.Intn(len(szxs))], szxB: szxs[g.Intn(len(szxs))], maxA: 1152, maxB: 1152}
		s := c04SzxSize(min2(cfg.szxA, cfg.szxB))
		sizes := c04Sizes(s)
		nx := 1 + g.Intn(3)
		canBump := true
		for j := 0; j < nx; j++ {
			ln := sizes[g.Intn(len(sizes))]
			if g.Chance(40) {
				ln = g.Intn(4*s + 2)
			}
			rn := sizes[g.Intn(len(sizes))]
			tok := 30 + j
			etag := true
			dl := 0
			if g.Chance(70) {
				dl = c04DeadlineDl[g.Intn(len(c04DeadlineDl))]
			}
			switch g.Intn(4) {
			case 0:
				cfg.exch = append(cfg.exch, c04Exch{0, 2, tok, j, 40 + 7*j, ln, -1, dl})
				rn = g.Intn(s)
				etag = g.Bool()
			case 1:
				cfg.exch = append(cfg.exch, c04Exch{0, 1, tok, j, 0, 0, -1, dl})
			case 2:
				cfg.exch = append(cfg.exch, c04Exch{0, 3, tok, j, 40 + 7*j, ln, -1, dl})
			default:
				cfg.exch = append(cfg.exch, c04Exch{1, 2 + g.Intn(2), tok, j, 40 + 7*j, ln, -1, 0})
				rn = g.Intn(s)
			}
			if j == 0 && !etag {
				canBump = false
			}
			cfg.res = append(cfg.res, c04Res{100 + 30*j, rn, etag, 40 + j})
		}
		fp := []int{10, 25, 40}[g.Intn(3)]
		r := c04Run(cfg, c04Random(cfg, g, fp, canBump))
		c04Emit(e, cfg, r, "deadline", "deadline-random", fmt.Sprintf("tokens-%d", nx), fmt.Sprintf("fault-pct-%d", fp))
	}
}
