package main

// C04, family about blocks that do NOT continue what the receiver holds (seeded regression C04-11,
// notes/C04.md "Seeded regressions, round 2" of the last round):
//
//   - c04StaleBlockFamily: a transfer under token T completes; the same token is used for a further
//     transfer (for a download: after the resource - WITHOUT ETag - got new and longer content); while that
//     one is under way and the receiver holds h bytes, the network replays a block of the FIRST transfer
//     whose offset is strictly smaller than h (a stale middle block, M=1, or the stale last block, M=0).
//     The block does not continue what is held: it must neither overwrite held bytes nor shrink the buffer
//     nor complete the transfer - the receiver asks for the block it needs and the transfer delivers exactly
//     the body supplied for it (or fails).
//
// The offsets are strictly smaller than the bytes held and deliveries are FIFO, so the copies of later blocks
// that the re-request provokes arrive after the originals (offset < bytes held again): no stale block ever has
// offset = bytes held, which without ETag would be an in-order block that nobody can tell from the right one
// (the inherent no-ETag mixture, RFC 7959 - not what the family is about). All cases of the family are class 0
// on the unchanged tree.

import (
	"fmt"

	"github.com/plgd-dev/go-coap/v3/message"
	"github.com/plgd-dev/go-coap/v3/net/blockwise"
)

// one message of the wire history: direction, Block1 / Block2 NUM (-1 = no such option), M
type c04HistMsg struct {
	toB      bool
	n1, n2   int
	m1, m2   bool
	hasBody  bool
	bodySize int
}

// c04WireHistory runs the explicit events and returns the projection of the wire history afterwards
func c04WireHistory(cfg *c04Cfg, evs []c04Ev) (out []c04HistMsg, inFlight []c04HistMsg) {
	i := 0
	c04Run(cfg, func(w *c04World, _ int) (c04Ev, bool) {
		if i < len(evs) {
			i++
			return evs[i-1], true
		}
		w.materialiseAll()
		project := func(f *c04Flight) c04HistMsg {
			h := c04HistMsg{toB: f.toB, n1: -1, n2: -1}
			if m, err := c04Unmarshal(f.data); err == nil {
				if v, err1 := m.GetOptionUint32(message.Block1); err1 == nil {
					if _, num, more, err2 := blockwise.DecodeBlockOption(v); err2 == nil {
						h.n1, h.m1 = int(num), more
					}
				}
				if v, err1 := m.GetOptionUint32(message.Block2); err1 == nil {
					if _, num, more, err2 := blockwise.DecodeBlockOption(v); err2 == nil {
						h.n2, h.m2 = int(num), more
					}
				}
				if b, err1 := m.ReadBody(); err1 == nil {
					h.hasBody, h.bodySize = len(b) > 0, len(b)
				}
			}
			return h
		}
		for _, f := range w.hist {
			out = append(out, project(f))
		}
		for _, f := range w.flight {
			inFlight = append(inFlight, project(f))
		}
		return c04Ev{}, false
	})
	return out, inFlight
}

func c04StaleBlockFamily(e *Emitter, thorough bool) {
	type base struct {
		c04FlightBase
		bumps  int  // resource changes between the two transfers (each makes the representation 3 bytes longer)
		upload bool // the blocks looked at travel towards B (Block1), else towards A (Block2)
	}
	bases := []base{
		{c04FlightBase{"download", 1, 0, 75, false, 0, 0, 0}, 1, false},
		{c04FlightBase{"download-longer", 1, 0, 75, false, 0, 0, 0}, 6, false},
		{c04FlightBase{"post-big-response", 2, 5, 40, false, 0, 0, 0}, 6, false},
		{c04FlightBase{"upload", 3, 70, 5, false, 0, 0, 0}, 0, true},
	}
	if thorough {
		bases = append(bases,
			base{c04FlightBase{"download-szx1", 1, 0, 150, false, 1, 1, 0}, 11, false},
			base{c04FlightBase{"download-160", 1, 0, 160, false, 0, 0, 0}, 2, false},
			base{c04FlightBase{"both", 3, 40, 40, false, 0, 0, 0}, 6, false},
			base{c04FlightBase{"download-unchanged", 1, 0, 75, false, 0, 0, 0}, 0, false},
			base{c04FlightBase{"upload-post", 2, 100, 5, false, 0, 0, 0}, 0, true},
			base{c04FlightBase{"download-deadline", 1, 0, 75, false, 0, 0, 9000}, 6, false})
	}
	for _, b := range bases {
		cfg := b.cfg()
		bs := 16 << uint(b.szxA)
		// the first transfer, fault-free, to its end
		first := []c04Ev{{'S', 0}}
		for i, n := 0, c04FaultFreeDeliveries(cfg); i < n; i++ {
			first = append(first, c04Ev{'D', 0})
		}
		hist, _ := c04WireHistory(cfg, first)
		// the second transfer: the number of deliveries of its fault-free run
		second := append([]c04Ev{}, first...)
		for i := 0; i < b.bumps; i++ {
			second = append(second, c04Ev{'B', 0})
		}
		second = append(second, c04Ev{'S', 0})
		nd2 := 0
		{
			r := c04Run(cfg, c04Then(cfg, second, false))
			for _, ev := range r.evs[len(second):] {
				if ev.op == 'D' {
					nd2++
				}
			}
		}
		for p := 1; p < nd2; p++ {
			// blocks of the second transfer its receiver has taken after p deliveries: those put on the wire
			// towards it since the second start, minus those still in flight
			prefix := append(append([]c04Ev{}, second...), c04Repeat(c04Ev{'D', 0}, p)...)
			h2, fl := c04WireHistory(cfg, prefix)
			isBlock := func(m c04HistMsg) bool {
				if m.toB != b.upload || !m.hasBody {
					return false
				}
				if b.upload {
					return m.n1 >= 0
				}
				return m.n2 >= 0
			}
			got := 0
			for _, m := range h2[len(hist):] {
				if isBlock(m) {
					got++
				}
			}
			for _, m := range fl {
				if isBlock(m) {
					got--
				}
			}
			if got == 0 {
				continue
			}
			for hi, m := range hist {
				num, more := m.n2, m.m2
				if b.upload {
					num, more = m.n1, m.m1
				}
				if m.toB != b.upload || num < 0 || !m.hasBody {
					continue
				}
				// strictly inside what is held
				if num*bs >= got*bs || num >= got {
					continue
				}
				if !thorough && more && (p+hi)%3 != 0 {
					continue // quick tier: every stale LAST block, a third of the stale middle blocks
				}
				evs := append(append([]c04Ev{}, prefix...), c04Ev{'R', hi})
				r := c04Run(cfg, c04Then(cfg, evs, false))
				kind := "stale-middle-block"
				if !more {
					kind = "stale-last-block"
				}
				c04Emit(e, cfg, r, "stale-block-inside-held-bytes", "stale-block-"+b.name, kind, fmt.Sprintf("stale-block-held-%d", got))
			}
		}
	}
}

func c04Repeat(ev c04Ev, n int) []c04Ev {
	out := make([]c04Ev, n)
	for i := range out {
		out[i] = ev
	}
	return out
}
