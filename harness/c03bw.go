package main

// C03, block-wise layer families (cases evaluated on the machine of Token/BwModel.v, see Token/BwRun.v).
//
// Script events added for them (c03.go runs them):
//
//	K<rid>:<for>:<p|c|n>:<slot>:<num>/<total>   block num of the total blocks of response rid for call `for`
//	                                            (Block2, SZX 16; every block but the last is full)
//	W<rid>:<for>:<c|n>:<slot>+...               whole responses that reach the connection back to back
//	                                            (on a stream: in one write), before the first is dispatched
//
// Transports: ub / tb as before; a 'p' or 'h' after it turns the message pool on (pool.New(1024, 2048), the
// default configuration), requests are fresh messages; with 'p' a caller looks at its response when it
// returns and again when the receive path has finished with the message that carried it and then
// releases it, with 'h' it keeps it until the script is over; a final '1' runs the script with GOMAXPROCS(1).
// In a case with K or W events every event carries what the connection wrote meanwhile (requests for a
// block, 4.08 Request Entity Incomplete) and, with the pool on, which of its messages the receive path released.

// blocks appends the events of a block-wise response to call cid; between(i) may add events after block i
func (b *c3B) blocks(cid, total int, between func(i int)) {
	b.rid++
	rid := b.rid
	for i := 0; i < total; i++ {
		kind := byte('c')
		if b.udp() {
			kind = []byte{'c', 'n'}[b.rng.Intn(2)]
			if i == 0 && b.con[cid] && !b.ackd[cid] {
				if b.rng.Chance(50) {
					kind = 'p'
				} else {
					b.add(c3Op{kind: 'A', cid: cid})
				}
				b.ackd[cid] = true
			}
		}
		b.add(c3Op{kind: 'K', rid: rid, forc: cid, rkind: kind, slot: b.newSlot(), num: i, total: total})
		if between != nil && i < total-1 {
			between(i)
		}
	}
	delete(b.live, cid)
}

// a Do whose response comes in blocks, with a second Do with the same token while the first is outstanding
// (before the first block, between blocks), bystanders, duplicated and stale blocks, cancellation
func c3GenDisplace(rng *Rng, tr string, variant int) c3Script {
	b := newC3B(rng, tr)
	t := b.tok()
	total := 2 + rng.Intn(3)
	s0 := b.start(t, 'd', rng.Chance(60))
	b.add(c3Op{kind: 'S', st: []c3Start{s0}})
	dup := func() {
		s := b.start(t, 'd', rng.Chance(60))
		b.add(c3Op{kind: 'S', st: []c3Start{s}})
		delete(b.live, s.cid)
	}
	switch variant % 8 {
	case 0: // refused before the first block
		dup()
		b.blocks(s0.cid, total, nil)
	case 1: // refused between two blocks
		at := rng.Intn(total - 1)
		b.blocks(s0.cid, total, func(i int) {
			if i == at {
				dup()
			}
		})
	case 2: // refused before and between, with a bystander that is answered in between
		dup()
		o := b.randStart()
		if o.how == 'p' {
			o.how = 'g'
		}
		b.add(c3Op{kind: 'S', st: []c3Start{o}})
		b.blocks(s0.cid, total, func(i int) {
			if i == 0 {
				b.answer(o.cid)
			}
			dup()
		})
	case 3: // no second Do: a plain block-wise response, then the token is used again (single response)
		b.blocks(s0.cid, total, nil)
	case 4: // two block-wise responses for two tokens, block by block in turn, a refused second Do for one of them
		t1 := b.tok()
		s1 := b.start(t1, 'd', rng.Chance(60))
		b.add(c3Op{kind: 'S', st: []c3Start{s1}})
		dup()
		b.rid += 2
		ra, rb := b.rid-1, b.rid
		for _, c := range []c3Start{s0, s1} {
			if b.udp() && c.con {
				b.add(c3Op{kind: 'A', cid: c.cid})
				b.ackd[c.cid] = true
			}
		}
		kind := func() byte {
			if b.udp() {
				return []byte{'c', 'n'}[rng.Intn(2)]
			}
			return 'c'
		}
		for i := 0; i < total; i++ {
			b.add(c3Op{kind: 'K', rid: ra, forc: s0.cid, rkind: kind(), slot: b.newSlot(), num: i, total: total})
			b.add(c3Op{kind: 'K', rid: rb, forc: s1.cid, rkind: kind(), slot: b.newSlot(), num: i, total: total})
		}
	case 5: // two Do with one token released together, blocks for both: only the accepted one is on the wire
		b.sc.ops = b.sc.ops[:0]
		s1 := b.start(t, 'd', s0.con)
		b.add(c3Op{kind: 'G', st: []c3Start{s0, s1}})
		if b.udp() && s0.con {
			b.add(c3Op{kind: 'A', cid: s0.cid})
			b.add(c3Op{kind: 'A', cid: s1.cid})
			b.ackd[s0.cid], b.ackd[s1.cid] = true, true
		}
		b.blocks(s0.cid, total, nil)
		b.blocks(s1.cid, total, nil)
	case 6: // a block twice, and the last block once more after the response has been handed over
		dup()
		at := rng.Intn(total - 1)
		var again c3Op
		b.blocks(s0.cid, total, func(i int) {
			if i == at {
				again = b.sc.ops[len(b.sc.ops)-1]
				again.slot = b.newSlot()
				if again.rkind == 'p' {
					again.rkind = 'n'
				}
				b.add(again)
			}
		})
		last := b.sc.ops[len(b.sc.ops)-1]
		last.slot = b.newSlot()
		if last.rkind == 'p' {
			last.rkind = 'n'
		}
		b.add(last)
	default: // the first Do gives up after the first block; the other blocks arrive all the same
		b.blocks(s0.cid, total, func(i int) {
			if i == 0 {
				b.add(c3Op{kind: 'C', cid: s0.cid})
			}
		})
	}
	if variant%8 != 7 {
		// the token is free again
		s2 := b.start(t, 'd', rng.Chance(60))
		b.add(c3Op{kind: 'S', st: []c3Start{s2}})
		if rng.Chance(50) {
			b.answer(s2.cid)
		} else {
			b.blocks(s2.cid, 2, nil)
		}
	}
	return b.sc
}

// pooled connection: a block-wise download, then calls with distinct tokens that are answered one by one in
// another order or all back to back, the callers keep their responses; two rounds
func c3GenPooled(rng *Rng, tr string, variant int) c3Script {
	b := newC3B(rng, tr)
	kind := func() byte {
		if b.udp() {
			return []byte{'c', 'n'}[rng.Intn(2)]
		}
		return 'c'
	}
	for round := 0; round < 2; round++ {
		d := b.start(b.tok(), 'd', false)
		b.add(c3Op{kind: 'S', st: []c3Start{d}})
		b.blocks(d.cid, 2+rng.Intn(3), nil)
		n := 3 + rng.Intn(3)
		var st []c3Start
		for i := 0; i < n; i++ {
			how := byte('d')
			if rng.Chance(20) {
				how = 'g'
			}
			s := b.start(b.tok(), how, false)
			if b.udp() && how == 'g' {
				// Get sends a confirmable request: acknowledged right away
				st = append(st, s)
				b.add(c3Op{kind: 'S', st: []c3Start{s}})
				b.add(c3Op{kind: 'A', cid: s.cid})
				b.ackd[s.cid] = true
				continue
			}
			st = append(st, s)
			b.add(c3Op{kind: 'S', st: []c3Start{s}})
		}
		order := make([]int, n)
		for i := range order {
			order[i] = n - 1 - i
		}
		if variant%2 == 0 {
			for i := n - 1; i > 0; i-- {
				j := rng.Intn(i + 1)
				order[i], order[j] = order[j], order[i]
			}
			for _, i := range order {
				b.resp(st[i].cid, kind(), b.newSlot())
				delete(b.live, st[i].cid)
			}
		} else {
			var sub []c3Op
			for _, i := range order {
				b.rid++
				sub = append(sub, c3Op{kind: 'R', rid: b.rid, forc: st[i].cid, rkind: kind(), slot: b.newSlot()})
				delete(b.live, st[i].cid)
			}
			b.add(c3Op{kind: 'W', sub: sub})
		}
	}
	return b.sc
}
