package main

// C13, round 4 -- two ways of ending an exchange that the pair histories did not produce so far:
//
//   obscancelfail:id[:dl|:w|:pre]  Observation.Cancel whose deregistration exchange FAILS: the A->B link
//                              drops the deregistration GET and the caller gives up once the datagram
//                              has been dropped (witness: the link's drop counter), or (dl) its context
//                              has a 100 ms deadline, or (w) the transport refuses the write, or (pre)
//                              the context is done before Cancel is called (the limiter refuses).  Cancel
//                              returns an error; the application has cancelled the observation, so
//                              the script no longer counts it as live (model: ObCancelErr).
//
//   cpark:j  ...  cresume:j    the limiter's cancel / hand-over race.  Request j waits in the endpoint
//                              queue; cpark cancels its context and PARKS its goroutine at the
//                              scheduling point "ep-ctx-done" of acquireEndpoint (verif hook of
//                              net/client/limitParallelRequests: the select has taken <-ctx.Done(),
//                              cancelEndpoint has not run) -- witness: the hook was entered.  Whatever
//                              the history does next happens inside that window: when the request that
//                              holds the slot ends (cancel:i), its releaseEndpoint hands the slot to
//                              the parked j.  cresume lets j go on (witness: its Do returns).  The
//                              closing phase of a history resumes whatever is still parked, in creation
//                              order AFTER cancelling older requests, so "hack:1:0 hack:2:0 cpark:2"
//                              alone ends with the hand-over inside the window.
//                              Model: LmCancel j; LmAct (SeeCancel j); while anything is parked every
//                              "run to rest" is LmSettleHold [parked]; cresume = the next settle.
//
// No wall clock decides anything here: every wait is for a state witness (drop counter, hook entered,
// call returned) under the usual watchdog; the 100 ms deadline of mode dl only determines WHEN Cancel
// gives up, the tables are read after it has returned.

import (
	"context"
	"fmt"
	"sort"
	"strings"
	"time"

	limitparallelrequests "github.com/plgd-dev/go-coap/v3/net/client/limitParallelRequests"
)

type c13Park struct {
	parked chan struct{} // closed by the hook when the goroutine has reached the scheduling point
	resume chan struct{} // closed by the script to let it go on
	done   bool
}

// yield is the limiter's scheduling-point callback while a pair history runs.
func (p *c13Run) yield(l *limitparallelrequests.LimitParallelRequests, point string) {
	if point != "ep-ctx-done" || l != p.a.cc.LimitParallelRequests {
		return
	}
	pk := p.parkNext.Swap(nil)
	if pk == nil {
		return
	}
	close(pk.parked)
	select {
	case <-pk.resume:
	case <-time.After(10 * time.Minute): // never leaves a goroutine behind for ever
	}
}

// unparkAll releases every goroutine still parked (end of the history, also after a hang).
func (p *c13Run) unparkAll() {
	p.parkNext.Store(nil)
	for _, pk := range p.parks {
		if !pk.done {
			pk.done = true
			close(pk.resume)
		}
	}
}

// lmSettle: every goroutine of the limiter runs to rest, except the parked ones.
func (p *c13Run) lmSettle() {
	var rs []int
	for _, h := range p.hangs {
		if h.state == 3 {
			rs = append(rs, h.r)
		}
	}
	if len(rs) == 0 {
		p.ev(true, "LmSettle")
		return
	}
	sort.Ints(rs)
	parts := make([]string, len(rs))
	for i, r := range rs {
		parts[i] = fmt.Sprintf("%d%%N", r)
	}
	p.ev(true, "LmSettleHold ["+strings.Join(parts, "; ")+"]")
}

// handOver: a slot of the endpoint has become free; releaseEndpoint gives it to the head of the queue.
func (p *c13Run) handOver(key int) {
	q := p.queue[key]
	if len(q) == 0 {
		return
	}
	p.queue[key] = q[1:]
	n := p.hangs[q[0]]
	if n.state == 3 {
		// the head has already taken <-ctx.Done() and is parked before cancelEndpoint: it owns the slot now
		n.granted = true
		p.inUse[key]++
		return
	}
	p.grant(n)
}

func (p *c13Run) opPark(id int) {
	h, ok := p.hangs[id]
	if !ok || h.state != 0 {
		return
	}
	p.mark()
	pk := &c13Park{parked: make(chan struct{}), resume: make(chan struct{})}
	p.parks = append(p.parks, pk)
	h.park = pk
	p.parkNext.Store(pk)
	h.cancel()
	select {
	case <-pk.parked:
	case err := <-h.done:
		// the call returned without passing the scheduling point (a tree without the hook call):
		// a plain withdrawal from the queue
		p.parkNext.Store(nil)
		p.flags = append(p.flags, fmt.Sprintf("cpark: scheduling point ep-ctx-done not reached (err=%v)", err))
		p.withdraw(h)
		h.state = 2
		p.ev(true, fmt.Sprintf("LmCancel %d", h.r))
		p.lmSettle()
		return
	case <-time.After(c13Watch):
		p.parkNext.Store(nil)
		p.hung = true
		return
	}
	h.state = 3
	p.ev(true, fmt.Sprintf("LmCancel %d", h.r))
	p.ev(true, fmt.Sprintf("LmAct (L.SeeCancel %d%%N)", h.r))
}

func (p *c13Run) withdraw(h *c13Hang) {
	q := p.queue[h.key]
	for i, x := range q {
		if x == h.id {
			p.queue[h.key] = append(append([]int{}, q[:i]...), q[i+1:]...)
			break
		}
	}
}

func (p *c13Run) opResume(id int) {
	h, ok := p.hangs[id]
	if !ok || h.state != 3 {
		return
	}
	p.mark()
	if !h.park.done {
		h.park.done = true
		close(h.park.resume)
	}
	select {
	case err := <-h.done:
		p.expect("cresume", err, true)
	case <-time.After(c13Watch):
		p.hung = true
	}
	h.state = 2
	if h.granted {
		// cancelEndpoint does not find the channel: the request was admitted meanwhile, it gives the slot back
		p.inUse[h.key]--
		p.lmSettle()
		p.handOver(h.key)
		return
	}
	p.withdraw(h)
	p.lmSettle()
}

func (p *c13Run) opObsCancelFail(id int, mode string) {
	if id < 0 || id >= len(p.regs) {
		return
	}
	reg := p.regs[id]
	if reg.obs == nil {
		return
	}
	if !reg.live {
		p.opObsCancel(id) // already cancelled: Cancel returns nil without a request
		return
	}
	p.mark()
	reg.live = false
	p.ev(true, fmt.Sprintf("ObCancelErr %d", id))
	if mode == "pre" {
		// the caller's context is done before Cancel is called: the deregistration request is refused by the
		// limiter (acquireEndpoint's select or, when that took the granted channel, Weighted.Acquire, which
		// checks the context first) and never reaches the connection
		ctx, cancel := context.WithCancel(context.Background())
		cancel()
		p.nextR++
		p.ev(true, fmt.Sprintf("LmCancel %d", p.nextR))
		p.ev(true, fmt.Sprintf("LmArrive %d %d", p.nextR, reg.k))
		p.lmSettle()
		err, ok := p.call(func() error { return reg.obs.Cancel(ctx) })
		if ok {
			p.expect("obs cancel (context already done)", err, true)
		}
		return
	}
	r := p.limIn(reg.k)
	p.ev(true, fmt.Sprintf("BwPutS %d", reg.tokZ))
	p.ev(true, fmt.Sprintf("RxSend %d", r))
	ctx, cancel := context.WithCancel(context.Background())
	if mode == "dl" {
		ctx, cancel = context.WithTimeout(context.Background(), 100*time.Millisecond)
	}
	defer cancel()
	d0 := 0
	if mode == "w" {
		p.ab.setFail(true)
	} else {
		p.ab.mu.Lock()
		p.ab.passLeft = 0
		d0 = p.ab.dropped
		p.ab.mu.Unlock()
	}
	done := make(chan error, 1)
	go func() {
		defer func() {
			if x := recover(); x != nil {
				done <- fmt.Errorf("panic: %v", x)
			}
		}()
		done <- reg.obs.Cancel(ctx)
	}()
	if mode == "" {
		// the peer stays silent: the caller gives up once the deregistration request has been lost
		if !p.ab.waitDropped(d0, c13Watch) {
			p.hung = true
		}
		cancel()
	}
	select {
	case err := <-done:
		p.expect("obs cancel (deregistration fails)", err, true)
	case <-time.After(c13Watch):
		p.hung = true
	}
	if mode == "w" {
		p.ab.setFail(false)
	} else {
		p.ab.mu.Lock()
		p.ab.passLeft = -1
		p.ab.mu.Unlock()
	}
	p.ev(true, fmt.Sprintf("RxCancel %d", r))
	p.ev(true, fmt.Sprintf("BwDelS %d", reg.tokZ))
	p.limOut(r)
}

// c13Round4 inserts the round-4 operations into a random history (genC13History is shared with C12
// and stays as it is): a failing Cancel instead of / in addition to an answered one, and a second
// request behind a hanging one that is cancelled and parked in the window before cancelEndpoint.
func c13Round4(rng *Rng, ops []string) []string {
	modes := []string{"", ":dl", ":w", ":pre"}
	nreg := 0
	var out []string
	var later []string // operations to insert at a random later position
	nextID := 900
	for _, op := range ops {
		switch {
		case strings.HasPrefix(op, "obscancel:") && rng.Chance(50):
			op = "obscancelfail:" + strings.TrimPrefix(op, "obscancel:") + rng.pickS(modes)
		}
		out = append(out, op)
		f := strings.Split(op, ":")
		switch strings.TrimPrefix(f[0], "D") {
		case "obs":
			nreg++
			if len(f) > 1 && f[1] == "ok" && rng.Chance(30) {
				later = append(later, fmt.Sprintf("obscancelfail:%d%s", nreg-1, rng.pickS(modes)))
			}
		case "hack":
			if len(f) == 3 && rng.Chance(35) {
				nextID++
				out = append(out, fmt.Sprintf("hack:%d:%s", nextID, f[2]), fmt.Sprintf("cpark:%d", nextID))
				if rng.Chance(50) {
					later = append(later, fmt.Sprintf("cresume:%d", nextID))
				}
			}
		}
		if len(later) > 0 && rng.Chance(35) {
			out = append(out, later[0])
			later = later[1:]
		}
	}
	return append(out, later...)
}
