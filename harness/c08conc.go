package main

// C08, work package C08k: the same notification handled by several goroutines at once
// (a UDP/DTLS connection processes received messages on several goroutines; a notification
// and its duplicate / retransmission can be inside Observation.wantBeNotified together).
//
// Op D<tok>/<code>/<obs>/<k>/<dt>/<tag> of a direct-mode history: k identical copies of one
// message, each handed to Handler.Handle on its own goroutine. The copies are identical, so
// on a correct implementation the outcome does not depend on the schedule: the copy that
// takes the observation's mutex first is judged against the old state, the others against the
// state it left. The case text therefore lists k consecutive EMsg events; the j callback
// invocations that were observed are attributed to the first j of them.
//
// The schedule is not left to chance: the harness takes the observation's own mutex
// (reflect+unsafe on Observation.private.mutex), starts the k goroutines, waits until the
// mutex counts k sleeping waiters (witness: the waiter count in its state word), keeps it
// for longer than sync.Mutex's starvation threshold (1 ms), releases and re-takes it so that
// the woken waiter finds it locked and switches it to starvation mode (witness: the
// starving bit), and releases it for good. From then on every Unlock hands the mutex to the
// longest-waiting goroutine: a critical section that covers "test freshness + record" lets
// exactly one copy through; if the two are separate critical sections, every copy passes the
// test before the first one records anything. The waits only make the window reachable: if
// a witness does not show up in time the batch simply runs under whatever schedule happens
// (that can hide a violation, it cannot create one).

import (
	"reflect"
	"strings"
	"sync"
	"sync/atomic"
	"time"
	"unsafe"

	"github.com/plgd-dev/go-coap/v3/message"
	"github.com/plgd-dev/go-coap/v3/message/pool"
)

const (
	c8MutexStarving    = 4 // sync.Mutex state word: bit 2
	c8MutexWaiterShift = 3 // waiter count above it
)

// c8ObsMutex returns the mutex of the live, registered (not waiting) observation stored under tok, or nil.
func (r *c8Run) c8ObsMutex(tok []byte) *sync.Mutex {
	if r.sc.wire || r.hd == nil {
		return nil
	}
	o, ok := r.hd.GetObservation(message.Token(tok).Hash())
	if !ok || o == nil || o.VerifWaiting() {
		return nil
	}
	v := reflect.ValueOf(o)
	if v.Kind() != reflect.Ptr || v.IsNil() {
		return nil
	}
	p := v.Elem().FieldByName("private")
	if !p.IsValid() {
		return nil
	}
	m := p.FieldByName("mutex")
	if !m.IsValid() || m.Type() != reflect.TypeOf(sync.Mutex{}) || !m.CanAddr() {
		return nil
	}
	return (*sync.Mutex)(unsafe.Pointer(m.UnsafeAddr()))
}

func c8MutexState(mu *sync.Mutex) int32 {
	// sync.Mutex{ state int32; sema uint32 } (go1.24: wrapped in internal/sync.Mutex, same layout)
	return atomic.LoadInt32((*int32)(unsafe.Pointer(mu)))
}

func c8WaitState(mu *sync.Mutex, d time.Duration, ok func(int32) bool) bool {
	end := time.Now().Add(d)
	for !ok(c8MutexState(mu)) {
		if time.Now().After(end) {
			return false
		}
		time.Sleep(50 * time.Microsecond)
	}
	return true
}

// doDup runs op (kind 'D', n copies) and returns the outputs of the n events.
func (r *c8Run) doDup(op c8Op) [][]string {
	n := op.num
	one := op
	one.kind = 'M'
	mu := r.c8ObsMutex(op.tok)
	if mu == nil || n < 2 {
		// no live observation under this token (or not the direct mode): nothing to race on
		outs := make([][]string, 0, n)
		for i := 0; i < n; i++ {
			outs = append(outs, r.doMsg(one))
			one.dt = 0
		}
		return outs
	}
	for _, g := range r.regs {
		if g.obs != nil && op.dt != 0 {
			g.obs.VerifShiftLastEvent(-time.Duration(op.dt) * time.Millisecond)
		}
	}
	msgs := make([]*pool.Message, n)
	for i := range msgs {
		msgs[i] = r.directMsg(one)
	}
	mu.Lock()
	locked := true
	unlock := func() {
		if locked {
			locked = false
			mu.Unlock()
		}
	}
	defer unlock()
	var wg sync.WaitGroup
	var panicked atomic.Bool
	for i := 0; i < n; i++ {
		wg.Add(1)
		go func(m *pool.Message) {
			defer wg.Done()
			defer func() {
				if recover() != nil {
					panicked.Store(true)
				}
			}()
			r.hd.Handle(nil, m)
		}(msgs[i])
	}
	// all copies sleep on the mutex
	queued := c8WaitState(mu, c8Timeout, func(s int32) bool { return int(s>>c8MutexWaiterShift) >= n })
	if queued {
		r.features["dup-all-queued"] = true
		time.Sleep(3 * time.Millisecond) // longer than the starvation threshold of sync.Mutex (1 ms)
		// release and take again at once: the woken waiter finds the mutex locked after > 1 ms of
		// waiting and switches it to starvation mode
		mu.Unlock()
		mu.Lock()
		if c8WaitState(mu, 200*time.Millisecond, func(s int32) bool { return s&c8MutexStarving != 0 }) {
			r.features["dup-handoff-mode"] = true
		}
	}
	unlock()
	done := make(chan struct{})
	go func() { wg.Wait(); close(done) }()
	select {
	case <-done:
	case <-time.After(c8Timeout):
		r.bad = "concurrent Handle calls did not return"
	}
	if panicked.Load() {
		r.bad = "Handle panicked"
	}
	log := r.takeLog()
	outs := make([][]string, n)
	// identical copies: the j-th logged line belongs to the j-th event; anything beyond n stays with the last
	for j, x := range log {
		k := j
		if k >= n {
			k = n - 1
		}
		outs[k] = append(outs[k], x)
	}
	cb := 0
	for _, x := range log {
		if strings.HasPrefix(x, "Cb ") {
			cb++
		}
	}
	if cb > 1 {
		r.features["dup-delivered-more-than-once"] = true
	}
	return outs
}

// ---------- generators ----------

func (b *c8B) dup(tok []byte, seq uint32, n int, dt int64) {
	b.tag++
	b.ops = append(b.ops, c8Op{kind: 'D', tok: tok, code: 69, hasObs: true, obs: c8Enc(seq&(1<<24-1), 0), num: n, dt: dt, tag: b.tag})
}

// c8GenConcFixed: fixed scenarios. 0 smallest (a notification and its duplicate at once); 1 batches of
// 2, 3, 4, 8 copies of consecutive notifications; 2 batches across the 24-bit wrap; 3 stale batches
// (all copies refused) between fresh ones, then cancel and a batch after it; 4 a batch that is only
// acceptable because more than 128 s passed, then the same again within 128 s; 5 two observations,
// batches for each and for a foreign token.
func c8GenConcFixed(rng *Rng, v int) []c8Op {
	b := &c8B{rng: rng}
	tok := c8Tok(rng, 1+rng.Intn(8))
	id := b.reg(tok, false)
	switch v {
	case 0:
		b.note(tok, 1, 0)
		b.dup(tok, 2, 2, 0)
		b.note(tok, 2, 0)
		b.note(tok, 3, 0)
	case 1:
		b.note(tok, 10, 0)
		for i, n := range []int{2, 3, 4, 8} {
			b.dup(tok, uint32(11+i), n, 0)
		}
		b.note(tok, 14, 0)
		b.note(tok, 15, 0)
	case 2:
		b.note(tok, 1<<24-3, 0)
		b.dup(tok, 1<<24-2, 2, 0)
		b.dup(tok, 1<<24-1, 3, 0)
		b.dup(tok, 0, 4, 0)
		b.dup(tok, 1, 2, 0)
		b.dup(tok, 1<<24-1, 2, 0)
	case 3:
		b.note(tok, 100, 0)
		b.dup(tok, 101, 3, 0)
		b.dup(tok, 100, 3, 0)
		b.dup(tok, 101+1<<23, 2, 0)
		b.dup(tok, 102, 2, 1000)
		b.cancel(id, 69)
		b.dup(tok, 103, 3, 0)
	case 4:
		b.note(tok, 50, 0)
		b.dup(tok, 50, 3, 200000)
		b.dup(tok, 50, 3, 1000)
		b.dup(tok, 40, 2, 129000)
		b.dup(tok, 41, 2, 0)
	case 5:
		b.note(tok, 7, 0)
		tok2 := append(c8Tok(rng, 3), 0x77)
		b.reg(tok2, false)
		b.note(tok2, 7, 0)
		b.dup(tok, 8, 2, 0)
		b.dup(tok2, 8, 3, 0)
		b.dup([]byte{0xfe, 0xfd, 0xfc, 0xfb, 0xfa}, 9, 2, 0)
		b.dup(tok2, 9, 2, 0)
		b.dup(tok, 9, 4, 0)
		b.note(tok, 9, 0)
	}
	return b.ops
}

// c8GenConcRandom: one observation, a stream (in-order / swapped / duplicated / stale / wrapping, as in
// single-stream) in which about half of the notifications arrive as 2..8 concurrent copies.
func c8GenConcRandom(rng *Rng) []c8Op {
	b := &c8B{rng: rng}
	tok := c8Tok(rng, 1+rng.Intn(8))
	id := b.reg(tok, false)
	starts := []uint32{0, 1, 5, 1<<23 - 3, 1 << 23, 1<<24 - 4, 1<<24 - 1}
	seqs := c8Stream(rng, starts[rng.Intn(len(starts))], 5+rng.Intn(6))
	cancelAt := -1
	if rng.Chance(25) {
		cancelAt = 2 + rng.Intn(len(seqs))
	}
	for i, s := range seqs {
		if i == cancelAt {
			b.cancel(id, 69)
		}
		if i > 0 && rng.Chance(55) {
			b.dup(tok, s, rng.Pick([]int{2, 2, 2, 3, 4, 8}), b.dt())
		} else {
			b.note(tok, s, b.dt())
		}
	}
	return b.ops
}
