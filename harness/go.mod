module verifharness

go 1.24.0

require github.com/plgd-dev/go-coap/v3 v3.0.0

require (
	github.com/dsnet/golib/memfile v1.0.0 // indirect
	github.com/pion/dtls/v3 v3.1.2 // indirect
	github.com/pion/logging v0.2.4 // indirect
	github.com/pion/transport/v4 v4.0.1 // indirect
	go.uber.org/atomic v1.11.0 // indirect
	golang.org/x/crypto v0.45.0 // indirect
	golang.org/x/exp v0.0.0-20240904232852-e7e105dedf7e // indirect
	golang.org/x/net v0.47.0 // indirect
	golang.org/x/sync v0.11.0 // indirect
	golang.org/x/sys v0.38.0 // indirect
)

replace github.com/plgd-dev/go-coap/v3 => /repo
