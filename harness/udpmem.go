package main

// In-memory datagram session and a deterministic driver for udp/client.Conn.
// Datagrams are injected with Conn.Process, everything the connection writes is
// recorded, housekeeping is driven with Conn.CheckExpirations(now). Shared by
// the connection-level properties (C05, C06, C03, C11, C12, C13, C20 wire clause).

import (
	"context"
	"fmt"
	"net"
	"sync"
	"sync/atomic"
	"time"

	dtlsServer "github.com/plgd-dev/go-coap/v3/dtls/server"
	"github.com/plgd-dev/go-coap/v3/message"
	"github.com/plgd-dev/go-coap/v3/message/codes"
	"github.com/plgd-dev/go-coap/v3/message/pool"
	coapNet "github.com/plgd-dev/go-coap/v3/net"
	"github.com/plgd-dev/go-coap/v3/net/blockwise"
	"github.com/plgd-dev/go-coap/v3/net/responsewriter"
	"github.com/plgd-dev/go-coap/v3/options/config"
	"github.com/plgd-dev/go-coap/v3/udp/client"
	"github.com/plgd-dev/go-coap/v3/udp/coder"
)

type memSession struct {
	ctx        atomic.Pointer[context.Context]
	cancel     context.CancelFunc
	doneCtx    context.Context
	doneCancel context.CancelFunc

	mu       sync.Mutex
	onClose  []func()
	out      [][]byte
	outCond  *sync.Cond
	maxMsg   uint32
	failNext int // the next n writes fail
	closed   int
	ranClose int

	// emptyAckDelay: time the write of an empty ACK takes (a slow link; zero = immediate). A real
	// delay of the write path, not a synchronisation device: nothing waits for it.
	emptyAckDelay time.Duration
}

func newMemSession(maxMsg uint32) *memSession {
	ctx, cancel := context.WithCancel(context.Background())
	dctx, dcancel := context.WithCancel(context.Background())
	s := &memSession{cancel: cancel, doneCtx: dctx, doneCancel: dcancel, maxMsg: maxMsg}
	s.ctx.Store(&ctx)
	s.outCond = sync.NewCond(&s.mu)
	return s
}

func (s *memSession) Context() context.Context { return *s.ctx.Load() }
func (s *memSession) Close() error {
	s.mu.Lock()
	s.closed++
	s.mu.Unlock()
	s.cancel()
	return nil
}
func (s *memSession) MaxMessageSize() uint32 { return s.maxMsg }
func (s *memSession) RemoteAddr() net.Addr {
	return &net.UDPAddr{IP: net.IPv4(127, 0, 0, 1), Port: 5683}
}
func (s *memSession) LocalAddr() net.Addr {
	return &net.UDPAddr{IP: net.IPv4(127, 0, 0, 1), Port: 40000}
}
func (s *memSession) NetConn() net.Conn { return nil }
func (s *memSession) WriteMessage(req *pool.Message) error {
	data, err := req.MarshalWithEncoder(coder.DefaultCoder)
	if err != nil {
		return fmt.Errorf("cannot marshal: %w", err)
	}
	cp := make([]byte, len(data))
	copy(cp, data)
	if s.emptyAckDelay > 0 && req.Code() == codes.Empty && req.Type() == message.Acknowledgement {
		time.Sleep(s.emptyAckDelay)
	}
	s.mu.Lock()
	defer s.mu.Unlock()
	if s.failNext > 0 {
		s.failNext--
		return fmt.Errorf("memSession: injected write failure")
	}
	s.out = append(s.out, cp)
	s.outCond.Broadcast()
	return nil
}
func (s *memSession) WriteMulticastMessage(req *pool.Message, _ *net.UDPAddr, _ ...coapNet.MulticastOption) error {
	return s.WriteMessage(req)
}
func (s *memSession) Run(_ *client.Conn) error {
	<-s.Context().Done()
	s.shutdown()
	return nil
}
func (s *memSession) shutdown() {
	s.mu.Lock()
	fns := s.onClose
	s.onClose = nil
	s.mu.Unlock()
	for _, f := range fns {
		f()
	}
	s.doneCancel()
}
func (s *memSession) AddOnClose(f client.EventFunc) {
	s.mu.Lock()
	defer s.mu.Unlock()
	s.onClose = append(s.onClose, f)
}
func (s *memSession) SetContextValue(key interface{}, val interface{}) {
	ctx := context.WithValue(s.Context(), key, val)
	s.ctx.Store(&ctx)
}
func (s *memSession) Done() <-chan struct{} { return s.doneCtx.Done() }

// take returns and clears the datagrams written so far.
func (s *memSession) take() [][]byte {
	s.mu.Lock()
	defer s.mu.Unlock()
	o := s.out
	s.out = nil
	return o
}

// waitOut waits until at least n datagrams are in the output (or timeout).
func (s *memSession) waitOut(n int, d time.Duration) bool {
	deadline := time.Now().Add(d)
	for {
		s.mu.Lock()
		l := len(s.out)
		s.mu.Unlock()
		if l >= n {
			return true
		}
		if time.Now().After(deadline) {
			return false
		}
		time.Sleep(200 * time.Microsecond)
	}
}

// wireMsg is a decoded datagram (projection used as observable).
type wireMsg struct {
	Typ     int
	Code    int
	MID     int
	Tok     []byte
	Opts    message.Options
	Payload []byte
	Raw     []byte
	Bad     bool
}

func decodeWire(b []byte) wireMsg {
	var m message.Message
	m.Options = make(message.Options, 0, 32)
	_, err := coder.DefaultCoder.Decode(b, &m)
	if err != nil {
		return wireMsg{Bad: true, Raw: b}
	}
	return wireMsg{Typ: int(m.Type), Code: int(m.Code), MID: int(m.MessageID), Tok: append([]byte{}, m.Token...), Opts: m.Options, Payload: append([]byte{}, m.Payload...), Raw: b}
}

func encodeWire(typ int, code int, mid int, tok []byte, opts message.Options, payload []byte) []byte {
	m := message.Message{Type: message.Type(typ), Code: codes.Code(code), MessageID: int32(mid), Token: tok, Options: opts, Payload: payload}
	size, _ := coder.DefaultCoder.Size(m)
	buf := make([]byte, size)
	n, err := coder.DefaultCoder.Encode(m, buf)
	if err != nil {
		panic(err)
	}
	return buf[:n]
}

// coq rendering of a wire message as the tuple (typ, code, mid, tok bytes, options, (payload len, payload csum))
func (w wireMsg) coq() string {
	if w.Bad {
		return "WBad"
	}
	return fmt.Sprintf("(W %d %d %d %s %s %d %d)", w.Typ, w.Code, w.MID, coqBytes(w.Tok), coqOpts(w.Opts), len(w.Payload), csum(w.Payload))
}

// handlerCall is one invocation of the application handler.
type handlerCall struct {
	Code    int
	Typ     int
	MID     int
	Tok     []byte
	Payload []byte
}

type memConn struct {
	cc  *client.Conn
	s   *memSession
	mu  sync.Mutex
	log []handlerCall
	// behaviour of the application handler for a request, chosen by the case
	behave   func(w *responsewriter.ResponseWriter[*client.Conn], r *pool.Message)
	barrier  chan struct{}
	barTok   []byte
	barSeq   int
	avoidMID map[int]bool
	errs     []string
	// second session type (memConnOpts.dtls): a real dtls/server.Session over a scripted datagram net.Conn;
	// datagrams are fed to the script (the session's Run loop hands them to Conn.Process), the output is
	// what the session wrote to the script
	script      *c09Script
	scriptTaken int
	runDone     chan struct{}
}

var barrierToken = []byte{0xBA, 0x77, 0x1E, 0x77, 0xBA, 0x77, 0x1E, 0x77}

type memConnOpts struct {
	getMID int32
	// blockwise: put the real net/blockwise layer (expiration one hour: nothing expires during a case) between the
	// connection and the handler; blockwiseSZX is the configured block size (Config.BlockwiseSZX)
	blockwise     bool
	blockwiseSZX  blockwise.SZX
	queueSize     int
	nstart        uint32
	ackTimeout    time.Duration
	maxRetransmit uint32
	limitTotal    int64
	limitEndpoint int64
	maxMsg        uint32
	opts          []client.Option
	// perMessageGoroutine: dispatch every received message in its own goroutine
	// (config.ProcessReceivedMessage), so copies of one request are processed concurrently
	perMessageGoroutine bool
	// afterHandler, when set, runs on the receive path after the dispatch handler returned and before the
	// library's own clean-up of the received message (through config.ProcessReceivedMessage)
	afterHandler func(r *pool.Message)
	// optional: Config.ProcessReceivedMessage (nil = the connection's default)
	processReceived config.ProcessReceivedMessageFunc[*client.Conn]
	// dtls: run the connection over a real dtls/server.Session wrapped around a scripted net.Conn
	// instead of the in-memory session
	dtls bool
}

func newMemConn(o memConnOpts) *memConn {
	if o.maxMsg == 0 {
		o.maxMsg = 64 * 1024
	}
	if o.nstart == 0 {
		o.nstart = 1
	}
	if o.ackTimeout == 0 {
		o.ackTimeout = 2 * time.Second
	}
	if o.limitTotal == 0 {
		o.limitTotal = 1
	}
	if o.limitEndpoint == 0 {
		o.limitEndpoint = 1
	}
	mc := &memConn{s: newMemSession(o.maxMsg), barrier: make(chan struct{}, 16), barTok: barrierToken, avoidMID: map[int]bool{}}
	cfg := client.DefaultConfig
	cfg.MessagePool = pool.New(64, 2048)
	cfg.GetMID = func() int32 { return o.getMID }
	cfg.Errors = func(err error) {
		mc.mu.Lock()
		mc.errs = append(mc.errs, err.Error())
		mc.mu.Unlock()
	}
	cfg.TransmissionNStart = o.nstart
	cfg.TransmissionAcknowledgeTimeout = o.ackTimeout
	cfg.TransmissionMaxRetransmit = o.maxRetransmit
	cfg.ReceivedMessageQueueSize = o.queueSize
	cfg.LimitClientParallelRequests = o.limitTotal
	cfg.LimitClientEndpointParallelRequests = o.limitEndpoint
	cfg.MaxMessageSize = o.maxMsg
	if o.blockwise {
		cfg.BlockwiseSZX = o.blockwiseSZX
		errs := cfg.Errors
		o.opts = append(append([]client.Option{}, o.opts...), client.WithBlockWise(func(cc *client.Conn) *blockwise.BlockWise[*client.Conn] {
			return blockwise.New(cc, time.Hour, errs, func(token message.Token) (*pool.Message, bool) {
				return cc.GetObservationRequest(token)
			})
		}))
	}
	if o.processReceived != nil {
		cfg.ProcessReceivedMessage = o.processReceived
	}
	cfg.Handler = func(w *responsewriter.ResponseWriter[*client.Conn], r *pool.Message) {
		if string(r.Token()) == string(mc.barTok) {
			mc.barrier <- struct{}{}
			return
		}
		var body []byte
		if r.Body() != nil {
			body, _ = r.ReadBody()
		}
		mc.mu.Lock()
		mc.log = append(mc.log, handlerCall{Code: int(r.Code()), Typ: int(r.Type()), MID: int(r.MessageID()), Tok: append([]byte{}, r.Token()...), Payload: body})
		b := mc.behave
		mc.mu.Unlock()
		if b != nil {
			b(w, r)
		}
	}
	if o.perMessageGoroutine {
		cfg.ProcessReceivedMessage = func(req *pool.Message, cc *client.Conn, handler config.HandlerFunc[*client.Conn]) {
			go cc.ProcessReceivedMessageWithHandler(req, handler)
		}
	}
	if o.afterHandler != nil && !o.perMessageGoroutine {
		cfg.ProcessReceivedMessage = func(req *pool.Message, cc *client.Conn, handler config.HandlerFunc[*client.Conn]) {
			cc.ProcessReceivedMessageWithHandler(req, func(w *responsewriter.ResponseWriter[*client.Conn], r *pool.Message) {
				handler(w, r)
				o.afterHandler(r)
			})
		}
	}
	if o.dtls {
		mc.script = newC09Script(true)
		session := dtlsServer.NewSession(context.Background(), coapNet.NewConn(mc.script), o.maxMsg, 1500, true)
		mc.cc = client.NewConnWithOpts(session, &cfg, o.opts...)
		mc.runDone = make(chan struct{})
		go func() { _ = mc.cc.Run(); close(mc.runDone) }()
		return mc
	}
	mc.cc = client.NewConnWithOpts(mc.s, &cfg, o.opts...)
	return mc
}

func (m *memConn) close() {
	if m.script != nil {
		_ = m.cc.Close()
		_ = m.script.Close()
		select {
		case <-m.runDone:
		case <-time.After(10 * time.Second):
		}
		return
	}
	_ = m.cc.Close()
	m.s.shutdown()
}

// waitOut waits until at least n datagrams not yet taken are in the output (or timeout).
func (m *memConn) waitOut(n int, d time.Duration) bool {
	if m.script == nil {
		return m.s.waitOut(n, d)
	}
	deadline := time.Now().Add(d)
	for {
		if len(m.script.written())-m.scriptTaken >= n {
			return true
		}
		if time.Now().After(deadline) {
			return false
		}
		time.Sleep(200 * time.Microsecond)
	}
}

// inject hands one datagram to the connection; result: 0 ok, 1 error returned, 2 panic.
func (m *memConn) inject(d []byte) (res int) {
	defer func() {
		if recover() != nil {
			res = 2
		}
	}()
	if m.script != nil {
		m.script.feed(d)
		return 0
	}
	if err := m.cc.Process(nil, d); err != nil {
		return 1
	}
	return 0
}

// sync waits until everything injected before has been dispatched: it injects a
// non-confirmable barrier request that the handler recognises. Returns false on timeout.
func (m *memConn) sync() bool {
	own := int(uint16(m.cc.VerifMsgID()))
	mid := (own + 0x4000 + m.barSeq) & 0xffff
	for m.avoidMID[mid] {
		m.barSeq++
		mid = (own + 0x4000 + m.barSeq) & 0xffff
	}
	m.barSeq++
	d := encodeWire(1, 1, mid, m.barTok, nil, nil)
	if m.inject(d) != 0 {
		return false
	}
	select {
	case <-m.barrier:
		return true
	case <-time.After(3 * time.Second):
		return false
	}
}

func (m *memConn) takeLog() []handlerCall {
	m.mu.Lock()
	defer m.mu.Unlock()
	l := m.log
	m.log = nil
	return l
}

func (m *memConn) takeOut() []wireMsg {
	var raw [][]byte
	if m.script != nil {
		all := m.script.written()
		raw = all[m.scriptTaken:]
		m.scriptTaken = len(all)
	} else {
		raw = m.s.take()
	}
	r := make([]wireMsg, len(raw))
	for i, b := range raw {
		r[i] = decodeWire(b)
	}
	return r
}
