package main

// genWakeSets writes Gen/WakeSets.v: for each blocking function of the library
// (list below, from DESIGN.md C09) the channels of every `select`, the context
// passed to every semaphore Acquire and to every ReadWithContext /
// WriteWithContext / ReadWithOptions / WriteWithOptions / WriteMulticast call, and
// the raw connection.Read / connection.Write calls, in source order, normalised to
// ReqCtx | ConnCtx | SrvCtx | ConnDone | Result | Other s.
//
// Only go/parser + go/ast are used (no type information); the sources read are
// the very files the harness was compiled from (located through the pc of an
// exported function of the module).  A function of the list that is no longer
// found is an error: the tie is broken and `hx gen` fails.

import (
	"fmt"
	"go/ast"
	"go/parser"
	"go/token"
	"path/filepath"
	"reflect"
	"runtime"
	"strings"

	udpServer "github.com/plgd-dev/go-coap/v3/udp/server"
)

type c09Target struct {
	file string // relative to the module root
	recv string // receiver type name ("" = plain function)
	fn   string
	name string // name in the inventory
}

var c09Targets = []c09Target{
	{"udp/client/conn.go", "Conn", "doInternal", "udp/client.Conn.doInternal"},
	{"udp/client/conn.go", "Conn", "waitForAcknowledge", "udp/client.Conn.waitForAcknowledge"},
	{"udp/client/conn.go", "Conn", "acquireOutstandingInteraction", "udp/client.Conn.acquireOutstandingInteraction"},
	{"udp/client/conn.go", "Conn", "Process", "udp/client.Conn.Process"},
	{"tcp/client/conn.go", "Conn", "doInternal", "tcp/client.Conn.doInternal"},
	{"tcp/client/conn.go", "Conn", "pushToReceivedMessageQueue", "tcp/client.Conn.pushToReceivedMessageQueue"},
	{"net/observation/handler.go", "Handler", "NewObservation", "net/observation.Handler.NewObservation"},
	{"net/observation/handler.go", "Observation", "Cancel", "net/observation.Observation.Cancel"},
	{"net/client/client.go", "Client", "Ping", "net/client.Client.Ping"},
	{"net/client/limitParallelRequests/limitParallelRequests.go", "LimitParallelRequests", "acquireEndpoint", "net/client/limitParallelRequests.LimitParallelRequests.acquireEndpoint"},
	{"net/client/limitParallelRequests/limitParallelRequests.go", "LimitParallelRequests", "Do", "net/client/limitParallelRequests.LimitParallelRequests.Do"},
	{"net/client/limitParallelRequests/limitParallelRequests.go", "LimitParallelRequests", "DoObserve", "net/client/limitParallelRequests.LimitParallelRequests.DoObserve"},
	{"net/blockwise/blockwise.go", "BlockWise", "getCachedReceivedMessage", "net/blockwise.BlockWise.getCachedReceivedMessage"},
	{"udp/server/discover.go", "Server", "DiscoveryRequest", "udp/server.Server.DiscoveryRequest"},
	{"udp/server/server.go", "Server", "conn", "udp/server.Server.conn"},
	{"net/client/receivedMessageReader.go", "ReceivedMessageReader", "loop", "net/client.ReceivedMessageReader.loop"},
	{"net/conn.go", "Conn", "WriteWithContext", "net.Conn.WriteWithContext"},
	{"net/conn.go", "Conn", "ReadWithContext", "net.Conn.ReadWithContext"},
	{"tcp/client/session.go", "Session", "Run", "tcp/client.Session.Run"},
	{"tcp/client/session.go", "Session", "WriteMessage", "tcp/client.Session.WriteMessage"},
	{"dtls/server/session.go", "Session", "Run", "dtls/server.Session.Run"},
	{"dtls/server/session.go", "Session", "WriteMessage", "dtls/server.Session.WriteMessage"},
	{"udp/server/session.go", "Session", "Run", "udp/server.Session.Run"},
	{"udp/server/session.go", "Session", "WriteMessage", "udp/server.Session.WriteMessage"},
}

// c09RepoRoot is the root of the go-coap module the harness was compiled against.
func c09RepoRoot() (string, error) {
	pc := reflect.ValueOf(udpServer.New).Pointer()
	fn := runtime.FuncForPC(pc)
	if fn == nil {
		return "", fmt.Errorf("wake sets: cannot locate the go-coap sources")
	}
	file, _ := fn.FileLine(pc)
	// <root>/udp/server/<file>.go
	return filepath.Dir(filepath.Dir(filepath.Dir(file))), nil
}

// c09Expr renders the few expression shapes that occur as channel / context operands.
func c09Expr(e ast.Expr) string {
	switch x := e.(type) {
	case *ast.Ident:
		return x.Name
	case *ast.SelectorExpr:
		return c09Expr(x.X) + "." + x.Sel.Name
	case *ast.CallExpr:
		args := make([]string, len(x.Args))
		for i, a := range x.Args {
			args[i] = c09Expr(a)
		}
		return c09Expr(x.Fun) + "(" + strings.Join(args, ",") + ")"
	case *ast.ParenExpr:
		return c09Expr(x.X)
	case *ast.StarExpr:
		return "*" + c09Expr(x.X)
	case *ast.UnaryExpr:
		return x.Op.String() + c09Expr(x.X)
	case *ast.IndexExpr:
		return c09Expr(x.X) + "[" + c09Expr(x.Index) + "]"
	case *ast.BasicLit:
		return x.Value
	}
	return fmt.Sprintf("?%T", e)
}

// c09Ctx normalises a context expression (the thing whose Done() is awaited or
// that is passed as ctx argument).  recv is the receiver type of the enclosing
// function, params the names of its context.Context parameters.
func c09Ctx(expr string, recv string, ctxParams map[string]bool) string {
	if ctxParams[expr] {
		return "ReqCtx"
	}
	if strings.HasSuffix(expr, ".Context()") {
		owner := strings.TrimSuffix(expr, ".Context()")
		last := owner
		if i := strings.LastIndex(owner, "."); i >= 0 {
			last = owner[i+1:]
		}
		switch last {
		case "req", "bwReq", "request":
			return "ReqCtx"
		case "cc", "session", "conn":
			return "ConnCtx"
		case "s":
			if recv == "Session" {
				return "ConnCtx"
			}
		}
		return fmt.Sprintf("Other %q", expr)
	}
	if expr == "s.ctx" && recv == "Server" {
		return "SrvCtx"
	}
	return fmt.Sprintf("Other %q", expr)
}

// c09Chan normalises the operand of a receive / send case.
func c09Chan(e ast.Expr, send bool, recv string, ctxParams map[string]bool) string {
	s := c09Expr(e)
	if send {
		return fmt.Sprintf("Other %q", "send:"+s)
	}
	if strings.HasSuffix(s, ".Done()") {
		owner := strings.TrimSuffix(s, ".Done()")
		if owner == "cc" || strings.HasSuffix(owner, ".cc") {
			return "ConnDone"
		}
		return c09Ctx(owner, recv, ctxParams)
	}
	if _, ok := e.(*ast.Ident); ok {
		return "Result" // a local channel / channel parameter: the awaited result
	}
	return fmt.Sprintf("Other %q", s)
}

type c09Wait struct {
	kind  string
	chans []string
	line  int
}

// c09WithContextArg finds a `WithContext(x)` option among the arguments.
func c09WithContextArg(args []ast.Expr) (ast.Expr, bool) {
	for _, a := range args {
		if c, ok := a.(*ast.CallExpr); ok && len(c.Args) == 1 {
			if sel, ok := c.Fun.(*ast.SelectorExpr); ok && sel.Sel.Name == "WithContext" {
				return c.Args[0], true
			}
		}
	}
	return nil, false
}

func c09Scan(fset *token.FileSet, fd *ast.FuncDecl, recv string) []c09Wait {
	ctxParams := map[string]bool{}
	for _, p := range fd.Type.Params.List {
		if sel, ok := p.Type.(*ast.SelectorExpr); ok && c09Expr(sel) == "context.Context" {
			for _, n := range p.Names {
				ctxParams[n.Name] = true
			}
		}
	}
	var out []c09Wait
	ast.Inspect(fd.Body, func(n ast.Node) bool {
		switch x := n.(type) {
		case *ast.FuncLit:
			return false // callbacks run on other goroutines: not part of this function's waits
		case *ast.SelectStmt:
			w := c09Wait{kind: "WSelect", line: fset.Position(x.Pos()).Line}
			for _, c := range x.Body.List {
				cc := c.(*ast.CommClause)
				switch comm := cc.Comm.(type) {
				case nil:
					w.kind = "WPoll"
				case *ast.SendStmt:
					w.chans = append(w.chans, c09Chan(comm.Chan, true, recv, ctxParams))
				case *ast.ExprStmt:
					if u, ok := comm.X.(*ast.UnaryExpr); ok && u.Op == token.ARROW {
						w.chans = append(w.chans, c09Chan(u.X, false, recv, ctxParams))
					}
				case *ast.AssignStmt:
					if len(comm.Rhs) == 1 {
						if u, ok := comm.Rhs[0].(*ast.UnaryExpr); ok && u.Op == token.ARROW {
							w.chans = append(w.chans, c09Chan(u.X, false, recv, ctxParams))
						}
					}
				}
			}
			out = append(out, w)
			return true
		case *ast.CallExpr:
			sel, ok := x.Fun.(*ast.SelectorExpr)
			if !ok {
				return true
			}
			line := fset.Position(x.Pos()).Line
			switch sel.Sel.Name {
			case "Acquire":
				if len(x.Args) == 2 {
					out = append(out, c09Wait{"WAcquire", []string{c09Ctx(c09Expr(x.Args[0]), recv, ctxParams)}, line})
				}
			case "ReadWithContext", "WriteWithContext", "ReadFullWithContext", "WriteMulticast":
				if len(x.Args) >= 1 {
					out = append(out, c09Wait{fmt.Sprintf("(WCall %q)", sel.Sel.Name), []string{c09Ctx(c09Expr(x.Args[0]), recv, ctxParams)}, line})
				}
			case "ReadWithOptions", "WriteWithOptions":
				if a, ok := c09WithContextArg(x.Args); ok {
					out = append(out, c09Wait{fmt.Sprintf("(WCall %q)", sel.Sel.Name), []string{c09Ctx(c09Expr(a), recv, ctxParams)}, line})
				} else {
					out = append(out, c09Wait{fmt.Sprintf("(WCall %q)", sel.Sel.Name), nil, line})
				}
			case "Read", "Write":
				if strings.HasSuffix(c09Expr(sel.X), ".connection") {
					out = append(out, c09Wait{fmt.Sprintf("(WCall %q)", "connection."+sel.Sel.Name), nil, line})
				}
			}
		}
		return true
	})
	return out
}

func c09RecvName(fd *ast.FuncDecl) string {
	if fd.Recv == nil || len(fd.Recv.List) == 0 {
		return ""
	}
	t := fd.Recv.List[0].Type
	if s, ok := t.(*ast.StarExpr); ok {
		t = s.X
	}
	switch x := t.(type) {
	case *ast.Ident:
		return x.Name
	case *ast.IndexExpr: // generic receiver T[C]
		if id, ok := x.X.(*ast.Ident); ok {
			return id.Name
		}
	case *ast.IndexListExpr:
		if id, ok := x.X.(*ast.Ident); ok {
			return id.Name
		}
	}
	return ""
}

func genWakeSets(out string) error {
	root, err := c09RepoRoot()
	if err != nil {
		return err
	}
	var sb strings.Builder
	sb.WriteString("(* GENERATED by `hx gen` (harness/gen_c09.go) from the syntax tree of the current /repo working tree -- do not edit.\n")
	sb.WriteString("   One record per blocking function: its selects / Acquire / *WithContext calls in source order. *)\n")
	sb.WriteString("From Coq Require Import List String.\nFrom GoCoap Require Import Liveness.Model.\nImport ListNotations.\nOpen Scope string_scope.\n\n")
	sb.WriteString("Definition inventory : list bfn := [\n")
	parsed := map[string]*ast.File{}
	fset := token.NewFileSet()
	for i, t := range c09Targets {
		f := parsed[t.file]
		if f == nil {
			f, err = parser.ParseFile(fset, filepath.Join(root, filepath.FromSlash(t.file)), nil, 0)
			if err != nil {
				return fmt.Errorf("wake sets: %w", err)
			}
			parsed[t.file] = f
		}
		var fd *ast.FuncDecl
		for _, d := range f.Decls {
			if x, ok := d.(*ast.FuncDecl); ok && x.Name.Name == t.fn && c09RecvName(x) == t.recv && x.Body != nil {
				fd = x
			}
		}
		if fd == nil {
			return fmt.Errorf("wake sets: %s: func (%s) %s not found (renamed or removed: the tie to the source is broken)", t.file, t.recv, t.fn)
		}
		ws := c09Scan(fset, fd, t.recv)
		fmt.Fprintf(&sb, "  (* %s *)\n  mkFn %q [", t.file, t.name)
		for j, w := range ws {
			if j > 0 {
				sb.WriteString(";")
			}
			fmt.Fprintf(&sb, "\n    mkWait %s [%s]", w.kind, strings.Join(w.chans, "; "))
		}
		sb.WriteString("]")
		if i < len(c09Targets)-1 {
			sb.WriteString(";")
		}
		sb.WriteString("\n")
	}
	sb.WriteString("].\n")
	shapes, err := c09Shapes(root, fset)
	if err != nil {
		return err
	}
	sb.WriteString(shapes)
	return writeIfChanged(filepath.Join(out, "WakeSets.v"), sb.String())
}

// c09FindMethod parses file (relative to root) and returns the method recv.fn.
func c09FindMethod(root string, fset *token.FileSet, file, recv, fn string) (*ast.FuncDecl, error) {
	f, err := parser.ParseFile(fset, filepath.Join(root, filepath.FromSlash(file)), nil, 0)
	if err != nil {
		return nil, fmt.Errorf("wake sets: %w", err)
	}
	for _, d := range f.Decls {
		if x, ok := d.(*ast.FuncDecl); ok && x.Name.Name == fn && c09RecvName(x) == recv && x.Body != nil {
			return x, nil
		}
	}
	return nil, fmt.Errorf("wake sets: %s: func (%s) %s not found (renamed or removed: the tie to the source is broken)", file, recv, fn)
}

// c09Shapes emits two facts about the shape of code that the models Liveness/Table.v and Liveness/Stop.v
// transcribe by hand:
//
//	mid_walk_method / mid_walk_unlocks: the method of pkg/sync.Map with which udp/client.Conn.CheckExpirations
//	walks the table of pending message IDs, and whether the range loop of that method releases the read lock
//	around the callback (`RUnlock()` before the call of the callback, `RLock()` after it);
//	udp_shutdown_plain: udp/server.Session.shutdown consists of exactly `defer s.doneCancel()` and
//	`for _, f := range s.popOnClose() { f() }`.
func c09Shapes(root string, fset *token.FileSet) (string, error) {
	var sb strings.Builder
	ce, err := c09FindMethod(root, fset, "udp/client/conn.go", "Conn", "CheckExpirations")
	if err != nil {
		return "", err
	}
	method := ""
	ast.Inspect(ce.Body, func(n ast.Node) bool {
		if c, ok := n.(*ast.CallExpr); ok {
			if sel, ok := c.Fun.(*ast.SelectorExpr); ok && strings.HasSuffix(c09Expr(sel.X), ".midHandlerContainer") && len(c.Args) == 1 {
				if _, isLit := c.Args[0].(*ast.FuncLit); isLit && method == "" {
					method = sel.Sel.Name
				}
			}
		}
		return true
	})
	if method == "" {
		return "", fmt.Errorf("wake sets: udp/client.Conn.CheckExpirations no longer walks midHandlerContainer with a callback (the tie to the source is broken)")
	}
	wm, err := c09FindMethod(root, fset, "pkg/sync/map.go", "Map", method)
	if err != nil {
		return "", err
	}
	cb := ""
	if len(wm.Type.Params.List) > 0 && len(wm.Type.Params.List[0].Names) > 0 {
		cb = wm.Type.Params.List[0].Names[0].Name
	}
	var loop *ast.RangeStmt
	ast.Inspect(wm.Body, func(n ast.Node) bool {
		if r, ok := n.(*ast.RangeStmt); ok && loop == nil {
			loop = r
		}
		return true
	})
	if loop == nil || cb == "" {
		return "", fmt.Errorf("wake sets: pkg/sync.Map.%s: no range loop with a callback found (the tie to the source is broken)", method)
	}
	// statements of the loop body in order: position of RUnlock, of the call of the callback, of RLock
	unlockAt, callAt, lockAt := -1, -1, -1
	for i, st := range loop.Body.List {
		ast.Inspect(st, func(n ast.Node) bool {
			c, ok := n.(*ast.CallExpr)
			if !ok {
				return true
			}
			switch name := c09Expr(c.Fun); {
			case strings.HasSuffix(name, ".RUnlock") && unlockAt < 0:
				unlockAt = i
			case strings.HasSuffix(name, ".RLock") && callAt >= 0 && lockAt < 0:
				lockAt = i
			case name == cb && callAt < 0:
				callAt = i
			}
			return true
		})
	}
	if callAt < 0 {
		return "", fmt.Errorf("wake sets: pkg/sync.Map.%s: the range loop does not call the callback (the tie to the source is broken)", method)
	}
	unlocks := unlockAt >= 0 && unlockAt < callAt && lockAt > callAt
	fmt.Fprintf(&sb, "\n(* udp/client/conn.go CheckExpirations walks midHandlerContainer with pkg/sync.Map.%s; does the range loop of that\n   method release the read lock around the callback (RUnlock before it, RLock after it)? *)\n", method)
	fmt.Fprintf(&sb, "Definition mid_walk_method : string := %q.\n", method)
	fmt.Fprintf(&sb, "Definition mid_walk_unlocks : bool := %s.\n", coqBool(unlocks))

	sh, err := c09FindMethod(root, fset, "udp/server/session.go", "Session", "shutdown")
	if err != nil {
		return "", err
	}
	plain := len(sh.Body.List) == 2
	if plain {
		d, ok := sh.Body.List[0].(*ast.DeferStmt)
		plain = ok && c09Expr(d.Call) == "s.doneCancel()"
	}
	if plain {
		r, ok := sh.Body.List[1].(*ast.RangeStmt)
		plain = ok && c09Expr(r.X) == "s.popOnClose()" && r.Value != nil && len(r.Body.List) == 1
		if plain {
			e, ok := r.Body.List[0].(*ast.ExprStmt)
			plain = ok && c09Expr(e.X) == c09Expr(r.Value)+"()"
		}
	}
	sb.WriteString("\n(* udp/server/session.go: Session.shutdown is exactly `defer s.doneCancel(); for _, f := range s.popOnClose() { f() }` *)\n")
	fmt.Fprintf(&sb, "Definition udp_shutdown_plain : bool := %s.\n", coqBool(plain))
	more, err := c09Shapes2(root, fset)
	if err != nil {
		return "", err
	}
	sb.WriteString(more)
	return sb.String(), nil
}

// c09Shapes2 emits two more facts that the models Liveness/Reg.v and Liveness/Accept.v transcribe by hand:
//
//	udp_pop_shape / tcp_pop_shape / dtls_pop_shape: what Session.popOnClose leaves in the on-close list after
//	taking it: 0 `nil`, 1 the same slice truncated to length 0 (`x = x[:0]`, the backing array stays shared with
//	the slice that was handed out), 2 anything else;
//	tcp_conn_ctx / dtls_conn_ctx: the expression from which tcp/server.Server.createConn (`cfg.Ctx = <expr>`) and
//	dtls/server.Server.createConn (first argument of NewSession) derive the context of an accepted connection.
func c09Shapes2(root string, fset *token.FileSet) (string, error) {
	var sb strings.Builder
	sb.WriteString("\n(* Session.popOnClose: what is left in the on-close list after it was taken: 0 nil, 1 the list truncated to length 0\n   over the same backing array, 2 anything else *)\n")
	for _, t := range []struct{ name, file string }{
		{"udp", "udp/server/session.go"}, {"tcp", "tcp/client/session.go"}, {"dtls", "dtls/server/session.go"},
	} {
		fd, err := c09FindMethod(root, fset, t.file, "Session", "popOnClose")
		if err != nil {
			return "", err
		}
		shape := -1
		for _, st := range fd.Body.List {
			as, ok := st.(*ast.AssignStmt)
			if !ok || as.Tok != token.ASSIGN || len(as.Lhs) != 1 || len(as.Rhs) != 1 {
				continue
			}
			lhs := c09Expr(as.Lhs[0])
			if !strings.HasSuffix(lhs, "onClose") {
				continue
			}
			shape = 2
			switch r := as.Rhs[0].(type) {
			case *ast.Ident:
				if r.Name == "nil" {
					shape = 0
				}
			case *ast.SliceExpr:
				lowZero := r.Low == nil
				if l, ok := r.Low.(*ast.BasicLit); ok && l.Value == "0" {
					lowZero = true
				}
				h, ok := r.High.(*ast.BasicLit)
				if c09Expr(r.X) == lhs && lowZero && ok && h.Value == "0" && r.Max == nil {
					shape = 1
				}
			}
		}
		if shape < 0 {
			return "", fmt.Errorf("wake sets: %s: Session.popOnClose no longer assigns to the on-close list (the tie to the source is broken)", t.file)
		}
		fmt.Fprintf(&sb, "Definition %s_pop_shape : nat := %d.\n", t.name, shape)
	}

	cc, err := c09FindMethod(root, fset, "tcp/server/server.go", "Server", "createConn")
	if err != nil {
		return "", err
	}
	tcpCtx := ""
	ast.Inspect(cc.Body, func(n ast.Node) bool {
		if as, ok := n.(*ast.AssignStmt); ok && len(as.Lhs) == 1 && len(as.Rhs) == 1 && c09Expr(as.Lhs[0]) == "cfg.Ctx" {
			tcpCtx = c09Expr(as.Rhs[0])
		}
		return true
	})
	if tcpCtx == "" {
		return "", fmt.Errorf("wake sets: tcp/server.Server.createConn no longer assigns cfg.Ctx (the tie to the source is broken)")
	}
	dc, err := c09FindMethod(root, fset, "dtls/server/server.go", "Server", "createConn")
	if err != nil {
		return "", err
	}
	dtlsCtx := ""
	ast.Inspect(dc.Body, func(n ast.Node) bool {
		if c, ok := n.(*ast.CallExpr); ok && c09Expr(c.Fun) == "NewSession" && len(c.Args) > 0 && dtlsCtx == "" {
			dtlsCtx = c09Expr(c.Args[0])
		}
		return true
	})
	if dtlsCtx == "" {
		return "", fmt.Errorf("wake sets: dtls/server.Server.createConn no longer calls NewSession (the tie to the source is broken)")
	}
	sb.WriteString("\n(* the context from which the stream servers derive the context of an accepted connection: tcp/server/server.go\n   createConn `cfg.Ctx = <expr>`; dtls/server/server.go createConn `NewSession(<expr>, ...)`.  \"s.ctx\" is the server's own\n   context, cancelled by Stop *)\n")
	fmt.Fprintf(&sb, "Definition tcp_conn_ctx : string := %q.\n", tcpCtx)
	fmt.Fprintf(&sb, "Definition dtls_conn_ctx : string := %q.\n", dtlsCtx)
	return sb.String(), nil
}
