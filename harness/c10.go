package main

// C10: servers stay up and peers stay isolated under arbitrary input.
// Real servers (top-level udp.NewServer / tcp.NewServer with a mux router) on
// loopback sockets; well-behaved raw-socket clients run scripted request
// sequences while adversarial peers send malformed / oversize / unsolicited
// traffic.  See notes/C10.md.

import (
	"bytes"
	"context"
	"fmt"
	"net"
	"os"
	"sort"
	"strconv"
	"strings"
	"sync"
	"time"

	"github.com/plgd-dev/go-coap/v3/message"
	"github.com/plgd-dev/go-coap/v3/message/codes"
	"github.com/plgd-dev/go-coap/v3/message/pool"
	"github.com/plgd-dev/go-coap/v3/mux"
	coapNet "github.com/plgd-dev/go-coap/v3/net"
	"github.com/plgd-dev/go-coap/v3/options"
	"github.com/plgd-dev/go-coap/v3/options/config"
	"github.com/plgd-dev/go-coap/v3/udp"
	udpClient "github.com/plgd-dev/go-coap/v3/udp/client"
	udpServer "github.com/plgd-dev/go-coap/v3/udp/server"
)

func init() { props["C10"] = runC10 }

const c10Wait = 20 * time.Second // watchdog for one awaited datagram

var c10Routes = []struct {
	path string
	segs []string
	tag  byte
}{{"/a", []string{"a"}, 1}, {"/b/c", []string{"b", "c"}, 2}, {"/echo", []string{"echo"}, 3}}

func c10RespCode(c codes.Code) codes.Code {
	switch c {
	case codes.GET:
		return codes.Content
	case codes.POST:
		return codes.Changed
	case codes.PUT:
		return codes.Created
	case codes.DELETE:
		return codes.Deleted
	}
	return codes.BadRequest
}

type c10HCall struct {
	tok  []byte
	code int
	pay  []byte
}

// c10App is the application installed on every server of this harness.
type c10App struct {
	mu     sync.Mutex
	hlog   map[string][]c10HCall
	panics int
	news   map[string]int
	errs   map[string]int
	errAll []string
	hold   func(remote string, tok []byte) // burst: runs: called by every handler before it logs the request
}

func newC10App() *c10App {
	return &c10App{hlog: map[string][]c10HCall{}, news: map[string]int{}, errs: map[string]int{}}
}

func (a *c10App) router() *mux.Router {
	r := mux.NewRouter()
	for _, rt := range c10Routes {
		tag := rt.tag
		_ = r.Handle(rt.path, mux.HandlerFunc(func(w mux.ResponseWriter, m *mux.Message) {
			defer a.recovered()
			var body []byte
			if m.Body() != nil {
				body, _ = m.ReadBody()
			}
			a.logCall(w.Conn().RemoteAddr().String(), m, body)
			_ = w.SetResponse(c10RespCode(m.Code()), message.TextPlain, bytes.NewReader(append([]byte{tag}, body...)))
		}))
	}
	r.DefaultHandleFunc(func(w mux.ResponseWriter, m *mux.Message) {
		defer a.recovered()
		var body []byte
		if m.Body() != nil {
			body, _ = m.ReadBody()
		}
		a.logCall(w.Conn().RemoteAddr().String(), m, body)
		_ = w.SetResponse(codes.NotFound, message.TextPlain, nil)
	})
	return r
}

func (a *c10App) recovered() {
	if r := recover(); r != nil {
		a.mu.Lock()
		a.panics++
		a.mu.Unlock()
	}
}

func (a *c10App) logCall(remote string, m *mux.Message, body []byte) {
	if a.hold != nil {
		a.hold(remote, m.Token())
	}
	a.mu.Lock()
	a.hlog[remote] = append(a.hlog[remote], c10HCall{tok: append([]byte{}, m.Token()...), code: int(m.Code()), pay: append([]byte{}, body...)})
	a.mu.Unlock()
}

func (a *c10App) onErr(err error) {
	s := err.Error()
	if os.Getenv("HXDBG") == "2" {
		fmt.Fprintln(os.Stderr, "onErr:", s)
	}
	a.mu.Lock()
	a.errAll = append(a.errAll, s)
	// "udp: 127.0.0.1:4242: cannot process packet: ..."
	if i := strings.Index(s, ": cannot process packet"); i > 0 {
		addr := strings.TrimPrefix(s[:i], "udp: ")
		a.errs[addr]++
	}
	a.mu.Unlock()
}

// ---------- one datagram of a script ----------

type c10Send struct {
	data []byte
	// symbolic form for long datagrams: data = pre ++ genBody(salt, n)
	pre  []byte
	salt int
	n    int
	// symbolic form for runs of one byte: data = pre ++ repN times repB ++ post
	repB byte
	repN int
	post []byte
	// well-behaved request
	req   bool
	typ   int
	code  int
	mid   int
	tok   []byte
	route int // 0 = unknown resource
	pay   []byte
	ping  bool
	// observed
	obs *wireMsg
}

func (s *c10Send) coqDg() string {
	if s.repN > 0 {
		return fmt.Sprintf("(DRep %s %d %d %s)", coqBytes(s.pre), s.repB, s.repN, coqBytes(s.post))
	}
	if s.n > 0 {
		return fmt.Sprintf("(DGen %s %d %d)", coqBytes(s.pre), s.salt, s.n)
	}
	return "(DLit " + coqBytes(s.data) + ")"
}

func coqOWire(w *wireMsg) string {
	if w == nil {
		return "None"
	}
	if w.Bad {
		return "(Some (OW 99 0 0 [] [] 0 0))"
	}
	return fmt.Sprintf("(Some (OW %d %d %d %s %s %d %d))", w.Typ, w.Code, w.MID, coqBytes(w.Tok), coqOpts(w.Opts), len(w.Payload), csum(w.Payload))
}

func (s *c10Send) coq() string {
	req := "None"
	if s.req {
		req = fmt.Sprintf("(Some (GReq %d %d %d %s %d %s))", s.typ, s.code, s.mid, coqBytes(s.tok), s.route, coqBytes(s.pay))
	}
	return fmt.Sprintf("SD %s %s %s", s.coqDg(), req, coqOWire(s.obs))
}

type c10Peer struct {
	idx    int
	good   bool
	conn   *net.UDPConn
	addr   *net.UDPAddr
	script []*c10Send // planned
	sends  []*c10Send // actually sent, in order
	pongs  int
	failed bool
	dead   func() bool
}

func coqAddr(a *net.UDPAddr) string {
	ip := "IPnone"
	if len(a.IP) > 0 {
		switch {
		case a.IP.IsUnspecified():
			ip = "(IPunspec " + coqBool(a.IP.To4() == nil) + ")"
		case a.IP.IsMulticast():
			ip = fmt.Sprintf("(IPmcast %d)", ipNum(a.IP))
		default:
			ip = fmt.Sprintf("(IPhost %d)", ipNum(a.IP))
		}
	}
	z := 0
	if a.Zone != "" {
		z, _ = strconv.Atoi(strings.TrimPrefix(a.Zone, "z"))
	}
	return fmt.Sprintf("{| a_ip := %s; a_port := %d; a_zone := %d |}", ip, a.Port, z)
}

// ipNum is the printed identity of an address as a number (IPv4 and IPv4-in-IPv6 print alike).
func ipNum(ip net.IP) uint64 {
	if v4 := ip.To4(); v4 != nil {
		return uint64(v4[0])<<24 | uint64(v4[1])<<16 | uint64(v4[2])<<8 | uint64(v4[3])
	}
	h := uint64(1 << 40)
	for _, b := range ip {
		h = h*131 + uint64(b)
	}
	return h&(1<<52-1) | 1<<40
}

// ---------- script generation ----------

func c10Request(rng *Rng, peer, seq, mid int, typ int) *c10Send {
	code := 1 + rng.Intn(4)
	route := rng.Intn(4) // 0 = unknown
	tok := []byte{byte(0xA0 + peer), byte(seq)}
	for i := rng.Intn(7); i > 0; i-- {
		tok = append(tok, byte(rng.Intn(256)))
	}
	pay := []byte{byte(peer), byte(seq)}
	for i := rng.Intn(12); i > 0; i-- {
		pay = append(pay, byte(rng.Intn(256)))
	}
	if rng.Chance(10) {
		pay = nil
	}
	var opts message.Options
	segs := []string{"zz"}
	if route > 0 {
		segs = c10Routes[route-1].segs
	} else if rng.Bool() {
		segs = []string{"a", "x"}
	}
	for _, s := range segs {
		opts = append(opts, message.Option{ID: message.URIPath, Value: []byte(s)})
	}
	d := encodeWire(typ, code, mid, tok, opts, pay)
	return &c10Send{data: d, req: true, typ: typ, code: code, mid: mid, tok: tok, route: route, pay: pay}
}

func c10GoodScript(rng *Rng, peer, n int) []*c10Send {
	mid := rng.Intn(65536)
	var out []*c10Send
	for seq := 0; seq < n; seq++ {
		typ := 0
		if rng.Chance(25) {
			typ = 1
		}
		s := c10Request(rng, peer, seq, mid, typ)
		out = append(out, s)
		if rng.Chance(12) {
			// retransmission of the same request
			dup := *s
			out = append(out, &dup)
		}
		mid = (mid + 1 + rng.Intn(3)) & 0xffff
	}
	return out
}

// c10Malformed returns one adversarial datagram (class name for the histogram).
func c10Malformed(rng *Rng, maxsize int, goodTok []byte) (*c10Send, string) {
	rb := func(n int) []byte {
		b := make([]byte, n)
		for i := range b {
			b[i] = byte(rng.Intn(256))
		}
		return b
	}
	uri := func(s string) message.Option { return message.Option{ID: message.URIPath, Value: []byte(s)} }
	switch rng.Intn(16) {
	case 0: // truncated header
		return &c10Send{data: rb(rng.Intn(4))}, "trunc-header"
	case 1: // bad version
		d := encodeWire(0, 1, rng.Intn(65536), rb(2), message.Options{uri("a")}, nil)
		d[0] = d[0]&0x3f | byte(rng.Pick([]int{0, 2, 3}))<<6
		return &c10Send{data: d}, "bad-version"
	case 2: // token length 9..15
		d := append([]byte{byte(0x40 | (9 + rng.Intn(7))), 1, byte(rng.Intn(256)), byte(rng.Intn(256))}, rb(rng.Intn(20))...)
		return &c10Send{data: d}, "tkl-9-15"
	case 3: // token truncated
		tkl := 1 + rng.Intn(8)
		d := append([]byte{byte(0x40 | tkl), 1, 0, 1}, rb(rng.Intn(tkl))...)
		return &c10Send{data: d}, "token-trunc"
	case 4: // option nibble 15
		d := []byte{0x40, 1, byte(rng.Intn(256)), byte(rng.Intn(256)), byte(rng.Pick([]int{0xf0, 0x0f, 0xf1, 0x1f, 0xfe}))}
		d = append(d, rb(rng.Intn(4))...)
		return &c10Send{data: d}, "opt-nibble-15"
	case 5: // option value truncated / extension truncated
		d := []byte{0x40, 1, 0, 2, byte(0xb0 | (5 + rng.Intn(8)))}
		d = append(d, rb(rng.Intn(4))...)
		if rng.Bool() {
			d = []byte{0x40, 1, 0, 3, byte(rng.Pick([]int{0xd0, 0xe0, 0x0d, 0x0e, 0xee}))}
			d = append(d, rb(rng.Intn(2))...)
		}
		return &c10Send{data: d}, "opt-trunc"
	case 6: // option number overflow: two deltas of > 32768
		d := []byte{0x40, 1, 0, 4, 0xe0, 0xff, 0x00, 0xe0, 0xff, 0x00}
		return &c10Send{data: d}, "opt-number-overflow"
	case 7: // payload marker without payload
		d := append(encodeWire(rng.Intn(2), 1+rng.Intn(4), rng.Intn(65536), rb(rng.Intn(5)), message.Options{uri("a")}, nil), 0xff)
		return &c10Send{data: d}, "marker-no-payload"
	case 8: // random bytes
		return &c10Send{data: rb(1 + rng.Intn(40))}, "random"
	case 9: // random bytes behind a plausible header
		d := append([]byte{byte(0x40 | rng.Intn(64)), byte(rng.Intn(256)), byte(rng.Intn(256)), byte(rng.Intn(256))}, rb(rng.Intn(24))...)
		return &c10Send{data: d}, "random-header"
	case 10: // oversize: a valid request whose payload exceeds the server's maximal message size
		pre := encodeWire(0, 2, rng.Intn(65536), rb(2), message.Options{uri("echo")}, []byte{0x5a})
		n := maxsize + rng.Intn(400)
		if n > 60000 {
			// the default 64 KiB limit cannot be exceeded by a UDP datagram: send a large valid one
			n = 1200 + rng.Intn(800)
		}
		salt := rng.Intn(200)
		return &c10Send{data: append(append([]byte{}, pre...), genBody(salt, n)...), pre: pre, salt: salt, n: n}, "oversize"
	case 11: // unsolicited empty ACK / RST
		d := encodeWire(2+rng.Intn(2), 0, rng.Intn(65536), nil, nil, nil)
		return &c10Send{data: d}, "unsolicited-ack-rst"
	case 12: // unsolicited response (ACK/CON/NON with a response code), possibly with a good client's token
		tok := rb(1 + rng.Intn(8))
		if goodTok != nil && rng.Bool() {
			tok = goodTok
		}
		d := encodeWire(rng.Pick([]int{0, 1, 2}), rng.Pick([]int{65, 68, 69, 132, 160}), rng.Intn(65536), tok, nil, rb(rng.Intn(6)))
		return &c10Send{data: d}, "unsolicited-response"
	case 13: // well-formed request, a good client's token
		tok := rb(2)
		if goodTok != nil {
			tok = goodTok
		}
		d := encodeWire(rng.Intn(2), 1+rng.Intn(4), rng.Intn(65536), tok, message.Options{uri(rng.PickS([]string{"a", "echo", "nope"}))}, rb(rng.Intn(8)))
		return &c10Send{data: d}, "valid-request"
	case 14: // empty datagram
		return &c10Send{data: []byte{}}, "empty"
	default: // a valid request cut at a random offset
		d := encodeWire(0, 2, rng.Intn(65536), rb(4), message.Options{uri("b"), uri("c")}, rb(6))
		return &c10Send{data: d[:rng.Intn(len(d))]}, "cut-request"
	}
}

func (r *Rng) PickS(xs []string) string { return xs[r.Intn(len(xs))] }

// ---------- the server under test ----------

type c10UDPServer struct {
	app      *c10App
	s        *udpServer.Server
	l        *coapNet.UDPConn
	serveRet chan error
	port     int
}

func c10StartUDP(app *c10App, listen string, maxsize int) (*c10UDPServer, error) {
	return c10StartUDPOpts(app, listen, maxsize)
}

func c10StartUDPOpts(app *c10App, listen string, maxsize int, extra ...udpServer.Option) (*c10UDPServer, error) {
	l, err := coapNet.NewListenUDP("udp4", listen)
	if err != nil {
		return nil, err
	}
	opts := []udpServer.Option{
		options.WithMux(app.router()),
		options.WithErrors(app.onErr),
		options.WithInactivityMonitor(time.Hour, func(cc *udpClient.Conn) { _ = cc.Close() }),
		options.WithOnNewConn(func(cc *udpClient.Conn) {
			app.mu.Lock()
			app.news[cc.RemoteAddr().String()]++
			app.mu.Unlock()
		}),
		options.WithProcessReceivedMessageFunc(func(req *pool.Message, cc *udpClient.Conn, handler config.HandlerFunc[*udpClient.Conn]) {
			defer app.recovered()
			cc.ProcessReceivedMessageWithHandler(req, handler)
		}),
	}
	if maxsize > 0 {
		opts = append(opts, options.WithMaxMessageSize(uint32(maxsize)))
	}
	opts = append(opts, extra...)
	srv := &c10UDPServer{app: app, l: l, serveRet: make(chan error, 1)}
	srv.s = udp.NewServer(opts...)
	srv.port = l.LocalAddr().(*net.UDPAddr).Port
	go func() {
		defer func() {
			if r := recover(); r != nil {
				app.mu.Lock()
				app.panics++
				app.mu.Unlock()
				srv.serveRet <- fmt.Errorf("panic: %v", r)
			}
		}()
		srv.serveRet <- srv.s.Serve(l)
	}()
	return srv, nil
}

// alive: Serve has not returned.
func (srv *c10UDPServer) alive() bool {
	select {
	case err := <-srv.serveRet:
		srv.serveRet <- err
		return false
	default:
		return true
	}
}

// stop stops the server and waits for Serve to return.
func (srv *c10UDPServer) stop() bool {
	srv.s.Stop()
	select {
	case <-srv.serveRet:
		_ = srv.l.Close()
		return true
	case <-time.After(c10Wait):
		return false
	}
}

// ---------- running the peers ----------

type c10Sched struct {
	mu    sync.Mutex
	order []int
	log   *os.File // udpemp: runs (child process): every datagram is written here BEFORE it is sent
}

func (p *c10Peer) send(sc *c10Sched, dst *net.UDPAddr, s *c10Send) {
	sc.mu.Lock()
	sc.order = append(sc.order, p.idx)
	p.sends = append(p.sends, s)
	if sc.log != nil {
		fmt.Fprintf(sc.log, "%d %s\n", p.idx, s.coqDg())
	}
	_, err := p.conn.WriteToUDP(s.data, dst)
	sc.mu.Unlock()
	if err != nil {
		p.failed = true
	}
}

// await reads datagrams until one satisfies want; confirmable messages from the server are acknowledged
// (the ACK is part of this peer's traffic).
func (p *c10Peer) await(sc *c10Sched, dst *net.UDPAddr, want func(w wireMsg) bool, ackCon bool) *wireMsg {
	buf := make([]byte, 70000)
	deadline := time.Now().Add(c10Wait)
	for {
		// wait in slices so that a server that has stopped ends the wait at once (Serve returning is an
		// observable of the run, not a reason to sit out every watchdog)
		slice := time.Now().Add(250 * time.Millisecond)
		if slice.After(deadline) {
			slice = deadline
		}
		_ = p.conn.SetReadDeadline(slice)
		n, _, err := p.conn.ReadFromUDP(buf)
		if err != nil {
			if ne, ok := err.(net.Error); ok && ne.Timeout() && time.Now().Before(deadline) && !(p.dead != nil && p.dead()) {
				continue
			}
			return nil
		}
		w := decodeWire(append([]byte{}, buf[:n]...))
		if w.Bad {
			continue
		}
		if ackCon && w.Typ == 0 {
			p.send(sc, dst, &c10Send{data: encodeWire(2, 0, w.MID, nil, nil, nil)})
		}
		if want(w) {
			return &w
		}
	}
}

func (p *c10Peer) runGood(sc *c10Sched, dst *net.UDPAddr) {
	for _, s := range p.script {
		p.send(sc, dst, s)
		tok := s.tok
		s.obs = p.await(sc, dst, func(w wireMsg) bool { return bytes.Equal(w.Tok, tok) && w.Code != 0 }, true)
		if s.obs == nil {
			p.failed = true
			return
		}
	}
}

func (p *c10Peer) runBad(rng *Rng, sc *c10Sched, dst *net.UDPAddr) {
	pingMID := rng.Intn(65536)
	i := 0
	for i < len(p.script) {
		burst := 1 + rng.Intn(4)
		for b := 0; b < burst && i < len(p.script); b++ {
			p.send(sc, dst, p.script[i])
			i++
		}
		// flow control + witness that the server consumed the burst: ping, wait for the Reset
		pingMID = (pingMID + 1) & 0xffff
		mid := pingMID
		p.send(sc, dst, &c10Send{data: encodeWire(0, 0, mid, nil, nil, nil), ping: true})
		if p.await(sc, dst, func(w wireMsg) bool { return w.Typ == 3 && w.MID == mid && w.Code == 0 }, false) == nil {
			p.failed = true
			return
		}
		p.pongs++
	}
}

type c10UDPParams struct {
	seed    uint64
	good    int
	bad     int
	nreq    int
	nbad    int
	maxsize int
	wild    bool
	flood   bool // round 4 (udpopt: cases): the adversaries send messages made of long runs of small options
	empty   bool // round 5 (udpemp: cases): the adversaries send messages with code 0.00 that are not empty (c10_empty.go)
}

func (q c10UDPParams) desc() string {
	fam := "udp"
	if q.flood {
		fam = "udpopt"
	}
	if q.empty {
		fam = "udpemp"
	}
	return fmt.Sprintf("%s:%d:%d:%d:%d:%d:%d:%s", fam, q.seed, q.good, q.bad, q.nreq, q.nbad, q.maxsize, coqBool(q.wild))
}

func parseC10UDP(s string) (c10UDPParams, bool) {
	f := strings.Split(s, ":")
	if len(f) != 8 || (f[0] != "udp" && f[0] != "udpopt" && f[0] != "udpemp") {
		return c10UDPParams{}, false
	}
	var q c10UDPParams
	q.flood = f[0] == "udpopt"
	q.empty = f[0] == "udpemp"
	q.seed, _ = strconv.ParseUint(f[1], 10, 64)
	q.good, _ = strconv.Atoi(f[2])
	q.bad, _ = strconv.Atoi(f[3])
	q.nreq, _ = strconv.Atoi(f[4])
	q.nbad, _ = strconv.Atoi(f[5])
	q.maxsize, _ = strconv.Atoi(f[6])
	q.wild = f[7] == "true"
	return q, true
}

type c10UDPResult struct {
	alive    bool
	coq      string
	clean    bool // no watchdog fired
	errDgram int
	classes  map[string]int
	cost     int  // evaluation weight of long option runs
	crashed  bool // udpemp: runs: the child process died; coq is a ProcCrash case
}

func c10RunUDP(q c10UDPParams) (c10UDPResult, error) {
	rng := NewRng(q.seed)
	app := newC10App()
	listen := "127.0.0.1:0"
	if q.wild {
		listen = "0.0.0.0:0"
	}
	srv, err := c10StartUDP(app, listen, q.maxsize)
	if err != nil {
		return c10UDPResult{}, err
	}
	maxsize := q.maxsize
	if maxsize == 0 {
		maxsize = int(udpServer.DefaultConfig.MaxMessageSize)
	}
	dst := &net.UDPAddr{IP: net.IPv4(127, 0, 0, 1), Port: srv.port}
	res := c10UDPResult{classes: map[string]int{}}
	var peers []*c10Peer
	var firstTok []byte
	for i := 0; i < q.good+q.bad; i++ {
		c, err := net.ListenUDP("udp4", &net.UDPAddr{IP: net.IPv4(127, 0, 0, byte(1+i%3)), Port: 0})
		if err != nil {
			return res, err
		}
		p := &c10Peer{idx: i, good: i < q.good, conn: c, addr: c.LocalAddr().(*net.UDPAddr), dead: func() bool { return !srv.alive() }}
		if p.good {
			p.script = c10GoodScript(rng.Fork(), i, q.nreq)
			if firstTok == nil {
				firstTok = p.script[len(p.script)/2].tok
			}
		} else {
			r := rng.Fork()
			for k := 0; k < q.nbad; k++ {
				var sd *c10Send
				var cls string
				if q.flood && !r.Chance(20) {
					w := c10ManyOptions(r, false, maxsize, 11)
					sd, cls = &c10Send{data: w.bytes(), pre: w.pre, repB: w.b, repN: w.n, post: w.post}, w.kind
				} else if q.empty && !r.Chance(25) {
					sd, cls = c10EmptyCode(r, firstTok)
				} else {
					sd, cls = c10Malformed(r, maxsize, firstTok)
				}
				res.classes[cls]++
				res.cost += len(sd.data) * len(sd.data) / 500000
				p.script = append(p.script, sd)
			}
		}
		peers = append(peers, p)
	}
	sc := &c10Sched{log: c10ChildLog}
	var wg sync.WaitGroup
	for _, p := range peers {
		wg.Add(1)
		pr := rng.Fork()
		go func(p *c10Peer) {
			defer wg.Done()
			if p.good {
				p.runGood(sc, dst)
			} else {
				p.runBad(pr, sc, dst)
			}
		}(p)
	}
	wg.Wait()
	alive := srv.alive()
	res.alive = alive
	// a fresh client is still served
	probe := false
	if pc, err := net.ListenUDP("udp4", &net.UDPAddr{IP: net.IPv4(127, 0, 0, 1), Port: 0}); err == nil {
		pp := &c10Peer{idx: -1, conn: pc, dead: func() bool { return !srv.alive() }}
		tok := []byte{0xEE, 0x01}
		_, _ = pc.WriteToUDP(encodeWire(0, 1, 7, tok, message.Options{{ID: message.URIPath, Value: []byte("a")}}, nil), dst)
		w := pp.await(&c10Sched{}, dst, func(w wireMsg) bool { return bytes.Equal(w.Tok, tok) }, false)
		probe = w != nil && w.Code == int(codes.Content)
		pc.Close()
	}
	stopped := srv.stop()
	for _, p := range peers {
		p.conn.Close()
	}
	app.mu.Lock()
	defer app.mu.Unlock()
	res.clean = true
	for _, p := range peers {
		if p.failed {
			res.clean = false
		}
	}
	if os.Getenv("HXDBG") != "" && !res.clean {
		fmt.Fprintf(os.Stderr, "errors: %q\nnews: %v\n", app.errAll, app.news)
	}
	var pb strings.Builder
	for i, p := range peers {
		if p.failed {
			res.clean = false
		}
		if i > 0 {
			pb.WriteString(";\n    ")
		}
		sends := make([]string, len(p.sends))
		for j, s := range p.sends {
			sends[j] = s.coq()
		}
		key := p.addr.String()
		hl := make([]string, 0)
		if p.good {
			for _, h := range app.hlog[key] {
				hl = append(hl, fmt.Sprintf("HC %s %d %d %d", coqBytes(h.tok), h.code, len(h.pay), csum(h.pay)))
			}
		}
		res.errDgram += app.errs[key]
		fmt.Fprintf(&pb, "PO %s %s [%s] %d %d %d [%s]", coqAddr(p.addr), coqBool(p.good), strings.Join(sends, "; "), app.news[key], app.errs[key], p.pongs, strings.Join(hl, "; "))
	}
	order := make([]string, len(sc.order))
	for i, o := range sc.order {
		order[i] = strconv.Itoa(o) + "%nat"
	}
	lst := srv.l.LocalAddr().(*net.UDPAddr)
	res.coq = fmt.Sprintf("UdpRun %d %s (Some (IPhost %d)) [%s] [%s] %s %s %s %d", maxsize, coqAddr(lst), ipNum(net.IPv4(127, 0, 0, 1)),
		pb.String(), strings.Join(order, "; "), coqBool(alive), coqBool(probe), coqBool(stopped), app.panics)
	return res, nil
}

func runC10(a runArgs) error {
	e := NewEmitter("C10", "Server.Run")
	e.Preamble = "From GoCoap Require Import Base.Bytes Dedup.Model Dedup.Spec Server.Model Server.Spec.\nFrom GoCoap Require Monitor.Model Server.KeepAlive.\nFrom GoCoap Require Import Server.Addr."
	e.ShardSize = 24
	e.Rule = "a case is one run of a real server on loopback sockets (udp.NewServer + mux router): 2-4 well-behaved raw-socket clients run scripted CON/NON GET/POST/PUT/DELETE sequences (distinct tokens and payload tags, some retransmissions) while 1-4 adversarial peers send malformed datagrams (truncated header, bad version, TKL 9-15, truncated token/option, nibble 15, option number overflow, marker without payload, random bytes), oversize datagrams, unsolicited ACK/RST/responses and valid requests reusing a good client's token, each burst followed by a ping whose Reset is awaited. Non-trivial = at least two well-behaved clients and at least one datagram the server refused. Handshake families (tls:/dtls: cases): tcp server on a TLS listener (self-signed ECDSA certificate made at run time) and dtls server with PSK; 1-2 well-behaved clients connect and get half of their answers, then 2-5 adversarial peers connect one after the other (send nothing / 3 bytes of a ClientHello / garbage / close at once / full handshake then silence; DTLS: ClientHello never followed up, garbage behind a handshake record header, ClientHello then socket closed, datagram the accept filter drops), then 1-3 more well-behaved clients connect; every run has a peer that never finishes its handshake; all such cases count as non-trivial. Round-2 families: discf: cases = discovery runs in which some DiscoveryRequest calls cannot send their datagram (IPv6 destination on an IPv4 socket, datagram above the UDP limit to a unicast address or a multicast group), followed with preference by responses carrying the same token and by new requests with it (non-trivial = at least one such call); ka: cases = udp/tcp servers with options.WithKeepAlive and 2-4 peers (answering pings, connect-and-stall, chatty, late) on a virtual clock, each peer observed with the others and alone (non-trivial = at least one ping sent and at least one peer dropped by keep-alive). Round-3 families (the keys of the two tables): keyrep: cases = getConnKey and the wildcard helpers on address pairs whose IPv4 addresses come as 4 bytes or as 16 bytes, nil / unspecified / multicast / IPv6 / zones included (non-trivial = the two pairs are the same pair in two representations); rep: cases = a live udp server bound to 127.0.0.1, 2-3 peers on AF_INET sockets sending requests, the application calling Server.NewConn with the peer address from the socket, from net.ResolveUDPAddr or from net.IPv4() (with or without the local address in either form) and sending requests over the connection returned, which the peer answers (non-trivial = at least one look-up with a 16-byte IP); tokkey: cases = Token.Hash() of tokens, among them families that differ only in zero bytes in front; disctok: cases = discovery runs whose token pool is one byte string with 0, 1, 2 and 8-len zero bytes in front (plus 00, 00 00 and, for responses, the empty token). Round-4 families (the decode loop of a pooled message): pool: cases = 4-7 received messages (runs of 8..2^11+8, thorough 2^12+8, one-byte options with delta 1/2/0 and length 0, around the powers of two, optionally behind Uri-Path and followed by a payload, a truncated option or a reserved nibble; plain requests; the malformed classes above) handed to UnmarshalWithDecoder of one pooled message (Reset in between, sometimes a new message) through a decoder that wraps the real udp/tcp coder, records cap(m.Options) at every attempt and cuts the loop after len+4 attempts (non-trivial = at least one message needed more than one attempt); udpopt:/tcpopt: cases = the live udp/tcp servers of the udp:/tcp: cases with adversaries that send such messages; burst: cases = a live udp server with ReceivedMessageQueueSize 1, 4, 16 (default) or 32 and 1-3 peers that send, interleaved and back to back, more NON requests than the queue holds (some peers fewer) while the handler of the very first request is held until the read loop is seen waiting inside Conn.Process or the socket is seen drained; observed per remote address: the order in which its requests reached the application. Round-5 families (c10_empty.go): udpemp: cases = the live udp runs with adversaries that send messages with code 0.00 that are not empty (a token of 1-8 bytes, in some the token of a well-behaved client, options, a payload; CON/NON/ACK/RST), the server living in a child process whose death is an observation (ProcCrash); poolpath: cases = 8-16 datagrams (such messages, requests, pings, empty ACK/RST, malformed ones, one above MaxMessageSize) handed one after the other to Conn.Process of one connection over an in-memory session, each followed by two barrier requests; observed: the trace of the message pool's lifecycle hook (releases and re-acquisitions by message identity)."
	rng := NewRng(a.seed)
	if c10IsChild() {
		// round 5: this process is the child of a udpemp: run (c10_empty.go); it emits nothing
		return c10ChildMain(a)
	}
	if v, err := strconv.Atoi(os.Getenv("HX_C10_HS_RUNS")); err == nil && v > 0 && a.only == "" {
		// development aid: stress the handshake families alone
		if err := c10HsFamily(e, a, v); err != nil {
			return err
		}
		return e.Flush(a.out)
	}
	// round 4: the decode loop of a pooled message, on its own (c10_pool.go); first, because a decode that does not
	// return makes every live run below sit out its watchdogs
	{
		m := 1
		if a.tier == "thorough" {
			m = 8
		}
		if c10PoolFamily(e, a, m) {
			return e.Flush(a.out)
		}
		if err := c10BurstFamily(e, a, m); err != nil {
			return err
		}
	}
	// round 5: poolpath: runs (c10_empty.go), each in a process of its own
	{
		var seeds []uint64
		if strings.HasPrefix(a.only, "poolpath:") {
			sd, _ := strconv.ParseUint(strings.TrimPrefix(a.only, "poolpath:"), 10, 64)
			seeds = append(seeds, sd)
		} else if a.only == "" {
			prng := NewRng(a.seed ^ 0xC10B0071)
			n := 6
			if a.tier == "thorough" {
				n = 48
			}
			for i := 0; i < n; i++ {
				seeds = append(seeds, prng.U64()%1000000007)
			}
		}
		for _, sd := range seeds {
			desc := fmt.Sprintf("poolpath:%d", sd)
			var res c10UDPResult
			var err error
			for attempt := 0; attempt < 3; attempt++ {
				res, err = c10RunInChild(a, desc, c10PoolPathMax)
				if err != nil {
					return err
				}
				if res.crashed || res.clean || !c10TraceDisciplined(res.coq) {
					break
				}
				e.Hist["poolpath-barrier-late"]++
			}
			if res.crashed {
				e.Hist["poolpath-process-died"]++
				e.Add(res.coq, desc, true, "poolpath-run")
				return e.Flush(a.out)
			}
			// a run in which a barrier did not come back in time (three times) is emitted with the windows that are
			// complete: late barriers cannot create a deviation
			e.Add(res.coq, desc, true, "poolpath-run")
			if !c10TraceDisciplined(res.coq) {
				e.Hist["poolpath-release-of-a-pooled-message"]++
			}
		}
	}
	runs := 24
	if a.tier == "thorough" {
		runs = 200
	}
	if v, err := strconv.Atoi(os.Getenv("HX_C10_UDP_RUNS")); err == nil && v > 0 {
		runs = v // development aid: stress the UDP runs
	}
	var plan []c10UDPParams
	if a.only != "" {
		if q, ok := parseC10UDP(a.only); ok {
			plan = append(plan, q)
		}
	} else {
		for i := 0; i < runs; i++ {
			q := c10UDPParams{seed: rng.U64() % 1000000007, good: 2 + rng.Intn(3), bad: 1 + rng.Intn(4), nreq: 4 + rng.Intn(6), nbad: 6 + rng.Intn(10), wild: rng.Chance(30)}
			q.maxsize = rng.Pick([]int{0, 0, 256, 1152})
			if i == 0 {
				q.bad = 0 // baseline without adversaries
			}
			plan = append(plan, q)
		}
	}
	if a.only == "" {
		// round 4: udpopt: runs, parameters from a generator of their own
		frng := NewRng(a.seed ^ 0xC10F100D)
		n := 3
		if a.tier == "thorough" {
			n = 16
		}
		for i := 0; i < n; i++ {
			plan = append(plan, c10UDPParams{seed: frng.U64() % 1000000007, good: 2 + frng.Intn(2), bad: 1 + frng.Intn(2), nreq: 4 + frng.Intn(4), nbad: 3 + frng.Intn(4),
				maxsize: frng.Pick([]int{0, 4096, 1152}), flood: true})
		}
		// round 5: udpemp: runs (each in a process of its own), parameters from a generator of their own
		erng := NewRng(a.seed ^ 0xC10E0000)
		n = 4
		if a.tier == "thorough" {
			n = 24
		}
		for i := 0; i < n; i++ {
			plan = append(plan, c10UDPParams{seed: erng.U64() % 1000000007, good: 2 + erng.Intn(2), bad: 1 + erng.Intn(3), nreq: 8 + erng.Intn(8), nbad: 20 + erng.Intn(20),
				maxsize: erng.Pick([]int{0, 0, 1152}), empty: true})
		}
	}
	for _, q := range plan {
		var res c10UDPResult
		var err error
		for attempt := 0; attempt < 2; attempt++ {
			if q.empty {
				res, err = c10RunUDPInChild(a, q)
			} else {
				res, err = c10RunUDP(q)
			}
			if err != nil {
				return err
			}
			if res.crashed {
				// the process that ran the server died: that is the observation
				e.Hist["udpemp-process-died"]++
				e.Add(res.coq, q.desc(), true, "udpemp-run")
				return e.Flush(a.out)
			}
			if res.clean || !res.alive {
				break
			}
			e.Hist["rerun-after-watchdog"]++
			if os.Getenv("HXDBG") != "" {
				fmt.Fprintf(os.Stderr, "watchdog in %s attempt %d\n%s\n", q.desc(), attempt, res.coq)
			}
		}
		for k, v := range res.classes {
			e.Hist["adv:"+k] += v
		}
		e.Hist[fmt.Sprintf("good=%d", q.good)]++
		e.Hist[fmt.Sprintf("bad=%d", q.bad)]++
		fam := "udp-run"
		if q.flood {
			fam = "udpopt-run"
		}
		if q.empty {
			fam = "udpemp-run"
		}
		e.AddW(res.coq, q.desc(), q.good >= 2 && (res.errDgram > 0 || q.flood || q.empty), 1+len(res.coq)/4000+res.cost, fam)
		if !res.alive || !res.clean {
			// Serve returned, or an awaited datagram did not come in two attempts: the deviation is
			// established by this case, do not sit out the watchdogs of the remaining runs
			e.Hist["stopped-early"]++
			return e.Flush(a.out)
		}
	}
	want := func(prefix string) (uint64, []string, bool) {
		if a.only == "" {
			return 0, nil, false
		}
		f := strings.Split(a.only, ":")
		if f[0] != prefix {
			return 0, nil, false
		}
		sd, _ := strconv.ParseUint(f[1], 10, 64)
		return sd, f, true
	}
	mult := 1
	if a.tier == "thorough" {
		mult = 8
	}
	// getConnKey tables
	if sd, _, ok := want("key"); ok {
		coq, _ := c10KeyCase(NewRng(sd))
		e.Add(coq, a.only, true, "key")
	} else if a.only == "" {
		for i := 0; i < 200*mult; i++ {
			sd := rng.U64() % 1000000007
			coq, _ := c10KeyCase(NewRng(sd))
			e.AddW(coq, fmt.Sprintf("key:%d", sd), true, 0, "key")
		}
	}
	// peer table operation sequences
	tables := []uint64{}
	if sd, _, ok := want("table"); ok {
		tables = append(tables, sd)
	} else if a.only == "" {
		for i := 0; i < 16*mult; i++ {
			tables = append(tables, rng.U64()%1000000007)
		}
	}
	for _, sd := range tables {
		coq, err := c10TableRun(sd)
		if err != nil {
			return err
		}
		e.Add(coq, fmt.Sprintf("table:%d", sd), true, "table-run")
	}
	// accept loops
	type acc struct {
		sd   uint64
		dtls bool
	}
	var accs []acc
	if sd, f, ok := want("accept"); ok {
		accs = append(accs, acc{sd, len(f) > 2 && f[2] == "true"})
	} else if a.only == "" {
		for i := 0; i < 24*mult; i++ {
			accs = append(accs, acc{rng.U64() % 1000000007, i%2 == 1})
		}
	}
	for _, x := range accs {
		coq, err := c10AcceptRun(x.sd, x.dtls)
		if err != nil {
			return err
		}
		e.Add(coq, fmt.Sprintf("accept:%d:%s", x.sd, coqBool(x.dtls)), true, "accept-run")
	}
	// tcp server
	type tr struct {
		sd         uint64
		g, b, nreq int
		flood      bool // round 4 (tcpopt: runs): the adversaries send frames made of long runs of small options
	}
	var trs []tr
	if sd, f, ok := want("tcp"); ok && len(f) == 5 {
		g, _ := strconv.Atoi(f[2])
		b, _ := strconv.Atoi(f[3])
		n, _ := strconv.Atoi(f[4])
		trs = append(trs, tr{sd, g, b, n, false})
	} else if sd, f, ok := want("tcpopt"); ok && len(f) == 5 {
		g, _ := strconv.Atoi(f[2])
		b, _ := strconv.Atoi(f[3])
		n, _ := strconv.Atoi(f[4])
		trs = append(trs, tr{sd, g, b, n, true})
	} else if a.only == "" {
		for i := 0; i < 8*mult; i++ {
			trs = append(trs, tr{rng.U64() % 1000000007, 2 + rng.Intn(3), 2 + rng.Intn(6), 4 + rng.Intn(6), false})
		}
		frng := NewRng(a.seed ^ 0xC10F100E)
		for i := 0; i < 2*mult; i++ {
			trs = append(trs, tr{frng.U64() % 1000000007, 2, 2 + frng.Intn(3), 3 + frng.Intn(3), true})
		}
	}
	for _, x := range trs {
		var coq string
		for attempt := 0; attempt < 3; attempt++ {
			c, clean, classes, err := c10TCPRun(x.sd, x.g, x.b, x.nreq, x.flood)
			if err != nil {
				return err
			}
			coq = c
			if clean {
				for k, v := range classes {
					e.Hist["tcp-adv:"+k] += v
				}
				break
			}
			e.Hist["rerun-after-watchdog"]++
		}
		fam := "tcp"
		if x.flood {
			fam = "tcpopt"
		}
		e.AddW(coq, fmt.Sprintf("%s:%d:%d:%d:%d", fam, x.sd, x.g, x.b, x.nreq), true, 1+len(coq)/4000, fam+"-run")
	}
	// closed-connection replacement against the concurrent sweep
	var races []uint64
	if sd, _, ok := want("race"); ok {
		races = append(races, sd)
	} else if a.only == "" {
		for i := 0; i < 4*mult; i++ {
			races = append(races, rng.U64()%1000000007)
		}
	}
	for _, sd := range races {
		coq, err := c10RaceRun(sd, 600)
		if err != nil {
			return err
		}
		e.Add(coq, fmt.Sprintf("race:%d", sd), true, "race-run")
	}
	// discovery
	var discs []uint64
	if sd, _, ok := want("disc"); ok {
		discs = append(discs, sd)
	} else if a.only == "" {
		for i := 0; i < 8*mult; i++ {
			discs = append(discs, rng.U64()%1000000007)
		}
	}
	for _, sd := range discs {
		coq, err := c10DiscRun(sd, false, false)
		if err != nil {
			return err
		}
		e.AddW(coq, fmt.Sprintf("disc:%d", sd), true, 1+len(coq)/4000, "disc-run")
	}
	if err := c10RoundTwoFamilies(e, a, mult); err != nil {
		return err
	}
	if err := c10RoundThreeFamilies(e, a, mult); err != nil {
		return err
	}
	if err := c10HsFamily(e, a, mult); err != nil {
		return err
	}
	_ = context.Background
	_ = sort.Strings
	return e.Flush(a.out)
}

// c10HsFamily: listeners with a handshake -- tcp server on a TLS listener, dtls server with PSK (c10_tls.go).
// The parameters come from a generator of their own, so that the other runs are what they were.
func c10HsFamily(e *Emitter, a runArgs, mult int) error {
	type hr struct {
		dtls              bool
		sd                uint64
		early, late, nreq int
		kinds             string
	}
	var hrs []hr
	for _, fam := range []string{"tls", "dtls"} {
		if f := strings.Split(a.only, ":"); a.only != "" && f[0] == fam && len(f) == 6 {
			sd, _ := strconv.ParseUint(f[1], 10, 64)
			ea, _ := strconv.Atoi(f[2])
			la, _ := strconv.Atoi(f[3])
			n, _ := strconv.Atoi(f[4])
			hrs = append(hrs, hr{fam == "dtls", sd, ea, la, n, f[5]})
		}
	}
	if a.only == "" {
		hrng := NewRng(a.seed ^ 0xC10A11CE)
		mk := func(dtls bool, i int) hr {
			letters, stall := "spgch", "sp"
			if dtls {
				letters, stall = "pgchf", "p"
			}
			n := 2 + hrng.Intn(4)
			k := make([]byte, n)
			for j := range k {
				k[j] = letters[hrng.Intn(len(letters))]
			}
			// every run has a peer that never finishes its handshake, and that peer is the first one at least
			// in every other run
			k[hrng.Intn(n)] = stall[hrng.Intn(len(stall))]
			if i%2 == 0 {
				k[0] = stall[hrng.Intn(len(stall))]
			}
			return hr{dtls, hrng.U64() % 1000000007, 1 + hrng.Intn(2), 1 + hrng.Intn(3), 3 + hrng.Intn(4), string(k)}
		}
		for i := 0; i < 4*mult; i++ {
			hrs = append(hrs, mk(false, i))
		}
		for i := 0; i < 3*mult; i++ {
			hrs = append(hrs, mk(true, i))
		}
	}
	for _, x := range hrs {
		fam, run := "tls", c10TLSRun
		if x.dtls {
			fam, run = "dtls", c10DTLSRun
		}
		var coq string
		clean := false
		for attempt := 0; attempt < 2 && !clean; attempt++ {
			c, ok, classes, err := run(x.sd, x.early, x.late, x.nreq, x.kinds)
			if err != nil {
				return err
			}
			coq, clean = c, ok
			if ok {
				for k, v := range classes {
					e.Hist[fam+"-adv:"+k] += v
				}
			} else {
				e.Hist["rerun-after-watchdog"]++
				if os.Getenv("HXDBG") != "" {
					fmt.Fprintf(os.Stderr, "watchdog in %s:%d:%d:%d:%d:%s attempt %d\n%s\n", fam, x.sd, x.early, x.late, x.nreq, x.kinds, attempt, c)
				}
			}
		}
		e.AddW(coq, fmt.Sprintf("%s:%d:%d:%d:%d:%s", fam, x.sd, x.early, x.late, x.nreq, x.kinds), true, 1+len(coq)/4000, fam+"-run")
		if !clean {
			// a well-behaved peer was not served in two attempts: the deviation is established by this case
			e.Hist["stopped-early"]++
			break
		}
	}
	return nil
}
