package main

// C02: decoders are total, safe and canonicalising on arbitrary bytes.
// Byte strings (exhaustive short strings over a nibble-class alphabet, every
// first byte with adequate/short/surplus tails, valid encodings truncated at
// every offset and with one byte mutated, random bytes) go through udp Decode,
// tcp DecodeHeader, tcp Decode (each followed by re-encode + decode when
// accepted) and pooled decodes on fresh / recycled / capacity-0 messages under
// recover() and a watchdog, with the no-alias test.

import (
	"encoding/hex"
	"fmt"
	"strings"
	"time"
	"unsafe"

	"github.com/plgd-dev/go-coap/v3/message"
	"github.com/plgd-dev/go-coap/v3/message/pool"
)

func init() { props["C02"] = runC02 }

// c02Input: literal prefix plus an optional symbolic tail gen_body(salt, n).
type c02Input struct {
	lit  []byte
	salt int
	n    int
}

func (in c02Input) bytes() []byte {
	if in.n == 0 {
		return append([]byte{}, in.lit...)
	}
	return append(append([]byte{}, in.lit...), genBody(in.salt, in.n)...)
}

func (in c02Input) desc() string {
	return fmt.Sprintf("bytes %s %d %d", hex.EncodeToString(in.lit), in.salt, in.n)
}

func (in c02Input) coq() string {
	if in.n == 0 {
		return coqBytes(in.lit)
	}
	return fmt.Sprintf("(%s ++ gb %d %d)", coqBytes(in.lit), in.salt, in.n)
}

type c02State struct {
	e     *Emitter
	hangs int
	big   []byte // a valid datagram with 40 options, used to recycle a pooled message with grown capacity
	bigT  []byte // same for the stream coder
}

func reObs(coder int, r callRes, m *message.Message, capD int) string {
	if r.hang || r.panicked || r.err != nil {
		return "None"
	}
	cd := coderOf(coder)
	tcp := coder == 1
	var out []byte
	er := guarded(func() (int, error) {
		size, err := cd.Size(*m)
		if err != nil {
			return -1, err
		}
		buf := make([]byte, size)
		n, err := cd.Encode(*m, buf)
		if err == nil {
			out = buf[:n]
		}
		return n, err
	})
	switch {
	case er.panicked:
		return "(Some (100, (-1), 0, None))"
	case er.err != nil:
		return fmt.Sprintf("(Some (%d, (-1), 0, None))", codecErr(er.err))
	}
	r2, m2 := decodeDirect(coder, append([]byte{}, out...), capD)
	return fmt.Sprintf("(Some (0, %d, %d, Some %s))", len(out), csum(out), dobsText(r2, func() string { return projMessage(m2, tcp) }))
}

func inside(p unsafe.Pointer, n int, base []byte) bool {
	if n == 0 || len(base) == 0 || p == nil {
		return false
	}
	b0 := uintptr(unsafe.Pointer(unsafe.SliceData(base)))
	x := uintptr(p)
	return x >= b0 && x < b0+uintptr(cap(base))
}

func (st *c02State) pooled(kind string, coder int, data []byte) string {
	cd := coderOf(coder)
	tcp := coder == 1
	var pm *pool.Message
	switch kind {
	case "fresh":
		pm = newPooled()
	case "recycled":
		pm = newPooled()
		src := st.big
		if tcp {
			src = st.bigT
		}
		_, _ = pm.UnmarshalWithDecoder(cd, append([]byte{}, src...))
		pm.Reset()
	case "cap0":
		pm = newPooled()
		pm.SetMessage(message.Message{})
		pm.Reset()
	}
	cap0 := cap(pm.Options())
	in := append([]byte{}, data...)
	r := watched(func() (int, error) { return pm.UnmarshalWithDecoder(cd, in) }, 10*time.Second)
	if r.hang {
		st.hangs++
		return fmt.Sprintf("(%d, %d, DHang, (-1), true)", coder, cap0)
	}
	fc := -1
	noalias := true
	var p1 string
	if !r.panicked && r.err == nil {
		fc = cap(pm.Options())
		p1 = pooledProj(pm, tcp)
		tok := pm.Token()
		if inside(unsafe.Pointer(unsafe.SliceData([]byte(tok))), len(tok), in) {
			noalias = false
		}
		for _, o := range pm.Options() {
			if inside(unsafe.Pointer(unsafe.SliceData(o.Value)), len(o.Value), in) {
				noalias = false
			}
		}
		for i := range in {
			in[i] ^= 0x5a
		}
		if pooledProj(pm, tcp) != p1 {
			noalias = false
		}
	}
	return fmt.Sprintf("(%d, %d, %s, %s, %s)", coder, cap0, dobsText(r, func() string { return p1 }), coqZ(int64(fc)), coqBool(noalias))
}

func (st *c02State) run(in c02Input, origin string) {
	data := in.bytes()
	capD := len(data) + 1
	if capD > 4097 {
		capD = 4097
	}
	ru, mu := decodeDirect(0, append([]byte{}, data...), capD)
	udpObs := dobsText(ru, func() string { return projMessage(mu, false) })
	udpRe := reObs(0, ru, mu, capD)
	hdrObs, hdrClass := headerObs(append([]byte{}, data...))
	rt, mt := decodeDirect(1, append([]byte{}, data...), capD)
	tcpObs := dobsText(rt, func() string { return projMessage(mt, true) })
	tcpRe := reObs(1, rt, mt, capD)
	var pooled []string
	kinds := []string{"fresh", "recycled", "cap0"}
	for _, k := range kinds {
		if k == "cap0" && st.hangs >= 2 {
			continue // capacity-0 decodes hang on this tree; two witnesses are enough
		}
		for coder := 0; coder <= 1; coder++ {
			pooled = append(pooled, st.pooled(k, coder, data))
		}
	}
	coq := fmt.Sprintf("Bytes %s %d %s %s %s %s %s [%s]", in.coq(), capD, udpObs, udpRe, hdrObs, tcpObs, tcpRe, strings.Join(pooled, "; "))
	// non-trivial: at least one decoder reached the option loop (got past the fixed header)
	reached := func(r callRes) bool {
		if r.hang || r.panicked {
			return true
		}
		c := codecErr(r.err)
		return c == 0 || (c >= 4 && c <= 7)
	}
	nt := reached(ru) || reached(rt)
	st.e.AddW(coq, in.desc(), nt, 1+len(data)/400, origin, "udp-"+dobsClass(ru), "tcp-"+dobsClass(rt), "hdr-"+hdrClass, "len-"+lenBucket(len(data)))
}

func lenBucket(n int) string {
	switch {
	case n <= 4:
		return "0-4"
	case n <= 16:
		return "5-16"
	case n <= 64:
		return "17-64"
	case n <= 512:
		return "65-512"
	}
	return "513+"
}

var c02Alphabet = []byte{0x00, 0x01, 0x0d, 0x0e, 0x0f, 0x40, 0x41, 0x4d, 0xd0, 0xe0, 0xf0, 0xff}

func allStrings(alpha []byte, maxLen int, f func([]byte)) {
	var rec func(cur []byte)
	rec = func(cur []byte) {
		f(cur)
		if len(cur) == maxLen {
			return
		}
		for _, a := range alpha {
			rec(append(append([]byte{}, cur...), a))
		}
	}
	rec(nil)
}

// encodeValid returns the encoding of a generated in-precondition-ish message (small).
func encodeValid(rng *Rng, coder int) []byte {
	for {
		g := genMessage(rng.Fork(), coder, false)
		if len(g.tok) > 8 || g.typ < 0 || g.typ > 3 || g.mid < 0 || g.mid > 65535 {
			continue
		}
		// keep them short: literal bytes are expensive
		for i := range g.opts {
			if g.opts[i].n > 40 {
				g.opts[i].n = g.opts[i].n % 41
			}
		}
		if len(g.opts) > 6 {
			g.opts = g.opts[:6]
		}
		if g.payN > 30 {
			g.payN = g.payN % 31
		}
		m := g.build()
		cd := coderOf(coder)
		size, err := cd.Size(m)
		if err != nil {
			continue
		}
		buf := make([]byte, size)
		n, err := cd.Encode(m, buf)
		if err != nil {
			continue
		}
		return buf[:n]
	}
}

func manyOptions(coder int) []byte {
	g := gMsg{coder: coder, code: 1, mid: 1, tok: []byte{7}}
	for i := 0; i < 40; i++ {
		g.opts = append(g.opts, gOpt{id: 2000 + i, salt: i, n: 1})
	}
	m := g.build()
	cd := coderOf(coder)
	size, _ := cd.Size(m)
	buf := make([]byte, size)
	n, _ := cd.Encode(m, buf)
	return buf[:n]
}

func runC02(a runArgs) error {
	e := NewEmitter("C02", "Codec.RunC02")
	e.ShardSize = 150
	e.Rule = "one case = one byte string through udp Decode, tcp DecodeHeader, tcp Decode (each accepted message re-encoded and decoded again) and pooled UnmarshalWithDecoder with both coders on a fresh, a recycled (grown capacity) and a capacity-0 message, under recover() and a watchdog, followed by overwriting the caller's buffer. Streams: exhaustive strings over a 12-byte nibble-class alphabet (bare, behind a datagram header, framed as a stream message), every first byte with short/adequate/surplus tails, stream length fields at and beyond the 32-bit limit, valid encodings truncated at every offset / one byte mutated / one structural byte planted, random bytes. Distinct = distinct byte string; non-trivial = some decoder got past the fixed header into the option loop."
	st := &c02State{e: e, big: manyOptions(0), bigT: manyOptions(1)}
	if a.only != "" {
		f := strings.Fields(a.only)
		if len(f) == 4 && f[0] == "bytes" {
			lit, _ := hex.DecodeString(f[1])
			var salt, n int
			fmt.Sscanf(f[2], "%d", &salt)
			fmt.Sscanf(f[3], "%d", &n)
			st.run(c02Input{lit, salt, n}, "replay")
		}
		return e.Flush(a.out)
	}
	rng := NewRng(a.seed)
	thorough := a.tier == "thorough"
	lit := func(b []byte, origin string) { st.run(c02Input{lit: b}, origin) }

	// hand-picked: the defects this property found (kept as regression inputs)
	lit([]byte{0x09, 0x01, 1, 2, 3, 4, 5, 6, 7, 8, 9}, "corner")                         // stream TKL 9
	lit([]byte{0x0f, 0x01, 1, 2, 3, 4, 5, 6, 7, 8, 9, 10, 11, 12, 13, 14, 15}, "corner") // stream TKL 15
	lit([]byte{0xf0, 0xff, 0xff, 0xff, 0xff, 0x01, 0x00}, "corner")                      // 4-byte extended length beyond 32 bits
	lit([]byte{0xf0, 0x7f, 0xff, 0x00, 0x00, 0x01}, "corner")                            // at the encoder's limit
	lit([]byte{0xf0, 0x7f, 0xff, 0x00, 0x01, 0x01}, "corner")                            // one above
	lit([]byte{0xf0, 0xff, 0xfe, 0xfe, 0xf0, 0x01}, "corner")                            // wraps to a tiny length in uint32
	lit([]byte{0x10, 0x01, 0xff, 0x41, 0x42}, "corner")                                  // stream frame followed by surplus bytes
	lit([]byte{0x00, 0x45, 0xb1, 0x61}, "corner")                                        // empty frame followed by an option
	lit([]byte{0x40, 0x01, 0x00, 0x01, 0x10}, "corner")                                  // one option: capacity-0 pooled message
	st.run(c02Input{lit: []byte{0xf0, 0, 0, 0, 0, 0x45, 0xff}, salt: 3, n: 65804}, "corner")
	st.run(c02Input{lit: []byte{0xe0, 0xff, 0xff, 0x45, 0xff}, salt: 4, n: 65803}, "corner")

	// (i) exhaustive short strings
	maxLen := 3
	if thorough {
		maxLen = 4
	}
	allStrings(c02Alphabet, maxLen, func(s []byte) { lit(s, "exh-bare") })
	tailLen := 2
	if thorough {
		tailLen = 3
	}
	allStrings(c02Alphabet, tailLen+1, func(s []byte) {
		lit(append([]byte{0x40, 0x01, 0x12, 0x34}, s...), "exh-udp")
	})
	allStrings(c02Alphabet, tailLen+1, func(s []byte) {
		lit(append([]byte{byte(len(s) << 4), 0x01}, s...), "exh-tcp")
	})
	// (ii) every first byte with short / adequate / surplus tails
	for b0 := 0; b0 < 256; b0++ {
		lit([]byte{byte(b0)}, "first-byte")
		// as a stream header: Len nibble, TKL
		ln, tkl := b0>>4, b0&15
		var ext []byte
		body := ln
		switch ln {
		case 13:
			ext = []byte{2}
			body = 15
		case 14:
			ext = []byte{0, 3}
			body = 272
		case 15:
			ext = []byte{0, 0, 0, 0}
			body = -1
		}
		fr := append([]byte{byte(b0)}, ext...)
		fr = append(fr, 0x02)
		for i := 0; i < tkl; i++ {
			fr = append(fr, byte(0xa0+i))
		}
		if body >= 0 {
			bodyBytes := make([]byte, 0, body)
			if body > 0 {
				bodyBytes = append(bodyBytes, 0xff)
				for i := 1; i < body; i++ {
					bodyBytes = append(bodyBytes, byte(i))
				}
			}
			if body <= 20 || b0%16 < 2 {
				full := append(append([]byte{}, fr...), bodyBytes...)
				lit(full, "first-byte")
				if len(full) > 1 {
					lit(full[:len(full)-1], "first-byte")
				}
				lit(append(append([]byte{}, full...), 0xb1, 0x61, 0xff), "first-byte")
			}
		} else {
			lit(fr, "first-byte")
		}
		// as a datagram header
		dg := []byte{byte(b0), 0x45, 0xab, 0xcd}
		for i := 0; i < tkl && i < 9; i++ {
			dg = append(dg, byte(0xc0+i))
		}
		lit(dg, "first-byte")
		lit(append(append([]byte{}, dg...), 0xb1, 0x61, 0xff, 0x01), "first-byte")
		if len(dg) > 4 {
			lit(dg[:len(dg)-1], "first-byte")
		}
	}
	// (iii) valid encodings: truncated at every offset, one byte mutated, one structural byte planted
	nvalid := 30
	if thorough {
		nvalid = 300
	}
	structural := []byte{0xff, 0xd0, 0xe0, 0x0d, 0x0e, 0xf0, 0x0f, 0x00, 0xdd, 0xee}
	for coder := 0; coder <= 1; coder++ {
		origin := "valid-udp"
		if coder == 1 {
			origin = "valid-tcp"
		}
		for i := 0; i < nvalid; i++ {
			enc := encodeValid(rng, coder)
			lit(enc, origin)
			for cut := 0; cut < len(enc); cut++ {
				lit(enc[:cut], origin+"-trunc")
			}
			for k := 0; k < 6 && len(enc) > 0; k++ {
				mut := append([]byte{}, enc...)
				pos := rng.Intn(len(mut))
				if k < 2 && len(mut) > 6 {
					pos = rng.Intn(6)
				}
				mut[pos] = byte(rng.Intn(256))
				lit(mut, origin+"-mut")
				mut2 := append([]byte{}, enc...)
				mut2[rng.Intn(len(mut2))] = structural[rng.Intn(len(structural))]
				lit(mut2, origin+"-struct")
			}
			lit(append(append([]byte{}, enc...), byte(rng.Intn(256)), byte(rng.Intn(256))), origin+"-surplus")
		}
		// many options: the capacity retry of the pooled decode
		for _, k := range []int{15, 16, 17, 31, 32, 33, 64, 65, 130} {
			g := gMsg{coder: coder, code: 2, mid: 3}
			for j := 0; j < k; j++ {
				g.opts = append(g.opts, gOpt{id: 1000 + j/2, salt: j, n: j % 3})
			}
			m := g.build()
			size, _ := coderOf(coder).Size(m)
			buf := make([]byte, size)
			n, _ := coderOf(coder).Encode(m, buf)
			lit(buf[:n], origin+"-manyopts")
		}
	}
	// (v) very many options: the pooled decoder's capacity retry has to keep making progress (1 KiB+ inputs)
	for _, coder := range []int{0, 1} {
		counts := []int{100, 1025}
		if thorough {
			counts = []int{64, 100, 513, 1024, 1025, 2100}
		}
		for _, cnt := range counts {
			g := gMsg{coder: coder, code: 1, mid: 7, tok: []byte{9}}
			for i := 0; i < cnt; i++ {
				g.opts = append(g.opts, gOpt{id: 11, salt: i, n: 0})
			}
			m := g.build()
			size, err := coderOf(coder).Size(m)
			if err != nil {
				continue
			}
			buf := make([]byte, size)
			n, _ := coderOf(coder).Encode(m, buf)
			lit(buf[:n], "manyopts-long")
		}
	}
	// (vi) stream signalling codes 7.01-7.05 with options: each code has its own option registry
	for code := 225; code <= 229; code++ {
		for _, id := range []int{2, 4, 7, 11, 12} {
			for _, ln := range []int{0, 1, 3, 5} {
				g := gMsg{coder: 1, code: code, tok: []byte{byte(code)}, opts: []gOpt{{id: id, salt: id + ln, n: ln}}}
				if ln == 3 && id == 2 {
					g.opts = append(g.opts, gOpt{id: 4, salt: 1, n: 0})
				}
				m := g.build()
				size, err := coderOf(1).Size(m)
				if err != nil {
					continue
				}
				buf := make([]byte, size)
				n, _ := coderOf(1).Encode(m, buf)
				lit(buf[:n], "signal-opts")
			}
		}
	}
	// (iv) random bytes
	nrand := 300
	if thorough {
		nrand = 6000
	}
	for i := 0; i < nrand; i++ {
		n := rng.Intn(40)
		b := make([]byte, n)
		for j := range b {
			b[j] = byte(rng.Intn(256))
		}
		if n > 0 {
			switch i % 3 {
			case 0:
				b[0] = 0x40 | byte(rng.Intn(64)) // version 1
			case 1:
				b[0] = byte(rng.Intn(13)<<4) | byte(rng.Intn(9)) // plausible stream header
			}
		}
		lit(b, "random")
	}
	e.Extra["hangs_observed"] = st.hangs
	return e.Flush(a.out)
}
