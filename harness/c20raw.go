package main

// C20, requests as they ARRIVE (hx name C20R, Coq side NoResp/RawModel.v, RawRun.v).
//
// The other C20 families build their requests with the library's own encoder and setters, so a request never
// carries what only a foreign peer can send.  Here the bytes are written by the harness's own encoder (RFC 7252
// 3.1 / RFC 8323 3.2; Coq checks that they are the RFC encoding of the carried request):
//   - every request method 0.01-0.31: GET..DELETE, FETCH/PATCH/iPATCH (RFC 8132), unassigned ones;
//   - options whose length is illegal for their number (the decoder skips them) in front of and behind the
//     No-Response option, unknown options, repeated options, option number 0, No-Response of illegal length.
// Family U: histories of 1..3 raw datagrams (CON/NON, retransmitted copies) on the in-memory udp/client.Conn;
// family T: one raw frame on a real tcp/client.Conn over a pipe.
// Observed: handler called, the options the handler saw, SetResponse refused, everything written.
// No timing: udp waits for the barrier request (first patience 5 s, then the history is re-run with 120 s), tcp
// waits for the return of ProcessReceivedMessageWithHandler (config.ProcessReceivedMessage wrapper).

import (
	"bytes"
	"fmt"
	"net"
	"os"
	"sort"
	"strings"
	"sync"
	"time"

	"github.com/plgd-dev/go-coap/v3/message"
	"github.com/plgd-dev/go-coap/v3/message/codes"
	"github.com/plgd-dev/go-coap/v3/message/pool"
	coapNet "github.com/plgd-dev/go-coap/v3/net"
	"github.com/plgd-dev/go-coap/v3/net/responsewriter"
	tcpClient "github.com/plgd-dev/go-coap/v3/tcp/client"
	"github.com/plgd-dev/go-coap/v3/udp/client"
)

func init() { props["C20R"] = runC20R }

// ---- the harness's own encoder ----

func c20rNib(v int) (int, []byte) {
	switch {
	case v < 13:
		return v, nil
	case v < 269:
		return 13, []byte{byte(v - 13)}
	default:
		return 14, []byte{byte((v - 269) >> 8), byte(v - 269)}
	}
}

func c20rBody(opts message.Options, pay []byte) []byte {
	var out []byte
	prev := 0
	for _, o := range opts {
		dn, de := c20rNib(int(o.ID) - prev)
		ln, le := c20rNib(len(o.Value))
		out = append(out, byte(dn<<4|ln))
		out = append(out, de...)
		out = append(out, le...)
		out = append(out, o.Value...)
		prev = int(o.ID)
	}
	if len(pay) > 0 {
		out = append(out, 0xff)
		out = append(out, pay...)
	}
	return out
}

func c20rUDP(typ, code, mid int, tok []byte, opts message.Options, pay []byte) []byte {
	out := []byte{byte(0x40 | typ<<4 | len(tok)), byte(code), byte(mid >> 8), byte(mid)}
	out = append(out, tok...)
	return append(out, c20rBody(opts, pay)...)
}

func c20rTCP(code int, tok []byte, opts message.Options, pay []byte) []byte {
	body := c20rBody(opts, pay)
	var out []byte
	n := len(body)
	switch {
	case n < 13:
		out = []byte{byte(n<<4 | len(tok))}
	case n < 269:
		out = []byte{byte(13<<4 | len(tok)), byte(n - 13)}
	case n < 65805:
		out = []byte{byte(14<<4 | len(tok)), byte((n - 269) >> 8), byte(n - 269)}
	default:
		panic("c20raw: frame too long")
	}
	out = append(out, byte(code))
	out = append(out, tok...)
	return append(out, body...)
}

// c20rParseTCP splits one frame off a CoAP-over-TCP byte stream with the harness's own parser (the library's decoder
// applies the option table of the frame's code -- a response of code 7.01 would lose options on the way to the observer).
func c20rParseTCP(data []byte) (code int, tok []byte, opts message.Options, pay []byte, n int, ok bool) {
	if len(data) < 2 {
		return
	}
	l, tkl, p := int(data[0]>>4), int(data[0]&0x0f), 1
	switch l {
	case 13:
		if len(data) < 2 {
			return
		}
		l, p = int(data[1])+13, 2
	case 14:
		if len(data) < 3 {
			return
		}
		l, p = int(data[1])<<8+int(data[2])+269, 3
	case 15:
		if len(data) < 5 {
			return
		}
		l, p = int(data[1])<<24+int(data[2])<<16+int(data[3])<<8+int(data[4])+65805, 5
	}
	if tkl > 8 || len(data) < p+1+tkl+l {
		return
	}
	code = int(data[p])
	tok = append([]byte{}, data[p+1:p+1+tkl]...)
	body := data[p+1+tkl : p+1+tkl+l]
	n = p + 1 + tkl + l
	prev := 0
	ext := func(nib int) (int, bool) {
		switch nib {
		case 13:
			if len(body) < 1 {
				return 0, false
			}
			v := int(body[0]) + 13
			body = body[1:]
			return v, true
		case 14:
			if len(body) < 2 {
				return 0, false
			}
			v := int(body[0])<<8 + int(body[1]) + 269
			body = body[2:]
			return v, true
		case 15:
			return 0, false
		}
		return nib, true
	}
	for len(body) > 0 {
		if body[0] == 0xff {
			pay = append([]byte{}, body[1:]...)
			break
		}
		dn, ln := int(body[0]>>4), int(body[0]&0x0f)
		body = body[1:]
		d, ok1 := ext(dn)
		if !ok1 {
			return 0, nil, nil, nil, 0, false
		}
		vl, ok2 := ext(ln)
		if !ok2 || len(body) < vl {
			return 0, nil, nil, nil, 0, false
		}
		prev += d
		opts = append(opts, message.Option{ID: message.OptionID(prev), Value: append([]byte{}, body[:vl]...)})
		body = body[vl:]
	}
	return code, tok, opts, pay, n, true
}

// ---- one request ----

type c20rReq struct {
	Typ, MID int
	Tok      []byte
	Code     int
	Opts     message.Options // carried options, in wire order (numbers non-decreasing)
	Pay      []byte
	Beh      string // none | resp
	RCode    int
	ROpts    message.Options
	RSalt    int
	RLen     int
}

func (e c20rReq) desc() string {
	pay := "-"
	if len(e.Pay) > 0 {
		pay = fmt.Sprintf("%x", e.Pay)
	}
	return fmt.Sprintf("%d:%d:%x:%d:%s:%s:%s:%d:%s:%d:%d", e.Typ, e.MID, e.Tok, e.Code, dashOpts(e.Opts), pay,
		e.Beh, e.RCode, dashOpts(e.ROpts), e.RSalt, e.RLen)
}

func parseC20rReq(s string) c20rReq {
	f := strings.Split(s, ":")
	atoi := func(x string) int { var v int; fmt.Sscanf(x, "%d", &v); return v }
	var e c20rReq
	if len(f) < 11 {
		return e
	}
	e.Typ, e.MID, e.Tok, e.Code = atoi(f[0]), atoi(f[1]), c05Hex(f[2]), atoi(f[3])
	e.Opts = parseDescOpts(f[4])
	if f[5] != "-" {
		e.Pay = c05Hex(f[5])
	}
	e.Beh, e.RCode = f[6], atoi(f[7])
	e.ROpts = parseDescOpts(f[8])
	e.RSalt, e.RLen = atoi(f[9]), atoi(f[10])
	return e
}

func (e c20rReq) coqBeh() string {
	if e.Beh == "resp" {
		return fmt.Sprintf("(BResp %d %s (gen_body %d %d%%nat))", e.RCode, coqOpts(e.ROpts), e.RSalt, e.RLen)
	}
	return "BNone"
}

// setResponse does what the case's handler does; returns whether SetResponse refused.
func (e c20rReq) setResponse(set func(code codes.Code, body *bytes.Reader, opts ...message.Option) error) bool {
	if e.Beh != "resp" {
		return false
	}
	var body *bytes.Reader
	if e.RLen > 0 {
		body = bytes.NewReader(genBody(e.RSalt, e.RLen))
	}
	return set(codes.Code(e.RCode), body, e.ROpts...) != nil
}

// ---- family U ----

func c20rUDesc(getMID int32, evs []c20rReq) string {
	parts := make([]string, len(evs))
	for i, e := range evs {
		parts[i] = e.desc()
	}
	return fmt.Sprintf("u %d|%s", getMID, strings.Join(parts, " "))
}

func runC20RHistory(getMID int32, evs []c20rReq, patience time.Duration) (string, bool) {
	mc := newMemConn(memConnOpts{getMID: getMID, queueSize: 16, maxRetransmit: 4})
	defer mc.close()
	own0 := mc.cc.VerifMsgID()
	for _, e := range evs {
		mc.avoidMID[e.MID] = true
	}
	var sb strings.Builder
	fmt.Fprintf(&sb, "UHist %d [", own0)
	ok := true
	for i, e := range evs {
		if i > 0 {
			sb.WriteString("; ")
		}
		ev := e
		type call struct {
			seen    message.Options
			refused bool
		}
		var calls []call
		mc.mu.Lock()
		mc.behave = func(w *responsewriter.ResponseWriter[*client.Conn], r *pool.Message) {
			c := call{seen: c20CopyOpts(r.Options())}
			c.refused = ev.setResponse(func(code codes.Code, body *bytes.Reader, opts ...message.Option) error {
				if body == nil {
					return w.SetResponse(code, message.TextPlain, nil, opts...)
				}
				return w.SetResponse(code, message.TextPlain, body, opts...)
			})
			calls = append(calls, c) // single dispatch goroutine; read after the barrier
		}
		mc.mu.Unlock()
		raw := c20rUDP(e.Typ, e.Code, e.MID, e.Tok, e.Opts, e.Pay)
		if mc.inject(raw) != 0 {
			ok = false
		}
		if !c20bSync(mc, patience) {
			ok = false
		}
		mc.takeLog()
		out := mc.takeOut()
		called, refused, seen := false, false, message.Options(nil)
		switch len(calls) {
		case 0:
		case 1:
			called, refused, seen = true, calls[0].refused, calls[0].seen
		default:
			called, seen = true, message.Options{{ID: 65535, Value: []byte("twice")}} // never agrees
		}
		fmt.Fprintf(&sb, "RReq %d %d %s %d %s %s %s %s %s %s %s %s", e.Typ, e.MID, coqBytes(e.Tok), e.Code, coqOpts(e.Opts),
			coqBytes(e.Pay), coqBytes(raw), e.coqBeh(), coqBool(called), coqBool(refused), coqOpts(seen), coqWireObs(out))
	}
	sb.WriteString("]")
	return sb.String(), ok
}

// ---- family T ----

// the connection's end of the pipe: reads come from the pipe, writes are recorded synchronously
type c20rTCPConn struct {
	net.Conn
	mu  sync.Mutex
	buf []byte
}

func (c *c20rTCPConn) Write(b []byte) (int, error) {
	c.mu.Lock()
	c.buf = append(c.buf, b...)
	c.mu.Unlock()
	return len(b), nil
}

func (c *c20rTCPConn) written() []byte {
	c.mu.Lock()
	defer c.mu.Unlock()
	return append([]byte(nil), c.buf...)
}

func runC20RTCP(e c20rReq, patience time.Duration) (string, bool) {
	a, b := net.Pipe()
	nc := &c20rTCPConn{Conn: a}
	cfg := tcpClient.DefaultConfig
	cfg.Errors = func(error) {}
	cfg.DisableTCPSignalMessageCSM = true
	cfg.DisablePeerTCPSignalMessageCSMs = true
	cfg.MessagePool = pool.New(64, 2048)
	type call struct {
		seen    message.Options
		refused bool
	}
	var mu sync.Mutex
	var calls []call
	cfg.Handler = func(w *responsewriter.ResponseWriter[*tcpClient.Conn], r *pool.Message) {
		c := call{seen: c20CopyOpts(r.Options())}
		c.refused = e.setResponse(func(code codes.Code, body *bytes.Reader, opts ...message.Option) error {
			if body == nil {
				return w.SetResponse(code, message.TextPlain, nil, opts...)
			}
			return w.SetResponse(code, message.TextPlain, body, opts...)
		})
		mu.Lock()
		calls = append(calls, c)
		mu.Unlock()
	}
	done := make(chan struct{}, 8)
	cc := tcpClient.NewConnWithOpts(coapNet.NewConn(nc), &cfg)
	// the connection ignores Config.ProcessReceivedMessage; existing verif hook (tcp/client/export_verif.go), set before Run
	cc.VerifSetProcessReceivedMessage(func(req *pool.Message, cc *tcpClient.Conn, handler tcpClient.HandlerFunc) {
		cc.ProcessReceivedMessageWithHandler(req, handler)
		done <- struct{}{} // the response, if any, has been written by now
	})
	runDone := make(chan struct{})
	go func() { _ = cc.Run(); close(runDone) }()
	defer func() {
		_ = cc.Close()
		_ = b.Close()
		select {
		case <-runDone:
		case <-time.After(10 * time.Second):
		}
	}()

	raw := c20rTCP(e.Code, e.Tok, e.Opts, e.Pay)
	ok := true
	_ = b.SetWriteDeadline(time.Now().Add(patience))
	if _, err := b.Write(raw); err != nil {
		ok = false
	}
	if ok {
		select {
		case <-done:
		case <-time.After(patience):
			ok = false
		}
	}
	mu.Lock()
	cs := append([]call(nil), calls...)
	mu.Unlock()
	called, refused, seen := false, false, message.Options(nil)
	switch len(cs) {
	case 0:
	case 1:
		called, refused, seen = true, cs[0].refused, cs[0].seen
	default:
		called, seen = true, message.Options{{ID: 65535, Value: []byte("twice")}}
	}
	// split what was written into messages
	var outs []string
	data := nc.written()
	for len(data) > 0 {
		code, tok, opts, pay, n, okp := c20rParseTCP(data)
		if !okp {
			outs = append(outs, "(OT 999 [] [] 0 0)")
			break
		}
		outs = append(outs, fmt.Sprintf("(OT %d %s %s %d %d)", code, coqBytes(tok), coqOpts(opts), len(pay), csum(pay)))
		data = data[n:]
	}
	return fmt.Sprintf("TReq %s %d %s %s %s %s %s %s %s [%s]", coqBytes(e.Tok), e.Code, coqOpts(e.Opts), coqBytes(e.Pay), coqBytes(raw),
		e.coqBeh(), coqBool(called), coqBool(refused), coqOpts(seen), strings.Join(outs, "; ")), ok
}

// ---- generators ----

type c20rGen struct {
	rng *Rng
}

func (g *c20rGen) bytes(n int) []byte {
	b := make([]byte, n)
	for i := range b {
		b[i] = byte(g.rng.U64())
	}
	return b
}

var c20rKnownIDs = []int{1, 3, 4, 5, 6, 7, 8, 11, 11, 12, 14, 15, 17, 20, 23, 27, 28, 35, 39, 60}
var c20rUnknownIDs = []int{0, 2, 9, 21, 65, 200, 252, 257, 259, 300, 2048, 65000}

// illegal reports whether the decoder skips an option with this number and length (live table).
func c20rIllegal(id int, n int) bool {
	d, ok := message.CoapOptionDefs[message.OptionID(id)]
	if !ok {
		return false
	}
	return uint32(n) < d.MinLen || uint32(n) > d.MaxLen
}

// option of a known number with a legal (ill = false) or illegal length
func (g *c20rGen) known(id int, ill bool) message.Option {
	d := message.CoapOptionDefs[message.OptionID(id)]
	var n int
	if ill {
		var cand []int
		if d.MinLen > 0 {
			cand = append(cand, int(d.MinLen)-1)
		}
		if d.MaxLen < 20 {
			cand = append(cand, int(d.MaxLen)+1, int(d.MaxLen)+1, int(d.MaxLen)+2+g.rng.Intn(12))
		} else if d.MaxLen < 300 {
			cand = append(cand, int(d.MaxLen)+1)
		}
		if len(cand) == 0 {
			n = int(d.MinLen)
		} else {
			n = cand[g.rng.Intn(len(cand))]
		}
	} else {
		hi := int(d.MaxLen)
		if hi > 9 {
			hi = 9
		}
		n = int(d.MinLen) + g.rng.Intn(hi-int(d.MinLen)+1)
	}
	return message.Option{ID: message.OptionID(id), Value: g.bytes(n)}
}

// noResp: a No-Response option; returns it and the value the request carries through it (nil, false when its
// length is illegal: such an option is ignored)
func (g *c20rGen) noResp() message.Option {
	switch r := g.rng.Intn(100); {
	case r < 6:
		return message.Option{ID: message.NoResponse, Value: []byte{}}
	case r < 14:
		return message.Option{ID: message.NoResponse, Value: g.bytes(2 + g.rng.Intn(3))} // illegal length: ignored
	case r < 60:
		return message.Option{ID: message.NoResponse, Value: []byte{[]byte{2, 8, 16, 26, 10, 18, 24}[g.rng.Intn(7)]}}
	}
	return message.Option{ID: message.NoResponse, Value: []byte{byte(g.rng.Intn(256))}}
}

// carried option list: k options besides No-Response
func (g *c20rGen) reqOpts(k int, illPct int) message.Options {
	var opts message.Options
	for i := 0; i < k; i++ {
		if g.rng.Chance(22) {
			opts = append(opts, message.Option{ID: message.OptionID(c20rUnknownIDs[g.rng.Intn(len(c20rUnknownIDs))]), Value: g.bytes(g.rng.Intn(5))})
		} else {
			opts = append(opts, g.known(c20rKnownIDs[g.rng.Intn(len(c20rKnownIDs))], g.rng.Chance(illPct)))
		}
	}
	if g.rng.Chance(80) {
		opts = append(opts, g.noResp())
		if g.rng.Chance(10) {
			opts = append(opts, g.noResp())
		}
	}
	sort.SliceStable(opts, func(i, j int) bool { return opts[i].ID < opts[j].ID })
	return opts
}

// the value the request carries: first option 258 of length 0..1
func c20rCarried(opts message.Options) (uint32, bool) {
	for _, o := range opts {
		if o.ID == message.NoResponse && len(o.Value) <= 1 {
			if len(o.Value) == 0 {
				return 0, true
			}
			return uint32(o.Value[0]), true
		}
	}
	return 0, false
}

func (g *c20rGen) code(opts message.Options, hit bool) int {
	v, has := c20rCarried(opts)
	var sup, pass []int
	for _, c := range []int{2, 4, 5} {
		bit := map[int]uint32{2: 2, 4: 8, 5: 16}[c]
		if has && v&bit != 0 {
			sup = append(sup, c)
		} else {
			pass = append(pass, c)
		}
	}
	cls := 0
	switch {
	case hit && len(sup) > 0:
		cls = sup[g.rng.Intn(len(sup))]
	case len(pass) > 0:
		cls = pass[g.rng.Intn(len(pass))]
	default:
		cls = []int{3, 6, 7}[g.rng.Intn(3)]
	}
	return cls<<5 + []int{0, 1, 4, 5, 31, 3, 29}[g.rng.Intn(7)]
}

func (g *c20rGen) method() int {
	switch r := g.rng.Intn(100); {
	case r < 30:
		return 1 + g.rng.Intn(4)
	case r < 75:
		return 5 + g.rng.Intn(3)
	}
	return 8 + g.rng.Intn(24)
}

func (g *c20rGen) token() []byte {
	tok := g.bytes([]int{1, 2, 4, 8}[g.rng.Intn(4)])
	tok[0] = 0xc2 // never the barrier token
	return tok
}

func (g *c20rGen) request(typ, mid int) c20rReq {
	k := []int{0, 1, 1, 2, 2, 3, 4, 6}[g.rng.Intn(8)]
	ev := c20rReq{Typ: typ, MID: mid, Tok: g.token(), Code: g.method(), Opts: g.reqOpts(k, 35)}
	if g.rng.Chance(30) {
		ev.Pay = g.bytes(1 + g.rng.Intn(6))
	}
	if g.rng.Chance(92) {
		ev.Beh = "resp"
		ev.RCode = g.code(ev.Opts, g.rng.Chance(70))
		ev.ROpts = c20bRespOpts[g.rng.Intn(len(c20bRespOpts))]
		ev.RSalt = g.rng.Intn(250)
		ev.RLen = []int{0, 0, 3, 40}[g.rng.Intn(4)]
	} else {
		ev.Beh = "none"
	}
	return ev
}

// skippedBefore: does an option the decoder skips precede the (first legal) No-Response option?
func c20rSkippedBefore(opts message.Options) bool {
	skipped := false
	for _, o := range opts {
		if o.ID == message.NoResponse && len(o.Value) <= 1 {
			return skipped
		}
		if o.ID == 0 || c20rIllegal(int(o.ID), len(o.Value)) {
			skipped = true
		}
	}
	return false
}

func runC20R(a runArgs) error {
	e := NewEmitter("C20R", "NoResp.RawRun")
	e.Preamble = "From GoCoap Require Import Base.Bytes Dedup.Model Dedup.Spec."
	e.ShardSize = 150
	e.Rule = "raw request datagrams (histories of 1..3, CON/NON, retransmitted copies) on a real udp/client.Conn and raw request frames on a real tcp/client.Conn, written by the harness's own RFC encoder: every method code 0.01-0.31 (GET..DELETE, FETCH/PATCH/iPATCH, unassigned), 0..7 carried options with legal and illegal lengths, unknown and repeated options, No-Response of length 0..4; the handler sets a response of a suppressed or a passed class. Distinct = distinct case; non-trivial = the request carries a No-Response option of legal length and either its method is outside GET..DELETE or an option the decoder skips precedes the No-Response option."
	rng := NewRng(a.seed ^ 0xc20a)
	g := &c20rGen{rng: rng}

	firstPatience := 5 * time.Second
	if v := os.Getenv("HX_C20B_PATIENCE_US"); v != "" {
		var us int
		fmt.Sscanf(v, "%d", &us)
		firstPatience = time.Duration(us) * time.Microsecond
	}
	buckets := func(evs []c20rReq, fam string) (bool, []string) {
		set := map[string]bool{"family=" + fam: true}
		nontriv := false
		for _, ev := range evs {
			_, has := c20rCarried(ev.Opts)
			skipped := c20rSkippedBefore(ev.Opts)
			switch {
			case ev.Code <= 4:
				set["method=classic"] = true
			case ev.Code <= 7:
				set["method=rfc8132"] = true
			default:
				set["method=unassigned"] = true
			}
			if has {
				set["noresp=carried"] = true
			}
			if skipped {
				set["skipped-option-before-noresp"] = true
			}
			if has && (ev.Code > 4 || skipped) {
				nontriv = true
			}
			if ev.Typ == 0 {
				set["con"] = true
			} else {
				set["non"] = true
			}
		}
		var out []string
		for k := range set {
			out = append(out, k)
		}
		sort.Strings(out)
		return nontriv, out
	}
	emitU := func(getMID int32, evs []c20rReq, fam string) {
		txt, ok := runC20RHistory(getMID, evs, firstPatience)
		if !ok {
			e.Hist["slow_rerun"]++
			txt, ok = runC20RHistory(getMID, evs, 120*time.Second)
		}
		if !ok {
			e.Hist["barrier_timeout"]++ // the connection stopped dispatching: reported as observed
		}
		nontriv, bs := buckets(evs, fam)
		e.Add(txt, c20rUDesc(getMID, evs), nontriv, bs...)
	}
	emitT := func(ev c20rReq, fam string) {
		txt, ok := runC20RTCP(ev, firstPatience)
		if !ok {
			e.Hist["slow_rerun"]++
			txt, ok = runC20RTCP(ev, 120*time.Second)
		}
		if !ok {
			e.Hist["tcp_timeout"]++
		}
		nontriv, bs := buckets([]c20rReq{ev}, fam)
		e.Add(txt, "t "+ev.desc(), nontriv, bs...)
	}

	if a.only != "" {
		switch {
		case strings.HasPrefix(a.only, "u "):
			parts := strings.SplitN(strings.TrimPrefix(a.only, "u "), "|", 2)
			var getMID int32
			fmt.Sscanf(parts[0], "%d", &getMID)
			var evs []c20rReq
			if len(parts) > 1 {
				for _, s := range strings.Fields(parts[1]) {
					evs = append(evs, parseC20rReq(s))
				}
			}
			emitU(getMID, evs, "replay")
		case strings.HasPrefix(a.only, "t "):
			emitT(parseC20rReq(strings.TrimPrefix(a.only, "t ")), "replay")
		}
		return e.Flush(a.out)
	}

	nU, nT := 400, 240
	if a.tier == "thorough" {
		nU, nT = 5000, 2500
	}

	// canonical witnesses: <method> /a with No-Response v behind nothing / a well-formed option / an option the
	// decoder skips; a code of the suppressed class and one of a passed class
	path := message.Option{ID: message.URIPath, Value: []byte("a")}
	prefixes := []message.Options{
		{path},
		{path, {ID: message.Accept, Value: []byte{0, 0, 50}}},                                                   // Accept, 3 bytes: skipped
		{path, {ID: message.ContentFormat, Value: []byte{0, 0, 50}}},                                            // Content-Format, 3 bytes: skipped
		{{ID: message.URIPort, Value: []byte{1, 22, 51}}, path},                                                 // Uri-Port, 3 bytes: skipped
		{{ID: message.IfNoneMatch, Value: []byte{1}}, path},                                                     // If-None-Match with a value: skipped
		{{ID: message.URIHost, Value: []byte{}}, path},                                                          // Uri-Host, empty: skipped
		{path, {ID: message.Accept, Value: []byte{50}}},                                                         // well-formed
		{path, {ID: 252, Value: []byte{1, 2}}, {ID: 257, Value: []byte{}}},                                      // unknown options: kept
		{path, {ID: message.Size1, Value: []byte{1, 2, 3, 4, 5}}},                                               // Size1, 5 bytes: skipped
		{{ID: message.Observe, Value: []byte{1, 2, 3, 4}}, path, {ID: message.NoResponse, Value: []byte{1, 2}}}, // Observe 4 bytes, No-Response 2 bytes: both skipped
	}
	pairs := []struct {
		v    byte
		code int
	}{{2, 69}, {8, 132}, {16, 160}, {26, 68}, {2, 132}, {24, 69}}
	n := 0
	for _, method := range []int{1, 2, 3, 4, 5, 6, 7, 8, 31} {
		for _, pre := range prefixes {
			for typ := 0; typ < 2; typ++ {
				p := pairs[n%len(pairs)]
				n++
				opts := append(c20CopyOpts(pre), message.Option{ID: message.NoResponse, Value: []byte{p.v}})
				ev := c20rReq{Typ: typ, MID: 0x1200 + n, Tok: []byte{0xc2, byte(method), p.v}, Code: method, Opts: opts, Beh: "resp", RCode: p.code, RSalt: 5, RLen: 5}
				if method >= 5 && method <= 7 {
					ev.Pay = []byte("{}")
				}
				emitU(0x1000, []c20rReq{ev}, "U-canonical")
				if typ == 0 {
					emitT(ev, "T-canonical")
				}
			}
		}
	}

	// U: random histories
	for c := 0; c < nU; c++ {
		getMID := int32([]int{0x1000, 0, 0x7fff, 0xffff, 0x8123}[rng.Intn(5)])
		mid := []int{0, 100, 65530, 4660, 30000}[rng.Intn(5)]
		var evs []c20rReq
		for k := 1 + rng.Intn(3); k > 0; k-- {
			if len(evs) > 0 && rng.Chance(15) {
				evs = append(evs, evs[rng.Intn(len(evs))]) // a retransmitted copy
				continue
			}
			mid = (mid + 1) & 0xffff
			evs = append(evs, g.request(rng.Intn(2), mid))
		}
		emitU(getMID, evs, "U")
	}
	// T: random frames
	for c := 0; c < nT; c++ {
		emitT(g.request(0, 0), "T")
	}
	return e.Flush(a.out)
}
