package main

import (
	"context"
	"fmt"
	"sort"
	"strconv"
	"strings"

	"github.com/plgd-dev/go-coap/v3/message"
	"github.com/plgd-dev/go-coap/v3/message/codes"
	"github.com/plgd-dev/go-coap/v3/message/noresponse"
	"github.com/plgd-dev/go-coap/v3/message/pool"
	"github.com/plgd-dev/go-coap/v3/net/responsewriter"
)

func init() { props["C20"] = runC20 }

type nopClient struct{}

func (nopClient) ReleaseMessage(*pool.Message) {}

func coqBytes(b []byte) string {
	parts := make([]string, len(b))
	for i, x := range b {
		parts[i] = strconv.Itoa(int(x))
	}
	return "[" + strings.Join(parts, "; ") + "]"
}

func coqOpts(opts message.Options) string {
	parts := make([]string, len(opts))
	for i, o := range opts {
		parts[i] = fmt.Sprintf("(%d, %s)", o.ID, coqBytes(o.Value))
	}
	return "[" + strings.Join(parts, "; ") + "]"
}

func descOpts(opts message.Options) string {
	parts := make([]string, len(opts))
	for i, o := range opts {
		parts[i] = fmt.Sprintf("%d=%x", o.ID, o.Value)
	}
	return strings.Join(parts, ",")
}

func parseDescOpts(s string) message.Options {
	var opts message.Options
	if s == "" || s == "-" {
		return opts
	}
	for _, p := range strings.Split(s, ",") {
		kv := strings.SplitN(p, "=", 2)
		id, _ := strconv.Atoi(kv[0])
		var val []byte
		for i := 0; i+1 < len(kv[1]); i += 2 {
			b, _ := strconv.ParseUint(kv[1][i:i+2], 16, 8)
			val = append(val, byte(b))
		}
		opts = append(opts, message.Option{ID: message.OptionID(id), Value: val})
	}
	return opts
}

func runC20(a runArgs) error {
	e := NewEmitter("C20", "NoResp.Run")
	e.ShardSize = 600
	e.Rule = "IsNoResponseCode on all 256 codes x all values 0..63 (bit tables) and on boundary/random 32-bit values and 16-bit codes; ResponseWriter.SetResponse on request option lists with/without a No-Response option of 0..5 bytes. Distinct = distinct (code,value[,options]); non-trivial = response class 2/4/5 with at least one of the bits 2/8/16 set in the value."
	rng := NewRng(a.seed)
	sup := func(code uint16, v uint32) (r bool) {
		defer func() {
			if recover() != nil {
				r = true
			}
		}()
		return noresponse.IsNoResponseCode(codes.Code(code), v) != nil
	}
	addTab := func(code uint16, vlo uint32, n int) {
		var bits uint64
		for i := 0; i < n; i++ {
			if sup(code, vlo+uint32(i)) {
				bits |= 1 << uint(i)
			}
		}
		cls := code >> 5
		e.AddW(fmt.Sprintf("Tab %d %d %d%%N %d", code, vlo, n, bits), fmt.Sprintf("tab %d %d %d", code, vlo, n), cls == 2 || cls == 4 || cls == 5, 3, "tab")
		e.Extra["table_points"] = toInt(e.Extra["table_points"]) + n
	}
	addOne := func(code uint16, v uint32) {
		cls := code >> 5
		e.Add(fmt.Sprintf("One %d %d %s", code, v, coqBool(sup(code, v))), fmt.Sprintf("one %d %d", code, v), (cls == 2 || cls == 4 || cls == 5) && v&26 != 0, "one")
	}
	addRW := func(opts message.Options, code uint16) {
		resp := pool.NewMessage(context.Background())
		resp.SetCode(codes.Empty)
		w := responsewriter.New[nopClient](resp, nopClient{}, opts...)
		err := w.SetResponse(codes.Code(code), message.TextPlain, nil)
		_, _, ferr := opts.Find(message.NoResponse)
		e.Add(fmt.Sprintf("RW %s %d %s %d", coqOpts(opts), code, coqBool(err != nil), resp.Code()), fmt.Sprintf("rw %d %s", code, descOpts(opts)), ferr == nil, "rw")
	}
	if a.only != "" {
		f := strings.Fields(a.only)
		atoi := func(s string) int64 { v, _ := strconv.ParseInt(s, 10, 64); return v }
		switch f[0] {
		case "tab":
			for i := int64(0); i < atoi(f[3]); i++ {
				addOne(uint16(atoi(f[1])), uint32(atoi(f[2])+i))
			}
		case "one":
			addOne(uint16(atoi(f[1])), uint32(atoi(f[2])))
		case "rw":
			o := ""
			if len(f) > 2 {
				o = f[2]
			}
			addRW(parseDescOpts(o), uint16(atoi(f[1])))
		}
		return e.Flush(a.out)
	}
	// exhaustive over the meaningful domain: 256 codes x values 0..63
	for code := 0; code < 256; code++ {
		addTab(uint16(code), 0, 64)
	}
	e.Extra["exhaustive_domain"] = "all 256 codes x values 0..63 (every combination of the five low bits and one more)"
	vals := []uint32{64, 127, 128, 255, 256, 257, 1 << 8, 1<<16 + 2, 1<<24 + 8, 1<<31 + 16, 1 << 31, 1<<32 - 1, 1<<32 - 27}
	for code := 0; code < 256; code++ {
		for _, v := range vals {
			addOne(uint16(code), v)
		}
		for i := 0; i < 4; i++ {
			addOne(uint16(code), uint32(rng.U64()))
		}
	}
	// 16-bit codes (codes.Code is uint16)
	for _, code := range []uint16{256, 257, 320, 321, 384, 416, 512 + 69, 1024 + 132, 65535, 65535 - 31, 2 << 5, 2<<5 + 31, 4 << 5, 5<<5 + 31, 6 << 5} {
		addTab(code, 0, 64)
	}
	nrw := 1500
	if a.tier == "thorough" {
		nrw = 12000
		for code := 0; code < 256; code++ {
			addTab(uint16(code), 64, 64)
			addTab(uint16(code), 1<<32-64, 64)
			addTab(uint16(code), uint32(rng.U64())&^63, 64)
		}
	}
	// response writer
	otherIDs := []int{1, 3, 4, 6, 11, 11, 12, 14, 15, 17, 23, 27, 35, 60, 252, 259, 300, 2048, 65000}
	for i := 0; i < nrw; i++ {
		var opts message.Options
		no := rng.Intn(4)
		for j := 0; j < no; j++ {
			id := otherIDs[rng.Intn(len(otherIDs))]
			val := make([]byte, rng.Intn(3))
			for k := range val {
				val[k] = byte(rng.U64())
			}
			opts = append(opts, message.Option{ID: message.OptionID(id), Value: val})
		}
		if rng.Chance(80) {
			n := 1
			if rng.Chance(10) {
				n = 2 // repeated option: the first one counts
			}
			for k := 0; k < n; k++ {
				ln := []int{0, 1, 1, 1, 1, 2, 3, 4, 5}[rng.Intn(9)]
				val := make([]byte, ln)
				for q := range val {
					val[q] = byte(rng.U64())
				}
				if ln == 1 && rng.Chance(70) {
					val[0] = byte(rng.Intn(32))
				}
				if ln > 1 && rng.Chance(50) {
					val[ln-1] = byte(rng.Intn(32))
				}
				opts = append(opts, message.Option{ID: message.NoResponse, Value: val})
			}
		}
		sort.SliceStable(opts, func(x, y int) bool { return opts[x].ID < opts[y].ID })
		var code uint16
		switch rng.Intn(4) {
		case 0:
			code = uint16(rng.Intn(256))
		case 1:
			code = uint16(64 + rng.Intn(32))
		case 2:
			code = uint16(128 + rng.Intn(32))
		default:
			code = uint16(160 + rng.Intn(32))
		}
		addRW(opts, code)
	}
	return e.Flush(a.out)
}
