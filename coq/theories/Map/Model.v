(* Model of pkg/sync/map.go (Map[K,V]) and pkg/cache/cache.go (Cache[K,D]):
   every method is a program of atomic actions, one per critical section of
   the Go code (plus "local" actions for caller code that runs between two
   sections: Range callbacks, the expiry test of the sweep).

   Values are cache elements: a pair (id, validUntil). The id stands for the
   *Element pointer (pointer equality = id equality), validUntil is in
   nanoseconds relative to the start of the run, 0 = the zero time.Time (never
   expires). Element.ValidUntil is treated as immutable while a run lasts.
   The zero value (nil pointer) is (0,0). Keys are integers.

   Operations whose name ends in 2 / Key are the OLD shapes of the code
   (two-section LoadOrStore, delete-by-key sweep); they are kept for the
   regression lemmas and for runs against an unrepaired tree. *)
From Coq Require Import ZArith List Bool.
From GoCoap Require Import Base.Interleave.
Import ListNotations.
Open Scope Z_scope.

Definition key := Z.
Definition val := (Z * Z)%type.
Definition vid (v : val) : Z := fst v.
Definition vuntil (v : val) : Z := snd v.
Definition nil_val : val := (0, 0).
Definition st := list (key * val).
Definition res := list Z.

(* ---- Go map primitives on an association list (first match wins) ---- *)
Fixpoint get (k : key) (s : st) : option val :=
  match s with
  | [] => None
  | (k', v) :: r => if k =? k' then Some v else get k r
  end.

(* m[k] = v : replace in place, else append *)
Fixpoint set (k : key) (v : val) (s : st) : st :=
  match s with
  | [] => [(k, v)]
  | (k', v') :: r => if k =? k' then (k, v) :: r else (k', v') :: set k v r
  end.

(* delete(m, k) *)
Fixpoint del (k : key) (s : st) : st :=
  match s with
  | [] => []
  | (k', v') :: r => if k =? k' then del k r else (k', v') :: del k r
  end.

(* contents sorted by key and flattened: k1, id1, k2, id2, ... *)
Fixpoint ins (k : key) (i : Z) (l : list (Z * Z)) : list (Z * Z) :=
  match l with
  | [] => [(k, i)]
  | (k', i') :: r => if k <=? k' then (k, i) :: l else (k', i') :: ins k i r
  end.
Definition sorted_pairs (s : st) : list (Z * Z) :=
  fold_right (fun kv acc => ins (fst kv) (vid (snd kv)) acc) [] s.
Definition flatten (s : st) : res :=
  flat_map (fun p => [fst p; snd p]) (sorted_pairs s).

Definition b2z (b : bool) : Z := if b then 1 else 0.

(* Element.IsExpired(now): ValidUntil zero => false, else now.After(ValidUntil) *)
Definition is_expired (v : val) (now : Z) : bool :=
  if vuntil v =? 0 then false else vuntil v <? now.

(* time.Now() inside Cache.Load / Cache.LoadOrStore: the run starts at 0 and
   lasts less than an hour; element deadlines are never within an hour of 0 *)
Definition real_now : Z := 0.

Inductive op :=
(* sync.Map *)
| Store (k : key) (v : val)
| Load (k : key)
| LoadOrStore (k : key) (v : val)          (* one write-locked section *)
| LoadOrStore2 (k : key) (v : val)         (* OLD: read-locked load, then write-locked unconditional store *)
| Replace (k : key) (v : val)
| Delete (k : key)
| LoadAndDelete (k : key)
| LoadAndDeleteAll
| CopyData
| Length
| Range2All                                (* Range2 with a callback that always continues *)
| StoreWF (k : key) (v : val)              (* createFunc returns v *)
| LoadWF (k : key) (f : option val)        (* onLoadFunc nil / returns the given value *)
| LoadOrStoreWF (k : key) (f : option val) (cv : val)
| ReplaceWF (k : key) (nv : val) (dl : bool) (* callback answers (nv, dl) *)
| DeleteWF (k : key)
| LoadAndDeleteWF (k : key) (fv : val)     (* onLoadFunc returns fv *)
(* Range, one operation per iteration; the key is the one Go's iterator produced *)
| RangeNext (k : key)                      (* section: next entry; then the unlocked callback, which continues *)
| RangeLast (k : key)                      (* callback returns false: one more (empty) locked section *)
| RangeEnd                                 (* section that finds the iteration finished *)
(* cache.Cache *)
| CLoad (k : key)
| CLoadOrStore (k : key) (e : val)
(* CheckExpirations(now), one operation per step *)
| SweepNext (ok : option key) (now : Z) (flag : bool) (* Range step + IsExpired = flag; ok: the key, where the harness learnt it (informative only) *)
| SweepDel (k : key) (e : val) (now : Z)   (* compare-and-delete under the write lock, onExpire when removed *)
| SweepDelKey (k : key) (e : val) (now : Z) (* OLD: Delete(key), onExpire always *)
| SweepDelFail                             (* compare-and-delete that removed nothing (key not observable) *)
| SweepEnd
(* the owner of element i stores a new deadline into it (Element.ValidUntil is an exported atomic);
   it takes effect on the entry under k if that entry is still element i *)
| Extend (k : key) (i : Z) (vu : Z).

(* local state of a running operation: program counter, the value read so far,
   and (ghost) the result once it is determined *)
Record loc := mkL { pc : nat; reg : val; lpr : option res }.
Definition init_loc (_ : op) : loc := mkL 0 nil_val None.

Definition opt_id (o : option val) : Z := match o with Some v => vid v | None => 0 end.
Definition is_some {A} (o : option A) : bool := match o with Some _ => true | None => false end.

Definition ret (s : st) (r : res) : option (loc * st * option res) :=
  Some (mkL 99 nil_val (Some r), s, Some r).
Definition cont (p : nat) (v : val) (g : option res) (s : st) : option (loc * st * option res) :=
  Some (mkL p v g, s, None).
Definition lres (l : loc) : res := match lpr l with Some r => r | None => [] end.

(* one atomic action; always enabled: yields sit only where no lock is held *)
Definition act (o : op) (l : loc) (s : st) : option (loc * st * option res) :=
  match o with
  | Store k v => ret (set k v s) []
  | Load k => let x := get k s in ret s [opt_id x; b2z (is_some x)]
  | LoadOrStore k v =>
      match get k s with
      | Some x => ret s [vid x; 1]
      | None => ret (set k v s) [vid v; 0]
      end
  | LoadOrStore2 k v =>
      match pc l with
      | O => match get k s with
             | Some x => ret s [vid x; 1]
             | None => cont 1 nil_val None s
             end
      | _ => ret (set k v s) [vid v; 0]
      end
  | Replace k v => let x := get k s in ret (set k v s) [opt_id x; b2z (is_some x)]
  | Delete k => ret (del k s) []
  | LoadAndDelete k => let x := get k s in ret (del k s) [opt_id x; b2z (is_some x)]
  | LoadAndDeleteAll => ret [] (flatten s)
  | CopyData => ret s (flatten s)
  | Length => ret s [Z.of_nat (length s)]
  | Range2All => ret s (flatten s)
  | StoreWF k v => ret (set k v s) []
  | LoadWF k f =>
      match get k s, f with
      | Some x, Some y => ret s [vid y; 1; vid x]
      | Some x, None => ret s [vid x; 1; -1]
      | None, _ => ret s [0; 0; -1]
      end
  | LoadOrStoreWF k f cv =>
      match get k s, f with
      | Some x, Some y => ret s [vid y; 1; vid x; 0]
      | Some x, None => ret s [vid x; 1; -1; 0]
      | None, _ => ret (set k cv s) [vid cv; 0; -1; 1]
      end
  | ReplaceWF k nv dl =>
      let x := get k s in
      let r := [opt_id x; b2z (is_some x); opt_id x; b2z (is_some x)] in
      if dl then ret (del k s) r else ret (set k nv s) r
  | DeleteWF k =>
      (* LoadAndDeleteWithFunc -> ReplaceWithFunc: callback only when loaded; deletes either way *)
      match get k s with
      | Some x => ret (del k s) [vid x]
      | None => ret (del k s) [-1]
      end
  | LoadAndDeleteWF k fv =>
      match get k s with
      | Some x => ret (del k s) [vid fv; 1; vid x]
      | None => ret (del k s) [0; 0; -1]
      end
  | RangeNext k =>
      match pc l with
      | O => match get k s with
             | Some x => cont 1 x (Some [vid x]) s
             | None => cont 1 nil_val (Some [-2]) s
             end
      | _ => ret s (lres l)
      end
  | RangeLast k =>
      match pc l with
      | O => match get k s with
             | Some x => cont 1 x (Some [vid x]) s
             | None => cont 1 nil_val (Some [-2]) s
             end
      | S O => cont 2 (reg l) (lpr l) s
      | _ => ret s (lres l)
      end
  | RangeEnd => ret s []
  | CLoad k =>
      match get k s with
      | None => ret s [0]
      | Some x => if is_expired x real_now then ret s [0] else ret s [vid x]
      end
  | CLoadOrStore k e =>
      (* ReplaceWithFunc with a callback that keeps an unexpired old value *)
      let actual := match get k s with
                    | Some x => if is_expired x real_now then e else x
                    | None => e
                    end in
      ret (set k actual s) [vid actual; b2z (negb (vid actual =? vid e))]
  | SweepNext ok now flag =>
      match pc l with
      (* the iteration hands out (key, element) under the read lock; IsExpired reads the element's
         atomic deadline after the lock is dropped, and an owner may store a new deadline at any
         time (Extend), so what the examination finds is an input: the sweep may go on to its
         compare-and-delete for any entry at any time, and SweepDel re-tests under the write lock *)
      | O => cont 1 nil_val (Some [b2z flag]) s
      | _ => ret s (lres l)
      end
  | SweepDel k e now =>
      match get k s with
      | Some x => if (vid x =? vid e) && is_expired x now then ret (del k s) [1]
                  else ret (set k x s) [0]
      | None => ret (del k s) [0]
      end
  | SweepDelKey k e _ => ret (del k s) [1]
  | SweepDelFail => ret s [0]
  | SweepEnd => ret s []
  | Extend k i vu =>
      match get k s with
      | Some x => if vid x =? i then ret (set k (i, vu) s) [] else ret s []
      | None => ret s []
      end
  end.

Definition lp_res (l : loc) : option res := lpr l.

(* ---- instantiation of Base/Interleave ---- *)
Definition mthread := Interleave.thread op loc res.
Definition mconfig := Interleave.config st op loc res.
Definition mevent := Interleave.event op res.
Definition minit : st -> list (list op) -> mconfig := Interleave.init st op loc res.
Definition mstep : mconfig -> nat -> mconfig := Interleave.step st op loc res init_loc act lp_res.
Definition mexec : list nat -> mconfig -> mconfig := Interleave.exec st op loc res init_loc act lp_res.

(* The cooperative scheduler of the harness releases a thread from one parking
   place to the next: the invocation is glued to the first action of a call and
   the response to its last one. *)
Definition tcur (c : mconfig) (t : nat) : option (tstate op loc res) :=
  option_map (cur op loc res) (nth_error (threads _ _ _ _ c) t).
Definition macro (c : mconfig) (t : nat) : mconfig :=
  let c1 := match tcur c t with Some Idle => mstep c t | _ => c end in
  let c2 := mstep c1 t in
  match tcur c2 t with Some (Finished _ _) => mstep c2 t | _ => c2 end.
Definition macro_exec (sched : list nat) (c : mconfig) : mconfig := fold_left macro sched c.
