(* C14, specification side. Written from the property text: "the shared map and
   the expiring cache behave like a sequential map in which each operation
   takes effect atomically at some instant between its call and its return;
   among concurrent store-if-absent calls on an absent (or expired) key exactly
   one reports having stored and all others observe that value; callbacks run
   against the value actually in the map; the expiry sweep never removes or
   replaces an entry that has not expired."

   [spec] is the sequential map / cache: what one call does when nothing else
   runs. The vocabulary of operations (type [op]) and the encoding of results
   are shared with Model.v; the meaning given here does not look at how the Go
   code sections its methods: the old and new shapes of LoadOrStore have the
   same meaning (store-if-absent), and so have the two shapes of the sweep's
   removal (remove the examined entry if it is still there and expired). *)
From Coq Require Import ZArith List Bool Arith.
From GoCoap Require Import Base.Interleave Map.Model.
Import ListNotations.
Open Scope Z_scope.

Definition found (x : option val) : res := [opt_id x; b2z (is_some x)].

(* the entry under k that a cache user can see at time now *)
Definition live (k : key) (s : st) (now : Z) : option val :=
  match get k s with
  | Some x => if is_expired x now then None else Some x
  | None => None
  end.

Definition spec (o : op) (s : st) : st * res :=
  match o with
  | Store k v | StoreWF k v => (set k v s, [])
  | Load k => (s, found (get k s))
  | LoadOrStore k v | LoadOrStore2 k v =>
      (* store-if-absent *)
      match get k s with
      | Some x => (s, [vid x; 1])
      | None => (set k v s, [vid v; 0])
      end
  | Replace k v => (set k v s, found (get k s))
  | Delete k => (del k s, [])
  | LoadAndDelete k => (del k s, found (get k s))
  | LoadAndDeleteAll => ([], flatten s)
  | CopyData | Range2All => (s, flatten s)
  | Length => (s, [Z.of_nat (length s)])
  (* *WithFunc: the callback's argument (third/fourth component) is the value in the map *)
  | LoadWF k f =>
      match get k s with
      | Some x => (s, [match f with Some y => vid y | None => vid x end; 1;
                       match f with Some _ => vid x | None => -1 end])
      | None => (s, [0; 0; -1])
      end
  | LoadOrStoreWF k f cv =>
      match get k s with
      | Some x => (s, [match f with Some y => vid y | None => vid x end; 1;
                       match f with Some _ => vid x | None => -1 end; 0])
      | None => (set k cv s, [vid cv; 0; -1; 1])
      end
  | ReplaceWF k nv dl =>
      ((if dl then del k s else set k nv s), found (get k s) ++ found (get k s))
  | DeleteWF k => (del k s, [match get k s with Some x => vid x | None => -1 end])
  | LoadAndDeleteWF k fv =>
      match get k s with
      | Some x => (del k s, [vid fv; 1; vid x])
      | None => (s, [0; 0; -1])
      end
  (* one step of an iteration is an atomic read of the entry it produces *)
  | RangeNext k | RangeLast k =>
      (s, [match get k s with Some x => vid x | None => -2 end])
  | RangeEnd | SweepEnd => (s, [])
  (* cache: expired entries are invisible, and replaceable by store-if-absent *)
  | CLoad k => (s, [opt_id (live k s real_now)])
  | CLoadOrStore k e =>
      match live k s real_now with
      | Some x => (s, [vid x; b2z (negb (vid x =? vid e))])
      | None => (set k e s, [vid e; 0])
      end
  | SweepNext _ _ flag => (s, [b2z flag])
  (* the sweep removes the entry it examined only if it is still there and expired *)
  | SweepDel k e now | SweepDelKey k e now =>
      match get k s with
      | Some x => if (vid x =? vid e) && is_expired x now then (del k s, [1]) else (s, [0])
      | None => (s, [0])
      end
  | SweepDelFail => (s, [0])
  | Extend k i vu =>
      match get k s with
      | Some x => if vid x =? i then (set k (i, vu) s, []) else (s, [])
      | None => (s, [])
      end
  end.

(* ------------------------------------------------------------------------ *)
(* Observed histories and a brute-force linearizability checker (Wing-Gong). *)

Fixpoint res_eqb (a b : res) : bool :=
  match a, b with
  | [], [] => true
  | x :: a', y :: b' => (x =? y) && res_eqb a' b'
  | _, _ => false
  end.

(* observed events, in the order they happened: call n of thread t was invoked / returned r *)
Inductive oev := OI (t n : nat) | OR (t n : nat) (r : res).

Record orec := mkO { o_t : nat; o_op : op; o_inv : nat; o_ret : option (nat * res) }.

Definition prog_op (progs : list (list op)) (t n : nat) : option op :=
  match nth_error progs t with Some p => nth_error p n | None => None end.

Fixpoint find_ret (t n : nat) (pos : nat) (l : list oev) : option (nat * res) :=
  match l with
  | [] => None
  | OR t' n' r :: rest => if Nat.eqb t t' && Nat.eqb n n' then Some (pos, r) else find_ret t n (S pos) rest
  | _ :: rest => find_ret t n (S pos) rest
  end.

Fixpoint orecs_from (progs : list (list op)) (pos : nat) (l : list oev) : list orec :=
  match l with
  | [] => []
  | OI t n :: rest =>
      match prog_op progs t n with
      | Some o => mkO t o pos (find_ret t n (S pos) rest) :: orecs_from progs (S pos) rest
      | None => orecs_from progs (S pos) rest
      end
  | _ :: rest => orecs_from progs (S pos) rest
  end.
Definition orecs (progs : list (list op)) (obs : list oev) : list orec := orecs_from progs 0 obs.

Fixpoint remove_nth {A} (n : nat) (l : list A) : list A :=
  match l, n with
  | [], _ => []
  | _ :: r, O => r
  | x :: r, S n' => x :: remove_nth n' r
  end.

Definition min_ret (l : list orec) : option nat :=
  fold_left (fun m x => match o_ret x, m with
                        | Some (p, _), Some q => Some (Nat.min p q)
                        | Some (p, _), None => Some p
                        | None, _ => m
                        end) l None.

(* Is there an order of the calls, compatible with real time (a call that
   returned before another was invoked comes first), in which the sequential
   specification produces exactly the observed results? Calls that never
   returned may take effect or not. *)
(* [vm_compute] is call-by-value: the search is written with [if] so that a
   branch is explored only when needed *)
Fixpoint lin_search (fuel : nat) (s : st) (l : list orec) : bool :=
  match fuel with
  | O => false
  | S f =>
      match min_ret l with
      | None => true
      | Some m =>
          (fix try (i : nat) (rest : list orec) {struct rest} : bool :=
             match rest with
             | [] => false
             | x :: rest' =>
                 if (if Nat.ltb (o_inv x) m then
                       let '(s', r) := spec (o_op x) s in
                       if match o_ret x with Some (_, r') => res_eqb r r' | None => true end
                       then lin_search f s' (remove_nth i l) else false
                     else false)
                 then true else try (S i) rest'
             end) O l
      end
  end.

Definition lin_check (s0 : st) (progs : list (list op)) (obs : list oev) : bool :=
  let l := orecs progs obs in lin_search (S (length l)) s0 l.

(* ---- the three named clauses, evaluated directly on an observed history ---- *)

Definition completed (x : orec) : option res := option_map snd (o_ret x).

(* store-if-absent: in a history made only of reads and store-if-absent calls,
   per key at most one call reports "stored" (exactly one if the key was absent
   and some call returned) and every call returns the stored / initial value *)
Definition sia_key (o : op) : option (key * val) :=
  match o with
  | LoadOrStore k v | LoadOrStore2 k v => Some (k, v)
  | _ => None
  end.
Definition sia_history_op (o : op) : bool :=
  match o with
  | LoadOrStore _ _ | LoadOrStore2 _ _ | Load _ | CopyData | Length | Range2All => true
  | _ => false
  end.

Definition sia_calls (k : key) (l : list orec) : list (val * res) :=
  flat_map (fun x => match sia_key (o_op x), completed x with
                     | Some (k', v), Some r => if k =? k' then [(v, r)] else []
                     | _, _ => []
                     end) l.

Definition sia_ok_key (s0 : st) (l : list orec) (k : key) : bool :=
  let calls := sia_calls k l in
  match get k s0 with
  | Some x => forallb (fun c => res_eqb (snd c) [vid x; 1]) calls
  | None =>
      let winners := filter (fun c => res_eqb (snd c) [vid (fst c); 0]) calls in
      match calls, winners with
      | [], _ => true
      | _, [w] => forallb (fun c => res_eqb (snd c) [vid (fst w); 1] || res_eqb (snd c) [vid (fst c); 0]) calls
      | _, _ => false
      end
  end.

Definition store_if_absent_ok (s0 : st) (l : list orec) : bool :=
  if forallb (fun x => sia_history_op (o_op x)) l then
    forallb (fun x => match sia_key (o_op x) with Some (k, _) => sia_ok_key s0 l k | None => true end) l
  else true.

(* callbacks: what the callback was shown is what the call reports, and the
   call's result is the callback's answer *)
Definition callback_ok_op (o : op) (r : res) : bool :=
  match o, r with
  | ReplaceWF _ _ _, [a; b; c; d] => (a =? c) && (b =? d)
  | LoadWF _ (Some y), [a; 1; c] => (a =? vid y) && negb (c =? -1)
  | LoadWF _ None, [a; 1; c] => c =? -1
  | LoadWF _ _, [a; 0; c] => (a =? 0) && (c =? -1)
  | LoadOrStoreWF _ (Some y) _, [a; 1; c; d] => (a =? vid y) && negb (c =? -1) && (d =? 0)
  | LoadOrStoreWF _ None _, [a; 1; c; d] => (c =? -1) && (d =? 0)
  | LoadOrStoreWF _ _ cv, [a; 0; c; d] => (a =? vid cv) && (c =? -1) && (d =? 1)
  | LoadAndDeleteWF _ fv, [a; 1; c] => (a =? vid fv) && negb (c =? -1)
  | LoadAndDeleteWF _ _, [a; 0; c] => (a =? 0) && (c =? -1)
  | ReplaceWF _ _ _, _ | LoadWF _ _, _ | LoadOrStoreWF _ _ _, _ | LoadAndDeleteWF _ _, _ => false
  | _, _ => true
  end.
Definition callbacks_ok (l : list orec) : bool :=
  forallb (fun x => match completed x with Some r => callback_ok_op (o_op x) r | None => true end) l.

(* sweep: whatever the sweep reports as removed (onExpire ran) was expired *)
Definition sweep_ok_op (o : op) (r : res) : bool :=
  match o, r with
  | SweepDel _ e now, [1] | SweepDelKey _ e now, [1] => is_expired e now
  | _, _ => true
  end.
Definition sweep_ok (l : list orec) : bool :=
  forallb (fun x => match completed x with Some r => sweep_ok_op (o_op x) r | None => true end) l.

Definition is_sweep_op (o : op) : bool :=
  match o with SweepDel _ _ _ | SweepDelKey _ _ _ | SweepDelFail => true | _ => false end.
Definition is_wf_op (o : op) : bool :=
  match o with
  | StoreWF _ _ | LoadWF _ _ | LoadOrStoreWF _ _ _ | ReplaceWF _ _ _ | DeleteWF _ | LoadAndDeleteWF _ _ => true
  | _ => false
  end.

(* failure class of an observed history: 0 = the property holds on it;
   1 not linearizable; 2 store-if-absent; 3 callback; 4 sweep; 5 a call hung *)
Definition c14_class (s0 : st) (progs : list (list op)) (obs : list oev) : N :=
  let l := orecs progs obs in
  if negb (store_if_absent_ok s0 l) then 2%N
  else if negb (callbacks_ok l) then 3%N
  else if negb (sweep_ok l) then 4%N
  else if lin_check s0 progs obs then
    (if forallb (fun x => is_some (o_ret x)) l then 0%N else 5%N)
  else if existsb (fun x => is_sweep_op (o_op x)) l then 4%N
  else if existsb (fun x => is_wf_op (o_op x)) l then 3%N
  else 1%N.
