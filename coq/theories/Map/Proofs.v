(* C14: for all thread counts, programs, keys and schedules the model of
   sync.Map / cache.Cache (Model.v) is linearizable w.r.t. the sequential map
   (Spec.v), with the three named clauses as corollaries; the OLD shapes
   (two-section LoadOrStore, delete-by-key sweep) are refuted by witnesses. *)
From Coq Require Import ZArith List Bool Arith Lia.
From GoCoap Require Import Base.Interleave Map.Model Map.Spec.
Import ListNotations.
Open Scope Z_scope.

(* ---- map primitives ---- *)
Lemma set_get_same : forall k x s, get k s = Some x -> set k x s = s.
Proof.
  intros k x s; induction s as [|[k' v'] r IH]; cbn; [discriminate|].
  destruct (k =? k') eqn:E; intros H.
  - inversion H; subst. apply Z.eqb_eq in E. subst; reflexivity.
  - rewrite IH; auto.
Qed.

Lemma del_absent : forall k s, get k s = None -> del k s = s.
Proof.
  intros k s; induction s as [|[k' v'] r IH]; cbn; auto.
  destruct (k =? k'); [discriminate|]. intros H; rewrite IH; auto.
Qed.

Lemma get_set_same : forall k v s, get k (set k v s) = Some v.
Proof.
  intros k v s; induction s as [|[k' v'] r IH]; cbn.
  - rewrite Z.eqb_refl; reflexivity.
  - destruct (k =? k') eqn:E; cbn; [rewrite Z.eqb_refl|rewrite E]; auto.
Qed.

Lemma get_del_same : forall k s, get k (del k s) = None.
Proof.
  intros k s; induction s as [|[k' v'] r IH]; cbn; auto.
  destruct (k =? k') eqn:E; cbn; [|rewrite E]; auto.
Qed.

(* ---- the linearisation-point condition for the current shapes ---- *)
Definition new_shape (o : op) : Prop :=
  match o with LoadOrStore2 _ _ | SweepDelKey _ _ _ => False | _ => True end.

(* reachable local states: before the first action nothing is determined;
   only the iteration steps have later actions, and by then the result is fixed *)
Definition linv (o : op) (l : loc) : Prop :=
  match o with
  | RangeNext _ | SweepNext _ _ _ =>
      (pc l = 0%nat /\ lpr l = None) \/ (pc l = 1%nat /\ exists r, lpr l = Some r)
  | RangeLast _ =>
      (pc l = 0%nat /\ lpr l = None) \/ ((pc l = 1%nat \/ pc l = 2%nat) /\ exists r, lpr l = Some r)
  | _ => pc l = 0%nat /\ lpr l = None
  end.

Ltac lp_done :=
  repeat match goal with
         | H : ret _ _ = Some _ |- _ => unfold ret in H; inversion H; subst; clear H
         | H : cont _ _ _ _ = Some _ |- _ => unfold cont in H; inversion H; subst; clear H
         end.

Ltac lp_cases H :=
  repeat match type of H with
         | context [match get ?k ?s with _ => _ end] => destruct (get k s) eqn:?
         | context [match ?f with Some _ => _ | None => _ end] => destruct f
         | context [if ?b then _ else _] => destruct b eqn:?
         end.

Lemma map_lp_cond : lp_cond st op loc res init_loc act lp_res spec new_shape linv.
Proof.
  split.
  - intros o; split; [reflexivity|]. destruct o; cbn; auto.
  - intros o l s l' s' d Hgood Hinv Hact.
    unfold lp_res in *.
    destruct l as [p rg g].
    destruct o; cbn in Hgood; try contradiction; cbn [linv Model.pc Model.lpr] in Hinv.
    (* iteration steps *)
    all: try (lazymatch type of Hinv with _ \/ _ => idtac end;
      destruct Hinv as [[Hp Hg]|[Hp [r0 Hg]]]; cbn in Hp, Hg; try destruct Hp as [Hp|Hp]; subst p g;
      cbn [act Model.pc Model.lpr Model.reg lres] in Hact; lp_cases Hact; lp_done; cbn [Model.lpr Model.pc];
      (split; [first [discriminate | intros _; right; cbn; split; [auto|eexists; reflexivity]]|]);
      cbn [spec]; rewrite ?Heqo; auto; fail).
    (* single-section operations *)
    all: destruct Hinv as [Hp Hg]; cbn in Hp, Hg; subst p g; cbn [act Model.pc] in Hact;
      lp_cases Hact; lp_done; cbn [Model.lpr]; (split; [discriminate|]);
      cbn [spec found live]; rewrite ?Heqo; cbn; rewrite ?Heqb; cbn;
      try (split; [reflexivity|auto]).
    all: unfold live; rewrite ?Heqo; cbn; rewrite ?Heqb; cbn; rewrite ?Z.eqb_refl; cbn;
      try (erewrite set_get_same by eauto); try (rewrite del_absent by auto); split; auto.
Qed.

(* ---- linearizability over the full API, all thread counts / programs / schedules ---- *)
Definition mlin_with := linearizable_with st op res spec.

Theorem map_linearizable : forall (s0 : st) (progs : list (list op)) (sched : list nat),
  Forall (Forall new_shape) progs ->
  let c := mexec sched (minit s0 progs) in
  mlin_with s0 (rhist _ _ _ _ c) (rlin _ _ _ _ c) (shared _ _ _ _ c).
Proof.
  intros s0 progs sched HG.
  apply (lp_linearizable st op loc res init_loc act lp_res spec new_shape linv s0 progs sched map_lp_cond HG).
Qed.

(* the scheduler granularity of the harness (macro steps) is a special case *)
Lemma macro_is_exec : forall c t, exists l, macro c t = mexec l c.
Proof.
  intros c t. unfold macro.
  destruct (tcur c t) as [[| |]|].
  - destruct (tcur (mstep (mstep c t) t) t) as [[| |]|].
    + exists [t; t]; reflexivity.
    + exists [t; t]; reflexivity.
    + exists [t; t; t]; reflexivity.
    + exists [t; t]; reflexivity.
  - destruct (tcur (mstep c t) t) as [[| |]|].
    + exists [t]; reflexivity.
    + exists [t]; reflexivity.
    + exists [t; t]; reflexivity.
    + exists [t]; reflexivity.
  - destruct (tcur (mstep c t) t) as [[| |]|].
    + exists [t]; reflexivity.
    + exists [t]; reflexivity.
    + exists [t; t]; reflexivity.
    + exists [t]; reflexivity.
  - destruct (tcur (mstep c t) t) as [[| |]|].
    + exists [t]; reflexivity.
    + exists [t]; reflexivity.
    + exists [t; t]; reflexivity.
    + exists [t]; reflexivity.
Qed.

Lemma mexec_app : forall a b c, mexec (a ++ b) c = mexec b (mexec a c).
Proof. intros; unfold mexec, exec; apply fold_left_app. Qed.

Lemma macro_exec_is_exec : forall sched c, exists l, macro_exec sched c = mexec l c.
Proof.
  induction sched as [|t sched IH]; intros c; cbn.
  - exists []; reflexivity.
  - destruct (macro_is_exec c t) as (l1 & H1). destruct (IH (macro c t)) as (l2 & H2).
    exists (l1 ++ l2). rewrite mexec_app, <- H1. exact H2.
Qed.

Theorem map_linearizable_macro : forall s0 progs sched,
  Forall (Forall new_shape) progs ->
  let c := macro_exec sched (minit s0 progs) in
  mlin_with s0 (rhist _ _ _ _ c) (rlin _ _ _ _ c) (shared _ _ _ _ c).
Proof.
  intros s0 progs sched HG. cbn.
  destruct (macro_exec_is_exec sched (minit s0 progs)) as (l & ->).
  apply map_linearizable; auto.
Qed.

(* ---- store-if-absent: exactly one winner ---- *)
Definition sia_on (k : key) (o : op) : Prop := exists v, o = LoadOrStore k v.

Lemma sia_new_shape : forall k o, sia_on k o -> new_shape o.
Proof. intros k o [v ->]; exact I. Qed.

Definition rlegal_m := rlegal st op res spec.

Lemma sia_legal : forall k s0 rl s',
  get k s0 = None ->
  (forall x, In x rl -> sia_on k (i_op x)) ->
  rlegal_m s0 rl s' ->
  (rl = [] /\ s' = s0) \/
  exists w first rest, rl = rest ++ [first] /\ i_op first = LoadOrStore k w /\
    i_res first = [vid w; 0] /\ get k s' = Some w /\
    forall x, In x rest -> i_res x = [vid w; 1].
Proof.
  intros k s0 rl; induction rl as [|x r IH]; intros s' Habs Hall Hleg.
  - left; split; auto.
  - right. cbn in Hleg. destruct Hleg as (s1 & Hleg & Hspec).
    destruct (Hall x (or_introl eq_refl)) as [v Hx].
    rewrite Hx in Hspec. cbn in Hspec.
    destruct (IH s1 Habs (fun y Hy => Hall y (or_intror Hy)) Hleg) as [[-> ->]|(w & first & rest & -> & Hf1 & Hf2 & Hget & Hrest)].
    + rewrite Habs in Hspec. inversion Hspec; subst.
      exists v, x, []. repeat split; auto.
      * apply get_set_same.
      * intros y [].
    + rewrite Hget in Hspec. inversion Hspec; subst.
      exists w, first, (x :: rest). repeat split; auto.
      intros y [<-|Hy]; auto.
Qed.

(* Any number of threads, each running any number of LoadOrStore calls on a
   key that is absent: there is one value w such that every call that returned
   either reports (w, loaded) or is THE call that stored w; two calls that
   report "stored" are the same call. *)
Theorem store_if_absent : forall (k : key) (s0 : st) (progs : list (list op)) (sched : list nat),
  get k s0 = None ->
  Forall (Forall (sia_on k)) progs ->
  let h := rhist _ _ _ _ (mexec sched (minit s0 progs)) in
  exists w,
    (forall t n o r, In (ERes t n o r) h ->
        r = [vid w; 1] \/ (o = LoadOrStore k w /\ r = [vid w; 0])) /\
    (forall t n o a t' n' o' a', In (ERes t n o [a; 0]) h -> In (ERes t' n' o' [a'; 0]) h ->
        t = t' /\ n = n').
Proof.
  intros k s0 progs sched Habs HG h.
  assert (HG' : Forall (Forall new_shape) progs).
  { eapply Forall_impl; [|exact HG]. intros p Hp. eapply Forall_impl; [|exact Hp]. apply sia_new_shape. }
  destruct (map_linearizable s0 progs sched HG') as (HND & Hleg & Hcomp & _ & _).
  pose proof (rlin_good st op loc res init_loc act lp_res (sia_on k) s0 progs sched HG) as Hgood.
  fold mexec minit in Hgood.
  destruct (sia_legal k s0 _ _ Habs Hgood Hleg) as [[Hnil _]|(w & first & rest & Hrl & Hf1 & Hf2 & _ & Hrest)].
  - exists nil_val. split.
    + intros t n o r HI. apply Hcomp in HI. fold mexec minit in HI. rewrite Hnil in HI. destruct HI.
    + intros t n o a t' n' o' a' HI. apply Hcomp in HI. fold mexec minit in HI. rewrite Hnil in HI. destruct HI.
  - fold mexec minit in Hcomp, HND. rewrite Hrl in Hcomp, HND.
    assert (Hcase : forall t n o r, In (ERes t n o r) h ->
              (In (mkI t n o r) rest /\ r = [vid w; 1]) \/ (mkI t n o r = first)).
    { intros t n o r HI. apply Hcomp in HI. apply in_app_or in HI. destruct HI as [HI|[HI|[]]]; auto.
      left; split; auto. apply (Hrest _ HI). }
    exists w. split.
    + intros t n o r HI. destruct (Hcase t n o r HI) as [[_ ->]|HE]; auto.
      right. rewrite <- HE in Hf1, Hf2. cbn in Hf1, Hf2. auto.
    + intros t n o a t' n' o' a' H1 H2.
      destruct (Hcase _ _ _ _ H1) as [[_ HE]|HE1]; [discriminate|].
      destruct (Hcase _ _ _ _ H2) as [[_ HE]|HE2]; [discriminate|].
      rewrite <- HE2 in HE1. inversion HE1; auto.
Qed.

(* ---- callbacks see the current value ---- *)
(* what the callback of a *WithFunc call must be shown, given the contents of
   the map at the instant the call takes effect *)
Definition cb_current (o : op) (s : st) : option res :=
  match o with
  | ReplaceWF k _ _ => Some (found (get k s))
  | LoadWF k (Some _) | LoadOrStoreWF k (Some _) _ | DeleteWF k | LoadAndDeleteWF k _ =>
      Some [match get k s with Some x => vid x | None => -1 end]
  | _ => None
  end.
(* what it was shown, as recorded in the result *)
Definition cb_seen (o : op) (r : res) : option res :=
  match o, r with
  | ReplaceWF _ _ _, [_; _; c; d] => Some [c; d]
  | LoadWF _ (Some _), [_; _; c] => Some [c]
  | LoadOrStoreWF _ (Some _) _, [_; _; c; _] => Some [c]
  | DeleteWF _, [c] => Some [c]
  | LoadAndDeleteWF _ _, [_; _; c] => Some [c]
  | _, _ => None
  end.

Lemma spec_callback_current : forall o s s' r c,
  spec o s = (s', r) -> cb_current o s = Some c -> cb_seen o r = Some c.
Proof.
  intros o s s' r c Hs Hc.
  destruct o; cbn in Hc; try discriminate; cbn in Hs.
  - destruct f; [|discriminate]. destruct (get k s); inversion Hs; inversion Hc; subst; reflexivity.
  - destruct f; [|discriminate]. destruct (get k s); inversion Hs; inversion Hc; subst; reflexivity.
  - inversion Hs; inversion Hc; subst. destruct (get k s); reflexivity.
  - inversion Hs; inversion Hc; subst. reflexivity.
  - destruct (get k s); inversion Hs; inversion Hc; subst; reflexivity.
Qed.

(* In every execution, every call in the linearisation order took effect in
   some state s1 reached by the calls before it, its result is the sequential
   result in s1, and its callback was shown the value that s1 holds. *)
Theorem callbacks_see_current : forall s0 progs sched,
  Forall (Forall new_shape) progs ->
  let c := mexec sched (minit s0 progs) in
  forall newer x older, rlin _ _ _ _ c = newer ++ x :: older ->
  exists s1 s2, rlegal_m s0 older s1 /\ spec (i_op x) s1 = (s2, i_res x) /\
    forall cb, cb_current (i_op x) s1 = Some cb -> cb_seen (i_op x) (i_res x) = Some cb.
Proof.
  intros s0 progs sched HG c newer x older Hrl.
  destruct (map_linearizable s0 progs sched HG) as (_ & Hleg & _).
  fold c in Hleg. rewrite Hrl in Hleg.
  destruct (rlegal_split st op res spec s0 newer x older _ Hleg) as (s1 & s2 & H1 & H2).
  exists s1, s2. repeat split; auto.
  intros cb Hcb. eapply spec_callback_current; eauto.
Qed.

(* ---- the sweep never removes or replaces an unexpired entry ---- *)
Definition sweep_step (o : op) : bool :=
  match o with
  | SweepNext _ _ _ | SweepDel _ _ _ | SweepDelFail | SweepEnd => true
  | _ => false
  end.

Lemma spec_sweep_safe : forall o s s' r,
  sweep_step o = true -> spec o s = (s', r) ->
  s' = s \/
  exists k e now x, o = SweepDel k e now /\ r = [1] /\ get k s = Some x /\ vid x = vid e /\
                    is_expired x now = true /\ s' = del k s.
Proof.
  intros o s s' r Hsw Hs. destruct o; try discriminate; cbn in Hs.
  - destruct ok; inversion Hs; auto.
  - destruct (get k s) as [x|] eqn:Hg; [|inversion Hs; auto].
    destruct ((vid x =? vid e) && is_expired x now) eqn:Hb; inversion Hs; auto.
    apply andb_true_iff in Hb. destruct Hb as [Hb1 Hb2]. apply Z.eqb_eq in Hb1.
    right. exists k, e, now, x. repeat split; auto.
  - inversion Hs; auto.
  - inversion Hs; auto.
Qed.

(* every step of CheckExpirations either leaves the map as it is, or removes
   exactly the entry it examined, which is still the one stored under the key
   and is expired at the sweep's time, at the instant of the removal *)
Theorem sweep_safe : forall s0 progs sched,
  Forall (Forall new_shape) progs ->
  let c := mexec sched (minit s0 progs) in
  forall newer x older, rlin _ _ _ _ c = newer ++ x :: older -> sweep_step (i_op x) = true ->
  exists s1 s2, rlegal_m s0 older s1 /\ spec (i_op x) s1 = (s2, i_res x) /\
    (s2 = s1 \/
     exists k e now cur, i_op x = SweepDel k e now /\ i_res x = [1] /\ get k s1 = Some cur /\
        vid cur = vid e /\ is_expired cur now = true /\ s2 = del k s1).
Proof.
  intros s0 progs sched HG c newer x older Hrl Hsw.
  destruct (map_linearizable s0 progs sched HG) as (_ & Hleg & _).
  fold c in Hleg. rewrite Hrl in Hleg.
  destruct (rlegal_split st op res spec s0 newer x older _ Hleg) as (s1 & s2 & H1 & H2).
  exists s1, s2. repeat split; auto.
  eapply spec_sweep_safe; eauto.
Qed.

(* ---- regression witnesses about the OLD shapes ---- *)
Definition hist_oev (c : mconfig) : list oev :=
  map (fun e => match e with EInv t n _ => OI t n | ERes t n _ r => OR t n r end) (rev (rhist _ _ _ _ c)).

(* F1: two-section LoadOrStore. Schedule T0.load; T1.load; T0.store; T1.store:
   both calls report "stored" and the second overwrites the first. *)
Theorem store_if_absent_refuted :
  let progs := [[LoadOrStore2 1 (1, 0)]; [LoadOrStore2 1 (2, 0)]] in
  exists sched,
    let c := mexec sched (minit [] progs) in
    In (ERes 0 0 (LoadOrStore2 1 (1, 0)) [1; 0]) (rhist _ _ _ _ c) /\
    In (ERes 1 0 (LoadOrStore2 1 (2, 0)) [2; 0]) (rhist _ _ _ _ c) /\
    get 1 (shared _ _ _ _ c) = Some (2, 0) /\
    lin_check [] progs (hist_oev c) = false /\
    store_if_absent_ok [] (orecs progs (hist_oev c)) = false.
Proof.
  exists [0; 0; 1; 1; 0; 0; 1; 1]%nat. vm_compute. repeat split; auto.
Qed.

(* F2: delete-by-key sweep. The sweep examines the expired entry 1 under key 1,
   a store-if-absent replaces it with the fresh entry 2 (valid until 100), the
   sweep then deletes key 1: the unexpired entry 2 is gone. *)
Theorem sweep_refuted :
  let s0 := [(1, (1, -5))] in
  let progs := [[SweepNext (Some 1) 10 true; SweepDelKey 1 (1, -5) 10; SweepEnd]; [CLoadOrStore 1 (2, 100)];
                [CopyData]] in
  exists sched,
    let c := mexec sched (minit s0 progs) in
    In (ERes 1 0 (CLoadOrStore 1 (2, 100)) [2; 0]) (rhist _ _ _ _ c) /\
    In (ERes 0 1 (SweepDelKey 1 (1, -5) 10) [1]) (rhist _ _ _ _ c) /\
    In (ERes 2 0 CopyData []) (rhist _ _ _ _ c) /\
    is_expired (2, 100) 10 = false /\
    get 1 (shared _ _ _ _ c) = None /\
    lin_check s0 progs (hist_oev c) = false.
Proof.
  exists [0; 0; 0; 0; 0; 1; 1; 1; 0; 0; 0; 0; 0; 2; 2; 2]%nat. vm_compute. repeat split; auto; repeat (first [left; reflexivity | right]).
Qed.

(* the same two schedules on the current shapes are harmless *)
Example f1_schedule_repaired :
  let progs := [[LoadOrStore 1 (1, 0)]; [LoadOrStore 1 (2, 0)]] in
  let c := mexec [0; 0; 1; 1; 0; 0; 1; 1]%nat (minit [] progs) in
  hist_oev c = [OI 0 0; OI 1 0; OR 0 0 [1; 0]; OR 1 0 [1; 1]] /\ lin_check [] progs (hist_oev c) = true.
Proof. vm_compute. split; reflexivity. Qed.

Example f2_schedule_repaired :
  let s0 := [(1, (1, -5))] in
  let progs := [[SweepNext (Some 1) 10 true; SweepDel 1 (1, -5) 10; SweepEnd]; [CLoadOrStore 1 (2, 100)];
                [CopyData]] in
  let c := mexec [0; 0; 0; 0; 0; 1; 1; 1; 0; 0; 0; 0; 0; 2; 2; 2]%nat (minit s0 progs) in
  get 1 (shared _ _ _ _ c) = Some (2, 100) /\ lin_check s0 progs (hist_oev c) = true.
Proof. vm_compute. split; reflexivity. Qed.
