(* Evaluators used by the correspondence shards of C14. *)
From Coq Require Import ZArith NArith List Bool Arith.
From GoCoap Require Import Base.Cases.
From GoCoap Require Export Base.Interleave Map.Model Map.Spec.
Import ListNotations.
Open Scope Z_scope.

(* Sched: the harness forced [sched] (one entry = release thread t from one
   parking place to the next) on the real code, starting from contents [s0],
   and logged the call/return events [obs] in the order they happened.
   Free: threads ran without the scheduler (lock-holding callback barrier);
   only the history is known. *)
Inductive case :=
| Sched (s0 : st) (progs : list (list op)) (sched : list nat) (obs : list oev)
| Free (s0 : st) (progs : list (list op)) (obs : list oev)
(* free-running calls of one *WithFunc method released together: the highest number of callbacks that the
   API runs inside its write-locked section (all but LoadWithFunc's) seen executing at the same moment *)
| Overlap (most : Z).

Definition oev_eqb (a b : oev) : bool :=
  match a, b with
  | OI t n, OI t' n' => Nat.eqb t t' && Nat.eqb n n'
  | OR t n r, OR t' n' r' => Nat.eqb t t' && Nat.eqb n n' && res_eqb r r'
  | _, _ => false
  end.
Fixpoint oevs_eqb (a b : list oev) : bool :=
  match a, b with
  | [], [] => true
  | x :: a', y :: b' => oev_eqb x y && oevs_eqb a' b'
  | _, _ => false
  end.

Definition to_oev (e : mevent) : oev :=
  match e with
  | EInv t n _ => OI t n
  | ERes t n _ r => OR t n r
  end.

Definition model_history (s0 : st) (progs : list (list op)) (sched : list nat) : list oev :=
  map to_oev (rev (rhist _ _ _ _ (macro_exec sched (minit s0 progs)))).

Definition agrees (c : case) : bool :=
  match c with
  | Sched s0 progs sched obs => oevs_eqb (model_history s0 progs sched) obs
  | Free s0 progs obs => lin_check s0 progs obs
  | Overlap _ => true
  end.

Definition pclass (c : case) : N :=
  match c with
  | Sched s0 progs _ obs => c14_class s0 progs obs
  | Free s0 progs obs => c14_class s0 progs obs
  (* an operation takes effect atomically, its callback included: two write-section callbacks at once
     means two operations were inside their atomic step together *)
  | Overlap most => if (most <=? 1)%Z then 0%N else 6%N
  end.

Definition mismatches (cs : list case) : list N := bad_indices (fun c => negb (agrees c)) cs.
Definition property_failures (cs : list case) : list (N * N) := classes pclass cs.

(* smoke tests *)
Example f1_schedule :
  let progs := [[LoadOrStore2 1 (1, 0)]; [LoadOrStore2 1 (2, 0)]] in
  let h := model_history [] progs [0; 1; 0; 1]%nat in
  h = [OI 0 0; OI 1 0; OR 0 0 [1; 0]%Z; OR 1 0 [2; 0]%Z] /\ c14_class [] progs h = 2%N.
Proof. vm_compute. split; reflexivity. Qed.

Example fixed_schedule :
  let progs := [[LoadOrStore 1 (1, 0)]; [LoadOrStore 1 (2, 0)]] in
  let h := model_history [] progs [1; 0]%nat in
  h = [OI 1 0; OR 1 0 [2; 0]%Z; OI 0 0; OR 0 0 [2; 1]%Z] /\ c14_class [] progs h = 0%N.
Proof. vm_compute. split; reflexivity. Qed.
