(* C04: theorems about the block-wise transfer model (Blockwise/Model.v).
   All statements are universally quantified: every body, every SZX (0..7),
   every maximum message size, every block sequence / fault order. *)
From Coq Require Import ZArith List Bool Lia.
From GoCoap Require Import Base.Bytes Gen.BlockConsts Block.Model Blockwise.Config Blockwise.Model.
Import ListNotations.
Open Scope Z_scope.
Ltac Zify.zify_post_hook ::= Z.div_mod_to_equations.

(* ---------------------------------------------------------------- sizes *)
Lemma szx_cases s : 0 <= s <= 7 -> s = 0 \/ s = 1 \/ s = 2 \/ s = 3 \/ s = 4 \/ s = 5 \/ s = 6 \/ s = 7.
Proof. lia. Qed.

Lemma size_pos s : 0 <= s <= 7 -> 16 <= size s.
Proof.
  intros Hs. destruct (szx_cases s Hs) as [H|[H|[H|[H|[H|[H|[H|H]]]]]]]; subst s; vm_compute; discriminate.
Qed.

(* the buffer is a whole number of blocks *)
Lemma buffer_size_mult s m : 0 <= s <= 7 -> 0 <= m ->
  exists k, 0 <= k /\ buffer_size s m = k * size s /\ (s < 7 -> k = 1).
Proof.
  intros Hs Hm. unfold buffer_size.
  destruct (szx_cases s Hs) as [H|[H|[H|[H|[H|[H|[H|H]]]]]]]; subst s;
    try (exists 1; split; [lia|split; [vm_compute; reflexivity|reflexivity]]).
  exists (m / 1024). replace (7 <? szxBERT) with false by reflexivity.
  replace (size 7) with 1024 by reflexivity.
  rewrite Z.quot_div_nonneg by lia. split; [apply Z.div_pos; lia|split; [reflexivity|lia]].
Qed.

(* ---------------------------------------------------------------- lists *)
Definition prefix (a b : list Z) : Prop := exists r, b = a ++ r.
(* data is the part of body that starts at offset off *)
Definition slice_at (body : list Z) (off : Z) (data : list Z) : Prop :=
  exists pre post, body = pre ++ data ++ post /\ blen pre = off.

Lemma blen_app (a b : list Z) : blen (a ++ b) = blen a + blen b.
Proof. unfold blen. rewrite app_length. lia. Qed.
Lemma blen_nonneg (a : list Z) : 0 <= blen a.
Proof. unfold blen. lia. Qed.
Lemma blen_nil : blen (@nil Z) = 0. Proof. reflexivity. Qed.

Lemma app_eq_len (a b c d : list Z) : a ++ b = c ++ d -> length a = length c -> a = c /\ b = d.
Proof.
  revert c. induction a as [|x a IH]; intros [|y c] H Hl; cbn in *; try discriminate.
  - split; [reflexivity|assumption].
  - injection H as Hx H. injection Hl as Hl. destruct (IH c H Hl) as [-> ->]. subst. split; reflexivity.
Qed.

Lemma firstn_skipn_slice (body : list Z) (off n : nat) : (off <= length body)%nat ->
  slice_at body (Z.of_nat off) (firstn n (skipn off body)).
Proof.
  intros Hoff. exists (firstn off body), (skipn n (skipn off body)). split.
  - rewrite firstn_skipn. rewrite firstn_skipn. reflexivity.
  - unfold blen. rewrite firstn_length. lia.
Qed.

(* appending the slice that starts where the buffer ends keeps a prefix *)
Lemma prefix_append body buf data : prefix buf body -> slice_at body (blen buf) data -> prefix (buf ++ data) body.
Proof.
  intros [rest Hb] [pre [post [Hs Hl]]].
  assert (Hlen : length pre = length buf) by (unfold blen in Hl; lia).
  rewrite Hb in Hs. symmetry in Hs. destruct (app_eq_len _ _ _ _ Hs Hlen) as [-> Hr].
  exists post. rewrite Hb, <- Hr, app_assoc. reflexivity.
Qed.

(* ... and if the slice ends where the body ends, the buffer now is the body *)
Lemma prefix_complete body buf data : prefix buf body -> slice_at body (blen buf) data ->
  blen buf + blen data = blen body -> buf ++ data = body.
Proof.
  intros Hp Hs Hl. destruct (prefix_append _ _ _ Hp Hs) as [r Hr].
  assert (blen r = 0) by (rewrite Hr in Hl; rewrite !blen_app in Hl; lia).
  destruct r; [rewrite app_nil_r in Hr; auto|unfold blen in H; cbn in H; lia].
Qed.

Lemma prefix_nil b : prefix [] b. Proof. exists b. reflexivity. Qed.

(* ---------------------------------------------------------------- serving *)
(* C04_serve_coherent: whatever (szx, num) is asked for, the block produced by
   createSendingMessage is the part of the body at offset NUM*size, at most one
   buffer long, and its M bit says exactly whether bytes remain after it; code,
   token and all other options are those of the original message. *)
Theorem serve_coherent : forall orig maxszx maxmsg b sm more,
  0 <= maxszx <= 7 -> 0 <= bszx b -> 0 <= bnum b -> 0 <= maxmsg ->
  create_sending orig maxszx maxmsg b = Some (sm, more) ->
  let up := is_upload (mcode orig) in
  exists nb,
    (if up then mb1 sm else mb2 sm) = Some nb /\
    (if up then ms1 sm else ms2 sm) = Some (blen (mbody orig)) /\
    bszx nb = Z.min (bszx b) maxszx /\ 0 <= bszx nb <= 7 /\ 0 <= bnum nb /\
    bnum nb * size (bszx nb) = bnum b * size (bszx nb) + (if up then buffer_size (bszx nb) maxmsg else 0) /\
    slice_at (mbody orig) (bnum nb * size (bszx nb)) (mbody sm) /\
    blen (mbody sm) <= buffer_size (bszx nb) maxmsg /\
    bnum nb * size (bszx nb) + blen (mbody sm) <= blen (mbody orig) /\
    (bmore nb = more) /\
    (more = true <-> bnum nb * size (bszx nb) + blen (mbody sm) < blen (mbody orig)) /\
    (more = true -> blen (mbody sm) = buffer_size (bszx nb) maxmsg) /\
    mcode sm = mcode orig /\ mtok sm = mtok orig /\ metag sm = metag orig /\ mobs sm = mobs orig /\
    mother sm = mother orig /\
    (if up then mb2 sm = mb2 orig /\ ms2 sm = ms2 orig else mb1 sm = mb1 orig /\ ms1 sm = ms1 orig).
Proof.
  intros orig maxszx maxmsg b sm more Hmax Hszx Hnum Hmsg Hcs up.
  unfold create_sending in Hcs. fold up in Hcs.
  set (szx := Z.min (bszx b) maxszx) in *.
  assert (Hs : 0 <= szx <= 7) by (unfold szx; lia).
  pose proof (size_pos szx Hs) as Hsz.
  destruct (buffer_size_mult szx maxmsg Hs Hmsg) as [k [Hk [Hbuf _]]].
  set (buflen := buffer_size szx maxmsg) in *.
  set (off := bnum b * size szx + (if up then buflen else 0)) in *.
  destruct (blen (mbody orig) <? off) eqn:Hlt; [discriminate|].
  apply Z.ltb_ge in Hlt.
  injection Hcs as Hsm Hmore.
  assert (Hoff0 : 0 <= off) by (unfold off; destruct up; nia).
  assert (Hdiv : off / size szx * size szx = off).
  { unfold off. destruct up.
    - rewrite Hbuf. replace (bnum b * size szx + k * size szx) with ((bnum b + k) * size szx) by ring.
      rewrite Z.div_mul by lia. reflexivity.
    - rewrite Z.add_0_r. rewrite Z.div_mul by lia. reflexivity. }
  set (data := firstn (Z.to_nat buflen) (skipn (Z.to_nat off) (mbody orig))) in *.
  assert (Hoffn : (Z.to_nat off <= length (mbody orig))%nat) by (unfold blen in Hlt; lia).
  assert (Hslice : slice_at (mbody orig) off data).
  { pose proof (firstn_skipn_slice (mbody orig) (Z.to_nat off) (Z.to_nat buflen) Hoffn) as H.
    rewrite Z2Nat.id in H by lia. exact H. }
  assert (Hbl0 : 0 <= buflen) by (rewrite Hbuf; nia).
  assert (Hdl : blen data = Z.min buflen (blen (mbody orig) - off)).
  { unfold data, blen. rewrite firstn_length, skipn_length. unfold blen in Hlt. lia. }
  assert (Hmoreiff : more = true <-> off + blen data < blen (mbody orig)).
  { subst more. rewrite negb_true_iff, Z.eqb_neq. lia. }
  exists {| bszx := szx; bnum := off / size szx; bmore := more |}.
  subst sm. rewrite Hmore.
  cbn [set_body set_block mcode mtok mb1 mb2 ms1 ms2 metag mobs mother mbody bszx bnum bmore].
  rewrite Hdiv.
  split; [destruct up; reflexivity|].
  split; [destruct up; reflexivity|].
  split; [reflexivity|].
  split; [lia|].
  split; [apply Z.div_pos; lia|].
  split; [unfold off; destruct up; lia|].
  split; [exact Hslice|].
  split; [lia|].
  split; [lia|].
  split; [reflexivity|].
  split; [exact Hmoreiff|].
  split; [intros Hm; apply Hmoreiff in Hm; lia|].
  split; [reflexivity|]. split; [reflexivity|]. split; [reflexivity|]. split; [reflexivity|]. split; [reflexivity|].
  destruct up; split; reflexivity.
Qed.

(* ---------------------------------------------------------------- tables *)
Lemma tget_tdel_same t k : tget (tdel t k) k = None.
Proof.
  induction t as [|[k' v] t IH]; cbn [tdel tget]; [reflexivity|].
  destruct (k =? k') eqn:E; [exact IH|]. cbn [tget]. rewrite E. exact IH.
Qed.
Lemma tget_tdel_other t k k' : k <> k' -> tget (tdel t k) k' = tget t k'.
Proof.
  intros Hne. induction t as [|[k0 v] t IH]; cbn [tdel tget]; [reflexivity|].
  destruct (k =? k0) eqn:E.
  - apply Z.eqb_eq in E. subst k0. destruct (k' =? k) eqn:E'; [apply Z.eqb_eq in E'; congruence|exact IH].
  - cbn [tget]. destruct (k' =? k0); [reflexivity|exact IH].
Qed.
Lemma tget_tput_same t k v : tget (tput t k v) k = Some v.
Proof. unfold tput. cbn [tget]. rewrite Z.eqb_refl. reflexivity. Qed.
Lemma tget_tput_other t k k' v : k <> k' -> tget (tput t k v) k' = tget t k'.
Proof.
  intros Hne. unfold tput. cbn [tget]. destruct (k' =? k) eqn:E; [apply Z.eqb_eq in E; congruence|].
  apply tget_tdel_other. exact Hne.
Qed.
Lemma tget_tdel_some t k k' v : tget (tdel t k) k' = Some v -> tget t k' = Some v.
Proof.
  destruct (Z.eq_dec k k') as [->|Hne]; [rewrite tget_tdel_same; discriminate|].
  rewrite tget_tdel_other by exact Hne. auto.
Qed.

(* ---------------------------------------------------------------- receiving *)
Section Receive.
  (* the representation an ETag stands for (None: the sender uses no ETags) *)
  Variable bodyf : option Z -> list Z.
  Variable noetag : bool.
  Definition tag_ok (t : option Z) : Prop := t = None <-> noetag = true.

  Definition blockopt (isb1 : bool) (r : msg) : option blk := if isb1 then mb1 r else mb2 r.

  (* a message whose payload is what its Block option says: the part of the
     representation at offset NUM * size(SZX), ending at the end iff M = 0 *)
  Definition coherent (isb1 : bool) (r : msg) : Prop :=
    tag_ok (metag r) /\
    match blockopt isb1 r with
    | None => True
    | Some b => 0 <= bszx b <= 7 /\ 0 <= bnum b /\
                slice_at (bodyf (metag r)) (bnum b * size (bszx b)) (mbody r) /\
                (bmore b = false -> bnum b * size (bszx b) + blen (mbody r) = blen (bodyf (metag r)))
    end.

  (* every reassembly buffer is a prefix of the representation its ETag stands for *)
  Definition rx_ok (t : tbl) : Prop :=
    forall k cm, tget t k = Some cm -> tag_ok (metag cm) /\ prefix (mbody cm) (bodyf (metag cm)).

  Lemma rx_ok_tput t k v : rx_ok t -> tag_ok (metag v) -> prefix (mbody v) (bodyf (metag v)) -> rx_ok (tput t k v).
  Proof.
    intros Ht Hv Hp k' cm Hg. destruct (Z.eq_dec k k') as [->|Hne].
    - rewrite tget_tput_same in Hg. injection Hg as <-. split; assumption.
    - rewrite tget_tput_other in Hg by exact Hne. exact (Ht _ _ Hg).
  Qed.
  Lemma rx_ok_tdel t k : rx_ok t -> rx_ok (tdel t k).
  Proof. intros Ht k' cm Hg. apply tget_tdel_some in Hg. exact (Ht _ _ Hg). Qed.

  (* one block arrives at a buffer.  off is the offset the receiver computes; it
     is the sender's offset toff, or (new entry: SZX clamped) the buffer is empty
     and off = 0 only if toff = 0 *)
  Lemma reasm_ok cm r off toff :
    tag_ok (metag cm) -> prefix (mbody cm) (bodyf (metag cm)) -> tag_ok (metag r) ->
    slice_at (bodyf (metag r)) toff (mbody r) ->
    (off = toff \/ (mbody cm = [] /\ (off = 0 -> toff = 0))) ->
    let '(cm', appended) := reasm cm r off in
    metag cm' = metag r /\ mtok cm' = mtok cm /\ prefix (mbody cm') (bodyf (metag cm')) /\
    (appended = true -> toff + blen (mbody r) = blen (bodyf (metag r)) -> mbody cm' = bodyf (metag cm')).
  Proof.
    intros Hcm Hpre Hr Hsl Hoff. unfold reasm.
    set (cm1 := match metag r, metag cm with
                | Some a, Some c => if a =? c then cm else set_body (set_etag cm (Some a)) []
                | _, _ => cm end).
    assert (H1 : metag cm1 = metag r /\ mtok cm1 = mtok cm /\ prefix (mbody cm1) (bodyf (metag cm1))
                 /\ (mbody cm = [] -> mbody cm1 = [])).
    { unfold cm1. unfold tag_ok in Hcm, Hr.
      destruct (metag r) as [a|] eqn:Ea; destruct (metag cm) as [c|] eqn:Ec.
      - destruct (a =? c) eqn:E.
        + apply Z.eqb_eq in E. subst c. try rewrite Ec. repeat split; auto; try (rewrite Ec; exact Hpre).
        + cbn [set_body set_etag metag mtok mbody]. repeat split; auto. apply prefix_nil.
      - exfalso. destruct Hcm as [Hc _]. destruct Hr as [_ Hr']. specialize (Hc eq_refl). specialize (Hr' Hc). discriminate.
      - exfalso. destruct Hr as [Hr' _]. destruct Hcm as [_ Hc]. specialize (Hr' eq_refl). specialize (Hc Hr'). discriminate.
      - try rewrite Ec. repeat split; auto; try (rewrite Ec; exact Hpre). }
    destruct H1 as [Het [Htk [Hp1 Hnil]]].
    destruct (off =? blen (mbody cm1)) eqn:Eapp.
    - apply Z.eqb_eq in Eapp.
      assert (Hsl' : slice_at (bodyf (metag cm1)) (blen (mbody cm1)) (mbody r)).
      { rewrite Het. destruct Hoff as [->|[Hn Hz]]; [rewrite <- Eapp; exact Hsl|].
        rewrite (Hnil Hn) in *. rewrite blen_nil in *. rewrite (Hz Eapp) in Hsl. exact Hsl. }
      cbn [set_body metag mtok mbody]. repeat split; auto.
      + apply prefix_append; assumption.
      + intros _ Hfin. apply prefix_complete; try assumption.
        rewrite Het. destruct Hoff as [->|[Hn Hz]]; [lia|].
        rewrite (Hnil Hn), blen_nil in *. rewrite (Hz Eapp) in Hfin. lia.
    - repeat split; auto. intros; discriminate.
  Qed.

  Variable app : Z -> msg -> option msg.

  (* what process_received hands to the application *)
  Definition delivered_ok (isb1 : bool) (r x : msg) : Prop :=
    (blockopt isb1 r = None /\ x = r) \/ mbody x = bodyf (metag x).

  Lemma set_block_fields up m : mbody (set_block up m None None) = mbody m /\ metag (set_block up m None None) = metag m
                                /\ mtok (set_block up m None None) = mtok m.
  Proof. repeat split. Qed.

  (* C04_prefix_invariant + C04_complete_exact, one step: a coherent block, whatever
     its number, in whatever state the endpoint is, leaves every reassembly buffer a
     prefix of its representation, and whatever is handed to the application is the
     whole representation (or the message itself when it carries no Block option). *)
  Lemma process_received_inv e r maxszx isb1 :
    0 <= maxszx <= 7 -> (mcode r =? GET) || (mcode r =? DELETE) = false ->
    rx_ok (receiving e) -> coherent isb1 r ->
    let '(e', _, d) := process_received app e r maxszx isb1 in
    rx_ok (receiving e') /\ forall x, In x d -> delivered_ok isb1 r x.
  Proof.
    intros Hmax Hgd Hrx [Htag Hcoh]. unfold process_received, process_received_s. fold (blockopt isb1 r). rewrite Hgd.
    destruct (blockopt isb1 r) as [b|] eqn:Hb.
    2: { destruct (isb1 && match mb2 r with Some b2 => negb (bnum b2 =? 0) | None => false end);
         (split; [exact Hrx|]); [intros x []|intros x [<-|[]]; left; auto]. }
    destruct Hcoh as [Hs [Hn [Hsl Hfin]]].
    destruct (if isb1 then false else match get_sent_request e (mtok r) with None => true | Some _ => false end).
    { split; [exact Hrx|intros x []]. }
    set (trip := observe_key e r b (get_sent_request e (mtok r))).
    assert (Htrip : receiving (fst (fst trip)) = receiving e).
    { unfold trip, observe_key. destruct (is_observe_response r); [destruct (get_sent_request e (mtok r)); [destruct (bmore b)|]|]; reflexivity. }
    destruct trip as [[e0 key] obs_ok]. cbn [fst] in Htrip.
    destruct (negb obs_ok). { split; [rewrite Htrip; exact Hrx|intros x []]. }
    pose proof (size_pos (bszx b) Hs) as Hsz.
    assert (Hmin : 0 <= Z.min (bszx b) maxszx <= 7) by lia.
    pose proof (size_pos _ Hmin) as Hszm.
    (* the common continuation once the cached message cm and the receiver's offset are fixed *)
    assert (Hgen : forall cm szx0,
      tag_ok (metag cm) -> prefix (mbody cm) (bodyf (metag cm)) ->
      (bnum b * size szx0 = bnum b * size (bszx b) \/ (mbody cm = [] /\ (bnum b * size szx0 = 0 -> bnum b * size (bszx b) = 0))) ->
      let '(e', _, d) :=
        (let '(cm', appended) := reasm cm r (bnum b * size szx0) in
         let e2 := with_receiving e0 (tput (receiving e0) key cm') in
         if appended && negb (bmore b) then
           let full := set_block isb1 cm' None None in
           let e3 := with_receiving e2 (tdel (receiving e2) key) in
           let e4 := if mtok cm' =? key then e3 else with_sending e3 (tdel (sending e3) key) in
           (e4, Out (app (mtok r) full), [full])
         else
           let szx := Z.min szx0 maxszx in
           let psize := blen (mbody cm') in
           if refuse_restart isb1 (psize / size szx) (get_sent_request e (mtok r))
           then (with_receiving e2 (tdel (receiving e2) key), Fail, []) else
           let sm :=
             if isb1 then
               {| mcode := Continue; mtok := key; mb1 := Some {| bszx := szx; bnum := bnum b; bmore := bmore b |};
                  mb2 := None; ms1 := None; ms2 := None; metag := None; mobs := None; mother := []; mbody := [] |}
             else match get_sent_request e (mtok r) with
                  | Some sr =>
                    {| mcode := mcode sr; mtok := key; mb1 := None;
                       mb2 := Some {| bszx := szx; bnum := psize / size szx; bmore := bmore b |};
                       ms1 := None; ms2 := ms2 sr; metag := metag sr; mobs := None; mother := mother sr; mbody := [] |}
                  | None => entity_incomplete key
                  end in
           (e2, Out (Some sm), [])) in
      rx_ok (receiving e') /\ forall x, In x d -> delivered_ok isb1 r x).
    { intros cm szx0 Hcm Hpre Hoff.
      pose proof (reasm_ok cm r (bnum b * size szx0) (bnum b * size (bszx b)) Hcm Hpre Htag Hsl Hoff) as Hre.
      destruct (reasm cm r (bnum b * size szx0)) as [cm' appended].
      destruct Hre as [Het [Htk [Hp' Hfull]]].
      assert (Htag' : tag_ok (metag cm')) by (rewrite Het; exact Htag).
      destruct (appended && negb (bmore b)) eqn:Hfinal.
      - apply andb_true_iff in Hfinal. destruct Hfinal as [Ha Hm]. apply negb_true_iff in Hm.
        split.
        + destruct (mtok cm' =? key); cbn [receiving with_receiving with_sending];
            apply rx_ok_tdel; apply rx_ok_tput; try assumption; rewrite Htrip; exact Hrx.
        + intros x [<-|[]]. right.
          destruct (set_block_fields isb1 cm') as [-> [-> _]].
          apply Hfull; [exact Ha|]. rewrite <- Het. rewrite Het. apply Hfin. exact Hm.
      - cbv zeta. match goal with |- context [refuse_restart ?a ?n ?q] => destruct (refuse_restart a n q) end.
        + split; [|intros x []]. cbn [receiving with_receiving].
          apply rx_ok_tdel. apply rx_ok_tput; try assumption. rewrite Htrip; exact Hrx.
        + split; [|intros x []]. cbn [receiving with_receiving].
          apply rx_ok_tput; try assumption. rewrite Htrip; exact Hrx. }
    destruct (tget (receiving e0) key) as [c|] eqn:Hc.
    - rewrite Htrip in Hc. destruct (Hrx _ _ Hc) as [Hct Hcp].
      destruct (bmore b); apply (Hgen c (bszx b) Hct Hcp); left; reflexivity.
    - destruct (bmore b) eqn:Hm.
      + apply (Hgen (set_body r []) (Z.min (bszx b) maxszx)); [exact Htag|apply prefix_nil|].
        right. split; [reflexivity|]. intros H0. nia.
      + destruct (negb (bnum b =? 0)) eqn:Hz.
        * split; [rewrite Htrip; exact Hrx|intros x []].
        * split; [rewrite Htrip; exact Hrx|]. intros x [<-|[]]. right.
          apply negb_false_iff, Z.eqb_eq in Hz. specialize (Hfin eq_refl). rewrite Hz in *.
          destruct Hsl as [pre [post [Hbd Hl]]]. cbn in Hl.
          assert (pre = []) by (destruct pre; [reflexivity|unfold blen in Hl; cbn in Hl; lia]). subst pre.
          cbn [List.app] in Hbd. rewrite Hbd in Hfin. rewrite blen_app in Hfin.
          assert (post = []) by (destruct post; [reflexivity|unfold blen in Hfin; cbn in Hfin; lia]). subst post.
          rewrite app_nil_r in Hbd. auto.
  Qed.
End Receive.

(* ---------------------------------------------------------------- Handle *)
Lemma start_sending_receiving e w mx mm b : receiving (fst (start_sending e w mx mm b)) = receiving e.
Proof.
  unfold start_sending. destruct w as [wm|]; [|reflexivity].
  destruct (blen (mbody wm) <? size mx); [reflexivity|].
  destruct (create_sending wm mx mm b) as [[sm more]|]; [|reflexivity].
  destruct (is_observe_response sm); [reflexivity|].
  destruct (tget (sending e) (mtok sm)); reflexivity.
Qed.
Lemma start_sending_cfg e w mx mm b :
  let e' := fst (start_sending e w mx mm b) in
  eszx e' = eszx e /\ emax e' = emax e /\ efresh e' = efresh e /\ ehid e' = ehid e /\ eoutside e' = eoutside e.
Proof.
  unfold start_sending. destruct w as [wm|]; [|repeat split].
  destruct (blen (mbody wm) <? size mx); [repeat split|].
  destruct (create_sending wm mx mm b) as [[sm more]|]; [|repeat split].
  destruct (is_observe_response sm); [repeat split|].
  destruct (tget (sending e) (mtok sm)); repeat split.
Qed.
Lemma continue_sending_receiving e r orig : receiving (fst (fst (continue_sending e r orig))) = receiving e.
Proof.
  unfold continue_sending. destruct (if is_upload (mcode orig) then mb1 r else mb2 r) as [b|]; [|reflexivity].
  destruct (create_sending orig (eszx e) (emax e) b) as [[sm more]|]; [|reflexivity].
  destruct (negb more && (DELETE <? mcode orig)); reflexivity.
Qed.

Ltac crush_match := repeat match goal with
  | |- context [match ?x with _ => _ end] => destruct x eqn:?
  end.

Lemma continue_sending_cfg e r orig :
  let e' := fst (fst (continue_sending e r orig)) in
  eszx e' = eszx e /\ emax e' = emax e /\ efresh e' = efresh e /\ ehid e' = ehid e.
Proof. unfold continue_sending. crush_match; repeat split. Qed.

Lemma observe_key_cfg e r b sent :
  let e' := fst (fst (observe_key e r b sent)) in eszx e' = eszx e /\ emax e' = emax e.
Proof. unfold observe_key. crush_match; repeat split. Qed.

Lemma process_received_cfg app e r mx isb1 :
  let e' := fst (fst (process_received app e r mx isb1)) in eszx e' = eszx e /\ emax e' = emax e.
Proof.
  unfold process_received, process_received_s.
  destruct ((mcode r =? GET) || (mcode r =? DELETE)); [repeat split|].
  destruct (if isb1 then mb1 r else mb2 r) as [b|]; [|crush_match; repeat split].
  destruct (if isb1 then false else match get_sent_request e (mtok r) with None => true | Some _ => false end); [repeat split|].
  pose proof (observe_key_cfg e r b (get_sent_request e (mtok r))) as Hk.
  destruct (observe_key e r b (get_sent_request e (mtok r))) as [[e0 key] ok]. cbn [fst] in Hk.
  destruct (negb ok); [exact Hk|].
  crush_match; cbn [fst eszx emax with_receiving with_sending]; exact Hk.
Qed.

Lemma handle_received_cfg app e r :
  let e' := fst (fst (handle_received app e r)) in eszx e' = eszx e /\ emax e' = emax e.
Proof.
  unfold handle_received, handle_received_s; fold_pr.
  destruct ((mcode r =? 0) || ((225 <=? mcode r) && (mcode r <=? 229))); [repeat split|].
  destruct ((mcode r =? GET) || (mcode r =? DELETE)).
  - match goal with |- context [start_sending ?a ?b ?c ?d ?f] =>
      pose proof (start_sending_cfg a b c d f) as Hc; destruct (start_sending a b c d f) as [e' o] end.
    cbn [fst] in *. split; apply Hc.
  - match goal with |- context [process_received ?a ?b ?c ?d ?f] =>
      pose proof (process_received_cfg a b c d f) as Hp; destruct (process_received a b c d f) as [[e1 o] d0] end.
    cbn [fst] in Hp. destruct o as [w|]; [|exact Hp].
    match goal with |- context [start_sending ?a ?b ?c ?d ?f] =>
      pose proof (start_sending_cfg a b c d f) as Hc; destruct (start_sending a b c d f) as [e' o'] end.
    cbn [fst] in *. destruct Hc as [H1 [H2 _]]. rewrite H1, H2. exact Hp.
Qed.

Definition is_plain_code (c : Z) : bool :=
  (c =? 0) || ((225 <=? c) && (c <=? 229)) || (c =? GET) || (c =? DELETE).

Lemma fit_range o mx : 0 <= mx <= 7 -> (forall b, o = Some b -> 0 <= bszx b) -> 0 <= fit o mx <= 7.
Proof.
  intros Hm Hb. unfold fit. destruct o as [b|]; [|exact Hm].
  specialize (Hb b eq_refl). destruct (mx >? bszx b) eqn:E; lia.
Qed.

Section HandleInv.
  Variable bodyf : option Z -> list Z.
  Variable noetag : bool.
  Variable app : Z -> msg -> option msg.

  (* the message as a whole is coherent for the direction its code implies *)
  Definition coherent_msg (r : msg) : Prop := coherent bodyf noetag (is_upload (mcode r)) r.

  (* what Handle may hand to the application for wire message r *)
  Definition handed_ok (r x : msg) : Prop :=
    (x = r /\ (blockopt (is_upload (mcode r)) r = None \/ is_plain_code (mcode r) = true))
    \/ mbody x = bodyf (metag x).

  Lemma handle_received_inv e r :
    0 <= eszx e <= 7 -> rx_ok bodyf noetag (receiving e) -> coherent_msg r ->
    let '(e', _, d) := handle_received app e r in
    rx_ok bodyf noetag (receiving e') /\ (forall x, In x d -> handed_ok r x).
  Proof.
    intros Hsz Hrx Hcoh. unfold handle_received, handle_received_s; fold_pr.
    destruct ((mcode r =? 0) || ((225 <=? mcode r) && (mcode r <=? 229))) eqn:Hsig.
    { split; [exact Hrx|]. intros x [<-|[]]. left. split; [reflexivity|right].
      unfold is_plain_code. rewrite <- orb_assoc, Hsig. reflexivity. }
    destruct ((mcode r =? GET) || (mcode r =? DELETE)) eqn:Hgd.
    { pose proof (start_sending_receiving e (app (mtok r) r) (fit (mb2 r) (eszx e)) (emax e)
        match app (mtok r) r with
        | Some wm => match mb2 r with
                     | Some b => if mcode wm =? Content then b else {| bszx := eszx e; bnum := 0; bmore := true |}
                     | None => {| bszx := eszx e; bnum := 0; bmore := true |} end
        | None => {| bszx := eszx e; bnum := 0; bmore := true |} end) as Hr.
      match goal with |- context [start_sending ?a ?b ?c ?d ?f] =>
        pose proof (start_sending_receiving a b c d f) as Hr'; destruct (start_sending a b c d f) as [e' o] end.
      cbn [fst] in Hr'. split; [rewrite Hr'; exact Hrx|]. intros x [<-|[]]. left. split; [reflexivity|right].
      unfold is_plain_code. rewrite <- !orb_assoc. rewrite Hgd. rewrite !orb_true_r. reflexivity. }
    set (isb1 := is_upload (mcode r)) in *.
    assert (Hfit : 0 <= fit (if isb1 then mb1 r else mb2 r) (eszx e) <= 7).
    { apply fit_range; [exact Hsz|]. intros b Hb. destruct Hcoh as [_ Hc]. unfold blockopt in Hc. fold isb1 in Hc.
      rewrite Hb in Hc. lia. }
    pose proof (process_received_inv bodyf noetag app e r _ isb1 Hfit Hgd Hrx Hcoh) as Hpr.
    destruct (process_received app e r (fit (if isb1 then mb1 r else mb2 r) (eszx e)) isb1) as [[e1 o] d].
    destruct Hpr as [Hrx1 Hd].
    assert (Hd' : forall x, In x d -> handed_ok r x).
    { intros x Hx. destruct (Hd x Hx) as [[Hn ->]|Hb]; [left; split; [reflexivity|left; exact Hn]|right; exact Hb]. }
    destruct o as [w|]; [|split; assumption].
    match goal with |- context [start_sending ?a ?b ?c ?d ?f] =>
      pose proof (start_sending_receiving a b c d f) as Hr'; destruct (start_sending a b c d f) as [e2 o2] end.
    cbn [fst] in Hr'. split; [rewrite Hr'; exact Hrx1|exact Hd'].
  Qed.

  Lemma handle_inv e r :
    0 <= eszx e <= 7 -> rx_ok bodyf noetag (receiving e) -> coherent_msg r ->
    let '(e', _, d, _) := handle app e r in
    rx_ok bodyf noetag (receiving e') /\ eszx e' = eszx e /\ (forall x, In x d -> handed_ok r x).
  Proof.
    intros Hsz Hrx Hcoh. unfold handle.
    pose proof (handle_received_inv e r Hsz Hrx Hcoh) as Hhr.
    pose proof (handle_received_cfg app e r) as Hcfg.
    destruct (handle_received app e r) as [[e1 o] d]. cbn [fst] in Hcfg. destruct Hhr as [Hrx1 Hd].
    assert (Hrecv : let '(e', _, d0, _) := (match o with Out w => (e1, w, d, 0) | Fail => (e1, Some (entity_incomplete (mtok r)), d, 1) end) in
                    rx_ok bodyf noetag (receiving e') /\ eszx e' = eszx e /\ (forall x, In x d0 -> handed_ok r x)).
    { destruct o; (split; [exact Hrx1|split; [apply Hcfg|exact Hd]]). }
    destruct (tget (sending e) (mtok r)) as [orig|]; [|exact Hrecv].
    destruct (wants_to_be_received r); [exact Hrecv|].
    pose proof (continue_sending_receiving e r orig) as Hcr.
    pose proof (continue_sending_cfg e r orig) as Hcc.
    destruct (continue_sending e r orig) as [[e2 w] err]. cbn [fst] in Hcr, Hcc.
    split; [rewrite Hcr; exact Hrx|split; [apply Hcc|intros x []]].
  Qed.

  (* C04_prefix_invariant / C04_complete_exact over whole histories: any list of
     coherent messages - any order, any repetition, any mix of tokens - handled one
     after the other *)
  Fixpoint feed (e : ep) (rs : list msg) : ep * list (msg * msg) :=
    match rs with
    | [] => (e, [])
    | r :: rest =>
      let '(e', _, d, _) := handle app e r in
      let '(e'', ds) := feed e' rest in (e'', map (fun x => (r, x)) d ++ ds)
    end.

  Theorem feed_inv : forall rs e,
    0 <= eszx e <= 7 -> rx_ok bodyf noetag (receiving e) -> Forall coherent_msg rs ->
    rx_ok bodyf noetag (receiving (fst (feed e rs))) /\
    Forall (fun p => handed_ok (fst p) (snd p)) (snd (feed e rs)).
  Proof.
    induction rs as [|r rest IH]; intros e Hsz Hrx Hall; cbn [feed].
    - split; [exact Hrx|constructor].
    - inversion Hall as [|? ? Hr Hrest]; subst.
      pose proof (handle_inv e r Hsz Hrx Hr) as Hh.
      destruct (handle app e r) as [[[e1 w] d] n]. destruct Hh as [Hrx1 [Hsz1 Hd]].
      assert (Hsz1' : 0 <= eszx e1 <= 7) by lia.
      specialize (IH e1 Hsz1' Hrx1 Hrest). destruct (feed e1 rest) as [e2 ds]. cbn [fst snd] in *.
      destruct IH as [IH1 IH2]. split; [exact IH1|].
      apply Forall_app. split; [|exact IH2].
      apply Forall_forall. intros [r' x] Hin. apply in_map_iff in Hin. destruct Hin as [y [Heq Hy]].
      injection Heq as <- <-. cbn [fst snd]. apply Hd. exact Hy.
  Qed.
End HandleInv.

(* ---------------------------------------------------------------- once *)
Section Once.
  Variable app : Z -> msg -> option msg.

  (* C04_once at the level of processReceivedMessage (messages that are not
     block-wise notifications, whose state lives under a private token):
     (1) whenever something is handed to the application, no reassembly state is
         left for the token (it is removed on delivery);
     (2) with no reassembly state, a block with NUM > 0 is never handed over
         (repaired F15) - so after a delivery, replays and duplicates of the later
         blocks of that transfer deliver nothing. *)
  Lemma process_received_once (e : ep) (r : msg) (mx : Z) (isb1 : bool) (b : blk) :
    (if isb1 then mb1 r else mb2 r) = Some b -> is_observe_response r = false ->
    (mcode r =? GET) || (mcode r =? DELETE) = false ->
    let '(e', _, d) := process_received app e r mx isb1 in
    (d <> [] -> tget (receiving e') (mtok r) = None) /\
    (tget (receiving e) (mtok r) = None -> bnum b <> 0 -> d = []).
  Proof.
    intros Hb Hobs Hgd. unfold process_received, process_received_s. rewrite Hgd, Hb. unfold observe_key. rewrite Hobs.
    destruct (if isb1 then false else match get_sent_request e (mtok r) with None => true | Some _ => false end).
    { split; [intros H; contradiction H; reflexivity|reflexivity]. }
    cbn [negb].
    destruct (tget (receiving e) (mtok r)) as [c|] eqn:Hc.
    - destruct (bmore b);
        (destruct (reasm c r (bnum b * size (bszx b))) as [cm' appended];
         match goal with |- context [if ?c then _ else _] => destruct c end;
         try destruct (mtok cm' =? mtok r);
         cbv zeta; try match goal with |- context [refuse_restart ?a ?n ?q] => destruct (refuse_restart a n q) end;
         (split; [intros Hd; try (contradiction Hd; reflexivity); cbn [receiving with_receiving with_sending]; apply tget_tdel_same
                 |intros Hn; discriminate Hn])).
    - destruct (bmore b) eqn:Hm.
      + destruct (reasm (set_body r []) r (bnum b * size (Z.min (bszx b) mx))) as [cm' appended].
        rewrite andb_false_r. cbv zeta.
        match goal with |- context [refuse_restart ?a ?n ?q] => destruct (refuse_restart a n q) end;
          (split; [intros Hd; contradiction Hd; reflexivity|reflexivity]).
      + destruct (bnum b =? 0) eqn:Hz; cbn [negb].
        * split; [intros _; exact Hc|]. intros _ Hne. apply Z.eqb_eq in Hz. contradiction.
        * split; [intros Hd; contradiction Hd; reflexivity|reflexivity].
  Qed.

  Theorem handle_once e r b :
    blockopt (is_upload (mcode r)) r = Some b -> is_plain_code (mcode r) = false -> is_observe_response r = false ->
    let '(e', _, d, _) := handle app e r in
    (d <> [] -> tget (receiving e') (mtok r) = None) /\
    (tget (receiving e) (mtok r) = None -> bnum b <> 0 -> d = []).
  Proof.
    intros Hb Hplain Hobs. unfold handle.
    assert (Hrecv : let '(e', _, d, _) :=
              (let '(e', o, d) := handle_received app e r in
               match o with Out w => (e', w, d, 0) | Fail => (e', Some (entity_incomplete (mtok r)), d, 1) end) in
              (d <> [] -> tget (receiving e') (mtok r) = None) /\
              (tget (receiving e) (mtok r) = None -> bnum b <> 0 -> d = [])).
    { unfold handle_received, handle_received_s; fold_pr. unfold is_plain_code in Hplain.
      apply orb_false_iff in Hplain. destruct Hplain as [Hplain Hd]. apply orb_false_iff in Hplain. destruct Hplain as [Hplain Hg].
      rewrite Hplain. rewrite Hg, Hd. cbn [orb].
      unfold blockopt in Hb.
      assert (Hgd : (mcode r =? GET) || (mcode r =? DELETE) = false) by (rewrite Hg, Hd; reflexivity).
      pose proof (process_received_once e r (fit (if is_upload (mcode r) then mb1 r else mb2 r) (eszx e)) _ b Hb Hobs Hgd) as Hp.
      destruct (process_received app e r (fit (if is_upload (mcode r) then mb1 r else mb2 r) (eszx e)) (is_upload (mcode r))) as [[e1 o] d].
      destruct o as [w|]; [|exact Hp].
      match goal with |- context [start_sending ?a ?b ?c ?d ?f] =>
        pose proof (start_sending_receiving a b c d f) as Hr'; destruct (start_sending a b c d f) as [e2 o2] end.
      cbn [fst] in Hr'. destruct o2; rewrite Hr'; exact Hp. }
    destruct (tget (sending e) (mtok r)) as [orig|]; [|exact Hrecv].
    destruct (wants_to_be_received r); [exact Hrecv|].
    destruct (continue_sending e r orig) as [[e2 w] err].
    split; [intros Hd; contradiction Hd; reflexivity|reflexivity].
  Qed.
End Once.

(* ---------------------------------------------------------------- isolation *)
Lemma create_sending_tok orig mx mm b sm more : create_sending orig mx mm b = Some (sm, more) -> mtok sm = mtok orig.
Proof.
  unfold create_sending. destruct (blen (mbody orig) <? _); [discriminate|]. intros H. injection H as <- _. reflexivity.
Qed.

Section Frame.
  Variable app : Z -> msg -> option msg.
  (* the application answers under the token of the request (the relay presets it) *)
  Hypothesis Happ : forall t d w, app t d = Some w -> mtok w = t.

  Definition same_at (e e' : ep) (t : Z) : Prop :=
    tget (sending e') t = tget (sending e) t /\ tget (receiving e') t = tget (receiving e) t.

  Lemma start_sending_frame e w mx mm b tk t :
    0 <= mx <= 7 -> (forall wm, w = Some wm -> mbody wm = [] \/ mtok wm = tk) -> t <> tk ->
    same_at e (fst (start_sending e w mx mm b)) t.
  Proof.
    intros Hmx Hw Hne. unfold start_sending, same_at. destruct w as [wm|]; [|split; reflexivity].
    destruct (blen (mbody wm) <? size mx) eqn:Hlt; [split; reflexivity|].
    destruct (create_sending wm mx mm b) as [[sm more]|] eqn:Hcs; [|split; reflexivity].
    destruct (is_observe_response sm); [split; reflexivity|].
    destruct (tget (sending e) (mtok sm)); [split; reflexivity|].
    cbn [fst sending receiving with_sending]. split; [|reflexivity].
    apply tget_tput_other. rewrite (create_sending_tok _ _ _ _ _ _ Hcs).
    destruct (Hw wm eq_refl) as [Hnil|Htk]; [|congruence].
    exfalso. apply Z.ltb_ge in Hlt. rewrite Hnil in Hlt. pose proof (size_pos mx Hmx). cbn in Hlt. lia.
  Qed.

  Lemma process_received_frame e r mx isb1 t :
    0 <= efresh e -> 0 <= ehid e -> t <> mtok r -> 0 <= t < FRESH ->
    let '(e', o, _) := process_received app e r mx isb1 in
    same_at e e' t /\ (forall wm, o = Out (Some wm) -> mbody wm = [] \/ mtok wm = mtok r).
  Proof.
    intros Hf Hh Hne Hrange. unfold process_received, process_received_s, same_at.
    destruct ((mcode r =? GET) || (mcode r =? DELETE)).
    { split; [split; reflexivity|]. intros wm H. injection H as H. right. exact (Happ _ _ _ H). }
    destruct (if isb1 then mb1 r else mb2 r) as [b|].
    2: { destruct (isb1 && _); (split; [split; reflexivity|]); intros wm H; [discriminate|].
         injection H as H. right. exact (Happ _ _ _ H). }
    destruct (if isb1 then false else match get_sent_request e (mtok r) with None => true | Some _ => false end).
    { split; [split; reflexivity|discriminate]. }
    assert (Hk : let '(e0, key, _) := observe_key e r b (get_sent_request e (mtok r)) in
                 key <> t /\ receiving e0 = receiving e /\ tget (sending e0) t = tget (sending e) t).
    { unfold observe_key. destruct (is_observe_response r); [|repeat split; congruence].
      destruct (get_sent_request e (mtok r)) as [sr|]; [|repeat split; congruence].
      unfold FRESH in *. destruct (bmore b); cbn [sending receiving with_sending with_counters];
        (split; [lia|split; [reflexivity|apply tget_tput_other; lia]]). }
    destruct (observe_key e r b (get_sent_request e (mtok r))) as [[e0 key] ok].
    destruct Hk as [Hkt [Hr0 Hs0]].
    destruct (negb ok). { split; [split; [exact Hs0|rewrite Hr0; reflexivity]|discriminate]. }
    assert (Hput : forall v, tget (tput (receiving e0) key v) t = tget (receiving e) t)
      by (intros v; rewrite tget_tput_other by exact Hkt; rewrite Hr0; reflexivity).
    assert (Hdel : forall v, tget (tdel (tput (receiving e0) key v) key) t = tget (receiving e) t)
      by (intros v; rewrite tget_tdel_other by exact Hkt; apply Hput).
    assert (Hsdel : tget (tdel (sending e0) key) t = tget (sending e) t)
      by (rewrite tget_tdel_other by exact Hkt; exact Hs0).
    destruct (tget (receiving e0) key) as [c|]; destruct (bmore b);
      try (destruct (negb (bnum b =? 0));
           [split; [split; [exact Hs0|rewrite Hr0; reflexivity]|discriminate]
           |split; [split; [exact Hs0|rewrite Hr0; reflexivity]|intros wm H; injection H as H; right; exact (Happ _ _ _ H)]]).
    all: match goal with |- context [reasm ?a ?b ?c] => destruct (reasm a b c) as [cm' appended] end.
    all: match goal with |- context [if ?c then _ else _] => destruct c end.
    all: try (destruct (mtok cm' =? key)).
    all: cbv zeta; try match goal with |- context [refuse_restart ?a ?n ?q] => destruct (refuse_restart a n q) end.
    all: cbn [sending receiving with_sending with_receiving].
    all: split; [split; first [exact Hs0|exact Hsdel|apply Hput|apply Hdel]|].
    all: intros wm H; try discriminate H; injection H as H.
    all: try (right; exact (Happ _ _ _ H)).
    all: left; subst wm; destruct isb1; try reflexivity; destruct (get_sent_request e (mtok r)); reflexivity.
  Qed.
End Frame.

Section Isolated.
  Variable app : Z -> msg -> option msg.
  Hypothesis Happ : forall t d w, app t d = Some w -> mtok w = t.

  Lemma same_at_trans e1 e2 e3 t : same_at e1 e2 t -> same_at e2 e3 t -> same_at e1 e3 t.
  Proof. unfold same_at. intros [A B] [C D]. split; congruence. Qed.

  (* C04_isolated: handling a message with token tk leaves the sending and
     receiving state of every other application token untouched *)
  Theorem handle_isolated e r t :
    0 <= eszx e <= 7 -> (forall b, mb1 r = Some b \/ mb2 r = Some b -> 0 <= bszx b) ->
    0 <= efresh e -> 0 <= ehid e -> t <> mtok r -> 0 <= t < FRESH ->
    let '(e', _, _, _) := handle app e r in same_at e e' t.
  Proof.
    intros Hsz Hb Hf Hh Hne Hrange. unfold handle.
    assert (Hrecv : let '(e', _, _, _) :=
              (let '(e', o, d) := handle_received app e r in
               match o with Out w => (e', w, d, 0) | Fail => (e', Some (entity_incomplete (mtok r)), d, 1) end) in
              same_at e e' t).
    { assert (Hhr : same_at e (fst (fst (handle_received app e r))) t).
      { unfold handle_received, handle_received_s; fold_pr.
        destruct ((mcode r =? 0) || ((225 <=? mcode r) && (mcode r <=? 229))); [split; reflexivity|].
        destruct ((mcode r =? GET) || (mcode r =? DELETE)).
        - assert (Hfit : 0 <= fit (mb2 r) (eszx e) <= 7) by (apply fit_range; [exact Hsz|intros b H; apply Hb; right; exact H]).
          match goal with |- context [start_sending ?a ?b ?c ?d ?f] =>
            pose proof (start_sending_frame app Happ a b c d f (mtok r) t Hfit) as Hs; destruct (start_sending a b c d f) as [e' o] end.
          cbn [fst] in *. apply Hs; [|exact Hne]. intros wm H. right. exact (Happ _ _ _ H).
        - set (isb1 := is_upload (mcode r)).
          assert (Hfit : 0 <= fit (if isb1 then mb1 r else mb2 r) (eszx e) <= 7).
          { apply fit_range; [exact Hsz|]. intros b H. apply Hb. destruct isb1; [left|right]; exact H. }
          pose proof (process_received_frame app Happ e r (fit (if isb1 then mb1 r else mb2 r) (eszx e)) isb1 t Hf Hh Hne Hrange) as Hp.
          destruct (process_received app e r (fit (if isb1 then mb1 r else mb2 r) (eszx e)) isb1) as [[e1 o] d].
          destruct Hp as [Hs1 Ho]. destruct o as [w|]; [|exact Hs1].
          match goal with |- context [start_sending ?a ?b ?c ?d ?f] =>
            pose proof (start_sending_frame app Happ a b c d f (mtok r) t Hfit) as Hs; destruct (start_sending a b c d f) as [e2 o2] end.
          cbn [fst] in *. eapply same_at_trans; [exact Hs1|]. apply Hs; [|exact Hne].
          intros wm H. apply Ho. rewrite H. reflexivity. }
      destruct (handle_received app e r) as [[e1 o] d]. cbn [fst] in Hhr. destruct o; exact Hhr. }
    destruct (tget (sending e) (mtok r)) as [orig|]; [|exact Hrecv].
    destruct (wants_to_be_received r); [exact Hrecv|].
    unfold continue_sending.
    assert (Hd : same_at e (with_sending e (tdel (sending e) (mtok r))) t).
    { split; cbn [sending receiving with_sending]; [apply tget_tdel_other; congruence|reflexivity]. }
    destruct (if is_upload (mcode orig) then mb1 r else mb2 r) as [b|]; [|exact Hd].
    destruct (create_sending orig (eszx e) (emax e) b) as [[sm more]|]; [|exact Hd].
    destruct (negb more && (DELETE <? mcode orig)); [exact Hd|split; reflexivity].
  Qed.
End Isolated.

(* ---------------------------------------------------------------- progress *)
(* One fault-free round trip of a download (Block2), lock-step core: the receiver
   holds the first j buffers of the body and asks for block |buf|/size; the sender
   serves it (createSendingMessage); the receiver's reassembly step (reasm) appends
   it.  After the round trip the receiver holds min(|body|, (j+1) buffers) bytes,
   still a prefix, and M = 0 exactly when it holds the whole body. *)
Definition etag_agrees (a b : option Z) : Prop :=
  match a, b with Some x, Some y => x = y | _, _ => True end.

Lemma download_round_trip orig s m cm j :
  is_upload (mcode orig) = false -> 0 <= s <= 7 -> 0 <= m -> 0 < buffer_size s m ->
  prefix (mbody cm) (mbody orig) -> 0 <= j -> blen (mbody cm) = j * buffer_size s m ->
  etag_agrees (metag orig) (metag cm) ->
  exists sm more,
    create_sending orig s m {| bszx := s; bnum := blen (mbody cm) / size s; bmore := true |} = Some (sm, more) /\
    mb2 sm = Some {| bszx := s; bnum := blen (mbody cm) / size s; bmore := more |} /\
    let '(cm', appended) := reasm cm sm (blen (mbody cm) / size s * size s) in
    appended = true /\ prefix (mbody cm') (mbody orig) /\
    blen (mbody cm') = Z.min (blen (mbody orig)) ((j + 1) * buffer_size s m) /\
    (more = false <-> mbody cm' = mbody orig) /\ metag cm' = metag cm.
Proof.
  intros Hup Hs Hm HB Hpre Hj Hlen Het.
  pose proof (size_pos s Hs) as Hsz.
  destruct (buffer_size_mult s m Hs Hm) as [k [Hk [Hbuf _]]].
  set (B := buffer_size s m) in *.
  assert (Hdiv : blen (mbody cm) / size s * size s = blen (mbody cm)).
  { rewrite Hlen, Hbuf. replace (j * (k * size s)) with (j * k * size s) by ring. rewrite Z.div_mul by lia. reflexivity. }
  destruct Hpre as [rest Hrest].
  assert (Hle : blen (mbody cm) <= blen (mbody orig)) by (rewrite Hrest, blen_app; pose proof (blen_nonneg rest); lia).
  unfold create_sending. rewrite Hup. cbn [bszx bnum]. rewrite Z.min_id. fold B. rewrite Z.add_0_r, Hdiv.
  destruct (blen (mbody orig) <? blen (mbody cm)) eqn:Hlt; [apply Z.ltb_lt in Hlt; lia|].
  set (data := firstn (Z.to_nat B) (skipn (Z.to_nat (blen (mbody cm))) (mbody orig))).
  assert (Hdata : data = firstn (Z.to_nat B) rest).
  { unfold data. rewrite Hrest. unfold blen. rewrite Nat2Z.id. rewrite skipn_app, skipn_all, Nat.sub_diag. reflexivity. }
  assert (Hdl : blen data = Z.min B (blen rest)).
  { rewrite Hdata. unfold blen. rewrite firstn_length. lia. }
  assert (Hbl : blen (mbody orig) = blen (mbody cm) + blen rest) by (rewrite Hrest at 1; apply blen_app).
  eexists. eexists. split; [reflexivity|].
  cbn [set_body set_block mb2 mbody metag]. split; [reflexivity|].
  unfold reasm. cbn [set_body set_block mbody metag].
  assert (Hcm1 : (match metag orig, metag cm with
                  | Some a, Some c => if a =? c then cm else set_body (set_etag cm (Some a)) []
                  | _, _ => cm end) = cm).
  { unfold etag_agrees in Het. destruct (metag orig) as [a|]; [|reflexivity]. destruct (metag cm) as [c|]; [|reflexivity].
    subst c. rewrite Z.eqb_refl. reflexivity. }
  rewrite Hcm1. rewrite Z.eqb_refl. cbn [set_body mbody metag].
  split; [reflexivity|]. split.
  { exists (skipn (Z.to_nat B) rest). rewrite <- app_assoc, Hdata, firstn_skipn. exact Hrest. }
  split; [rewrite blen_app, Hdl; lia|]. split; [|reflexivity].
  rewrite negb_false_iff, Z.eqb_eq. split.
  - intros Hfin. rewrite Hrest. f_equal. rewrite Hdata.
    assert (blen rest <= B) by lia. apply firstn_all2. unfold blen in *. lia.
  - intros Heq. rewrite <- Heq, blen_app. reflexivity.
Qed.

(* the lock-step loop built from the two model functions *)
Fixpoint pump (fuel : nat) (orig : msg) (s m : Z) (cm : msg) : option (msg * Z) :=
  match fuel with
  | O => None
  | S f =>
    match create_sending orig s m {| bszx := s; bnum := blen (mbody cm) / size s; bmore := true |} with
    | None => None
    | Some (sm, more) =>
      let '(cm', appended) := reasm cm sm (blen (mbody cm) / size s * size s) in
      if negb appended then None
      else if more then match pump f orig s m cm' with Some (x, n) => Some (x, n + 1) | None => None end
      else Some (cm', 1)
    end
  end.

(* C04_progress_partial: with no faults a download of any body with any SZX (BERT:
   maximum message size >= 1024) completes with the exact body within
   (remaining bytes / buffer) + 1 round trips *)
Theorem download_progress : forall fuel orig s m cm j,
  is_upload (mcode orig) = false -> 0 <= s <= 7 -> 0 <= m -> 0 < buffer_size s m ->
  prefix (mbody cm) (mbody orig) -> 0 <= j -> blen (mbody cm) = j * buffer_size s m ->
  etag_agrees (metag orig) (metag cm) ->
  (blen (mbody orig) - blen (mbody cm)) / buffer_size s m + 1 <= Z.of_nat fuel ->
  exists cm' n, pump fuel orig s m cm = Some (cm', n) /\ mbody cm' = mbody orig /\
                1 <= n <= (blen (mbody orig) - blen (mbody cm)) / buffer_size s m + 1.
Proof.
  induction fuel as [|f IH]; intros orig s m cm j Hup Hs Hm HB Hpre Hj Hlen Het Hfuel.
  - exfalso. destruct Hpre as [rest Hrest].
    assert (0 <= (blen (mbody orig) - blen (mbody cm)) / buffer_size s m).
    { apply Z.div_pos; [|lia]. rewrite Hrest, blen_app. pose proof (blen_nonneg rest). lia. }
    cbn in Hfuel. lia.
  - destruct (download_round_trip orig s m cm j Hup Hs Hm HB Hpre Hj Hlen Het) as [sm [more [Hcs [_ Hstep]]]].
    cbn [pump]. rewrite Hcs.
    destruct (reasm cm sm (blen (mbody cm) / size s * size s)) as [cm' appended].
    destruct Hstep as [Happ [Hpre' [Hlen' [Hfin Het']]]]. subst appended. cbn [negb].
    set (B := buffer_size s m) in *.
    assert (Hle : blen (mbody cm) <= blen (mbody orig)).
    { destruct Hpre as [rest Hrest]. rewrite Hrest, blen_app. pose proof (blen_nonneg rest). lia. }
    destruct more.
    + assert (Hnot : mbody cm' <> mbody orig) by (intros H; apply Hfin in H; discriminate).
      assert (Hlt : (j + 1) * B < blen (mbody orig)).
      { destruct (Z_lt_le_dec ((j + 1) * B) (blen (mbody orig))) as [H|H]; [exact H|].
        exfalso. apply Hnot. destruct Hpre' as [rest' Hr']. rewrite Z.min_l in Hlen' by lia.
        assert (blen rest' = 0) by (rewrite Hr', blen_app in Hlen'; lia).
        destruct rest'; [rewrite app_nil_r in Hr'; auto|unfold blen in H0; cbn in H0; lia]. }
      rewrite Z.min_r in Hlen' by lia.
      assert (Het2 : etag_agrees (metag orig) (metag cm')) by (rewrite Het'; exact Het).
      assert (Hq : (blen (mbody orig) - blen (mbody cm)) / B = (blen (mbody orig) - blen (mbody cm')) / B + 1).
      { rewrite Hlen', Hlen. replace (blen (mbody orig) - j * B) with (blen (mbody orig) - (j + 1) * B + 1 * B) by ring.
        rewrite Z.div_add by lia. reflexivity. }
      assert (Hfuel' : (blen (mbody orig) - blen (mbody cm')) / B + 1 <= Z.of_nat f) by lia.
      destruct (IH orig s m cm' (j + 1) Hup Hs Hm HB Hpre' ltac:(lia) Hlen' Het2 Hfuel') as [x [n [Hp [Hx Hn]]]].
      rewrite Hp. exists x, (n + 1). split; [reflexivity|split; [exact Hx|]].
      fold B in Hn. rewrite Hq. set (q := (blen (mbody orig) - blen (mbody cm')) / B) in *. clearbody q. lia.
    + exists cm', 1. split; [reflexivity|]. split; [apply Hfin; reflexivity|].
      assert (0 <= (blen (mbody orig) - blen (mbody cm)) / B) by (apply Z.div_pos; lia). lia.
Qed.
