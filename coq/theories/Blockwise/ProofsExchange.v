(* C04, whole-run theorems about the closed two-party system of Blockwise/Model.v
   (endpoints A and B, the network with its in-flight list and history, and an
   event script of arbitrary length: start / deliver the j-th in-flight message /
   duplicate / drop / replay any message ever sent / resource change / time-out /
   expiry sweep).  Everything is proved for ALL scripts by induction over the
   script, from step lemmas about Handle. *)
From Coq Require Import ZArith List Bool Lia.
From GoCoap Require Import Base.Bytes Gen.BlockConsts Block.Model Blockwise.Config Blockwise.Model
  Blockwise.Spec Blockwise.Proofs Blockwise.Run.
Import ListNotations.
Open Scope Z_scope.
Ltac Zify.zify_post_hook ::= Z.div_mod_to_equations.

(* ------------------------------------------------------------------------ *)
(* 0. small facts                                                            *)

Lemma size_nonzero s : size s <> 0.
Proof.
  unfold size. destruct (zlookup szxToSize s) as [v|] eqn:E; [|lia].
  unfold szxToSize in E. cbn [zlookup] in E.
  repeat match type of E with (if ?c then _ else _) = _ => destruct c end; try discriminate; injection E as <-; lia.
Qed.

Lemma ep_eta e : e = {| sending := sending e; receiving := receiving e; eszx := eszx e; emax := emax e;
                        eoutside := eoutside e; efresh := efresh e; ehid := ehid e |}.
Proof. destruct e; reflexivity. Qed.

Lemma with_receiving_same e : with_receiving e (receiving e) = e.
Proof. destruct e; reflexivity. Qed.
Lemma with_sending_same e : with_sending e (sending e) = e.
Proof. destruct e; reflexivity. Qed.

Definition nonempty_at (t : tbl) (k : Z) : Prop := exists cm, tget t k = Some cm /\ mbody cm <> [].

(* the relevant block option says "first block" (or is absent) *)
Definition first_blk (o : option blk) : Prop := match o with None => True | Some b => bnum b = 0 end.

(* ------------------------------------------------------------------------ *)
(* 1. processReceivedMessage, one token at a time                            *)
(* The existing step theorem (Proofs.process_received_inv) uses one body       *)
(* function for the whole table.  Here the invariant is stated for the entry  *)
(* of the token being handled only, with everything else framed, so that      *)
(* concurrent exchanges (different resources, different directions) can be    *)
(* carried through a run.                                                     *)
Section Keyed.
  Variable bodyf : option Z -> list Z.
  Variable noetag : bool.
  Variable H : msg -> Prop.          (* header facts, independent of body / ETag / Block *)
  Variable Tg : option Z -> Prop.    (* the ETags that may occur *)
  Variable tk : Z.
  Hypothesis H_tok : forall m, H m -> mtok m = tk.
  Hypothesis H_body : forall m b, H m -> H (set_body m b).
  Hypothesis H_etag : forall m t, H m -> H (set_etag m t).
  Hypothesis H_block : forall up m, H m -> H (set_block up m None None).
  Variable app : Z -> msg -> option msg.

  Definition entry_ok (cm : msg) : Prop :=
    tag_ok noetag (metag cm) /\ prefix (mbody cm) (bodyf (metag cm)) /\ H cm /\ Tg (metag cm).

  (* the message that asks for the next block / acknowledges this one *)
  Definition next_shape (sent : option msg) (r : msg) (isb1 : bool) (b : blk) (sm : msg) : Prop :=
    mtok sm = tk /\ mbody sm = [] /\ mobs sm = None /\
    if isb1 then mcode sm = Continue /\ mb2 sm = None /\ metag sm = None /\
                 exists nb, mb1 sm = Some nb /\ bnum nb = bnum b /\ (0 <= bszx b -> 0 <= bszx nb)
    else exists sr, sent = Some sr /\ mcode sm = mcode sr /\ mother sm = mother sr /\
                    metag sm = metag sr /\ mb1 sm = None /\
                    exists nb, mb2 sm = Some nb /\ (0 <= bszx b -> 0 <= bszx nb <= 7 /\ 0 <= bnum nb) /\
                               (* repaired: only a GET / DELETE is ever repeated from block 0 *)
                               (bnum nb <> 0 \/ mcode sr = GET \/ mcode sr = DELETE).

  Lemma pr_keyed_s e r maxszx isb1 b sent :
    0 <= maxszx <= 7 -> (mcode r =? GET) || (mcode r =? DELETE) = false ->
    is_observe_response r = false -> blockopt isb1 r = Some b ->
    coherent bodyf noetag isb1 r -> H r -> Tg (metag r) ->
    (forall cm, tget (receiving e) tk = Some cm -> entry_ok cm) ->
    let '(e', o, d) := process_received_s app e r maxszx isb1 sent in
    e' = with_receiving e (receiving e') /\
    (forall k, k <> tk -> tget (receiving e') k = tget (receiving e) k) /\
    (forall cm, tget (receiving e') tk = Some cm -> entry_ok cm) /\
    (nonempty_at (receiving e') tk -> bnum b = 0 \/ nonempty_at (receiving e) tk) /\
    ((o = Fail /\ d = []) \/
     (exists x, d = [x] /\ o = Out (app tk x) /\ tget (receiving e') tk = None /\
                mbody x = bodyf (metag x) /\ H x /\ Tg (metag x) /\
                (x = r \/ blockopt isb1 x = None) /\
                (bnum b = 0 \/ nonempty_at (receiving e) tk)) \/
     (exists sm, d = [] /\ o = Out (Some sm) /\ next_shape sent r isb1 b sm)).
  Proof.
    intros Hmax Hgd Hobs Hb [Htag Hcoh] Hr Htg Hent.
    pose proof (H_tok r Hr) as Htok.
    unfold blockopt in Hb, Hcoh. unfold process_received_s. rewrite Hgd, Hb in *.
    destruct Hcoh as [Hs [Hn [Hsl Hfin]]].
    unfold observe_key. rewrite Hobs. rewrite Htok.
    destruct (if isb1 then false else match sent with None => true | Some _ => false end) eqn:Hsent.
    { split; [symmetry; apply with_receiving_same|]. split; [reflexivity|]. split; [exact Hent|].
      split; [intros Hne; right; exact Hne|left; split; reflexivity]. }
    cbn [negb].
    pose proof (size_pos (bszx b) Hs) as Hsz.
    assert (Hmin : 0 <= Z.min (bszx b) maxszx <= 7) by lia.
    pose proof (size_pos _ Hmin) as Hszm.
    (* common continuation *)
    assert (Hgen : forall cm szx0, (0 <= szx0 <= 7) ->
      entry_ok cm -> (tget (receiving e) tk = Some cm \/ (tget (receiving e) tk = None /\ mbody cm = [])) ->
      (bnum b * size szx0 = bnum b * size (bszx b) \/ (mbody cm = [] /\ (bnum b * size szx0 = 0 -> bnum b * size (bszx b) = 0))) ->
      let '(e', o, d) :=
        (let '(cm', appended) := reasm cm r (bnum b * size szx0) in
         let e2 := with_receiving e (tput (receiving e) tk cm') in
         if appended && negb (bmore b) then
           let full := set_block isb1 cm' None None in
           let e3 := with_receiving e2 (tdel (receiving e2) tk) in
           let e4 := if mtok cm' =? tk then e3 else with_sending e3 (tdel (sending e3) tk) in
           (e4, Out (app tk full), [full])
         else
           let szx := Z.min szx0 maxszx in
           let psize := blen (mbody cm') in
           if refuse_restart isb1 (psize / size szx) (sent)
           then (with_receiving e2 (tdel (receiving e2) tk), Fail, []) else
           let sm :=
             if isb1 then
               {| mcode := Continue; mtok := tk; mb1 := Some {| bszx := szx; bnum := bnum b; bmore := bmore b |};
                  mb2 := None; ms1 := None; ms2 := None; metag := None; mobs := None; mother := []; mbody := [] |}
             else match sent with
                  | Some sr =>
                    {| mcode := mcode sr; mtok := tk; mb1 := None;
                       mb2 := Some {| bszx := szx; bnum := psize / size szx; bmore := bmore b |};
                       ms1 := None; ms2 := ms2 sr; metag := metag sr; mobs := None; mother := mother sr; mbody := [] |}
                  | None => entity_incomplete tk
                  end in
           (e2, Out (Some sm), [])) in
      e' = with_receiving e (receiving e') /\
      (forall k, k <> tk -> tget (receiving e') k = tget (receiving e) k) /\
      (forall cm, tget (receiving e') tk = Some cm -> entry_ok cm) /\
      (nonempty_at (receiving e') tk -> bnum b = 0 \/ nonempty_at (receiving e) tk) /\
      ((o = Fail /\ d = []) \/
       (exists x, d = [x] /\ o = Out (app tk x) /\ tget (receiving e') tk = None /\
                  mbody x = bodyf (metag x) /\ H x /\ Tg (metag x) /\
                  (x = r \/ blockopt isb1 x = None) /\
                  (bnum b = 0 \/ nonempty_at (receiving e) tk)) \/
       (exists sm, d = [] /\ o = Out (Some sm) /\ next_shape sent r isb1 b sm))).
    { intros cm szx0 Hszx0 [Hcm [Hpre [Hcmh Hcmt]]] Hwhere Hoff.
      pose proof (reasm_ok bodyf noetag cm r (bnum b * size szx0) (bnum b * size (bszx b)) Hcm Hpre Htag Hsl Hoff) as Hre.
      (* whether the buffer was non-empty before, when a non-first block is appended *)
      assert (Hfirst : snd (reasm cm r (bnum b * size szx0)) = true -> bnum b = 0 \/ nonempty_at (receiving e) tk).
      { unfold reasm. cbn [snd]. intros Happ. apply Z.eqb_eq in Happ.
        destruct (Z.eq_dec (bnum b) 0) as [Hz|Hnz]; [left; exact Hz|right].
        assert (Hoffnz : bnum b * size szx0 <> 0) by (pose proof (size_nonzero szx0); nia).
        set (cm1 := match metag r, metag cm with
                    | Some a, Some c => if a =? c then cm else set_body (set_etag cm (Some a)) []
                    | _, _ => cm end) in *.
        assert (Hne1 : mbody cm1 <> []) by (intros Hnil; rewrite Hnil in Happ; cbn in Happ; lia).
        assert (Hcm1 : cm1 = cm).
        { unfold cm1 in *. destruct (metag r); [|reflexivity]. destruct (metag cm); [|reflexivity].
          destruct (z =? z0); [reflexivity|]. cbn [set_body mbody] in Hne1. contradiction Hne1; reflexivity. }
        rewrite Hcm1 in Hne1. destruct Hwhere as [Hw|[_ Hw]]; [exists cm; split; assumption|contradiction]. }
      destruct (reasm cm r (bnum b * size szx0)) as [cm' appended] eqn:Ere. cbn [snd] in Hfirst.
      destruct Hre as [Het [Htk' [Hp' Hfull]]].
      assert (Hcm'h : H cm').
      { unfold reasm in Ere. injection Ere as Ecm _. subst cm'.
        match goal with |- H (if ?c then _ else _) => destruct c end; [apply H_body|];
          (destruct (metag r); [|exact Hcmh]; destruct (metag cm); [|exact Hcmh];
           match goal with |- H (if ?c then _ else _) => destruct c end; [exact Hcmh|apply H_body, H_etag; exact Hcmh]). }
      assert (Hent' : entry_ok cm').
      { split; [rewrite Het; exact Htag|]. split; [exact Hp'|]. split; [exact Hcm'h|rewrite Het; exact Htg]. }
      assert (Htk2 : mtok cm' =? tk = true) by (apply Z.eqb_eq; apply H_tok; exact Hcm'h).
      destruct (appended && negb (bmore b)) eqn:Hfinal.
      - apply andb_true_iff in Hfinal. destruct Hfinal as [Ha Hm]. apply negb_true_iff in Hm.
        rewrite Htk2. cbn [receiving with_receiving].
        split; [destruct e; reflexivity|].
        split; [intros k Hk; rewrite tget_tdel_other by congruence; apply tget_tput_other; congruence|].
        split; [intros c0 Hc0; rewrite tget_tdel_same in Hc0; discriminate|].
        split; [intros [c0 [Hc0 _]]; rewrite tget_tdel_same in Hc0; discriminate|].
        right; left. eexists. split; [reflexivity|]. split; [reflexivity|].
        split; [apply tget_tdel_same|].
        destruct (set_block_fields isb1 cm') as [-> [-> _]].
        split; [apply Hfull; [exact Ha|apply Hfin; exact Hm]|].
        split; [apply H_block; exact Hcm'h|]. split; [rewrite Het; exact Htg|].
        split; [right; unfold blockopt; destruct isb1; reflexivity|].
        apply Hfirst. exact Ha.
      - cbv zeta.
        destruct (refuse_restart isb1 (blen (mbody cm') / size (Z.min szx0 maxszx)) (sent)) eqn:Hrefuse.
        { (* repaired: the restart at block 0 is refused, the entry is released *)
          cbn [receiving with_receiving].
          split; [destruct e; reflexivity|].
          split; [intros k Hk; rewrite tget_tdel_other by congruence; apply tget_tput_other; congruence|].
          split; [intros c0 Hc0; rewrite tget_tdel_same in Hc0; discriminate|].
          split; [intros [c0 [Hc0 _]]; rewrite tget_tdel_same in Hc0; discriminate|].
          left. split; reflexivity. }
        cbn [receiving with_receiving].
        split; [destruct e; reflexivity|].
        split; [intros k Hk; apply tget_tput_other; congruence|].
        split; [intros c0 Hc0; rewrite tget_tput_same in Hc0; injection Hc0 as <-; exact Hent'|].
        split.
        { intros [c0 [Hc0 Hne]]. rewrite tget_tput_same in Hc0. injection Hc0 as <-.
          destruct appended; [apply Hfirst; reflexivity|].
          (* not appended: the body is that of cm or empty *)
          right. unfold reasm in Ere. injection Ere as Ecm Eapp. rewrite Eapp in Ecm. subst cm'.
          destruct Hwhere as [Hw|[_ Hw]].
          - exists cm. split; [exact Hw|]. intros Hnil. apply Hne.
            destruct (metag r); [|exact Hnil]. destruct (metag cm); [|exact Hnil]. destruct (z =? z0); [exact Hnil|reflexivity].
          - exfalso. apply Hne. destruct (metag r); [|exact Hw]. destruct (metag cm); [|exact Hw]. destruct (z =? z0); [exact Hw|reflexivity]. }
        right; right. eexists. split; [reflexivity|]. split; [reflexivity|].
        unfold next_shape. destruct isb1.
        + cbn [mtok mbody mobs mcode mb2 metag mb1]. repeat split.
          eexists. split; [reflexivity|]. cbn [bnum bszx]. split; [reflexivity|]. lia.
        + destruct (sent) as [sr|] eqn:Hsr; [|discriminate Hsent].
          cbn [mtok mbody mobs mcode mb2 metag mb1 mother]. repeat split.
          exists sr. repeat split. eexists. split; [reflexivity|]. cbn [bnum bszx]. split.
          { intros _. assert (Hq : 0 <= Z.min szx0 maxszx <= 7) by lia.
            pose proof (size_pos _ Hq). split; [lia|]. apply Z.div_pos; [apply blen_nonneg|lia]. }
          unfold refuse_restart in Hrefuse. cbn [negb andb] in Hrefuse.
          destruct (blen (mbody cm') / size (Z.min szx0 maxszx) =? 0) eqn:Hz0;
            [|left; apply Z.eqb_neq; exact Hz0].
          cbn [andb] in Hrefuse. apply negb_false_iff, orb_true_iff in Hrefuse.
          right. destruct Hrefuse as [Hg|Hg]; apply Z.eqb_eq in Hg; [left|right]; exact Hg. }
    destruct (tget (receiving e) tk) as [c|] eqn:Hc.
    - specialize (Hent c eq_refl).
      destruct (bmore b); apply (Hgen c (bszx b) Hs Hent); try (left; reflexivity).
    - destruct (bmore b) eqn:Hm.
      + apply (Hgen (set_body r []) (Z.min (bszx b) maxszx) Hmin).
        * split; [exact Htag|]. split; [apply prefix_nil|]. split; [apply H_body; exact Hr|exact Htg].
        * right. split; reflexivity.
        * right. split; [reflexivity|]. intros H0. nia.
      + destruct (negb (bnum b =? 0)) eqn:Hz.
        * split; [symmetry; apply with_receiving_same|]. split; [reflexivity|].
          split; [intros cm Hcm; rewrite Hc in Hcm; discriminate|].
          split; [intros Hne; right; exact Hne|left; split; reflexivity].
        * apply negb_false_iff, Z.eqb_eq in Hz.
          split; [symmetry; apply with_receiving_same|]. split; [reflexivity|].
          split; [intros cm Hcm; rewrite Hc in Hcm; discriminate|].
          split; [intros _; left; exact Hz|].
          right; left. exists r. split; [reflexivity|]. split; [reflexivity|]. split; [exact Hc|].
          split.
          { specialize (Hfin eq_refl). rewrite Hz in *.
            destruct Hsl as [pre [post [Hbd Hl]]]. cbn in Hl.
            assert (pre = []) by (destruct pre; [reflexivity|unfold blen in Hl; cbn in Hl; lia]). subst pre.
            cbn [List.app] in Hbd. rewrite Hbd in Hfin. rewrite blen_app in Hfin.
            assert (post = []) by (destruct post; [reflexivity|unfold blen in Hfin; cbn in Hfin; lia]). subst post.
            rewrite app_nil_r in Hbd. auto. }
          split; [exact Hr|]. split; [exact Htg|]. split; [left; reflexivity|left; exact Hz].
  Qed.
End Keyed.

(* ------------------------------------------------------------------------ *)
(* 2. the two-party system: what is on the wire, what the endpoints hold      *)

(* configurations the theorems are about: SZX 0..7 on both sides (7 = BERT), exchanges
   started by A (Do = kind 0, one-way write = kind 1) with a request code, pairwise
   distinct application tokens, requests without a body for GET/DELETE, and no
   out-of-band registration (getSentRequestFromOutside) for an exchange token *)
Record cfg_wf (c : cfg) : Prop := {
  wf_szxA : 0 <= cszxA c <= 7;
  wf_szxB : 0 <= cszxB c <= 7;
  wf_maxA : 0 <= cmaxA c;
  wf_maxB : 0 <= cmaxB c;
  wf_exch : forall x, In x (cexch c) ->
            (xkind x = 0 \/ xkind x = 1) /\ GET <= xcode x <= DELETE /\ 0 <= xtok x < FRESH /\ 0 <= xlen x /\
            (is_upload (xcode x) = false -> xlen x = 0);
  wf_tok : forall x y, In x (cexch c) -> In y (cexch c) -> xtok x = xtok y -> x = y;
  wf_out : forall x, In x (cexch c) -> zassoc (coutside c) (xtok x) = None;
  wf_res : forall r, In r (cres c) -> 0 <= rlen r
}.

Section System.
  Variable c : cfg.
  Hypothesis Hwf : cfg_wf c.

  Definition the_res (x : exch) : option res := nth_error (cres c) (Z.to_nat (xpath x)).
  Definition req_body (x : exch) : list Z := gen_body (xsalt x) (Z.to_nat (xlen x)).

  (* header of everything that belongs to exchange x: towards B / towards A *)
  Definition req_hdr (x : exch) (m : msg) : Prop :=
    mtok m = xtok x /\ mcode m = xcode x /\ mother m = [(11, xpath x)] /\ mobs m = None.
  Definition resp_hdr (x : exch) (r : res) (m : msg) : Prop :=
    mtok m = xtok x /\ mcode m = resp_code (xcode x) /\ mother m = [(12, rcf r)] /\ mobs m = None /\ mb1 m = None.

  (* versions of a resource that may have been served so far: V = current version per path *)
  Definition okv (V : Z -> Z) (x : exch) (r : res) (v : Z) : Prop :=
    0 <= v <= V (xpath x) /\ (retag r = false -> v = 0).

  (* a message towards A that stems from B's application: the whole representation v
     of the resource of its exchange, or the part its Block2 option names *)
  Definition resp_of (V : Z -> Z) (m : msg) : Prop :=
    exists x r v, In x (cexch c) /\ the_res x = Some r /\ okv V x r v /\ resp_hdr x r m /\ metag m = res_etag r v /\
      match mb2 m with
      | None => mbody m = res_body r v
      | Some b => 0 <= bszx b <= 7 /\ 0 <= bnum b /\
                  slice_at (res_body r v) (bnum b * size (bszx b)) (mbody m) /\
                  (bmore b = false -> bnum b * size (bszx b) + blen (mbody m) = blen (res_body r v)) /\
                  16 <= blen (res_body r v)
      end.
  (* body-less control messages: 2.31 Continue, 4.08 Request Entity Incomplete *)
  Definition ctl (m : msg) : Prop :=
    mbody m = [] /\ mb2 m = None /\ mobs m = None /\
    ((mcode m = Continue /\ forall b, mb1 m = Some b -> 0 <= bszx b /\ 0 <= bnum b) \/
     (mcode m = Incomplete /\ mb1 m = None)).
  Definition okA (V : Z -> Z) (m : msg) : Prop := resp_of V m \/ ctl m.

  (* a message towards B that stems from A's application: the request, a Block1 part
     of it, or a body-less request for a block of the response *)
  Definition req_of (V : Z -> Z) (m : msg) : Prop :=
    exists x, In x (cexch c) /\ req_hdr x m /\ metag m = None /\
      (forall b2, mb2 m = Some b2 -> 0 <= bszx b2 /\ 0 <= bnum b2) /\
      match mb1 m with
      | Some b => is_upload (xcode x) = true /\ 0 <= bszx b <= 7 /\ 0 <= bnum b /\
                  slice_at (req_body x) (bnum b * size (bszx b)) (mbody m) /\
                  (bmore b = false -> bnum b * size (bszx b) + blen (mbody m) = blen (req_body x))
      | None => mbody m = req_body x \/ (mbody m = [] /\ exists b2, mb2 m = Some b2 /\ bnum b2 <> 0)
      end.
  Definition okB (V : Z -> Z) (m : msg) : Prop := req_of V m \/ (ctl m /\ mcode m = Incomplete).

  (* what may be handed to the two applications.  B: the exact request body (repaired: the
     body-less request that restarted a block-wise response to a POST/PUT at block 0 is no longer
     sent); A: the exact representation *)
  Definition delivB_ok (V : Z -> Z) (d : msg) : Prop :=
    (exists x, In x (cexch c) /\ req_hdr x d /\ mbody d = req_body x) \/
    (mbody d = [] /\ mcode d = Incomplete).
  Definition delivA_ok (V : Z -> Z) (d : msg) : Prop :=
    (exists x r v, In x (cexch c) /\ the_res x = Some r /\ okv V x r v /\ resp_hdr x r d /\
                   metag d = res_etag r v /\ mbody d = res_body r v) \/
    (mbody d = [] /\ (mcode d = Continue \/ mcode d = Incomplete)).

  (* reassembly on A's side: the representation an ETag stands for *)
  Definition bodyfA (r : res) (t : option Z) : list Z :=
    match t with Some e => res_body r (e - 1) | None => res_body r 0 end.
  Definition TgA (V : Z -> Z) (x : exch) (r : res) (t : option Z) : Prop := exists v, okv V x r v /\ t = res_etag r v.

  Lemma bodyfA_etag V x r v : okv V x r v -> bodyfA r (res_etag r v) = res_body r v.
  Proof.
    intros [_ Hv]. unfold bodyfA, res_etag. destruct (retag r); [f_equal; lia|]. rewrite Hv; reflexivity.
  Qed.
  Lemma tag_okA r v : tag_ok (negb (retag r)) (res_etag r v).
  Proof. unfold tag_ok, res_etag. destruct (retag r); cbn; split; intros; congruence. Qed.

  (* endpoint invariants *)
  Definition sendB (V : Z -> Z) (t : tbl) : Prop :=
    forall k wm, tget t k = Some wm -> mtok wm = k /\ mb2 wm = None /\ resp_of V wm /\ 16 <= blen (mbody wm).
  Definition recvB (t : tbl) : Prop :=
    forall k cm, tget t k = Some cm -> exists x, In x (cexch c) /\ xtok x = k /\ is_upload (xcode x) = true /\
      entry_ok (fun _ => req_body x) true (req_hdr x) (fun t => t = None) cm.
  Definition invB (V : Z -> Z) (e : ep) : Prop :=
    eszx e = cszxB c /\ emax e = cmaxB c /\ sendB V (sending e) /\ recvB (receiving e).

  Definition sendA (t : tbl) : Prop :=
    forall k m, tget t k = Some m -> exists x, In x (cexch c) /\ xtok x = k /\ m = request_of x.
  Definition recvA (V : Z -> Z) (t : tbl) : Prop :=
    forall k cm, tget t k = Some cm -> exists x r, In x (cexch c) /\ xtok x = k /\ the_res x = Some r /\
      entry_ok (bodyfA r) (negb (retag r)) (resp_hdr x r) (TgA V x r) cm.
  Definition invA (V : Z -> Z) (e : ep) : Prop :=
    eszx e = cszxA c /\ emax e = cmaxA c /\ eoutside e = coutside c /\ sendA (sending e) /\ recvA V (receiving e).

  (* header predicates are independent of body, ETag and Block options *)
  Lemma req_hdr_body x m b : req_hdr x m -> req_hdr x (set_body m b). Proof. auto. Qed.
  Lemma req_hdr_etag x m t : req_hdr x m -> req_hdr x (set_etag m t). Proof. auto. Qed.
  Lemma req_hdr_block x up m : req_hdr x m -> req_hdr x (set_block up m None None). Proof. auto. Qed.
  Lemma resp_hdr_body x r m b : resp_hdr x r m -> resp_hdr x r (set_body m b). Proof. auto. Qed.
  Lemma resp_hdr_etag x r m t : resp_hdr x r m -> resp_hdr x r (set_etag m t). Proof. auto. Qed.
  Lemma resp_hdr_block x r up m : resp_hdr x r m -> resp_hdr x r (set_block up m None None).
  Proof. intros (H1 & H2 & H3 & H4 & H5). repeat (split; [assumption|]). cbn [set_block mb1]. destruct up; [reflexivity|exact H5]. Qed.

  Lemma same_tok x y : In x (cexch c) -> In y (cexch c) -> xtok x = xtok y -> x = y.
  Proof. apply (wf_tok c Hwf). Qed.

  Lemma resp_code_cases z : resp_code z = Content \/ resp_code z = Changed \/ resp_code z = Created \/ resp_code z = Deleted.
  Proof. unfold resp_code. destruct (z =? GET); [auto|]. destruct (z =? POST); [auto|]. destruct (z =? PUT); auto. Qed.

  Ltac rc_cases z := destruct (resp_code_cases z) as [Hrc|[Hrc|[Hrc|Hrc]]]; rewrite Hrc.

  (* monotonicity in the version bound *)
  Definition Vle (V V' : Z -> Z) : Prop := forall k, V k <= V' k.
  Lemma okv_mono V V' x r v : Vle V V' -> okv V x r v -> okv V' x r v.
  Proof. intros HV [[H0 H1] H2]. specialize (HV (xpath x)). split; [lia|exact H2]. Qed.
  Lemma resp_of_mono V V' m : Vle V V' -> resp_of V m -> resp_of V' m.
  Proof.
    intros HV [x [r [v [Hx [Hr [Hv Hrest]]]]]]. exists x, r, v. split; [exact Hx|]. split; [exact Hr|].
    split; [eapply okv_mono; eassumption|exact Hrest].
  Qed.
  Lemma req_of_mono V V' m : Vle V V' -> req_of V m -> req_of V' m.
  Proof.
    intros HV [x [Hx [Hh [He [Hb2 Hb1]]]]]. exists x. split; [exact Hx|]. split; [exact Hh|]. split; [exact He|]. split; [exact Hb2|].
    exact Hb1.
  Qed.
  Lemma okB_mono V V' m : Vle V V' -> okB V m -> okB V' m.
  Proof. intros HV [Hm|Hm]; [left; eapply req_of_mono; eassumption|right; exact Hm]. Qed.
  Lemma delivB_mono V V' d : Vle V V' -> delivB_ok V d -> delivB_ok V' d.
  Proof.
    intros HV [[x [Hx [Hh Hb]]]|Hd]; [left|right; exact Hd]. exists x. split; [exact Hx|]. split; [exact Hh|]. exact Hb.
  Qed.
  Lemma okA_mono V V' m : Vle V V' -> okA V m -> okA V' m.
  Proof. intros HV [Hm|Hm]; [left; eapply resp_of_mono; eassumption|right; exact Hm]. Qed.
  Lemma delivA_mono V V' d : Vle V V' -> delivA_ok V d -> delivA_ok V' d.
  Proof.
    intros HV [[x [r [v [Hx [Hr [Hv Hrest]]]]]]|Hd]; [left|right; exact Hd].
    exists x, r, v. split; [exact Hx|]. split; [exact Hr|]. split; [eapply okv_mono; eassumption|exact Hrest].
  Qed.
  Lemma invB_mono V V' e : Vle V V' -> invB V e -> invB V' e.
  Proof.
    intros HV [H1 [H2 [H3 H4]]]. split; [exact H1|]. split; [exact H2|]. split; [|exact H4].
    intros k wm Hg. destruct (H3 k wm Hg) as [Ha [Hb [Hc Hd]]]. split; [exact Ha|]. split; [exact Hb|].
    split; [eapply resp_of_mono; eassumption|exact Hd].
  Qed.
  Lemma invA_mono V V' e : Vle V V' -> invA V e -> invA V' e.
  Proof.
    intros HV [H1 [H2 [H3 [H4 H5]]]]. split; [exact H1|]. split; [exact H2|]. split; [exact H3|]. split; [exact H4|].
    intros k cm Hg. destruct (H5 k cm Hg) as [x [r [Hx [Hk [Hr [Ha [Hb [Hc [v [Hv Hd]]]]]]]]]].
    exists x, r. split; [exact Hx|]. split; [exact Hk|]. split; [exact Hr|].
    split; [exact Ha|]. split; [exact Hb|]. split; [exact Hc|]. exists v. split; [eapply okv_mono; eassumption|exact Hd].
  Qed.

  (* ---------------------------------------------------------------------- *)
  (* 3. B's side: one Handle step                                            *)
  Definition vers_ok (vs : list (Z * Z)) : Prop :=
    forall k, 0 <= ver vs k /\ (forall r, nth_error (cres c) (Z.to_nat k) = Some r -> retag r = false -> ver vs k = 0).

  Lemma app_b_ok vs V x d wm :
    vers_ok vs -> Vle (ver vs) V -> In x (cexch c) -> req_hdr x d -> app_b c vs (xtok x) d = Some wm ->
    mtok wm = xtok x /\ mb2 wm = None /\ resp_of V wm.
  Proof.
    intros Hvs HV Hx [Ht [Hc [Ho Hb]]] Happ. unfold app_b in Happ. rewrite Hc, Ho in Happ.
    destruct ((GET <=? xcode x) && (xcode x <=? DELETE)); [|discriminate].
    cbn [zassoc] in Happ. rewrite Z.eqb_refl in Happ.
    destruct (nth_error (cres c) (Z.to_nat (xpath x))) as [r|] eqn:Hr; [|discriminate].
    injection Happ as <-. cbn [mtok mb2]. split; [reflexivity|]. split; [reflexivity|].
    exists x, r, (ver vs (xpath x)). split; [exact Hx|]. split; [exact Hr|].
    destruct (Hvs (xpath x)) as [Hv0 Hv1].
    split; [split; [specialize (HV (xpath x)); lia|intros Hre; exact (Hv1 r Hr Hre)]|].
    split; [repeat split|]. split; reflexivity.
  Qed.

  Lemma app_b_incomplete vs t d : mcode d = Incomplete -> app_b c vs t d = None.
  Proof. intros Hc. unfold app_b. rewrite Hc. reflexivity. Qed.

  Lemma resp_not_upload z : is_upload (resp_code z) = false.
  Proof. rc_cases z; reflexivity. Qed.
  Lemma resp_not_observe V m : resp_of V m -> is_observe_response m = false.
  Proof. intros [x [r [v [_ [_ [_ [[_ [_ [_ [Ho _]]]] _]]]]]]]. unfold is_observe_response. rewrite Ho. reflexivity. Qed.

  (* a block of a response produced by createSendingMessage is a response block *)
  Lemma create_sending_resp V wm mx mm b sm more :
    resp_of V wm -> mb2 wm = None -> 16 <= blen (mbody wm) -> 0 <= mx <= 7 -> 0 <= bszx b -> 0 <= bnum b -> 0 <= mm ->
    create_sending wm mx mm b = Some (sm, more) -> resp_of V sm /\ mtok sm = mtok wm.
  Proof.
    intros [x [r [v [Hx [Hr [Hv [[Ht [Hc [Ho [Hb Hwb1]]]] [He Hbody]]]]]]]] Hb2 Hbig Hmx Hs Hn Hmm Hcs.
    rewrite Hb2 in Hbody.
    pose proof (serve_coherent wm mx mm b sm more Hmx Hs Hn Hmm Hcs) as Hsc. cbv zeta in Hsc.
    rewrite Hc, resp_not_upload in Hsc.
    destruct Hsc as (nb & Hnb & _ & _ & Hnbs & Hnbn & _ & Hsl & _ & _ & Hm1 & Hm2 & _ & Hc' & Ht' & He' & Ho' & Hot' & Hsb1 & _).
    split; [|exact Ht'].
    exists x, r, v. split; [exact Hx|]. split; [exact Hr|]. split; [exact Hv|].
    split; [unfold resp_hdr; rewrite Ht', Hc', Ho', Hot', Hsb1; repeat split; assumption|].
    split; [rewrite He'; exact He|].
    rewrite Hnb. rewrite <- Hbody. split; [exact Hnbs|]. split; [exact Hnbn|]. split; [exact Hsl|]. split; [|exact Hbig].
    intros Hmf. rewrite Hm1 in Hmf.
    destruct (Z_lt_le_dec (bnum nb * size (bszx nb) + blen (mbody sm)) (blen (mbody wm))) as [Hlt|Hge].
    - apply Hm2 in Hlt. congruence.
    - destruct Hsl as [pre [post [Hbd Hl]]]. rewrite Hbd, !blen_app in *. pose proof (blen_nonneg post). lia.
  Qed.

  Lemma sendB_tput V t k wm : sendB V t -> mtok wm = k -> mb2 wm = None -> resp_of V wm -> 16 <= blen (mbody wm) -> sendB V (tput t k wm).
  Proof.
    intros Ht H1 H2 H3 H4 k' m Hg. destruct (Z.eq_dec k k') as [->|Hne].
    - rewrite tget_tput_same in Hg. injection Hg as <-. auto.
    - rewrite tget_tput_other in Hg by exact Hne. exact (Ht _ _ Hg).
  Qed.
  Lemma sendB_tdel V t k : sendB V t -> sendB V (tdel t k).
  Proof. intros Ht k' m Hg. apply tget_tdel_some in Hg. exact (Ht _ _ Hg). Qed.

  (* startSendingMessage at B with the application's answer *)
  Lemma start_sending_B V e w mx b :
    invB V e -> (forall wm, w = Some wm -> (mb2 wm = None /\ resp_of V wm) \/ ctl wm) ->
    0 <= mx <= 7 -> 0 <= bszx b -> 0 <= bnum b ->
    let '(e', o) := start_sending e w mx (emax e) b in
    invB V e' /\ receiving e' = receiving e /\ (forall sm, o = Out (Some sm) -> okA V sm).
  Proof.
    intros [He1 [He2 [Hs Hr]]] Hw Hmx Hbs Hbn. unfold start_sending.
    destruct w as [wm|]; [|split; [exact (conj He1 (conj He2 (conj Hs Hr)))|split; [reflexivity|discriminate]]].
    pose proof (size_pos mx Hmx) as Hsz.
    destruct (blen (mbody wm) <? size mx) eqn:Hlt.
    { split; [exact (conj He1 (conj He2 (conj Hs Hr)))|]. split; [reflexivity|]. intros sm Hsm. injection Hsm as <-.
      destruct (Hw wm eq_refl) as [[Hb2 Hres]|Hc]; [left; exact Hres|right; exact Hc]. }
    destruct (Hw wm eq_refl) as [[Hb2 Hres]|Hc].
    2: { destruct Hc as [Hnil _]. rewrite Hnil in Hlt. apply Z.ltb_ge in Hlt. cbn in Hlt. lia. }
    destruct (create_sending wm mx (emax e) b) as [[sm more]|] eqn:Hcs;
      [|split; [exact (conj He1 (conj He2 (conj Hs Hr)))|split; [reflexivity|discriminate]]].
    assert (Hmm : 0 <= emax e) by (rewrite He2; apply (wf_maxB c Hwf)).
    assert (Hbig : 16 <= blen (mbody wm)) by (apply Z.ltb_ge in Hlt; lia).
    destruct (create_sending_resp V wm mx (emax e) b sm more Hres Hb2 Hbig Hmx Hbs Hbn Hmm Hcs) as [Hsm Htk].
    destruct (is_observe_response sm).
    { split; [exact (conj He1 (conj He2 (conj Hs Hr)))|]. split; [reflexivity|]. intros sm' E. injection E as <-. left; exact Hsm. }
    destruct (tget (sending e) (mtok sm)); [split; [exact (conj He1 (conj He2 (conj Hs Hr)))|split; [reflexivity|discriminate]]|].
    cbn [sending receiving with_sending eszx emax].
    split; [|split; [reflexivity|intros sm' E; injection E as <-; left; exact Hsm]].
    split; [exact He1|]. split; [exact He2|]. split; [|exact Hr].
    apply sendB_tput; auto.
  Qed.

  Lemma pr_noblock_s app e r mx isb1 sent :
    blockopt isb1 r = None -> (mcode r =? GET) || (mcode r =? DELETE) = false ->
    process_received_s app e r mx isb1 sent =
    if isb1 && match mb2 r with Some b2 => negb (bnum b2 =? 0) | None => false end then (e, Fail, [])
    else (e, Out (app (mtok r) r), [r]).
  Proof. intros Hb Hgd. unfold process_received_s. unfold blockopt in Hb. rewrite Hgd, Hb. reflexivity. Qed.
  Lemma pr_noblock app e r mx isb1 :
    blockopt isb1 r = None -> (mcode r =? GET) || (mcode r =? DELETE) = false ->
    process_received app e r mx isb1 =
    if isb1 && match mb2 r with Some b2 => negb (bnum b2 =? 0) | None => false end then (e, Fail, [])
    else (e, Out (app (mtok r) r), [r]).
  Proof. intros Hb Hgd. unfold process_received. apply pr_noblock_s; assumption. Qed.
  Lemma code_cases x : In x (cexch c) -> xcode x = GET \/ xcode x = POST \/ xcode x = PUT \/ xcode x = DELETE.
  Proof. intros Hx. destruct (wf_exch c Hwf x Hx) as [_ [Hc _]]. unfold GET, POST, PUT, DELETE in *. lia. Qed.

  Lemma recvB_update e recv' x :
    In x (cexch c) -> is_upload (xcode x) = true -> recvB (receiving e) ->
    (forall k, k <> xtok x -> tget recv' k = tget (receiving e) k) ->
    (forall cm, tget recv' (xtok x) = Some cm -> entry_ok (fun _ => req_body x) true (req_hdr x) (fun t => t = None) cm) ->
    recvB recv'.
  Proof.
    intros Hx Hup Hr Hother Hkey k cm Hg. destruct (Z.eq_dec k (xtok x)) as [->|Hne].
    - exists x. split; [exact Hx|]. split; [reflexivity|]. split; [exact Hup|]. apply Hkey. exact Hg.
    - rewrite Hother in Hg by exact Hne. exact (Hr _ _ Hg).
  Qed.

  Lemma handle_received_B_s vs V e m sent :
    vers_ok vs -> Vle (ver vs) V -> invB V e -> okB V m ->
    let '(e', o, d) := handle_received_s (app_b c vs) e m sent in
    invB V e' /\ (forall sm, o = Out (Some sm) -> okA V sm) /\ (forall x, In x d -> delivB_ok V x).
  Proof.
    intros Hvs HV Hinv Hm. pose proof Hinv as [He1 [He2 [Hs Hr]]].
    assert (Hszx : 0 <= eszx e <= 7) by (rewrite He1; apply (wf_szxB c Hwf)).
    destruct Hm as [[x [Hx [Hh [Het [Hb2 Hb1]]]]]|[[Hnil [Hmb2 [Hmobs Hcode]]] Hinc]].
    2: { (* 4.08 from A: handed to the application, which ignores it *)
      unfold handle_received_s. rewrite Hinc.
      replace ((Incomplete =? 0) || ((225 <=? Incomplete) && (Incomplete <=? 229))) with false by reflexivity.
      replace ((Incomplete =? GET) || (Incomplete =? DELETE)) with false by reflexivity.
      replace (is_upload Incomplete) with false by reflexivity.
      rewrite pr_noblock_s by (unfold blockopt; try rewrite Hinc; try exact Hmb2; reflexivity).
      cbn [andb]. rewrite app_b_incomplete by exact Hinc. cbn [start_sending].
      split; [exact Hinv|]. split; [discriminate|]. intros y [<-|[]]. right. split; assumption. }
    pose proof Hh as [Ht [Hc [Ho Hob]]].
    destruct (wf_exch c Hwf x Hx) as [_ [_ [_ [_ Hlen0]]]].
    assert (Hstart : 0 <= bszx {| bszx := eszx e; bnum := 0; bmore := true |} /\ 0 <= bnum {| bszx := eszx e; bnum := 0; bmore := true |})
      by (cbn [bszx bnum]; lia).
    (* the application's answer to a delivered request of exchange x *)
    assert (Hans : forall d, req_hdr x d -> forall wm, app_b c vs (mtok m) d = Some wm -> (mb2 wm = None /\ resp_of V wm) \/ ctl wm).
    { intros d Hd wm Hw. rewrite Ht in Hw. destruct (app_b_ok vs V x d wm Hvs HV Hx Hd Hw) as [_ [H2 H3]]. left; split; assumption. }
    assert (Hsig : (xcode x =? 0) || ((225 <=? xcode x) && (xcode x <=? 229)) = false)
      by (destruct (code_cases x Hx) as [Hcx|[Hcx|[Hcx|Hcx]]]; rewrite Hcx; reflexivity).
    assert (Hupgd : is_upload (xcode x) = negb ((xcode x =? GET) || (xcode x =? DELETE)))
      by (destruct (code_cases x Hx) as [Hcx|[Hcx|[Hcx|Hcx]]]; rewrite Hcx; reflexivity).
    unfold handle_received_s. rewrite Hc, Hsig.
    destruct ((xcode x =? GET) || (xcode x =? DELETE)) eqn:Hgd; cbn [negb] in Hupgd.
    - (* GET / DELETE: the application sees the request itself *)
      assert (Hfit : 0 <= fit (mb2 m) (eszx e) <= 7) by (apply fit_range; [exact Hszx|intros b Hb; apply (Hb2 b Hb)]).
      match goal with |- context [start_sending e ?w ?mx (emax e) ?b] =>
        pose proof (start_sending_B V e w mx b Hinv (Hans m Hh)  Hfit) as Hss; destruct (start_sending e w mx (emax e) b) as [e' o] end.
      destruct Hss as [Hi [_ Ho']].
      { destruct (app_b c vs (mtok m) m) as [wm|]; [|apply Hstart]. destruct (mb2 m) as [b|] eqn:Eb; [|apply Hstart].
        destruct (mcode wm =? Content); [apply (Hb2 b eq_refl)|apply Hstart]. }
      { destruct (app_b c vs (mtok m) m) as [wm|]; [|apply Hstart]. destruct (mb2 m) as [b|] eqn:Eb; [|apply Hstart].
        destruct (mcode wm =? Content); [apply (Hb2 b eq_refl)|apply Hstart]. }
      split; [exact Hi|]. split; [exact Ho'|]. intros y [<-|[]]. left. exists x. split; [exact Hx|]. split; [exact Hh|].
      specialize (Hlen0 Hupgd).
      destruct (mb1 m); [destruct Hb1 as [Hup _]; congruence|]. destruct Hb1 as [Hb|[Hb _]]; [exact Hb|].
      rewrite Hb. unfold req_body. rewrite Hlen0. reflexivity.
    - (* POST / PUT *)
      rewrite Hupgd. cbv iota.
      assert (Hgd' : (mcode m =? GET) || (mcode m =? DELETE) = false) by (rewrite Hc; exact Hgd).
      assert (Hfit : 0 <= fit (mb1 m) (eszx e) <= 7).
      { apply fit_range; [exact Hszx|]. intros b Hb. rewrite Hb in Hb1. lia. }
      pose proof (size_pos _ Hfit) as Hfsz.
      destruct (mb1 m) as [b|] eqn:Eb1.
      + destruct Hb1 as [_ [Hbs [Hbn [Hsl Hfin]]]].
        assert (Hobs : is_observe_response m = false) by (unfold is_observe_response; rewrite Hob; reflexivity).
        assert (Hcoh : coherent (fun _ => req_body x) true true m).
        { split; [rewrite Het; split; reflexivity|]. unfold blockopt. rewrite Eb1. repeat split; assumption || lia. }
        assert (Hent : forall cm, tget (receiving e) (xtok x) = Some cm ->
                       entry_ok (fun _ => req_body x) true (req_hdr x) (fun t => t = None) cm).
        { intros cm Hg. destruct (Hr _ _ Hg) as [x' [Hx' [Hk' [_ Hent]]]].
          rewrite (same_tok x' x Hx' Hx Hk') in Hent. exact Hent. }
        pose proof (pr_keyed_s (fun _ => req_body x) true (req_hdr x) (fun t => t = None) (xtok x)
                      (fun m0 Hm0 => proj1 Hm0) (req_hdr_body x) (req_hdr_etag x) (req_hdr_block x) (app_b c vs)
                      e m (fit (Some b) (eszx e)) true b sent Hfit Hgd' Hobs Eb1 Hcoh Hh Het Hent) as Hpr.
        destruct (process_received_s (app_b c vs) e m (fit (Some b) (eszx e)) true sent) as [[e1 o] d].
        destruct Hpr as (Hfr & Hoth & Hkey & _ & Hcases).
        assert (Hinv1 : invB V e1).
        { rewrite Hfr. split; [exact He1|]. split; [exact He2|]. split; [exact Hs|]. cbn [receiving with_receiving].
          apply (recvB_update e (receiving e1) x Hx Hupgd Hr Hoth Hkey). }
        assert (Hemax : emax e = emax e1) by (rewrite Hfr; reflexivity).
        destruct Hcases as [[-> ->]|[(y & -> & -> & _ & Hby & Hhy & _ & _ & _)|(sm & -> & -> & Hsm)]].
        * split; [exact Hinv1|]. split; [discriminate|intros y []].
        * rewrite Hemax.
          match goal with |- context [start_sending e1 ?w ?mx (emax e1) ?b] =>
            pose proof (start_sending_B V e1 w mx b Hinv1) as Hss; destruct (start_sending e1 w mx (emax e1) b) as [e' o'] end.
          destruct Hss as [Hi [_ Ho']]; [rewrite <- Ht; apply (Hans y Hhy)|exact Hfit|apply Hstart|apply Hstart|].
          split; [exact Hi|]. split; [exact Ho'|]. intros z [<-|[]]. left. exists x. split; [exact Hx|]. split; [exact Hhy|]. exact Hby.
        * rewrite Hemax.
          match goal with |- context [start_sending e1 ?w ?mx (emax e1) ?b] =>
            pose proof (start_sending_B V e1 w mx b Hinv1) as Hss; destruct (start_sending e1 w mx (emax e1) b) as [e' o'] end.
          destruct Hss as [Hi [_ Ho']]; [|exact Hfit|apply Hstart|apply Hstart|split; [exact Hi|split; [exact Ho'|intros z []]]].
          intros wm E. injection E as <-. right.
          destruct Hsm as (_ & Hsb & Hso & Hsc & Hs2 & _ & nb & Hnb & Hnn & Hns).
          split; [exact Hsb|]. split; [exact Hs2|]. split; [exact Hso|]. left. split; [exact Hsc|].
          intros b' Hb'. rewrite Hnb in Hb'. injection Hb' as <-. split; [apply Hns; lia|lia].
      + rewrite pr_noblock_s by (unfold blockopt; assumption).
        cbn [andb].
        destruct (match mb2 m with Some b2 => negb (bnum b2 =? 0) | None => false end) eqn:Hnz.
        * split; [exact Hinv|]. split; [discriminate|intros y []].
        * match goal with |- context [start_sending e ?w ?mx (emax e) ?b] =>
            pose proof (start_sending_B V e w mx b Hinv (Hans m Hh) Hfit) as Hss; destruct (start_sending e w mx (emax e) b) as [e' o] end.
          destruct Hss as [Hi [_ Ho']]; [apply Hstart|apply Hstart|].
          split; [exact Hi|]. split; [exact Ho'|]. intros y [<-|[]]. left. exists x. split; [exact Hx|]. split; [exact Hh|].
          destruct Hb1 as [Hb|[Hb [b2 [Hb2' Hb2nz]]]]; [exact Hb|exfalso].
          rewrite Hb2' in Hnz. apply negb_false_iff, Z.eqb_eq in Hnz. contradiction.
  Qed.

  Lemma handle_received_B vs V e m :
    vers_ok vs -> Vle (ver vs) V -> invB V e -> okB V m ->
    let '(e', o, d) := handle_received (app_b c vs) e m in
    invB V e' /\ (forall sm, o = Out (Some sm) -> okA V sm) /\ (forall x, In x d -> delivB_ok V x).
  Proof. intros. unfold handle_received. apply handle_received_B_s; assumption. Qed.
  Lemma ctl_incomplete t : ctl (entity_incomplete t).
  Proof. unfold ctl, entity_incomplete; cbn. repeat split. right. split; reflexivity. Qed.

  (* Handle at B, any state that satisfies the invariant, any message A may have sent *)
  Lemma handleB_step vs V e m :
    vers_ok vs -> Vle (ver vs) V -> invB V e -> okB V m ->
    let '(e', o, d, _) := handle (app_b c vs) e m in
    invB V e' /\ (forall x, o = Some x -> okA V x) /\ (forall x, In x d -> delivB_ok V x).
  Proof.
    intros Hvs HV Hinv Hm. unfold handle.
    pose proof (handle_received_B vs V e m Hvs HV Hinv Hm) as Hhr.
    destruct (handle_received (app_b c vs) e m) as [[e1 o] d]. destruct Hhr as [Hi1 [Ho1 Hd1]].
    assert (Hrecv : let '(e', o0, d0, _) := (match o with Out w => (e1, w, d, 0) | Fail => (e1, Some (entity_incomplete (mtok m)), d, 1) end) in
                    invB V e' /\ (forall x, o0 = Some x -> okA V x) /\ (forall x, In x d0 -> delivB_ok V x)).
    { destruct o as [w|].
      - split; [exact Hi1|]. split; [|exact Hd1]. intros x Hx. apply Ho1. rewrite Hx. reflexivity.
      - split; [exact Hi1|]. split; [|exact Hd1]. intros x Hx. injection Hx as <-. right. apply ctl_incomplete. }
    destruct (tget (sending e) (mtok m)) as [orig|] eqn:Hs; [|exact Hrecv].
    destruct (wants_to_be_received m); [exact Hrecv|].
    clear Hrecv. pose proof Hinv as [He1 [He2 [Hsd Hr]]].
    destruct (Hsd _ _ Hs) as [Hot [Hob2 [Hores Hobig]]].
    assert (Hdel : invB V (with_sending e (tdel (sending e) (mtok m)))).
    { split; [exact He1|]. split; [exact He2|]. split; [apply sendB_tdel; exact Hsd|exact Hr]. }
    unfold continue_sending.
    assert (Hup : is_upload (mcode orig) = false).
    { destruct Hores as [x [r [v [_ [_ [_ [[_ [Hc _]] _]]]]]]]. rewrite Hc. apply resp_not_upload. }
    rewrite Hup.
    destruct (mb2 m) as [b|] eqn:Hb; [|split; [exact Hdel|split; [discriminate|intros x []]]].
    assert (Hbb : 0 <= bszx b /\ 0 <= bnum b).
    { destruct Hm as [[x [_ [_ [_ [Hb2 _]]]]]|[[_ [Hn _]] _]]; [apply Hb2; exact Hb|congruence]. }
    destruct (create_sending orig (eszx e) (emax e) b) as [[sm more]|] eqn:Hcs;
      [|split; [exact Hdel|split; [discriminate|intros x []]]].
    assert (Hszx : 0 <= eszx e <= 7) by (rewrite He1; apply (wf_szxB c Hwf)).
    assert (Hmm : 0 <= emax e) by (rewrite He2; apply (wf_maxB c Hwf)).
    destruct (create_sending_resp V orig (eszx e) (emax e) b sm more Hores Hob2 Hobig Hszx (proj1 Hbb) (proj2 Hbb) Hmm Hcs) as [Hsm _].
    split; [destruct (negb more && (DELETE <? mcode orig)); [exact Hdel|exact Hinv]|].
    split; [intros x E; injection E as <-; left; exact Hsm|intros x []].
  Qed.

  (* ---------------------------------------------------------------------- *)
  (* 4. A's side: one Handle step                                            *)
  Lemma sendA_tdel t k : sendA t -> sendA (tdel t k).
  Proof. intros Ht k' m Hg. apply tget_tdel_some in Hg. exact (Ht _ _ Hg). Qed.
  Lemma sendA_tput t x : sendA t -> In x (cexch c) -> sendA (tput t (xtok x) (request_of x)).
  Proof.
    intros Ht Hx k' m Hg. destruct (Z.eq_dec (xtok x) k') as [<-|Hne].
    - rewrite tget_tput_same in Hg. injection Hg as <-. exists x. auto.
    - rewrite tget_tput_other in Hg by exact Hne. exact (Ht _ _ Hg).
  Qed.

  Lemma request_hdr x : req_hdr x (request_of x).
  Proof. repeat split. Qed.

  (* a Block1 part of a request produced by createSendingMessage *)
  Lemma create_sending_req x mx mm b sm more :
    In x (cexch c) -> is_upload (xcode x) = true -> 0 <= mx <= 7 -> 0 <= bszx b -> 0 <= bnum b -> 0 <= mm ->
    create_sending (request_of x) mx mm b = Some (sm, more) -> forall V, req_of V sm.
  Proof.
    intros Hx Hup Hmx Hs Hn Hmm Hcs.
    pose proof (serve_coherent (request_of x) mx mm b sm more Hmx Hs Hn Hmm Hcs) as Hsc. cbv zeta in Hsc.
    cbn [mcode request_of] in Hsc. rewrite Hup in Hsc.
    destruct Hsc as (nb & Hnb & _ & _ & Hnbs & Hnbn & _ & Hsl & _ & _ & Hm1 & Hm2 & _ & Hc' & Ht' & He' & Ho' & Hot' & Hb2 & _).
    intros V. exists x. split; [exact Hx|].
    split; [unfold req_hdr; rewrite Ht', Hc', Ho', Hot'; repeat split|].
    split; [rewrite He'; reflexivity|].
    split; [intros b2 E; rewrite Hb2 in E; discriminate E|].
    rewrite Hnb. split; [exact Hup|]. split; [exact Hnbs|]. split; [exact Hnbn|]. split; [exact Hsl|].
    intros Hmf. rewrite Hm1 in Hmf. change (mbody (request_of x)) with (req_body x) in *.
    destruct (Z_lt_le_dec (bnum nb * size (bszx nb) + blen (mbody sm)) (blen (req_body x))) as [Hlt|Hge].
    - apply Hm2 in Hlt. congruence.
    - destruct Hsl as [pre [post [Hbd Hl]]]. rewrite Hbd, !blen_app in *. pose proof (blen_nonneg post). lia.
  Qed.

  Lemma wants_resp V m : resp_of V m -> wants_to_be_received m = true.
  Proof.
    intros [x [r [v [_ [_ [_ [[_ [Hc _]] _]]]]]]]. unfold wants_to_be_received. rewrite Hc.
    rc_cases (xcode x); cbn; rewrite ?andb_false_r; reflexivity.
  Qed.

  (* startSendingMessage at A: the writer holds nothing, a body-less message, or (one-way
     write) the request of an exchange *)
  Lemma start_sending_A V e w mx b :
    invA V e ->
    (forall wm, w = Some wm -> (mbody wm = [] /\ okB V wm) \/ (exists x, In x (cexch c) /\ wm = request_of x)) ->
    0 <= mx <= 7 -> 0 <= bszx b -> 0 <= bnum b ->
    let '(e', o) := start_sending e w mx (emax e) b in
    invA V e' /\ receiving e' = receiving e /\ (forall sm, o = Out (Some sm) -> okB V sm).
  Proof.
    intros Hinv Hw Hmx Hbs Hbn. pose proof Hinv as [He1 [He2 [He3 [Hs Hr]]]]. unfold start_sending.
    destruct w as [wm|]; [|split; [exact Hinv|split; [reflexivity|discriminate]]].
    pose proof (size_pos mx Hmx) as Hsz.
    destruct (blen (mbody wm) <? size mx) eqn:Hlt.
    { split; [exact Hinv|]. split; [reflexivity|]. intros sm Hsm. injection Hsm as <-.
      destruct (Hw wm eq_refl) as [[_ Hok]|[x [Hx ->]]]; [exact Hok|].
      left. exists x. split; [exact Hx|]. split; [apply request_hdr|]. split; [reflexivity|]. split; [discriminate|].
      cbn [mb1 request_of]. left. reflexivity. }
    destruct (Hw wm eq_refl) as [[Hnil _]|[x [Hx ->]]].
    { rewrite Hnil in Hlt. apply Z.ltb_ge in Hlt. cbn in Hlt. lia. }
    destruct (create_sending (request_of x) mx (emax e) b) as [[sm more]|] eqn:Hcs;
      [|split; [exact Hinv|split; [reflexivity|discriminate]]].
    assert (Hup : is_upload (xcode x) = true).
    { destruct (is_upload (xcode x)) eqn:Hu; [reflexivity|]. exfalso.
      destruct (wf_exch c Hwf x Hx) as [_ [_ [_ [_ Hl0]]]]. specialize (Hl0 Hu).
      apply Z.ltb_ge in Hlt. cbn [mbody request_of] in Hlt. rewrite Hl0 in Hlt. cbn in Hlt. lia. }
    assert (Hmm : 0 <= emax e) by (rewrite He2; apply (wf_maxA c Hwf)).
    pose proof (create_sending_req x mx (emax e) b sm more Hx Hup Hmx Hbs Hbn Hmm Hcs V) as Hsm.
    pose proof (create_sending_tok _ _ _ _ _ _ Hcs) as Htk. cbn [mtok request_of] in Htk.
    destruct (is_observe_response sm).
    { split; [exact Hinv|]. split; [reflexivity|]. intros sm' E. injection E as <-. left; exact Hsm. }
    destruct (tget (sending e) (mtok sm)); [split; [exact Hinv|split; [reflexivity|discriminate]]|].
    cbn [sending receiving with_sending eszx emax eoutside].
    split; [|split; [reflexivity|intros sm' E; injection E as <-; left; exact Hsm]].
    split; [exact He1|]. split; [exact He2|]. split; [exact He3|]. split; [|exact Hr].
    rewrite Htk. apply sendA_tput; assumption.
  Qed.

  Lemma recvA_update V e recv' x r :
    In x (cexch c) -> the_res x = Some r -> recvA V (receiving e) ->
    (forall k, k <> xtok x -> tget recv' k = tget (receiving e) k) ->
    (forall cm, tget recv' (xtok x) = Some cm -> entry_ok (bodyfA r) (negb (retag r)) (resp_hdr x r) (TgA V x r) cm) ->
    recvA V recv'.
  Proof.
    intros Hx Hres Hr Hother Hkey k cm Hg. destruct (Z.eq_dec k (xtok x)) as [->|Hne].
    - exists x, r. split; [exact Hx|]. split; [reflexivity|]. split; [exact Hres|]. apply Hkey. exact Hg.
    - rewrite Hother in Hg by exact Hne. exact (Hr _ _ Hg).
  Qed.

  Lemma ctl_codes m : ctl m ->
    (mcode m =? 0) || ((225 <=? mcode m) && (mcode m <=? 229)) = false /\
    (mcode m =? GET) || (mcode m =? DELETE) = false /\ is_upload (mcode m) = false.
  Proof. intros [_ [_ [_ [[Hc _]|[Hc _]]]]]; rewrite Hc; repeat split. Qed.
  Lemma resp_codes z :
    (resp_code z =? 0) || ((225 <=? resp_code z) && (resp_code z <=? 229)) = false /\
    (resp_code z =? GET) || (resp_code z =? DELETE) = false.
  Proof. rc_cases z; split; reflexivity. Qed.

  (* [sent]: what getSentRequest found for the token - the request of the exchange, if anything *)
  Definition sent_okA (sent : option msg) (tok : Z) : Prop :=
    forall sr, sent = Some sr -> forall x, In x (cexch c) -> xtok x = tok -> sr = set_body (request_of x) [].
  Lemma handle_received_A_s V e m sent :
    invA V e -> okA V m -> sent_okA sent (mtok m) ->
    let '(e', o, d) := handle_received_s app_a e m sent in
    invA V e' /\ (forall sm, o = Out (Some sm) -> okB V sm) /\ (forall x, In x d -> delivA_ok V x).
  Proof.
    intros Hinv Hm Hsentok. pose proof Hinv as [He1 [He2 [He3 [Hs Hr]]]].
    assert (Hszx : 0 <= eszx e <= 7) by (rewrite He1; apply (wf_szxA c Hwf)).
    assert (Hstart : 0 <= bszx {| bszx := eszx e; bnum := 0; bmore := true |} /\ 0 <= bnum {| bszx := eszx e; bnum := 0; bmore := true |})
      by (cbn [bszx bnum]; lia).
    assert (Hnone : let '(e', o) := start_sending e None (fit (mb2 m) (eszx e)) (emax e) {| bszx := eszx e; bnum := 0; bmore := true |} in
                    (e', o) = (e, Out None)) by reflexivity.
    unfold handle_received_s.
    destruct Hm as [Hres|Hctl].
    2: { destruct (ctl_codes m Hctl) as [-> [Hgd ->]]. rewrite Hgd.
         destruct Hctl as [Hnil [Hb2 [Hob Hcode]]].
         rewrite pr_noblock_s by (unfold blockopt; assumption). cbn [andb app_a start_sending].
         split; [exact Hinv|]. split; [discriminate|]. intros y [<-|[]]. right. split; [exact Hnil|].
         destruct Hcode as [[Hc _]|[Hc _]]; auto. }
    pose proof Hres as [x [r [v [Hx [Hrs [Hv [Hh [Het Hbody]]]]]]]].
    pose proof Hh as [Ht [Hc [Ho [Hob Hmb1]]]].
    rewrite Hc. destruct (resp_codes (xcode x)) as [-> Hgd]. rewrite Hgd, resp_not_upload. cbv iota.
    assert (Hgd' : (mcode m =? GET) || (mcode m =? DELETE) = false) by (rewrite Hc; exact Hgd).
    destruct (mb2 m) as [b|] eqn:Eb2.
    2: { rewrite pr_noblock_s by (unfold blockopt; assumption). cbn [andb app_a start_sending].
         split; [exact Hinv|]. split; [discriminate|]. intros y [<-|[]]. left. exists x, r, v.
         split; [exact Hx|]. split; [exact Hrs|]. split; [exact Hv|]. split; [exact Hh|]. split; [exact Het|exact Hbody]. }
    destruct Hbody as [Hbs [Hbn [Hsl [Hfin Hbig]]]].
    assert (Hfit : 0 <= fit (Some b) (eszx e) <= 7) by (apply fit_range; [exact Hszx|intros b' E; injection E as <-; lia]).
    pose proof (size_pos _ Hfit) as Hfsz.
    assert (Hobs : is_observe_response m = false) by (unfold is_observe_response; rewrite Hob; reflexivity).
    assert (Hbf : bodyfA r (metag m) = res_body r v) by (rewrite Het; eapply bodyfA_etag; exact Hv).
    assert (Hcoh : coherent (bodyfA r) (negb (retag r)) false m).
    { split; [rewrite Het; apply tag_okA|]. unfold blockopt. rewrite Eb2, Hbf. repeat split; assumption || lia. }
    assert (Htg : TgA V x r (metag m)) by (exists v; split; assumption).
    assert (Hent : forall cm, tget (receiving e) (xtok x) = Some cm ->
                   entry_ok (bodyfA r) (negb (retag r)) (resp_hdr x r) (TgA V x r) cm).
    { intros cm Hg. destruct (Hr _ _ Hg) as [x' [r' [Hx' [Hk' [Hr' Hent]]]]].
      pose proof (same_tok x' x Hx' Hx Hk') as ->. rewrite Hrs in Hr'. injection Hr' as <-. exact Hent. }
    pose proof (pr_keyed_s (bodyfA r) (negb (retag r)) (resp_hdr x r) (TgA V x r) (xtok x)
                  (fun m0 Hm0 => proj1 Hm0) (resp_hdr_body x r) (resp_hdr_etag x r) (resp_hdr_block x r) app_a
                  e m (fit (Some b) (eszx e)) false b sent Hfit Hgd' Hobs Eb2 Hcoh Hh Htg Hent) as Hpr.
    destruct (process_received_s app_a e m (fit (Some b) (eszx e)) false sent) as [[e1 o] d].
    destruct Hpr as (Hfr & Hoth & Hkey & _ & Hcases).
    assert (Hinv1 : invA V e1).
    { rewrite Hfr. split; [exact He1|]. split; [exact He2|]. split; [exact He3|]. split; [exact Hs|]. cbn [receiving with_receiving].
      apply (recvA_update V e (receiving e1) x r Hx Hrs Hr Hoth Hkey). }
    assert (Hemax : emax e = emax e1) by (rewrite Hfr; reflexivity).
    destruct Hcases as [[-> ->]|[(y & -> & -> & _ & Hby & Hhy & [vy [Hvy Hey]] & _ & _)|(sm & -> & -> & Hsm)]].
    - split; [exact Hinv1|]. split; [discriminate|intros y []].
    - cbn [app_a start_sending]. split; [exact Hinv1|]. split; [discriminate|]. intros z [<-|[]]. left.
      exists x, r, vy. split; [exact Hx|]. split; [exact Hrs|]. split; [exact Hvy|]. split; [exact Hhy|]. split; [exact Hey|].
      rewrite Hby, Hey. eapply bodyfA_etag. exact Hvy.
    - rewrite Hemax.
      match goal with |- context [start_sending e1 ?w ?mx (emax e1) ?b0] =>
        pose proof (start_sending_A V e1 w mx b0 Hinv1) as Hss; destruct (start_sending e1 w mx (emax e1) b0) as [e' o'] end.
      destruct Hss as [Hi [_ Ho']]; [|exact Hfit|apply Hstart|apply Hstart|split; [exact Hi|split; [exact Ho'|intros z []]]].
      intros wm E. injection E as <-. left.
      destruct Hsm as (Hst & Hsb & Hso & sr & Hsr & Hsc & Hsot & Hset & Hs1 & nb & Hnb & Hnbb & Hnb0).
      split; [exact Hsb|]. left. exists x. split; [exact Hx|].
      assert (Hsrx : sr = set_body (request_of x) []) by (apply (Hsentok sr Hsr x Hx); symmetry; exact Ht).
      subst sr. cbn [mcode mother metag set_body request_of] in *.
      split; [repeat split; assumption|]. split; [exact Hset|].
      split; [intros b2 E; rewrite Hnb in E; injection E as <-; destruct (Hnbb ltac:(lia)) as [? ?]; lia|].
      rewrite Hs1. destruct Hnb0 as [Hnz|Hgd0].
      + right. split; [exact Hsb|]. exists nb. split; [exact Hnb|exact Hnz].
      + (* the request is a GET / DELETE: it has no body, repeating it from block 0 is the request itself *)
        left. rewrite Hsb. unfold req_body.
        destruct (wf_exch c Hwf x Hx) as [_ [_ [_ [_ Hlen0]]]].
        rewrite Hlen0; [reflexivity|]. destruct Hgd0 as [Hg|Hg]; rewrite Hg; reflexivity.
  Qed.

  Lemma sent_okA_get V e tok : invA V e -> sent_okA (get_sent_request e tok) tok.
  Proof.
    intros [_ [_ [He3 [Hs _]]]] sr Hsr x Hx Hk. subst tok.
    unfold get_sent_request in Hsr. destruct (tget (sending e) (xtok x)) as [m0|] eqn:Hm0.
    - destruct (Hs _ _ Hm0) as [x' [Hx' [Hk' ->]]]. rewrite (same_tok x' x Hx' Hx Hk') in Hsr. injection Hsr as <-. reflexivity.
    - rewrite He3, (wf_out c Hwf x Hx) in Hsr. discriminate.
  Qed.
  Lemma handle_received_A V e m :
    invA V e -> okA V m ->
    let '(e', o, d) := handle_received app_a e m in
    invA V e' /\ (forall sm, o = Out (Some sm) -> okB V sm) /\ (forall x, In x d -> delivA_ok V x).
  Proof. intros Hinv Hm. unfold handle_received. apply handle_received_A_s; [exact Hinv|exact Hm|eapply sent_okA_get; exact Hinv]. Qed.
  Lemma okB_incomplete V t : okB V (entity_incomplete t).
  Proof. right. split; [apply ctl_incomplete|reflexivity]. Qed.

  (* Handle at A, any state that satisfies the invariant, any message B may have sent *)
  Lemma handleA_step V e m :
    invA V e -> okA V m ->
    let '(e', o, d, _) := handle app_a e m in
    invA V e' /\ (forall x, o = Some x -> okB V x) /\ (forall x, In x d -> delivA_ok V x).
  Proof.
    intros Hinv Hm. unfold handle.
    pose proof (handle_received_A V e m Hinv Hm) as Hhr.
    destruct (handle_received app_a e m) as [[e1 o] d]. destruct Hhr as [Hi1 [Ho1 Hd1]].
    assert (Hrecv : let '(e', o0, d0, _) := (match o with Out w => (e1, w, d, 0) | Fail => (e1, Some (entity_incomplete (mtok m)), d, 1) end) in
                    invA V e' /\ (forall x, o0 = Some x -> okB V x) /\ (forall x, In x d0 -> delivA_ok V x)).
    { destruct o as [w|].
      - split; [exact Hi1|]. split; [|exact Hd1]. intros x Hx. apply Ho1. rewrite Hx. reflexivity.
      - split; [exact Hi1|]. split; [|exact Hd1]. intros x Hx. injection Hx as <-. apply okB_incomplete. }
    destruct (tget (sending e) (mtok m)) as [orig|] eqn:Hs; [|exact Hrecv].
    destruct (wants_to_be_received m) eqn:Hwant; [exact Hrecv|].
    clear Hrecv. pose proof Hinv as [He1 [He2 [He3 [Hsd Hr]]]].
    destruct (Hsd _ _ Hs) as [x [Hx [Hk ->]]].
    assert (Hdel : invA V (with_sending e (tdel (sending e) (mtok m)))).
    { split; [exact He1|]. split; [exact He2|]. split; [exact He3|]. split; [apply sendA_tdel; exact Hsd|exact Hr]. }
    destruct Hm as [Hres|Hctl]; [rewrite (wants_resp V m Hres) in Hwant; discriminate|].
    destruct Hctl as [Hnil [Hb2 [Hob Hcode]]].
    unfold continue_sending. cbn [mcode request_of].
    destruct (is_upload (xcode x)) eqn:Hup; [|rewrite Hb2; split; [exact Hdel|split; [discriminate|intros y []]]].
    destruct (mb1 m) as [b|] eqn:Hb; [|split; [exact Hdel|split; [discriminate|intros y []]]].
    assert (Hbb : 0 <= bszx b /\ 0 <= bnum b).
    { destruct Hcode as [[_ Hbb]|[_ Hn]]; [apply Hbb; reflexivity|discriminate]. }
    destruct (create_sending (request_of x) (eszx e) (emax e) b) as [[sm more]|] eqn:Hcs;
      [|split; [exact Hdel|split; [discriminate|intros y []]]].
    assert (Hszx : 0 <= eszx e <= 7) by (rewrite He1; apply (wf_szxA c Hwf)).
    assert (Hmm : 0 <= emax e) by (rewrite He2; apply (wf_maxA c Hwf)).
    pose proof (create_sending_req x (eszx e) (emax e) b sm more Hx Hup Hszx (proj1 Hbb) (proj2 Hbb) Hmm Hcs V) as Hsm.
    split; [destruct (negb more && (DELETE <? xcode x)); [exact Hdel|exact Hinv]|].
    split; [intros y E; injection E as <-; left; exact Hsm|intros y []].
  Qed.

  Lemma complete_invA V p d e : invA V e -> invA V (snd (fst (complete p d e))).
  Proof.
    revert e. induction p as [|[i t] p IH]; intros e Hinv; cbn [complete]; [exact Hinv|].
    destruct (existsb (fun m => mtok m =? t) d).
    - assert (Hdel : invA V (with_sending e (tdel (sending e) t))).
      { destruct Hinv as [He1 [He2 [He3 [Hsd Hr]]]].
        split; [exact He1|]. split; [exact He2|]. split; [exact He3|]. split; [apply sendA_tdel; exact Hsd|exact Hr]. }
      specialize (IH _ Hdel). destruct (complete p d (with_sending e (tdel (sending e) t))) as [[p' e'] rets]. exact IH.
    - specialize (IH _ Hinv). destruct (complete p d e) as [[p' e'] rets]. exact IH.
  Qed.

  (* ---------------------------------------------------------------------- *)
  (* 5. the world invariant and one event                                    *)
  Definition Vof (w : world) : Z -> Z := ver (vers w).
  Definition wire_ok (V : Z -> Z) (l : list (bool * msg)) : Prop :=
    forall toB m, In (toB, m) l -> if toB : bool then okB V m else okA V m.
  (* N bounds the number of changes of every resource over the whole script *)
  Definition winv (N : Z -> Z) (w : world) : Prop :=
    invA (Vof w) (wa w) /\ invB (Vof w) (wb w) /\ wire_ok (Vof w) (whist w) /\ incl (flight w) (whist w) /\
    vers_ok (vers w) /\ Vle (Vof w) N.

  (* what one event may hand to the applications *)
  Definition mob_ok (N : Z -> Z) (o : mob) : Prop :=
    (mo_side o = 1 /\ forall d, In d (mo_deliv o) -> delivB_ok N d) \/
    (mo_side o = 0 /\ forall d, In d (mo_deliv o) -> delivA_ok N d) \/
    mo_deliv o = [].

  Ltac wsplit := unfold winv, Vof; cbn [wa wb whist flight vers with_a with_b with_flight with_pending with_vers emit];
                 repeat match goal with |- _ /\ _ => split end; try assumption.

  Lemma remove_nth_In {A} (x : A) j l : In x (remove_nth j l) -> In x l.
  Proof.
    revert j. induction l as [|y l IH]; intros j Hin; [destruct j; exact Hin|].
    destruct j; cbn [remove_nth] in Hin; [right; exact Hin|]. destruct Hin as [->|Hin]; [left; reflexivity|right; eapply IH; exact Hin].
  Qed.

  Lemma winv_flight N w f : winv N w -> incl f (flight w) -> winv N (with_flight w f).
  Proof.
    intros (Ha & Hb & Hw & Hf & Hv & Hn) Hincl. wsplit. intros x Hx. apply Hf, Hincl, Hx.
  Qed.

  Lemma winv_emit N w toB o :
    winv N w -> (forall m, o = Some m -> if toB : bool then okB (Vof w) m else okA (Vof w) m) -> winv N (emit w toB o).
  Proof.
    intros (Ha & Hb & Hw & Hf & Hv & Hn) Ho. destruct o as [m|]; [|wsplit].
    unfold emit, winv, Vof. cbn [wa wb whist flight vers].
    split; [exact Ha|]. split; [exact Hb|]. split; [|split; [|split; assumption]].
    - intros t m' Hin. apply in_app_or in Hin. destruct Hin as [Hin|[Hin|[]]]; [apply (Hw _ _ Hin)|].
      injection Hin as <- <-. apply Ho. reflexivity.
    - intros x Hin. apply in_app_or in Hin. apply in_or_app. destruct Hin as [Hin|Hin]; [left; apply Hf, Hin|right; exact Hin].
  Qed.

  Lemma arrive_inv N w toB m :
    winv N w -> (if toB : bool then okB (Vof w) m else okA (Vof w) m) ->
    let '(w1, o) := arrive c w toB m in winv N w1 /\ mob_ok N o.
  Proof.
    intros Hinv Hm. pose proof Hinv as (Ha & Hb & Hw & Hf & Hv & Hn). unfold arrive. destruct toB.
    - pose proof (handleB_step (vers w) (Vof w) (wb w) m Hv (fun k => Z.le_refl _) Hb Hm) as Hh.
      destruct (handle (app_b c (vers w)) (wb w) m) as [[[e' o] d] nerr]. destruct Hh as [Hi [Ho Hd]].
      split.
      + apply winv_emit; [|exact Ho]. wsplit.
      + left. split; [reflexivity|]. intros x Hx. eapply delivB_mono; [exact Hn|apply Hd; exact Hx].
    - pose proof (handleA_step (Vof w) (wa w) m Ha Hm) as Hh.
      destruct (handle app_a (wa w) m) as [[[e' o] d] nerr]. destruct Hh as [Hi [Ho Hd]].
      pose proof (complete_invA (Vof w) (pending w) d e' Hi) as Hc.
      destruct (complete (pending w) d e') as [[p' e''] rets]. cbn [fst snd] in Hc.
      split.
      + apply winv_emit; [|exact Ho]. wsplit.
      + right; left. split; [reflexivity|]. intros x Hx. eapply delivA_mono; [exact Hn|apply Hd; exact Hx].
  Qed.

  Lemma do_start_inv V e x :
    invA V e -> In x (cexch c) ->
    let '(e', o) := do_start e (request_of x) in invA V e' /\ (forall m, o = Some m -> okB V m).
  Proof.
    intros Hinv Hx. pose proof Hinv as [He1 [He2 [He3 [Hs Hr]]]]. unfold do_start. cbn [mtok request_of mbody mcode].
    destruct (tget (sending e) (xtok x)); [split; [exact Hinv|discriminate]|].
    assert (Hi1 : invA V (with_sending e (tput (sending e) (xtok x) (request_of x)))).
    { split; [exact He1|]. split; [exact He2|]. split; [exact He3|]. split; [apply sendA_tput; assumption|exact Hr]. }
    destruct (blen (req_body x) <=? size (eszx e)) eqn:Hsmall; fold (req_body x); rewrite Hsmall.
    { split; [exact Hi1|]. intros m E. injection E as <-. left. exists x. split; [exact Hx|]. split; [apply request_hdr|].
      split; [reflexivity|]. split; [discriminate|]. left; reflexivity. }
    destruct (is_upload (xcode x)) eqn:Hup; cbn [negb].
    2: { split; [|discriminate]. destruct Hi1 as [H1 [H2 [H3 [H4 H5]]]].
         split; [exact H1|]. split; [exact H2|]. split; [exact H3|]. split; [apply sendA_tdel; exact H4|exact H5]. }
    split; [exact Hi1|]. intros m E. injection E as <-. left. exists x. split; [exact Hx|].
    split; [repeat split|]. split; [reflexivity|]. split; [discriminate|].
    cbn [mb1 set_body set_block mbody bszx bnum bmore].
    split; [exact Hup|]. split; [rewrite He1; apply (wf_szxA c Hwf)|]. split; [lia|]. split; [|discriminate].
    exists [], (skipn (Z.to_nat (buffer_size (eszx e) (emax e))) (req_body x)). split; [|reflexivity].
    cbn [List.app]. symmetry. apply firstn_skipn.
  Qed.

  Definition bump_ok (e : ev) : Prop :=
    match e with Bump k => forall r, nth_error (cres c) (Z.to_nat k) = Some r -> retag r = true | _ => True end.

  Lemma zassoc_filter vs k k' : k' <> k -> zassoc (filter (fun p => negb (fst p =? k)) vs) k' = zassoc vs k'.
  Proof.
    intros Hne. induction vs as [|[a b] vs IH]; [reflexivity|]. cbn [filter fst zassoc].
    destruct (a =? k) eqn:Ea; cbn [negb].
    - apply Z.eqb_eq in Ea. subst a. destruct (k' =? k) eqn:E; [apply Z.eqb_eq in E; contradiction|exact IH].
    - cbn [zassoc]. destruct (k' =? a); [reflexivity|exact IH].
  Qed.
  Lemma ver_bump vs k k' : ver (bump vs k) k' = if k' =? k then ver vs k + 1 else ver vs k'.
  Proof.
    unfold ver, bump. cbn [zassoc]. destruct (k' =? k) eqn:E; [reflexivity|].
    apply Z.eqb_neq in E. rewrite zassoc_filter by exact E. reflexivity.
  Qed.

  Lemma step_inv N w e :
    winv N w -> bump_ok e -> (forall k, e = Bump k -> ver (vers w) k + 1 <= N k) ->
    let '(w', o) := step c w e in winv N w' /\ mob_ok N o.
  Proof.
    intros Hinv Hbump HN. pose proof Hinv as (Ha & Hb & Hw & Hf & Hv & Hn).
    assert (Hquiet : forall w0, winv N w0 -> let '(w', o) := quiet w0 in winv N w' /\ mob_ok N o).
    { intros w0 H0. split; [exact H0|right; right; reflexivity]. }
    assert (Hstarted : forall w1 toB o rets, winv N w1 -> (forall m, o = Some m -> if toB : bool then okB (Vof w1) m else okA (Vof w1) m) ->
                       let '(w', ob) := started w1 toB o rets in winv N w' /\ mob_ok N ob).
    { intros w1 toB o rets H1 Ho. split; [apply winv_emit; assumption|right; right; reflexivity]. }
    destruct e as [i|j|j|j|h|k|i|atB]; cbn [step].
    - (* Start *)
      destruct (nth_error (cexch c) i) as [x|] eqn:Hx; [|apply Hquiet; exact Hinv].
      apply nth_error_In in Hx. destruct (wf_exch c Hwf x Hx) as [Hkind _].
      destruct (xkind x =? 0) eqn:K0.
      + pose proof (do_start_inv (Vof w) (wa w) x Ha Hx) as Hd.
        destruct (do_start (wa w) (request_of x)) as [e' o]. destruct Hd as [Hi Ho].
        destruct o as [m|]; apply Hstarted; try (wsplit); try discriminate.
      + destruct (xkind x =? 1) eqn:K1; [|exfalso; apply Z.eqb_neq in K0, K1; lia].
        unfold write_start.
        assert (Hsz : 0 <= eszx (wa w) <= 7) by (destruct Ha as [-> _]; apply (wf_szxA c Hwf)).
        pose proof (start_sending_A (Vof w) (wa w) (Some (request_of x)) (eszx (wa w)) {| bszx := eszx (wa w); bnum := 0; bmore := true |} Ha) as Hs.
        destruct (start_sending (wa w) (Some (request_of x)) (eszx (wa w)) (emax (wa w)) {| bszx := eszx (wa w); bnum := 0; bmore := true |}) as [e' o].
        destruct Hs as [Hi [_ Ho]]; [intros wm E; injection E as <-; right; exists x; auto|exact Hsz|cbn; lia|cbn; lia|].
        destruct o as [m|]; apply Hstarted; try (wsplit); try discriminate.
        intros m' E. subst m. apply Ho; reflexivity.
    - (* Deliver *)
      destruct (nth_error (flight w) j) as [[toB m]|] eqn:Hj; [|apply Hquiet; exact Hinv].
      apply nth_error_In in Hj. apply arrive_inv.
      + apply winv_flight; [exact Hinv|]. intros x Hx. eapply remove_nth_In; exact Hx.
      + exact (Hw _ _ (Hf _ Hj)).
    - (* Dup *)
      destruct (nth_error (flight w) j) as [[toB m]|] eqn:Hj; [|apply Hquiet; exact Hinv].
      apply nth_error_In in Hj. apply arrive_inv; [exact Hinv|exact (Hw _ _ (Hf _ Hj))].
    - (* Drop *)
      apply Hquiet. apply winv_flight; [exact Hinv|]. intros x Hx. eapply remove_nth_In; exact Hx.
    - (* Replay *)
      destruct (nth_error (whist w) h) as [[toB m]|] eqn:Hh; [|apply Hquiet; exact Hinv].
      apply nth_error_In in Hh. apply arrive_inv; [exact Hinv|exact (Hw _ _ Hh)].
    - (* Bump *)
      apply Hquiet. unfold winv, Vof. cbn [wa wb whist flight vers with_vers].
      assert (HV : Vle (ver (vers w)) (ver (bump (vers w) k))).
      { intros k'. rewrite ver_bump. destruct (k' =? k) eqn:E; [apply Z.eqb_eq in E; subst; lia|lia]. }
      split; [eapply invA_mono; eassumption|]. split; [eapply invB_mono; eassumption|].
      split; [intros t m Hin; specialize (Hw t m Hin); destruct t; [eapply okB_mono; eassumption|eapply okA_mono; eassumption]|].
      split; [exact Hf|]. split.
      + intros k'. rewrite ver_bump. destruct (Hv k') as [H0 H1]. destruct (k' =? k) eqn:E.
        * apply Z.eqb_eq in E. subst k'. split; [lia|]. intros r Hr Hre. rewrite (Hbump r Hr) in Hre. discriminate.
        * split; assumption.
      + intros k'. rewrite ver_bump. destruct (k' =? k) eqn:E; [apply Z.eqb_eq in E; subst k'; apply HN; reflexivity|apply Hn].
    - (* Timeout *)
      destruct (find (fun p => Nat.eqb (fst p) i) (pending w)) as [[i' t]|]; [|apply Hquiet; exact Hinv].
      split; [|right; right; reflexivity].
      unfold winv, Vof. cbn [wa wb whist flight vers with_pending with_a].
      split; [|wsplit].
      destruct Ha as [H1 [H2 [H3 [H4 H5]]]]. split; [exact H1|]. split; [exact H2|]. split; [exact H3|].
      split; [apply sendA_tdel; exact H4|exact H5].
    - (* Expire *)
      destruct atB; apply Hquiet; unfold winv, Vof; cbn [wa wb whist flight vers with_a with_b].
      + split; [exact Ha|]. split; [|wsplit].
        destruct Hb as [H1 [H2 _]]. split; [exact H1|]. split; [exact H2|]. split; intros k m E; discriminate E.
      + split; [|wsplit].
        destruct Ha as [H1 [H2 [H3 _]]]. split; [exact H1|]. split; [exact H2|]. split; [exact H3|]. split; intros k m E; discriminate E.
  Qed.

  (* ---------------------------------------------------------------------- *)
  (* 6. whole runs                                                           *)
  Lemma arrive_vers w toB m : vers (fst (arrive c w toB m)) = vers w.
  Proof.
    unfold arrive. destruct toB.
    - destruct (handle (app_b c (vers w)) (wb w) m) as [[[e' o] d] n]. destruct o; reflexivity.
    - destruct (handle app_a (wa w) m) as [[[e' o] d] n]. destruct (complete (pending w) d e') as [[p' e''] rets].
      destruct o; reflexivity.
  Qed.
  Lemma step_vers w e : vers (fst (step c w e)) = match e with Bump k => bump (vers w) k | _ => vers w end.
  Proof.
    destruct e as [i|j|j|j|h|k|i|atB]; cbn [step].
    - destruct (nth_error (cexch c) i) as [x|]; [|reflexivity].
      destruct (xkind x =? 0).
      + destruct (do_start (wa w) (request_of x)) as [e' [m|]]; reflexivity.
      + destruct (xkind x =? 1).
        * destruct (write_start (wa w) (request_of x)) as [e' [[m|]|]]; reflexivity.
        * destruct (write_start (wb w) (notification_of c (vers w) x)) as [e' [[m|]|]]; reflexivity.
    - destruct (nth_error (flight w) j) as [[toB m]|]; [|reflexivity]. rewrite arrive_vers. reflexivity.
    - destruct (nth_error (flight w) j) as [[toB m]|]; [|reflexivity]. apply arrive_vers.
    - reflexivity.
    - destruct (nth_error (whist w) h) as [[toB m]|]; [|reflexivity]. apply arrive_vers.
    - reflexivity.
    - destruct (find (fun p => Nat.eqb (fst p) i) (pending w)) as [[i' t]|]; reflexivity.
    - destruct atB; reflexivity.
  Qed.

  Definition bump_count (e : ev) (k : Z) : Z := match e with Bump k' => if k' =? k then 1 else 0 | _ => 0 end.
  Lemma bumps_acc es k a :
    fold_left (fun n e => match e with Bump k' => if k' =? k then n + 1 else n | _ => n end) es a = a + bumps es k.
  Proof.
    unfold bumps. revert a. induction es as [|e es IH]; intros a; cbn [fold_left]; [lia|].
    rewrite IH. rewrite (IH (match e with Bump k' => if k' =? k then 0 + 1 else 0 | _ => 0 end)).
    destruct e; try lia. destruct (k0 =? k); lia.
  Qed.
  Lemma bumps_cons e es k : bumps (e :: es) k = bump_count e k + bumps es k.
  Proof.
    unfold bumps at 1. cbn [fold_left]. rewrite bumps_acc. unfold bump_count.
    destruct e; try lia. destruct (k0 =? k); lia.
  Qed.
  Lemma bumps_nonneg es k : 0 <= bumps es k.
  Proof.
    induction es as [|e es IH]; [unfold bumps; cbn; lia|]. rewrite bumps_cons. unfold bump_count.
    destruct e; try lia. destruct (k0 =? k); lia.
  Qed.

  Lemma run_inv N : forall es w,
    winv N w -> Forall bump_ok es -> (forall k, ver (vers w) k + bumps es k <= N k) ->
    Forall (mob_ok N) (run c w es).
  Proof.
    induction es as [|e es IH]; intros w Hinv Hb HN; cbn [run]; [constructor|].
    inversion Hb as [|? ? Hbe Hbes]; subst.
    pose proof (step_inv N w e Hinv Hbe) as Hst. pose proof (step_vers w e) as Hve.
    destruct (step c w e) as [w' o]. cbn [fst] in Hve.
    destruct Hst as [Hinv' Ho].
    { intros k ->. specialize (HN k). rewrite bumps_cons in HN. cbn [bump_count] in HN. rewrite Z.eqb_refl in HN.
      pose proof (bumps_nonneg es k). lia. }
    constructor; [exact Ho|]. apply IH; [exact Hinv'|exact Hbes|].
    intros k. specialize (HN k). rewrite bumps_cons in HN. rewrite Hve.
    destruct e; cbn [bump_count] in HN; try lia. rewrite ver_bump. rewrite (Z.eqb_sym k0 k) in HN. destruct (k =? k0) eqn:E; [|lia].
    apply Z.eqb_eq in E. subst k0. lia.
  Qed.

  Lemma winv_init N : (forall k, 0 <= N k) -> winv N (init c).
  Proof.
    intros HN. unfold winv, init, Vof, new_ep. cbn [wa wb whist flight vers].
    split; [split; [reflexivity|split; [reflexivity|split; [reflexivity|split; intros k m E; discriminate E]]]|].
    split; [split; [reflexivity|split; [reflexivity|split; intros k m E; discriminate E]]|].
    split; [intros t m []|]. split; [intros x []|]. split; [intros k; split; [cbn; lia|reflexivity]|exact HN].
  Qed.

  (* Safety over ALL fault scripts (Prop level): whatever the script does - any order of
     delivery, duplication, loss, replay of anything ever sent, resource changes (of
     resources that carry an ETag), time-outs, expiry sweeps, restarts - every message
     handed to B's application belongs to an exchange A's application started, has its
     code and options, and carries exactly its body; every message handed to
     A's application is body-less, or has the code / options / ETag of one version of
     the resource of its exchange and exactly that version's body. *)
  Theorem exchange_safety es :
    Forall bump_ok es -> Forall (mob_ok (bumps es)) (run c (init c) es).
  Proof.
    intros Hb. apply run_inv; [apply winv_init; intros k; apply bumps_nonneg|exact Hb|].
    intros k. cbn. lia.
  Qed.

  (* ---------------------------------------------------------------------- *)
  (* 7. the same in the terms of the specification (Spec.delivery_class)     *)
  Lemma find_exch_some x by_a : In x (cexch c) -> find_exch c (xtok x) by_a = Some x.
  Proof.
    intros Hx. unfold find_exch.
    assert (Hgen : forall l, (forall y, In y l -> In y (cexch c)) -> In x l ->
              find (fun y => (xtok y =? xtok x) && (if by_a then xkind y <? 2 else true)) l = Some x).
    { induction l as [|y l IH]; intros Hsub Hin; [destruct Hin|]. cbn [find].
      destruct (xtok y =? xtok x) eqn:E.
      - apply Z.eqb_eq in E. pose proof (same_tok y x (Hsub y (or_introl eq_refl)) Hx E) as ->.
        destruct (wf_exch c Hwf x Hx) as [Hk _]. destruct by_a; [|reflexivity].
        replace (xkind x <? 2) with true by (symmetry; apply Z.ltb_lt; lia). reflexivity.
      - cbn [andb]. destruct Hin as [->|Hin]; [rewrite Z.eqb_refl in E; discriminate|].
        apply IH; [intros z Hz; apply Hsub; right; exact Hz|exact Hin]. }
    apply Hgen; auto.
  Qed.

  Lemma pair_list_refl a b : list_eqb pair_eqb [(a, b)] [(a, b)] = true.
  Proof. cbn. unfold pair_eqb. cbn. rewrite !Z.eqb_refl. reflexivity. Qed.

  Lemma is_version_ok r n v len sum etag :
    0 <= v <= Z.of_nat n -> len = rlen r + 3 * v -> sum = csum (res_body r v) -> etag = res_etag r v ->
    is_version r n len sum etag = true.
  Proof.
    intros Hv -> -> ->. induction n as [|n IH]; cbn [is_version].
    - assert (v = 0) by lia. subst v. cbn [Z.of_nat]. rewrite !Z.eqb_refl.
      unfold oZ_eqb. destruct (res_etag r 0); [rewrite Z.eqb_refl|]; reflexivity.
    - destruct (Z.eq_dec v (Z.of_nat (S n))) as [->|Hne].
      + rewrite !Z.eqb_refl. unfold oZ_eqb. destruct (res_etag r (Z.of_nat (S n))); [rewrite Z.eqb_refl|]; reflexivity.
      + rewrite IH by lia. apply orb_true_r.
  Qed.

  Lemma blen_gen_body salt n : blen (gen_body salt n) = Z.of_nat n.
  Proof. unfold blen. rewrite gen_body_length. reflexivity. Qed.

  Lemma delivB_class es d :
    delivB_ok (bumps es) d -> delivery_class c es 1 (proj d) = 0%N.
  Proof.
    intros [[x [Hx [[Ht [Hc [Ho _]]] Hb]]]|[Hnil Hc]].
    2: { unfold delivery_class, proj. cbn [pcode plen Z.eqb]. rewrite Hc, Hnil. reflexivity. }
    destruct (wf_exch c Hwf x Hx) as [_ [Hcode [_ [Hlen _]]]].
    unfold delivery_class, proj. cbn [pcode plen ptok psum pother Z.eqb].
    rewrite Hc, Ht, Ho, Hb. unfold is_request.
    replace ((GET <=? xcode x) && (xcode x <=? DELETE)) with true
      by (symmetry; apply andb_true_iff; split; apply Z.leb_le; lia).
    rewrite find_exch_some by exact Hx. unfold req_body. rewrite blen_gen_body, Z2Nat.id by exact Hlen.
    rewrite !Z.eqb_refl, pair_list_refl. reflexivity.
  Qed.

  Lemma delivA_class es d : delivA_ok (bumps es) d -> delivery_class c es 0 (proj d) = 0%N.
  Proof.
    intros [[x [r [v [Hx [Hr [[Hv _] [[Ht [Hc [Ho [Hob _]]]] [He Hb]]]]]]]]|[Hnil Hc]].
    2: { unfold delivery_class, proj. cbn [pcode plen Z.eqb]. rewrite Hnil. destruct Hc as [-> | ->]; reflexivity. }
    destruct (wf_exch c Hwf x Hx) as [Hk _].
    unfold delivery_class, proj. cbn [pcode plen ptok psum pother petag pobs Z.eqb].
    rewrite Hc, Ht, Ho, Hob, He, Hb.
    assert (Hsucc : is_success_response (resp_code (xcode x)) = true) by (rc_cases (xcode x); reflexivity).
    rewrite Hsucc. cbn [negb]. rewrite find_exch_some by exact Hx. unfold the_res in Hr. rewrite Hr.
    assert (Hrl : 0 <= rlen r) by (apply (wf_res c Hwf); eapply nth_error_In; exact Hr).
    rewrite is_version_ok with (v := v).
    - cbn [negb]. replace (xkind x =? 2) with false by (symmetry; apply Z.eqb_neq; lia).
      rewrite Z.eqb_refl, pair_list_refl. reflexivity.
    - pose proof (bumps_nonneg es (xpath x)). rewrite Z2Nat.id by lia. exact Hv.
    - unfold res_body. rewrite blen_gen_body. lia.
    - reflexivity.
    - reflexivity.
  Qed.

  (* C04 safety over all fault scripts, in the terms of the specification: on the
     model's trace of ANY script every delivery has class 0 (exact body, code and
     options preserved, known token) - without exception since the client no longer
     restarts the response of a POST/PUT at block 0 *)
  Theorem exchange_safety_spec es :
    Forall bump_ok es ->
    Forall (fun o => Forall (fun d => delivery_class c es (o_side o) d = 0%N) (o_deliv o)) (model_obs c es).
  Proof.
    intros Hb. pose proof (exchange_safety es Hb) as Hs. unfold model_obs.
    apply Forall_forall. intros o Ho. apply in_map_iff in Ho. destruct Ho as [mo [<- Hmo]].
    rewrite Forall_forall in Hs. specialize (Hs mo Hmo).
    apply Forall_forall. intros d Hd. cbn [proj_mob o_deliv o_side] in *. apply in_map_iff in Hd. destruct Hd as [md [<- Hmd]].
    destruct Hs as [[Hside Hs]|[[Hside Hs]|Hs]].
    - rewrite Hside. apply delivB_class. apply Hs; exact Hmd.
    - rewrite Hside. apply delivA_class. apply Hs; exact Hmd.
    - rewrite Hs in Hmd. destruct Hmd.
  Qed.

  (* ---------------------------------------------------------------------- *)
  (* 8. "exactly once": a potential argument                                 *)
  (* For one endpoint and one token: (bodies handed over) + (1 if a non-empty  *)
  (* reassembly buffer exists) never grows faster than the number of arrivals *)
  (* of a first message (no Block option of the direction, or NUM = 0).       *)
  Definition once_post (e e' : ep) (tk : Z) (first : Prop) (d : list msg) : Prop :=
    (forall k, k <> tk -> tget (receiving e') k = tget (receiving e) k) /\
    (forall x, In x d -> mtok x = tk) /\
    ((d = [] /\ (nonempty_at (receiving e') tk -> first \/ nonempty_at (receiving e) tk)) \/
     (exists x, d = [x] /\ receiving e' = receiving e /\ first) \/
     (exists x, d = [x] /\ tget (receiving e') tk = None /\ (first \/ nonempty_at (receiving e) tk))).

  Lemma once_post_recv e e' e'' tk first d :
    receiving e'' = receiving e' -> once_post e e' tk first d -> once_post e e'' tk first d.
  Proof. unfold once_post. intros ->. auto. Qed.
  Lemma once_post_weaken e e' tk (f f' : Prop) d : (f -> f') -> once_post e e' tk f d -> once_post e e' tk f' d.
  Proof.
    intros Hf [H1 [H2 H3]]. split; [exact H1|]. split; [exact H2|].
    destruct H3 as [[Hd Hn]|[[x [Hd [Hr Hff]]]|[x [Hd [Hr Hff]]]]].
    - left. split; [exact Hd|]. intros Hne. destruct (Hn Hne); auto.
    - right; left. exists x. auto.
    - right; right. exists x. split; [exact Hd|]. split; [exact Hr|]. destruct Hff; auto.
  Qed.
  Lemma once_post_quiet e tk first : once_post e e tk first [].
  Proof. split; [reflexivity|]. split; [intros x []|]. left. split; [reflexivity|]. intros Hn; right; exact Hn. Qed.

  Lemma reasm_tok cm r off : mtok (fst (reasm cm r off)) = mtok cm.
  Proof.
    unfold reasm. cbn [fst]. destruct (off =? _); cbn [set_body mtok];
      (destruct (metag r); [|reflexivity]; destruct (metag cm); [|reflexivity]; destruct (z =? z0); reflexivity).
  Qed.
  (* a buffer that is non-empty after the step was non-empty before, unless the block is a first one *)
  Lemma reasm_nonempty cm r num sz :
    sz <> 0 -> mbody (fst (reasm cm r (num * sz))) <> [] -> num = 0 \/ mbody cm <> [].
  Proof.
    intros Hsz. unfold reasm. cbn [fst].
    set (cm1 := match metag r, metag cm with
                | Some a, Some c0 => if a =? c0 then cm else set_body (set_etag cm (Some a)) []
                | _, _ => cm end).
    assert (H1 : mbody cm1 <> [] -> mbody cm <> []).
    { unfold cm1. destruct (metag r); [|auto]. destruct (metag cm); [|auto]. destruct (z =? z0); [auto|].
      cbn [set_body mbody]. intros Hc; contradiction Hc; reflexivity. }
    destruct (num * sz =? blen (mbody cm1)) eqn:E.
    - intros _. apply Z.eqb_eq in E. destruct (Z.eq_dec num 0) as [Hz|Hnz]; [left; exact Hz|right].
      apply H1. intros Hnil. rewrite Hnil in E. cbn in E. nia.
    - intros Hne. right. apply H1. exact Hne.
  Qed.
  Lemma reasm_appended cm r num sz :
    sz <> 0 -> snd (reasm cm r (num * sz)) = true -> num = 0 \/ mbody cm <> [].
  Proof.
    intros Hsz. unfold reasm. cbn [snd].
    set (cm1 := match metag r, metag cm with
                | Some a, Some c0 => if a =? c0 then cm else set_body (set_etag cm (Some a)) []
                | _, _ => cm end).
    assert (H1 : mbody cm1 <> [] -> mbody cm <> []).
    { unfold cm1. destruct (metag r); [|auto]. destruct (metag cm); [|auto]. destruct (z =? z0); [auto|].
      cbn [set_body mbody]. intros Hc; contradiction Hc; reflexivity. }
    intros E. apply Z.eqb_eq in E. destruct (Z.eq_dec num 0) as [Hz|Hnz]; [left; exact Hz|right].
    apply H1. intros Hnil. rewrite Hnil in E. cbn in E. nia.
  Qed.

  Lemma pr_once_s app e r mx isb1 sent :
    is_observe_response r = false -> (mcode r =? GET) || (mcode r =? DELETE) = false ->
    (forall cm, tget (receiving e) (mtok r) = Some cm -> mtok cm = mtok r) ->
    let '(e', _, d) := process_received_s app e r mx isb1 sent in
    once_post e e' (mtok r) (first_blk (blockopt isb1 r)) d.
  Proof.
    intros Hobs Hgd Hkey.
    destruct (blockopt isb1 r) as [b|] eqn:Hb.
    2: { rewrite pr_noblock_s by assumption.
         destruct (isb1 && _); [apply once_post_quiet|].
         split; [reflexivity|]. split; [intros x [<-|[]]; reflexivity|]. right; left. exists r. cbn. auto. }
    unfold process_received_s. unfold blockopt in Hb. rewrite Hgd, Hb. unfold observe_key. rewrite Hobs.
    destruct (if isb1 then false else match sent with None => true | Some _ => false end);
      [apply once_post_quiet|].
    cbn [negb first_blk].
    assert (Hgen : forall cm szx0,
      (tget (receiving e) (mtok r) = Some cm \/ (tget (receiving e) (mtok r) = None /\ mbody cm = [])) -> mtok cm = mtok r ->
      let '(e', _, d) :=
        (let '(cm', appended) := reasm cm r (bnum b * size szx0) in
         let e2 := with_receiving e (tput (receiving e) (mtok r) cm') in
         if appended && negb (bmore b) then
           let full := set_block isb1 cm' None None in
           let e3 := with_receiving e2 (tdel (receiving e2) (mtok r)) in
           let e4 := if mtok cm' =? mtok r then e3 else with_sending e3 (tdel (sending e3) (mtok r)) in
           (e4, Out (app (mtok r) full), [full])
         else
           let szx := Z.min szx0 mx in
           let psize := blen (mbody cm') in
           if refuse_restart isb1 (psize / size szx) (sent)
           then (with_receiving e2 (tdel (receiving e2) (mtok r)), Fail, []) else
           let sm :=
             if isb1 then
               {| mcode := Continue; mtok := mtok r; mb1 := Some {| bszx := szx; bnum := bnum b; bmore := bmore b |};
                  mb2 := None; ms1 := None; ms2 := None; metag := None; mobs := None; mother := []; mbody := [] |}
             else match sent with
                  | Some sr =>
                    {| mcode := mcode sr; mtok := mtok r; mb1 := None;
                       mb2 := Some {| bszx := szx; bnum := psize / size szx; bmore := bmore b |};
                       ms1 := None; ms2 := ms2 sr; metag := metag sr; mobs := None; mother := mother sr; mbody := [] |}
                  | None => entity_incomplete (mtok r)
                  end in
           (e2, Out (Some sm), [])) in
      once_post e e' (mtok r) (bnum b = 0) d).
    { intros cm szx0 Hwhere Htk.
      pose proof (reasm_tok cm r (bnum b * size szx0)) as Htok.
      pose proof (reasm_nonempty cm r (bnum b) (size szx0) (size_nonzero szx0)) as Hne.
      pose proof (reasm_appended cm r (bnum b) (size szx0) (size_nonzero szx0)) as Hap.
      destruct (reasm cm r (bnum b * size szx0)) as [cm' appended]. cbn [fst snd] in *.
      assert (Hbefore : mbody cm <> [] -> nonempty_at (receiving e) (mtok r)).
      { intros Hn. destruct Hwhere as [Hw|[_ Hw]]; [exists cm; auto|contradiction]. }
      destruct (appended && negb (bmore b)) eqn:Hfinal.
      - apply andb_true_iff in Hfinal. destruct Hfinal as [Ha _]. subst appended.
        assert (Hrecv : forall k, k <> mtok r -> tget (tdel (tput (receiving e) (mtok r) cm') (mtok r)) k = tget (receiving e) k)
          by (intros k Hk; rewrite tget_tdel_other by congruence; apply tget_tput_other; congruence).
        split; [destruct (mtok cm' =? mtok r); cbn [receiving with_receiving with_sending]; exact Hrecv|].
        split; [intros x [<-|[]]; cbn [set_block mtok]; congruence|].
        right; right. eexists. split; [reflexivity|].
        split; [destruct (mtok cm' =? mtok r); cbn [receiving with_receiving with_sending]; apply tget_tdel_same|].
        destruct (Hap eq_refl) as [Hz|Hn]; [left; exact Hz|right; apply Hbefore; exact Hn].
      - cbv zeta. match goal with |- context [refuse_restart ?a ?n ?q] => destruct (refuse_restart a n q) end.
        { unfold once_post. cbn [receiving with_receiving].
          split; [intros k Hk; rewrite tget_tdel_other by congruence; apply tget_tput_other; congruence|]. split; [intros x []|].
          left. split; [reflexivity|]. intros [c0 [Hc0 _]]. rewrite tget_tdel_same in Hc0. discriminate. }
        cbn [receiving with_receiving].
        split; [intros k Hk; apply tget_tput_other; congruence|]. split; [intros x []|].
        left. split; [reflexivity|]. intros [c0 [Hc0 Hn0]]. cbn [receiving with_receiving] in Hc0. rewrite tget_tput_same in Hc0. injection Hc0 as <-.
        destruct (Hne Hn0) as [Hz|Hn]; [left; exact Hz|right; apply Hbefore; exact Hn]. }
    destruct (tget (receiving e) (mtok r)) as [c0|] eqn:Hc.
    - destruct (bmore b); apply (Hgen c0 (bszx b)); auto.
    - destruct (bmore b) eqn:Hm.
      + apply (Hgen (set_body r []) (Z.min (bszx b) mx)); [right; split; reflexivity|reflexivity].
      + destruct (bnum b =? 0) eqn:Hz; cbn [negb]; [|apply once_post_quiet].
        apply Z.eqb_eq in Hz.
        split; [reflexivity|]. split; [intros x [<-|[]]; reflexivity|]. right; left. exists r. auto.
  Qed.
  Lemma pr_once app e r mx isb1 :
    is_observe_response r = false -> (mcode r =? GET) || (mcode r =? DELETE) = false ->
    (forall cm, tget (receiving e) (mtok r) = Some cm -> mtok cm = mtok r) ->
    let '(e', _, d) := process_received app e r mx isb1 in
    once_post e e' (mtok r) (first_blk (blockopt isb1 r)) d.
  Proof. intros. unfold process_received. apply pr_once_s; assumption. Qed.

  (* the relevant Block option of a message, by its code *)
  Definition fb (r : msg) : Prop := is_plain_code (mcode r) = true \/ first_blk (blockopt (is_upload (mcode r)) r).

  Lemma handle_received_once_s app e r sent :
    is_observe_response r = false ->
    (forall cm, tget (receiving e) (mtok r) = Some cm -> mtok cm = mtok r) ->
    let '(e', _, d) := handle_received_s app e r sent in once_post e e' (mtok r) (fb r) d.
  Proof.
    intros Hobs Hkey.
    assert (Hf1 : (mcode r =? 0) || ((225 <=? mcode r) && (mcode r <=? 229)) = true -> fb r).
        { intros Hs. left. unfold is_plain_code. rewrite Hs. reflexivity. }
        assert (Hf2 : (mcode r =? GET) || (mcode r =? DELETE) = true -> fb r).
        { intros Hs. left. unfold is_plain_code. rewrite <- orb_assoc, Hs. apply orb_true_r. }
        assert (Hf3 : first_blk (blockopt (is_upload (mcode r)) r) -> fb r) by (intros Hs; right; exact Hs).
        revert Hf1 Hf2 Hf3. generalize (fb r). intros F Hf1 Hf2 Hf3.
        unfold handle_received_s.
        destruct ((mcode r =? 0) || ((225 <=? mcode r) && (mcode r <=? 229))) eqn:Hsig.
        { split; [reflexivity|]. split; [intros x [<-|[]]; reflexivity|]. right; left. exists r. auto. }
        destruct ((mcode r =? GET) || (mcode r =? DELETE)) eqn:Hgd.
        { match goal with |- context [start_sending ?a ?b ?c ?d ?f] =>
            pose proof (start_sending_receiving a b c d f) as Hr'; destruct (start_sending a b c d f) as [e' o] end.
          cbn [fst] in Hr'. split; [intros k _; rewrite Hr'; reflexivity|]. split; [intros x [<-|[]]; reflexivity|].
          right; left. exists r. split; [reflexivity|]. split; [exact Hr'|]. auto. }
        pose proof (pr_once_s app e r (fit (if is_upload (mcode r) then mb1 r else mb2 r) (eszx e)) (is_upload (mcode r)) sent Hobs Hgd Hkey) as Hp.
        destruct (process_received_s app e r _ (is_upload (mcode r)) sent) as [[e1 o] d].
        apply (once_post_weaken _ _ _ _ F) in Hp; [|exact Hf3].
        destruct o as [w|]; [|exact Hp].
        match goal with |- context [start_sending ?a ?b ?c ?d ?f] =>
          pose proof (start_sending_receiving a b c d f) as Hr'; destruct (start_sending a b c d f) as [e2 o2] end.
        cbn [fst] in Hr'. eapply once_post_recv; [exact Hr'|exact Hp].
  Qed.

  Lemma handle_once_pot app e r :
    is_observe_response r = false ->
    (forall cm, tget (receiving e) (mtok r) = Some cm -> mtok cm = mtok r) ->
    let '(e', _, d, _) := handle app e r in once_post e e' (mtok r) (fb r) d.
  Proof.
    intros Hobs Hkey. unfold handle.
    assert (Hrecv : let '(e', _, d, _) :=
              (let '(e', o, d) := handle_received app e r in
               match o with Out w => (e', w, d, 0) | Fail => (e', Some (entity_incomplete (mtok r)), d, 1) end) in
              once_post e e' (mtok r) (fb r) d).
    { assert (Hhr : let '(e', _, d) := handle_received app e r in once_post e e' (mtok r) (fb r) d).
      { pose proof (handle_received_once_s app e r (get_sent_request e (mtok r)) Hobs Hkey) as Hhr0.
        exact Hhr0. }
      destruct (handle_received app e r) as [[e1 o] d]. destruct o; exact Hhr. }
    destruct (tget (sending e) (mtok r)) as [orig|]; [|exact Hrecv].
    destruct (wants_to_be_received r); [exact Hrecv|].
    pose proof (continue_sending_receiving e r orig) as Hcr.
    destruct (continue_sending e r orig) as [[e2 w] err]. cbn [fst] in Hcr.
    eapply once_post_recv; [exact Hcr|apply once_post_quiet].
  Qed.

  (* counting, as the specification does (Spec.arrivals / Spec.handed), one observation at a time *)
  Definition arr1 (o : obs) (side tok : Z) : Z :=
    match o_in o with
    | Some m => if (o_side o =? side) && (ptok m =? tok) && is_first side m then 1 else 0
    | None => 0
    end.
  Definition hand1 (o : obs) (side tok : Z) : Z :=
    if o_side o =? side then blen (filter (fun d => (ptok d =? tok) && (0 <? plen d)) (o_deliv o)) else 0.

  Lemma arrivals_acc os side tok a :
    fold_left (fun n o => match o_in o with
                          | Some m => if (o_side o =? side) && (ptok m =? tok) && is_first side m then n + 1 else n
                          | None => n end) os a = a + arrivals os side tok.
  Proof.
    unfold arrivals. revert a. induction os as [|o os IH]; intros a; cbn [fold_left]; [lia|].
    rewrite IH. rewrite (IH (match o_in o with Some m => if (o_side o =? side) && (ptok m =? tok) && is_first side m then 0 + 1 else 0 | None => 0 end)).
    destruct (o_in o) as [m|]; [|lia]. destruct ((o_side o =? side) && (ptok m =? tok) && is_first side m); lia.
  Qed.
  Lemma arrivals_cons o os side tok : arrivals (o :: os) side tok = arr1 o side tok + arrivals os side tok.
  Proof.
    unfold arrivals at 1. cbn [fold_left]. rewrite arrivals_acc. unfold arr1.
    destruct (o_in o) as [m|]; [|lia]. destruct ((o_side o =? side) && (ptok m =? tok) && is_first side m); lia.
  Qed.
  Lemma handed_acc os side tok a :
    fold_left (fun n o => if o_side o =? side
                          then n + blen (filter (fun d => (ptok d =? tok) && (0 <? plen d)) (o_deliv o)) else n) os a
    = a + handed os side tok.
  Proof.
    unfold handed. revert a. induction os as [|o os IH]; intros a; cbn [fold_left]; [lia|].
    rewrite IH. rewrite (IH (if o_side o =? side then 0 + blen (filter (fun d => (ptok d =? tok) && (0 <? plen d)) (o_deliv o)) else 0)). destruct (o_side o =? side); lia.
  Qed.
  Lemma handed_cons o os side tok : handed (o :: os) side tok = hand1 o side tok + handed os side tok.
  Proof. unfold handed at 1. cbn [fold_left]. rewrite handed_acc. unfold hand1. destruct (o_side o =? side); lia. Qed.

  (* the potential: 1 iff the endpoint of that side holds a non-empty buffer for the token *)
  Definition potE (e : ep) (t : Z) : Z :=
    match tget (receiving e) t with Some cm => match mbody cm with [] => 0 | _ => 1 end | None => 0 end.
  Definition pot (w : world) (side t : Z) : Z :=
    if side =? 1 then potE (wb w) t else if side =? 0 then potE (wa w) t else 0.

  Lemma potE_range e t : 0 <= potE e t <= 1.
  Proof. unfold potE. destruct (tget (receiving e) t) as [cm|]; [destruct (mbody cm)|]; lia. Qed.
  Lemma potE_nonempty e t : potE e t = 1 <-> nonempty_at (receiving e) t.
  Proof.
    unfold potE, nonempty_at. split.
    - destruct (tget (receiving e) t) as [cm|]; [|discriminate]. destruct (mbody cm) eqn:E; [discriminate|].
      intros _. exists cm. split; [reflexivity|]. rewrite E. discriminate.
    - intros [cm [-> Hne]]. destruct (mbody cm); [contradiction Hne; reflexivity|reflexivity].
  Qed.
  Lemma potE_recv e e' t : tget (receiving e') t = tget (receiving e) t -> potE e' t = potE e t.
  Proof. unfold potE. intros ->. reflexivity. Qed.

  Definition firstb (side : Z) (m : msg) : bool :=
    match (if side =? 1 then mb1 m else mb2 m) with None => true | Some b => bnum b =? 0 end.
  Lemma is_first_proj side m : is_first side (proj m) = firstb side m.
  Proof.
    unfold is_first, relevant_block, firstb, proj. cbn [pb1 pb2].
    destruct (side =? 1); [destruct (mb1 m)|destruct (mb2 m)]; reflexivity.
  Qed.

  Lemma okA_nonobs V m : okA V m -> is_observe_response m = false.
  Proof.
    intros [Hm|[_ [_ [Ho _]]]]; [eapply resp_not_observe; exact Hm|]. unfold is_observe_response. rewrite Ho. reflexivity.
  Qed.
  Lemma okB_nonobs V m : okB V m -> is_observe_response m = false.
  Proof.
    unfold is_observe_response. intros [[x [_ [[_ [_ [_ Ho]]] _]]]|[[_ [_ [Ho _]]] _]]; rewrite Ho; reflexivity.
  Qed.
  Lemma okA_first V m : okA V m -> fb m -> firstb 0 m = true.
  Proof.
    unfold firstb. cbn [Z.eqb]. intros [[x [r [v [_ [_ [_ [[_ [Hc _]] _]]]]]]]|[_ [Hb2 _]]] Hfb; [|rewrite Hb2; reflexivity].
    destruct Hfb as [Hp|Hf].
    - exfalso. rewrite Hc in Hp. revert Hp. rc_cases (xcode x); discriminate.
    - rewrite Hc, resp_not_upload in Hf. unfold blockopt in Hf. destruct (mb2 m); [apply Z.eqb_eq; exact Hf|reflexivity].
  Qed.
  Lemma okB_first V m : okB V m -> fb m -> firstb 1 m = true.
  Proof.
    unfold firstb. cbn [Z.eqb]. intros [[x [Hx [[_ [Hc _]] [_ [_ Hb1]]]]]|[[_ [_ [_ Hcode]]] Hinc]] Hfb.
    2: { destruct Hcode as [[Hc _]|[_ Hn]]; [rewrite Hc in Hinc; discriminate Hinc|rewrite Hn; reflexivity]. }
    destruct (mb1 m) as [b|] eqn:Eb; [|reflexivity]. destruct Hb1 as [Hup _].
    destruct Hfb as [Hp|Hf].
    - exfalso. rewrite Hc in Hp. destruct (code_cases x Hx) as [Hcx|[Hcx|[Hcx|Hcx]]]; rewrite Hcx in *; discriminate.
    - rewrite Hc, Hup in Hf. unfold blockopt in Hf. rewrite Eb in Hf. apply Z.eqb_eq. exact Hf.
  Qed.

  Lemma complete_receiving p d e : receiving (snd (fst (complete p d e))) = receiving e.
  Proof.
    revert e. induction p as [|[i t] p IH]; intros e; cbn [complete]; [reflexivity|].
    destruct (existsb (fun m => mtok m =? t) d).
    - specialize (IH (with_sending e (tdel (sending e) t))).
      destruct (complete p d (with_sending e (tdel (sending e) t))) as [[p' e'] rets]. exact IH.
    - specialize (IH e). destruct (complete p d e) as [[p' e'] rets]. exact IH.
  Qed.

  Lemma filter_tok_len (d : list msg) tk t :
    (forall x, In x d -> mtok x = tk) -> (length d <= 1)%nat ->
    0 <= blen (filter (fun x => (ptok x =? t) && (0 <? plen x)) (map proj d)) <= (if t =? tk then Z.of_nat (length d) else 0).
  Proof.
    intros Htok Hlen. destruct d as [|x [|y d]]; [cbn; destruct (t =? tk); lia| |cbn in Hlen; lia].
    cbn [map filter]. replace (ptok (proj x)) with (mtok x) by reflexivity. rewrite (Htok x (or_introl eq_refl)).
    rewrite (Z.eqb_sym tk t). destruct (t =? tk); cbn [andb]; [destruct (0 <? plen (proj x)); cbn; lia|cbn; lia].
  Qed.

  (* the step inequality, for the endpoint that handles a message *)
  Lemma once_post_count e e' tk (first : bool) d t :
    once_post e e' tk (first = true) d ->
    blen (filter (fun x => (ptok x =? t) && (0 <? plen x)) (map proj d)) + potE e' t
    <= (if (tk =? t) && first then 1 else 0) + potE e t.
  Proof.
    intros [Hframe [Htok Hcases]].
    assert (Hlen : (length d <= 1)%nat).
    { destruct Hcases as [[-> _]|[[x [-> _]]|[x [-> _]]]]; cbn; lia. }
    pose proof (filter_tok_len d tk t Htok Hlen) as Hf.
    destruct (Z.eq_dec t tk) as [->|Hne].
    - rewrite Z.eqb_refl in *. cbn [andb].
      pose proof (potE_range e tk). pose proof (potE_range e' tk).
      destruct Hcases as [[-> Hn]|[[x [-> [Hr Hfi]]]|[x [-> [Hr Hfi]]]]].
      + cbn [length] in Hf. destruct (Z.eq_dec (potE e' tk) 1) as [H1|H1]; [|destruct first; lia].
        apply potE_nonempty in H1. destruct (Hn H1) as [->|Hb]; [lia|]. apply potE_nonempty in Hb. destruct first; lia.
      + rewrite Hfi. cbn [length] in Hf. rewrite (potE_recv e e' tk) by (rewrite Hr; reflexivity). lia.
      + cbn [length] in Hf. assert (potE e' tk = 0) by (unfold potE; rewrite Hr; reflexivity).
        destruct Hfi as [->|Hb]; [lia|]. apply potE_nonempty in Hb. destruct first; lia.
    - replace (t =? tk) with false in Hf by (symmetry; apply Z.eqb_neq; exact Hne).
      replace (tk =? t) with false by (symmetry; apply Z.eqb_neq; congruence). cbn [andb].
      rewrite (potE_recv e e' t) by (apply Hframe; exact Hne). lia.
  Qed.

  Lemma emit_wa w toB o : wa (emit w toB o) = wa w. Proof. destruct o; reflexivity. Qed.
  Lemma emit_wb w toB o : wb (emit w toB o) = wb w. Proof. destruct o; reflexivity. Qed.

  Lemma recvA_key V t k cm : recvA V t -> tget t k = Some cm -> mtok cm = k.
  Proof. intros Hr Hg. destruct (Hr _ _ Hg) as [x [r [_ [Hk [_ [_ [_ [[Ht _] _]]]]]]]]. congruence. Qed.
  Lemma recvB_key t k cm : recvB t -> tget t k = Some cm -> mtok cm = k.
  Proof. intros Hr Hg. destruct (Hr _ _ Hg) as [x [_ [Hk [_ [_ [_ [[Ht _] _]]]]]]]. congruence. Qed.

  Definition step_ineq (w w1 : world) (o : mob) : Prop :=
    forall side t, hand1 (proj_mob o) side t + pot w1 side t <= arr1 (proj_mob o) side t + pot w side t.

  Lemma silent_ineq w w1 o :
    mo_in o = None -> mo_deliv o = [] ->
    (forall t, potE (wa w1) t <= potE (wa w) t) -> (forall t, potE (wb w1) t <= potE (wb w) t) -> step_ineq w w1 o.
  Proof.
    intros Hin Hd Ha Hb side t. unfold hand1, arr1, proj_mob. cbn [o_in o_deliv o_side]. rewrite Hin, Hd. cbn [option_map map filter].
    replace (blen (@nil pm)) with 0 by reflexivity. unfold pot.
    destruct (mo_side o =? side); destruct (side =? 1); try (specialize (Hb t); lia); destruct (side =? 0); try (specialize (Ha t); lia); lia.
  Qed.

  Lemma arrive_once N w toB m :
    winv N w -> (if toB : bool then okB (Vof w) m else okA (Vof w) m) ->
    let '(w1, o) := arrive c w toB m in step_ineq w w1 o.
  Proof.
    intros (Ha & Hb & _) Hm. unfold arrive. destruct toB.
    - pose proof (handle_once_pot (app_b c (vers w)) (wb w) m (okB_nonobs _ _ Hm)) as Hh.
      destruct (handle (app_b c (vers w)) (wb w) m) as [[[e' o] d] nerr].
      assert (Hpost : once_post (wb w) e' (mtok m) (firstb 1 m = true) d).
      { eapply once_post_weaken; [apply (okB_first _ _ Hm)|]. apply Hh.
        intros cm Hg. destruct Hb as [_ [_ [_ Hr]]]. eapply recvB_key; eassumption. }
      intros side t. unfold hand1, arr1, proj_mob, pot. cbn [o_in o_deliv o_side mo_side mo_in mo_deliv option_map].
      rewrite emit_wa, emit_wb. cbn [wa wb with_b]. rewrite is_first_proj. replace (ptok (proj m)) with (mtok m) by reflexivity.
      destruct (Z.eq_dec side 1) as [->|Hne].
      + cbn [Z.eqb andb]. apply once_post_count. exact Hpost.
      + replace (1 =? side) with false by (symmetry; apply Z.eqb_neq; congruence).
        replace (side =? 1) with false by (symmetry; apply Z.eqb_neq; congruence). cbn [andb]. lia.
    - pose proof (handle_once_pot app_a (wa w) m (okA_nonobs _ _ Hm)) as Hh.
      destruct (handle app_a (wa w) m) as [[[e' o] d] nerr].
      pose proof (complete_receiving (pending w) d e') as Hcr.
      destruct (complete (pending w) d e') as [[p' e''] rets]. cbn [fst snd] in Hcr.
      assert (Hpost : once_post (wa w) e'' (mtok m) (firstb 0 m = true) d).
      { eapply once_post_recv; [exact Hcr|]. eapply once_post_weaken; [apply (okA_first _ _ Hm)|]. apply Hh.
        intros cm Hg. destruct Ha as [_ [_ [_ [_ Hr]]]]. eapply recvA_key; eassumption. }
      intros side t. unfold hand1, arr1, proj_mob, pot. cbn [o_in o_deliv o_side mo_side mo_in mo_deliv option_map].
      rewrite emit_wa, emit_wb. cbn [wa wb with_a with_pending]. rewrite is_first_proj. replace (ptok (proj m)) with (mtok m) by reflexivity.
      destruct (Z.eq_dec side 0) as [->|Hne].
      + cbn [Z.eqb andb]. apply once_post_count. exact Hpost.
      + replace (0 =? side) with false by (symmetry; apply Z.eqb_neq; congruence).
        replace (side =? 0) with false by (symmetry; apply Z.eqb_neq; congruence). cbn [andb]. destruct (side =? 1); lia.
  Qed.

  Lemma do_start_receiving e r : receiving (fst (do_start e r)) = receiving e.
  Proof.
    unfold do_start. destruct (tget (sending e) (mtok r)); [reflexivity|].
    destruct (blen (mbody r) <=? size (eszx e)); [reflexivity|]. destruct (negb (is_upload (mcode r))); reflexivity.
  Qed.

  Lemma step_once N w e :
    winv N w -> let '(w', o) := step c w e in step_ineq w w' o.
  Proof.
    intros Hinv. pose proof Hinv as (Ha & Hb & Hw & Hf & _).
    assert (Hquiet : forall w0, (forall t, potE (wa w0) t <= potE (wa w) t) -> (forall t, potE (wb w0) t <= potE (wb w) t) ->
                     let '(w', o) := quiet w0 in step_ineq w w' o).
    { intros w0 H1 H2. apply silent_ineq; auto. }
    assert (Hstarted : forall w1 toB o rets, (forall t, potE (wa w1) t <= potE (wa w) t) -> (forall t, potE (wb w1) t <= potE (wb w) t) ->
                       let '(w', ob) := started w1 toB o rets in step_ineq w w' ob).
    { intros w1 toB o rets H1 H2. apply silent_ineq; try reflexivity; rewrite ?emit_wa, ?emit_wb; assumption. }
    assert (Hrefl : forall e0 t, potE e0 t <= potE e0 t) by (intros; lia).
    destruct e as [i|j|j|j|h|k|i|atB]; cbn [step].
    - destruct (nth_error (cexch c) i) as [x|] eqn:Hx; [|apply Hquiet; intros; lia].
      destruct (xkind x =? 0).
      + pose proof (do_start_receiving (wa w) (request_of x)) as Hr.
        destruct (do_start (wa w) (request_of x)) as [e' o]. cbn [fst] in Hr.
        destruct o as [m|]; apply Hstarted; cbn [wa wb with_a with_pending]; intros t; try lia;
          rewrite (potE_recv (wa w) e' t) by (rewrite Hr; reflexivity); lia.
      + destruct (xkind x =? 1).
        * unfold write_start.
          match goal with |- context [start_sending ?a ?b ?c0 ?d ?f] =>
            pose proof (start_sending_receiving a b c0 d f) as Hr; destruct (start_sending a b c0 d f) as [e' o] end.
          cbn [fst] in Hr.
          destruct o as [m|]; apply Hstarted; cbn [wa wb with_a]; intros t; try lia;
            rewrite (potE_recv (wa w) e' t) by (rewrite Hr; reflexivity); lia.
        * unfold write_start.
          match goal with |- context [start_sending ?a ?b ?c0 ?d ?f] =>
            pose proof (start_sending_receiving a b c0 d f) as Hr; destruct (start_sending a b c0 d f) as [e' o] end.
          cbn [fst] in Hr.
          destruct o as [m|]; apply Hstarted; cbn [wa wb with_b]; intros t; try lia;
            rewrite (potE_recv (wb w) e' t) by (rewrite Hr; reflexivity); lia.
    - destruct (nth_error (flight w) j) as [[toB m]|] eqn:Hj; [|apply Hquiet; intros; lia].
      apply nth_error_In in Hj.
      pose proof (arrive_once N (with_flight w (remove_nth j (flight w))) toB m) as Har.
      destruct (arrive c (with_flight w (remove_nth j (flight w))) toB m) as [w1 o].
      apply Har; [|exact (Hw _ _ (Hf _ Hj))].
      apply winv_flight; [exact Hinv|]. intros x Hx. eapply remove_nth_In; exact Hx.
    - destruct (nth_error (flight w) j) as [[toB m]|] eqn:Hj; [|apply Hquiet; intros; lia].
      apply nth_error_In in Hj. apply (arrive_once N); [exact Hinv|exact (Hw _ _ (Hf _ Hj))].
    - apply Hquiet; intros; cbn [wa wb with_flight]; lia.
    - destruct (nth_error (whist w) h) as [[toB m]|] eqn:Hh; [|apply Hquiet; intros; lia].
      apply nth_error_In in Hh. apply (arrive_once N); [exact Hinv|exact (Hw _ _ Hh)].
    - apply Hquiet; intros; cbn [wa wb with_vers]; lia.
    - destruct (find (fun p => Nat.eqb (fst p) i) (pending w)) as [[i' t]|]; [|apply Hquiet; intros; lia].
      apply silent_ineq; try reflexivity; intros t0; cbn [wa wb with_a with_pending]; try lia;
        try (unfold potE; cbn [receiving with_sending]; lia).
    - destruct atB; apply Hquiet; intros t; cbn [wa wb with_a with_b]; try lia;
        (unfold potE at 1; cbn [receiving with_receiving with_sending tget]; apply potE_range).
  Qed.

  Lemma run_once N : forall es w,
    winv N w -> Forall bump_ok es -> (forall k, ver (vers w) k + bumps es k <= N k) ->
    forall side t, handed (map proj_mob (run c w es)) side t <= arrivals (map proj_mob (run c w es)) side t + pot w side t.
  Proof.
    induction es as [|e es IH]; intros w Hinv Hb HN side t; cbn [run map].
    { unfold handed, arrivals, pot. cbn [fold_left].
      pose proof (potE_range (wa w) t). pose proof (potE_range (wb w) t). destruct (side =? 1); [lia|]. destruct (side =? 0); lia. }
    inversion Hb as [|? ? Hbe Hbes]; subst.
    pose proof (step_inv N w e Hinv Hbe) as Hst. pose proof (step_vers w e) as Hve. pose proof (step_once N w e Hinv) as Hso.
    destruct (step c w e) as [w' o]. cbn [fst] in Hve. cbn [map].
    destruct Hst as [Hinv' _].
    { intros k ->. specialize (HN k). rewrite bumps_cons in HN. cbn [bump_count] in HN. rewrite Z.eqb_refl in HN.
      pose proof (bumps_nonneg es k). lia. }
    rewrite handed_cons, arrivals_cons.
    assert (HN' : forall k, ver (vers w') k + bumps es k <= N k).
    { intros k. specialize (HN k). rewrite bumps_cons in HN. rewrite Hve.
      destruct e; cbn [bump_count] in HN; try lia. rewrite ver_bump. rewrite (Z.eqb_sym k0 k) in HN. destruct (k =? k0) eqn:E; [|lia].
      apply Z.eqb_eq in E. subst k0. lia. }
    specialize (IH w' Hinv' Hbes HN' side t). specialize (Hso side t). lia.
  Qed.

  (* "Exactly once" over ALL fault scripts: at either application, for every token, the
     number of bodies handed over never exceeds the number of arrivals of a first message
     of a transfer (a message without the Block option of its direction, or block 0) -
     so duplicated, replayed or re-ordered later blocks, in particular the replayed last
     block (F15) and the stale request for a later response block, never produce a
     second delivery. *)
  Theorem exchange_once_counts es :
    Forall bump_ok es ->
    forall side t, handed (model_obs c es) side t <= arrivals (model_obs c es) side t.
  Proof.
    intros Hb side t. unfold model_obs.
    pose proof (run_once (bumps es) es (init c) (winv_init _ (fun k => bumps_nonneg es k)) Hb) as H.
    specialize (H (fun k => ltac:(cbn; lia)) side t).
    assert (Hp : pot (init c) side t = 0) by (unfold pot, potE, init, new_ep; cbn; destruct (side =? 1); [|destruct (side =? 0)]; reflexivity).
    lia.
  Qed.

  Theorem exchange_once es : Forall bump_ok es -> once_ok (model_obs c es) = true.
  Proof.
    intros Hb. unfold once_ok. apply forallb_forall. intros o _. apply forallb_forall. intros d _.
    apply Z.leb_le. apply exchange_once_counts. exact Hb.
  Qed.

  (* ---------------------------------------------------------------------- *)
  (* 9. a Do that returns ok got its response in that step (clause c)        *)
  Definition pend_ok (p : list (nat * Z)) : Prop :=
    forall i t, In (i, t) p -> exists x, nth_error (cexch c) i = Some x /\ xtok x = t.

  Lemma complete_spec p d e :
    let '(p', _, rets) := complete p d e in
    (forall q, In q p' -> In q p) /\
    (forall r, In r rets -> exists i t, r = (Z.of_nat i, 0) /\ In (i, t) p /\ existsb (fun m => mtok m =? t) d = true).
  Proof.
    revert e. induction p as [|[i t] p IH]; intros e; cbn [complete]; [split; [auto|intros r []]|].
    destruct (existsb (fun m => mtok m =? t) d) eqn:Ex.
    - specialize (IH (with_sending e (tdel (sending e) t))).
      destruct (complete p d (with_sending e (tdel (sending e) t))) as [[p' e'] rets]. destruct IH as [H1 H2].
      split; [intros q Hq; right; apply H1; exact Hq|].
      intros r [<-|Hr]; [exists i, t; split; [reflexivity|split; [left; reflexivity|exact Ex]]|].
      destruct (H2 r Hr) as [i' [t' [E1 [E2 E3]]]]. exists i', t'. split; [exact E1|split; [right; exact E2|exact E3]].
    - specialize (IH e). destruct (complete p d e) as [[p' e'] rets]. destruct IH as [H1 H2].
      split; [intros q [<-|Hq]; [left; reflexivity|right; apply H1; exact Hq]|].
      intros r Hr. destruct (H2 r Hr) as [i' [t' [E1 [E2 E3]]]]. exists i', t'. split; [exact E1|split; [right; exact E2|exact E3]].
  Qed.

  Lemma existsb_proj (d : list msg) t : existsb (fun x => ptok x =? t) (map proj d) = existsb (fun m => mtok m =? t) d.
  Proof. induction d as [|x d IH]; [reflexivity|]. cbn [map existsb]. rewrite IH. reflexivity. Qed.

  Lemma arrive_ret w toB m :
    pend_ok (pending w) ->
    let '(w1, o) := arrive c w toB m in pend_ok (pending w1) /\ ret_ok c (proj_mob o) = true.
  Proof.
    intros Hp. unfold arrive. destruct toB.
    - destruct (handle (app_b c (vers w)) (wb w) m) as [[[e' o] d] nerr].
      split; [destruct o; exact Hp|reflexivity].
    - destruct (handle app_a (wa w) m) as [[[e' o] d] nerr].
      pose proof (complete_spec (pending w) d e') as Hc.
      destruct (complete (pending w) d e') as [[p' e''] rets]. destruct Hc as [H1 H2].
      split.
      + assert (Hp' : pend_ok p') by (intros i t Hin; apply Hp, H1, Hin). destruct o; exact Hp'.
      + unfold ret_ok, proj_mob. cbn [o_ret o_deliv mo_ret mo_deliv]. apply forallb_forall. intros r Hr.
        destruct (H2 r Hr) as [i [t [-> [Hin Hex]]]]. cbn [fst snd Z.eqb]. rewrite Nat2Z.id.
        destruct (Hp i t Hin) as [x [-> Ht]]. destruct (xkind x =? 0); [|reflexivity].
        rewrite existsb_proj, Ht. exact Hex.
  Qed.

  Lemma step_ret w e :
    pend_ok (pending w) -> let '(w', o) := step c w e in pend_ok (pending w') /\ ret_ok c (proj_mob o) = true.
  Proof.
    intros Hp.
    assert (Hquiet : forall w0, pend_ok (pending w0) -> let '(w', o) := quiet w0 in pend_ok (pending w') /\ ret_ok c (proj_mob o) = true).
    { intros w0 H0. split; [exact H0|reflexivity]. }
    assert (Hemit : forall w1 toB o, pending (emit w1 toB o) = pending w1) by (intros w1 toB [m|]; reflexivity).
    destruct e as [i|j|j|j|h|k|i|atB]; cbn [step].
    - destruct (nth_error (cexch c) i) as [x|] eqn:Hx; [|apply Hquiet; exact Hp].
      destruct (xkind x =? 0) eqn:K0.
      + destruct (do_start (wa w) (request_of x)) as [e' [m|]]; unfold started; rewrite Hemit; cbn [pending with_pending with_a].
        * split; [|reflexivity]. intros i' t Hin. apply in_app_or in Hin. destruct Hin as [Hin|[Hin|[]]]; [apply Hp; exact Hin|].
          injection Hin as <- <-. exists x. auto.
        * split; [exact Hp|reflexivity].
      + assert (Hr0 : ret_ok c (Ob 2 None None [] 0 [(Z.of_nat i, 0)] [] 0) = true).
        { unfold ret_ok. cbn [o_ret forallb fst snd Z.eqb]. rewrite Nat2Z.id, Hx, K0. reflexivity. }
        destruct (xkind x =? 1).
        * destruct (write_start (wa w) (request_of x)) as [e' [m|]]; unfold started; rewrite Hemit; cbn [pending with_a];
            (split; [exact Hp|]); [|reflexivity].
          unfold ret_ok, proj_mob. cbn [o_ret mo_ret forallb fst snd Z.eqb]. rewrite Nat2Z.id, Hx, K0. reflexivity.
        * destruct (write_start (wb w) (notification_of c (vers w) x)) as [e' [m|]]; unfold started; rewrite Hemit; cbn [pending with_b];
            (split; [exact Hp|]); [|reflexivity].
          unfold ret_ok, proj_mob. cbn [o_ret mo_ret forallb fst snd Z.eqb]. rewrite Nat2Z.id, Hx, K0. reflexivity.
    - destruct (nth_error (flight w) j) as [[toB m]|]; [|apply Hquiet; exact Hp]. apply arrive_ret. exact Hp.
    - destruct (nth_error (flight w) j) as [[toB m]|]; [|apply Hquiet; exact Hp]. apply arrive_ret. exact Hp.
    - apply Hquiet. exact Hp.
    - destruct (nth_error (whist w) h) as [[toB m]|]; [|apply Hquiet; exact Hp]. apply arrive_ret. exact Hp.
    - apply Hquiet. exact Hp.
    - destruct (find (fun p => Nat.eqb (fst p) i) (pending w)) as [[i' t]|]; [|apply Hquiet; exact Hp].
      split; [|reflexivity]. cbn [pending with_pending]. intros i0 t0 Hin. apply filter_In in Hin. apply Hp. apply Hin.
    - destruct atB; apply Hquiet; exact Hp.
  Qed.

  Lemma run_ret : forall es w, pend_ok (pending w) -> forallb (ret_ok c) (map proj_mob (run c w es)) = true.
  Proof.
    induction es as [|e es IH]; intros w Hp; cbn [run map forallb]; [reflexivity|].
    pose proof (step_ret w e Hp) as Hs. destruct (step c w e) as [w' o]. destruct Hs as [Hp' Hr].
    cbn [map forallb]. rewrite Hr. apply IH. exact Hp'.
  Qed.

  Lemma first_class_zero l : Forall (fun x => x = 0%N) l -> first_class l = 0%N.
  Proof. induction 1 as [|x l Hx _ IH]; [reflexivity|]. cbn [first_class]. rewrite Hx. exact IH. Qed.

  (* The whole property C04 (Spec.c04_ok: exact body, once, options, known token, Do
     returns with its response, no panic / hang marks) holds on the model's trace of
     EVERY script, for every well-formed configuration (repaired: also when the response
     to a POST/PUT is block-wise) *)
  Theorem exchange_c04_ok es :
    Forall bump_ok es -> c04_ok c es (model_obs c es) = true.
  Proof.
    intros Hb. unfold c04_ok, c04_class.
    assert (Hbad : first_class (map (fun o => if o_bad o =? 0 then 0%N else if o_bad o =? 1 then 6%N else 7%N) (model_obs c es)) = 0%N).
    { apply first_class_zero. apply Forall_forall. intros x Hx. apply in_map_iff in Hx. destruct Hx as [o [<- Ho]].
      unfold model_obs in Ho. apply in_map_iff in Ho. destruct Ho as [mo [<- _]]. reflexivity. }
    rewrite Hbad. cbn [N.eqb negb].
    assert (Hdc : first_class (flat_map (fun o => map (delivery_class c es (o_side o)) (o_deliv o)) (model_obs c es)) = 0%N).
    { apply first_class_zero. apply Forall_forall. intros x Hx. apply in_flat_map in Hx. destruct Hx as [o [Ho Hx]].
      apply in_map_iff in Hx. destruct Hx as [d [<- Hd]].
      pose proof (exchange_safety_spec es Hb) as Hs. rewrite Forall_forall in Hs. specialize (Hs o Ho).
      rewrite Forall_forall in Hs. exact (Hs d Hd). }
    rewrite Hdc. cbn [N.eqb negb]. rewrite (exchange_once es Hb). cbn [negb].
    unfold model_obs. rewrite run_ret; [reflexivity|]. intros i t [].
  Qed.

  (* ---------------------------------------------------------------------- *)
  (* 10. expiry: the sweep removes everything an interrupted exchange left,   *)
  (*     and nothing of it can be delivered afterwards                       *)
  Fixpoint exec (w : world) (es : list ev) : world :=
    match es with [] => w | e :: r => exec (fst (step c w e)) r end.

  Lemma run_app : forall es1 es2 w, run c w (es1 ++ es2) = run c w es1 ++ run c (exec w es1) es2.
  Proof.
    induction es1 as [|e es1 IH]; intros es2 w; cbn [List.app run exec]; [reflexivity|].
    destruct (step c w e) as [w' o]. cbn [fst]. rewrite IH. reflexivity.
  Qed.

  Lemma exec_inv N : forall es w,
    winv N w -> Forall bump_ok es -> (forall k, ver (vers w) k + bumps es k <= N k) ->
    winv N (exec w es) /\ (forall k, ver (vers (exec w es)) k <= N k).
  Proof.
    induction es as [|e es IH]; intros w Hinv Hb HN; cbn [exec].
    { split; [exact Hinv|]. intros k. specialize (HN k). unfold bumps in HN. cbn in HN. lia. }
    inversion Hb as [|? ? Hbe Hbes]; subst.
    pose proof (step_inv N w e Hinv Hbe) as Hst. pose proof (step_vers w e) as Hve.
    destruct (step c w e) as [w' o]. cbn [fst] in *. destruct Hst as [Hinv' _].
    { intros k ->. specialize (HN k). rewrite bumps_cons in HN. cbn [bump_count] in HN. rewrite Z.eqb_refl in HN.
      pose proof (bumps_nonneg es k). lia. }
    apply IH; [exact Hinv'|exact Hbes|].
    intros k. specialize (HN k). rewrite bumps_cons in HN. rewrite Hve.
    destruct e; cbn [bump_count] in HN; try lia. rewrite ver_bump. rewrite (Z.eqb_sym k0 k) in HN. destruct (k =? k0) eqn:E; [|lia].
    apply Z.eqb_eq in E. subst k0. lia.
  Qed.

  Lemma bumps_app es1 es2 k : bumps (es1 ++ es2) k = bumps es1 k + bumps es2 k.
  Proof. induction es1 as [|e es1 IH]; cbn [List.app]; [unfold bumps at 2; cbn; lia|]. rewrite !bumps_cons, IH. lia. Qed.

  (* the sweep, in any state whatever: both tables of that side are empty afterwards *)
  Theorem expire_clears w atB :
    let w' := fst (step c w (Expire atB)) in
    let e' := if atB then wb w' else wa w' in sending e' = [] /\ receiving e' = [].
  Proof. destruct atB; cbn; split; reflexivity. Qed.

  (* ... and after the sweep at a side, in every reachable state and for every
     continuation of the script, each body handed to that side's application is paid
     for by a first message that arrived AFTER the sweep: what an interrupted exchange
     had accumulated is gone and cannot be completed by late, duplicated or replayed
     blocks *)
  Theorem expire_forgets es1 atB es2 :
    Forall bump_ok (es1 ++ Expire atB :: es2) ->
    let side := if atB then 1 else 0 in
    let after := map proj_mob (run c (exec (init c) (es1 ++ [Expire atB])) es2) in
    forall t, handed after side t <= arrivals after side t.
  Proof.
    intros Hb side after t.
    set (N := bumps (es1 ++ Expire atB :: es2)).
    assert (Hb1 : Forall bump_ok (es1 ++ [Expire atB])).
    { apply Forall_app in Hb. destruct Hb as [H1 H2]. apply Forall_app. split; [exact H1|]. constructor; [exact I|constructor]. }
    assert (Hb2 : Forall bump_ok es2).
    { apply Forall_app in Hb. destruct Hb as [_ H2]. inversion H2; assumption. }
    assert (HNeq : forall k, N k = bumps (es1 ++ [Expire atB]) k + bumps es2 k).
    { intros k. unfold N. rewrite !bumps_app, !bumps_cons. cbn [bump_count]. unfold bumps at 4. cbn. lia. }
    destruct (exec_inv N (es1 ++ [Expire atB]) (init c) (winv_init N (fun k => bumps_nonneg _ k)) Hb1) as [Hinv Hv].
    { intros k. rewrite HNeq. pose proof (bumps_nonneg es2 k). cbn. lia. }
    assert (Hbound : forall k, ver (vers (exec (init c) (es1 ++ [Expire atB]))) k + bumps es2 k <= N k).
    { intros k. rewrite HNeq.
      assert (Hver : forall es w, (forall k, ver (vers w) k + bumps es k <= ver (vers w) k + bumps es k) ->
                     ver (vers (exec w es)) k = ver (vers w) k + bumps es k).
      { induction es as [|e es IH]; intros w _; cbn [exec]; [unfold bumps; cbn; lia|].
        pose proof (step_vers w e) as Hve. rewrite IH by (intros; lia). rewrite Hve, bumps_cons.
        destruct e; cbn [bump_count]; try lia. rewrite ver_bump, (Z.eqb_sym k0 k). destruct (k =? k0) eqn:E; [|lia].
        apply Z.eqb_eq in E. subst. lia. }
      rewrite Hver by (intros; lia). cbn. lia. }
    pose proof (run_once N es2 _ Hinv Hb2 Hbound side t) as H.
    assert (Hpot : pot (exec (init c) (es1 ++ [Expire atB])) side t = 0).
    { assert (Hex : forall es w, exec w (es ++ [Expire atB]) = fst (step c (exec w es) (Expire atB))).
      { induction es as [|e es IH]; intros w; cbn [List.app exec]; [reflexivity|apply IH]. }
      rewrite Hex. unfold side, pot, potE. destruct atB; cbn; reflexivity. }
    unfold after. lia.
  Qed.

  (* ---------------------------------------------------------------------- *)
  (* 11. error outcomes (any application, any state, any message)            *)
  Lemma pr_shape app e r mx isb1 :
    let '(_, o, d) := process_received app e r mx isb1 in
    (o = Fail /\ d = []) \/ (exists x, d = [x] /\ o = Out (app (mtok r) x)) \/
    (exists sm, d = [] /\ o = Out (Some sm) /\ mbody sm = []).
  Proof.
    unfold process_received, process_received_s.
    destruct ((mcode r =? GET) || (mcode r =? DELETE)); [right; left; exists r; auto|].
    destruct (if isb1 then mb1 r else mb2 r) as [b|].
    2: { destruct (isb1 && _); [left; auto|right; left; exists r; auto]. }
    destruct (if isb1 then false else match get_sent_request e (mtok r) with None => true | Some _ => false end); [left; auto|].
    destruct (observe_key e r b (get_sent_request e (mtok r))) as [[e0 key] ok].
    destruct (negb ok); [left; auto|].
    destruct (tget (receiving e0) key) as [c0|]; destruct (bmore b);
      try (destruct (negb (bnum b =? 0)); [left; auto|right; left; exists r; auto]).
    all: match goal with |- context [reasm ?a ?b0 ?c1] => destruct (reasm a b0 c1) as [cm' appended] end.
    all: match goal with |- context [if ?cnd then _ else _] => destruct cnd end.
    all: try (right; left; eexists; split; reflexivity).
    all: cbv zeta; match goal with |- context [refuse_restart ?a ?n ?q] => destruct (refuse_restart a n q) end; [left; auto|].
    all: right; right; eexists; split; [reflexivity|split; [reflexivity|]].
    all: destruct isb1; try reflexivity; destruct (get_sent_request e (mtok r)); reflexivity.
  Qed.

  (* every error outcome of processReceivedMessage hands nothing to the application *)
  Theorem pr_error_nothing app e r mx isb1 :
    let '(_, o, d) := process_received app e r mx isb1 in o = Fail -> d = [].
  Proof.
    pose proof (pr_shape app e r mx isb1) as H. destruct (process_received app e r mx isb1) as [[e' o] d].
    intros ->. destruct H as [[_ H]|[[x [_ H]]|[sm [_ [H _]]]]]; [exact H|discriminate|discriminate].
  Qed.

  (* Handle: when the error callback fires, either nothing was handed to the application,
     or what was handed over was a complete message (covered by the safety theorems) and
     the error is the failure to start the block-wise transfer of the application's own
     answer to it (16 bytes or more) *)
  Theorem handle_error_outcome app e r :
    0 <= eszx e <= 7 -> (forall b, mb1 r = Some b \/ mb2 r = Some b -> 0 <= bszx b) ->
    let '(_, _, d, nerr) := handle app e r in
    nerr <> 0 -> d = [] \/ exists x wm, d = [x] /\ app (mtok r) x = Some wm /\ 16 <= blen (mbody wm).
  Proof.
    intros Hsz Hb. unfold handle.
    assert (Hss : forall e0 w mx blk, 0 <= mx <= 7 -> snd (start_sending e0 w mx (emax e) blk) = Fail ->
                  exists wm, w = Some wm /\ 16 <= blen (mbody wm)).
    { intros e0 w mx blk Hmx. unfold start_sending. destruct w as [wm|]; [|discriminate].
      pose proof (size_pos mx Hmx). destruct (blen (mbody wm) <? size mx) eqn:Hlt; [discriminate|].
      intros _. exists wm. split; [reflexivity|]. apply Z.ltb_ge in Hlt. lia. }
    assert (Hrecv : let '(_, _, d, nerr) :=
              (let '(e', o, d) := handle_received app e r in
               match o with Out w => (e', w, d, 0) | Fail => (e', Some (entity_incomplete (mtok r)), d, 1) end) in
              nerr <> 0 -> d = [] \/ exists x wm, d = [x] /\ app (mtok r) x = Some wm /\ 16 <= blen (mbody wm)).
    { unfold handle_received, handle_received_s; fold_pr.
      destruct ((mcode r =? 0) || ((225 <=? mcode r) && (mcode r <=? 229))); [intros Hn; contradiction Hn; reflexivity|].
      destruct ((mcode r =? GET) || (mcode r =? DELETE)).
      - assert (Hfit : 0 <= fit (mb2 r) (eszx e) <= 7) by (apply fit_range; [exact Hsz|intros b H; apply Hb; right; exact H]).
        match goal with |- context [start_sending ?a ?b0 ?c0 ?d0 ?f] =>
          pose proof (Hss a b0 c0 f Hfit) as Hs; destruct (start_sending a b0 c0 d0 f) as [e' o] end.
        cbn [snd] in Hs. destruct o as [w|]; [intros Hn; contradiction Hn; reflexivity|].
        intros _. right. destruct (Hs eq_refl) as [wm [Hw Hl]]. exists r, wm. auto.
      - set (isb1 := is_upload (mcode r)).
        assert (Hfit : 0 <= fit (if isb1 then mb1 r else mb2 r) (eszx e) <= 7).
        { apply fit_range; [exact Hsz|]. intros b H. apply Hb. destruct isb1; [left|right]; exact H. }
        pose proof (pr_shape app e r (fit (if isb1 then mb1 r else mb2 r) (eszx e)) isb1) as Hp.
        destruct (process_received app e r (fit (if isb1 then mb1 r else mb2 r) (eszx e)) isb1) as [[e1 o] d].
        destruct Hp as [[-> ->]|[[x [-> ->]]|[sm [-> [-> Hnil]]]]].
        + intros _. left. reflexivity.
        + match goal with |- context [start_sending ?a ?b0 ?c0 ?d0 ?f] =>
            pose proof (Hss a b0 c0 f Hfit) as Hs; destruct (start_sending a b0 c0 d0 f) as [e' o] end.
          cbn [snd] in Hs. destruct o as [w|]; [intros Hn; contradiction Hn; reflexivity|].
          intros _. right. destruct (Hs eq_refl) as [wm [Hw Hl]]. exists x, wm. auto.
        + match goal with |- context [start_sending ?a ?b0 ?c0 ?d0 ?f] =>
            destruct (start_sending a b0 c0 d0 f) as [e' o] end.
          destruct o; intros _; left; reflexivity. }
    destruct (tget (sending e) (mtok r)) as [orig|]; [|exact Hrecv].
    destruct (wants_to_be_received r); [exact Hrecv|].
    destruct (continue_sending e r orig) as [[e2 w] err]. intros _. left. reflexivity.
  Qed.

  (* ---------------------------------------------------------------------- *)
  (* 12. isolation: Handle depends on, and changes, only the state of the     *)
  (*     token of the message it handles                                     *)
  Definition agree_at (t : Z) (e1 e2 : ep) : Prop :=
    eszx e1 = eszx e2 /\ emax e1 = emax e2 /\ eoutside e1 = eoutside e2 /\
    tget (sending e1) t = tget (sending e2) t /\ tget (receiving e1) t = tget (receiving e2) t.

  Lemma agree_refl t e : agree_at t e e. Proof. repeat split. Qed.

  Lemma tget_tput_congr t1 t2 k v k' : tget t1 k' = tget t2 k' -> tget (tput t1 k v) k' = tget (tput t2 k v) k'.
  Proof.
    intros H. destruct (Z.eq_dec k k') as [->|Hne]; [rewrite !tget_tput_same; reflexivity|].
    rewrite !tget_tput_other by exact Hne. exact H.
  Qed.
  Lemma tget_tdel_congr t1 t2 k k' : tget t1 k' = tget t2 k' -> tget (tdel t1 k) k' = tget (tdel t2 k) k'.
  Proof.
    intros H. destruct (Z.eq_dec k k') as [->|Hne]; [rewrite !tget_tdel_same; reflexivity|].
    rewrite !tget_tdel_other by exact Hne. exact H.
  Qed.

  Section Congr.
    Variable app : Z -> msg -> option msg.
    Hypothesis Happ : forall t d w, app t d = Some w -> mtok w = t.

    Lemma start_sending_congr t e1 e2 w mx mm b :
      agree_at t e1 e2 -> (forall wm, w = Some wm -> mtok wm = t) ->
      let '(e1', o1) := start_sending e1 w mx mm b in
      let '(e2', o2) := start_sending e2 w mx mm b in
      o1 = o2 /\ agree_at t e1' e2' /\ (forall sm, o1 = Out (Some sm) -> mtok sm = t).
    Proof.
      intros Hag Hw. pose proof Hag as (H1 & H2 & H3 & H4 & H5). unfold start_sending.
      destruct w as [wm|]; [|split; [reflexivity|split; [exact Hag|discriminate]]].
      destruct (blen (mbody wm) <? size mx).
      { split; [reflexivity|split; [exact Hag|]]. intros sm E. injection E as <-. apply Hw. reflexivity. }
      destruct (create_sending wm mx mm b) as [[sm more]|] eqn:Hcs; [|split; [reflexivity|split; [exact Hag|discriminate]]].
      assert (Htk : mtok sm = t) by (rewrite (create_sending_tok _ _ _ _ _ _ Hcs); apply Hw; reflexivity).
      destruct (is_observe_response sm).
      { split; [reflexivity|split; [exact Hag|]]. intros sm' E. injection E as <-. exact Htk. }
      rewrite Htk. rewrite <- H4.
      destruct (tget (sending e1) t) eqn:Es; [split; [reflexivity|split; [exact Hag|discriminate]]|].
      split; [reflexivity|]. split; [|intros sm' E; injection E as <-; exact Htk].
      unfold agree_at. cbn [eszx emax eoutside sending receiving with_sending].
      repeat (split; [assumption|]). split; [|exact H5]. apply tget_tput_congr. rewrite Es. exact H4.
    Qed.

    Lemma continue_sending_congr e1 e2 r orig :
      agree_at (mtok r) e1 e2 ->
      let '(e1', w1, err1) := continue_sending e1 r orig in
      let '(e2', w2, err2) := continue_sending e2 r orig in
      w1 = w2 /\ err1 = err2 /\ agree_at (mtok r) e1' e2' /\ (forall sm, w1 = Some sm -> mtok sm = mtok orig).
    Proof.
      intros Hag. pose proof Hag as (H1 & H2 & H3 & H4 & H5). unfold continue_sending. rewrite <- H1, <- H2.
      assert (Hdel : agree_at (mtok r) (with_sending e1 (tdel (sending e1) (mtok r))) (with_sending e2 (tdel (sending e2) (mtok r)))).
      { unfold agree_at. cbn [eszx emax eoutside sending receiving with_sending].
        repeat (split; [assumption|]). split; [|exact H5]. apply tget_tdel_congr. exact H4. }
      destruct (if is_upload (mcode orig) then mb1 r else mb2 r) as [b|]; [|repeat split; try apply Hdel; discriminate].
      destruct (create_sending orig (eszx e1) (emax e1) b) as [[sm more]|] eqn:Hcs; [|repeat split; try apply Hdel; discriminate].
      assert (Htk : forall sm', Some sm = Some sm' -> mtok sm' = mtok orig)
        by (intros sm' E; injection E as <-; eapply create_sending_tok; exact Hcs).
      destruct (negb more && (DELETE <? mcode orig)); (split; [reflexivity|split; [reflexivity|split; [assumption|exact Htk]]]).
    Qed.

    Lemma process_received_congr e1 e2 r mx isb1 :
      is_observe_response r = false -> agree_at (mtok r) e1 e2 ->
      let '(e1', o1, d1) := process_received app e1 r mx isb1 in
      let '(e2', o2, d2) := process_received app e2 r mx isb1 in
      o1 = o2 /\ d1 = d2 /\ agree_at (mtok r) e1' e2' /\ (forall wm, o1 = Out (Some wm) -> mtok wm = mtok r).
    Proof.
      intros Hobs Hag. pose proof Hag as (H1 & H2 & H3 & H4 & H5). unfold process_received, process_received_s.
      destruct ((mcode r =? GET) || (mcode r =? DELETE)).
      { split; [reflexivity|]. split; [reflexivity|]. split; [exact Hag|]. intros wm E. injection E as E. eapply Happ; exact E. }
      destruct (if isb1 then mb1 r else mb2 r) as [b|].
      2: { destruct (isb1 && _); (split; [reflexivity|]; split; [reflexivity|]; split; [exact Hag|]); [discriminate|].
           intros wm E. injection E as E. eapply Happ; exact E. }
      assert (Hsent : get_sent_request e1 (mtok r) = get_sent_request e2 (mtok r)).
      { unfold get_sent_request. rewrite H4, H3. reflexivity. }
      rewrite <- Hsent.
      destruct (if isb1 then false else match get_sent_request e1 (mtok r) with None => true | Some _ => false end).
      { split; [reflexivity|]. split; [reflexivity|]. split; [exact Hag|discriminate]. }
      unfold observe_key. rewrite Hobs. cbn [negb]. rewrite <- H5.
      assert (Hput : forall v, agree_at (mtok r) (with_receiving e1 (tput (receiving e1) (mtok r) v))
                                          (with_receiving e2 (tput (receiving e2) (mtok r) v))).
      { intros v. unfold agree_at. cbn [eszx emax eoutside sending receiving with_receiving].
        repeat (split; [assumption|]). apply tget_tput_congr. exact H5. }
      assert (Hdel : forall v, agree_at (mtok r) (with_receiving e1 (tdel (tput (receiving e1) (mtok r) v) (mtok r)))
                                          (with_receiving e2 (tdel (tput (receiving e2) (mtok r) v) (mtok r)))).
      { intros v. unfold agree_at. cbn [eszx emax eoutside sending receiving with_receiving].
        repeat (split; [assumption|]). apply tget_tdel_congr, tget_tput_congr. exact H5. }
      assert (Hdel2 : forall v, agree_at (mtok r)
                (with_sending (with_receiving e1 (tdel (tput (receiving e1) (mtok r) v) (mtok r))) (tdel (sending e1) (mtok r)))
                (with_sending (with_receiving e2 (tdel (tput (receiving e2) (mtok r) v) (mtok r))) (tdel (sending e2) (mtok r)))).
      { intros v. unfold agree_at. cbn [eszx emax eoutside sending receiving with_receiving with_sending].
        repeat (split; [assumption|]). split; [apply tget_tdel_congr; exact H4|apply tget_tdel_congr, tget_tput_congr; exact H5]. }
      destruct (tget (receiving e1) (mtok r)) as [c0|]; destruct (bmore b);
        try (destruct (negb (bnum b =? 0));
             [split; [reflexivity|]; split; [reflexivity|]; split; [exact Hag|discriminate]
             |split; [reflexivity|]; split; [reflexivity|]; split; [exact Hag|intros wm E; injection E as E; eapply Happ; exact E]]).
      all: match goal with |- context [reasm ?a ?b0 ?c1] => destruct (reasm a b0 c1) as [cm' appended] end.
      all: match goal with |- context [if ?cnd then _ else _] => destruct cnd end.
      all: try (destruct (mtok cm' =? mtok r)).
      all: cbv zeta; try match goal with |- context [refuse_restart ?a ?n ?q] => destruct (refuse_restart a n q) end.
      all: cbn [sending receiving with_sending with_receiving].
      all: split; [reflexivity|]; split; [reflexivity|]; split; [first [apply Hput|apply Hdel|apply Hdel2]|].
      all: intros wm E; try discriminate E; injection E as E.
      all: try (eapply Happ; exact E).
      all: subst wm; destruct isb1; try reflexivity; destruct (get_sent_request e1 (mtok r)); reflexivity.
    Qed.

    Lemma handle_congr e1 e2 r :
      is_observe_response r = false -> agree_at (mtok r) e1 e2 ->
      (forall m0, tget (sending e1) (mtok r) = Some m0 -> mtok m0 = mtok r) ->
      let '(e1', o1, d1, n1) := handle app e1 r in
      let '(e2', o2, d2, n2) := handle app e2 r in
      o1 = o2 /\ d1 = d2 /\ n1 = n2 /\ agree_at (mtok r) e1' e2' /\ (forall wm, o1 = Some wm -> mtok wm = mtok r).
    Proof.
      intros Hobs Hag Hkey. pose proof Hag as (H1 & H2 & H3 & H4 & H5). unfold handle. rewrite <- H4.
      assert (Hhr : let '(e1', o1, d1) := handle_received app e1 r in let '(e2', o2, d2) := handle_received app e2 r in
                    o1 = o2 /\ d1 = d2 /\ agree_at (mtok r) e1' e2' /\ (forall sm, o1 = Out (Some sm) -> mtok sm = mtok r)).
      { unfold handle_received, handle_received_s; fold_pr. rewrite <- H1, <- H2.
        destruct ((mcode r =? 0) || ((225 <=? mcode r) && (mcode r <=? 229))).
        { split; [reflexivity|]. split; [reflexivity|]. split; [exact Hag|]. intros sm E. injection E as E. eapply Happ; exact E. }
        destruct ((mcode r =? GET) || (mcode r =? DELETE)).
        - match goal with |- context [start_sending e1 ?w ?mx ?mm ?b] =>
            pose proof (start_sending_congr (mtok r) e1 e2 w mx mm b Hag) as Hs;
            destruct (start_sending e1 w mx mm b) as [e1' o1]; destruct (start_sending e2 w mx mm b) as [e2' o2] end.
          destruct Hs as [Ho [He Ht]]; [intros wm E; eapply Happ; exact E|]. auto.
        - set (isb1 := is_upload (mcode r)). set (mx := fit (if isb1 then mb1 r else mb2 r) (eszx e1)).
          pose proof (process_received_congr e1 e2 r mx isb1 Hobs Hag) as Hp.
          destruct (process_received app e1 r mx isb1) as [[e1a o1] d1]. destruct (process_received app e2 r mx isb1) as [[e2a o2] d2].
          destruct Hp as [<- [<- [Hag1 Htok]]]. destruct o1 as [w|]; [|split; [reflexivity|split; [reflexivity|split; [exact Hag1|discriminate]]]].
          match goal with |- context [start_sending e1a ?w0 ?mx0 ?mm ?b] =>
            pose proof (start_sending_congr (mtok r) e1a e2a w0 mx0 mm b Hag1) as Hs;
            destruct (start_sending e1a w0 mx0 mm b) as [e1' o1']; destruct (start_sending e2a w0 mx0 mm b) as [e2' o2'] end.
          destruct Hs as [Ho [He Ht]]; [intros wm E; apply Htok; rewrite E; reflexivity|]. auto. }
      assert (Hrecv :
        let '(e1', o1, d1, n1) := (let '(e', o, d) := handle_received app e1 r in
           match o with Out w => (e', w, d, 0) | Fail => (e', Some (entity_incomplete (mtok r)), d, 1) end) in
        let '(e2', o2, d2, n2) := (let '(e', o, d) := handle_received app e2 r in
           match o with Out w => (e', w, d, 0) | Fail => (e', Some (entity_incomplete (mtok r)), d, 1) end) in
        o1 = o2 /\ d1 = d2 /\ n1 = n2 /\ agree_at (mtok r) e1' e2' /\ (forall wm, o1 = Some wm -> mtok wm = mtok r)).
      { destruct (handle_received app e1 r) as [[e1a o1] d1]. destruct (handle_received app e2 r) as [[e2a o2] d2].
        destruct Hhr as [<- [<- [Hag1 Htok]]]. destruct o1 as [w|].
        - split; [reflexivity|]. split; [reflexivity|]. split; [reflexivity|]. split; [exact Hag1|]. intros wm E. apply Htok. rewrite E. reflexivity.
        - split; [reflexivity|]. split; [reflexivity|]. split; [reflexivity|]. split; [exact Hag1|]. intros wm E. injection E as <-. reflexivity. }
      destruct (tget (sending e1) (mtok r)) as [orig|] eqn:Es; [|exact Hrecv].
      destruct (wants_to_be_received r); [exact Hrecv|].
      pose proof (continue_sending_congr e1 e2 r orig Hag) as Hc.
      destruct (continue_sending e1 r orig) as [[e1' w1] err1]. destruct (continue_sending e2 r orig) as [[e2' w2] err2].
      destruct Hc as [<- [<- [Hag1 Htok]]].
      split; [reflexivity|]. split; [reflexivity|]. split; [reflexivity|]. split; [exact Hag1|].
      intros wm E. rewrite (Htok wm E). apply Hkey. reflexivity.
    Qed.
  End Congr.

  (* the token counters of handleObserveResponse never decrease *)
  Definition cnt_ok (X : list (Z * Z)) (e : ep) : Prop := 0 <= efresh e /\ 0 <= ehid e /\ eoutside e = X.

  Lemma process_received_cnt X app e r mx isb1 : cnt_ok X e -> cnt_ok X (fst (fst (process_received app e r mx isb1))).
  Proof.
    intros [Hf [Hh Hx]]. unfold process_received, process_received_s, cnt_ok.
    destruct ((mcode r =? GET) || (mcode r =? DELETE)); [auto|].
    destruct (if isb1 then mb1 r else mb2 r) as [b|]; [|destruct (isb1 && _); auto].
    destruct (if isb1 then false else match get_sent_request e (mtok r) with None => true | Some _ => false end); [auto|].
    assert (Hk : cnt_ok X (fst (fst (observe_key e r b (get_sent_request e (mtok r)))))).
    { unfold observe_key, cnt_ok. destruct (is_observe_response r); [|auto]. destruct (get_sent_request e (mtok r)); [|auto].
      destruct (bmore b); cbn [fst efresh ehid eoutside with_sending with_counters]; (split; [lia|split; [lia|exact Hx]]). }
    destruct (observe_key e r b (get_sent_request e (mtok r))) as [[e0 key] ok]. cbn [fst] in Hk. unfold cnt_ok in Hk.
    destruct (negb ok); [exact Hk|].
    destruct (tget (receiving e0) key); destruct (bmore b); try (destruct (negb (bnum b =? 0)); exact Hk).
    all: match goal with |- context [reasm ?a ?b0 ?c1] => destruct (reasm a b0 c1) as [cm' appended] end.
    all: match goal with |- context [if ?cnd then _ else _] => destruct cnd end.
    all: try (destruct (mtok cm' =? key)).
    all: cbv zeta; try match goal with |- context [refuse_restart ?a ?n ?q] => destruct (refuse_restart a n q) end.
    all: exact Hk.
  Qed.

  Lemma handle_cnt X app e r : cnt_ok X e -> let '(e', _, _, _) := handle app e r in cnt_ok X e'.
  Proof.
    intros Hc. unfold handle.
    assert (Hcs : forall e0, cnt_ok X e0 -> forall e1, efresh e1 = efresh e0 -> ehid e1 = ehid e0 -> eoutside e1 = eoutside e0 -> cnt_ok X e1).
    { intros e0 H0 e1 H1 H2 H3. unfold cnt_ok. rewrite H1, H2, H3. exact H0. }
    assert (Hhr : cnt_ok X (fst (fst (handle_received app e r)))).
    { unfold handle_received, handle_received_s; fold_pr.
      destruct ((mcode r =? 0) || ((225 <=? mcode r) && (mcode r <=? 229))); [exact Hc|].
      destruct ((mcode r =? GET) || (mcode r =? DELETE)).
      - match goal with |- context [start_sending ?a ?b ?c0 ?d ?f] =>
          pose proof (start_sending_cfg a b c0 d f) as Hs; destruct (start_sending a b c0 d f) as [e' o] end.
        cbn [fst] in *. destruct Hs as (_ & _ & Hs1 & Hs2 & Hs3). apply (Hcs e Hc); assumption.
      - match goal with |- context [process_received ?a ?b ?c0 ?d ?f] =>
          pose proof (process_received_cnt X a b c0 d f Hc) as Hp; destruct (process_received a b c0 d f) as [[e1 o] d0] end.
        cbn [fst] in Hp. destruct o as [w|]; [|exact Hp].
        match goal with |- context [start_sending ?a ?b ?c0 ?d ?f] =>
          pose proof (start_sending_cfg a b c0 d f) as Hs; destruct (start_sending a b c0 d f) as [e' o'] end.
        cbn [fst] in *. destruct Hs as (_ & _ & Hs1 & Hs2 & Hs3). apply (Hcs e1 Hp); assumption. }
    assert (Hrecv : let '(e', _, _, _) :=
              (let '(e', o, d) := handle_received app e r in
               match o with Out w => (e', w, d, 0) | Fail => (e', Some (entity_incomplete (mtok r)), d, 1) end) in cnt_ok X e').
    { destruct (handle_received app e r) as [[e1 o] d]. cbn [fst] in Hhr. destruct o; exact Hhr. }
    destruct (tget (sending e) (mtok r)) as [orig|]; [|exact Hrecv].
    destruct (wants_to_be_received r); [exact Hrecv|].
    assert (Hco : eoutside (fst (fst (continue_sending e r orig))) = eoutside e) by (unfold continue_sending; crush_match; reflexivity).
    pose proof (continue_sending_cfg e r orig) as Hcc.
    destruct (continue_sending e r orig) as [[e2 w] err]. cbn [fst] in Hcc, Hco. destruct Hcc as (_ & _ & H1 & H2).
    apply (Hcs e Hc); assumption.
  Qed.

  Definition wcnt (w : world) : Prop := cnt_ok (coutside c) (wa w) /\ cnt_ok [] (wb w).

  Lemma complete_cnt X p d e : cnt_ok X e -> cnt_ok X (snd (fst (complete p d e))).
  Proof.
    revert e. induction p as [|[i t] p IH]; intros e Hc; cbn [complete]; [exact Hc|].
    destruct (existsb (fun m => mtok m =? t) d).
    - specialize (IH (with_sending e (tdel (sending e) t)) Hc).
      destruct (complete p d (with_sending e (tdel (sending e) t))) as [[p' e'] rets]. exact IH.
    - specialize (IH e Hc). destruct (complete p d e) as [[p' e'] rets]. exact IH.
  Qed.

  Lemma arrive_cnt w toB m : wcnt w -> wcnt (fst (arrive c w toB m)).
  Proof.
    intros [Ha Hb]. unfold arrive. destruct toB.
    - pose proof (handle_cnt [] (app_b c (vers w)) (wb w) m Hb) as Hh.
      destruct (handle (app_b c (vers w)) (wb w) m) as [[[e' o] d] nerr]. cbn [fst]. unfold wcnt. rewrite emit_wa, emit_wb. split; assumption.
    - pose proof (handle_cnt (coutside c) app_a (wa w) m Ha) as Hh.
      destruct (handle app_a (wa w) m) as [[[e' o] d] nerr].
      pose proof (complete_cnt (coutside c) (pending w) d e' Hh) as Hc.
      destruct (complete (pending w) d e') as [[p' e''] rets]. cbn [fst snd] in *. unfold wcnt. rewrite emit_wa, emit_wb. split; assumption.
  Qed.

  Lemma step_cnt w e : wcnt w -> wcnt (fst (step c w e)).
  Proof.
    intros Hc. pose proof Hc as [Ha Hb].
    assert (Hss : forall X e0 w0 mx mm b, cnt_ok X e0 -> cnt_ok X (fst (start_sending e0 w0 mx mm b))).
    { intros X e0 w0 mx mm b H0. pose proof (start_sending_cfg e0 w0 mx mm b) as Hs. cbv zeta in Hs.
      destruct Hs as (_ & _ & H1 & H2 & H3). unfold cnt_ok. rewrite H1, H2, H3. exact H0. }
    destruct e as [i|j|j|j|h|k|i|atB]; cbn [step].
    - destruct (nth_error (cexch c) i) as [x|]; [|exact Hc].
      destruct (xkind x =? 0).
      + assert (Hd : cnt_ok (coutside c) (fst (do_start (wa w) (request_of x)))).
        { unfold do_start. destruct (tget (sending (wa w)) (mtok (request_of x))); [exact Ha|].
          destruct (blen (mbody (request_of x)) <=? size (eszx (wa w))); [exact Ha|].
          destruct (negb (is_upload (mcode (request_of x)))); exact Ha. }
        destruct (do_start (wa w) (request_of x)) as [e' [m|]]; cbn [fst] in *; unfold started, wcnt; cbn [fst];
          rewrite emit_wa, emit_wb; split; assumption.
      + destruct (xkind x =? 1); unfold write_start.
        * match goal with |- context [start_sending ?a ?b0 ?c0 ?d ?f] =>
            pose proof (Hss _ a b0 c0 d f Ha) as Hs; destruct (start_sending a b0 c0 d f) as [e' [m|]] end;
          cbn [fst] in *; unfold started, wcnt; cbn [fst]; rewrite emit_wa, emit_wb; split; assumption.
        * match goal with |- context [start_sending ?a ?b0 ?c0 ?d ?f] =>
            pose proof (Hss _ a b0 c0 d f Hb) as Hs; destruct (start_sending a b0 c0 d f) as [e' [m|]] end;
          cbn [fst] in *; unfold started, wcnt; cbn [fst]; rewrite emit_wa, emit_wb; split; assumption.
    - destruct (nth_error (flight w) j) as [[toB m]|]; [|exact Hc]. apply arrive_cnt. exact Hc.
    - destruct (nth_error (flight w) j) as [[toB m]|]; [|exact Hc]. apply arrive_cnt. exact Hc.
    - exact Hc.
    - destruct (nth_error (whist w) h) as [[toB m]|]; [|exact Hc]. apply arrive_cnt. exact Hc.
    - exact Hc.
    - destruct (find (fun p => Nat.eqb (fst p) i) (pending w)) as [[i' t]|]; exact Hc.
    - destruct atB; exact Hc.
  Qed.

  (* ---------------------------------------------------------------------- *)
  (* 13. isolation over whole runs: whatever happens to token t in a run with *)
  (*     any number of concurrent exchanges also happens in a run in which    *)
  (*     only the exchanges with token t exist on the wire (simulation)       *)
  Definition filt (t : Z) (l : list (bool * msg)) : list (bool * msg) := filter (fun p => mtok (snd p) =? t) l.
  Definition pfilt (t : Z) (p : list (nat * Z)) : list (nat * Z) := filter (fun q => snd q =? t) p.
  Definition cnt {A} (f : A -> bool) (l : list A) : nat := length (filter f l).

  Lemma filter_nth_true {A} (f : A -> bool) : forall l j a,
    nth_error l j = Some a -> f a = true ->
    nth_error (filter f l) (cnt f (firstn j l)) = Some a /\
    filter f (remove_nth j l) = remove_nth (cnt f (firstn j l)) (filter f l).
  Proof.
    induction l as [|x l IH]; intros j a Hn Hf; [destruct j; discriminate|].
    destruct j as [|j]; cbn [nth_error] in Hn.
    - injection Hn as ->. cbn [firstn filter cnt length remove_nth]. rewrite Hf. cbn [nth_error remove_nth]. auto.
    - destruct (IH j a Hn Hf) as [H1 H2]. cbn [firstn filter remove_nth]. unfold cnt in *. cbn [filter].
      destruct (f x); cbn [length nth_error remove_nth]; [split; [exact H1|rewrite H2; reflexivity]|split; assumption].
  Qed.
  Lemma filter_nth_false {A} (f : A -> bool) : forall l j a,
    nth_error l j = Some a -> f a = false -> filter f (remove_nth j l) = filter f l.
  Proof.
    induction l as [|x l IH]; intros j a Hn Hf; [destruct j; discriminate|].
    destruct j as [|j]; cbn [nth_error] in Hn.
    - injection Hn as ->. cbn [remove_nth filter]. rewrite Hf. reflexivity.
    - cbn [remove_nth filter]. rewrite (IH j a Hn Hf). reflexivity.
  Qed.
  Lemma remove_nth_none {A} : forall (l : list A) j, nth_error l j = None -> remove_nth j l = l.
  Proof.
    induction l as [|x l IH]; intros j Hn; [destruct j; reflexivity|].
    destruct j; [discriminate|]. cbn [remove_nth]. rewrite IH by exact Hn. reflexivity.
  Qed.
  Lemma filt_app t l1 l2 : filt t (l1 ++ l2) = filt t l1 ++ filt t l2.
  Proof. apply filter_app. Qed.

  Definition sim (t : Z) (w u : world) : Prop :=
    tget (sending (wa w)) t = tget (sending (wa u)) t /\ tget (receiving (wa w)) t = tget (receiving (wa u)) t /\
    tget (sending (wb w)) t = tget (sending (wb u)) t /\ tget (receiving (wb w)) t = tget (receiving (wb u)) t /\
    vers w = vers u /\ filt t (flight w) = flight u /\ filt t (whist w) = whist u /\ pfilt t (pending w) = pending u.

  (* the deliveries of one event that carry token t, with the side they were made at *)
  Definition tdeliv (t : Z) (o : mob) : list (Z * msg) :=
    map (pair (mo_side o)) (filter (fun d => mtok d =? t) (mo_deliv o)).

  Lemma sim_emit t w u toB o :
    sim t w u -> (forall x, o = Some x -> mtok x = t) -> sim t (emit w toB o) (emit u toB o).
  Proof.
    intros (H1 & H2 & H3 & H4 & H5 & H6 & H7 & H8) Ho. destruct o as [x|]; [|repeat split; assumption].
    unfold sim, emit. cbn [wa wb vers flight whist pending]. repeat (split; [assumption|]).
    rewrite !filt_app. unfold filt at 2 4. cbn [filter snd]. rewrite (Ho x eq_refl), Z.eqb_refl.
    split; [rewrite H6; reflexivity|]. split; [rewrite H7; reflexivity|exact H8].
  Qed.
  Lemma sim_emit_other t w u toB o :
    sim t w u -> (forall x, o = Some x -> mtok x <> t) -> sim t (emit w toB o) u.
  Proof.
    intros (H1 & H2 & H3 & H4 & H5 & H6 & H7 & H8) Ho. destruct o as [x|]; [|repeat split; assumption].
    unfold sim, emit. cbn [wa wb vers flight whist pending]. repeat (split; [assumption|]).
    rewrite !filt_app. unfold filt at 2 4. cbn [filter snd].
    replace (mtok x =? t) with false by (symmetry; apply Z.eqb_neq; apply Ho; reflexivity).
    rewrite !app_nil_r. repeat split; assumption.
  Qed.

  (* complete, seen through the filter *)
  Lemma complete_same t : forall p d e1 e2,
    (forall x, In x d -> mtok x = t) -> tget (sending e1) t = tget (sending e2) t ->
    let '(p1, e1', r1) := complete p d e1 in
    let '(p2, e2', r2) := complete (pfilt t p) d e2 in
    p2 = pfilt t p1 /\ r1 = r2 /\ tget (sending e1') t = tget (sending e2') t /\
    receiving e1' = receiving e1 /\ receiving e2' = receiving e2.
  Proof.
    induction p as [|[i t0] p IH]; intros d e1 e2 Hd Hs; cbn [complete pfilt filter]; [auto|].
    cbn [snd]. destruct (t0 =? t) eqn:Et.
    - apply Z.eqb_eq in Et. subst t0. cbn [complete].
      destruct (existsb (fun m => mtok m =? t) d).
      + specialize (IH d (with_sending e1 (tdel (sending e1) t)) (with_sending e2 (tdel (sending e2) t)) Hd).
        cbn [sending with_sending] in IH. specialize (IH (tget_tdel_congr _ _ _ _ Hs)). fold (pfilt t p) in *.
        destruct (complete p d (with_sending e1 (tdel (sending e1) t))) as [[p1 e1'] r1].
        destruct (complete (pfilt t p) d (with_sending e2 (tdel (sending e2) t))) as [[p2 e2'] r2].
        destruct IH as (A1 & A2 & A3 & A4 & A5). rewrite A2. auto.
      + specialize (IH d e1 e2 Hd Hs). fold (pfilt t p) in *.
        destruct (complete p d e1) as [[p1 e1'] r1]. destruct (complete (pfilt t p) d e2) as [[p2 e2'] r2].
        destruct IH as (A1 & A2 & A3 & A4 & A5). cbn [pfilt filter snd]. rewrite Z.eqb_refl. fold (pfilt t p1). rewrite A1. auto.
    - assert (Hex : existsb (fun m => mtok m =? t0) d = false).
      { destruct (existsb (fun m => mtok m =? t0) d) eqn:E; [|reflexivity]. apply existsb_exists in E. destruct E as [x [Hx E]].
        apply Z.eqb_eq in E. rewrite (Hd x Hx) in E. subst t0. rewrite Z.eqb_refl in Et. discriminate. }
      rewrite Hex. specialize (IH d e1 e2 Hd Hs). fold (pfilt t p) in *.
      destruct (complete p d e1) as [[p1 e1'] r1]. destruct (complete (pfilt t p) d e2) as [[p2 e2'] r2].
      destruct IH as (A1 & A2 & A3 & A4 & A5). cbn [pfilt filter snd]. rewrite Et. fold (pfilt t p1). auto.
  Qed.

  Lemma complete_other t : forall p d e,
    (forall x, In x d -> mtok x <> t) ->
    let '(p', e', _) := complete p d e in
    pfilt t p' = pfilt t p /\ tget (sending e') t = tget (sending e) t /\ receiving e' = receiving e.
  Proof.
    induction p as [|[i t0] p IH]; intros d e Hd; cbn [complete]; [auto|].
    destruct (existsb (fun m => mtok m =? t0) d) eqn:Ex.
    - assert (Hne : t0 <> t).
      { apply existsb_exists in Ex. destruct Ex as [x [Hx E]]. apply Z.eqb_eq in E. intros ->. exact (Hd x Hx E). }
      specialize (IH d (with_sending e (tdel (sending e) t0)) Hd).
      destruct (complete p d (with_sending e (tdel (sending e) t0))) as [[p' e'] rets]. destruct IH as (A1 & A2 & A3).
      cbn [pfilt filter snd]. replace (t0 =? t) with false by (symmetry; apply Z.eqb_neq; exact Hne). fold (pfilt t p).
      split; [exact A1|]. split; [|exact A3]. rewrite A2. cbn [sending with_sending]. apply tget_tdel_other. exact Hne.
    - specialize (IH d e Hd). destruct (complete p d e) as [[p' e'] rets]. destruct IH as (A1 & A2 & A3).
      cbn [pfilt filter snd]. fold (pfilt t p') (pfilt t p). rewrite A1. auto.
  Qed.

  Lemma app_b_tok vs t d w : app_b c vs t d = Some w -> mtok w = t.
  Proof.
    unfold app_b. destruct ((GET <=? mcode d) && (mcode d <=? DELETE)); [|discriminate].
    destruct (zassoc (mother d) 11); [|discriminate]. destruct (nth_error (cres c) (Z.to_nat z)); [|discriminate].
    intros E. injection E as <-. reflexivity.
  Qed.
  Lemma app_a_tok t d w : app_a t d = Some w -> mtok w = t.
  Proof. discriminate. Qed.

  Lemma okB_szx V m : okB V m -> forall b, mb1 m = Some b \/ mb2 m = Some b -> 0 <= bszx b.
  Proof.
    intros [[x [_ [_ [_ [Hb2 Hb1]]]]]|[[_ [Hn2 [_ Hcode]]] Hinc]] b [Hb|Hb].
    - rewrite Hb in Hb1. lia.
    - apply (Hb2 b Hb).
    - destruct Hcode as [[Hc _]|[_ Hn]]; [rewrite Hc in Hinc; discriminate Hinc|congruence].
    - congruence.
  Qed.
  Lemma okA_szx V m : okA V m -> forall b, mb1 m = Some b \/ mb2 m = Some b -> 0 <= bszx b.
  Proof.
    intros [[x [r [v [_ [_ [_ [[_ [_ [_ [_ Hn1]]]] [_ Hbody]]]]]]]]|[_ [Hn2 [_ Hcode]]]] b [Hb|Hb].
    - congruence.
    - rewrite Hb in Hbody. lia.
    - destruct Hcode as [[_ Hbb]|[_ Hn]]; [apply (Hbb b Hb)|congruence].
    - congruence.
  Qed.

  Lemma sendA_key t k m : sendA t -> tget t k = Some m -> mtok m = k.
  Proof. intros Hs Hg. destruct (Hs _ _ Hg) as [x [_ [Hk ->]]]. exact Hk. Qed.
  Lemma sendB_key V t k m : sendB V t -> tget t k = Some m -> mtok m = k.
  Proof. intros Hs Hg. destruct (Hs _ _ Hg) as [Hk _]. exact Hk. Qed.

  (* a message with token t arrives in both worlds *)
  Lemma arrive_same N t w u toB m :
    sim t w u -> winv N w -> winv N u -> wcnt w -> wcnt u ->
    (if toB : bool then okB (Vof w) m else okA (Vof w) m) -> mtok m = t ->
    let '(w1, o1) := arrive c w toB m in
    let '(u1, o2) := arrive c u toB m in
    sim t w1 u1 /\ mo_deliv o1 = mo_deliv o2 /\ mo_side o1 = mo_side o2.
  Proof.
    intros Hsim Hw Hu Hcw Hcu Hm Htok. pose proof Hsim as (S1 & S2 & S3 & S4 & S5 & S6 & S7 & S8).
    destruct Hw as (HAw & HBw & _). destruct Hu as (HAu & HBu & _).
    unfold arrive. destruct toB.
    - rewrite <- S5.
      assert (Hag : agree_at (mtok m) (wb w) (wb u)).
      { rewrite Htok. destruct HBw as (E1 & E2 & _). destruct HBu as (F1 & F2 & _).
        destruct Hcw as [_ (_ & _ & O1)]. destruct Hcu as [_ (_ & _ & O2)].
        unfold agree_at. rewrite E1, E2, F1, F2, O1, O2. auto. }
      pose proof (handle_congr (app_b c (vers w)) (app_b_tok (vers w)) (wb w) (wb u) m (okB_nonobs _ _ Hm) Hag) as Hc.
      destruct (handle (app_b c (vers w)) (wb w) m) as [[[e1 o1] d1] n1].
      destruct (handle (app_b c (vers w)) (wb u) m) as [[[e2 o2] d2] n2].
      destruct Hc as (<- & <- & <- & Hag' & Hot).
      { intros m0 Hg. destruct HBw as (_ & _ & Hs & _). eapply sendB_key; eassumption. }
      cbn [mo_deliv mo_side]. split; [|auto]. apply sim_emit; [|intros x E; rewrite <- Htok; apply Hot; exact E].
      destruct Hag' as (_ & _ & _ & G1 & G2). rewrite Htok in G1, G2.
      unfold sim. cbn [wa wb vers flight whist pending with_b]. auto 10.
    - assert (Hag : agree_at (mtok m) (wa w) (wa u)).
      { rewrite Htok. destruct HAw as (E1 & E2 & E3 & _). destruct HAu as (F1 & F2 & F3 & _).
        unfold agree_at. rewrite E1, E2, E3, F1, F2, F3. auto. }
      pose proof (handle_congr app_a app_a_tok (wa w) (wa u) m (okA_nonobs _ _ Hm) Hag) as Hc.
      pose proof (handle_once_pot app_a (wa w) m (okA_nonobs _ _ Hm)) as Hop.
      destruct (handle app_a (wa w) m) as [[[e1 o1] d1] n1].
      destruct (handle app_a (wa u) m) as [[[e2 o2] d2] n2].
      destruct Hc as (<- & <- & <- & Hag' & Hot).
      { intros m0 Hg. destruct HAw as (_ & _ & _ & Hs & _). eapply sendA_key; eassumption. }
      destruct Hop as (_ & Hdt & _).
      { intros cm Hg. destruct HAw as (_ & _ & _ & _ & Hr). eapply recvA_key; eassumption. }
      rewrite Htok in Hdt. destruct Hag' as (_ & _ & _ & G1 & G2). rewrite Htok in G1, G2.
      pose proof (complete_same t (pending w) d1 e1 e2 Hdt G1) as Hcs. rewrite S8 in Hcs.
      destruct (complete (pending w) d1 e1) as [[p1 e1'] r1]. destruct (complete (pending u) d1 e2) as [[p2 e2'] r2].
      destruct Hcs as (P1 & P2 & P3 & P4 & P5).
      cbn [mo_deliv mo_side]. split; [|auto]. apply sim_emit; [|intros x E; rewrite <- Htok; apply Hot; exact E].
      unfold sim. cbn [wa wb vers flight whist pending with_a with_pending]. rewrite P4, P5. auto 10.
  Qed.

  (* a message with another token arrives (in the full world only) *)
  Lemma arrive_other N t w u toB m :
    sim t w u -> winv N w -> wcnt w ->
    (if toB : bool then okB (Vof w) m else okA (Vof w) m) -> mtok m <> t -> 0 <= t < FRESH ->
    let '(w1, o1) := arrive c w toB m in sim t w1 u /\ tdeliv t o1 = [].
  Proof.
    intros Hsim Hw Hcw Hm Hne Ht. pose proof Hsim as (S1 & S2 & S3 & S4 & S5 & S6 & S7 & S8).
    destruct Hw as (HAw & HBw & _).
    assert (Hnil : forall (side : Z) (d : list msg), (forall x, In x d -> mtok x = mtok m) ->
                   map (pair side) (filter (fun x => mtok x =? t) d) = []).
    { intros side d Hd. induction d as [|x d IH]; [reflexivity|]. cbn [filter].
      rewrite (Hd x (or_introl eq_refl)). replace (mtok m =? t) with false by (symmetry; apply Z.eqb_neq; exact Hne).
      apply IH. intros y Hy. apply Hd. right. exact Hy. }
    unfold arrive. destruct toB.
    - destruct HBw as (E1 & E2 & Hs & Hr). destruct Hcw as [_ (C1 & C2 & _)].
      assert (Hsz : 0 <= eszx (wb w) <= 7) by (rewrite E1; apply (wf_szxB c Hwf)).
      pose proof (handle_isolated (app_b c (vers w)) (app_b_tok (vers w)) (wb w) m t Hsz (okB_szx _ _ Hm) C1 C2 (not_eq_sym Hne) Ht) as Hi.
      pose proof (handle_congr (app_b c (vers w)) (app_b_tok (vers w)) (wb w) (wb w) m (okB_nonobs _ _ Hm) (agree_refl _ _)) as Hc.
      pose proof (handle_once_pot (app_b c (vers w)) (wb w) m (okB_nonobs _ _ Hm)) as Hop.
      destruct (handle (app_b c (vers w)) (wb w) m) as [[[e1 o1] d1] n1].
      destruct Hc as (_ & _ & _ & _ & Hot); [intros m0 Hg; eapply sendB_key; eassumption|].
      destruct Hop as (_ & Hdt & _); [intros cm Hg; eapply recvB_key; eassumption|].
      destruct Hi as [I1 I2].
      split; [|unfold tdeliv; cbn [mo_deliv mo_side]; apply Hnil; exact Hdt].
      apply sim_emit_other; [|intros x E; rewrite (Hot x E); exact Hne].
      unfold sim. cbn [wa wb vers flight whist pending with_b]. rewrite I1, I2. auto 10.
    - destruct HAw as (E1 & E2 & E3 & Hs & Hr). destruct Hcw as [(C1 & C2 & _) _].
      assert (Hsz : 0 <= eszx (wa w) <= 7) by (rewrite E1; apply (wf_szxA c Hwf)).
      pose proof (handle_isolated app_a app_a_tok (wa w) m t Hsz (okA_szx _ _ Hm) C1 C2 (not_eq_sym Hne) Ht) as Hi.
      pose proof (handle_congr app_a app_a_tok (wa w) (wa w) m (okA_nonobs _ _ Hm) (agree_refl _ _)) as Hc.
      pose proof (handle_once_pot app_a (wa w) m (okA_nonobs _ _ Hm)) as Hop.
      destruct (handle app_a (wa w) m) as [[[e1 o1] d1] n1].
      destruct Hc as (_ & _ & _ & _ & Hot); [intros m0 Hg; eapply sendA_key; eassumption|].
      destruct Hop as (_ & Hdt & _); [intros cm Hg; eapply recvA_key; eassumption|].
      destruct Hi as [I1 I2].
      pose proof (complete_other t (pending w) d1 e1) as Hco.
      destruct (complete (pending w) d1 e1) as [[p1 e1'] r1].
      destruct Hco as (P1 & P2 & P3); [intros x Hx; rewrite (Hdt x Hx); exact Hne|].
      split; [|unfold tdeliv; cbn [mo_deliv mo_side]; apply Hnil; exact Hdt].
      apply sim_emit_other; [|intros x E; rewrite (Hot x E); exact Hne].
      unfold sim. cbn [wa wb vers flight whist pending with_a with_pending]. rewrite P1, P2, P3, I1, I2. auto 10.
  Qed.

  Lemma do_start_congr t e1 e2 r :
    mtok r = t -> agree_at t e1 e2 ->
    let '(e1', o1) := do_start e1 r in let '(e2', o2) := do_start e2 r in
    o1 = o2 /\ agree_at t e1' e2' /\ (forall m, o1 = Some m -> mtok m = t).
  Proof.
    intros Ht Hag. pose proof Hag as (H1 & H2 & H3 & H4 & H5). unfold do_start. rewrite Ht, <- H4, <- H1, <- H2.
    destruct (tget (sending e1) t) eqn:Es; [split; [reflexivity|split; [exact Hag|discriminate]]|].
    assert (Hput : agree_at t (with_sending e1 (tput (sending e1) t r)) (with_sending e2 (tput (sending e2) t r))).
    { unfold agree_at. cbn [eszx emax eoutside sending receiving with_sending]. repeat (split; [assumption|]).
      split; [|exact H5]. apply tget_tput_congr. rewrite Es. exact H4. }
    destruct (blen (mbody r) <=? size (eszx e1)).
    { split; [reflexivity|split; [exact Hput|]]. intros m E. injection E as <-. exact Ht. }
    destruct (negb (is_upload (mcode r))).
    { split; [reflexivity|split; [|discriminate]]. unfold agree_at. cbn [eszx emax eoutside sending receiving with_sending].
      repeat (split; [assumption|]). split; [|exact H5]. apply tget_tdel_congr, tget_tput_congr. rewrite Es. exact H4. }
    split; [reflexivity|split; [exact Hput|]]. intros m E. injection E as <-. exact Ht.
  Qed.

  Lemma do_start_other t e r :
    mtok r <> t ->
    let '(e', o) := do_start e r in
    tget (sending e') t = tget (sending e) t /\ receiving e' = receiving e /\ (forall m, o = Some m -> mtok m = mtok r).
  Proof.
    intros Hne. unfold do_start. destruct (tget (sending e) (mtok r)); [split; [reflexivity|split; [reflexivity|discriminate]]|].
    destruct (blen (mbody r) <=? size (eszx e)).
    { cbn [sending receiving with_sending]. split; [apply tget_tput_other; exact Hne|split; [reflexivity|]].
      intros m E. injection E as <-. reflexivity. }
    destruct (negb (is_upload (mcode r))); cbn [sending receiving with_sending].
    - split; [rewrite tget_tdel_other by exact Hne; apply tget_tput_other; exact Hne|split; [reflexivity|discriminate]].
    - split; [apply tget_tput_other; exact Hne|split; [reflexivity|]]. intros m E. injection E as <-. reflexivity.
  Qed.

  Lemma start_sending_other t e wm mx mm b :
    mtok wm <> t ->
    let '(e', o) := start_sending e (Some wm) mx mm b in
    tget (sending e') t = tget (sending e) t /\ receiving e' = receiving e /\ (forall m, o = Out (Some m) -> mtok m = mtok wm).
  Proof.
    intros Hne. unfold start_sending.
    destruct (blen (mbody wm) <? size mx).
    { split; [reflexivity|split; [reflexivity|]]. intros m E. injection E as <-. reflexivity. }
    destruct (create_sending wm mx mm b) as [[sm more]|] eqn:Hcs; [|split; [reflexivity|split; [reflexivity|discriminate]]].
    pose proof (create_sending_tok _ _ _ _ _ _ Hcs) as Htk.
    destruct (is_observe_response sm).
    { split; [reflexivity|split; [reflexivity|]]. intros m E. injection E as <-. exact Htk. }
    destruct (tget (sending e) (mtok sm)); [split; [reflexivity|split; [reflexivity|discriminate]]|].
    cbn [sending receiving with_sending]. rewrite Htk.
    split; [apply tget_tput_other; exact Hne|split; [reflexivity|]]. intros m E. injection E as <-. exact Htk.
  Qed.

  Lemma find_filter {A} (f g : A -> bool) : forall l a, find f l = Some a -> g a = true -> find f (filter g l) = Some a.
  Proof.
    induction l as [|x l IH]; intros a Hf Hg; [discriminate|]. cbn [find] in Hf. cbn [filter].
    destruct (f x) eqn:Ef.
    - injection Hf as ->. rewrite Hg. cbn [find]. rewrite Ef. reflexivity.
    - destruct (g x); [cbn [find]; rewrite Ef|]; apply IH; assumption.
  Qed.
  Lemma filter_comm {A} (f g : A -> bool) l : filter f (filter g l) = filter g (filter f l).
  Proof.
    induction l as [|x l IH]; [reflexivity|]. cbn [filter].
    destruct (g x) eqn:Eg; destruct (f x) eqn:Ef; cbn [filter]; rewrite ?Eg, ?Ef, IH; reflexivity.
  Qed.
  Lemma find_some_prop {A} (f : A -> bool) l a : find f l = Some a -> In a l /\ f a = true.
  Proof. apply find_some. Qed.

  (* removing the pending entries of exchange i does not touch the entries of another token *)
  Lemma pfilt_timeout_other t i t0 p :
    pend_ok p -> In (i, t0) p -> t0 <> t -> pfilt t (filter (fun q => negb (Nat.eqb (fst q) i)) p) = pfilt t p.
  Proof.
    intros Hp Hin Hne.
    assert (Hall : forall q, In q p -> fst q = i -> snd q = t0).
    { intros [i' t'] Hq E. cbn in E. subst i'. destruct (Hp i t' Hq) as [x [Hx <-]]. destruct (Hp i t0 Hin) as [y [Hy <-]]. cbn [snd]. rewrite Hx in Hy. injection Hy as ->. reflexivity. }
    clear Hin Hp. induction p as [|[i' t'] p IH]; [reflexivity|]. cbn [filter fst].
    destruct (Nat.eqb i' i) eqn:Ei; cbn [negb].
    - apply Nat.eqb_eq in Ei. subst i'. pose proof (Hall (i, t') (or_introl eq_refl) eq_refl) as E. cbn in E. subst t'.
      cbn [pfilt filter snd]. replace (t0 =? t) with false by (symmetry; apply Z.eqb_neq; exact Hne).
      apply IH. intros q Hq. apply Hall. right. exact Hq.
    - cbn [pfilt filter snd]. fold (pfilt t (filter (fun q => negb (Nat.eqb (fst q) i)) p)) (pfilt t p).
      rewrite IH by (intros q Hq; apply Hall; right; exact Hq). reflexivity.
  Qed.

  Definition solo_ok (t : Z) (es : list ev) : Prop :=
    forall i, In (Start i) es -> exists x, nth_error (cexch c) i = Some x /\ xtok x = t.

  Definition sim_step (t : Z) (w u : world) (e : ev) (es' : list ev) : Prop :=
    (forall k, bumps es' k = bump_count e k) /\ Forall bump_ok es' /\ solo_ok t es' /\
    sim t (fst (step c w e)) (exec u es') /\
    tdeliv t (snd (step c w e)) = flat_map (tdeliv t) (run c u es').

  Lemma sim_step_nil t w u e :
    (forall k, bump_count e k = 0) -> sim t (fst (step c w e)) u -> tdeliv t (snd (step c w e)) = [] -> sim_step t w u e [].
  Proof.
    intros Hb Hs Hd. split; [intros k; rewrite Hb; reflexivity|]. split; [constructor|]. split; [intros i []|].
    split; [exact Hs|exact Hd].
  Qed.
  Lemma sim_step_one t w u e e' :
    (forall k, bump_count e' k = bump_count e k) -> bump_ok e' ->
    (forall i, e' = Start i -> exists x, nth_error (cexch c) i = Some x /\ xtok x = t) ->
    sim t (fst (step c w e)) (fst (step c u e')) -> tdeliv t (snd (step c w e)) = tdeliv t (snd (step c u e')) ->
    sim_step t w u e [e'].
  Proof.
    intros Hb Hbo Hso Hs Hd. split; [intros k; rewrite bumps_cons, Hb; unfold bumps; cbn; lia|].
    split; [constructor; [exact Hbo|constructor]|]. split; [intros i [E|[]]; apply Hso; exact E|].
    cbn [exec run]. destruct (step c u e') as [u' o']. cbn [fst snd flat_map] in *. rewrite app_nil_r. auto.
  Qed.

  Lemma quiet_tdeliv t w0 : tdeliv t (snd (quiet w0)) = [].
  Proof. reflexivity. Qed.

  Lemma sim_with_flight t w u f g : sim t w u -> filt t f = g -> sim t (with_flight w f) (with_flight u g).
  Proof. intros (H1 & H2 & H3 & H4 & H5 & H6 & H7 & H8) Hf. unfold sim. cbn [wa wb vers flight whist pending with_flight]. auto 10. Qed.
  Lemma sim_with_flight_l t w u f : sim t w u -> filt t f = filt t (flight w) -> sim t (with_flight w f) u.
  Proof.
    intros (H1 & H2 & H3 & H4 & H5 & H6 & H7 & H8) Hf. unfold sim. cbn [wa wb vers flight whist pending with_flight].
    rewrite Hf. auto 10.
  Qed.

  (* in-flight / history messages of the full world are well formed *)
  Lemma winv_wire N w toB m : winv N w -> In (toB, m) (whist w) -> if toB : bool then okB (Vof w) m else okA (Vof w) m.
  Proof. intros (_ & _ & Hw & _) Hin. exact (Hw _ _ Hin). Qed.

  Lemma step_sim N t w u e :
    sim t w u -> winv N w -> winv N u -> wcnt w -> wcnt u -> pend_ok (pending w) -> 0 <= t < FRESH -> bump_ok e ->
    exists es', sim_step t w u e es'.
  Proof.
    intros Hsim Hw Hu Hcw Hcu Hpw Ht Hbo. pose proof Hsim as (S1 & S2 & S3 & S4 & S5 & S6 & S7 & S8).
    pose proof Hw as (HAw & HBw & Hwire & Hfl & _). pose proof Hu as (HAu & HBu & _).
    assert (HagA : agree_at t (wa w) (wa u)).
    { destruct HAw as (E1 & E2 & E3 & _). destruct HAu as (F1 & F2 & F3 & _).
      unfold agree_at. rewrite E1, E2, E3, F1, F2, F3. auto. }
    destruct e as [i|j|j|j|h|k|i|atB].
    - (* Start *)
      cbn [step]. destruct (nth_error (cexch c) i) as [x|] eqn:Hx.
      2: { exists []. apply sim_step_nil; cbn [step]; rewrite ?Hx; auto. }
      pose proof (nth_error_In _ _ Hx) as Hxin. destruct (wf_exch c Hwf x Hxin) as [Hkind _].
      destruct (Z.eq_dec (xtok x) t) as [Etok|Ntok].
      + exists [Start i]. apply sim_step_one; auto.
        { intros i' E. injection E as <-. exists x. auto. }
        all: cbn [step]; rewrite Hx.
        all: destruct (xkind x =? 0) eqn:K0.
        * pose proof (do_start_congr t (wa w) (wa u) (request_of x) Etok HagA) as Hd.
          destruct (do_start (wa w) (request_of x)) as [e1 o1]. destruct (do_start (wa u) (request_of x)) as [e2 o2].
          destruct Hd as (<- & (_ & _ & _ & G1 & G2) & Hot).
          destruct o1 as [m|]; unfold started; cbn [fst]; apply sim_emit; try (intros y E; apply Hot; exact E); try discriminate;
            unfold sim; cbn [wa wb vers flight whist pending with_a with_pending]; auto 10.
          unfold pfilt. rewrite filter_app. cbn [filter snd]. rewrite Etok, Z.eqb_refl. fold (pfilt t (pending w)). rewrite S8. auto 10.
        * destruct (xkind x =? 1) eqn:K1; [|exfalso; apply Z.eqb_neq in K0, K1; lia]. unfold write_start.
          destruct HAw as (E1 & E2 & _). destruct HAu as (F1 & F2 & _). rewrite E1, E2, F1, F2.
          match goal with |- context [start_sending (wa w) ?w0 ?mx ?mm ?b] =>
            pose proof (start_sending_congr t (wa w) (wa u) w0 mx mm b HagA) as Hs;
            destruct (start_sending (wa w) w0 mx mm b) as [e1 o1]; destruct (start_sending (wa u) w0 mx mm b) as [e2 o2] end.
          destruct Hs as (<- & (_ & _ & _ & G1 & G2) & Hot); [intros wm E; injection E as <-; exact Etok|].
          destruct o1 as [m|]; unfold started; cbn [fst]; apply sim_emit; try (intros y E; apply Hot; rewrite E; reflexivity); try discriminate;
            unfold sim; cbn [wa wb vers flight whist pending with_a]; auto 10.
        * destruct (do_start (wa w) (request_of x)) as [e1 [m1|]]; destruct (do_start (wa u) (request_of x)) as [e2 [m2|]]; reflexivity.
        * destruct (xkind x =? 1); unfold write_start;
            repeat match goal with |- context [start_sending ?a ?w0 ?mx ?mm ?b] => destruct (start_sending a w0 mx mm b) as [? [?|]] end; reflexivity.
      + exists []. apply sim_step_nil; auto; cbn [step]; rewrite Hx.
        all: destruct (xkind x =? 0) eqn:K0.
        * pose proof (do_start_other t (wa w) (request_of x) Ntok) as Hd.
          destruct (do_start (wa w) (request_of x)) as [e1 o1]. destruct Hd as (G1 & G2 & Hot).
          destruct o1 as [m|]; unfold started; cbn [fst]; apply sim_emit_other; try (intros y E; rewrite (Hot y E); exact Ntok); try discriminate;
            unfold sim; cbn [wa wb vers flight whist pending with_a with_pending]; rewrite G1, G2; auto 10.
          unfold pfilt. rewrite filter_app. cbn [filter snd]. replace (xtok x =? t) with false by (symmetry; apply Z.eqb_neq; exact Ntok).
          rewrite app_nil_r. fold (pfilt t (pending w)). auto 10.
        * destruct (xkind x =? 1) eqn:K1; [|exfalso; apply Z.eqb_neq in K0, K1; lia]. unfold write_start.
          match goal with |- context [start_sending (wa w) (Some ?wm) ?mx ?mm ?b] =>
            pose proof (start_sending_other t (wa w) wm mx mm b Ntok) as Hs; destruct (start_sending (wa w) (Some wm) mx mm b) as [e1 o1] end.
          destruct Hs as (G1 & G2 & Hot).
          destruct o1 as [m|]; unfold started; cbn [fst]; apply sim_emit_other; try (intros y E; rewrite (Hot y); [exact Ntok|rewrite E; reflexivity]); try discriminate;
            unfold sim; cbn [wa wb vers flight whist pending with_a]; rewrite G1, G2; auto 10.
        * destruct (do_start (wa w) (request_of x)) as [e1 [m1|]]; reflexivity.
        * destruct (xkind x =? 1); unfold write_start;
            repeat match goal with |- context [start_sending ?a ?w0 ?mx ?mm ?b] => destruct (start_sending a w0 mx mm b) as [? [?|]] end; reflexivity.
    - (* Deliver *)
      cbn [step]. destruct (nth_error (flight w) j) as [[toB m]|] eqn:Hj.
      2: { exists []. apply sim_step_nil; cbn [step]; rewrite ?Hj; auto. }
      pose proof (nth_error_In _ _ Hj) as Hin. pose proof (winv_wire N w toB m Hw (Hfl _ Hin)) as Hm.
      assert (Hwf' : winv N (with_flight w (remove_nth j (flight w))))
        by (apply winv_flight; [exact Hw|intros y Hy; eapply remove_nth_In; exact Hy]).
      destruct (Z.eq_dec (mtok m) t) as [Etok|Ntok].
      + destruct (filter_nth_true (fun p : bool * msg => mtok (snd p) =? t) (flight w) j (toB, m) Hj) as [Hj' Hrm];
          [cbn; apply Z.eqb_eq; exact Etok|].
        fold (filt t (flight w)) in Hj', Hrm. fold (filt t (remove_nth j (flight w))) in Hrm. rewrite S6 in Hj', Hrm.
        set (j' := cnt (fun p : bool * msg => mtok (snd p) =? t) (firstn j (flight w))) in *.
        assert (Huf' : winv N (with_flight u (remove_nth j' (flight u))))
          by (apply winv_flight; [exact Hu|intros y Hy; eapply remove_nth_In; exact Hy]).
        pose proof (arrive_same N t _ _ toB m (sim_with_flight t w u _ _ Hsim Hrm) Hwf' Huf' Hcw Hcu Hm Etok) as Har.
        exists [Deliver j']. apply sim_step_one; [(intros; reflexivity)|first [exact I|exact Hbo]|discriminate| |]; cbn [step]; rewrite Hj, Hj';
          destruct (arrive c (with_flight w (remove_nth j (flight w))) toB m) as [w1 o1];
          destruct (arrive c (with_flight u (remove_nth j' (flight u))) toB m) as [u1 o2];
          destruct Har as (Hs1 & Hd1 & Hd2); [exact Hs1|unfold tdeliv; cbn [snd]; rewrite Hd1, Hd2; reflexivity].
      + assert (Hrm : filt t (remove_nth j (flight w)) = filt t (flight w)).
        { apply (filter_nth_false (fun p : bool * msg => mtok (snd p) =? t) (flight w) j (toB, m) Hj). cbn. apply Z.eqb_neq. exact Ntok. }
        pose proof (arrive_other N t _ u toB m (sim_with_flight_l t w u _ Hsim Hrm) Hwf' Hcw Hm Ntok Ht) as Har.
        exists []. apply sim_step_nil; [(intros; reflexivity)| |]; cbn [step]; rewrite Hj;
          destruct (arrive c (with_flight w (remove_nth j (flight w))) toB m) as [w1 o1]; apply Har.
    - (* Dup *)
      cbn [step]. destruct (nth_error (flight w) j) as [[toB m]|] eqn:Hj.
      2: { exists []. apply sim_step_nil; cbn [step]; rewrite ?Hj; auto. }
      pose proof (nth_error_In _ _ Hj) as Hin. pose proof (winv_wire N w toB m Hw (Hfl _ Hin)) as Hm.
      destruct (Z.eq_dec (mtok m) t) as [Etok|Ntok].
      + destruct (filter_nth_true (fun p : bool * msg => mtok (snd p) =? t) (flight w) j (toB, m) Hj) as [Hj' _];
          [cbn; apply Z.eqb_eq; exact Etok|].
        fold (filt t (flight w)) in Hj'. rewrite S6 in Hj'.
        set (j' := cnt (fun p : bool * msg => mtok (snd p) =? t) (firstn j (flight w))) in *.
        pose proof (arrive_same N t w u toB m Hsim Hw Hu Hcw Hcu Hm Etok) as Har.
        exists [Dup j']. apply sim_step_one; [(intros; reflexivity)|first [exact I|exact Hbo]|discriminate| |]; cbn [step]; rewrite Hj, Hj';
          destruct (arrive c w toB m) as [w1 o1]; destruct (arrive c u toB m) as [u1 o2];
          destruct Har as (Hs1 & Hd1 & Hd2); [exact Hs1|unfold tdeliv; cbn [snd]; rewrite Hd1, Hd2; reflexivity].
      + pose proof (arrive_other N t w u toB m Hsim Hw Hcw Hm Ntok Ht) as Har.
        exists []. apply sim_step_nil; [(intros; reflexivity)| |]; cbn [step]; rewrite Hj; destruct (arrive c w toB m) as [w1 o1]; apply Har.
    - (* Drop *)
      cbn [step]. destruct (nth_error (flight w) j) as [[toB m]|] eqn:Hj.
      2: { exists []. apply sim_step_nil; [(intros; reflexivity)| |reflexivity]; cbn [step quiet fst snd].
           rewrite (remove_nth_none _ _ Hj). apply sim_with_flight_l; [exact Hsim|reflexivity]. }
      destruct (Z.eq_dec (mtok m) t) as [Etok|Ntok].
      + destruct (filter_nth_true (fun p : bool * msg => mtok (snd p) =? t) (flight w) j (toB, m) Hj) as [Hj' Hrm];
          [cbn; apply Z.eqb_eq; exact Etok|].
        fold (filt t (flight w)) in Hj', Hrm. fold (filt t (remove_nth j (flight w))) in Hrm. rewrite S6 in Hj', Hrm.
        set (j' := cnt (fun p : bool * msg => mtok (snd p) =? t) (firstn j (flight w))) in *.
        exists [Drop j']. apply sim_step_one; [(intros; reflexivity)|first [exact I|exact Hbo]|discriminate| |]; cbn [step quiet fst snd]; [|reflexivity].
        apply sim_with_flight; assumption.
      + exists []. apply sim_step_nil; [(intros; reflexivity)| |reflexivity]; cbn [step quiet fst snd].
        apply sim_with_flight_l; [exact Hsim|].
        apply (filter_nth_false (fun p : bool * msg => mtok (snd p) =? t) (flight w) j (toB, m) Hj). cbn. apply Z.eqb_neq. exact Ntok.
    - (* Replay *)
      cbn [step]. destruct (nth_error (whist w) h) as [[toB m]|] eqn:Hh.
      2: { exists []. apply sim_step_nil; cbn [step]; rewrite ?Hh; auto. }
      pose proof (nth_error_In _ _ Hh) as Hin. pose proof (winv_wire N w toB m Hw Hin) as Hm.
      destruct (Z.eq_dec (mtok m) t) as [Etok|Ntok].
      + destruct (filter_nth_true (fun p : bool * msg => mtok (snd p) =? t) (whist w) h (toB, m) Hh) as [Hh' _];
          [cbn; apply Z.eqb_eq; exact Etok|].
        fold (filt t (whist w)) in Hh'. rewrite S7 in Hh'.
        set (h' := cnt (fun p : bool * msg => mtok (snd p) =? t) (firstn h (whist w))) in *.
        pose proof (arrive_same N t w u toB m Hsim Hw Hu Hcw Hcu Hm Etok) as Har.
        exists [Replay h']. apply sim_step_one; [(intros; reflexivity)|first [exact I|exact Hbo]|discriminate| |]; cbn [step]; rewrite Hh, Hh';
          destruct (arrive c w toB m) as [w1 o1]; destruct (arrive c u toB m) as [u1 o2];
          destruct Har as (Hs1 & Hd1 & Hd2); [exact Hs1|unfold tdeliv; cbn [snd]; rewrite Hd1, Hd2; reflexivity].
      + pose proof (arrive_other N t w u toB m Hsim Hw Hcw Hm Ntok Ht) as Har.
        exists []. apply sim_step_nil; [(intros; reflexivity)| |]; cbn [step]; rewrite Hh; destruct (arrive c w toB m) as [w1 o1]; apply Har.
    - (* Bump *)
      exists [Bump k]. apply sim_step_one; [(intros; reflexivity)|first [exact I|exact Hbo]|discriminate| |reflexivity]. cbn [step quiet fst].
      unfold sim. cbn [wa wb vers flight whist pending with_vers]. rewrite S5. auto 10.
    - (* Timeout *)
      cbn [step]. destruct (find (fun p => Nat.eqb (fst p) i) (pending w)) as [[i' t0]|] eqn:Hf.
      2: { exists []. apply sim_step_nil; cbn [step]; rewrite ?Hf; auto. }
      destruct (find_some _ _ Hf) as [Hin Hi]. cbn [fst] in Hi. apply Nat.eqb_eq in Hi. subst i'.
      destruct (Z.eq_dec t0 t) as [->|Ntok].
      + assert (Hf' : find (fun p => Nat.eqb (fst p) i) (pending u) = Some (i, t)).
        { rewrite <- S8. apply find_filter; [exact Hf|cbn; apply Z.eqb_refl]. }
        exists [Timeout i]. apply sim_step_one; [(intros; reflexivity)|first [exact I|exact Hbo]|discriminate| |]; cbn [step]; rewrite Hf, Hf'; cbn [fst snd]; [|reflexivity].
        unfold sim. cbn [wa wb vers flight whist pending with_a with_pending sending receiving with_sending].
        split; [apply tget_tdel_congr; exact S1|]. repeat (split; [assumption|]).
        rewrite <- S8. unfold pfilt. apply filter_comm.
      + exists []. apply sim_step_nil; [(intros; reflexivity)| |cbn [step]; rewrite Hf; reflexivity]; cbn [step]; rewrite Hf; cbn [fst snd].
        unfold sim. cbn [wa wb vers flight whist pending with_a with_pending sending receiving with_sending].
        split; [rewrite tget_tdel_other by exact Ntok; exact S1|]. repeat (split; [assumption|]).
        rewrite (pfilt_timeout_other t i t0 (pending w) Hpw Hin Ntok). exact S8.
    - (* Expire *)
      exists [Expire atB]. apply sim_step_one; [(intros; reflexivity)|first [exact I|exact Hbo]|discriminate| |destruct atB; reflexivity].
      destruct atB; cbn [step quiet fst]; unfold sim; cbn [wa wb vers flight whist pending with_a with_b sending receiving with_sending with_receiving tget]; auto 10.
  Qed.

  Lemma exec_app : forall es1 es2 w, exec w (es1 ++ es2) = exec (exec w es1) es2.
  Proof. induction es1 as [|e es1 IH]; intros es2 w; cbn [List.app exec]; [reflexivity|apply IH]. Qed.
  Lemma exec_cnt : forall es w, wcnt w -> wcnt (exec w es).
  Proof. induction es as [|e es IH]; intros w Hc; cbn [exec]; [exact Hc|]. apply IH, step_cnt, Hc. Qed.
  Lemma exec_pend : forall es w, pend_ok (pending w) -> pend_ok (pending (exec w es)).
  Proof.
    induction es as [|e es IH]; intros w Hp; cbn [exec]; [exact Hp|]. apply IH.
    pose proof (step_ret w e Hp) as Hs. destruct (step c w e) as [w' o]. apply Hs.
  Qed.
  Lemma exec_vers : forall es w k, ver (vers (exec w es)) k = ver (vers w) k + bumps es k.
  Proof.
    induction es as [|e es IH]; intros w k; cbn [exec]; [unfold bumps; cbn; lia|].
    rewrite IH, (step_vers w e), bumps_cons.
    destruct e; cbn [bump_count]; try lia. rewrite ver_bump, (Z.eqb_sym k0 k). destruct (k =? k0) eqn:E; [|lia].
    apply Z.eqb_eq in E. subst. lia.
  Qed.

  Lemma run_sim N t : forall es w u,
    sim t w u -> winv N w -> winv N u -> wcnt w -> wcnt u -> pend_ok (pending w) -> pend_ok (pending u) ->
    0 <= t < FRESH -> Forall bump_ok es -> (forall k, ver (vers w) k + bumps es k <= N k) ->
    exists es', (forall k, bumps es' k = bumps es k) /\ Forall bump_ok es' /\ solo_ok t es' /\
                sim t (exec w es) (exec u es') /\
                flat_map (tdeliv t) (run c w es) = flat_map (tdeliv t) (run c u es').
  Proof.
    induction es as [|e es IH]; intros w u Hsim Hw Hu Hcw Hcu Hpw Hpu Ht Hb HN.
    { exists []. split; [reflexivity|]. split; [constructor|]. split; [intros i []|]. split; [exact Hsim|reflexivity]. }
    inversion Hb as [|? ? Hbe Hbes]; subst.
    destruct (step_sim N t w u e Hsim Hw Hu Hcw Hcu Hpw Ht Hbe) as [es1 (B1 & F1 & So1 & Sim1 & D1)].
    assert (HNe : forall k, e = Bump k -> ver (vers w) k + 1 <= N k).
    { intros k ->. specialize (HN k). rewrite bumps_cons in HN. cbn [bump_count] in HN. rewrite Z.eqb_refl in HN.
      pose proof (bumps_nonneg es k). lia. }
    pose proof (step_inv N w e Hw Hbe HNe) as Hst. pose proof (step_cnt w e Hcw) as Hsc. pose proof (step_ret w e Hpw) as Hsr.
    pose proof (step_vers w e) as Hve.
    cbn [run exec]. destruct (step c w e) as [w' o]. cbn [fst snd] in *. destruct Hst as [Hw' _]. destruct Hsr as [Hpw' _].
    assert (HN' : forall k, ver (vers w') k + bumps es k <= N k).
    { intros k. specialize (HN k). rewrite bumps_cons in HN. rewrite Hve.
      destruct e; cbn [bump_count] in HN; try lia. rewrite ver_bump. rewrite (Z.eqb_sym k0 k) in HN. destruct (k =? k0) eqn:E; [|lia].
      apply Z.eqb_eq in E. subst k0. lia. }
    assert (Hvu : vers u = vers w) by (symmetry; apply Hsim).
    destruct (exec_inv N es1 u Hu F1) as [Hu' _].
    { intros k. rewrite Hvu, B1. specialize (HN k). rewrite bumps_cons in HN. pose proof (bumps_nonneg es k). lia. }
    destruct (IH w' (exec u es1) Sim1 Hw' Hu' Hsc (exec_cnt es1 u Hcu) Hpw' (exec_pend es1 u Hpu) Ht Hbes HN')
      as [es2 (B2 & F2 & So2 & Sim2 & D2)].
    exists (es1 ++ es2).
    split; [intros k; rewrite bumps_app, bumps_cons, B1, B2; reflexivity|].
    split; [apply Forall_app; split; assumption|].
    split; [intros i Hi; apply in_app_or in Hi; destruct Hi as [Hi|Hi]; [apply So1|apply So2]; exact Hi|].
    split; [rewrite exec_app; exact Sim2|].
    rewrite run_app, flat_map_app. cbn [flat_map]. rewrite D1, D2. reflexivity.
  Qed.

  (* C04 isolation over whole runs.  Take ANY script - any number of concurrent exchanges,
     any faults.  For every application token t there is a script that starts only
     exchanges with token t, in whose run every message ever on the wire carries token t,
     and in which the two applications are handed exactly the same messages for t, at the
     same sides, in the same order.  Hence what the applications see for one token is never
     influenced by the exchanges, faults and blocks of the others. *)
  Theorem exchange_isolated t es :
    0 <= t < FRESH -> Forall bump_ok es ->
    exists es', solo_ok t es' /\ Forall bump_ok es' /\ (forall k, bumps es' k = bumps es k) /\
                (forall p, In p (whist (exec (init c) es')) -> mtok (snd p) = t) /\
                flat_map (tdeliv t) (run c (init c) es) = flat_map (tdeliv t) (run c (init c) es').
  Proof.
    intros Ht Hb.
    assert (Hinit : winv (bumps es) (init c)) by (apply winv_init; intros k; apply bumps_nonneg).
    assert (Hc0 : wcnt (init c)) by (unfold wcnt, cnt_ok, init, new_ep; cbn; repeat split; lia).
    assert (Hp0 : pend_ok (pending (init c))) by (intros i t0 []).
    assert (Hs0 : sim t (init c) (init c)) by (unfold sim, init; cbn; auto 10).
    destruct (run_sim (bumps es) t es (init c) (init c) Hs0 Hinit Hinit Hc0 Hc0 Hp0 Hp0 Ht Hb) as [es' (B & F & So & Sim & D)].
    { intros k. cbn. lia. }
    exists es'. split; [exact So|]. split; [exact F|]. split; [exact B|]. split; [|exact D].
    intros p Hp. destruct Sim as (_ & _ & _ & _ & _ & _ & S7 & _). rewrite <- S7 in Hp.
    unfold filt in Hp. apply filter_In in Hp. destruct Hp as [_ Hp]. apply Z.eqb_eq in Hp. exact Hp.
  Qed.
End System.

(* ------------------------------------------------------------------------ *)
(* 14. the histories of the repaired finding                                   *)
(* A POST whose response is block-wise.  Before the repair the client ended up *)
(* asking for block 0 of the response again (witness 1: an old response block  *)
(* meets a new Do that reuses the token; witness 2: the resource changed, the   *)
(* ETag differs, the reassembly restarts) with a request that had the code and *)
(* options of the POST but no body, and a server that no longer held the       *)
(* response handed that body-less POST to its application (c04_class = 1 on    *)
(* both histories).  Repaired: at that event the client reports an error,      *)
(* releases the reassembly entry, answers 4.08 and hands nothing over; the      *)
(* whole property holds on both histories (and on all others: exchange_c04_ok).*)
Definition refute_cfg1 : cfg := Cfg 0 1152 0 1152 [X 0 2 7 0 5 5 None] [R 11 40 false 42] [].
Definition refute_es1 : list ev :=
  [Start 0; Deliver 0; Deliver 0; Deliver 0; Deliver 0; Deliver 0; Deliver 0; Start 0; Replay 3; Deliver 1]%nat.
Definition refute_cfg2 : cfg := Cfg 0 1152 0 1152 [X 0 2 7 0 5 5 None] [R 11 20 true 42] [].
Definition refute_es2 : list ev :=
  [Start 0; Deliver 0; Deliver 0; Deliver 0; Bump 0; Replay 0; Replay 2; Deliver 2; Deliver 2]%nat.

(* the n-th event is a refusal at A: error callback, nothing handed over, 4.08 sent, no reassembly entry left *)
Definition refused_at (os : list obs) (n : nat) : Prop :=
  match nth_error os n with
  | Some o => o_side o = 0 /\ o_err o = 1 /\ o_deliv o = [] /\
              (exists m, o_wire o = Some (true, m) /\ pcode m = Incomplete /\ plen m = 0) /\
              nth 1 (o_sizes o) (-1) = 0
  | None => False
  end.
(* B's application is never handed a request without the body A's application supplied *)
Definition no_empty_request (os : list obs) : Prop :=
  Forall (fun o => o_side o = 1 -> Forall (fun d => is_request (pcode d) = true -> plen d = 5) (o_deliv o)) os.

Lemma one_exch_wf sA mA sB mB x r :
  0 <= sA <= 7 -> 0 <= sB <= 7 -> 0 <= mA -> 0 <= mB ->
  (xkind x = 0 \/ xkind x = 1) -> GET <= xcode x <= DELETE -> 0 <= xtok x < FRESH -> 0 <= xlen x ->
  (is_upload (xcode x) = false -> xlen x = 0) -> 0 <= rlen r ->
  cfg_wf (Cfg sA mA sB mB [x] [r] []).
Proof.
  intros. constructor; cbn [cszxA cszxB cmaxA cmaxB cexch cres coutside]; try assumption.
  - intros y [<-|[]]. auto.
  - intros y z [<-|[]] [<-|[]] _. reflexivity.
  - intros y _. reflexivity.
  - intros y [<-|[]]. assumption.
Qed.

Theorem restart_refused_on_witnesses :
  (cfg_wf refute_cfg1 /\ Forall (bump_ok refute_cfg1) refute_es1 /\
   c04_class refute_cfg1 refute_es1 (model_obs refute_cfg1 refute_es1) = 0%N /\
   refused_at (model_obs refute_cfg1 refute_es1) 8 /\ no_empty_request (model_obs refute_cfg1 refute_es1)) /\
  (cfg_wf refute_cfg2 /\ Forall (bump_ok refute_cfg2) refute_es2 /\
   c04_class refute_cfg2 refute_es2 (model_obs refute_cfg2 refute_es2) = 0%N /\
   refused_at (model_obs refute_cfg2 refute_es2) 7 /\ no_empty_request (model_obs refute_cfg2 refute_es2)).
Proof.
  assert (Hne : forall os, forallb (fun o => negb (o_side o =? 1) ||
                  forallb (fun d => negb (is_request (pcode d)) || (plen d =? 5)) (o_deliv o)) os = true -> no_empty_request os).
  { intros os H. apply Forall_forall. intros o Ho. rewrite forallb_forall in H. specialize (H o Ho).
    intros Hside. rewrite Hside in H. change (1 =? 1) with true in H. cbn [negb orb] in H. apply Forall_forall. intros d Hd Hreq.
    rewrite forallb_forall in H. specialize (H d Hd). rewrite Hreq in H. cbn [negb orb] in H. apply Z.eqb_eq. exact H. }
  split; (split; [apply one_exch_wf; cbn; unfold GET, DELETE, FRESH; try lia; try (intros; discriminate); auto|]).
  - split; [repeat constructor|]. split; [vm_compute; reflexivity|].
    split; [vm_compute; repeat split; eexists; repeat split|apply Hne; vm_compute; reflexivity].
  - split.
    { repeat (constructor; try exact I). cbn. intros r E. destruct (Z.to_nat 0) eqn:Z0; cbn in E; [injection E as <-; reflexivity|discriminate]. }
    split; [vm_compute; reflexivity|].
    split; [vm_compute; repeat split; eexists; repeat split|apply Hne; vm_compute; reflexivity].
Qed.
