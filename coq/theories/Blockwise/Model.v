(* Model of net/blockwise/blockwise.go: the transfer core (createSendingMessage,
   startSendingMessage, processReceivedMessage with getPayloadFromCachedReceivedMessage /
   copyToPayloadFromOffset, continueSendingMessage, handleReceivedMessage, Handle,
   the first message of Do, WriteMessage) and, on top of it, two endpoints joined
   by a fault-injecting network (deliver / duplicate / drop / reorder / replay).

   Transcribed from the Go code (the text validated in DESIGN.md Appendix E,
   extended with ETag, Observe, other options, one-way writes, expiry sweep).
   Block sizes come from Block.Model (size, buffer_size), which is stated over
   Gen.BlockConsts (regenerated from the source on every run).
   Bytes and integers are Z.  No proofs here. *)
From Coq Require Import ZArith List Bool.
From GoCoap Require Import Base.Bytes Gen.BlockConsts Block.Model Blockwise.Config.
Import ListNotations.
Open Scope Z_scope.

Record blk := { bszx : Z; bnum : Z; bmore : bool }.

(* a CoAP message as far as blockwise.go looks at it: code, token, Block1/2,
   Size1/2, ETag (big-endian value of its bytes), Observe, all remaining options
   as opaque (id, value) pairs, body *)
Record msg := { mcode : Z; mtok : Z; mb1 : option blk; mb2 : option blk; ms1 : option Z; ms2 : option Z;
                metag : option Z; mobs : option Z; mother : list (Z * Z); mbody : list Z }.

Definition set_body (m : msg) (b : list Z) : msg :=
  {| mcode := mcode m; mtok := mtok m; mb1 := mb1 m; mb2 := mb2 m; ms1 := ms1 m; ms2 := ms2 m;
     metag := metag m; mobs := mobs m; mother := mother m; mbody := b |}.
Definition set_tok (m : msg) (t : Z) : msg :=
  {| mcode := mcode m; mtok := t; mb1 := mb1 m; mb2 := mb2 m; ms1 := ms1 m; ms2 := ms2 m;
     metag := metag m; mobs := mobs m; mother := mother m; mbody := mbody m |}.
Definition set_etag (m : msg) (t : option Z) : msg :=
  {| mcode := mcode m; mtok := mtok m; mb1 := mb1 m; mb2 := mb2 m; ms1 := ms1 m; ms2 := ms2 m;
     metag := t; mobs := mobs m; mother := mother m; mbody := mbody m |}.
(* set block option + size option of one kind *)
Definition set_block (up : bool) (m : msg) (b : option blk) (s : option Z) : msg :=
  {| mcode := mcode m; mtok := mtok m;
     mb1 := if up then b else mb1 m; mb2 := if up then mb2 m else b;
     ms1 := if up then s else ms1 m; ms2 := if up then ms2 m else s;
     metag := metag m; mobs := mobs m; mother := mother m; mbody := mbody m |}.

Definition is_upload (c : Z) : bool := (c =? POST) || (c =? PUT).
(* isObserveResponse *)
Definition is_observe_response (m : msg) : bool :=
  match mobs m with Some _ => Created <=? mcode m | None => false end.

(* token-indexed caches (sendingMessagesCache, receivingMessagesCache) *)
Definition tbl := list (Z * msg).
Fixpoint tget (t : tbl) (k : Z) : option msg :=
  match t with [] => None | (k', v) :: r => if k =? k' then Some v else tget r k end.
Fixpoint tdel (t : tbl) (k : Z) : tbl :=
  match t with [] => [] | (k', v) :: r => if k =? k' then tdel r k else (k', v) :: tdel r k end.
Definition tput (t : tbl) (k : Z) (v : msg) : tbl := (k, v) :: tdel t k.

(* one endpoint: the two caches, its configured SZX / maximum message size, the
   requests known outside blockwise (getSentRequestFromOutside: token -> path),
   counters for tokens drawn by handleObserveResponse *)
Record ep := { sending : tbl; receiving : tbl; eszx : Z; emax : Z;
               eoutside : list (Z * Z); efresh : Z; ehid : Z }.
Definition with_sending (e : ep) (s : tbl) : ep :=
  {| sending := s; receiving := receiving e; eszx := eszx e; emax := emax e;
     eoutside := eoutside e; efresh := efresh e; ehid := ehid e |}.
Definition with_receiving (e : ep) (r : tbl) : ep :=
  {| sending := sending e; receiving := r; eszx := eszx e; emax := emax e;
     eoutside := eoutside e; efresh := efresh e; ehid := ehid e |}.
Definition with_counters (e : ep) (f h : Z) : ep :=
  {| sending := sending e; receiving := receiving e; eszx := eszx e; emax := emax e;
     eoutside := eoutside e; efresh := f; ehid := h |}.

(* createSendingMessage: the block (szx,num) of [orig]; None = error *)
Definition create_sending (orig : msg) (maxszx maxmsg : Z) (b : blk) : option (msg * bool) :=
  let up := is_upload (mcode orig) in
  let szx := Z.min (bszx b) maxszx in
  let buflen := buffer_size szx maxmsg in
  let off := bnum b * size szx + (if up then buflen else 0) in
  let psize := blen (mbody orig) in
  if psize <? off then None
  else
    let data := firstn (Z.to_nat buflen) (skipn (Z.to_nat off) (mbody orig)) in
    let more := negb (off + blen data =? psize) in
    let nb := {| bszx := szx; bnum := off / size szx; bmore := more |} in
    Some (set_body (set_block up orig (Some nb) (Some psize)) data, more).

Inductive outcome := Out (w : option msg) | Fail.

(* startSendingMessage: w = the response writer's message if modified *)
Definition start_sending (e : ep) (w : option msg) (maxszx maxmsg : Z) (b : blk) : ep * outcome :=
  match w with
  | None => (e, Out None)
  | Some wm =>
    if blen (mbody wm) <? size maxszx then (e, Out w)
    else match create_sending wm maxszx maxmsg b with
         | None => (e, Fail)
         | Some (sm, _) =>
           if is_observe_response sm then (e, Out (Some sm))
           else match tget (sending e) (mtok sm) with
                | Some _ => (e, Fail)
                | None => (with_sending e (tput (sending e) (mtok sm) wm), Out (Some sm))
                end
         end
  end.

(* fitSZX *)
Definition fit (o : option blk) (maxszx : Z) : Z :=
  match o with Some b => if maxszx >? bszx b then bszx b else maxszx | None => maxszx end.

Definition entity_incomplete (tok : Z) : msg :=
  {| mcode := Incomplete; mtok := tok; mb1 := None; mb2 := None; ms1 := None; ms2 := None;
     metag := None; mobs := None; mother := []; mbody := [] |}.

(* getSentRequest: copy (without body) of the cached sending message, else the outside request *)
Definition outside_request (tok path : Z) : msg :=
  {| mcode := GET; mtok := tok; mb1 := None; mb2 := None; ms1 := None; ms2 := None;
     metag := None; mobs := Some 0; mother := [(11, path)]; mbody := [] |}.
Definition get_sent_request (e : ep) (tok : Z) : option msg :=
  match tget (sending e) tok with
  | Some m => Some (set_body m [])
  | None => match zassoc (eoutside e) tok with Some p => Some (outside_request tok p) | None => None end
  end.

(* tokens drawn by message.GetToken() in handleObserveResponse: the k-th one that
   later shows on the wire is called 1000+k, the others get negative names *)
Definition FRESH := 1000.

(* getPayloadFromCachedReceivedMessage (an ETag change restarts the reassembly) followed by
   copyToPayloadFromOffset guarded by [off == payloadSize]: the cached message after block r
   (payload offset off) and whether the block was appended *)
Definition reasm (cm r : msg) (off : Z) : msg * bool :=
  let cm := match metag r, metag cm with
            | Some a, Some c => if a =? c then cm else set_body (set_etag cm (Some a)) []
            | _, _ => cm
            end in
  let appended := off =? blen (mbody cm) in
  (if appended then set_body cm (mbody cm ++ mbody r) else cm, appended).

(* handleObserveResponse: a block-wise notification is fetched under a new token, for which a
   copy of the original request is registered; result: endpoint, cache key, success *)
Definition observe_key (e : ep) (r : msg) (b : blk) (sent : option msg) : ep * Z * bool :=
  if is_observe_response r then
    match sent with
    | None => (e, mtok r, false)
    | Some sr =>
      let key := if bmore b then FRESH + efresh e else - (1 + ehid e) in
      let e' := if bmore b then with_counters e (efresh e + 1) (ehid e) else with_counters e (efresh e) (ehid e + 1) in
      (with_sending e' (tput (sending e') key (set_tok sr key)), key, true)
    end
  else (e, mtok r, true).

(* repaired: asking for block [num] of a response (Block2) with a body-less copy of the request [sent] is
   refused when num = 0 and the request is not a GET / DELETE: for a server that no longer holds the
   response that message is a new request without its body *)
Definition refuse_restart (isb1 : bool) (num : Z) (sent : option msg) : bool :=
  negb isb1 && (num =? 0) &&
  match sent with Some sr => negb ((mcode sr =? GET) || (mcode sr =? DELETE)) | None => false end.

Section Handle.
  (* the application behind [next]: token of the wire message, delivered message -> response set on w *)
  Variable app : Z -> msg -> option msg.

  (* processReceivedMessage; returns endpoint, writer, deliveries to [next].  [sent] is what getSentRequest
     returns for the token of r (computed once, before the caches are touched) *)
  Definition process_received_s (e : ep) (r : msg) (maxszx : Z) (isb1 : bool) (sent : option msg) : ep * outcome * list msg :=
    if (mcode r =? GET) || (mcode r =? DELETE) then (e, Out (app (mtok r) r), [r])
    else
    match (if isb1 then mb1 r else mb2 r) with
    | None =>
      (* repaired: a POST/PUT that asks for block NUM > 0 of a response (Block2, no Block1) reaches
         this point only when that response is no longer held: error *)
      if isb1 && match mb2 r with Some b2 => negb (bnum b2 =? 0) | None => false end then (e, Fail, [])
      else (e, Out (app (mtok r) r), [r])
    | Some b =>
      match (if isb1 then false else match sent with None => true | Some _ => false end) with
      | true => (e, Fail, [])   (* cannot request body without paired request *)
      | false =>
        let '(e0, key, obs_ok) := observe_key e r b sent in
        if negb obs_ok then (e0, Fail, [])
        else
        let cached := tget (receiving e0) key in
        let szx0 := match cached with None => Z.min (bszx b) maxszx | Some _ => bszx b end in
        match cached, bmore b with
        | None, false =>
            (* repaired (F15): a last block with NUM > 0 and nothing to append it to is an error *)
            if negb (bnum b =? 0) then (e0, Fail, []) else (e0, Out (app (mtok r) r), [r])
        | _, _ =>
          let cm := match cached with Some c => c | None => set_body r [] end in
          let off := bnum b * size szx0 in
          let '(cm', appended) := reasm cm r off in
          let e2 := with_receiving e0 (tput (receiving e0) key cm') in
          if appended && negb (bmore b) then
            let full := set_block isb1 cm' None None in
            let e3 := with_receiving e2 (tdel (receiving e2) key) in
            let e4 := if mtok cm' =? key then e3 else with_sending e3 (tdel (sending e3) key) in
            (e4, Out (app (mtok r) full), [full])
          else
            let szx := Z.min szx0 maxszx in
            let psize := blen (mbody cm') in
            (* repaired: the response of a request other than GET / DELETE is never fetched again from
               block 0 (the buffer is empty: a block of another transfer met no state, or the ETag
               changed); error, the reassembly entry is released by the error path *)
            if refuse_restart isb1 (psize / size szx) sent then (with_receiving e2 (tdel (receiving e2) key), Fail, [])
            else
            let sm :=
              if isb1 then
                {| mcode := Continue; mtok := key; mb1 := Some {| bszx := szx; bnum := bnum b; bmore := bmore b |};
                   mb2 := None; ms1 := None; ms2 := None; metag := None; mobs := None; mother := []; mbody := [] |}
              else match sent with
                   | Some sr =>
                     {| mcode := mcode sr; mtok := key; mb1 := None;
                        mb2 := Some {| bszx := szx; bnum := psize / size szx; bmore := bmore b |};
                        ms1 := None; ms2 := ms2 sr; metag := metag sr; mobs := None; mother := mother sr; mbody := [] |}
                   | None => entity_incomplete key
                   end in
            (e2, Out (Some sm), [])
        end
      end
    end.

  Definition process_received (e : ep) (r : msg) (maxszx : Z) (isb1 : bool) : ep * outcome * list msg :=
    process_received_s e r maxszx isb1 (get_sent_request e (mtok r)).

  (* wantsToBeReceived *)
  Definition wants_to_be_received (r : msg) : bool :=
    let has1 := match mb1 r with Some _ => true | None => false end in
    let has2 := match mb2 r with Some _ => true | None => false end in
    if has1 && is_upload (mcode r) then true
    else if has2 && (GET <=? mcode r) && (mcode r <=? DELETE) then false
    else negb (mcode r =? Continue).

  (* handleReceivedMessage *)
  Definition handle_received_s (e : ep) (r : msg) (sent : option msg) : ep * outcome * list msg :=
    let maxszx := eszx e in
    let start := {| bszx := maxszx; bnum := 0; bmore := true |} in
    if (mcode r =? 0) || ((225 <=? mcode r) && (mcode r <=? 229)) then (e, Out (app (mtok r) r), [r])
    else if (mcode r =? GET) || (mcode r =? DELETE) then
      let mx := fit (mb2 r) maxszx in
      let w := app (mtok r) r in
      let start := match w, mb2 r with Some wm, Some b => if mcode wm =? Content then b else start | _, _ => start end in
      let '(e', o) := start_sending e w mx (emax e) start in (e', o, [r])
    else
      let isb1 := is_upload (mcode r) in
      let mx := fit (if isb1 then mb1 r else mb2 r) maxszx in
      let '(e1, o, d) := process_received_s e r mx isb1 sent in
      match o with
      | Fail => (e1, Fail, d)
      | Out w => let '(e2, o2) := start_sending e1 w mx (emax e) start in (e2, o2, d)
      end.
  Definition handle_received (e : ep) (r : msg) : ep * outcome * list msg :=
    handle_received_s e r (get_sent_request e (mtok r)).

  (* continueSendingMessage + the clean-up in Handle; second component: error reported *)
  Definition continue_sending (e : ep) (r : msg) (orig : msg) : ep * option msg * bool :=
    let up := is_upload (mcode orig) in
    match (if up then mb1 r else mb2 r) with
    | None => (with_sending e (tdel (sending e) (mtok r)), None, true)
    | Some b =>
      match create_sending orig (eszx e) (emax e) b with
      | None => (with_sending e (tdel (sending e) (mtok r)), None, true)
      | Some (sm, more) =>
        let e' := if negb more && (DELETE <? mcode orig) then with_sending e (tdel (sending e) (mtok r)) else e in
        (e', Some sm, false)
      end
    end.

  (* Handle: endpoint, message left in the response writer (if modified),
     messages handed to [next], number of calls of the error callback *)
  Definition handle (e : ep) (r : msg) : ep * option msg * list msg * Z :=
    let received :=
      let '(e', o, d) := handle_received e r in
      match o with
      | Out w => (e', w, d, 0)
      | Fail => (e', Some (entity_incomplete (mtok r)), d, 1)
      end in
    match tget (sending e) (mtok r) with
    | Some orig =>
      if wants_to_be_received r then received
      else let '(e', w, err) := continue_sending e r orig in (e', w, [], if err then 1 else 0)
    | None => received
    end.
End Handle.

(* after unfolding handle_received: show the call of processReceivedMessage as [process_received] again *)
Ltac fold_pr :=
  repeat match goal with
  | |- context [process_received_s ?a ?e ?r ?m ?b (get_sent_request ?e (mtok ?r))] =>
    change (process_received_s a e r m b (get_sent_request e (mtok r))) with (process_received a e r m b)
  end.

(* Do: registers the request and produces the first wire message; None = Do returns an error at once *)
Definition do_start (e : ep) (r : msg) : ep * option msg :=
  match tget (sending e) (mtok r) with
  | Some _ => (e, None)
  | None =>
    let e1 := with_sending e (tput (sending e) (mtok r) r) in
    let psize := blen (mbody r) in
    if psize <=? size (eszx e) then (e1, Some r)
    else if negb (is_upload (mcode r)) then (with_sending e1 (tdel (sending e1) (mtok r)), None)
    else
      let buflen := buffer_size (eszx e) (emax e) in
      (e1, Some (set_body (set_block true r (Some {| bszx := eszx e; bnum := 0; bmore := true |}) (Some psize))
                          (firstn (Z.to_nat buflen) (mbody r))))
  end.

(* WriteMessage *)
Definition write_start (e : ep) (r : msg) : ep * outcome :=
  start_sending e (Some r) (eszx e) (emax e) {| bszx := eszx e; bnum := 0; bmore := true |}.

(* ------------------------------------------------------------------------ *)
(* Two endpoints A (client side) and B (server side) and the network.        *)

Record world := { wa : ep; wb : ep; flight : list (bool * msg); whist : list (bool * msg);
                  vers : list (Z * Z); pending : list (nat * Z) }.

Definition ver (vs : list (Z * Z)) (k : Z) : Z := match zassoc vs k with Some v => v | None => 0 end.

(* B's application: answers a request for a known resource with its current representation *)
Definition app_b (c : cfg) (vs : list (Z * Z)) (wtok : Z) (d : msg) : option msg :=
  if (GET <=? mcode d) && (mcode d <=? DELETE) then
    match zassoc (mother d) 11 with
    | None => None
    | Some k =>
      match nth_error (cres c) (Z.to_nat k) with
      | None => None
      | Some r =>
        let v := ver vs k in
        Some {| mcode := resp_code (mcode d); mtok := wtok; mb1 := None; mb2 := None; ms1 := None; ms2 := None;
                metag := res_etag r v; mobs := None; mother := [(12, rcf r)]; mbody := res_body r v |}
      end
    end
  else None.
(* A's application only consumes *)
Definition app_a (wtok : Z) (d : msg) : option msg := None.

Definition request_of (x : exch) : msg :=
  {| mcode := xcode x; mtok := xtok x; mb1 := None; mb2 := None; ms1 := None; ms2 := None;
     metag := None; mobs := None; mother := [(11, xpath x)]; mbody := gen_body (xsalt x) (Z.to_nat (xlen x)) |}.
Definition notification_of (c : cfg) (vs : list (Z * Z)) (x : exch) : msg :=
  let r := nth (Z.to_nat (xpath x)) (cres c) {| rsalt := 0; rlen := 0; retag := false; rcf := 0 |} in
  let v := ver vs (xpath x) in
  {| mcode := xcode x; mtok := xtok x; mb1 := None; mb2 := None; ms1 := None; ms2 := None;
     metag := res_etag r v; mobs := xobs x; mother := [(12, rcf r)]; mbody := res_body r v |}.

(* what one event shows: side that ran Handle (0 A, 1 B, 2 none), message handled,
   message emitted (true = towards B), deliveries to the application, error
   callbacks, returns of Do/WriteMessage (exchange, 0 ok / 1 error / 2 timeout),
   table sizes [sending A; receiving A; sending B; receiving B] *)
Record mob := { mo_side : Z; mo_in : option msg; mo_wire : option (bool * msg); mo_deliv : list msg;
                mo_err : Z; mo_ret : list (Z * Z); mo_sizes : list Z }.

Definition sizes_of (w : world) : list Z :=
  [blen (sending (wa w)); blen (receiving (wa w)); blen (sending (wb w)); blen (receiving (wb w))].

Definition emit (w : world) (toB : bool) (o : option msg) : world :=
  match o with
  | None => w
  | Some m => {| wa := wa w; wb := wb w; flight := flight w ++ [(toB, m)]; whist := whist w ++ [(toB, m)];
                 vers := vers w; pending := pending w |}
  end.
Definition with_a (w : world) (e : ep) : world :=
  {| wa := e; wb := wb w; flight := flight w; whist := whist w; vers := vers w; pending := pending w |}.
Definition with_b (w : world) (e : ep) : world :=
  {| wa := wa w; wb := e; flight := flight w; whist := whist w; vers := vers w; pending := pending w |}.
Definition with_flight (w : world) (f : list (bool * msg)) : world :=
  {| wa := wa w; wb := wb w; flight := f; whist := whist w; vers := vers w; pending := pending w |}.
Definition with_pending (w : world) (p : list (nat * Z)) : world :=
  {| wa := wa w; wb := wb w; flight := flight w; whist := whist w; vers := vers w; pending := p |}.
Definition with_vers (w : world) (v : list (Z * Z)) : world :=
  {| wa := wa w; wb := wb w; flight := flight w; whist := whist w; vers := v; pending := pending w |}.

Fixpoint remove_nth {A} (n : nat) (l : list A) : list A :=
  match l, n with
  | [], _ => []
  | _ :: r, O => r
  | x :: r, S n' => x :: remove_nth n' r
  end.

Definition quiet (w : world) : world * mob :=
  (w, {| mo_side := 2; mo_in := None; mo_wire := None; mo_deliv := []; mo_err := 0; mo_ret := []; mo_sizes := sizes_of w |}).

(* pending Do calls whose token got a delivery return and unregister *)
Fixpoint complete (p : list (nat * Z)) (d : list msg) (e : ep) : list (nat * Z) * ep * list (Z * Z) :=
  match p with
  | [] => ([], e, [])
  | (i, t) :: r =>
    if existsb (fun m => mtok m =? t) d then
      let '(p', e', rets) := complete r d (with_sending e (tdel (sending e) t)) in
      (p', e', (Z.of_nat i, 0) :: rets)
    else
      let '(p', e', rets) := complete r d e in ((i, t) :: p', e', rets)
  end.

(* message m reaches side (toB) *)
Definition arrive (c : cfg) (w : world) (toB : bool) (m : msg) : world * mob :=
  if toB then
    let '(e', o, d, nerr) := handle (app_b c (vers w)) (wb w) m in
    let w1 := emit (with_b w e') false o in
    (w1, {| mo_side := 1; mo_in := Some m; mo_wire := match o with Some x => Some (false, x) | None => None end;
            mo_deliv := d; mo_err := nerr; mo_ret := []; mo_sizes := sizes_of w1 |})
  else
    let '(e', o, d, nerr) := handle app_a (wa w) m in
    let '(p', e'', rets) := complete (pending w) d e' in
    let w1 := emit (with_pending (with_a w e'') p') true o in
    (w1, {| mo_side := 0; mo_in := Some m; mo_wire := match o with Some x => Some (true, x) | None => None end;
            mo_deliv := d; mo_err := nerr; mo_ret := rets; mo_sizes := sizes_of w1 |}).

Definition started (w1 : world) (toB : bool) (o : option msg) (rets : list (Z * Z)) : world * mob :=
  let w2 := emit w1 toB o in
  (w2, {| mo_side := 2; mo_in := None; mo_wire := match o with Some x => Some (toB, x) | None => None end;
          mo_deliv := []; mo_err := 0; mo_ret := rets; mo_sizes := sizes_of w2 |}).

Definition bump (vs : list (Z * Z)) (k : Z) : list (Z * Z) :=
  (k, ver vs k + 1) :: filter (fun p => negb (fst p =? k)) vs.

Definition step (c : cfg) (w : world) (e : ev) : world * mob :=
  match e with
  | Start i =>
    match nth_error (cexch c) i with
    | None => quiet w
    | Some x =>
      let zi := Z.of_nat i in
      if xkind x =? 0 then
        let '(e', o) := do_start (wa w) (request_of x) in
        match o with
        | Some m => started (with_pending (with_a w e') (pending w ++ [(i, xtok x)])) true (Some m) []
        | None => started (with_a w e') true None [(zi, 1)]
        end
      else if xkind x =? 1 then
        let '(e', o) := write_start (wa w) (request_of x) in
        match o with
        | Out m => started (with_a w e') true m [(zi, 0)]
        | Fail => started (with_a w e') true None [(zi, 1)]
        end
      else
        let '(e', o) := write_start (wb w) (notification_of c (vers w) x) in
        match o with
        | Out m => started (with_b w e') false m [(zi, 0)]
        | Fail => started (with_b w e') false None [(zi, 1)]
        end
    end
  | Deliver j =>
    match nth_error (flight w) j with
    | None => quiet w
    | Some (toB, m) => arrive c (with_flight w (remove_nth j (flight w))) toB m
    end
  | Dup j =>
    match nth_error (flight w) j with
    | None => quiet w
    | Some (toB, m) => arrive c w toB m
    end
  | Drop j => quiet (with_flight w (remove_nth j (flight w)))
  | Replay h =>
    match nth_error (whist w) h with
    | None => quiet w
    | Some (toB, m) => arrive c w toB m
    end
  | Bump k => quiet (with_vers w (bump (vers w) k))
  | Timeout i =>
    match find (fun p => Nat.eqb (fst p) i) (pending w) with
    | None => quiet w
    | Some (_, t) =>
      let w1 := with_pending (with_a w (with_sending (wa w) (tdel (sending (wa w)) t)))
                             (filter (fun p => negb (Nat.eqb (fst p) i)) (pending w)) in
      (w1, {| mo_side := 2; mo_in := None; mo_wire := None; mo_deliv := []; mo_err := 0;
              mo_ret := [(Z.of_nat i, 2)]; mo_sizes := sizes_of w1 |})
    end
  | Expire atB =>
    if atB then quiet (with_b w (with_receiving (with_sending (wb w) []) []))
    else quiet (with_a w (with_receiving (with_sending (wa w) []) []))
  end.

Definition new_ep (szx maxm : Z) (outside : list (Z * Z)) : ep :=
  {| sending := []; receiving := []; eszx := szx; emax := maxm; eoutside := outside; efresh := 0; ehid := 0 |}.
Definition init (c : cfg) : world :=
  {| wa := new_ep (cszxA c) (cmaxA c) (coutside c); wb := new_ep (cszxB c) (cmaxB c) [];
     flight := []; whist := []; vers := []; pending := [] |}.

Fixpoint run (c : cfg) (w : world) (es : list ev) : list mob :=
  match es with
  | [] => []
  | e :: r => let '(w', o) := step c w e in o :: run c w' r
  end.
