(* C04, the clauses that need the clock and the shape of the script.  Written from the property
   text; the model is not mentioned (the script type [tev] and the deadline table are scenario
   data of Blockwise/Config.v).

   "a block-wise exchange that completes hands the receiving application exactly the bytes the
    sending application supplied ... An exchange that cannot complete ends with an error or
    timeout - never with a partial body presented as complete, and never by hanging."

   (A) A Do that returns WITHOUT error presents its exchange as complete.  2.31 Continue is the
       acknowledgement of one block of an upload that is still under way (RFC 7959 2.9.1): a Do that
       returns ok with the 2.31 that just arrived presents a partly uploaded body as a completed
       exchange - the receiving application has not been handed the body.
       Two classes, by the standing of the exchange at that moment:
       10  the exchange was in good standing: started, its deadline (the request context's, or the
           transfer timeout for a request without one) not yet reached, nothing of the caller's state
           swept, no error reported and nothing handed over for its token so far;
       11  otherwise (the transfer timeout of a request without deadline had passed while the Do
           was still waiting, the state was swept, or an error had already been reported for the
           token) - except when the request has a context deadline and that has passed: the caller
           gives up at that instant (the transport's wait selects on the context), a script that
           keeps such a Do waiting shows nothing about the library (no class).
   (B) "never by hanging": in a loss-free script (only Start and Deliver events: nothing lost,
       duplicated, replayed, nobody gives up, no time passes) every delivery that moves a block makes
       progress, so the peers fall silent after at most one round trip per block of the smallest
       negotiable size (plus a constant per body).  Class 12: after more than four times that many
       deliveries the last delivery still put a message on the wire - the peers keep exchanging
       blocks without end. *)
From Coq Require Import ZArith NArith List Bool.
From GoCoap Require Import Base.Bytes Blockwise.Config Blockwise.Spec.
Import ListNotations.
Open Scope Z_scope.

(* ---- (A) ---- *)

(* how long exchange i may take: its request deadline, else the transfer timeout *)
Definition window (dls : deadlines) (i : nat) : Z :=
  match nassoc dls i with Some d => d | None => TRANSFER_TIMEOUT end.

(* exchanges in good standing: token -> the instant its time runs out; the clock *)
Record standing := { g_now : Z; g_ok : list (Z * Z);
                     g_due : list (Z * Z) (* token -> the request context's deadline, for calls under way *) }.

Definition g_drop (l : list (Z * Z)) (t : Z) : list (Z * Z) := filter (fun p => negb (fst p =? t)) l.

Definition is_nil {A} (l : list A) : bool := match l with [] => true | _ => false end.
Definition is_some {A} (o : option A) : bool := match o with Some _ => true | None => false end.

(* token of exchange i if the application runs it with Do *)
Definition do_tok (c : cfg) (i : Z) : option Z :=
  match nth_error (cexch c) (Z.to_nat i) with
  | Some x => if xkind x =? 0 then Some (xtok x) else None
  | None => None
  end.

(* tokens of the Do calls that return ok in this step with the 2.31 Continue that has just arrived *)
Definition continue_returns (c : cfg) (o : obs) : list Z :=
  match o_in o with
  | Some m =>
    if (o_side o =? 0) && (pcode m =? Continue) then
      flat_map (fun r => if snd r =? 0 then
                           match do_tok c (fst r) with
                           | Some t => if t =? ptok m then [t] else []
                           | None => []
                           end
                         else []) (o_ret o)
    else []
  | None => []
  end.

Definition overdue (s : standing) (t : Z) : bool :=
  match zassoc (g_due s) t with Some d => d <? g_now s | None => false end.
Definition bogus_class (s : standing) (toks : list Z) : N :=
  first_class (map (fun t => match zassoc (g_ok s) t with
                             | Some dl => if g_now s <=? dl then 10%N else if overdue s t then 0%N else 11%N
                             | None => if overdue s t then 0%N else 11%N
                             end) toks).

(* one event: the class it shows, the standing afterwards *)
Definition g_step (c : cfg) (dls : deadlines) (s : standing) (te : tev) (o : obs) : standing * N :=
  let cls := bogus_class s (continue_returns c o) in
  (* an error reported, or something handed over, for the token of the message A handled *)
  let ok1 := match o_in o with
             | Some m => if (o_side o =? 0) && ((0 <? o_err o) || negb (is_nil (o_deliv o)))
                         then g_drop (g_ok s) (ptok m) else g_ok s
             | None => g_ok s
             end in
  (* calls that returned (ok or by their time-out) *)
  let ok2 := fold_left (fun l r => match do_tok c (fst r) with Some t => g_drop l t | None => l end) (o_ret o) ok1 in
  let due2 := fold_left (fun l r => match do_tok c (fst r) with Some t => g_drop l t | None => l end) (o_ret o) (g_due s) in
  let keep l := {| g_now := g_now s; g_ok := l; g_due := due2 |} in
  let s' :=
    match te with
    | Age d => {| g_now := g_now s + Z.max 0 d; g_ok := ok2; g_due := due2 |}
    | Sweep atB => keep (if atB then ok2 else [])
    | Ev (Expire atB) => keep (if atB then ok2 else [])
    | Ev (Start i) =>
      match nth_error (cexch c) i with
      | Some x =>
        if (xkind x =? 0) && is_nil (o_ret o)
        then {| g_now := g_now s;                                                (* the Do is under way *)
                g_ok := (xtok x, g_now s + window dls i) :: g_drop (g_ok s) (xtok x);
                g_due := match nassoc dls i with
                         | Some d => (xtok x, g_now s + d) :: g_drop (g_due s) (xtok x)
                         | None => g_drop (g_due s) (xtok x)
                         end |}
        else if xkind x =? 0 then keep (g_ok s)                                   (* it failed at once *)
        else keep ok2
      | None => keep ok2
      end
    | Ev _ => keep ok2
    end in
  (s', cls).

Fixpoint g_classes (c : cfg) (dls : deadlines) (s : standing) (es : list tev) (os : list obs) : list N :=
  match es, os with
  | te :: es', o :: os' => let '(s', k) := g_step c dls s te o in k :: g_classes c dls s' es' os'
  | _, _ => []
  end.

Definition g_init : standing := {| g_now := 0; g_ok := []; g_due := [] |}.

(* 10 if any step shows it, else 11 if any step shows it, else 0 *)
Definition bogus_continue_class (c : cfg) (dls : deadlines) (es : list tev) (os : list obs) : N :=
  let ks := g_classes c dls g_init es os in
  if existsb (N.eqb 10) ks then 10%N else first_class ks.

(* ---- (B) ---- *)

Definition loss_free (es : list tev) : bool :=
  forallb (fun te => match te with Ev (Start _) => true | Ev (Deliver _) => true | _ => false end) es.

Definition deliveries (es : list tev) : Z :=
  blen (filter (fun te => match te with Ev (Deliver _) => true | _ => false end) es).

(* RFC 7959: SZX 0..6 is 2^(SZX+4) bytes; RFC 8323: BERT (7) moves multiples of 1024 bytes *)
Definition blk_size (szx : Z) : Z := if szx <? 7 then 16 * 2 ^ (Z.max 0 szx) else 1024.

(* blocks of a body of n bytes at block size bs, plus the request/response around it and one
   re-synchronisation after a size negotiation *)
Definition blocks_of (n bs : Z) : Z := (Z.max 0 n + bs - 1) / bs + 2.

Definition trip_budget (c : cfg) : Z :=
  let bs := blk_size (Z.min (cszxA c) (cszxB c)) in
  fold_left (fun a x => a + blocks_of (xlen x) bs
                          + match nth_error (cres c) (Z.to_nat (xpath x)) with
                            | Some r => blocks_of (rlen r) bs
                            | None => 2
                            end) (cexch c) 0.

Definition still_talking (os : list obs) : bool :=
  match rev os with o :: _ => is_some (o_wire o) | [] => false end.

Definition livelock (c : cfg) (es : list tev) (os : list obs) : bool :=
  loss_free es && (4 * trip_budget c <? deliveries es) && still_talking os.

(* ---- (C) which kind of wrong body ---- *)
(* "Duplicated, stale, out-of-order ... blocks never corrupt, truncate or extend a body": a response body that
   is wrong for its token (Spec class 1, not one of the mixtures of distinct tokens 8 / 9) is classified further
   from the representations the resource of the exchange had during the scenario: class 13 if it is the
   BEGINNING of one representation followed by the REST of a different one, cut at a multiple of 16 bytes (the
   smallest block size), with the length of the second - the blocks of one download were taken from two
   different representations (the message the remaining blocks are sliced from was exchanged under way, or
   the reassembly went on with blocks of another version).  Everything else stays class 1. *)
Definition splice_of_versions (r : res) (n : nat) (d : pm) : bool :=
  let vs := seq 0 (S n) in
  existsb (fun v1 =>
    existsb (fun v2 =>
      let b1 := res_body r (Z.of_nat v1) in
      let b2 := res_body r (Z.of_nat v2) in
      negb (Nat.eqb v1 v2) && (plen d =? blen b2) &&
      existsb (fun k => psum d =? csum (firstn (Z.to_nat k) b1 ++ skipn (Z.to_nat k) b2))
              (cuts (length b1) 16 (Z.min (blen b1) (blen b2)))) vs) vs.

Definition version_splice_class (c : cfg) (es : list ev) (side : Z) (d : pm) : N :=
  if (side =? 0) && N.eqb (delivery_class c es side d) 1 && is_success_response (pcode d) then
    match find_exch c (ptok d) false with
    | Some x =>
      match nth_error (cres c) (Z.to_nat (xpath x)) with
      | Some r => if splice_of_versions r (Z.to_nat (bumps es (xpath x))) d then 13%N else 0%N
      | None => 0%N
      end
    | None => 0%N
    end
  else 0%N.

(* ---- the whole property: Spec.c04_class_x first (class 1 refined by (C)), then (A), then (B) ---- *)
Definition c04_class_t (c : cfg) (dls : deadlines) (es : list tev) (os : list obs) (ues : list ev) : N :=
  let k := c04_class_x c ues os in
  if N.eqb k 1 then
    let m := first_class (flat_map (fun o => map (version_splice_class c ues (o_side o)) (o_deliv o)) os) in
    if N.eqb m 0 then 1%N else m
  else if negb (N.eqb k 0) then k
  else
    let b := bogus_continue_class c dls es os in
    if negb (N.eqb b 0) then b
    else if livelock c es os then 12%N else 0%N.
