(* Blockwise/Reader.v against Blockwise/Model.v: io.ReadFull over ANY reader that keeps the io.Reader
   contract returns exactly the slice of the body that Model.create_sending uses, so the block a
   sender serves - payload, NUM, M, Size option - does not depend on how the application's reader
   cuts its data; the single-Read variant of seeded regression C04-7 does. *)
From Coq Require Import ZArith List Bool Lia.
From GoCoap Require Import Base.Bytes Gen.BlockConsts Block.Model Blockwise.Config Blockwise.Model
  Blockwise.Proofs Blockwise.Reader.
Import ListNotations.
Open Scope Z_scope.

Lemma firstn_plus {A} (l : list A) a n : firstn a l ++ firstn n (skipn a l) = firstn (a + n) l.
Proof.
  revert l. induction a as [|a IH]; intros l; [reflexivity|].
  destruct l as [|x l]; cbn [firstn skipn plus app].
  - rewrite firstn_nil. reflexivity.
  - rewrite IH. reflexivity.
Qed.

Lemma skipn_plus {A} (l : list A) a b : skipn a (skipn b l) = skipn (b + a) l.
Proof.
  revert l. induction b as [|b IH]; intros l; [reflexivity|].
  destruct l as [|x l]; cbn [skipn plus]; [destruct a; reflexivity|apply IH].
Qed.

Lemma blen_slice (l : list Z) n o : 0 <= n -> 0 <= o ->
  blen (firstn (Z.to_nat n) (skipn (Z.to_nat o) l)) = Z.min n (Z.max 0 (blen l - o)).
Proof. intros Hn Ho. unfold blen. rewrite firstn_length, skipn_length. lia. Qed.

Section ReadFull.
  Variable r : reader.
  Hypothesis Hok : chunk_ok r.
  Variables pos want : Z.
  Hypothesis Hpos : 0 <= pos.
  Hypothesis Hwant : 0 <= want.

  Let rest := skipn (Z.to_nat pos) (rdata r).

  Lemma rest_length : length rest = (length (rdata r) - Z.to_nat pos)%nat.
  Proof. unfold rest. apply skipn_length. Qed.

  (* the loop of io.ReadAtLeast: buf[:n] is always the beginning of what lies behind the position, and
     it ends with the whole slice, short only by io.EOF *)
  Lemma read_loop_exact : forall fuel acc,
    acc = firstn (length acc) rest -> blen acc <= want -> want - blen acc < Z.of_nat fuel ->
    let '(bs, e) := read_loop fuel r pos want acc in
    bs = firstn (Z.to_nat want) rest /\ (blen bs < want -> e = REOF).
  Proof.
    induction fuel as [|f IH]; intros acc Hacc Hle Hf; [cbn in Hf; lia|].
    cbn [read_loop]. destruct (want <=? blen acc) eqn:E.
    - apply Z.leb_le in E. split; [|lia].
      assert (Z.to_nat want = length acc) by (unfold blen in *; lia). congruence.
    - apply Z.leb_gt in E. unfold rd_read.
      replace (want - blen acc <=? 0) with false by (symmetry; apply Z.leb_gt; lia).
      assert (Hal : (length acc <= length rest)%nat).
      { rewrite Hacc, firstn_length. lia. }
      pose proof rest_length as Hrl.
      destruct (blen (rdata r) - (pos + blen acc) <=? 0) eqn:Er.
      + apply Z.leb_le in Er. rewrite app_nil_r.
        assert (Heq : length acc = length rest) by (unfold blen in *; lia).
        split; [|reflexivity].
        rewrite Hacc, Heq. rewrite !firstn_all2; [reflexivity|unfold blen in *; lia|lia].
      + apply Z.leb_gt in Er.
        set (n := rchunk r (pos + blen acc) (want - blen acc)).
        assert (Hn : 1 <= n <= Z.min (want - blen acc) (blen (rdata r) - (pos + blen acc))).
        { apply Hok; [pose proof (blen_nonneg acc); lia|lia]. }
        assert (Hskip : skipn (Z.to_nat (pos + blen acc)) (rdata r) = skipn (length acc) rest).
        { unfold rest. rewrite skipn_plus. f_equal. unfold blen. lia. }
        rewrite Hskip.
        set (acc' := acc ++ firstn (Z.to_nat n) (skipn (length acc) rest)).
        assert (Hacc'l : length acc' = (length acc + Z.to_nat n)%nat).
        { unfold acc'. rewrite app_length, firstn_length, skipn_length. unfold blen in *. lia. }
        assert (Hacc' : acc' = firstn (length acc') rest).
        { rewrite Hacc'l. unfold acc'. rewrite Hacc at 1. apply firstn_plus. }
        assert (Hbl : blen acc' = blen acc + n) by (unfold blen in *; lia).
        destruct (reof_early r && (pos + blen acc + n =? blen (rdata r))) eqn:Ee.
        * apply andb_true_iff in Ee. destruct Ee as [_ Ee]. apply Z.eqb_eq in Ee.
          split; [|reflexivity].
          assert (Heq : length acc' = length rest) by (unfold blen in *; lia).
          rewrite Hacc', Heq. rewrite !firstn_all2; [reflexivity|unfold blen in *; lia|lia].
        * apply IH; [exact Hacc'|lia|lia].
  Qed.

  Definition slice : list Z := firstn (Z.to_nat want) rest.

  Theorem read_full_exact fuel : want < Z.of_nat fuel ->
    read_full fuel r pos want =
      (slice, if want <=? blen slice then RNil else if 0 <? blen slice then RUnexpectedEOF else REOF).
  Proof.
    intros Hf. unfold read_full.
    pose proof (read_loop_exact fuel [] eq_refl ltac:(cbn; lia) ltac:(cbn; lia)) as H.
    destruct (read_loop fuel r pos want []) as [bs e]. destruct H as [-> He]. fold slice.
    destruct (want <=? blen slice) eqn:E; [reflexivity|].
    apply Z.leb_gt in E. rewrite (He E). destruct (0 <? blen slice); reflexivity.
  Qed.
End ReadFull.

(* createSendingMessage over a reader = Model.create_sending over the list, for every reader that keeps
   the contract, every original message, SZX, maximum message size with a non-empty buffer, block *)
Theorem create_sending_rd_exact fuel rd orig maxszx maxmsg b :
  chunk_ok rd -> rdata rd = mbody orig ->
  0 <= bnum b -> 0 <= size (Z.min (bszx b) maxszx) ->
  0 < buffer_size (Z.min (bszx b) maxszx) maxmsg -> buffer_size (Z.min (bszx b) maxszx) maxmsg < Z.of_nat fuel ->
  create_sending_rd fuel rd orig maxszx maxmsg b = create_sending orig maxszx maxmsg b.
Proof.
  intros Hok Hdata Hnum Hsz Hbuf Hf. unfold create_sending_rd, create_sending.
  set (szx := Z.min (bszx b) maxszx) in *. set (buflen := buffer_size szx maxmsg) in *.
  set (off := bnum b * size szx + (if is_upload (mcode orig) then buflen else 0)).
  assert (Hoff : 0 <= off) by (unfold off; destruct (is_upload (mcode orig)); nia).
  rewrite (read_full_exact rd Hok off buflen Hoff ltac:(lia) fuel Hf). unfold slice. rewrite Hdata.
  set (data := firstn (Z.to_nat buflen) (skipn (Z.to_nat off) (mbody orig))).
  assert (Hlen : blen data = Z.min buflen (Z.max 0 (blen (mbody orig) - off))) by (apply blen_slice; lia).
  destruct (blen (mbody orig) <? off) eqn:Elt.
  - apply Z.ltb_lt in Elt. replace (buflen <=? blen data) with false by (symmetry; apply Z.leb_gt; lia).
    replace (0 <? blen data) with false by (symmetry; apply Z.ltb_ge; lia).
    replace (off + blen data =? blen (mbody orig)) with false by (symmetry; apply Z.eqb_neq; lia). reflexivity.
  - apply Z.ltb_ge in Elt. destruct (buflen <=? blen data) eqn:E1; [reflexivity|].
    apply Z.leb_gt in E1.
    assert (Heq : off + blen data =? blen (mbody orig) = true) by (apply Z.eqb_eq; lia).
    destruct (0 <? blen data); rewrite Heq; reflexivity.
Qed.

(* the first block of Do: the beginning of the body, for every reader that keeps the contract *)
Theorem do_first_block_rd_exact fuel rd buflen :
  chunk_ok rd -> 0 <= buflen -> 0 < blen (rdata rd) -> buflen < Z.of_nat fuel ->
  do_first_block_rd fuel rd buflen = Some (firstn (Z.to_nat buflen) (rdata rd)).
Proof.
  intros Hok Hb Hne Hf. unfold do_first_block_rd.
  rewrite (read_full_exact rd Hok 0 buflen ltac:(lia) Hb fuel Hf). unfold slice. cbn [Z.to_nat skipn].
  set (data := firstn (Z.to_nat buflen) (rdata rd)).
  assert (Hlen : blen data = Z.min buflen (blen (rdata rd))) by (unfold data, blen; rewrite firstn_length; lia).
  destruct (buflen <=? blen data) eqn:E1; [reflexivity|]. apply Z.leb_gt in E1.
  replace (0 <? blen data) with true by (symmetry; apply Z.ltb_lt; lia).
  replace (blen data =? blen (rdata rd)) with true by (symmetry; apply Z.eqb_eq; lia). reflexivity.
Qed.

(* the paged reader keeps the contract *)
Lemma paged_chunk_ok data page : 0 < page -> chunk_ok (paged data page).
Proof.
  intros Hp pos want Hpos Hw. cbn [paged rdata rchunk] in *.
  pose proof (Z.mod_pos_bound pos page Hp). lia.
Qed.

(* the variant with a single Read (seeded regression C04-7) is NOT independent of the reader: a body of
   300 bytes behind pages of 100 bytes, blocks of 16 bytes: block 6 (offset 96) straddles a page boundary
   and is served with 4 bytes and M=1, where ReadFull serves 16 *)
Definition straddle_msg : msg :=
  {| mcode := Content; mtok := 8; mb1 := None; mb2 := None; ms1 := None; ms2 := None;
     metag := None; mobs := None; mother := []; mbody := gen_body 13 300 |}.
Definition straddle_blk : blk := {| bszx := 0; bnum := 6; bmore := false |}.

Theorem single_read_depends_on_reader :
  chunk_ok (paged (gen_body 13 300) 100) /\
  (exists sm, create_sending straddle_msg 0 1152 straddle_blk = Some (sm, true) /\ blen (mbody sm) = 16) /\
  create_sending_rd 17 (paged (gen_body 13 300) 100) straddle_msg 0 1152 straddle_blk
    = create_sending straddle_msg 0 1152 straddle_blk /\
  (exists sm, create_sending_one_read (paged (gen_body 13 300) 100) straddle_msg 0 1152 straddle_blk = Some (sm, true) /\
              blen (mbody sm) = 4 /\ mb2 sm = Some {| bszx := 0; bnum := 6; bmore := true |}).
Proof.
  split; [apply paged_chunk_ok; lia|].
  split; [eexists; split; [vm_compute; reflexivity|reflexivity]|].
  split; [vm_compute; reflexivity|].
  eexists. split; [vm_compute; reflexivity|]. split; reflexivity.
Qed.
