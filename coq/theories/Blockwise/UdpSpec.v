(* C04 at a UDP endpoint, as a predicate over an OBSERVED history of request datagrams (what the handler was
   called with, what was written), from the property text and RFC 7252 section 4.5:

     "a block-wise exchange that completes hands the receiving application exactly the bytes the sending
      application supplied, exactly once ... Duplicated ... blocks never corrupt, truncate or extend a body"

   On a datagram transport a message can arrive more than once (the sender retransmits a confirmable message
   until it sees the acknowledgement; the network duplicates datagrams).  RFC 7252 4.5: copies of one message
   carry the same Message ID (within EXCHANGE_LIFETIME, which no history here exceeds: they take milliseconds).
   So, for the application behind a UDP endpoint that RECEIVES requests: a datagram that is a copy (same type,
   Message ID, token and code) of an earlier one of a block-wise exchange - the reply written for that earlier
   copy carries a Block1 or Block2 option: a 2.31 Continue for a block of the request body, or a block of a
   block-wise response - is not handed to the application again:

     class 14  the request of a block-wise exchange is handed to the application once per COPY of its datagram.

   Not judged here: what the copy is answered with (an exchange may end with an error: the property text), and
   copies of requests outside block-wise exchanges (message-layer de-duplication in general is C05). *)
From Coq Require Import ZArith NArith List Bool.
From GoCoap Require Import Base.Bytes NoResp.BwSpec.
Import ListNotations.
Open Scope Z_scope.

Definition has_block_opt (o : list (Z * list Z)) : bool := existsb (fun x => (fst x =? Block2) || (fst x =? Block1)) o.

(* the reply written for request f belongs to a block-wise exchange *)
Definition blockwise_reply (f : oreq) : bool :=
  match q_out f with r0 :: _ => has_block_opt (ow_opts r0) | [] => false end.

Definition same_message (f e : oreq) : bool :=
  (q_typ f =? q_typ e) && (q_mid f =? q_mid e) && bytes_eqb (q_tok f) (q_tok e) && (q_code f =? q_code e).

Definition copy_in_blockwise_exchange (rev_prefix : list oreq) (e : oreq) : bool :=
  existsb (fun f => same_message f e && blockwise_reply f) rev_prefix.

Definition judge_u (rev_prefix : list oreq) (e : oreq) : N :=
  if ((q_typ e =? 0) || (q_typ e =? 1)) && copy_in_blockwise_exchange rev_prefix e && q_called e then 14%N else 0%N.

Fixpoint judge_all_u (rev_prefix : list oreq) (h : list oreq) : N :=
  match h with
  | [] => 0%N
  | e :: r => let c := judge_u rev_prefix e in if N.eqb c 0 then judge_all_u (e :: rev_prefix) r else c
  end.

Definition c04u_class (h : list oreq) : N := judge_all_u [] h.
