(* How blockwise.go reads the body the application supplied: an io.ReadSeeker.

   Model.v slices the body as a list ([create_sending]: firstn buflen (skipn off body)).  The code
   seeks to the offset and calls io.ReadFull; the io.Reader contract allows Read to return FEWER
   bytes than asked for with a nil error (paged / chunked stores, ring buffers, pipes ...), and
   to report io.EOF either together with the last bytes or on the next call.  This file models
   such a reader, io.ReadFull (= io.ReadAtLeast(r, buf, len(buf))), and the reading part of
   createSendingMessage and of Do as they are written; ProofsReader.v shows that for EVERY reader
   that keeps the contract the result is the slice Model.v uses - so the model, and every theorem
   about it, is independent of how the application's reader cuts its data - and that the variant
   with a single Read (seeded regression C04-7) is not.  No proofs here. *)
From Coq Require Import ZArith List Bool.
From GoCoap Require Import Base.Bytes Gen.BlockConsts Block.Model Blockwise.Config Blockwise.Model.
Import ListNotations.
Open Scope Z_scope.

(* the data behind the reader; how many bytes a Read at position pos with a buffer of want bytes
   returns; whether io.EOF comes together with the last bytes (both are allowed) *)
Record reader := { rdata : list Z; rchunk : Z -> Z -> Z; reof_early : bool }.

(* the io.Reader contract, as far as ReadFull depends on it: while data remain, a Read into a
   non-empty buffer returns at least one and at most min(len(p), remaining) bytes *)
Definition chunk_ok (r : reader) : Prop :=
  forall pos want, 0 <= pos < blen (rdata r) -> 0 < want ->
    1 <= rchunk r pos want <= Z.min want (blen (rdata r) - pos).

Inductive rerr := RNil | REOF | RUnexpectedEOF.

(* one Read at position pos (the position after Seek, advanced by what was read) *)
Definition rd_read (r : reader) (pos want : Z) : list Z * rerr :=
  if want <=? 0 then ([], RNil)
  else if blen (rdata r) - pos <=? 0 then ([], REOF)
  else
    let n := rchunk r pos want in
    (firstn (Z.to_nat n) (skipn (Z.to_nat pos) (rdata r)),
     if reof_early r && (pos + n =? blen (rdata r)) then REOF else RNil).

(* io.ReadAtLeast(r, buf, min) with min = len(buf) = want:
     for n < min && err == nil { nn, err = r.Read(buf[n:]); n += nn }
   [acc] = buf[:n] *)
Fixpoint read_loop (fuel : nat) (r : reader) (pos want : Z) (acc : list Z) : list Z * rerr :=
  match fuel with
  | O => (acc, RNil)
  | S f =>
    if want <=? blen acc then (acc, RNil)
    else
      let '(bs, e) := rd_read r (pos + blen acc) (want - blen acc) in
      match e with
      | RNil => read_loop f r pos want (acc ++ bs)
      | _ => (acc ++ bs, e)
      end
  end.

(*   if n >= min { err = nil } else if n > 0 && err == EOF { err = ErrUnexpectedEOF } *)
Definition read_full (fuel : nat) (r : reader) (pos want : Z) : list Z * rerr :=
  let '(bs, e) := read_loop fuel r pos want [] in
  if want <=? blen bs then (bs, RNil)
  else if (0 <? blen bs) && match e with REOF => true | _ => false end then (bs, RUnexpectedEOF)
  else (bs, e).

(* createSendingMessage with the body behind a reader (Seek(off, SeekStart) returns off for every
   off >= 0, also beyond the end):
     readed, err := io.ReadFull(body, buf[:newBufLen])
     if errors.Is(err, io.ErrUnexpectedEOF) || errors.Is(err, io.EOF) { if offSeek+readed == payloadSize { err = nil } } *)
Definition create_sending_rd (fuel : nat) (rd : reader) (orig : msg) (maxszx maxmsg : Z) (b : blk) : option (msg * bool) :=
  let up := is_upload (mcode orig) in
  let szx := Z.min (bszx b) maxszx in
  let buflen := buffer_size szx maxmsg in
  let off := bnum b * size szx + (if up then buflen else 0) in
  let psize := blen (rdata rd) in
  let '(data, err) := read_full fuel rd off buflen in
  let err := match err with
             | RNil => RNil
             | _ => if off + blen data =? psize then RNil else err
             end in
  match err with
  | RNil =>
    let more := negb (off + blen data =? psize) in
    let nb := {| bszx := szx; bnum := off / size szx; bmore := more |} in
    Some (set_body (set_block up orig (Some nb) (Some psize)) data, more)
  | _ => None
  end.

(* the variant of seeded regression C04-7: ONE Read, only io.EOF special-cased *)
Definition create_sending_one_read (rd : reader) (orig : msg) (maxszx maxmsg : Z) (b : blk) : option (msg * bool) :=
  let up := is_upload (mcode orig) in
  let szx := Z.min (bszx b) maxszx in
  let buflen := buffer_size szx maxmsg in
  let off := bnum b * size szx + (if up then buflen else 0) in
  let psize := blen (rdata rd) in
  let '(data, err) := rd_read rd off buflen in
  let err := match err with
             | REOF => if off + blen data =? psize then RNil else err
             | e => e
             end in
  match err with
  | RNil =>
    let more := negb (off + blen data =? psize) in
    let nb := {| bszx := szx; bnum := off / size szx; bmore := more |} in
    Some (set_body (set_block up orig (Some nb) (Some psize)) data, more)
  | _ => None
  end.

(* the first block of Do: Seek(0), io.ReadFull(buf of bufferSize); only io.ErrUnexpectedEOF is
   forgiven (when the whole body was read); None = Do returns "cannot read payload" *)
Definition do_first_block_rd (fuel : nat) (rd : reader) (buflen : Z) : option (list Z) :=
  let '(data, err) := read_full fuel rd 0 buflen in
  match err with
  | RNil => Some data
  | RUnexpectedEOF => if blen data =? blen (rdata rd) then Some data else None
  | REOF => None
  end.

(* a reader over pages of [page] bytes: a Read stops at the page boundary *)
Definition paged (data : list Z) (page : Z) : reader :=
  {| rdata := data;
     rchunk := fun pos want => Z.min want (Z.min (blen data - pos) (page - pos mod page));
     reof_early := false |}.
