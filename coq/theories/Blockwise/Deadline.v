(* Request context deadlines on top of Blockwise/Timed.v.

   blockwise.go reads the deadline of a request's context in three places:
     Do                       expire = r.Context().Deadline(), else now + expiration; the request is
                              stored in sendingMessagesCache valid until then
     getValidUntil(sent)      the reassembly entry for the response is valid until the deadline of the
                              context of the request found by getSentRequest, else now + expiration
     startSendingMessage      (the message written by the application; responses and one-way
                              writes carry no deadline here)
   and NOWHERE else: in particular continueSendingMessage, which serves the next block of an upload
   from the element Do stored, reads the element (LoadWithFunc) and does not write it.  Timed.v
   transcribes the case "no request has a deadline" (every element is valid for EXP from the moment
   it is stored).  Here the application may start a Do with context.WithTimeout(d): [deadlines] maps
   exchange index -> d.  The transcription is Timed.v's with the two places above spelled out:
   [ddo_start] stores the request with the deadline, [dprocess_received] stores a new reassembly
   element valid until getValidUntil(sent).  handleObserveResponse keeps now + EXP ("context of
   observation can be expired").  Everything else - B's side, the network, sweeps, the clock - is
   Timed.v's.  Restriction (checked by [dls_ok], the harness obeys it): only Do exchanges that do
   not register an observation carry a deadline (the private re-fetch of a block-wise notification
   would inherit the context of the observation request, which is not followed here).

   With an empty deadline table the run is Timed.trun (ProofsDeadline.deadline_conservative). *)
From Coq Require Import ZArith List Bool.
From GoCoap Require Import Base.Bytes Gen.BlockConsts Block.Model Blockwise.Config Blockwise.Model Blockwise.Timed.
Import ListNotations.
Open Scope Z_scope.

(* getValidUntil: ctx = the deadline of the context of the sent request, if it has one *)
Definition valid_until (now : Z) (ctx : option Z) : Z := match ctx with Some d => d | None => now + EXP end.

(* getCachedReceivedMessage + copyToPayloadFromOffset with the validity a NEW element gets *)
Definition cput_dl (now vu : Z) (c : cache) (k : Z) (v : msg) : cache :=
  match cload now c k with Some _ => cupdate c k v | None => cstore c k vu v end.

Section DHandle.
  Variable app : Z -> msg -> option msg.
  Variable now : Z.
  (* the deadline of the context of the request stored under the token of the message handled *)
  Variable sctx : option Z.

  (* processReceivedMessage *)
  Definition dprocess_received (e : tep) (r : msg) (maxszx : Z) (isb1 : bool) : tep * outcome * list msg :=
    if (mcode r =? GET) || (mcode r =? DELETE) then (e, Out (app (mtok r) r), [r])
    else
    match (if isb1 then mb1 r else mb2 r) with
    | None =>
      if isb1 && match mb2 r with Some b2 => negb (bnum b2 =? 0) | None => false end then (e, Fail, [])
      else (e, Out (app (mtok r) r), [r])
    | Some b =>
      let sent := tget_sent_request e (mtok r) in
      (* validUntil := getValidUntil(sentRequest); an Observe response replaces it by now + expiration *)
      let vu := if is_observe_response r then now + EXP
                else valid_until now (match sent with Some _ => sctx | None => None end) in
      match (if isb1 then false else match sent with None => true | Some _ => false end) with
      | true => (e, Fail, [])
      | false =>
        let '(e0, key, obs_ok) := tobserve_key now e r b sent in
        if negb obs_ok then (e0, Fail, [])
        else
        let cached := cload now (trcv e0) key in                (* receivingMessagesCache.Load *)
        let szx0 := match cached with None => Z.min (bszx b) maxszx | Some _ => bszx b end in
        match cached, bmore b with
        | None, false =>
            if negb (bnum b =? 0) then (e0, Fail, []) else (e0, Out (app (mtok r) r), [r])
        | _, _ =>
          let cm := match cached with Some c => c | None => set_body r [] end in
          let off := bnum b * size szx0 in
          let '(cm', appended) := reasm cm r off in
          let e2 := with_trcv e0 (cput_dl now vu (trcv e0) key cm') in
          if appended && negb (bmore b) then
            let full := set_block isb1 cm' None None in
            let e3 := with_trcv e2 (cdel (trcv e2) key) in
            let e4 := if mtok cm' =? key then e3 else with_tsnd e3 (cdel (tsnd e3) key) in
            (e4, Out (app (mtok r) full), [full])
          else
            let szx := Z.min szx0 maxszx in
            let psize := blen (mbody cm') in
            if refuse_restart isb1 (psize / size szx) sent then (with_trcv e2 (cdel (trcv e2) key), Fail, [])
            else
            let sm :=
              if isb1 then
                {| mcode := Continue; mtok := key; mb1 := Some {| bszx := szx; bnum := bnum b; bmore := bmore b |};
                   mb2 := None; ms1 := None; ms2 := None; metag := None; mobs := None; mother := []; mbody := [] |}
              else match sent with
                   | Some sr =>
                     {| mcode := mcode sr; mtok := key; mb1 := None;
                        mb2 := Some {| bszx := szx; bnum := psize / size szx; bmore := bmore b |};
                        ms1 := None; ms2 := ms2 sr; metag := metag sr; mobs := None; mother := mother sr; mbody := [] |}
                   | None => entity_incomplete key
                   end in
            (e2, Out (Some sm), [])
        end
      end
    end.

  (* handleReceivedMessage *)
  Definition dhandle_received (e : tep) (r : msg) : tep * outcome * list msg :=
    let maxszx := tszx e in
    let start := {| bszx := maxszx; bnum := 0; bmore := true |} in
    if (mcode r =? 0) || ((225 <=? mcode r) && (mcode r <=? 229)) then (e, Out (app (mtok r) r), [r])
    else if (mcode r =? GET) || (mcode r =? DELETE) then
      let mx := fit (mb2 r) maxszx in
      let w := app (mtok r) r in
      let start := match w, mb2 r with Some wm, Some b => if mcode wm =? Content then b else start | _, _ => start end in
      let '(e', o) := tstart_sending now e w mx (tmax e) start in (e', o, [r])
    else
      let isb1 := is_upload (mcode r) in
      let mx := fit (if isb1 then mb1 r else mb2 r) maxszx in
      let '(e1, o, d) := dprocess_received e r mx isb1 in
      match o with
      | Fail => (e1, Fail, d)
      | Out w => let '(e2, o2) := tstart_sending now e1 w mx (tmax e) start in (e2, o2, d)
      end.

  (* Handle: getSendingMessageCode is a Cache.Load; continueSendingMessage (Timed.tcontinue_sending)
     reads the element and leaves its validity alone *)
  Definition dhandle (e : tep) (r : msg) : tep * option msg * list msg * Z :=
    let received :=
      let '(e', o, d) := dhandle_received e r in
      match o with
      | Out w => (e', w, d, 0)
      | Fail => (e', Some (entity_incomplete (mtok r)), d, 1)
      end in
    match cload now (tsnd e) (mtok r) with
    | Some orig =>
      if wants_to_be_received r then received
      else let '(e', w, err) := tcontinue_sending e r orig in (e', w, [], if err then 1 else 0)
    | None => received
    end.
End DHandle.

(* Do with the deadline [dl] of the request context (absolute), None: no deadline *)
Definition ddo_start (now : Z) (dl : option Z) (e : tep) (r : msg) : tep * option msg :=
  match cload now (tsnd e) (mtok r) with                       (* LoadOrStore *)
  | Some _ => (e, None)
  | None =>
    let e1 := with_tsnd e (cstore (tsnd e) (mtok r) (valid_until now dl) r) in
    let psize := blen (mbody r) in
    if psize <=? size (tszx e) then (e1, Some r)
    else if negb (is_upload (mcode r)) then (with_tsnd e1 (cdel (tsnd e1) (mtok r)), None)
    else
      let buflen := buffer_size (tszx e) (tmax e) in
      (e1, Some (set_body (set_block true r (Some {| bszx := tszx e; bnum := 0; bmore := true |}) (Some psize))
                          (firstn (Z.to_nat buflen) (mbody r))))
  end.

(* ------------------------------------------------------------------------ *)
(* the world: Timed.tworld + for every token the deadline of the context of the request that the
   last Do stored under it (absolute time) *)
Record dworld := { dw : tworld; dctx : list (Z * Z) }.

Definition ctx_drop (l : list (Z * Z)) (t : Z) : list (Z * Z) := filter (fun p => negb (fst p =? t)) l.

(* the context deadline getSentRequest's copy carries: the element of the token, if there is one
   (valid or not: LoadWithFunc), is the request of the Do that stored it *)
Definition sent_ctx (w : dworld) (tok : Z) : option Z :=
  match craw (tsnd (twa (dw w))) tok with Some _ => zassoc (dctx w) tok | None => None end.

Definition darrive_a (c : cfg) (w : dworld) (m : msg) : dworld * mob :=
  let tw := dw w in
  let '(e', o, d, nerr) := dhandle app_a (tnow tw) (sent_ctx w (mtok m)) (twa tw) m in
  let '(p', e'', rets) := tcomplete (tpending tw) d e' in
  let w1 := temit (with_tpending (with_ta tw e'') p') true o in
  ({| dw := w1; dctx := dctx w |},
   {| mo_side := 0; mo_in := Some m; mo_wire := match o with Some x => Some (true, x) | None => None end;
      mo_deliv := d; mo_err := nerr; mo_ret := rets; mo_sizes := tsizes_of w1 |}).

(* a message reaches its destination: B's side is Timed.tarrive *)
Definition darrive (c : cfg) (w : dworld) (tw : tworld) (toB : bool) (m : msg) : dworld * mob :=
  if toB then let '(tw', o) := tarrive c tw true m in ({| dw := tw'; dctx := dctx w |}, o)
  else darrive_a c {| dw := tw; dctx := dctx w |} m.

Definition dlift (w : dworld) (r : tworld * mob) : dworld * mob := ({| dw := fst r; dctx := dctx w |}, snd r).

Definition dstep (c : cfg) (dls : deadlines) (w : dworld) (te : tev) : dworld * mob :=
  let tw := dw w in
  match te with
  | Ev (Start i) =>
    match nth_error (cexch c) i with
    | Some x =>
      if xkind x =? 0 then
        let dl := match nassoc dls i with Some d => Some (tnow tw + d) | None => None end in
        let '(e', o) := ddo_start (tnow tw) dl (twa tw) (request_of x) in
        match o with
        | Some m =>
          let r := tstarted (with_tpending (with_ta tw e') (tpending tw ++ [(i, xtok x)])) true (Some m) [] in
          ({| dw := fst r;
              dctx := match dl with Some d => (xtok x, d) :: ctx_drop (dctx w) (xtok x) | None => ctx_drop (dctx w) (xtok x) end |},
           snd r)
        | None => dlift w (tstarted (with_ta tw e') true None [(Z.of_nat i, 1)])
        end
      else dlift w (tstep c tw te)
    | None => dlift w (tstep c tw te)
    end
  | Ev (Deliver j) =>
    match nth_error (tflight tw) j with
    | None => dlift w (tquiet tw)
    | Some (toB, m) => darrive c w (with_tflight tw (remove_nth j (tflight tw))) toB m
    end
  | Ev (Dup j) =>
    match nth_error (tflight tw) j with
    | None => dlift w (tquiet tw)
    | Some (toB, m) => darrive c w tw toB m
    end
  | Ev (Replay h) =>
    match nth_error (twhist tw) h with
    | None => dlift w (tquiet tw)
    | Some (toB, m) => darrive c w tw toB m
    end
  | _ => dlift w (tstep c tw te)
  end.

Definition dinit (c : cfg) : dworld := {| dw := tinit c; dctx := [] |}.

Fixpoint drun (c : cfg) (dls : deadlines) (w : dworld) (es : list tev) : list mob :=
  match es with
  | [] => []
  | e :: r => let '(w', o) := dstep c dls w e in o :: drun c dls w' r
  end.

(* what the restriction above asks of a scenario: a deadline only for a Do that registers no observation;
   the exchanges use pairwise distinct tokens (the deadline table of the world is keyed by token) *)
Fixpoint nodupb (l : list Z) : bool :=
  match l with [] => true | x :: r => negb (existsb (Z.eqb x) r) && nodupb r end.
Definition dls_ok (c : cfg) (dls : deadlines) : bool :=
  nodupb (map xtok (cexch c)) &&
  forallb (fun p => match nth_error (cexch c) (fst p) with
                    | Some x => (xkind x =? 0) && match xobs x with None => true | Some _ => false end && (0 <=? snd p)
                    | None => false
                    end) dls.
