(* Correspondence evaluator for C04 on the real udp/client.Conn with the real net/blockwise layer
   (harness/c04udp.go): histories of request datagrams - first requests of block-wise exchanges and their
   copies, the following block requests and their copies.  The model is the one of the connection's request
   path with the block-wise layer that C20 established (NoResp/BwModel.v: Process -> response cache by message
   ID -> blockwise.Handle -> handler -> processResponse -> addResponseToCache); the case format and [agrees]
   are those of NoResp/BwRun.v; the property predicate is Blockwise/UdpSpec.v. *)
From Coq Require Import ZArith NArith List Bool.
From GoCoap Require Import Base.Cases Base.Bytes Dedup.Model Dedup.Spec NoResp.BwModel NoResp.BwSpec.
From GoCoap Require NoResp.BwRun.
From GoCoap Require Export Blockwise.UdpSpec.
Import ListNotations.
Open Scope Z_scope.

Notation BReq := NoResp.BwRun.BReq (only parsing).
Notation Call := NoResp.BwRun.Call (only parsing).
Notation NoCall := NoResp.BwRun.NoCall (only parsing).

(* configured SZX, maximum message size, initial own message ID, the history *)
Inductive case := UHist (szx maxmsg own0 : Z) (h : list NoResp.BwRun.bhev).

Definition agrees (c : case) : bool :=
  match c with UHist szx maxmsg own0 h => NoResp.BwRun.agrees (NoResp.BwRun.BHist szx maxmsg own0 h) end.

Definition pclass (c : case) : N :=
  match c with UHist _ _ _ h => c04u_class (map NoResp.BwRun.to_oreq h) end.

Definition mismatches (cs : list case) : list N := bad_indices (fun c => negb (agrees c)) cs.
Definition property_failures (cs : list case) : list (N * N) := classes pclass cs.
