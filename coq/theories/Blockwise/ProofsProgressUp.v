(* C04 progress without faults, UPLOADS, in the full two-endpoint model
   (Blockwise/Model.v: world / step / run).

   A Do exchange whose request is a POST/PUT with an arbitrary body, for every
   SZX pair (0..7, 7 = BERT), delivered in order with no faults:
   Start i :: repeat (Deliver 0) n.

   Contents
     1. sizes (divisibility of buffers), lists (firstn/skipn), message forms
     2. handle equations under explicit hypotheses (Block1 block at the receiver: no state / state,
        appended or not / last block; Continue at the sender; plain request; plain response)
     3. Section Upload: the concrete worlds of an upload (W0, Wblk, Wcont, Werr, Wresp, Wend), the
        single steps, round_trip, upload_loop (receiver ahead / in step), upload_phase (ANY application
        at B: handleB_last), upload_do_trace (small response), upload_o2_trace (O2 region),
        write_small_trace / write_big_nothing (O1, invariant o1inv)
     4. top level: C04_upload_progress, C04_upload_phase, C04_upload_O2_refuted,
        C04_write_O1_nothing, C04_write_small_delivered, witnesses by vm_compute

   Findings about the model (see the theorems):
     O2 is narrower than "1024 < |body| <= buffer": the failing region is exactly
        szxA = 7 /\ 1024 < |body| < buffer_size 7 maxA /\ (szxB = 7 \/ |body| mod size szxB <> 0)
     (|body| = buffer succeeds with one extra, empty, last block; against a smaller SZX a body that is
     a multiple of the negotiated block size succeeds too).
     Round trips (messages reaching B): 1 if |body| <= size szxA, else
        ceil(|body| / bm) + (if |body| <= buffer_size szxA maxA then 1 else 0),
        bm = buffer_size (min szxA szxB) maxA.  *)
From Coq Require Import ZArith List Bool Lia.
From GoCoap Require Import Base.Bytes Gen.BlockConsts Block.Model Blockwise.Config Blockwise.Model Blockwise.Proofs.
Import ListNotations.
Open Scope Z_scope.
Ltac Zify.zify_post_hook ::= Z.div_mod_to_equations.

(* ------------------------------------------------------------------ sizes *)
Lemma size_7 : size 7 = 1024. Proof. reflexivity. Qed.

Lemma size_dvd a b : 0 <= a -> a <= b -> b <= 7 -> exists c, 1 <= c /\ size b = c * size a.
Proof.
  intros Ha Hab Hb. exists (size b / size a).
  assert (Ha7 : 0 <= a <= 7) by lia. assert (Hb7 : 0 <= b <= 7) by lia.
  destruct (szx_cases a Ha7) as [H|[H|[H|[H|[H|[H|[H|H]]]]]]]; subst a;
  destruct (szx_cases b Hb7) as [H|[H|[H|[H|[H|[H|[H|H]]]]]]]; subst b;
  try (exfalso; lia); vm_compute; (split; [discriminate|reflexivity]).
Qed.

Lemma buffer_size_small a mm : 0 <= a < 7 -> buffer_size a mm = size a.
Proof.
  intros Ha. unfold buffer_size. replace (a <? szxBERT) with true; [reflexivity|].
  symmetry. apply Z.ltb_lt. unfold szxBERT. lia.
Qed.

Lemma buffer_size_bert mm : 0 <= mm -> buffer_size 7 mm = mm / 1024 * 1024.
Proof.
  intros Hm. unfold buffer_size. replace (7 <? szxBERT) with false by reflexivity.
  rewrite size_7. rewrite Z.quot_div_nonneg by lia. reflexivity.
Qed.

(* the facts about the three lengths of an upload: block [size m] of the negotiated
   SZX m = min(szxA, szxB), the sender's buffer for it, the sender's first buffer *)
Lemma upload_sizes sA mA sB :
  0 <= sA <= 7 -> 0 <= sB <= 7 -> 0 <= mA -> (sA = 7 -> 1024 <= mA) ->
  let m := Z.min sA sB in
  16 <= size m /\
  (exists q, 1 <= q /\ buffer_size m mA = q * size m) /\
  (exists r0, 1 <= r0 /\ buffer_size sA mA = r0 * buffer_size m mA) /\
  size sA <= buffer_size sA mA /\
  (m < 7 -> buffer_size m mA = size m) /\
  (m = 7 -> buffer_size m mA = buffer_size sA mA).
Proof.
  intros HsA HsB HmA Hbert m.
  assert (Hm : 0 <= m <= 7) by (unfold m; lia).
  assert (HmsA : m <= sA) by (unfold m; lia).
  split; [apply size_pos; exact Hm|].
  destruct (Z.eq_dec sA 7) as [E7|N7].
  - assert (HK : 1 <= mA / 1024) by (specialize (Hbert E7); apply Z.div_le_lower_bound; lia).
    destruct (Z.eq_dec m 7) as [Em|Nm].
    + rewrite Em, E7. rewrite (buffer_size_bert mA HmA), size_7.
      split; [exists (mA / 1024); split; [exact HK|reflexivity]|].
      split; [exists 1; split; lia|]. split; [lia|]. split; [lia|reflexivity].
    + assert (Hm6 : 0 <= m < 7) by lia.
      rewrite (buffer_size_small m mA Hm6). rewrite E7, (buffer_size_bert mA HmA), size_7.
      split; [exists 1; split; lia|].
      destruct (size_dvd m 6 ltac:(lia) ltac:(lia) ltac:(lia)) as [c [Hc Hc6]].
      replace (size 6) with 1024 in Hc6 by reflexivity.
      split; [exists (mA / 1024 * c); split; [nia|rewrite Hc6; ring]|].
      split; [lia|]. split; [reflexivity|lia].
  - assert (HsA6 : 0 <= sA < 7) by lia. assert (Hm6 : 0 <= m < 7) by lia.
    rewrite (buffer_size_small m mA Hm6), (buffer_size_small sA mA HsA6).
    split; [exists 1; split; lia|].
    destruct (size_dvd m sA ltac:(lia) HmsA ltac:(lia)) as [c [Hc Hcs]].
    split; [exists c; split; [exact Hc|exact Hcs]|].
    split; [lia|]. split; [reflexivity|lia].
Qed.

(* ------------------------------------------------------------------ lists *)
Lemma firstn_app_skipn {A} (l : list A) (a b : nat) : firstn a l ++ firstn b (skipn a l) = firstn (a + b) l.
Proof.
  revert a. induction l as [|x l IH]; intros a.
  - rewrite skipn_nil, !firstn_nil. reflexivity.
  - destruct a as [|a]; [reflexivity|]. cbn [firstn skipn Nat.add app]. rewrite IH. reflexivity.
Qed.

Lemma blen_firstn (l : list Z) (n : nat) : blen (firstn n l) = Z.min (Z.of_nat n) (blen l).
Proof. unfold blen. rewrite firstn_length. lia. Qed.
Lemma blen_skipn (l : list Z) (n : nat) : blen (skipn n l) = Z.max 0 (blen l - Z.of_nat n).
Proof. unfold blen. rewrite skipn_length. lia. Qed.
Lemma blen_one {A} (x : A) : blen [x] = 1. Proof. reflexivity. Qed.

(* the block of [body] at offset off, at most n bytes *)
Definition chunk (body : list Z) (off n : Z) : list Z := firstn (Z.to_nat n) (skipn (Z.to_nat off) body).

Lemma blen_chunk body off n : 0 <= off <= blen body -> 0 <= n -> blen (chunk body off n) = Z.min n (blen body - off).
Proof. intros Ho Hn. unfold chunk. rewrite blen_firstn, blen_skipn. lia. Qed.

Lemma firstn_chunk body off n : 0 <= off -> 0 <= n ->
  firstn (Z.to_nat off) body ++ chunk body off n = firstn (Z.to_nat (off + n)) body.
Proof. intros Ho Hn. unfold chunk. rewrite firstn_app_skipn. rewrite Z2Nat.inj_add by lia. reflexivity. Qed.

Lemma firstn_chunk_all body off n : 0 <= off <= blen body -> 0 <= n -> off + blen (chunk body off n) = blen body ->
  firstn (Z.to_nat off) body ++ chunk body off n = body.
Proof.
  intros Ho Hn Hl. rewrite firstn_chunk by lia. rewrite blen_chunk in Hl by lia.
  apply firstn_all2. unfold blen in *. lia.
Qed.

Lemma firstn_clip (body : list Z) n : 0 <= n -> firstn (Z.to_nat n) body = firstn (Z.to_nat (Z.min n (blen body))) body.
Proof.
  intros Hn. destruct (Z_le_gt_dec n (blen body)) as [H|H]; [rewrite Z.min_l by lia; reflexivity|].
  rewrite Z.min_r by lia. unfold blen in *. rewrite Nat2Z.id. rewrite firstn_all. apply firstn_all2. lia.
Qed.

(* ------------------------------------------------------------------ message forms *)
(* a request without Block/Size/ETag/Observe options *)
Definition ureq (code tok : Z) (oth : list (Z * Z)) (body : list Z) : msg :=
  {| mcode := code; mtok := tok; mb1 := None; mb2 := None; ms1 := None; ms2 := None;
     metag := None; mobs := None; mother := oth; mbody := body |}.
(* one Block1 block of it *)
Definition ublock (code tok : Z) (oth : list (Z * Z)) (total szx num : Z) (more : bool) (data : list Z) : msg :=
  {| mcode := code; mtok := tok; mb1 := Some {| bszx := szx; bnum := num; bmore := more |}; mb2 := None;
     ms1 := Some total; ms2 := None; metag := None; mobs := None; mother := oth; mbody := data |}.
(* 2.31 Continue *)
Definition contmsg (tok szx num : Z) (more : bool) : msg :=
  {| mcode := Continue; mtok := tok; mb1 := Some {| bszx := szx; bnum := num; bmore := more |};
     mb2 := None; ms1 := None; ms2 := None; metag := None; mobs := None; mother := []; mbody := [] |}.

Lemma request_of_ureq x : request_of x = ureq (xcode x) (xtok x) [(11, xpath x)] (gen_body (xsalt x) (Z.to_nat (xlen x))).
Proof. reflexivity. Qed.

Lemma upload_code code : code = 2 \/ code = 3 ->
  ((code =? 0) || ((225 <=? code) && (code <=? 229)) = false) /\
  ((code =? GET) || (code =? DELETE) = false) /\ is_upload code = true /\ (DELETE <? code) = false /\
  ((GET <=? code) && (code <=? DELETE) = true).
Proof. intros [->| ->]; repeat split. Qed.

Lemma fit_min b mx : fit (Some b) mx = Z.min (bszx b) mx.
Proof. unfold fit. destruct (mx >? bszx b) eqn:E; lia. Qed.

(* ------------------------------------------------------------------ handle equations *)
Lemma start_sending_small e w mx mm b : blen (mbody w) < size mx ->
  start_sending e (Some w) mx mm b = (e, Out (Some w)).
Proof. intros H. unfold start_sending. apply Z.ltb_lt in H. rewrite H. reflexivity. Qed.

Lemma start_sending_cont e tok szx num more mx mm b : 0 <= mx <= 7 ->
  start_sending e (Some (contmsg tok szx num more)) mx mm b = (e, Out (Some (contmsg tok szx num more))).
Proof. intros H. apply start_sending_small. cbn [contmsg mbody]. pose proof (size_pos mx H). rewrite blen_nil. lia. Qed.

Section HandleEq.
  Variable app : Z -> msg -> option msg.

  (* a message that is not continued from the sending cache goes to handleReceivedMessage *)
  Lemma handle_received_path e r :
    tget (sending e) (mtok r) = None \/ wants_to_be_received r = true ->
    handle app e r =
      let '(e', o, d) := handle_received app e r in
      match o with Out w => (e', w, d, 0) | Fail => (e', Some (entity_incomplete (mtok r)), d, 1) end.
  Proof.
    intros H. unfold handle. destruct (tget (sending e) (mtok r)) as [orig|]; [|reflexivity].
    destruct H as [H|H]; [discriminate|]. rewrite H. reflexivity.
  Qed.

  (* POST/PUT with a Block1 option: handleReceivedMessage = processReceivedMessage + startSendingMessage *)
  Lemma handle_received_upload e r :
    mcode r = 2 \/ mcode r = 3 ->
    handle_received app e r =
      let mx := fit (mb1 r) (eszx e) in
      let '(e1, o, d) := process_received app e r mx true in
      match o with
      | Fail => (e1, Fail, d)
      | Out w => let '(e2, o2) := start_sending e1 w mx (emax e) {| bszx := eszx e; bnum := 0; bmore := true |} in (e2, o2, d)
      end.
  Proof.
    intros Hc. destruct (upload_code _ Hc) as [H1 [H2 [H3 _]]].
    unfold handle_received, handle_received_s; fold_pr. rewrite H1, H2, H3. reflexivity.
  Qed.

  (* processReceivedMessage of a Block1 block, no reassembly state, M = 1: the state is created *)
  Lemma process_block1_first e r mx b :
    mcode r = 2 \/ mcode r = 3 -> mb1 r = Some b -> mobs r = None -> metag r = None ->
    tget (receiving e) (mtok r) = None -> bmore b = true ->
    process_received app e r mx true =
      let szx0 := Z.min (bszx b) mx in
      let appd := bnum b * size szx0 =? 0 in
      let cm' := if appd then set_body r (mbody r) else set_body r [] in
      (with_receiving e (tput (receiving e) (mtok r) cm'),
       Out (Some (contmsg (mtok r) (Z.min szx0 mx) (bnum b) true)), []).
  Proof.
    intros Hc Hb Hobs Het Hrx Hm. destruct (upload_code _ Hc) as [_ [H2 _]].
    unfold process_received, process_received_s, observe_key, is_observe_response. rewrite H2, Hb, Hobs. cbn [negb].
    rewrite Hrx, Hm. unfold reasm. rewrite Het. cbn [set_body mbody].
    change (blen (@nil Z)) with 0.
    destruct (bnum b * size (Z.min (bszx b) mx) =? 0); cbn [andb negb List.app]; reflexivity.
  Qed.

  (* ... no reassembly state, M = 0, NUM > 0: error (repaired F15) *)
  Lemma process_block1_orphan_last e r mx b :
    mcode r = 2 \/ mcode r = 3 -> mb1 r = Some b -> mobs r = None ->
    tget (receiving e) (mtok r) = None -> bmore b = false -> bnum b <> 0 ->
    process_received app e r mx true = (e, Fail, []).
  Proof.
    intros Hc Hb Hobs Hrx Hm Hn. destruct (upload_code _ Hc) as [_ [H2 _]].
    unfold process_received, process_received_s, observe_key, is_observe_response. rewrite H2, Hb, Hobs. cbn [negb].
    rewrite Hrx, Hm. apply Z.eqb_neq in Hn. rewrite Hn. reflexivity.
  Qed.

  (* ... reassembly state cm present: the block is appended iff its offset is the length of the buffer;
     appended and M = 0: the whole message is handed over and the state removed *)
  Lemma process_block1_cached e r mx b cm :
    mcode r = 2 \/ mcode r = 3 -> mb1 r = Some b -> mobs r = None -> metag r = None ->
    tget (receiving e) (mtok r) = Some cm -> mtok cm = mtok r ->
    process_received app e r mx true =
      let appd := bnum b * size (bszx b) =? blen (mbody cm) in
      let cm' := if appd then set_body cm (mbody cm ++ mbody r) else cm in
      let e2 := with_receiving e (tput (receiving e) (mtok r) cm') in
      if appd && negb (bmore b) then
        let full := set_block true cm' None None in
        (with_receiving e2 (tdel (receiving e2) (mtok r)), Out (app (mtok r) full), [full])
      else (e2, Out (Some (contmsg (mtok r) (Z.min (bszx b) mx) (bnum b) (bmore b))), []).
  Proof.
    intros Hc Hb Hobs Het Hrx Htk. destruct (upload_code _ Hc) as [_ [H2 _]].
    unfold process_received, process_received_s, observe_key, is_observe_response. rewrite H2, Hb, Hobs. cbn [negb].
    rewrite Hrx. unfold reasm. rewrite Het.
    destruct (bnum b * size (bszx b) =? blen (mbody cm)) eqn:Eapp.
    - destruct (bmore b); cbn [andb negb]; [reflexivity|].
      cbn [set_body mtok]. rewrite Htk, Z.eqb_refl. reflexivity.
    - destruct (bmore b); cbn [andb negb]; reflexivity.
  Qed.

  (* processReceivedMessage of a POST/PUT or a response without Block option of its direction *)
  Lemma process_plain e r mx (isb1 : bool) :
    (mcode r =? GET) || (mcode r =? DELETE) = false -> (if isb1 then mb1 r else mb2 r) = None -> mb2 r = None ->
    process_received app e r mx isb1 = (e, Out (app (mtok r) r), [r]).
  Proof.
    intros H2 Hb Hb2. unfold process_received, process_received_s. rewrite H2, Hb, Hb2. rewrite andb_false_r. reflexivity.
  Qed.

  (* Handle of a 2.31 Continue at the sender of an upload: continueSendingMessage *)
  Lemma handle_continue e r orig b :
    tget (sending e) (mtok r) = Some orig -> mcode r = Continue -> mb1 r = Some b ->
    mcode orig = 2 \/ mcode orig = 3 ->
    handle app e r =
      match create_sending orig (eszx e) (emax e) b with
      | None => (with_sending e (tdel (sending e) (mtok r)), None, [], 1)
      | Some (sm, _) => (e, Some sm, [], 0)
      end.
  Proof.
    intros Hs Hc Hb Ho. destruct (upload_code _ Ho) as [_ [_ [H3 [H4 _]]]].
    assert (Hw : wants_to_be_received r = false).
    { unfold wants_to_be_received. rewrite Hc, Hb. destruct (mb2 r); reflexivity. }
    unfold handle. rewrite Hs, Hw.
    unfold continue_sending. rewrite H3, Hb.
    destruct (create_sending orig (eszx e) (emax e) b) as [[sm more]|]; [|reflexivity].
    rewrite H4, andb_false_r. reflexivity.
  Qed.
End HandleEq.

(* ------------------------------------------------------------------ runs *)
(* the world after a script (run only returns the observations) *)
Fixpoint exec (c : cfg) (w : world) (es : list ev) : world :=
  match es with [] => w | e :: r => exec c (fst (step c w e)) r end.

Lemma run_cons c w e es : run c w (e :: es) = snd (step c w e) :: run c (fst (step c w e)) es.
Proof. cbn [run]. destruct (step c w e) as [w' o]. reflexivity. Qed.
Lemma run_app c es1 : forall w es2, run c w (es1 ++ es2) = run c w es1 ++ run c (exec c w es1) es2.
Proof.
  induction es1 as [|e es1 IH]; intros w es2; [reflexivity|].
  rewrite <- app_comm_cons, !run_cons. cbn [exec]. rewrite IH. reflexivity.
Qed.
Lemma exec_app c es1 : forall w es2, exec c w (es1 ++ es2) = exec c (exec c w es1) es2.
Proof. induction es1 as [|e es1 IH]; intros w es2; [reflexivity|]. rewrite <- app_comm_cons. cbn [exec]. apply IH. Qed.
Lemma run_length c es : forall w, length (run c w es) = length es.
Proof. induction es as [|e es IH]; intros w; [reflexivity|]. rewrite run_cons. cbn [length]. rewrite IH. reflexivity. Qed.

Lemma repeat_add {A} (x : A) a b : repeat x (a + b) = repeat x a ++ repeat x b.
Proof. induction a as [|a IH]; [reflexivity|]. cbn [Nat.add repeat app]. rewrite IH. reflexivity. Qed.

(* with nothing in flight a Deliver is a no-op *)
Lemma step_deliver_idle c w : flight w = [] -> step c w (Deliver 0) = quiet w.
Proof. intros H. cbn [step]. rewrite H. reflexivity. Qed.
Lemma exec_idle c w n : flight w = [] -> exec c w (repeat (Deliver 0) n) = w.
Proof. intros H. induction n as [|n IH]; [reflexivity|]. cbn [repeat exec]. rewrite step_deliver_idle by exact H. exact IH. Qed.
Lemma run_idle c w n : flight w = [] -> run c w (repeat (Deliver 0) n) = repeat (snd (quiet w)) n.
Proof.
  intros H. induction n as [|n IH]; [reflexivity|]. cbn [repeat]. rewrite run_cons.
  rewrite step_deliver_idle by exact H. cbn [fst snd quiet]. f_equal. exact IH.
Qed.

(* ------------------------------------------------------------------ the worlds of an upload *)
Section Upload.
  Variable c : cfg.
  Variables (code tok : Z) (oth : list (Z * Z)) (body : list Z).
  Local Notation sA := (cszxA c).
  Local Notation mA := (cmaxA c).
  Local Notation sB := (cszxB c).
  Local Notation mB := (cmaxB c).
  Local Notation m := (Z.min (cszxA c) (cszxB c)).
  Local Notation s := (size (Z.min (cszxA c) (cszxB c))).
  Local Notation Bm := (buffer_size (Z.min (cszxA c) (cszxB c)) (cmaxA c)).
  Local Notation BA := (buffer_size (cszxA c) (cmaxA c)).
  Local Notation L := (blen body).

  Hypothesis HsA : 0 <= sA <= 7.
  Hypothesis HsB : 0 <= sB <= 7.
  Hypothesis HmA : 0 <= mA.
  Hypothesis Hbert : sA = 7 -> 1024 <= mA.
  Hypothesis Hcode : code = 2 \/ code = 3.

  Definition req : msg := ureq code tok oth body.
  (* first wire message of Do *)
  Definition blk0 : msg := ublock code tok oth L sA 0 true (firstn (Z.to_nat BA) body).
  (* the block at offset off, as continueSendingMessage builds it *)
  Definition more_at (off : Z) : bool := negb (off + blen (chunk body off Bm) =? L).
  Definition blk (off : Z) : msg := ublock code tok oth L m (off / s) (more_at off) (chunk body off Bm).
  (* B's reassembly state holding the first bl bytes *)
  Definition entry (bl : Z) : msg := ublock code tok oth L sA 0 true (firstn (Z.to_nat bl) body).

  Definition epA (snd : tbl) : ep :=
    {| sending := snd; receiving := []; eszx := sA; emax := mA; eoutside := coutside c; efresh := 0; ehid := 0 |}.
  Definition epB (rcv : tbl) : ep :=
    {| sending := []; receiving := rcv; eszx := sB; emax := mB; eoutside := []; efresh := 0; ehid := 0 |}.
  Definition mkw (a b : ep) (fl h : list (bool * msg)) (p : list (nat * Z)) : world :=
    {| wa := a; wb := b; flight := fl; whist := h; vers := []; pending := p |}.

  (* block 0 in flight, B empty *)
  Definition W0 (h : list (bool * msg)) (i : nat) : world :=
    mkw (epA [(tok, req)]) (epB []) [(true, blk0)] h [(i, tok)].
  (* the block at offset off in flight, B holds bl bytes *)
  Definition Wblk (off bl : Z) (h : list (bool * msg)) (i : nat) : world :=
    mkw (epA [(tok, req)]) (epB [(tok, entry bl)]) [(true, blk off)] h [(i, tok)].
  (* B's Continue for the block at offset off in flight *)
  Definition Wcont (off bl : Z) (M : bool) (h : list (bool * msg)) (i : nat) : world :=
    mkw (epA [(tok, req)]) (epB [(tok, entry bl)]) [(false, contmsg tok m (off / s) M)] h [(i, tok)].
  (* the sender gave up *)
  Definition Werr (bl : Z) (h : list (bool * msg)) (i : nat) : world :=
    mkw (epA []) (epB [(tok, entry bl)]) [] h [(i, tok)].

  Lemma init_mkw : init c = mkw (epA []) (epB []) [] [] [].
  Proof. reflexivity. Qed.

  (* arithmetic of the three lengths *)
  Lemma sz_facts : 16 <= s /\ (exists q, 1 <= q /\ Bm = q * s) /\ (exists r0, 1 <= r0 /\ BA = r0 * Bm) /\ size sA <= BA /\
              (m < 7 -> Bm = s) /\ (m = 7 -> Bm = BA).
  Proof. exact (upload_sizes sA mA sB HsA HsB HmA Hbert). Qed.

  Lemma Bm_pos : 16 <= Bm.
  Proof. destruct sz_facts as [H1 [[q [Hq H2]] _]]. nia. Qed.

  Definition aligned (off : Z) : Prop := exists j, off = j * s.
  Lemma aligned_div off : aligned off -> off / s * s = off.
  Proof. intros [j ->]. destruct sz_facts as [H1 _]. rewrite Z.div_mul by lia. reflexivity. Qed.
  Lemma aligned_0 : aligned 0. Proof. exists 0. reflexivity. Qed.
  Lemma aligned_add off : aligned off -> aligned (off + Bm).
  Proof. intros [j ->]. destruct sz_facts as [_ [[q [_ ->]] _]]. exists (j + q). ring. Qed.
  Lemma aligned_mul k : aligned (k * Bm).
  Proof. destruct sz_facts as [_ [[q [_ ->]] _]]. exists (k * q). ring. Qed.

  Lemma more_at_true off : 0 <= off <= L -> (more_at off = true <-> off + Bm < L).
  Proof.
    intros Ho. pose proof Bm_pos as HB. unfold more_at. rewrite negb_true_iff, Z.eqb_neq.
    rewrite blen_chunk by lia. lia.
  Qed.
  Lemma more_at_false off : 0 <= off <= L -> (more_at off = false <-> L <= off + Bm).
  Proof.
    intros Ho. pose proof (more_at_true off Ho) as H. destruct (more_at off).
    - split; [discriminate|]. intros Hl. destruct H as [H _]. specialize (H eq_refl). lia.
    - split; [|reflexivity]. intros _. destruct (Z_lt_le_dec (off + Bm) L) as [Hlt|Hle]; [|exact Hle].
      apply H in Hlt. discriminate.
  Qed.
  Lemma chunk_full off : 0 <= off -> off + Bm <= L -> blen (chunk body off Bm) = Bm.
  Proof. intros Ho Hl. pose proof Bm_pos. rewrite blen_chunk by lia. lia. Qed.
  Lemma chunk_rest off : 0 <= off <= L -> L <= off + Bm -> off + blen (chunk body off Bm) = L.
  Proof. intros Ho Hl. pose proof Bm_pos. rewrite blen_chunk by lia. lia. Qed.

  (* createSendingMessage for the Continue that acknowledges the block with number n *)
  Lemma create_sending_req n M :
    create_sending req sA mA {| bszx := m; bnum := n; bmore := M |} =
      if L <? n * s + Bm then None else Some (blk (n * s + Bm), more_at (n * s + Bm)).
  Proof.
    destruct (upload_code _ Hcode) as [_ [_ [H3 _]]].
    unfold create_sending. cbn [req ureq mcode mbody bszx bnum]. rewrite H3.
    replace (Z.min m sA) with m by lia.
    destruct (L <? n * s + Bm); reflexivity.
  Qed.

  (* first message of Do *)
  Lemma do_start_plain : L <= size sA -> do_start (epA []) req = (epA [(tok, req)], Some req).
  Proof.
    intros H. unfold do_start. cbn [epA sending req ureq mtok tget mbody eszx].
    apply Z.leb_le in H. rewrite H. reflexivity.
  Qed.
  Lemma do_start_block : size sA < L -> do_start (epA []) req = (epA [(tok, req)], Some blk0).
  Proof.
    intros H. destruct (upload_code _ Hcode) as [_ [_ [H3 _]]].
    unfold do_start. cbn [epA sending req ureq mtok tget mbody eszx emax mcode].
    apply Z.leb_gt in H. rewrite H, H3. reflexivity.
  Qed.
  (* ---------------------------------------------------------------- handle at the two endpoints *)
  Lemma tget_single (v : msg) : tget [(tok, v)] tok = Some v.
  Proof. cbn [tget]. rewrite Z.eqb_refl. reflexivity. Qed.
  Lemma tput_single (v v' : msg) : tput [(tok, v)] tok v' = [(tok, v')].
  Proof. unfold tput. cbn [tdel]. rewrite Z.eqb_refl. reflexivity. Qed.
  Lemma tdel_single (v : msg) : tdel [(tok, v)] tok = [].
  Proof. cbn [tdel]. rewrite Z.eqb_refl. reflexivity. Qed.
  Lemma m_range : 0 <= m <= 7. Proof. lia. Qed.
  Lemma mtok_blk off : mtok (blk off) = tok. Proof. reflexivity. Qed.
  Lemma mbody_blk off : mbody (blk off) = chunk body off Bm. Proof. reflexivity. Qed.
  Lemma receiving_epB t : receiving (epB t) = t. Proof. reflexivity. Qed.
  Lemma sending_epA t : sending (epA t) = t. Proof. reflexivity. Qed.
  Lemma with_receiving_epB t t' : with_receiving (epB t) t' = epB t'. Proof. reflexivity. Qed.
  Lemma with_sending_epA t t' : with_sending (epA t) t' = epA t'. Proof. reflexivity. Qed.

  (* B, block 0 of a new transfer: the reassembly state is created with the whole first buffer *)
  Lemma handleB_first ap :
    handle ap (epB []) blk0 = (epB [(tok, entry (Z.min BA L))], Some (contmsg tok m 0 true), [], 0).
  Proof.
    rewrite handle_received_path by (left; reflexivity).
    rewrite handle_received_upload by exact Hcode.
    cbn [blk0 ublock mb1 epB eszx emax]. rewrite fit_min. cbn [bszx].
    erewrite (process_block1_first ap _ _ _ {| bszx := sA; bnum := 0; bmore := true |});
      [|exact Hcode|reflexivity|reflexivity|reflexivity|reflexivity|reflexivity].
    cbn [bszx bnum mtok mbody set_body receiving with_receiving]. rewrite Z.mul_0_l. cbn [Z.eqb].
    replace (Z.min sA m) with m by lia. rewrite Z.min_id.
    rewrite start_sending_cont by exact m_range.
    unfold entry. rewrite <- (firstn_clip body BA).
    - reflexivity.
    - destruct sz_facts as [_ [_ [_ [H _]]]]. pose proof (size_pos sA HsA). lia.
  Qed.

  (* B, a later block while the transfer is not finished by it: appended iff its offset is the
     length of the buffer; 2.31 Continue echoes NUM and M *)
  Lemma handleB_block ap off bl :
    aligned off -> 0 <= bl <= L -> 0 <= off -> off + Bm < L \/ off <> bl ->
    handle ap (epB [(tok, entry bl)]) (blk off) =
      (epB [(tok, entry (if off =? bl then bl + Bm else bl))], Some (contmsg tok m (off / s) (more_at off)), [], 0).
  Proof.
    intros Hal Hbl Hoff Hcase.
    rewrite handle_received_path by (left; reflexivity).
    rewrite handle_received_upload by exact Hcode.
    cbn [blk ublock mb1 epB eszx emax]. rewrite fit_min. cbn [bszx].
    erewrite (process_block1_cached ap _ _ _ {| bszx := m; bnum := off / s; bmore := more_at off |} (entry bl));
      [|exact Hcode|reflexivity|reflexivity|reflexivity|apply tget_single|reflexivity].
    cbn [bszx bnum bmore mtok mbody entry ublock receiving with_receiving].
    rewrite (aligned_div off Hal). rewrite blen_firstn, Z2Nat.id by lia. rewrite (Z.min_l bl L) by lia.
    replace (Z.min m (Z.min m sB)) with m by lia.
    destruct (off =? bl) eqn:E.
    - apply Z.eqb_eq in E. subst bl.
      assert (Hfull : off + Bm < L) by (destruct Hcase as [H|H]; [exact H|contradiction H; reflexivity]).
      assert (Hm : more_at off = true) by (apply more_at_true; lia).
      rewrite Hm. cbn [andb negb]. rewrite start_sending_cont by lia.
      rewrite !mtok_blk, mbody_blk, receiving_epB, with_receiving_epB, tput_single.
      unfold set_body, entry. cbn [ublock mcode mtok mb1 mb2 ms1 ms2 metag mobs mother mbody]. cbn [mcode mtok mb1 mb2 ms1 ms2 metag mobs mother mbody].
      rewrite firstn_chunk by (pose proof Bm_pos; lia). reflexivity.
    - cbn [andb]. rewrite start_sending_cont by lia.
      rewrite !mtok_blk, receiving_epB, with_receiving_epB, tput_single. reflexivity.
  Qed.

  (* B, the block that ends the body at the offset the buffer has reached: the reassembled request
     (Block1/Size1 removed) goes to the application, the state is removed, the application's answer
     goes through startSendingMessage.  ANY application. *)
  Lemma handleB_last ap off :
    aligned off -> 0 <= off <= L -> L <= off + Bm ->
    handle ap (epB [(tok, entry off)]) (blk off) =
      let '(e2, o2) := start_sending (epB []) (ap tok req) m mB {| bszx := sB; bnum := 0; bmore := true |} in
      match o2 with
      | Out w => (e2, w, [req], 0)
      | Fail => (e2, Some (entity_incomplete tok), [req], 1)
      end.
  Proof.
    intros Hal Hoff Hend.
    rewrite handle_received_path by (left; reflexivity).
    rewrite handle_received_upload by exact Hcode.
    cbn [blk ublock mb1 epB eszx emax]. rewrite fit_min. cbn [bszx].
    erewrite (process_block1_cached ap _ _ _ {| bszx := m; bnum := off / s; bmore := more_at off |} (entry off));
      [|exact Hcode|reflexivity|reflexivity|reflexivity|apply tget_single|reflexivity].
    cbn [bszx bnum bmore mtok mbody entry ublock receiving with_receiving].
    rewrite (aligned_div off Hal). rewrite blen_firstn, Z2Nat.id by lia. rewrite (Z.min_l off L) by lia.
    rewrite Z.eqb_refl.
    assert (Hm : more_at off = false) by (apply more_at_false; lia).
    rewrite Hm. cbn [andb negb].
    rewrite !mtok_blk, mbody_blk, !receiving_epB, !with_receiving_epB, tput_single, tdel_single.
    unfold set_block, set_body, entry. cbn [ublock mcode mtok mb1 mb2 ms1 ms2 metag mobs mother mbody].
    rewrite firstn_chunk_all; [| lia | pose proof Bm_pos; lia | apply chunk_rest; lia].
    replace (Z.min m sB) with m by lia. unfold req, ureq.
    match goal with |- context [start_sending ?a ?b ?c ?d ?f] => destruct (start_sending a b c d f) as [e2 [w|]] end; reflexivity.
  Qed.

  (* A, a Continue for the block at offset off: the next block, or an error if the body ends before it *)
  Lemma handleA_cont off M :
    aligned off -> 0 <= off -> off + Bm <= L ->
    handle app_a (epA [(tok, req)]) (contmsg tok m (off / s) M) = (epA [(tok, req)], Some (blk (off + Bm)), [], 0).
  Proof.
    intros Hal Hoff Hl.
    erewrite (handle_continue app_a _ _ req {| bszx := m; bnum := off / s; bmore := M |});
      [|apply tget_single|reflexivity|reflexivity|exact Hcode].
    cbn [epA eszx emax]. rewrite create_sending_req. rewrite (aligned_div off Hal).
    replace (L <? off + Bm) with false by (symmetry; apply Z.ltb_ge; lia). reflexivity.
  Qed.
  Lemma handleA_cont_fail off M :
    aligned off -> 0 <= off -> L < off + Bm ->
    handle app_a (epA [(tok, req)]) (contmsg tok m (off / s) M) = (epA [], None, [], 1).
  Proof.
    intros Hal Hoff Hl.
    erewrite (handle_continue app_a _ _ req {| bszx := m; bnum := off / s; bmore := M |});
      [|apply tget_single|reflexivity|reflexivity|exact Hcode].
    cbn [epA eszx emax]. rewrite create_sending_req. rewrite (aligned_div off Hal).
    replace (L <? off + Bm) with true by (symmetry; apply Z.ltb_lt; lia).
    cbn [contmsg mtok]. rewrite sending_epA, with_sending_epA, tdel_single. reflexivity.
  Qed.

  (* ---------------------------------------------------------------- single steps of the run *)
  Definition mob_of (side : Z) (r : msg) (toB : bool) (w : option msg) (d : list msg) (err : Z)
                    (rets : list (Z * Z)) (sz : list Z) : mob :=
    {| mo_side := side; mo_in := Some r; mo_wire := match w with Some x => Some (toB, x) | None => None end;
       mo_deliv := d; mo_err := err; mo_ret := rets; mo_sizes := sz |}.

  Lemma step_W0 h i :
    step c (W0 h i) (Deliver 0) =
      (Wcont 0 (Z.min BA L) true (h ++ [(false, contmsg tok m 0 true)]) i,
       mob_of 1 blk0 false (Some (contmsg tok m 0 true)) [] 0 [] [1; 0; 0; 1]).
  Proof.
    unfold W0, mkw. cbn [step nth_error flight with_flight remove_nth wa wb whist vers pending].
    unfold arrive. cbn [wa wb whist vers pending flight with_flight]. rewrite handleB_first. reflexivity.
  Qed.

  Lemma step_Wblk off bl h i :
    aligned off -> 0 <= bl <= L -> 0 <= off -> off + Bm < L \/ off <> bl ->
    step c (Wblk off bl h i) (Deliver 0) =
      (Wcont off (if off =? bl then bl + Bm else bl) (more_at off)
             (h ++ [(false, contmsg tok m (off / s) (more_at off))]) i,
       mob_of 1 (blk off) false (Some (contmsg tok m (off / s) (more_at off))) [] 0 [] [1; 0; 0; 1]).
  Proof.
    intros Hal Hbl Hoff Hcase.
    unfold Wblk, mkw. cbn [step nth_error flight with_flight remove_nth wa wb whist vers pending].
    unfold arrive. cbn [wa wb whist vers pending flight with_flight]. rewrite handleB_block by assumption. reflexivity.
  Qed.

  Lemma step_Wcont off bl M h i :
    aligned off -> 0 <= off -> off + Bm <= L ->
    step c (Wcont off bl M h i) (Deliver 0) =
      (Wblk (off + Bm) bl (h ++ [(true, blk (off + Bm))]) i,
       mob_of 0 (contmsg tok m (off / s) M) true (Some (blk (off + Bm))) [] 0 [] [1; 0; 0; 1]).
  Proof.
    intros Hal Hoff Hl.
    unfold Wcont, mkw. cbn [step nth_error flight with_flight remove_nth wa wb whist vers pending].
    unfold arrive. cbn [wa wb whist vers pending flight with_flight]. rewrite handleA_cont by assumption.
    cbn [complete existsb]. reflexivity.
  Qed.

  Lemma step_Wcont_fail off bl M h i :
    aligned off -> 0 <= off -> L < off + Bm ->
    step c (Wcont off bl M h i) (Deliver 0) =
      (Werr bl h i, mob_of 0 (contmsg tok m (off / s) M) true None [] 1 [] [0; 0; 0; 1]).
  Proof.
    intros Hal Hoff Hl.
    unfold Wcont, mkw. cbn [step nth_error flight with_flight remove_nth wa wb whist vers pending].
    unfold arrive. cbn [wa wb whist vers pending flight with_flight]. rewrite handleA_cont_fail by assumption.
    cbn [complete existsb]. reflexivity.
  Qed.

  (* ---------------------------------------------------------------- the loop *)
  (* an event that hands nothing over, reports no error, returns nothing; only A's sending state and
     (after block 0) B's receiving state exist *)
  Definition qmob (o : mob) : Prop :=
    mo_deliv o = [] /\ mo_err o = 0 /\ mo_ret o = [] /\ (mo_sizes o = [1; 0; 0; 0] \/ mo_sizes o = [1; 0; 0; 1]).

  Lemma qmob_of side r toB w b : (b = 0 \/ b = 1) -> qmob (mob_of side r toB w [] 0 [] [1; 0; 0; b]).
  Proof. intros [-> | ->]; repeat split; auto. Qed.

  (* one round trip: the block at off reaches B, B's Continue reaches A, the next block is in flight *)
  Lemma round_trip off bl h i :
    aligned off -> 0 <= bl <= L -> 0 <= off -> off + Bm <= L -> off + Bm < L \/ off <> bl ->
    exists h',
      exec c (Wblk off bl h i) [Deliver 0; Deliver 0] = Wblk (off + Bm) (if off =? bl then bl + Bm else bl) h' i /\
      Forall qmob (run c (Wblk off bl h i) [Deliver 0; Deliver 0]).
  Proof.
    intros Hal Hbl Hoff Hl Hcase.
    eexists. rewrite !run_cons. cbn [exec run].
    rewrite (step_Wblk off bl h i Hal Hbl Hoff Hcase). cbn [fst snd].
    rewrite (step_Wcont off _ _ _ i Hal Hoff Hl). cbn [fst snd].
    split; [reflexivity|].
    constructor; [apply qmob_of; auto|]. constructor; [apply qmob_of; auto|]. constructor.
  Qed.

  (* d round trips starting with block k (offset k * Bm) while B holds max(r, k) buffers: B is ahead
     while k < r (the blocks are not appended), in step from k = r on *)
  Lemma upload_loop r i d : forall k h,
    0 <= r -> r * Bm <= L -> 1 <= k -> k * Bm <= L ->
    (forall j, k <= j < k + Z.of_nat d -> (j + 1) * Bm <= L /\ (j < r \/ (j + 1) * Bm < L)) ->
    exists h',
      exec c (Wblk (k * Bm) (Z.max r k * Bm) h i) (repeat (Deliver 0) (2 * d)) =
        Wblk ((k + Z.of_nat d) * Bm) (Z.max r (k + Z.of_nat d) * Bm) h' i /\
      Forall qmob (run c (Wblk (k * Bm) (Z.max r k * Bm) h i) (repeat (Deliver 0) (2 * d))).
  Proof.
    induction d as [|d IH]; intros k h Hr HrL Hk HkL Hall.
    - exists h. cbn [Nat.mul repeat exec run Z.of_nat]. rewrite Z.add_0_r. split; [reflexivity|constructor].
    - pose proof Bm_pos as HB.
      replace (2 * S d)%nat with (2 + 2 * d)%nat by lia. rewrite repeat_add.
      cbn [repeat]. rewrite exec_app, run_app.
      destruct (Hall k ltac:(lia)) as [Hk1 Hcase].
      assert (E1 : (k + 1) * Bm = k * Bm + Bm) by ring.
      assert (Hbl : 0 <= Z.max r k * Bm <= L).
      { destruct (Z.max_spec r k) as [[_ ->]|[_ ->]]; nia. }
      assert (Hcase' : k * Bm + Bm < L \/ k * Bm <> Z.max r k * Bm).
      { destruct Hcase as [H|H]; [right|left; lia]. rewrite Z.max_l by lia. nia. }
      destruct (round_trip (k * Bm) (Z.max r k * Bm) h i (aligned_mul k) Hbl ltac:(nia) ltac:(lia) Hcase')
        as [h1 [Hex Hq]].
      rewrite Hex.
      assert (Enext : (if k * Bm =? Z.max r k * Bm then Z.max r k * Bm + Bm else Z.max r k * Bm) = Z.max r (k + 1) * Bm).
      { destruct (Z_le_gt_dec r k) as [Hle|Hgt].
        - rewrite (Z.max_r r k) by lia. rewrite Z.eqb_refl. rewrite (Z.max_r r (k + 1)) by lia. ring.
        - rewrite (Z.max_l r k) by lia. rewrite (Z.max_l r (k + 1)) by lia.
          replace (k * Bm =? r * Bm) with false; [reflexivity|]. symmetry. apply Z.eqb_neq. nia. }
      rewrite Enext, <- E1.
      destruct (IH (k + 1) h1 Hr HrL ltac:(lia) ltac:(lia)) as [h2 [Hex2 Hq2]].
      { intros j Hj. apply Hall. lia. }
      exists h2. replace (k + Z.of_nat (S d)) with (k + 1 + Z.of_nat d) by lia.
      split; [exact Hex2|]. apply Forall_app. split; [exact Hq|exact Hq2].
  Qed.

  (* ---------------------------------------------------------------- Start *)
  Variable i : nat.
  Variable x : exch.
  Hypothesis Hnth : nth_error (cexch c) i = Some x.
  Hypothesis Hreq : request_of x = req.

  Definition start_mob (m0 : msg) : mob :=
    {| mo_side := 2; mo_in := None; mo_wire := Some (true, m0); mo_deliv := []; mo_err := 0; mo_ret := [];
       mo_sizes := [1; 0; 0; 0] |}.

  Lemma step_start_block : xkind x = 0 -> size sA < L ->
    step c (init c) (Start i) = (W0 [(true, blk0)] i, start_mob blk0).
  Proof.
    intros Hkind Hbig. rewrite init_mkw. unfold mkw. cbn [step]. rewrite Hnth, Hkind. cbn [Z.eqb wa].
    assert (Htok : xtok x = tok) by exact (f_equal mtok Hreq).
    rewrite Hreq, (do_start_block Hbig), Htok. reflexivity.
  Qed.

  (* ---------------------------------------------------------------- the upload phase *)
  (* r = number of negotiated buffers in the first wire message, kf = index of the block that completes
     the transfer, counted in negotiated buffers *)
  Definition first_len : Z := Z.min BA L.
  Definition ahead : Z := first_len / Bm.
  Definition last_index : Z := Z.max ahead ((L + Bm - 1) / Bm - 1).

  Lemma last_index_facts : size sA < L -> first_len mod Bm = 0 ->
    1 <= ahead /\ ahead * Bm = first_len /\ ahead * Bm <= L /\
    ahead <= last_index /\ L <= (last_index + 1) * Bm /\ (last_index = ahead \/ last_index * Bm < L) /\
    last_index * Bm <= L /\
    last_index + 1 = (L + Bm - 1) / Bm + (if L <=? BA then 1 else 0).
  Proof.
    intros Hbig Hdiv. pose proof Bm_pos as HB. destruct sz_facts as [_ [_ [[r0 [Hr0 HBA]] [HsBA _]]]].
    pose proof (size_pos sA HsA) as HsApos.
    unfold last_index, ahead, first_len in *.
    set (B := Bm) in *. set (F := Z.min BA L) in *. set (cl := (L + B - 1) / B).
    assert (HF0 : 0 < F) by (unfold F; lia).
    assert (Hr : F / B * B = F) by (clearbody F B; lia).
    assert (HF : B <= F).
    { revert Hr. generalize (F / B). intros q Hq. clearbody F B. assert (1 <= q) by nia. nia. }
    assert (Hcl1 : L <= cl * B) by (unfold cl; clearbody B; lia).
    assert (Hcl2 : (cl - 1) * B < L) by (unfold cl; clearbody B; lia).
    assert (HFL : F <= L) by (unfold F; lia).
    set (r := F / B) in *.
    assert (Hmono : forall a b, a <= b -> a * B <= b * B) by (intros; apply Z.mul_le_mono_nonneg_r; lia).
    assert (Hclt : forall a b, a * B < b * B -> a < b) by (intros a b H; apply Z.mul_lt_mono_pos_r in H; lia).
    assert (Hcle : forall a b, a * B <= b * B -> a <= b) by (intros a b H; apply Z.mul_le_mono_pos_r in H; lia).
    assert (Hr1 : 1 <= r) by (apply Hcle; lia).
    clearbody cl r.
    split; [exact Hr1|]. split; [exact Hr|]. split; [lia|].
    split; [lia|].
    split.
    { destruct (Z.max_spec r (cl - 1)) as [[Hlt ->]|[Hle ->]].
      - replace (cl - 1 + 1) with cl by ring. exact Hcl1.
      - pose proof (Hmono cl (r + 1) ltac:(lia)). lia. }
    split; [destruct (Z.max_spec r (cl - 1)) as [[_ ->]|[_ ->]]; [right; lia|left; reflexivity]|].
    split; [destruct (Z.max_spec r (cl - 1)) as [[_ ->]|[_ ->]]; lia|].
    destruct (L <=? BA) eqn:E.
    - apply Z.leb_le in E. assert (F = L) by (unfold F; lia).
      assert (cl - 1 < r) by (apply Hclt; lia). assert (r <= cl) by (apply Hcle; lia). lia.
    - apply Z.leb_gt in E. assert (F = BA) by (unfold F; lia).
      assert (r < cl) by (apply Hclt; lia). lia.
  Qed.

  (* C04 upload phase.  After Start and 2*last_index deliveries: A still holds the request in its sending
     cache, B holds the body minus the last block in its receiving cache, the last block (M = 0, offset =
     length of B's buffer) is in flight, nothing was handed to an application, no error, no return.
     What Handle at B does with that block is handleB_last (any application). *)
  Theorem upload_phase : xkind x = 0 -> size sA < L -> first_len mod Bm = 0 ->
    let off := last_index * Bm in
    let script := Start i :: repeat (Deliver 0) (2 * Z.to_nat last_index) in
    exists h,
      exec c (init c) script = Wblk off off h i /\
      Forall qmob (run c (init c) script) /\
      aligned off /\ 0 <= off <= L /\ L <= off + Bm /\ 1 <= last_index.
  Proof.
    intros Hkind Hbig Hdiv off script.
    destruct (last_index_facts Hbig Hdiv) as [Hr1 [HrF [HrL [Hrk [Hend [Hmin [HkL _]]]]]]].
    pose proof Bm_pos as HB.
    set (r := ahead) in *. set (kf := last_index) in *.
    assert (Hkf1 : 1 <= kf) by lia.
    unfold script. replace (2 * Z.to_nat kf)%nat with (2 + 2 * Z.to_nat (kf - 1))%nat by lia.
    rewrite repeat_add. cbn [repeat List.app].
    rewrite !run_cons. cbn [exec].
    rewrite (step_start_block Hkind Hbig). cbn [fst snd].
    rewrite step_W0. cbn [fst snd].
    change (contmsg tok m 0 true) with (contmsg tok m (0 / s) true).
    assert (HBL : 0 + Bm <= L) by nia.
    rewrite (step_Wcont 0 _ true _ i aligned_0 ltac:(lia) HBL). cbn [fst snd].
    fold first_len. rewrite <- HrF.
    replace (0 + Bm) with (1 * Bm) by ring.
    replace (r * Bm) with (Z.max r 1 * Bm) by (rewrite Z.max_l by lia; reflexivity).
    match goal with |- context [Wblk (1 * Bm) (Z.max r 1 * Bm) ?h i] => set (h1 := h) end.
    destruct (upload_loop r i (Z.to_nat (kf - 1)) 1 h1 ltac:(lia) HrL ltac:(lia) ltac:(lia)) as [h2 [Hex Hq]].
    { intros j Hj. rewrite Z2Nat.id in Hj by lia. split; [nia|].
      destruct (Z_lt_le_dec j r) as [Hlt|Hge]; [left; exact Hlt|right].
      destruct Hmin as [Hmin|Hmin]; [lia|nia]. }
    rewrite Z2Nat.id in Hex by lia. replace (1 + (kf - 1)) with kf in Hex by ring.
    rewrite (Z.max_r r kf) in Hex by lia.
    exists h2. split; [exact Hex|].
    split.
    { constructor; [repeat split; auto|]. constructor; [apply qmob_of; auto|]. constructor; [apply qmob_of; auto|].
      exact Hq. }
    split; [apply aligned_mul|]. split; [lia|]. split; [lia|exact Hkf1].
  Qed.

  (* ---------------------------------------------------------------- the end: a small response *)
  (* B, a request that is not block-wise *)
  Lemma handleB_plain ap :
    handle ap (epB []) req =
      let '(e2, o2) := start_sending (epB []) (ap tok req) sB mB {| bszx := sB; bnum := 0; bmore := true |} in
      match o2 with
      | Out w => (e2, w, [req], 0)
      | Fail => (e2, Some (entity_incomplete tok), [req], 1)
      end.
  Proof.
    destruct (upload_code _ Hcode) as [_ [H2 _]].
    rewrite handle_received_path by (left; reflexivity).
    rewrite handle_received_upload by exact Hcode. cbv zeta.
    rewrite process_plain by (try reflexivity; exact H2).
    cbn [req ureq mb1 mtok epB eszx emax fit].
    match goal with |- context [start_sending ?a ?b ?c ?d ?f] => destruct (start_sending a b c d f) as [e2 [w|]] end; reflexivity.
  Qed.

  (* a response (or 4.08) without Block options, handed to an application that does not answer *)
  Lemma handle_plain_response ap e r :
    mcode r = Created \/ mcode r = Changed \/ mcode r = Incomplete -> mb1 r = None -> mb2 r = None -> ap (mtok r) r = None ->
    handle ap e r = (e, None, [r], 0).
  Proof.
    intros Hc Hb1 Hb2 Hap.
    assert (Hw : wants_to_be_received r = true).
    { unfold wants_to_be_received. rewrite Hb1, Hb2. destruct Hc as [-> |[-> | ->]]; reflexivity. }
    rewrite handle_received_path by (right; exact Hw).
    assert (H2 : (mcode r =? GET) || (mcode r =? DELETE) = false) by (destruct Hc as [-> |[-> | ->]]; reflexivity).
    assert (H3 : is_upload (mcode r) = false) by (destruct Hc as [-> |[-> | ->]]; reflexivity).
    assert (H1 : (mcode r =? 0) || ((225 <=? mcode r) && (mcode r <=? 229)) = false) by (destruct Hc as [-> |[-> | ->]]; reflexivity).
    unfold handle_received, handle_received_s; fold_pr. rewrite H1, H2, H3.
    rewrite process_plain by assumption. rewrite Hap. reflexivity.
  Qed.

  Variable rs : res.
  Hypothesis Hres : nth_error (cres c) (Z.to_nat (xpath x)) = Some rs.
  Hypothesis Hsmall : rlen rs < 16.

  (* what B's application answers *)
  Definition resp : msg :=
    {| mcode := resp_code code; mtok := tok; mb1 := None; mb2 := None; ms1 := None; ms2 := None;
       metag := res_etag rs 0; mobs := None; mother := [(12, rcf rs)]; mbody := res_body rs 0 |}.

  Lemma app_b_req : app_b c [] tok req = Some resp.
  Proof.
    destruct (upload_code _ Hcode) as [_ [_ [_ [_ H5]]]].
    assert (Hoth : [(11, xpath x)] = oth) by exact (f_equal mother Hreq).
    unfold app_b. cbn [req ureq mcode mother]. rewrite H5, <- Hoth. cbn [zassoc Z.eqb Pos.eqb]. rewrite Hres.
    reflexivity.
  Qed.

  Lemma resp_small mx : 0 <= mx <= 7 -> blen (mbody resp) < size mx.
  Proof.
    intros H. pose proof (size_pos mx H). cbn [resp mbody]. unfold res_body, blen. rewrite gen_body_length. lia.
  Qed.

  Definition Wresp (h : list (bool * msg)) : world := mkw (epA [(tok, req)]) (epB []) [(false, resp)] h [(i, tok)].
  Definition Wend (h : list (bool * msg)) : world := mkw (epA []) (epB []) [] h [].

  Lemma step_last off h :
    aligned off -> 0 <= off <= L -> L <= off + Bm ->
    step c (Wblk off off h i) (Deliver 0) =
      (Wresp (h ++ [(false, resp)]), mob_of 1 (blk off) false (Some resp) [req] 0 [] [1; 0; 0; 0]).
  Proof.
    intros Hal Hoff Hend.
    unfold Wblk, mkw. cbn [step nth_error flight with_flight remove_nth wa wb whist vers pending].
    unfold arrive. cbn [wa wb whist vers pending flight with_flight].
    rewrite (handleB_last _ off Hal Hoff Hend). rewrite app_b_req.
    rewrite start_sending_small by (apply resp_small; lia). reflexivity.
  Qed.

  Lemma step_plain h :
    step c (mkw (epA [(tok, req)]) (epB []) [(true, req)] h [(i, tok)]) (Deliver 0) =
      (Wresp (h ++ [(false, resp)]), mob_of 1 req false (Some resp) [req] 0 [] [1; 0; 0; 0]).
  Proof.
    unfold mkw. cbn [step nth_error flight with_flight remove_nth wa wb whist vers pending].
    unfold arrive. cbn [wa wb whist vers pending flight with_flight].
    rewrite handleB_plain. rewrite app_b_req.
    rewrite start_sending_small by (apply resp_small; lia). reflexivity.
  Qed.

  Lemma step_resp h :
    step c (Wresp h) (Deliver 0) =
      (Wend h, mob_of 0 resp true None [resp] 0 [(Z.of_nat i, 0)] [0; 0; 0; 0]).
  Proof.
    unfold Wresp, mkw. cbn [step nth_error flight with_flight remove_nth wa wb whist vers pending].
    unfold arrive. cbn [wa wb whist vers pending flight with_flight].
    rewrite handle_plain_response;
      [|destruct Hcode as [E|E]; [right; left|left]; cbn [resp mcode]; rewrite E; reflexivity
       |reflexivity|reflexivity|reflexivity].
    cbn [complete existsb resp mtok]. rewrite Z.eqb_refl. cbn [orb].
    rewrite sending_epA, with_sending_epA, tdel_single. reflexivity.
  Qed.

  Lemma step_start_plain : xkind x = 0 -> L <= size sA ->
    step c (init c) (Start i) =
      (mkw (epA [(tok, req)]) (epB []) [(true, req)] [(true, req)] [(i, tok)], start_mob req).
  Proof.
    intros Hkind Hle. rewrite init_mkw. unfold mkw. cbn [step]. rewrite Hnth, Hkind. cbn [Z.eqb wa].
    assert (Htok : xtok x = tok) by exact (f_equal mtok Hreq).
    rewrite Hreq, (do_start_plain Hle), Htok. reflexivity.
  Qed.

  (* number of round trips (messages to B) of the whole exchange *)
  Definition rounds : Z := if L <=? size sA then 1 else last_index + 1.

  (* the two events that end the exchange: B's application gets the request, A's the response *)
  Definition endB (o : mob) : Prop :=
    mo_side o = 1 /\ mo_deliv o = [req] /\ mo_wire o = Some (false, resp) /\ mo_err o = 0 /\ mo_ret o = [] /\
    mo_sizes o = [1; 0; 0; 0].
  Definition endA (o : mob) : Prop :=
    mo_side o = 0 /\ mo_in o = Some resp /\ mo_deliv o = [resp] /\ mo_wire o = None /\ mo_err o = 0 /\
    mo_ret o = [(Z.of_nat i, 0)] /\ mo_sizes o = [0; 0; 0; 0].

  Theorem upload_do_trace : xkind x = 0 -> (size sA < L -> first_len mod Bm = 0) ->
    let script := Start i :: repeat (Deliver 0) (2 * Z.to_nat rounds) in
    exists pre oB oA h,
      run c (init c) script = pre ++ [oB; oA] /\ Forall qmob pre /\ endB oB /\ endA oA /\
      exec c (init c) script = Wend h.
  Proof.
    intros Hkind Hdiv script. unfold script, rounds.
    destruct (L <=? size sA) eqn:E.
    - apply Z.leb_le in E. change (2 * Z.to_nat 1)%nat with 2%nat. cbn [repeat].
      rewrite !run_cons. cbn [exec run].
      rewrite (step_start_plain Hkind E). cbn [fst snd].
      rewrite step_plain. cbn [fst snd]. rewrite step_resp. cbn [fst snd].
      eexists [_], _, _, _. cbn [List.app].
      split; [reflexivity|]. split; [constructor; [repeat split; auto|constructor]|].
      split; [repeat split|]. split; [repeat split|reflexivity].
    - apply Z.leb_gt in E. specialize (Hdiv E).
      destruct (upload_phase Hkind E Hdiv) as [h [Hex [Hq [Hal [Hoff [Hend Hk1]]]]]].
      replace (2 * Z.to_nat (last_index + 1))%nat with (2 * Z.to_nat last_index + 2)%nat by lia.
      rewrite repeat_add. cbn [repeat]. rewrite app_comm_cons, run_app, exec_app, Hex.
      set (pre := run c (init c) (Start i :: repeat (Deliver 0) (2 * Z.to_nat last_index))) in *. clearbody pre.
      rewrite !run_cons. cbn [exec run].
      rewrite (step_last _ h Hal Hoff Hend). cbn [fst snd]. rewrite step_resp. cbn [fst snd].
      eexists _, _, _, _. split; [reflexivity|]. split; [exact Hq|].
      split; [repeat split|]. split; [repeat split|reflexivity].
  Qed.

  (* ---------------------------------------------------------------- O2: the failing uploads *)
  (* B keeps the bl bytes of the first buffer while blocks whose offset is not bl arrive *)
  Lemma ahead_loop bl d : forall k h,
    0 <= bl <= L -> 1 <= k ->
    (forall j, k <= j < k + Z.of_nat d -> (j + 1) * Bm <= L /\ j * Bm <> bl) ->
    exists h',
      exec c (Wblk (k * Bm) bl h i) (repeat (Deliver 0) (2 * d)) = Wblk ((k + Z.of_nat d) * Bm) bl h' i /\
      Forall qmob (run c (Wblk (k * Bm) bl h i) (repeat (Deliver 0) (2 * d))).
  Proof.
    induction d as [|d IH]; intros k h Hbl Hk Hall.
    - exists h. cbn [Nat.mul repeat exec run Z.of_nat]. rewrite Z.add_0_r. split; [reflexivity|constructor].
    - pose proof Bm_pos as HB.
      replace (2 * S d)%nat with (2 + 2 * d)%nat by lia. rewrite repeat_add.
      cbn [repeat]. rewrite exec_app, run_app.
      destruct (Hall k ltac:(lia)) as [Hk1 Hne].
      assert (E1 : (k + 1) * Bm = k * Bm + Bm) by ring.
      assert (Hk0 : 0 <= k * Bm) by (apply Z.mul_nonneg_nonneg; lia).
      destruct (round_trip (k * Bm) bl h i (aligned_mul k) Hbl Hk0 ltac:(lia) (or_intror Hne)) as [h1 [Hex Hq]].
      rewrite Hex. replace (k * Bm =? bl) with false by (symmetry; apply Z.eqb_neq; exact Hne).
      rewrite <- E1.
      destruct (IH (k + 1) h1 Hbl ltac:(lia)) as [h2 [Hex2 Hq2]].
      { intros j Hj. apply Hall. lia. }
      exists h2. replace (k + Z.of_nat (S d)) with (k + 1 + Z.of_nat d) by lia.
      split; [exact Hex2|]. apply Forall_app. split; [exact Hq|exact Hq2].
  Qed.

  (* the event in which the sender gives up: error callback at A, nothing sent, sending state dropped *)
  Definition errA (o : mob) : Prop :=
    mo_side o = 0 /\ mo_deliv o = [] /\ mo_wire o = None /\ mo_err o = 1 /\ mo_ret o = [] /\ mo_sizes o = [0; 0; 0; 1].

  (* O2 refuted, all bodies in the region: the first wire message (M = 1) already holds the whole body;
     the continuation runs past the end of the body before B's buffer offset is met *)
  Theorem upload_o2_trace : xkind x = 0 -> size sA < L -> L < BA -> L mod Bm <> 0 ->
    let script := Start i :: repeat (Deliver 0) (2 * Z.to_nat (L / Bm) + 2) in
    exists pre oE h,
      run c (init c) script = pre ++ [oE] /\ Forall qmob pre /\ errA oE /\
      exec c (init c) script = Werr L h i.
  Proof.
    intros Hkind Hbig Hlt Hnd script. pose proof Bm_pos as HB. unfold script. clear script.
    set (ks := L / Bm).
    assert (Hks : ks * Bm <= L < ks * Bm + Bm /\ 0 <= ks /\ ks * Bm <> L).
    { unfold ks. pose proof (Z.div_mod L Bm ltac:(lia)) as Hdm. pose proof (Z.mod_pos_bound L Bm ltac:(lia)) as Hmb.
      assert (0 <= L / Bm) by (apply Z.div_pos; [apply blen_nonneg|lia]). lia. }
    destruct Hks as [[Hk1 Hk2] [Hk0 Hkne]].
    cbn [repeat]. rewrite !run_cons. cbn [exec].
    rewrite (step_start_block Hkind Hbig). cbn [fst snd].
    replace (2 * Z.to_nat ks + 2)%nat with (S (2 * Z.to_nat ks + 1))%nat by lia. cbn [repeat].
    rewrite run_cons. cbn [exec].
    rewrite step_W0. cbn [fst snd].
    change (contmsg tok m 0 true) with (contmsg tok m (0 / s) true).
    rewrite (Z.min_r BA L) by lia.
    destruct (Z.eq_dec ks 0) as [E0|N0].
    - (* the first Continue already fails *)
      rewrite E0 in *. change (2 * Z.to_nat 0 + 1)%nat with 1%nat. cbn [repeat].
      rewrite run_cons. cbn [exec run].
      rewrite (step_Wcont_fail 0 L true _ i aligned_0 ltac:(lia) ltac:(lia)). cbn [fst snd].
      eexists [_; _], _, _. cbn [List.app]. split; [reflexivity|].
      split; [constructor; [repeat split; auto|constructor; [apply qmob_of; auto|constructor]]|].
      split; [repeat split|reflexivity].
    - assert (Hks1 : 1 <= ks) by lia.
      assert (HBL : 0 + Bm <= L) by nia.
      replace (2 * Z.to_nat ks + 1)%nat with (S (2 * Z.to_nat (ks - 1) + 2))%nat by lia.
      cbn [repeat]. rewrite run_cons. cbn [exec].
      rewrite (step_Wcont 0 L true _ i aligned_0 ltac:(lia) HBL). cbn [fst snd].
      replace (0 + Bm) with (1 * Bm) by ring.
      rewrite repeat_add, run_app, exec_app.
      match goal with |- context [Wblk (1 * Bm) L ?h i] => set (h1 := h) end.
      destruct (ahead_loop L (Z.to_nat (ks - 1)) 1 h1 ltac:(pose proof (blen_nonneg body); lia) ltac:(lia)) as [h2 [Hex Hq]].
      { intros j Hj. rewrite Z2Nat.id in Hj by lia.
        assert ((j + 1) * Bm <= ks * Bm) by (apply Z.mul_le_mono_nonneg_r; lia).
        assert (j * Bm < (j + 1) * Bm) by (apply Z.mul_lt_mono_pos_r; lia). lia. }
      rewrite Z2Nat.id in Hex by lia. replace (1 + (ks - 1)) with ks in Hex by ring.
      rewrite Hex. cbn [repeat]. rewrite !run_cons. cbn [exec run].
      assert (Hk0' : 0 <= ks * Bm) by (apply Z.mul_nonneg_nonneg; lia).
      rewrite (step_Wblk (ks * Bm) L h2 i (aligned_mul ks) ltac:(pose proof (blen_nonneg body); lia) Hk0' (or_intror Hkne)).
      cbn [fst snd]. replace (ks * Bm =? L) with false by (symmetry; apply Z.eqb_neq; exact Hkne).
      rewrite (step_Wcont_fail (ks * Bm) L _ _ i (aligned_mul ks) Hk0' Hk2). cbn [fst snd].
      eexists (_ :: _ :: _ :: _ ++ [_]), _, _.
      split; [cbn [List.app]; rewrite <- app_assoc; reflexivity|].
      split.
      { constructor; [repeat split; auto|]. constructor; [apply qmob_of; auto|]. constructor; [apply qmob_of; auto|].
        apply Forall_app. split; [exact Hq|]. constructor; [apply qmob_of; auto|constructor]. }
      split; [repeat split|reflexivity].
  Qed.

  (* ---------------------------------------------------------------- O1: one-way writes (WriteMessage) *)
  (* a body shorter than one block goes out as it is and is delivered exactly once *)
  Lemma step_start_write_small : xkind x = 1 -> L < size sA ->
    step c (init c) (Start i) =
      (mkw (epA []) (epB []) [(true, req)] [(true, req)] [],
       {| mo_side := 2; mo_in := None; mo_wire := Some (true, req); mo_deliv := []; mo_err := 0;
          mo_ret := [(Z.of_nat i, 0)]; mo_sizes := [0; 0; 0; 0] |}).
  Proof.
    intros Hkind Hlt. rewrite init_mkw. unfold mkw. cbn [step]. rewrite Hnth, Hkind. cbn [Z.eqb Pos.eqb wa].
    rewrite Hreq. unfold write_start. rewrite start_sending_small by exact Hlt. reflexivity.
  Qed.

  Lemma step_plain_write h :
    step c (mkw (epA []) (epB []) [(true, req)] h []) (Deliver 0) =
      (mkw (epA []) (epB []) [(false, resp)] (h ++ [(false, resp)]) [],
       mob_of 1 req false (Some resp) [req] 0 [] [0; 0; 0; 0]).
  Proof.
    unfold mkw. cbn [step nth_error flight with_flight remove_nth wa wb whist vers pending].
    unfold arrive. cbn [wa wb whist vers pending flight with_flight].
    rewrite handleB_plain. rewrite app_b_req.
    rewrite start_sending_small by (apply resp_small; lia). reflexivity.
  Qed.

  Lemma step_resp_write h :
    step c (mkw (epA []) (epB []) [(false, resp)] h []) (Deliver 0) =
      (mkw (epA []) (epB []) [] h [], mob_of 0 resp true None [resp] 0 [] [0; 0; 0; 0]).
  Proof.
    unfold mkw. cbn [step nth_error flight with_flight remove_nth wa wb whist vers pending].
    unfold arrive. cbn [wa wb whist vers pending flight with_flight].
    rewrite handle_plain_response;
      [|destruct Hcode as [E|E]; [right; left|left]; cbn [resp mcode]; rewrite E; reflexivity
       |reflexivity|reflexivity|reflexivity].
    reflexivity.
  Qed.

  Theorem write_small_trace : xkind x = 1 -> L < size sA ->
    exists o0 oB oA h,
      run c (init c) [Start i; Deliver 0; Deliver 0] = [o0; oB; oA] /\
      (mo_side o0 = 2 /\ mo_deliv o0 = [] /\ mo_err o0 = 0 /\ mo_ret o0 = [(Z.of_nat i, 0)]) /\
      (mo_side oB = 1 /\ mo_deliv oB = [req] /\ mo_err oB = 0 /\ mo_ret oB = []) /\
      (mo_side oA = 0 /\ mo_deliv oA = [resp] /\ mo_err oA = 0 /\ mo_ret oA = [] /\ mo_sizes oA = [0; 0; 0; 0]) /\
      exec c (init c) [Start i; Deliver 0; Deliver 0] = mkw (epA []) (epB []) [] h [].
  Proof.
    intros Hkind Hlt. rewrite !run_cons. cbn [exec run].
    rewrite (step_start_write_small Hkind Hlt). cbn [fst snd].
    rewrite step_plain_write. cbn [fst snd]. rewrite step_resp_write. cbn [fst snd].
    eexists _, _, _, _. split; [reflexivity|]. repeat split.
  Qed.

  (* a body of at least one block: startSendingMessage builds the first wire message with
     createSendingMessage, which for POST/PUT adds one buffer to the offset: block 0 is never sent.
     Invariant of the fault-free run: every Block1 block that reaches B has NUM > 0 and B's reassembly
     buffer (if any) is empty, so nothing is ever appended and nothing is ever handed over. *)
  Definition orphan (mm : msg) : Prop :=
    mcode mm = code /\ mtok mm = tok /\ mobs mm = None /\ metag mm = None /\
    exists b, mb1 mm = Some b /\ 1 <= bnum b /\ 0 <= bszx b <= 7.
  Definition emptied (rcv : tbl) : Prop :=
    rcv = [] \/ exists cm, rcv = [(tok, cm)] /\ mbody cm = [] /\ mtok cm = tok.
  Inductive o1flight (snd : tbl) : list (bool * msg) -> Prop :=
  | o1_none : o1flight snd []
  | o1_block mm : orphan mm -> snd = [(tok, req)] -> o1flight snd [(true, mm)]
  | o1_cont z n M : 0 <= z <= 7 -> 0 <= n -> snd = [(tok, req)] -> o1flight snd [(false, contmsg tok z n M)]
  | o1_408 : o1flight snd [(false, entity_incomplete tok)].
  Definition o1inv (w : world) : Prop :=
    exists snd rcv, wa w = epA snd /\ wb w = epB rcv /\ pending w = [] /\
                    (snd = [] \/ snd = [(tok, req)]) /\ emptied rcv /\ o1flight snd (flight w).

  Lemma buffer_ge_size z : 0 <= z <= 7 -> z <= sA -> size z <= buffer_size z mA.
  Proof.
    intros Hz Hle. destruct (Z.eq_dec z 7) as [E|N].
    - subst z. assert (sA = 7) as E7 by lia. specialize (Hbert E7).
      rewrite (buffer_size_bert mA HmA), size_7.
      assert (1 <= mA / 1024) by (apply Z.div_le_lower_bound; lia). lia.
    - rewrite buffer_size_small by lia. lia.
  Qed.

  Lemma create_sending_orphan z n M : 0 <= z <= 7 -> 0 <= n ->
    match create_sending req sA mA {| bszx := z; bnum := n; bmore := M |} with
    | None => True
    | Some (sm, _) => orphan sm
    end.
  Proof.
    intros Hz Hn. destruct (upload_code _ Hcode) as [_ [_ [H3 _]]].
    unfold create_sending. cbn [req ureq mcode mbody bszx bnum]. rewrite H3.
    set (szx := Z.min z sA). assert (Hszx : 0 <= szx <= 7) by (unfold szx; lia).
    pose proof (size_pos szx Hszx) as Hsize. pose proof (buffer_ge_size szx Hszx ltac:(unfold szx; lia)) as Hbuf.
    destruct (L <? n * size szx + buffer_size szx mA); [exact I|].
    unfold orphan. cbn [set_body set_block mcode mtok mobs metag mb1].
    repeat split. eexists. split; [reflexivity|]. cbn [bnum bszx]. split; [|exact Hszx].
    apply Z.div_le_lower_bound; [lia|]. assert (0 <= n * size szx) by (apply Z.mul_nonneg_nonneg; lia). lia.
  Qed.

  Definition o1reply (w : msg) : Prop :=
    (exists z n M, w = contmsg tok z n M /\ 0 <= z <= 7 /\ 0 <= n) \/ w = entity_incomplete tok.

  Lemma handleB_orphan ap rcv mm : emptied rcv -> orphan mm ->
    exists rcv' w err, handle ap (epB rcv) mm = (epB rcv', Some w, [], err) /\ emptied rcv' /\ o1reply w.
  Proof.
    intros Hr [Hc [Ht [Hobs [Het [b [Hb [Hnum Hszx]]]]]]].
    assert (Hcode' : mcode mm = 2 \/ mcode mm = 3) by (rewrite Hc; exact Hcode).
    pose proof (size_pos (bszx b) Hszx) as Hsize.
    rewrite handle_received_path by (left; reflexivity).
    rewrite handle_received_upload by exact Hcode'. cbv zeta.
    cbn [epB eszx emax]. rewrite Hb, fit_min.
    set (mx := Z.min (bszx b) sB). assert (Hmx : 0 <= mx <= 7) by (unfold mx; lia).
    destruct Hr as [->|[cm [-> [Hcm Hcmt]]]].
    - destruct (bmore b) eqn:Hm.
      + rewrite (process_block1_first ap _ mm mx b Hcode' Hb Hobs Het) by (try reflexivity; exact Hm).
        cbv zeta. pose proof (size_pos (Z.min (bszx b) mx) ltac:(lia)) as Hs0.
        replace (bnum b * size (Z.min (bszx b) mx) =? 0) with false by (symmetry; apply Z.eqb_neq; nia).
        rewrite start_sending_cont by exact Hmx. rewrite Ht, receiving_epB, with_receiving_epB.
        eexists _, _, _. split; [reflexivity|]. split.
        * right. eexists. split; [reflexivity|]. split; [reflexivity|exact Ht].
        * left. eexists _, _, _. split; [reflexivity|]. split; lia.
      + rewrite (process_block1_orphan_last ap _ mm mx b Hcode' Hb Hobs) by (try reflexivity; try exact Hm; lia).
        rewrite Ht. eexists _, _, _. split; [reflexivity|]. split; [left; reflexivity|right; reflexivity].
    - rewrite (process_block1_cached ap _ mm mx b cm Hcode' Hb Hobs Het)
        by (try (rewrite Ht; apply tget_single); rewrite Hcmt, Ht; reflexivity).
      cbv zeta. rewrite Hcm. change (blen (@nil Z)) with 0.
      replace (bnum b * size (bszx b) =? 0) with false by (symmetry; apply Z.eqb_neq; nia).
      cbn [andb]. rewrite start_sending_cont by exact Hmx. rewrite Ht, receiving_epB, with_receiving_epB, tput_single.
      eexists _, _, _. split; [reflexivity|]. split.
      + right. eexists. split; [reflexivity|]. split; assumption.
      + left. eexists _, _, _. split; [reflexivity|]. split; lia.
  Qed.

  Lemma handleA_cont_orphan z n M : 0 <= z <= 7 -> 0 <= n ->
    handle app_a (epA [(tok, req)]) (contmsg tok z n M) = (epA [], None, [], 1) \/
    exists mm, handle app_a (epA [(tok, req)]) (contmsg tok z n M) = (epA [(tok, req)], Some mm, [], 0) /\ orphan mm.
  Proof.
    intros Hz Hn.
    erewrite (handle_continue app_a _ _ req {| bszx := z; bnum := n; bmore := M |});
      [|apply tget_single|reflexivity|reflexivity|exact Hcode].
    cbn [epA eszx emax]. pose proof (create_sending_orphan z n M Hz Hn) as Ho.
    destruct (create_sending req sA mA {| bszx := z; bnum := n; bmore := M |}) as [[sm more]|].
    - right. exists sm. split; [reflexivity|exact Ho].
    - left. cbn [contmsg mtok]. rewrite sending_epA, with_sending_epA, tdel_single. reflexivity.
  Qed.

  Lemma o1_step w : o1inv w ->
    o1inv (fst (step c w (Deliver 0))) /\ (mo_side (snd (step c w (Deliver 0))) = 1 -> mo_deliv (snd (step c w (Deliver 0))) = []).
  Proof.
    destruct w as [a b fl hist vs p]. unfold o1inv. cbn [wa wb pending flight].
    intros [sd [rcv [-> [-> [-> [Hs [Hr Hf]]]]]]].
    inversion Hf as [Hfl|mm Ho Hsnd Hfl|z n M Hz Hn Hsnd Hfl|Hfl]; subst fl.
    - cbn [step nth_error flight quiet fst snd wa wb pending mo_side]. split; [|discriminate].
      exists sd, rcv. repeat split; try assumption; constructor.
    - cbn [step nth_error flight with_flight remove_nth]. unfold arrive. cbn [wa wb whist vers pending flight with_flight].
      destruct (handleB_orphan (app_b c vs) rcv mm Hr Ho) as [rcv' [w [err [Hh [Hr' Hw]]]]].
      rewrite Hh. cbn [fst snd mo_deliv emit with_b wa wb pending flight List.app]. split; [|reflexivity].
      exists sd, rcv'. repeat split; try assumption.
      destruct Hw as [[z [n [M [-> [Hz Hn]]]]]| ->]; [apply o1_cont; assumption|apply o1_408].
    - subst sd. cbn [step nth_error flight with_flight remove_nth]. unfold arrive.
      cbn [wa wb whist vers pending flight with_flight].
      destruct (handleA_cont_orphan z n M Hz Hn) as [Hh|[mm [Hh Ho]]]; rewrite Hh; cbn [complete fst snd mo_side].
      + split; [|discriminate]. cbn [emit with_a with_pending wa wb pending flight].
        exists [], rcv. repeat split; try assumption; [left; reflexivity|constructor].
      + split; [|discriminate]. cbn [emit with_a with_pending wa wb pending flight List.app].
        exists [(tok, req)], rcv. repeat split; try assumption. apply o1_block; [exact Ho|reflexivity].
    - cbn [step nth_error flight with_flight remove_nth]. unfold arrive.
      cbn [wa wb whist vers pending flight with_flight].
      rewrite handle_plain_response; [|right; right; reflexivity|reflexivity|reflexivity|reflexivity].
      cbn [complete fst snd mo_side]. split; [|discriminate]. cbn [emit with_a with_pending wa wb pending flight].
      exists sd, rcv. repeat split; try assumption; constructor.
  Qed.

  Lemma o1_run n : forall w, o1inv w ->
    Forall (fun o => mo_side o = 1 -> mo_deliv o = []) (run c w (repeat (Deliver 0) n)).
  Proof.
    induction n as [|n IH]; intros w Hw; [constructor|].
    cbn [repeat]. rewrite run_cons. destruct (o1_step w Hw) as [Hw' Ho].
    constructor; [exact Ho|apply IH; exact Hw'].
  Qed.

  Lemma write_start_big : size sA <= L ->
    write_start (epA []) req = (epA [], Fail) \/
    exists sm, write_start (epA []) req = (epA [(tok, req)], Out (Some sm)) /\ orphan sm.
  Proof.
    intros Hge. unfold write_start, start_sending. cbn [epA eszx emax].
    replace (blen (mbody req) <? size sA) with false by (symmetry; apply Z.ltb_ge; exact Hge).
    pose proof (create_sending_orphan sA 0 true HsA ltac:(lia)) as Ho.
    destruct (create_sending req sA mA {| bszx := sA; bnum := 0; bmore := true |}) as [[sm more]|]; [|left; reflexivity].
    right. exists sm. split; [|exact Ho]. destruct Ho as [Hc [Ht [Hobs Hrest]]].
    unfold is_observe_response. rewrite Hobs, Ht. reflexivity.
  Qed.

  Lemma o1_start : xkind x = 1 -> size sA <= L ->
    o1inv (fst (step c (init c) (Start i))) /\ mo_deliv (snd (step c (init c) (Start i))) = [] /\
    mo_side (snd (step c (init c) (Start i))) = 2.
  Proof.
    intros Hkind Hge. rewrite init_mkw. unfold mkw. cbn [step]. rewrite Hnth, Hkind. cbn [Z.eqb Pos.eqb wa].
    rewrite Hreq. destruct (write_start_big Hge) as [Hw|[sm [Hw Ho]]]; rewrite Hw.
    - cbn [started emit fst snd mo_deliv mo_side with_a wa wb pending flight].
      split; [|split; reflexivity]. exists [], []. repeat split; try reflexivity.
      + left. reflexivity.
      + left. reflexivity.
      + constructor.
    - cbn [started emit fst snd mo_deliv mo_side with_a wa wb pending flight List.app].
      split; [|split; reflexivity]. exists [(tok, req)], []. repeat split; try reflexivity.
      + right. reflexivity.
      + left. reflexivity.
      + apply o1_block; [exact Ho|reflexivity].
  Qed.

  (* O1, all bodies of at least one block, every length of the run: B's application is never handed anything *)
  Theorem write_big_nothing : xkind x = 1 -> size sA <= L ->
    forall n, Forall (fun o => mo_side o = 1 -> mo_deliv o = []) (run c (init c) (Start i :: repeat (Deliver 0) n)).
  Proof.
    intros Hkind Hge n. rewrite run_cons. destruct (o1_start Hkind Hge) as [Hinv [Hd Hside]].
    constructor; [intros _; exact Hd|]. apply o1_run. exact Hinv.
  Qed.

  (* the first step in detail: the first wire message carries Block1 NUM = buffer/size >= 1 (or nothing is
     sent at all and the write fails: BERT with a body shorter than the buffer) *)
  Lemma write_big_first : xkind x = 1 -> size sA <= L ->
    (L < BA /\ mo_wire (snd (step c (init c) (Start i))) = None /\ mo_ret (snd (step c (init c) (Start i))) = [(Z.of_nat i, 1)]) \/
    (BA <= L /\ exists mm b, mo_wire (snd (step c (init c) (Start i))) = Some (true, mm) /\ mb1 mm = Some b /\
                            bnum b = BA / size sA /\ 1 <= bnum b /\ mo_ret (snd (step c (init c) (Start i))) = [(Z.of_nat i, 0)]).
  Proof.
    intros Hkind Hge. destruct (upload_code _ Hcode) as [_ [_ [H3 _]]].
    rewrite init_mkw. unfold mkw. cbn [step]. rewrite Hnth, Hkind. cbn [Z.eqb Pos.eqb wa].
    rewrite Hreq. unfold write_start, start_sending. cbn [epA eszx emax].
    replace (blen (mbody req) <? size sA) with false by (symmetry; apply Z.ltb_ge; exact Hge).
    unfold create_sending. cbn [req ureq mcode mbody bszx bnum]. rewrite H3, Z.min_id.
    rewrite Z.mul_0_l, Z.add_0_l.
    destruct (L <? BA) eqn:E.
    - left. apply Z.ltb_lt in E. split; [exact E|]. split; reflexivity.
    - right. apply Z.ltb_ge in E. split; [exact E|].
      unfold is_observe_response. cbn [set_body set_block mobs mtok sending tget req ureq epA].
      cbn [started snd mo_wire mo_ret].
      eexists _, _. split; [reflexivity|]. cbn [mb1]. split; [reflexivity|]. cbn [bnum]. split; [reflexivity|].
      split; [|reflexivity].
      destruct sz_facts as [_ [_ [_ [HsBA _]]]]. pose proof (size_pos sA HsA).
      apply Z.div_le_lower_bound; lia.
  Qed.
End Upload.

(* ------------------------------------------------------------------ summary of a trace *)
Definition deliv_to (side : Z) (tr : list mob) : list msg :=
  concat (map mo_deliv (filter (fun o => mo_side o =? side) tr)).
Definition no_mob : mob :=
  {| mo_side := 2; mo_in := None; mo_wire := None; mo_deliv := []; mo_err := 0; mo_ret := []; mo_sizes := [] |}.

Lemma deliv_to_app side a b : deliv_to side (a ++ b) = deliv_to side a ++ deliv_to side b.
Proof. unfold deliv_to. rewrite filter_app, map_app, concat_app. reflexivity. Qed.
Lemma deliv_to_quiet side tr : Forall (fun o => mo_deliv o = []) tr -> deliv_to side tr = [].
Proof.
  unfold deliv_to. induction 1 as [|o tr Ho _ IH]; [reflexivity|]. cbn [filter].
  destruct (mo_side o =? side); [cbn [map concat]; rewrite Ho, IH; reflexivity|exact IH].
Qed.
Lemma rets_quiet tr : Forall (fun o => mo_ret o = []) tr -> concat (map mo_ret tr) = [].
Proof. induction 1 as [|o tr Ho _ IH]; [reflexivity|]. cbn [map concat]. rewrite Ho, IH. reflexivity. Qed.
Lemma last_app2 {A} (l : list A) a b d : last (l ++ [a; b]) d = b.
Proof. induction l as [|y l IH]; [reflexivity|]. cbn [List.app]. destruct (l ++ [a; b]) eqn:E; [destruct l; discriminate|]. cbn [last]. exact IH. Qed.

Lemma blen_gen_body salt n : 0 <= n -> blen (gen_body salt (Z.to_nat n)) = n.
Proof. intros H. unfold blen. rewrite gen_body_length. lia. Qed.

(* ------------------------------------------------------------------ C04 progress, uploads *)
(* O2, exact region: the sender uses BERT, the body is longer than one block but shorter than the
   sender's first buffer, and the receiver either also uses BERT or its block size does not divide
   the body length *)
Definition o2_region (c : cfg) (len : Z) : Prop :=
  cszxA c = 7 /\ 1024 < len < buffer_size 7 (cmaxA c) /\ (cszxB c = 7 \/ len mod size (cszxB c) <> 0).

(* number of round trips = messages that reach B *)
Definition upload_rounds (c : cfg) (len : Z) : Z :=
  let bm := buffer_size (Z.min (cszxA c) (cszxB c)) (cmaxA c) in
  if len <=? size (cszxA c) then 1
  else (len + bm - 1) / bm + (if len <=? buffer_size (cszxA c) (cmaxA c) then 1 else 0).

Definition response_of (c : cfg) (x : exch) (r : res) : msg :=
  {| mcode := resp_code (xcode x); mtok := xtok x; mb1 := None; mb2 := None; ms1 := None; ms2 := None;
     metag := res_etag r 0; mobs := None; mother := [(12, rcf r)]; mbody := res_body r 0 |}.

Lemma not_o2_divides c len :
  0 <= cszxA c <= 7 -> 0 <= cszxB c <= 7 -> 0 <= cmaxA c -> (cszxA c = 7 -> 1024 <= cmaxA c) ->
  ~ o2_region c len -> size (cszxA c) < len ->
  Z.min (buffer_size (cszxA c) (cmaxA c)) len mod buffer_size (Z.min (cszxA c) (cszxB c)) (cmaxA c) = 0.
Proof.
  intros HsA HsB HmA Hbert Hno Hbig.
  destruct (upload_sizes _ _ _ HsA HsB HmA Hbert) as [Hs16 [[q [Hq HBm]] [[r0 [Hr0 HBA]] [HsBA [Hm6 Hm7]]]]].
  destruct (Z_le_gt_dec (buffer_size (cszxA c) (cmaxA c)) len) as [Hle|Hgt].
  - rewrite Z.min_l by lia. rewrite HBA. apply Z.mod_mul. lia.
  - rewrite Z.min_r by lia.
    destruct (Z.eq_dec (cszxA c) 7) as [E7|N7].
    + rewrite E7 in *. rewrite size_7 in Hbig.
      destruct (Z.eq_dec (cszxB c) 7) as [EB|NB].
      * exfalso. apply Hno. unfold o2_region. rewrite E7. split; [reflexivity|]. split; [lia|left; exact EB].
      * rewrite Z.min_r in * by lia. rewrite (buffer_size_small (cszxB c) (cmaxA c)) by lia.
        destruct (Z.eq_dec (len mod size (cszxB c)) 0) as [E0|N0]; [exact E0|].
        exfalso. apply Hno. unfold o2_region. rewrite E7. split; [reflexivity|]. split; [lia|right; exact N0].
    + exfalso. rewrite (buffer_size_small (cszxA c) (cmaxA c)) in Hgt by lia. lia.
Qed.

Theorem C04_upload_progress : forall c i x r,
  nth_error (cexch c) i = Some x -> xkind x = 0 -> xcode x = 2 \/ xcode x = 3 -> 0 <= xlen x ->
  0 <= cszxA c <= 7 -> 0 <= cszxB c <= 7 -> 0 <= cmaxA c -> (cszxA c = 7 -> 1024 <= cmaxA c) ->
  nth_error (cres c) (Z.to_nat (xpath x)) = Some r -> rlen r < 16 ->
  ~ o2_region c (xlen x) ->
  let n := (2 * Z.to_nat (upload_rounds c (xlen x)))%nat in
  let script := Start i :: repeat (Deliver 0) n in
  let tr := run c (init c) script in
  let block := size (Z.min (cszxA c) (cszxB c)) in
  deliv_to 1 tr = [request_of x] /\
  deliv_to 0 tr = [response_of c x r] /\
  Forall (fun o => mo_err o = 0) tr /\
  concat (map mo_ret tr) = [(Z.of_nat i, 0)] /\ mo_ret (last tr no_mob) = [(Z.of_nat i, 0)] /\
  mo_sizes (last tr no_mob) = [0; 0; 0; 0] /\
  flight (exec c (init c) script) = [] /\
  1 <= upload_rounds c (xlen x) <= (xlen x + block - 1) / block + 1.
Proof.
  intros c i x r Hnth Hkind Hcode Hlen HsA HsB HmA Hbert Hres Hsmall Hno n script tr block.
  set (body := gen_body (xsalt x) (Z.to_nat (xlen x))).
  assert (HL : blen body = xlen x) by (apply blen_gen_body; exact Hlen).
  assert (Hreq : request_of x = req (xcode x) (xtok x) [(11, xpath x)] body) by reflexivity.
  destruct (upload_sizes _ _ _ HsA HsB HmA Hbert) as [Hs16 [[q [Hq HBm]] [[r0 [Hr0 HBA]] [HsBA [Hm6 Hm7]]]]].
  assert (Hdiv : size (cszxA c) < blen body ->
                 first_len c body mod buffer_size (Z.min (cszxA c) (cszxB c)) (cmaxA c) = 0).
  { intros Hbig. unfold first_len. rewrite HL in *. apply not_o2_divides; assumption. }
  assert (Hrounds : rounds c body = upload_rounds c (xlen x)).
  { unfold rounds, upload_rounds. rewrite HL. destruct (xlen x <=? size (cszxA c)) eqn:E; [reflexivity|].
    apply Z.leb_gt in E.
    destruct (last_index_facts c body HsA HsB HmA Hbert) as [_ [_ [_ [_ [_ [_ [_ H]]]]]]];
      [rewrite HL; exact E|apply Hdiv; rewrite HL; exact E|].
    rewrite HL in H. exact H. }
  destruct (upload_do_trace c (xcode x) (xtok x) [(11, xpath x)] body HsA HsB HmA Hbert Hcode i x Hnth Hreq r Hres Hsmall
              Hkind Hdiv) as [pre [oB [oA [h [Htr [Hq' [HB [HA Hex]]]]]]]].
  rewrite Hrounds in Htr, Hex. fold n in Htr, Hex. fold script in Htr, Hex. fold tr in Htr.
  destruct HB as [HB1 [HB2 [HB3 [HB4 [HB5 HB6]]]]]. destruct HA as [HA1 [HA2 [HA3 [HA4 [HA5 [HA6 HA7]]]]]].
  assert (Hpd : Forall (fun o => mo_deliv o = []) pre) by (eapply Forall_impl; [|exact Hq']; intros o Ho; apply Ho).
  assert (Hpr : Forall (fun o => mo_ret o = []) pre) by (eapply Forall_impl; [|exact Hq']; intros o Ho; apply Ho).
  assert (Hpe : Forall (fun o => mo_err o = 0) pre) by (eapply Forall_impl; [|exact Hq']; intros o Ho; apply Ho).
  rewrite Htr.
  split.
  { rewrite deliv_to_app, (deliv_to_quiet 1 pre Hpd). unfold deliv_to. cbn [filter List.app].
    rewrite HB1, HA1. cbn [Z.eqb Pos.eqb map concat]. rewrite HB2, Hreq. reflexivity. }
  split.
  { rewrite deliv_to_app, (deliv_to_quiet 0 pre Hpd). unfold deliv_to. cbn [filter List.app].
    rewrite HB1, HA1. cbn [Z.eqb Pos.eqb map concat]. rewrite HA3. reflexivity. }
  split.
  { apply Forall_app. split; [exact Hpe|]. constructor; [exact HB4|]. constructor; [exact HA5|constructor]. }
  split.
  { rewrite map_app, concat_app, (rets_quiet pre Hpr). cbn [map concat List.app]. rewrite HB5, HA6. reflexivity. }
  rewrite last_app2.
  split; [exact HA6|]. split; [exact HA7|]. split; [rewrite Hex; reflexivity|].
  (* the bound *)
  unfold upload_rounds. fold block.
  assert (Hc0 : 0 <= (xlen x + block - 1) / block) by (apply Z.div_pos; lia).
  destruct (xlen x <=? size (cszxA c)) eqn:E; [lia|]. apply Z.leb_gt in E.
  set (bm := buffer_size (Z.min (cszxA c) (cszxB c)) (cmaxA c)) in *.
  assert (Hb16 : 16 <= block) by exact Hs16.
  assert (HBm' : bm = q * block) by exact HBm.
  set (a := (xlen x + block - 1) / block) in *.
  assert (Ha : xlen x <= a * block) by (unfold a; clearbody block; lia).
  clearbody a.
  assert (Hqb : 1 * block <= q * block) by (apply Z.mul_le_mono_nonneg_r; lia).
  assert (Hbm : 16 <= bm) by lia.
  assert (Habm : xlen x <= a * bm).
  { rewrite HBm'. assert (a * (1 * block) <= a * (q * block)) by (apply Z.mul_le_mono_nonneg_l; lia). lia. }
  assert (Hle : (xlen x + bm - 1) / bm <= a).
  { assert ((xlen x + bm - 1) / bm < a + 1) as Hlt; [|clear - Hlt; lia]. apply Z.div_lt_upper_bound; [lia|].
    clear - Habm Hbm. lia. }
  assert (Hge : 1 <= (xlen x + bm - 1) / bm).
  { apply Z.div_le_lower_bound; [lia|]. pose proof (size_pos (cszxA c) HsA) as H16. clear - H16 E Hbm. lia. }
  clear - Hle Hge Hc0. destruct (xlen x <=? buffer_size (cszxA c) (cmaxA c)); lia.
Qed.

(* ------------------------------------------------------------------ O2 refuted *)
Definition err_count (tr : list mob) : Z := fold_right Z.add 0 (map mo_err tr).
Lemma err_count_app a b : err_count (a ++ b) = err_count a + err_count b.
Proof. unfold err_count. induction a as [|o a IH]; [reflexivity|]. cbn [List.app map fold_right]. rewrite IH. ring. Qed.
Lemma err_count_quiet tr : Forall (fun o => mo_err o = 0) tr -> err_count tr = 0.
Proof. unfold err_count. induction 1 as [|o tr Ho _ IH]; [reflexivity|]. cbn [map fold_right]. rewrite Ho, IH. reflexivity. Qed.
Lemma last_snoc {A} (l : list A) a d : last (l ++ [a]) d = a.
Proof. induction l as [|y l IH]; [reflexivity|]. cbn [List.app]. destruct (l ++ [a]) eqn:E; [destruct l; discriminate|]. cbn [last]. exact IH. Qed.
Lemma last_app_nonnil {A} (l l' : list A) d : l' <> [] -> last (l ++ l') d = last l' d.
Proof.
  intros H. induction l as [|y l IH]; [reflexivity|]. rewrite <- IH. cbn [List.app].
  destruct (l ++ l') eqn:E; [|reflexivity]. apply app_eq_nil in E. destruct E as [_ E]. contradiction.
Qed.
Lemma last_repeat {A} (a d : A) n : last (repeat a (S n)) d = a.
Proof. induction n as [|n IH]; [reflexivity|]. cbn [repeat last] in *. exact IH. Qed.
Lemma Forall_repeat {A} (P : A -> Prop) a n : P a -> Forall P (repeat a n).
Proof. intros H. induction n; cbn [repeat]; constructor; assumption. Qed.

Lemma o2_region_fails c len :
  0 <= cszxA c <= 7 -> 0 <= cszxB c <= 7 -> 0 <= cmaxA c -> (cszxA c = 7 -> 1024 <= cmaxA c) ->
  o2_region c len ->
  size (cszxA c) < len /\ len < buffer_size (cszxA c) (cmaxA c) /\
  len mod buffer_size (Z.min (cszxA c) (cszxB c)) (cmaxA c) <> 0.
Proof.
  intros HsA HsB HmA Hbert [E7 [Hlen Hdis]].
  rewrite E7 in *. rewrite size_7. split; [lia|]. split; [lia|].
  destruct Hdis as [EB|Hnd].
  - rewrite EB. rewrite Z.min_id. rewrite Z.mod_small by lia. lia.
  - destruct (Z.eq_dec (cszxB c) 7) as [EB|NB].
    + rewrite EB. rewrite Z.min_id. rewrite Z.mod_small by lia. lia.
    + rewrite Z.min_r by lia. rewrite (buffer_size_small (cszxB c) (cmaxA c)) by lia. exact Hnd.
Qed.

(* inside the O2 region (and only there, see C04_upload_progress) a fault-free upload hands NOTHING to
   an application, the Do never returns, the sender's error callback fires once (A drops its state and
   sends nothing more), B's reassembly state stays behind, and further Deliver events find nothing in
   flight *)
Theorem C04_upload_O2_refuted : forall c i x,
  nth_error (cexch c) i = Some x -> xkind x = 0 -> xcode x = 2 \/ xcode x = 3 -> 0 <= xlen x ->
  0 <= cszxA c <= 7 -> 0 <= cszxB c <= 7 -> 0 <= cmaxA c -> (cszxA c = 7 -> 1024 <= cmaxA c) ->
  o2_region c (xlen x) ->
  let bm := buffer_size (Z.min (cszxA c) (cszxB c)) (cmaxA c) in
  let n0 := (2 * Z.to_nat (xlen x / bm) + 2)%nat in
  forall n,
  let script := Start i :: repeat (Deliver 0) (n0 + n) in
  let tr := run c (init c) script in
  deliv_to 1 tr = [] /\ deliv_to 0 tr = [] /\ concat (map mo_ret tr) = [] /\
  err_count tr = 1 /\ Exists (fun o => mo_side o = 0 /\ mo_err o = 1 /\ mo_wire o = None) tr /\
  mo_sizes (last tr no_mob) = [0; 0; 0; 1] /\
  flight (exec c (init c) script) = [].
Proof.
  intros c i x Hnth Hkind Hcode Hlen HsA HsB HmA Hbert Hreg bm n0 n script tr.
  set (body := gen_body (xsalt x) (Z.to_nat (xlen x))).
  assert (HL : blen body = xlen x) by (apply blen_gen_body; exact Hlen).
  assert (Hreq : request_of x = req (xcode x) (xtok x) [(11, xpath x)] body) by reflexivity.
  destruct (o2_region_fails c (xlen x) HsA HsB HmA Hbert Hreg) as [Hbig [Hlt Hnd]].
  rewrite <- HL in Hbig, Hlt, Hnd.
  destruct (upload_o2_trace c (xcode x) (xtok x) [(11, xpath x)] body HsA HsB HmA Hbert Hcode i x Hnth Hreq Hkind Hbig Hlt Hnd)
    as [pre [oE [h [Htr [Hq [HE Hex]]]]]].
  rewrite HL in Htr, Hex. fold bm in Htr, Hex. fold n0 in Htr, Hex.
  unfold tr, script. rewrite repeat_add, app_comm_cons, run_app, exec_app, Htr, Hex.
  match type of Hex with _ = ?w => set (wE := w) in * end.
  assert (HfE : flight wE = []) by reflexivity.
  rewrite (run_idle c wE n HfE), (exec_idle c wE n HfE).
  set (idle := snd (quiet wE)).
  assert (Hpd : Forall (fun o => mo_deliv o = []) pre) by (eapply Forall_impl; [|exact Hq]; intros o Ho; apply Ho).
  assert (Hpr : Forall (fun o => mo_ret o = []) pre) by (eapply Forall_impl; [|exact Hq]; intros o Ho; apply Ho).
  assert (Hpe : Forall (fun o => mo_err o = 0) pre) by (eapply Forall_impl; [|exact Hq]; intros o Ho; apply Ho).
  destruct HE as [HE1 [HE2 [HE3 [HE4 [HE5 HE6]]]]].
  assert (Hall : Forall (fun o => mo_deliv o = []) ((pre ++ [oE]) ++ repeat idle n)).
  { apply Forall_app. split; [apply Forall_app; split; [exact Hpd|constructor; [exact HE2|constructor]]|].
    apply Forall_repeat. reflexivity. }
  split; [apply deliv_to_quiet; exact Hall|]. split; [apply deliv_to_quiet; exact Hall|].
  split.
  { apply rets_quiet. apply Forall_app. split; [apply Forall_app; split; [exact Hpr|constructor; [exact HE5|constructor]]|].
    apply Forall_repeat. reflexivity. }
  split.
  { rewrite !err_count_app. rewrite (err_count_quiet pre Hpe).
    rewrite (err_count_quiet (repeat idle n)) by (apply Forall_repeat; reflexivity).
    unfold err_count. cbn [map fold_right]. rewrite HE4. reflexivity. }
  split.
  { apply Exists_app. left. apply Exists_app. right. constructor. auto. }
  split; [|exact HfE].
  destruct n as [|n].
  - cbn [repeat]. rewrite app_nil_r, last_snoc. exact HE6.
  - rewrite last_app_nonnil by (cbn [repeat]; discriminate).
    rewrite last_repeat. reflexivity.
Qed.

(* ------------------------------------------------------------------ O1: one-way writes *)
Lemma deliv_to_side side tr : Forall (fun o => mo_side o = side -> mo_deliv o = []) tr -> deliv_to side tr = [].
Proof.
  unfold deliv_to. induction 1 as [|o tr Ho _ IH]; [reflexivity|]. cbn [filter].
  destruct (mo_side o =? side) eqn:E; [|exact IH]. apply Z.eqb_eq in E. cbn [map concat]. rewrite (Ho E), IH. reflexivity.
Qed.

(* O1: a one-way write (WriteMessage) of a POST/PUT whose body is at least one block of the sender never
   reaches B's application, whatever the body length, the SZX pair and the number of deliveries: the first
   wire message is already block NUM >= 1 (write_big_first) *)
Theorem C04_write_O1_nothing : forall c i x,
  nth_error (cexch c) i = Some x -> xkind x = 1 -> xcode x = 2 \/ xcode x = 3 -> 0 <= xlen x ->
  0 <= cszxA c <= 7 -> 0 <= cszxB c <= 7 -> 0 <= cmaxA c -> (cszxA c = 7 -> 1024 <= cmaxA c) ->
  size (cszxA c) <= xlen x ->
  forall n, deliv_to 1 (run c (init c) (Start i :: repeat (Deliver 0) n)) = [].
Proof.
  intros c i x Hnth Hkind Hcode Hlen HsA HsB HmA Hbert Hbig n.
  set (body := gen_body (xsalt x) (Z.to_nat (xlen x))).
  assert (HL : blen body = xlen x) by (apply blen_gen_body; exact Hlen).
  assert (Hreq : request_of x = req (xcode x) (xtok x) [(11, xpath x)] body) by reflexivity.
  apply deliv_to_side.
  apply (write_big_nothing c (xcode x) (xtok x) [(11, xpath x)] body HsA HsB HmA Hbert Hcode i x Hnth Hreq Hkind).
  rewrite HL. exact Hbig.
Qed.

(* ... and a body shorter than one block is delivered exactly once, with the exact body *)
Theorem C04_write_small_delivered : forall c i x r,
  nth_error (cexch c) i = Some x -> xkind x = 1 -> xcode x = 2 \/ xcode x = 3 -> 0 <= xlen x ->
  0 <= cszxA c <= 7 -> 0 <= cszxB c <= 7 -> 0 <= cmaxA c -> (cszxA c = 7 -> 1024 <= cmaxA c) ->
  nth_error (cres c) (Z.to_nat (xpath x)) = Some r -> rlen r < 16 ->
  xlen x < size (cszxA c) ->
  let script := [Start i; Deliver 0; Deliver 0] in
  let tr := run c (init c) script in
  deliv_to 1 tr = [request_of x] /\ deliv_to 0 tr = [response_of c x r] /\
  Forall (fun o => mo_err o = 0) tr /\ concat (map mo_ret tr) = [(Z.of_nat i, 0)] /\
  mo_sizes (last tr no_mob) = [0; 0; 0; 0] /\ flight (exec c (init c) script) = [].
Proof.
  intros c i x r Hnth Hkind Hcode Hlen HsA HsB HmA Hbert Hres Hsmall Hlt script tr.
  set (body := gen_body (xsalt x) (Z.to_nat (xlen x))).
  assert (HL : blen body = xlen x) by (apply blen_gen_body; exact Hlen).
  assert (Hreq : request_of x = req (xcode x) (xtok x) [(11, xpath x)] body) by reflexivity.
  destruct (write_small_trace c (xcode x) (xtok x) [(11, xpath x)] body HsA HsB Hcode i x Hnth Hreq r Hres Hsmall Hkind)
    as [o0 [oB [oA [h [Htr [[H01 [H02 [H03 H04]]] [[HB1 [HB2 [HB3 HB4]]] [[HA1 [HA2 [HA3 [HA4 HA5]]]] Hex]]]]]]]].
  { rewrite HL. exact Hlt. }
  unfold tr, script. rewrite Htr, Hex. unfold deliv_to. cbn [filter].
  rewrite H01, HB1, HA1. cbn [Z.eqb Pos.eqb map concat last]. rewrite HB2, HA2, H04, HB4, HA4, HA5.
  split; [rewrite Hreq; reflexivity|]. split; [reflexivity|].
  split; [repeat constructor; assumption|]. repeat split.
Qed.

(* ------------------------------------------------------------------ the upload phase, packaged *)
(* For composition with a block-wise response (PUT/POST answered with a large body): the world just
   before B's Handle hands the reassembled request to its application, for ANY application at B.
   A holds sending[tok] = request; B holds receiving[tok] = the first wire message with the body
   replaced by the request body minus the last block; the last block (M = 0, offset = length of B's
   buffer) is the only message in flight; the Do is pending; nothing was handed over, no error, no
   return so far.  Handle at B of that block = the reassembled request (Block1/Size1 removed) goes to
   the application, the receiving entry is removed, the application's answer goes through
   startSendingMessage with SZX limit min(szxA, szxB). *)
Theorem C04_upload_phase : forall c i x,
  nth_error (cexch c) i = Some x -> xkind x = 0 -> xcode x = 2 \/ xcode x = 3 -> 0 <= xlen x ->
  0 <= cszxA c <= 7 -> 0 <= cszxB c <= 7 -> 0 <= cmaxA c -> (cszxA c = 7 -> 1024 <= cmaxA c) ->
  size (cszxA c) < xlen x -> ~ o2_region c (xlen x) ->
  let body := gen_body (xsalt x) (Z.to_nat (xlen x)) in
  let tok := xtok x in
  let m := Z.min (cszxA c) (cszxB c) in
  let bm := buffer_size m (cmaxA c) in
  let k := upload_rounds c (xlen x) - 1 in
  let off := k * bm in
  let lastblk := blk c (xcode x) tok [(11, xpath x)] body off in
  let held := entry c (xcode x) tok [(11, xpath x)] body off in
  let script := Start i :: repeat (Deliver 0) (2 * Z.to_nat k) in
  exists h,
    exec c (init c) script =
      {| wa := epA c [(tok, request_of x)]; wb := epB c [(tok, held)]; flight := [(true, lastblk)];
         whist := h; vers := []; pending := [(i, tok)] |} /\
    Forall (fun o => mo_deliv o = [] /\ mo_err o = 0 /\ mo_ret o = []) (run c (init c) script) /\
    1 <= k /\ 0 <= off <= xlen x /\
    mb1 lastblk = Some {| bszx := m; bnum := off / size m; bmore := false |} /\
    mcode lastblk = xcode x /\ mtok lastblk = tok /\
    mbody held = firstn (Z.to_nat off) body /\ mbody held ++ mbody lastblk = body /\
    forall ap,
      handle ap (epB c [(tok, held)]) lastblk =
        let '(e2, o2) := start_sending (epB c []) (ap tok (request_of x)) m (cmaxB c)
                                       {| bszx := cszxB c; bnum := 0; bmore := true |} in
        match o2 with
        | Out w => (e2, w, [request_of x], 0)
        | Fail => (e2, Some (entity_incomplete tok), [request_of x], 1)
        end.
Proof.
  intros c i x Hnth Hkind Hcode Hlen HsA HsB HmA Hbert Hbig Hno body tok m bm k off lastblk held script.
  assert (HL : blen body = xlen x) by (apply blen_gen_body; exact Hlen).
  assert (Hreq : request_of x = req (xcode x) tok [(11, xpath x)] body) by reflexivity.
  assert (Hbig' : size (cszxA c) < blen body) by (rewrite HL; exact Hbig).
  assert (Hdiv : first_len c body mod bm = 0).
  { unfold first_len. rewrite HL. apply not_o2_divides; assumption. }
  assert (Hk : k = last_index c body).
  { destruct (last_index_facts c body HsA HsB HmA Hbert Hbig' Hdiv) as [_ [_ [_ [_ [_ [_ [_ H]]]]]]].
    rewrite HL in H. unfold k, upload_rounds, bm, m. cbv zeta.
    replace (xlen x <=? size (cszxA c)) with false by (symmetry; apply Z.leb_gt; exact Hbig).
    rewrite <- H. ring. }
  destruct (upload_phase c (xcode x) tok [(11, xpath x)] body HsA HsB HmA Hbert Hcode i x Hnth Hreq Hkind Hbig' Hdiv)
    as [h [Hex [Hq [Hal [Hoff [Hend Hk1]]]]]].
  rewrite <- Hk in Hex, Hq, Hal, Hoff, Hend, Hk1. fold m bm off script in Hex, Hq, Hal, Hoff, Hend.
  exists h. split; [exact Hex|].
  split; [eapply Forall_impl; [|exact Hq]; intros o [H1 [H2 [H3 _]]]; auto|].
  split; [exact Hk1|]. split; [rewrite <- HL; exact Hoff|].
  assert (Hm : more_at c body off = false) by (apply (more_at_false c body HsA HsB HmA Hbert off Hoff); exact Hend).
  split; [unfold lastblk, blk, ublock; cbn [mb1]; rewrite Hm; reflexivity|].
  split; [reflexivity|]. split; [reflexivity|]. split; [reflexivity|].
  split.
  { unfold held, lastblk, entry, blk, ublock. cbn [mbody]. apply firstn_chunk_all; [exact Hoff| |].
    - pose proof (Bm_pos c HsA HsB HmA Hbert) as HB. change (16 <= bm) in HB. change (0 <= bm). lia.
    - apply (chunk_rest c body HsA HsB HmA Hbert off Hoff Hend). }
  intros ap. exact (handleB_last c (xcode x) tok [(11, xpath x)] body HsA HsB HmA Hbert Hcode ap off Hal Hoff Hend).
Qed.

(* ------------------------------------------------------------------ sanity: witnesses by computation *)
(* (not part of the proofs above: they show that the hypotheses are satisfiable, that the regions are
   inhabited and that the boundaries are where the theorems put them) *)
Definition demo_cfg (sa ma sb mb kind code len rlen : Z) : cfg :=
  Cfg sa ma sb mb [X kind code 7 0 5 len None] [R 11 rlen false 42] [].
Definition demo_summary (c : cfg) (n : nat) :=
  let tr := run c (init c) (Start 0 :: repeat (Deliver 0) n) in
  (map (fun mm => blen (mbody mm)) (deliv_to 1 tr), map (fun mm => (mcode mm, blen (mbody mm))) (deliv_to 0 tr),
   err_count tr, concat (map mo_ret tr), mo_sizes (last tr no_mob)).

(* the theorem applies: SZX 2 against SZX 0, 150 bytes, 10 round trips (B is ahead for blocks 1..3) *)
Example demo_progress :
  let c := demo_cfg 2 1152 0 1152 0 2 150 5 in
  upload_rounds c 150 = 10 /\ ~ o2_region c 150 /\
  demo_summary c 20 = ([150], [(68, 5)], 0, [(0, 0)], [0; 0; 0; 0]).
Proof. split; [reflexivity|]. split; [intros [H _]; discriminate H|vm_compute; reflexivity]. Qed.

(* O2: inside the region (BERT 4096 against BERT, 2048 bytes; BERT 4096 against SZX 6, 3000 bytes) nothing is
   delivered, one error; on its borders the upload succeeds: body = buffer (4096), body = 1024 (not
   block-wise), and against SZX 6 a body that is a multiple of 1024 (2048) *)
Example demo_o2_inside :
  o2_region (demo_cfg 7 4096 7 4096 0 2 2048 5) 2048 /\ o2_region (demo_cfg 7 4096 6 1024 0 2 3000 5) 3000 /\
  demo_summary (demo_cfg 7 4096 7 4096 0 2 2048 5) 12 = ([], [], 1, [], [0; 0; 0; 1]) /\
  demo_summary (demo_cfg 7 4096 6 1024 0 2 3000 5) 12 = ([], [], 1, [], [0; 0; 0; 1]).
Proof.
  split; [split; [reflexivity|split; [split; reflexivity|left; reflexivity]]|].
  split; [split; [reflexivity|split; [split; reflexivity|right; vm_compute; discriminate]]|].
  split; vm_compute; reflexivity.
Qed.
Example demo_o2_border :
  demo_summary (demo_cfg 7 4096 7 4096 0 2 4096 5) 4 = ([4096], [(68, 5)], 0, [(0, 0)], [0; 0; 0; 0]) /\
  demo_summary (demo_cfg 7 4096 7 4096 0 2 1024 5) 2 = ([1024], [(68, 5)], 0, [(0, 0)], [0; 0; 0; 0]) /\
  demo_summary (demo_cfg 7 4096 6 1024 0 2 2048 5) 6 = ([2048], [(68, 5)], 0, [(0, 0)], [0; 0; 0; 0]) /\
  upload_rounds (demo_cfg 7 4096 7 4096 0 2 4096 5) 4096 = 2 /\
  upload_rounds (demo_cfg 7 4096 6 1024 0 2 2048 5) 2048 = 3.
Proof. repeat split; vm_compute; reflexivity. Qed.

(* O1: one-way POST of 50 bytes at SZX 0: blocks 1, 2, 3 reach B, nothing is delivered, the sender ends in an
   error and B's (empty) reassembly state stays; 15 bytes are delivered *)
Example demo_o1 :
  demo_summary (demo_cfg 0 1152 0 1152 1 2 50 5) 10 = ([], [], 1, [(0, 0)], [0; 0; 0; 1]) /\
  demo_summary (demo_cfg 0 1152 0 1152 1 2 15 5) 2 = ([15], [(68, 5)], 0, [(0, 0)], [0; 0; 0; 0]).
Proof. split; vm_compute; reflexivity. Qed.

Print Assumptions C04_upload_progress.
Print Assumptions C04_upload_phase.
Print Assumptions C04_upload_O2_refuted.
Print Assumptions C04_write_O1_nothing.
Print Assumptions C04_write_small_delivered.
